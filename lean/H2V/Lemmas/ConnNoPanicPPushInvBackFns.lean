import H2V.Lemmas.ConnNoPanicPPushInvBack
/-
  C08 (no panic) — PUSH_PROMISE bookkeeping, stage 2, part 12: `f_hb` for the light functions (generated from the `f_pp` list); the functions that pop `pending_recv` of a handle's stream take `¬ Held s k`.
-/
namespace H2V.Lemmas.ConnNoPanicP
open H2V H2V.Model H2V.Model.Conn H2V.Lemmas.ConnCountsP
attribute [local irreducible] wrapSubU32 wrapSubUsize

theorem queueOpen_hb (s : Streams) (k : Nat) : HB s (s.queueOpen k) := by
  unfold Streams.queueOpen; hb_auto
theorem assignConnectionCapacityLoop_hb (n : Nat) (s : Streams) : HB s (Streams.assignConnectionCapacityLoop n s) := by
  induction n generalizing s with
  | zero => unfold Streams.assignConnectionCapacityLoop; exact .refl _
  | succ n ih =>
    unfold Streams.assignConnectionCapacityLoop
    repeat (first | hb_step | with_reducible refine HB.trans ?_ (ih ..) | hb_side | intro _ | split | dsimp only)
theorem assignConnectionCapacity_hb (s : Streams) (inc : Nat) : HB s (s.assignConnectionCapacity inc) := by
  unfold Streams.assignConnectionCapacity; hb_auto
theorem reserveCapacity_hb (s : Streams) (k cap : Nat) : HB s (s.reserveCapacity k cap) := by
  unfold Streams.reserveCapacity; hb_auto
theorem recvConnectionWindowUpdate_hb (s : Streams) (inc : Nat) : HB s (s.recvConnectionWindowUpdate inc).1 := by
  unfold Streams.recvConnectionWindowUpdate; hb_auto
theorem reclaimAllCapacity_hb (s : Streams) (k : Nat) : HB s (s.reclaimAllCapacity k) := by
  unfold Streams.reclaimAllCapacity; hb_auto
theorem clearQueue_hb (s : Streams) (k : Nat) : HB s (s.clearQueue k) := by
  unfold Streams.clearQueue; hb_auto
theorem sendOpenId_hb (s : Streams) : HB s s.sendOpenId.1 := by
  unfold Streams.sendOpenId; hb_auto
theorem sendHeaders_hb (s : Streams) (k : Nat) (eos : Bool) (f : List Hpack.Field) : HB s (s.sendHeaders k eos f).1 := by
  unfold Streams.sendHeaders; hb_auto
theorem sendReserveLocal_hb (s : Streams) : HB s s.sendReserveLocal.1 := by
  unfold Streams.sendReserveLocal; hb_auto
theorem sendPushPromise_hb (s : Streams) (p pk pid : Nat) (f : List Hpack.Field) : HB s (s.sendPushPromise p pk pid f).1 := by
  unfold Streams.sendPushPromise; hb_auto
theorem sendInterimInformationalHeaders_hb (s : Streams) (k : Nat) (f : List Hpack.Field) : HB s (s.sendInterimInformationalHeaders k f).1 := by
  unfold Streams.sendInterimInformationalHeaders; hb_auto
theorem sendSendReset_hb (s : Streams) (k : Nat) (r : Reason) (i : Initiator) : HB s (s.sendSendReset k r i) := by
  unfold Streams.sendSendReset; hb_auto
theorem pollCapacity_hb (s : Streams) (k : Nat) (tag : String) : HB s (s.pollCapacity k tag).1 := by
  unfold Streams.pollCapacity; hb_auto
theorem pollReset_hb (s : Streams) (k : Nat) (m : PollReset) (tag : String) : HB s (s.pollReset k m tag).1 := by
  unfold Streams.pollReset; hb_auto
theorem sendRecvGoAway_hb (s : Streams) (l : Nat) : HB s (s.sendRecvGoAway l).1 := by
  unfold Streams.sendRecvGoAway; hb_auto
theorem sendHandleError_hb (s : Streams) (k : Nat) : HB s (s.sendHandleError k) := by
  unfold Streams.sendHandleError; hb_auto
theorem sendMaybeResetNextStreamId_hb (s : Streams) (id : Nat) : HB s (s.sendMaybeResetNextStreamId id) := by
  unfold Streams.sendMaybeResetNextStreamId; hb_auto
theorem sendTrailers_hb (s : Streams) (k : Nat) (f : List Hpack.Field) : HB s (s.sendTrailers k f).1 := by
  unfold Streams.sendTrailers; hb_auto
theorem prioSendData_hb (s : Streams) (k len : Nat) (eos : Bool) : HB s (s.prioSendData k len eos).1 := by
  unfold Streams.prioSendData; hb_auto
theorem reclaimReservedCapacity_hb (s : Streams) (k : Nat) : HB s (s.reclaimReservedCapacity k) := by
  unfold Streams.reclaimReservedCapacity; hb_auto
theorem scheduleImplicitReset_hb (s : Streams) (k : Nat) (r : Reason) : HB s (s.scheduleImplicitReset k r) := by
  unfold Streams.scheduleImplicitReset; hb_auto
theorem prioRecvStreamWindowUpdate_hb (s : Streams) (k inc : Nat) : HB s (s.prioRecvStreamWindowUpdate k inc).1 := by
  unfold Streams.prioRecvStreamWindowUpdate; hb_auto
theorem sendRecvStreamWindowUpdate_hb (s : Streams) (k sz : Nat) : HB s (s.sendRecvStreamWindowUpdate k sz).1 := by
  unfold Streams.sendRecvStreamWindowUpdate; hb_auto
theorem decStreamWindow_hb (dec acc : Nat) (s : Streams) (k : Nat) : HB s (Streams.decStreamWindow dec acc s k).1 := by
  unfold Streams.decStreamWindow; hb_auto
theorem releaseConnectionCapacity_hb (s : Streams) (c : Nat) (b : Bool) : HB s (s.releaseConnectionCapacity c b) := by
  unfold Streams.releaseConnectionCapacity; hb_auto
theorem releaseCapacity_hb (s : Streams) (k c : Nat) (b : Bool) : HB s (s.releaseCapacity k c b).1 := by
  unfold Streams.releaseCapacity; hb_auto
theorem clearRecvBuffer_hb (s : Streams) (k : Nat) (b : Bool) (hk : ¬ Held s k) : HB s (s.clearRecvBuffer k b) := by
  unfold Streams.clearRecvBuffer
  dsimp only
  have h0 : HB s { s with counts := (Streams.clearRecvBufferLoop (s.stream k).inFlightRecvData (s.stream k).pendingRecv 0 s.counts).2 } :=
    .of_store rfl rfl
  have hk0 : ¬ Held ({ s with counts := (Streams.clearRecvBufferLoop (s.stream k).inFlightRecvData (s.stream k).pendingRecv 0 s.counts).2 } : Streams) k := hk
  split
  · hb_auto
  · hb_auto
theorem releaseClosedCapacity_hb (s : Streams) (k : Nat) (hk : ¬ Held s k) : HB s (s.releaseClosedCapacity k) := by
  unfold Streams.releaseClosedCapacity
  dsimp only
  generalize hs1 : (if ((s.stream k).inFlightRecvData != 0) = true then _ else s) = s1
  have h1 : HB s s1 := by rw [← hs1]; hb_auto
  exact h1.trans (clearRecvBuffer_hb s1 k true (fun h => hk (h1.back k h).1))
theorem consumeConnectionWindow_hb (s : Streams) (sz : Nat) : HB s (s.consumeConnectionWindow sz).1 := by
  unfold Streams.consumeConnectionWindow; hb_auto
theorem ignoreData_hb (s : Streams) (sz : Nat) : HB s (s.ignoreData sz).1 := by
  unfold Streams.ignoreData; hb_auto
theorem recvOpen_hb (s : Streams) (id : Nat) (b : Bool) : HB s (s.recvOpen id b).1 := by
  unfold Streams.recvOpen; hb_auto
theorem incNumRecvStreams_hb (s : Streams) (k : Nat) : HB s (s.incNumRecvStreams k) := by
  unfold Streams.incNumRecvStreams; hb_auto
theorem incNumSendStreams_hb (s : Streams) (k : Nat) : HB s (s.incNumSendStreams k) := by
  unfold Streams.incNumSendStreams; hb_auto
theorem notifyPushIfRecvEnded_hb (s : Streams) (k : Nat) : HB s (s.notifyPushIfRecvEnded k) := by
  unfold Streams.notifyPushIfRecvEnded; hb_auto
theorem recvRecvTrailers_hb (s : Streams) (k : Nat) (h : HeadersIn) : HB s (s.recvRecvTrailers k h).1 := by
  unfold Streams.recvRecvTrailers; hb_auto
theorem recvRecvPushPromise_hb (s : Streams) (k : Nat) (h : HeadersIn) : HB s (s.recvRecvPushPromise k h).1 := by
  unfold Streams.recvRecvPushPromise; hb_auto
theorem recvHandleError_hb (s : Streams) (k : Nat) (e : PErr) : HB s (s.recvHandleError k e) := by
  unfold Streams.recvHandleError; hb_auto
theorem recvGoAway_hb (s : Streams) (l : Nat) : HB s (s.recvGoAway l) := by
  unfold Streams.recvGoAway; hb_auto
theorem recvRecvEof_hb (s : Streams) (k : Nat) : HB s (s.recvRecvEof k) := by
  unfold Streams.recvRecvEof; hb_auto
theorem recvMaybeResetNextStreamId_hb (s : Streams) (id : Nat) : HB s (s.recvMaybeResetNextStreamId id) := by
  unfold Streams.recvMaybeResetNextStreamId; hb_auto
theorem sendPendingRefusal_hb (s : Streams) (w : Writer) : HB s (s.sendPendingRefusal w).1 := by
  unfold Streams.sendPendingRefusal; hb_auto
theorem scheduleRecv_hb (s : Streams) (k : Nat) (t : String) : HB s (s.scheduleRecv k t).1 := by
  unfold Streams.scheduleRecv; hb_auto
theorem recvPollData_hb (s : Streams) (k : Nat) (t : String) (hk : ¬ Held s k) : HB s (s.recvPollData k t).1 := by
  unfold Streams.recvPollData; hb_auto
theorem recvPollTrailers_hb (s : Streams) (k : Nat) (t : String) (hk : ¬ Held s k) : HB s (s.recvPollTrailers k t).1 := by
  unfold Streams.recvPollTrailers; hb_auto
theorem recvPollInformational_hb (s : Streams) (k : Nat) (t : String) (hk : ¬ Held s k) : HB s (s.recvPollInformational k t).1 := by
  unfold Streams.recvPollInformational; hb_auto
theorem enqueueResetExpiration_hb (s : Streams) (k : Nat) : HB s (s.enqueueResetExpiration k) := by
  unfold Streams.enqueueResetExpiration; hb_auto
theorem recvRecvReset_hb (s : Streams) (k : Nat) (r : Reason) : HB s (s.recvRecvReset k r).1 := by
  unfold Streams.recvRecvReset; hb_auto
theorem recvRecvHeaders_hb (s : Streams) (k : Nat) (h : HeadersIn) : HB s (s.recvRecvHeaders k h).1 := by
  unfold Streams.recvRecvHeaders
  split
  · exact .refl _
  · next st' isInitial heq =>
    dsimp only
    generalize hs1 : Streams.modStream s k _ = s1
    have h1 : HB s s1 := by rw [← hs1]; exact modStream_hb _ _ _ (.inl fun _ => ⟨rfl, rfl, rfl, [], (List.append_nil _).symm⟩)
    split
    · exact h1
    · generalize hs2 : (if (isInitial && !(s1.stream k).isCounted) = true then _ else s1) = s2
      have h2 : HB s s2 := by
        rw [← hs2]
        split
        · refine h1.trans (HB.trans ?_ (incNumRecvStreams_hb _ _))
          split
          · exact modRecv_hb _ _ (fun _ => rfl)
          · exact .refl _
        · exact h1
      hb_auto
theorem recvRecvData_hb (s : Streams) (k : Nat) (payload : Bytes) (eos : Bool) (pad : Option Nat) : HB s (s.recvRecvData k payload eos pad).1 := by
  unfold Streams.recvRecvData
  cases pad <;> dsimp only
  all_goals (
    generalize hs0 : (if _ > Generated.Consts.MAX_WINDOW_SIZE then s.panic _ else s) = s0
    have h0 : HB s s0 := by rw [← hs0]; split; exact panic_hb _ _; exact .refl _
    split
    · exact h0
    split
    · hb_auto
    split
    · hb_auto
    · next s1 _ heq1 =>
      have h1 : HB s s1 := h0.trans (HB.of_fst_eq heq1 (consumeConnectionWindow_hb _ _))
      split
      · exact h1
      · split
        · exact h1
        · next st1 hdc =>
          have hsp := decContentLength_hbp hdc
          generalize hs2 : s1.setStream st1 = s2
          have h2 : HB s s2 := by
            rw [← hs2]; exact h1.trans (setStream_hb s1 k st1 (hsp.1.trans (stream_key _ _)) (.inl hsp))
          generalize hs3 : (if eos = true then _ else (s2, (none : Option PErr))) = p3
          have h3 : HB s p3.1 := by
            rw [← hs3]
            split
            · split
              · exact h2
              · split
                · exact h2
                · exact h2.trans (modStream_hb _ _ _ (.inl fun _ => ⟨rfl, rfl, rfl, [], (List.append_nil _).symm⟩))
            · exact h2
          split
          · exact h3
          · next s4 =>
            have h4 : HB s s4 := h3
            hb_auto)

theorem maybeCancel_hb (s : Streams) (k : Nat) : HB s (s.maybeCancel k) := by
  unfold Streams.maybeCancel; hb_auto
theorem refReserveCapacity_hb (s : Streams) (k c : Nat) : HB s (s.refReserveCapacity k c) := by
  unfold Streams.refReserveCapacity; hb_auto
theorem refReleaseCapacity_hb (s : Streams) (k c : Nat) : HB s (s.refReleaseCapacity k c).1 := by
  unfold Streams.refReleaseCapacity; hb_auto
theorem refClearRecvBuffer_hb (s : Streams) (k : Nat) (hk : ¬ Held s k) : HB s (s.refClearRecvBuffer k) := by
  unfold Streams.refClearRecvBuffer
  have h1 : HB s (s.modStream k fun st => { st with isRecv := false }) :=
    modStream_hb _ _ _ (.inl fun _ => ⟨rfl, rfl, rfl, [], (List.append_nil _).symm⟩)
  exact h1.trans (clearRecvBuffer_hb _ k true (fun h => hk (h1.back k h).1))
theorem pollPendingOpen_hb (s : Streams) (p : Option Nat) (t : String) : HB s (s.pollPendingOpen p t).1 := by
  unfold Streams.pollPendingOpen; hb_auto
theorem cloneHandle_hb (s : Streams) : HB s s.cloneHandle := by
  unfold Streams.cloneHandle; hb_auto
theorem dropHandle_hb (s : Streams) : HB s s.dropHandle := by
  unfold Streams.dropHandle; hb_auto
theorem refPollData_hb (s : Streams) (k : Nat) (t : String) (hk : ¬ Held s k) : HB s (s.refPollData k t).1 := by
  unfold Streams.refPollData
  split
  · next s1 payload budgeted heq =>
    have h1 : HB s s1 := HB.of_fst_eq heq (recvPollData_hb s k t hk)
    dsimp only
    split
    · exact h1.trans (modCounts_hb _ _)
    · exact h1
  · exact recvPollData_hb s k t hk

end H2V.Lemmas.ConnNoPanicP
