import H2V.Lemmas.ConnNoPanicPDsOxBase
/-
  C08 (no panic) — the residual hypothesis `OH` as an invariant, part 2: `XK` for prioritize.rs / send.rs / recv.rs.
  The sites that are no frame steps carry the local fact they need: scheduling (`is_send_ready`, something queued or buffered),
  queueing a frame (the send half is open, or the entry is peer-initiated: the typing precondition), `clear_queue` (not
  send-streaming).
-/
namespace H2V.Lemmas.ConnNoPanicP
open H2V H2V.Model H2V.Model.Conn H2V.Lemmas.ConnCountsP
attribute [local irreducible] wrapSubU32 wrapSubUsize

variable {sv : Bool}

theorem su_of_streaming {st : State} (h : st.isSendStreaming = true) : suB st = false := by
  obtain ⟨inner⟩ := st
  rcases inner with _ | _ | _ | ⟨_ | _, _ | _⟩ | ⟨_ | _⟩ | ⟨_ | _⟩ | _ <;> simp [State.isSendStreaming, suB] at h ⊢
theorem closed_not_streaming {st : State} (h : st.isClosed = true) : st.isSendStreaming = false := by
  obtain ⟨inner⟩ := st
  rcases inner with _ | _ | _ | ⟨_ | _, _ | _⟩ | ⟨_ | _⟩ | ⟨_ | _⟩ | _ <;> simp [State.isSendStreaming, State.isClosed] at h ⊢

theorem get?_none_of_not_live {s : Streams} {k : Nat} (hl : ¬ Live s k) : s.store.get? k = none := by
  cases h : s.store.get? k with
  | none => rfl
  | some x => exact absurd ⟨x, h⟩ hl

theorem modStream_xk_live (s : Streams) (k : Nat) (f : Stream → Stream)
    (h : Live s k → (f (s.stream k)).key = (s.stream k).key ∧ Xp sv (s.stream k) (f (s.stream k))) :
    XK sv s (s.modStream k f) := by
  by_cases hl : Live s k
  · exact modStream_xk s k f (h hl)
  · unfold Streams.modStream; rw [get?_none_of_not_live hl]; exact panic_xk _ _
theorem modStreamW_xk_live (s : Streams) (k : Nat) (f : Stream → Stream × List String)
    (h : Live s k → (f (s.stream k)).1.key = (s.stream k).key ∧ Xp sv (s.stream k) (f (s.stream k)).1) :
    XK sv s (s.modStreamW k f) := by
  by_cases hl : Live s k
  · exact modStreamW_xk s k f (h hl)
  · unfold Streams.modStreamW; rw [get?_none_of_not_live hl]; exact panic_xk _ _

-- ===================================================================== scheduling

theorem flag_of_ready {x : Stream} (h : x.isSendReady = true) : flagB x = false := by
  unfold Stream.isSendReady at h
  unfold flagB
  cases h3 : x.isPendingOpen <;> cases h4 : x.isPendingPush <;> simp_all

theorem xp_sched (x : Stream) (h1 : x.isSendReady = true)
    (h2 : ∀ r, XEr sv r x → locId sv x.id = true → suB x.state = true → False) :
    (x.setQueued .pendingSend true).key = x.key ∧ Xp sv x (x.setQueued .pendingSend true) := by
  have hnf : ∀ hf : flagB (x.setQueued .pendingSend true) = true, False := by
    intro hf
    have : flagB x = true := hf
    rw [flag_of_ready h1] at this; cases this
  exact ⟨rfl, ⟨fun r hx => ⟨fun hl hs => (h2 r hx hl hs).elim, fun hf => (hnf hf).elim, fun hf => (hnf hf).elim⟩⟩⟩

theorem qPushSend_xk (s : Streams) (k : Nat) (h1 : (s.stream k).isSendReady = true)
    (h2 : Live s k → ∀ r, XEr sv r (s.stream k) → locId sv (s.stream k).id = true → suB (s.stream k).state = true → False) :
    XK sv s (s.qPush .pendingSend k).1 := by
  unfold Streams.qPush; split
  · exact .refl _
  · dsimp only
    exact (modStream_xk_live _ _ _ (fun hl => xp_sched _ h1 (h2 hl))).trans (setQ_xk _ _ _)

theorem scheduleSend_xk' (s : Streams) (k : Nat)
    (h2 : Live s k → ∀ r, XEr sv r (s.stream k) → locId sv (s.stream k).id = true → suB (s.stream k).state = true → False) :
    XK sv s (s.scheduleSend k) := by
  unfold Streams.scheduleSend; split
  · next h1 => exact (qPushSend_xk s k h1 h2).trans (notifyTask_xk _)
  · exact .refl _

/-- a frame other than DATA is queued on an entry that is peer-initiated or whose send half is open -/
theorem xp_append_nd (x : Stream) (f : SFrame) (hf : f.isData = false)
    (hns : ∀ r, XEr sv r x → locId sv x.id = true → suB x.state = true → False) :
    ({ x with pendingSend := x.pendingSend ++ [f] } : Stream).key = x.key ∧
    Xp sv x { x with pendingSend := x.pendingSend ++ [f] } := by
  have hd := dsum_single_of_notData hf
  have he : ∀ r, XEr sv r x → flagB x = true → x.bufferedSendData ≤ dsum (x.pendingSend ++ [f]) + r := by
    intro r hx hfl; rw [dsum_append, hd]; exact hx.e hfl
  refine ⟨rfl, ⟨fun r hx => ⟨fun hl hs => (hns r hx hl hs).elim, fun hfl => ?_, fun hfl => he r hx hfl⟩⟩⟩
  rcases hx.f hfl with hw | hd'
  · refine .inl ⟨hw.1, ?_, fun hp => absurd hp (by simp)⟩
    show dsum (x.pendingSend ++ [f]).head?.toList = 0
    cases hps : x.pendingSend with
    | nil => exact hd
    | cons g l => have := hw.2.1; unfold hnd at this; rw [hps] at this; exact this
  · refine .inr ⟨hd'.1, ?_, hd'.2.2⟩
    show dsum (x.pendingSend ++ [f]) = 0
    rw [dsum_append, hd, hd'.2.1]

theorem queueFrame_xk' (s : Streams) (k : Nat) (f : SFrame) (hf : f.isData = false)
    (hns : Live s k → ∀ r, XEr sv r (s.stream k) → locId sv (s.stream k).id = true → suB (s.stream k).state = true → False) :
    XK sv s (s.queueFrame k f) := by
  unfold Streams.queueFrame
  refine (modStream_xk_live _ _ _ (fun hl => xp_append_nd _ f hf (hns hl))).trans (scheduleSend_xk' _ _ ?_)
  intro hl r hx hloc hsu
  have hl0 : Live s k := (SameKeys.modStream s k _).live.mp hl
  have hst := stream_modStream_live hl0 (fun st => ({ st with pendingSend := st.pendingSend ++ [f] } : Stream)) (fun _ => rfl)
  rw [hst] at hx hloc hsu
  have := (hx.n hloc hsu).1
  exact absurd this (by simp)

theorem tryAssignCapacity_xk (s : Streams) (k : Nat) : XK sv s (s.tryAssignCapacity k) := by
  unfold Streams.tryAssignCapacity
  dsimp only
  split
  · exact .refl _
  split
  · exact .refl _
  split
  · exact .refl _
  generalize hs1 : (if s.prio.flow.available.asSize > 0 then _ else s) = s1
  have h1 : XK sv s s1 := by rw [← hs1]; xk_auto
  generalize hs2 : (if ((s1.stream k).sendFlow.available.ltUsize (s1.stream k).requestedSendCapacity &&
      (s1.stream k).sendFlow.hasUnavailable) = true then (s1.qPush .pendingCapacity k).1 else s1) = s2
  have h2 : XK sv s1 s2 := by rw [← hs2]; xk_auto
  have hspr : ∀ j, ((s2.stream j).isPendingOpen, (s2.stream j).isPendingPush, (s2.stream j).bufferedSendData) =
      ((s1.stream j).isPendingOpen, (s1.stream j).isPendingPush, (s1.stream j).bufferedSendData) := by
    intro j; rw [← hs2]; split
    · exact qPush_spr (P := fun x => (x.isPendingOpen, x.isPendingPush, x.bufferedSendData)) s1 .pendingCapacity k
        (fun _ _ => rfl) j
    · rfl
  split
  · next hg =>
    simp only [Bool.and_eq_true, decide_eq_true_eq] at hg
    have hk := hspr k
    simp only [Prod.mk.injEq] at hk
    refine (h1.trans h2).trans (qPushSend_xk s2 k ?_ ?_)
    · have := hg.2
      unfold Stream.isSendReady at this ⊢
      rw [hk.1, hk.2.1]; exact this
    · intro _ r hx hloc hsu
      have := (hx.n hloc hsu).2.2
      rw [hk.2.2] at this
      omega
  · exact h1.trans h2

theorem scheduleSend_xk (s : Streams) (k : Nat) (h : (s.stream k).state.isClosed = true) : XK sv s (s.scheduleSend k) :=
  scheduleSend_xk' s k (fun _ _ _ _ hsu => by rw [suB_closed h] at hsu; cases hsu)

theorem assignConnectionCapacityLoop_xk (n : Nat) (s : Streams) : XK sv s (Streams.assignConnectionCapacityLoop n s) := by
  induction n generalizing s with
  | zero => unfold Streams.assignConnectionCapacityLoop; exact .refl _
  | succ n ih => unfold Streams.assignConnectionCapacityLoop; xk_auto_ih ih
theorem assignConnectionCapacity_xk (s : Streams) (inc : Nat) : XK sv s (s.assignConnectionCapacity inc) := by
  unfold Streams.assignConnectionCapacity; xk_auto
theorem reserveCapacity_xk (s : Streams) (k cap : Nat) : XK sv s (s.reserveCapacity k cap) := by
  unfold Streams.reserveCapacity; xk_auto
theorem prioRecvStreamWindowUpdate_xk (s : Streams) (k inc : Nat) : XK sv s (s.prioRecvStreamWindowUpdate k inc).1 := by
  unfold Streams.prioRecvStreamWindowUpdate; xk_auto
theorem recvConnectionWindowUpdate_xk (s : Streams) (inc : Nat) : XK sv s (s.recvConnectionWindowUpdate inc).1 := by
  unfold Streams.recvConnectionWindowUpdate; xk_auto
theorem reclaimAllCapacity_xk (s : Streams) (k : Nat) : XK sv s (s.reclaimAllCapacity k) := by
  unfold Streams.reclaimAllCapacity; xk_auto
theorem reclaimReservedCapacity_xk (s : Streams) (k : Nat) : XK sv s (s.reclaimReservedCapacity k) := by
  unfold Streams.reclaimReservedCapacity; xk_auto
theorem clearPendingCapacity_xk (n : Nat) (s : Streams) : XK sv s (Streams.clearPendingCapacity n s) := by
  induction n generalizing s with
  | zero => unfold Streams.clearPendingCapacity; exact .refl _
  | succ n ih => unfold Streams.clearPendingCapacity; xk_auto_ih ih
theorem clearPendingSend_xk (n : Nat) (s : Streams) : XK sv s (Streams.clearPendingSend n s) := by
  induction n generalizing s with
  | zero => unfold Streams.clearPendingSend; exact .refl _
  | succ n ih => unfold Streams.clearPendingSend; xk_auto_ih ih
theorem clearPendingOpen_xk (n : Nat) (s : Streams) : XK sv s (Streams.clearPendingOpen n s) := by
  induction n generalizing s with
  | zero => unfold Streams.clearPendingOpen; exact .refl _
  | succ n ih => unfold Streams.clearPendingOpen; xk_auto_ih ih
theorem sendOpenId_xk (s : Streams) : XK sv s s.sendOpenId.1 := by
  unfold Streams.sendOpenId; xk_auto
theorem pollCapacity_xk (s : Streams) (k : Nat) (tag : String) : XK sv s (s.pollCapacity k tag).1 := by
  unfold Streams.pollCapacity; xk_auto
theorem pollReset_xk (s : Streams) (k : Nat) (m : PollReset) (tag : String) : XK sv s (s.pollReset k m tag).1 := by
  unfold Streams.pollReset; xk_auto
theorem sendRecvGoAway_xk (s : Streams) (l : Nat) : XK sv s (s.sendRecvGoAway l).1 := by
  unfold Streams.sendRecvGoAway; xk_auto
theorem sendMaybeResetNextStreamId_xk (s : Streams) (id : Nat) : XK sv s (s.sendMaybeResetNextStreamId id) := by
  unfold Streams.sendMaybeResetNextStreamId; xk_auto
theorem decStreamWindow_xk (dec acc : Nat) (s : Streams) (k : Nat) : XK sv s (Streams.decStreamWindow dec acc s k).1 := by
  unfold Streams.decStreamWindow; xk_auto
theorem sendClearQueues_xk (s : Streams) : XK sv s s.sendClearQueues := by
  unfold Streams.sendClearQueues; xk_auto
theorem releaseConnectionCapacity_xk (s : Streams) (c : Nat) (b : Bool) : XK sv s (s.releaseConnectionCapacity c b) := by
  unfold Streams.releaseConnectionCapacity; xk_auto
theorem releaseCapacity_xk (s : Streams) (k c : Nat) (b : Bool) : XK sv s (s.releaseCapacity k c b).1 := by
  unfold Streams.releaseCapacity; xk_auto
theorem clearRecvBuffer_xk (s : Streams) (k : Nat) (b : Bool) : XK sv s (s.clearRecvBuffer k b) := by
  unfold Streams.clearRecvBuffer; xk_auto
theorem releaseClosedCapacity_xk (s : Streams) (k : Nat) : XK sv s (s.releaseClosedCapacity k) := by
  unfold Streams.releaseClosedCapacity; xk_auto
theorem setTargetConnectionWindow_xk (s : Streams) (t : Nat) : XK sv s (s.setTargetConnectionWindow t).1 := by
  unfold Streams.setTargetConnectionWindow; xk_auto
theorem applyLocalSettings_xk (s : Streams) (a b : Option Nat) : XK sv s (s.applyLocalSettings a b).1 := by
  unfold Streams.applyLocalSettings; xk_auto
theorem consumeConnectionWindow_xk (s : Streams) (sz : Nat) : XK sv s (s.consumeConnectionWindow sz).1 := by
  unfold Streams.consumeConnectionWindow; xk_auto
theorem ignoreData_xk (s : Streams) (sz : Nat) : XK sv s (s.ignoreData sz).1 := by
  unfold Streams.ignoreData; xk_auto
theorem recvOpen_xk (s : Streams) (id : Nat) (b : Bool) : XK sv s (s.recvOpen id b).1 := by
  unfold Streams.recvOpen; xk_auto
theorem notifyPushIfRecvEnded_xk (s : Streams) (k : Nat) : XK sv s (s.notifyPushIfRecvEnded k) := by
  unfold Streams.notifyPushIfRecvEnded; xk_auto
theorem recvRecvTrailers_xk (s : Streams) (k : Nat) (h : HeadersIn) : XK sv s (s.recvRecvTrailers k h).1 := by
  unfold Streams.recvRecvTrailers; xk_auto
theorem recvRecvPushPromise_xk (s : Streams) (k : Nat) (h : HeadersIn) : XK sv s (s.recvRecvPushPromise k h).1 := by
  unfold Streams.recvRecvPushPromise; xk_auto
theorem recvNextIncoming_xk (s : Streams) : XK sv s s.recvNextIncoming.1 := by
  unfold Streams.recvNextIncoming; xk_auto
theorem recvTakeRequest_xk (s : Streams) (k : Nat) : XK sv s (s.recvTakeRequest k).1 := by
  unfold Streams.recvTakeRequest; xk_auto
theorem recvRecvReset_xk (s : Streams) (k : Nat) (r : Reason) : XK sv s (s.recvRecvReset k r).1 := by
  unfold Streams.recvRecvReset; xk_auto
theorem recvHandleError_xk (s : Streams) (k : Nat) (e : PErr) : XK sv s (s.recvHandleError k e) := by
  unfold Streams.recvHandleError; xk_auto
theorem recvGoAway_xk (s : Streams) (l : Nat) : XK sv s (s.recvGoAway l) := by
  unfold Streams.recvGoAway; xk_auto
theorem recvRecvEof_xk (s : Streams) (k : Nat) : XK sv s (s.recvRecvEof k) := by
  unfold Streams.recvRecvEof; xk_auto
theorem recvMaybeResetNextStreamId_xk (s : Streams) (id : Nat) : XK sv s (s.recvMaybeResetNextStreamId id) := by
  unfold Streams.recvMaybeResetNextStreamId; xk_auto
theorem enqueueResetExpiration_xk (s : Streams) (k : Nat) : XK sv s (s.enqueueResetExpiration k) := by
  unfold Streams.enqueueResetExpiration; xk_auto
theorem sendPendingRefusal_xk (s : Streams) (w : Writer) : XK sv s (s.sendPendingRefusal w).1 := by
  unfold Streams.sendPendingRefusal; xk_auto
theorem clearExpiredResetStreams_xk (n : Nat) (s : Streams) : XK sv s (Streams.clearExpiredResetStreams n s) := by
  induction n generalizing s with
  | zero => unfold Streams.clearExpiredResetStreams; exact .refl _
  | succ n ih => unfold Streams.clearExpiredResetStreams; xk_auto_ih ih
theorem clearStreamWindowUpdateQueue_xk (n : Nat) (s : Streams) : XK sv s (Streams.clearStreamWindowUpdateQueue n s) := by
  induction n generalizing s with
  | zero => unfold Streams.clearStreamWindowUpdateQueue; exact .refl _
  | succ n ih => unfold Streams.clearStreamWindowUpdateQueue; xk_auto_ih ih
theorem clearAllResetStreams_xk (n : Nat) (s : Streams) : XK sv s (Streams.clearAllResetStreams n s) := by
  induction n generalizing s with
  | zero => unfold Streams.clearAllResetStreams; exact .refl _
  | succ n ih => unfold Streams.clearAllResetStreams; xk_auto_ih ih
theorem clearAllPendingAccept_xk (n : Nat) (s : Streams) : XK sv s (Streams.clearAllPendingAccept n s) := by
  induction n generalizing s with
  | zero => unfold Streams.clearAllPendingAccept; exact .refl _
  | succ n ih => unfold Streams.clearAllPendingAccept; xk_auto_ih ih
theorem recvClearQueues_xk (s : Streams) (b : Bool) : XK sv s (s.recvClearQueues b) := by
  unfold Streams.recvClearQueues; xk_auto
theorem scheduleRecv_xk (s : Streams) (k : Nat) (t : String) : XK sv s (s.scheduleRecv k t).1 := by
  unfold Streams.scheduleRecv; xk_auto
theorem recvPollData_xk (s : Streams) (k : Nat) (t : String) : XK sv s (s.recvPollData k t).1 := by
  unfold Streams.recvPollData; xk_auto
theorem recvPollTrailers_xk (s : Streams) (k : Nat) (t : String) : XK sv s (s.recvPollTrailers k t).1 := by
  unfold Streams.recvPollTrailers; xk_auto
theorem recvPollResponse_xk (n : Nat) : ∀ (s : Streams) (k : Nat) (t : String), XK sv s (Streams.recvPollResponse n s k t).1 := by
  induction n with
  | zero => intro s k t; unfold Streams.recvPollResponse; exact .refl _
  | succ n ih => intro s k t; unfold Streams.recvPollResponse; xk_auto_ih ih
theorem recvPollInformational_xk (s : Streams) (k : Nat) (t : String) : XK sv s (s.recvPollInformational k t).1 := by
  unfold Streams.recvPollInformational; xk_auto
theorem recvPollPushed_xk (s : Streams) (k : Nat) (t : String) : XK sv s (s.recvPollPushed k t).1 := by
  unfold Streams.recvPollPushed; xk_auto



end H2V.Lemmas.ConnNoPanicP
