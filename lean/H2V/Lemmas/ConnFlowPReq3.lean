import H2V.Lemmas.ConnFlowPReq2
/-
  ConnFlowP, part 19 — `ReqOk` through all of `recv.rs`.
-/
namespace H2V.Lemmas.ConnFlowP
open H2V H2V.Model H2V.Model.Conn H2V.Lemmas.Comp

-- ===================================================================== recv.rs

section
variable {t : Streams}

theorem ReqOk.setStream_dec (h : ReqOk t) {id len : Nat} {st1 : Stream}
    (he : (t.stream id).decContentLength len = some st1) : ReqOk (t.setStream st1) := by
  refine ReqOk.setStream_lt ?_ h
  have hreq : st1.requestedSendCapacity = (t.stream id).requestedSendCapacity := by
    unfold Stream.decContentLength at he
    split at he
    · split at he
      · cases he; rfl
      · cases he
    · split at he
      · cases he
      · cases he; rfl
    · cases he; rfl
  rw [hreq]
  cases hget : t.store.get? id with
  | none =>
    have : t.stream id = { key := id, id := 0 } := by unfold Streams.stream; rw [hget]; rfl
    rw [this]; show (0 : Nat) < _; omega
  | some st => rw [stream_of_get hget]; exact h st (get?_mem hget).1
macro_rules | `(tactic| req_peel) => `(tactic| (with_reducible apply ReqOk.setStream_dec (he := by assumption)))

theorem ReqOk.releaseConnectionCapacity (h : ReqOk t) (c : Nat) (b : Bool) : ReqOk (t.releaseConnectionCapacity c b) := by
  req_by Streams.releaseConnectionCapacity
macro_rules | `(tactic| req_peel) => `(tactic| with_reducible apply ReqOk.releaseConnectionCapacity)

theorem ReqOk.releaseCapacity (h : ReqOk t) (id c : Nat) (b : Bool) : ReqOk (t.releaseCapacity id c b).1 := by
  req_by Streams.releaseCapacity
macro_rules | `(tactic| req_peel) => `(tactic| with_reducible apply ReqOk.releaseCapacity)

theorem ReqOk.clearRecvBuffer (h : ReqOk t) (id : Nat) (b : Bool) : ReqOk (t.clearRecvBuffer id b) := by
  req_by Streams.clearRecvBuffer
macro_rules | `(tactic| req_peel) => `(tactic| with_reducible apply ReqOk.clearRecvBuffer)

theorem ReqOk.releaseClosedCapacity (h : ReqOk t) (id : Nat) : ReqOk (t.releaseClosedCapacity id) := by
  req_by Streams.releaseClosedCapacity
macro_rules | `(tactic| req_peel) => `(tactic| with_reducible apply ReqOk.releaseClosedCapacity)

theorem ReqOk.setTargetConnectionWindow (h : ReqOk t) (n : Nat) : ReqOk (t.setTargetConnectionWindow n).1 := by
  req_by Streams.setTargetConnectionWindow
macro_rules | `(tactic| req_peel) => `(tactic| with_reducible apply ReqOk.setTargetConnectionWindow)

theorem ReqOk.consumeConnectionWindow (h : ReqOk t) (n : Nat) : ReqOk (t.consumeConnectionWindow n).1 := by
  req_by Streams.consumeConnectionWindow
macro_rules | `(tactic| req_peel) => `(tactic| with_reducible apply ReqOk.consumeConnectionWindow)

theorem ReqOk.ignoreData (h : ReqOk t) (n : Nat) : ReqOk (t.ignoreData n).1 := by
  req_by Streams.ignoreData
macro_rules | `(tactic| req_peel) => `(tactic| with_reducible apply ReqOk.ignoreData)

theorem ReqOk.recvOpen (h : ReqOk t) (id : Nat) (b : Bool) : ReqOk (t.recvOpen id b).1 := by
  req_by Streams.recvOpen
macro_rules | `(tactic| req_peel) => `(tactic| with_reducible apply ReqOk.recvOpen)

theorem ReqOk.notifyPushIfRecvEnded (h : ReqOk t) (id : Nat) : ReqOk (t.notifyPushIfRecvEnded id) := by
  req_by Streams.notifyPushIfRecvEnded
macro_rules | `(tactic| req_peel) => `(tactic| with_reducible apply ReqOk.notifyPushIfRecvEnded)

set_option maxHeartbeats 800000 in
theorem ReqOk.recvRecvHeaders (h : ReqOk t) (id : Nat) (hd : HeadersIn) : ReqOk (t.recvRecvHeaders id hd).1 := by
  req_by Streams.recvRecvHeaders
macro_rules | `(tactic| req_peel) => `(tactic| with_reducible apply ReqOk.recvRecvHeaders)

theorem ReqOk.recvRecvTrailers (h : ReqOk t) (id : Nat) (hd : HeadersIn) : ReqOk (t.recvRecvTrailers id hd).1 := by
  req_by Streams.recvRecvTrailers
macro_rules | `(tactic| req_peel) => `(tactic| with_reducible apply ReqOk.recvRecvTrailers)

set_option maxHeartbeats 800000 in
theorem ReqOk.recvRecvData (h : ReqOk t) (id : Nat) (p : Bytes) (eos : Bool) (pad : Option Nat) :
    ReqOk (t.recvRecvData id p eos pad).1 := by
  req_by Streams.recvRecvData
macro_rules | `(tactic| req_peel) => `(tactic| with_reducible apply ReqOk.recvRecvData)

theorem ReqOk.recvRecvPushPromise (h : ReqOk t) (id : Nat) (hd : HeadersIn) : ReqOk (t.recvRecvPushPromise id hd).1 := by
  req_by Streams.recvRecvPushPromise
macro_rules | `(tactic| req_peel) => `(tactic| with_reducible apply ReqOk.recvRecvPushPromise)

theorem ReqOk.recvNextIncoming (h : ReqOk t) : ReqOk t.recvNextIncoming.1 := by
  req_by Streams.recvNextIncoming
macro_rules | `(tactic| req_peel) => `(tactic| with_reducible apply ReqOk.recvNextIncoming)

theorem ReqOk.recvTakeRequest (h : ReqOk t) (id : Nat) : ReqOk (t.recvTakeRequest id).1 := by
  req_by Streams.recvTakeRequest
macro_rules | `(tactic| req_peel) => `(tactic| with_reducible apply ReqOk.recvTakeRequest)

theorem ReqOk.recvRecvReset (h : ReqOk t) (id : Nat) (r : Reason) : ReqOk (t.recvRecvReset id r).1 := by
  req_by Streams.recvRecvReset
macro_rules | `(tactic| req_peel) => `(tactic| with_reducible apply ReqOk.recvRecvReset)

theorem ReqOk.recvHandleError (h : ReqOk t) (id : Nat) (e : PErr) : ReqOk (t.recvHandleError id e) := by
  req_by Streams.recvHandleError
macro_rules | `(tactic| req_peel) => `(tactic| with_reducible apply ReqOk.recvHandleError)

theorem ReqOk.recvGoAway (h : ReqOk t) (id : Nat) : ReqOk (t.recvGoAway id) := by
  req_by Streams.recvGoAway
macro_rules | `(tactic| req_peel) => `(tactic| with_reducible apply ReqOk.recvGoAway)

theorem ReqOk.recvRecvEof (h : ReqOk t) (id : Nat) : ReqOk (t.recvRecvEof id) := by
  req_by Streams.recvRecvEof
macro_rules | `(tactic| req_peel) => `(tactic| with_reducible apply ReqOk.recvRecvEof)

theorem ReqOk.recvMaybeResetNextStreamId (h : ReqOk t) (id : Nat) : ReqOk (t.recvMaybeResetNextStreamId id) := by
  req_by Streams.recvMaybeResetNextStreamId
macro_rules | `(tactic| req_peel) => `(tactic| with_reducible apply ReqOk.recvMaybeResetNextStreamId)

theorem ReqOk.enqueueResetExpiration (h : ReqOk t) (id : Nat) : ReqOk (t.enqueueResetExpiration id) := by
  req_by Streams.enqueueResetExpiration
macro_rules | `(tactic| req_peel) => `(tactic| with_reducible apply ReqOk.enqueueResetExpiration)

theorem ReqOk.sendPendingRefusal (h : ReqOk t) (w : Writer) : ReqOk (t.sendPendingRefusal w).1 := by
  req_by Streams.sendPendingRefusal
macro_rules | `(tactic| req_peel) => `(tactic| with_reducible apply ReqOk.sendPendingRefusal)

theorem ReqOk.clearExpiredResetStreams (fuel : Nat) : ∀ {t : Streams}, ReqOk t → ReqOk (Streams.clearExpiredResetStreams fuel t) := by
  induction fuel with
  | zero => intro t h; exact h
  | succ n ih => intro t h; req_by Streams.clearExpiredResetStreams
macro_rules | `(tactic| req_peel) => `(tactic| with_reducible apply ReqOk.clearExpiredResetStreams)

theorem ReqOk.clearStreamWindowUpdateQueue (fuel : Nat) :
    ∀ {t : Streams}, ReqOk t → ReqOk (Streams.clearStreamWindowUpdateQueue fuel t) := by
  induction fuel with
  | zero => intro t h; exact h
  | succ n ih => intro t h; req_by Streams.clearStreamWindowUpdateQueue
macro_rules | `(tactic| req_peel) => `(tactic| with_reducible apply ReqOk.clearStreamWindowUpdateQueue)

theorem ReqOk.clearAllResetStreams (fuel : Nat) : ∀ {t : Streams}, ReqOk t → ReqOk (Streams.clearAllResetStreams fuel t) := by
  induction fuel with
  | zero => intro t h; exact h
  | succ n ih => intro t h; req_by Streams.clearAllResetStreams
macro_rules | `(tactic| req_peel) => `(tactic| with_reducible apply ReqOk.clearAllResetStreams)

theorem ReqOk.clearAllPendingAccept (fuel : Nat) : ∀ {t : Streams}, ReqOk t → ReqOk (Streams.clearAllPendingAccept fuel t) := by
  induction fuel with
  | zero => intro t h; exact h
  | succ n ih => intro t h; req_by Streams.clearAllPendingAccept
macro_rules | `(tactic| req_peel) => `(tactic| with_reducible apply ReqOk.clearAllPendingAccept)

theorem ReqOk.recvClearQueues (h : ReqOk t) (b : Bool) : ReqOk (t.recvClearQueues b) := by
  req_by Streams.recvClearQueues
macro_rules | `(tactic| req_peel) => `(tactic| with_reducible apply ReqOk.recvClearQueues)

theorem ReqOk.sendConnectionWindowUpdate (h : ReqOk t) (w : Writer) : ReqOk (t.sendConnectionWindowUpdate w).1 := by
  req_by Streams.sendConnectionWindowUpdate
macro_rules | `(tactic| req_peel) => `(tactic| with_reducible apply ReqOk.sendConnectionWindowUpdate)

theorem ReqOk.sendStreamWindowUpdates (fuel : Nat) :
    ∀ {t : Streams}, ReqOk t → ∀ w, ReqOk (Streams.sendStreamWindowUpdates fuel t w).1 := by
  induction fuel with
  | zero => intro t h w; exact h
  | succ n ih => intro t h w; req_by Streams.sendStreamWindowUpdates
macro_rules | `(tactic| req_peel) => `(tactic| with_reducible apply ReqOk.sendStreamWindowUpdates)

theorem ReqOk.recvBufferPending (h : ReqOk t) (w : Writer) : ReqOk (t.recvBufferPending w).1 := by
  req_by Streams.recvBufferPending
macro_rules | `(tactic| req_peel) => `(tactic| with_reducible apply ReqOk.recvBufferPending)

theorem ReqOk.scheduleRecv (h : ReqOk t) (id : Nat) (tag : String) : ReqOk (t.scheduleRecv id tag).1 := by
  req_by Streams.scheduleRecv
macro_rules | `(tactic| req_peel) => `(tactic| with_reducible apply ReqOk.scheduleRecv)

theorem ReqOk.recvPollData (h : ReqOk t) (id : Nat) (tag : String) : ReqOk (t.recvPollData id tag).1 := by
  req_by Streams.recvPollData
macro_rules | `(tactic| req_peel) => `(tactic| with_reducible apply ReqOk.recvPollData)

theorem ReqOk.recvPollTrailers (h : ReqOk t) (id : Nat) (tag : String) : ReqOk (t.recvPollTrailers id tag).1 := by
  req_by Streams.recvPollTrailers
macro_rules | `(tactic| req_peel) => `(tactic| with_reducible apply ReqOk.recvPollTrailers)

theorem ReqOk.recvPollResponse (fuel : Nat) :
    ∀ {t : Streams}, ReqOk t → ∀ id tag, ReqOk (Streams.recvPollResponse fuel t id tag).1 := by
  induction fuel with
  | zero => intro t h id tag; exact h
  | succ n ih => intro t h id tag; req_by Streams.recvPollResponse
macro_rules | `(tactic| req_peel) => `(tactic| with_reducible apply ReqOk.recvPollResponse)

theorem ReqOk.recvPollInformational (h : ReqOk t) (id : Nat) (tag : String) : ReqOk (t.recvPollInformational id tag).1 := by
  unfold Streams.recvPollInformational; dsimp only
  split
  · rename_i r heq
    split at heq
    · cases heq; exact h
    · cases heq; req_auto
    · cases heq
  · req_auto
macro_rules | `(tactic| req_peel) => `(tactic| with_reducible apply ReqOk.recvPollInformational)

end

end H2V.Lemmas.ConnFlowP
