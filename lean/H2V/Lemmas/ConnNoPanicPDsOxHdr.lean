import H2V.Lemmas.ConnNoPanicPDsOxReset
/-
  C08 (no panic) — the residual hypothesis `OH` as an invariant, part 4: `send_headers` (the step that puts an entry into
  `pending_open`: its queue was empty, it is not scheduled) and `Prioritize::send_data` (DATA goes to the back of a non-empty
  queue of a virgin entry).
-/
namespace H2V.Lemmas.ConnNoPanicP
open H2V H2V.Model H2V.Model.Conn H2V.Lemmas.ConnCountsP
attribute [local irreducible] wrapSubU32 wrapSubUsize

variable {sv : Bool}

-- ===================================================================== send_headers

theorem xp_hdr (x : Stream) (st' : State) (e : Bool) (u : Unit) (H : SFrame) (ho : x.state.sendOpen e = (st', .ok u))
    (hH : H.isData = false) :
    Xp sv x { ({ x with state := st' } : Stream) with pendingSend := x.pendingSend ++ [H] } := by
  have hd := dsum_single_of_notData hH
  refine ⟨fun r hx => ⟨fun _ hs => ?_, fun hfl => ?_, fun hfl => ?_⟩⟩
  · have hs' : suB st' = true := hs
    rw [sendOpen_nsu ho] at hs'; cases hs'
  rotate_left
  · show x.bufferedSendData ≤ dsum (x.pendingSend ++ [H]) + r
    rw [dsum_append, hd]; exact hx.e hfl
  · have hfl' : flagB x = true := hfl
    rcases hx.f hfl' with hw | hdd
    · refine .inl ⟨hw.1, ?_, fun hp => absurd hp (by show x.pendingSend ++ [H] ≠ []; simp)⟩
      show dsum (x.pendingSend ++ [H]).head?.toList = 0
      cases hps : x.pendingSend with
      | nil => exact hd
      | cons g l => have := hw.2.1; unfold hnd at this; rw [hps] at this; exact this
    · have := sendOpen_su ho
      rw [suB_closed hdd.1] at this; cases this

theorem xp_hdr_open (x : Stream) (st' : State) (e : Bool) (u : Unit) (H : SFrame) (ho : x.state.sendOpen e = (st', .ok u))
    (hH : H.isData = false) (hl : locId sv x.id = true) :
    Xp sv x { ({ ({ x with state := st' } : Stream) with isPendingOpen := true } : Stream) with
      pendingSend := x.pendingSend ++ [H] } := by
  have hd := dsum_single_of_notData hH
  refine ⟨fun r hx => ⟨fun _ hs => ?_, fun _ => ?_, fun _ => ?_⟩⟩
  · have hs' : suB st' = true := hs
    rw [sendOpen_nsu ho] at hs'; cases hs'
  rotate_left
  · show x.bufferedSendData ≤ _
    rw [(hx.n hl (sendOpen_su ho)).2.2]; exact Nat.zero_le _
  · have hn := hx.n hl (sendOpen_su ho)
    refine .inl ⟨hn.2.1, ?_, fun hp => absurd hp (by show x.pendingSend ++ [H] ≠ []; simp)⟩
    show dsum (x.pendingSend ++ [H]).head?.toList = 0
    rw [hn.1]; exact hd

/-- **`Send::send_headers`** (`sv` is the role of the connection) -/
theorem sendHeaders_xk (s : Streams) (k : Nat) (eos : Bool) (fl : List Hpack.Field) (hr : s.counts.isServer = sv) :
    XK sv s (s.sendHeaders k eos fl).1 := by
  unfold Streams.sendHeaders
  split
  · exact .refl _
  · split
    · exact .refl _
    · next st' u heq =>
      dsimp only
      have hAC := modStream_modStream s k (fun st => ({ st with state := st' } : Stream))
        (fun st => ({ st with pendingSend := st.pendingSend ++ [SFrame.headers eos fl] } : Stream)) (fun _ => rfl) (fun _ => rfl)
      -- the plain case: state, then the frame
      have plain : XK sv s ((s.modStream k fun st => { st with state := st' }).queueFrame k (.headers eos fl)) := by
        unfold Streams.queueFrame
        rw [hAC]
        refine (modStream_xk_live _ _ _ (fun _ => ⟨rfl, xp_hdr _ st' eos u _ heq rfl⟩)).trans (scheduleSend_xk' _ _ ?_)
        intro hl _ _ _ hsu
        have hl0 : Live s k := (SameKeys.modStream s k _).live.mp hl
        have := stream_modStream_live hl0 (fun x => ({ ({ x with state := st' } : Stream) with
          pendingSend := x.pendingSend ++ [SFrame.headers eos fl] } : Stream)) (fun _ => rfl)
        rw [this] at hsu
        have hsu' : suB st' = true := hsu
        rw [sendOpen_nsu heq] at hsu'; cases hsu'
      generalize hb : ((s.modStream k fun st => { st with state := st' }).counts.isLocalInit
          ((s.modStream k fun st => { st with state := st' }).stream k).id &&
        !((s.modStream k fun st => { st with state := st' }).stream k).isPendingPush) = b
      cases b with
      | false => simp only [Bool.false_eq_true, if_false]; exact plain
      | true =>
        simp only [if_true]
        refine XK.trans ?_ (notifyTask_xk _)
        unfold Streams.queueOpen Streams.qPush
        split
        · exact plain
        · dsimp only
          unfold Streams.queueFrame
          have hset : ∀ (t : Streams) (l : List Nat), t.setQ .pendingOpen l = t.modPrio (fun p => { p with pendingOpen := l }) :=
            fun _ _ => rfl
          rw [hset, modPrio_modStream,
            modStream_modStream s k (fun st => ({ st with state := st' } : Stream)) (fun st => st.setQueued .pendingOpen true)
              (fun _ => rfl) (fun _ => rfl),
            modStream_modStream s k (fun x => ({ x with state := st' } : Stream).setQueued .pendingOpen true)
              (fun st => ({ st with pendingSend := st.pendingSend ++ [SFrame.headers eos fl] } : Stream))
              (fun _ => rfl) (fun _ => rfl)]
          refine ((modStream_xk_live s k _ (fun hl => ⟨rfl, ?_⟩)).trans (modPrio_xk _ _)).trans (scheduleSend_xk' _ _ ?_)
          · -- the entry is locally initiated
            have hst := stream_modStream_live hl (fun st => ({ st with state := st' } : Stream)) (fun _ => rfl)
            rw [hst, modStream_counts, isLocalInit_eq, hr] at hb
            have hloc : locId sv (s.stream k).id = true := by
              simp only [Bool.and_eq_true] at hb; exact hb.1
            exact xp_hdr_open _ st' eos u _ heq rfl hloc
          · intro hl _ _ _ hsu
            have hl0 : Live s k := (SameKeys.modStream s k _).live.mp hl
            have := stream_modStream_live hl0 (fun x => ({ ({ ({ x with state := st' } : Stream) with isPendingOpen := true } : Stream) with
              pendingSend := x.pendingSend ++ [SFrame.headers eos fl] } : Stream)) (fun _ => rfl)
            have hsu2 : suB ((s.modStream k (fun x => ({ ({ ({ x with state := st' } : Stream) with isPendingOpen := true } : Stream) with
              pendingSend := x.pendingSend ++ [SFrame.headers eos fl] } : Stream))).stream k).state = true := hsu
            rw [this] at hsu2
            have hsu' : suB st' = true := hsu2
            rw [sendOpen_nsu heq] at hsu'; cases hsu'


-- ===================================================================== Prioritize::send_data

theorem Opn.nsu {s : Streams} {k : Nat} (h : Opn sv s k) :
    Live s k → ∀ r, XEr sv r (s.stream k) → locId sv (s.stream k).id = true → suB (s.stream k).state = true → False := by
  intro hl _ _ hloc hsu
  rcases h with h | h | h
  · exact h hl
  · rw [h] at hsu; cases hsu
  · rw [h] at hloc; cases hloc

theorem xe_bufup (x : Stream) (len : Nat) (hst : x.state.isSendStreaming = true) (r : Nat) (hx : XEr sv r x) :
    XEr sv (r + len) { x with bufferedSendData := x.bufferedSendData + len } := by
  refine ⟨fun _ hs => ?_, fun hfl => ?_, fun hfl => ?_⟩
  · have hs' : suB x.state = true := hs
    rw [su_of_streaming hst] at hs'; cases hs'
  · have hfl' : flagB x = true := hfl
    rcases hx.f hfl' with hw | hd
    · refine .inl ⟨hw.1, hw.2.1, fun hp => ?_⟩
      have := (hw.2.2 hp).1
      rw [hst] at this; cases this
    · have := closed_not_streaming hd.1
      rw [hst] at this; cases this
  · have := hx.e hfl
    show x.bufferedSendData + len ≤ dsum x.pendingSend + (r + len)
    omega

/-- DATA goes to the back of the queue; if the queue is empty nothing is buffered, hence the frame is empty -/
theorem xe_append_data (x : Stream) (len : Nat) (eos : Bool)
    (hns : locId sv x.id = true → suB x.state = true → False) (hb : len = 0 ∨ x.bufferedSendData ≠ 0) (r : Nat)
    (hx : XEr sv (r + len) x) : XEr sv r { x with pendingSend := x.pendingSend ++ [.data len eos] } := by
  have he : flagB x = true → x.bufferedSendData ≤ dsum (x.pendingSend ++ [SFrame.data len eos]) + r := by
    intro hfl
    have := hx.e hfl
    rw [dsum_append]; simp only [dsum]; omega
  refine ⟨fun hl hs => (hns hl hs).elim, fun hfl => ?_, fun hfl => he hfl⟩
  have hfl' : flagB x = true := hfl
  rcases hx.f hfl' with hw | hd
  · refine .inl ⟨hw.1, ?_, fun hp => absurd hp (by show x.pendingSend ++ [SFrame.data len eos] ≠ []; simp)⟩
    show dsum (x.pendingSend ++ [SFrame.data len eos]).head?.toList = 0
    cases hps : x.pendingSend with
    | nil =>
      have h0 := (hw.2.2 hps).2
      rcases hb with hb | hb
      · subst hb; rfl
      · exact absurd h0 hb
    | cons g l => have := hw.2.1; unfold hnd at this; rw [hps] at this; exact this
  · rcases hb with hb | hb
    · subst hb
      refine .inr ⟨hd.1, ?_, hd.2.2⟩
      show dsum (x.pendingSend ++ [SFrame.data 0 eos]) = 0
      rw [dsum_append, hd.2.1]; rfl
    · exact absurd hd.2.2 hb

/-- **`Prioritize::send_data`** -/
theorem prioSendData_xk (s : Streams) (k len : Nat) (eos : Bool) (hds : DS (s.stream k))
    (hb : (s.stream k).bufferedSendData + len < USIZE_MOD) : XK sv s (s.prioSendData k len eos).1 := by
  unfold Streams.prioSendData
  split
  · exact .refl _
  · dsimp only
    split
    · exact .refl _
    · next hss =>
      have hss' : (s.stream k).state.isSendStreaming = true := by
        cases h : (s.stream k).state.isSendStreaming with
        | true => rfl
        | false => rw [h] at hss; simp at hss
      have hl : Live s k := live_of_sendStreaming hss'
      have o0 : Opn sv s k := opn_of_streaming hss'
      have hA0 := stream_modStream_live hl (fun st => ({ st with bufferedSendData := st.bufferedSendData + len } : Stream)) (fun _ => rfl)
      have hA1 := fun j (hj : j ≠ k) => ConnFlowP.stream_modStream_other (s := s) (id := k) (k := j)
        (fun st => ({ st with bufferedSendData := st.bufferedSendData + len } : Stream)) (fun _ => rfl) hj
      have k1 : SK sv s (s.modStream k fun st => { st with bufferedSendData := st.bufferedSendData + len }) :=
        modStream_sk_opn o0 _ (fun _ => by exact ⟨rfl, rfl, rfl, rfl⟩)
      have d1 : DSr len ((s.modStream k fun st => { st with bufferedSendData := st.bufferedSendData + len }).stream k) := by
        rw [hA0]
        unfold DSr
        unfold DS at hds
        show len + dsum (s.stream k).pendingSend ≤ (s.stream k).bufferedSendData + len ∧ _
        exact ⟨by have := hds.1; omega, hb⟩
      have hA : ∀ r j, XEr sv r (s.stream j) →
          XEr sv (r + (if j = k then len else 0))
            ((s.modStream k fun st => { st with bufferedSendData := st.bufferedSendData + len }).stream j) := by
        intro r j h
        by_cases hj : j = k
        · subst hj; rw [hA0, if_pos rfl]; exact xe_bufup _ len hss' r h
        · rw [hA1 j hj, if_neg hj]; exact h
      generalize (s.modStream k fun st => { st with bufferedSendData := st.bufferedSendData + len }) = s1 at k1 d1 hA ⊢
      generalize hs2 : (if (s1.stream k).requestedSendCapacity < (s1.stream k).bufferedSendData then _ else s1) = s2
      have x2 : XK sv s1 s2 := by rw [← hs2]; xk_auto
      have k2 : SK sv s1 s2 := by rw [← hs2]; sk_auto
      have u2 : UK s1 s2 := by rw [← hs2]; uk_auto
      generalize hs3 : (if eos = true then _ else s2) = s3
      have x3 : XK sv s2 s3 := by rw [← hs3]; xk_auto
      have u3 : UK s2 s3 := by rw [← hs3]; uk_auto
      have k3 : SK sv s2 s3 := by
        rw [← hs3]; split
        · refine SK.trans ?_ (reserveCapacity_sk _ _ _)
          split
          · next st' heq => exact modStream_sk _ _ _ (fun x => setState_sr x st' (sendClose_nsu heq))
          · exact panic_sk _ _
        · exact .refl _
      have x23 := x2.trans x3
      have o3 : Opn sv s3 k := o0.sk ((k1.trans k2).trans k3)
      have d3 : DSr len (s3.stream k) := ((u2.trans u3).kp k).ds len d1
      have hZ : ∀ r j, XEr sv (r + (if j = k then len else 0)) (s3.stream j) →
          XEr sv r ((s3.modStream k fun st => { st with pendingSend := st.pendingSend ++ [.data len eos] }).stream j) := by
        intro r j h
        by_cases hj : j = k
        · subst hj
          rw [if_pos rfl] at h
          by_cases hl3 : Live s3 j
          · have := stream_modStream_live hl3
              (fun st => ({ st with pendingSend := st.pendingSend ++ [.data len eos] } : Stream)) (fun _ => rfl)
            rw [this]
            refine xe_append_data _ len eos (fun h1 h2 => ?_) ?_ r h
            · rcases o3 with o | o | o
              · exact o hl3
              · rw [o] at h2; cases h2
              · rw [o] at h1; cases h1
            · have := d3.1
              by_cases h0 : len = 0
              · exact .inl h0
              · exact .inr (by omega)
          · rw [stream_modStream_dead hl3, stream_blank_of_not_live hl3]; exact XEr.blank _ _
        · rw [if_neg hj] at h
          have := ConnFlowP.stream_modStream_other (s := s3) (id := k) (k := j)
            (fun st => ({ st with pendingSend := st.pendingSend ++ [.data len eos] } : Stream)) (fun _ => rfl) hj
          rw [this]; exact h
      have hAZ : XK sv s (s3.modStream k fun st => { st with pendingSend := st.pendingSend ++ [.data len eos] }) :=
        ⟨fun r j h => hZ r j (x23.xe _ j (hA r j h))⟩
      have kZ : SK sv s3 (s3.modStream k fun st => { st with pendingSend := st.pendingSend ++ [.data len eos] }) :=
        modStream_sk_opn o3 _ (fun _ => by exact ⟨rfl, rfl, rfl, rfl⟩)
      split
      · unfold Streams.queueFrame
        exact hAZ.trans (scheduleSend_xk' _ _ (o3.sk kZ).nsu)
      · exact hAZ

end H2V.Lemmas.ConnNoPanicP
