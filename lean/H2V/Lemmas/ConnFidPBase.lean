import H2V.Model.ConnStreams
/-
  ConnFidP (C01 at the stream layer), part 1 — the vocabulary of "fidelity" for a stream's send queue.

  The model tracks DATA by length only (`SFrame.data len eos`), so what "the message survives the
  stream layer" means on the send side is an ORDER + LENGTH statement:

    `Refine es as` — the frame sequence `es` (what left `pop_frame`, possibly followed by what is still
    queued) is obtained from the sequence `as` (what the API accepted) by cutting DATA frames into
    consecutive pieces: every other frame is kept as it is and where it is, the pieces of a DATA
    frame of `sz` octets have lengths summing to `sz`, appear in place of the frame, and only the last
    piece carries the frame's END_STREAM flag.

  `toks` flattens a frame sequence into what the peer's application can observe of it (header
  blocks, one token per DATA octet, END_STREAM marks); `Refine es as → toks es = toks as`.
-/
namespace H2V.Lemmas.ConnFidP
open H2V H2V.Model H2V.Model.Conn

/-- a message frame: everything but RST_STREAM -/
def isMsg : SFrame → Bool
  | .reset _ => false
  | _ => true

/-- the message frames of a queue -/
def msg (l : List SFrame) : List SFrame := l.filter isMsg

@[simp] theorem msg_nil : msg [] = [] := rfl
@[simp] theorem msg_append (a b : List SFrame) : msg (a ++ b) = msg a ++ msg b := List.filter_append ..
theorem msg_cons_msg {f : SFrame} (h : isMsg f = true) (l : List SFrame) : msg (f :: l) = f :: msg l := by
  simp [msg, h]
theorem msg_cons_reset (r : Reason) (l : List SFrame) : msg (.reset r :: l) = msg l := by
  simp [msg, isMsg]
@[simp] theorem msg_data (n : Nat) (e : Bool) (l : List SFrame) : msg (.data n e :: l) = .data n e :: msg l :=
  msg_cons_msg rfl l
@[simp] theorem msg_headers (e : Bool) (f : List Hpack.Field) (l : List SFrame) :
    msg (.headers e f :: l) = .headers e f :: msg l := msg_cons_msg rfl l
@[simp] theorem msg_pushPromise (a b : Nat) (f : List Hpack.Field) (l : List SFrame) :
    msg (.pushPromise a b f :: l) = .pushPromise a b f :: msg l := msg_cons_msg rfl l

theorem msg_take_prefix (l : List SFrame) (n : Nat) : msg (l.take n) <+: msg l := by
  have : l = l.take n ++ l.drop n := (List.take_append_drop n l).symm
  conv => rhs; rw [this]
  rw [msg_append]; exact List.prefix_append _ _

/-- **refinement by splitting**: `es` is `as` with DATA frames cut into consecutive pieces -/
inductive Refine : List SFrame → List SFrame → Prop
  | nil : Refine [] []
  /-- a frame passed on whole -/
  | same (f : SFrame) {es as : List SFrame} : Refine es as → Refine (f :: es) (f :: as)
  /-- a first piece of `l` octets (never flagged END_STREAM) cut off a DATA frame of `l + r` octets;
      the remainder `data r eos` is refined further -/
  | split (l r : Nat) (eos : Bool) {es as : List SFrame} :
      Refine es (.data r eos :: as) → Refine (.data l false :: es) (.data (l + r) eos :: as)

theorem Refine.refl : ∀ l : List SFrame, Refine l l
  | [] => .nil
  | f :: l => .same f (Refine.refl l)

theorem Refine.append {e1 a1 e2 a2 : List SFrame} (h1 : Refine e1 a1) (h2 : Refine e2 a2) :
    Refine (e1 ++ e2) (a1 ++ a2) := by
  induction h1 with
  | nil => exact h2
  | same f _ ih => exact .same f ih
  | split l r eos _ ih => exact .split l r eos ih

/-- a frame accepted at the back -/
theorem Refine.snoc {e a : List SFrame} (h : Refine e a) (f : SFrame) : Refine (e ++ [f]) (a ++ [f]) :=
  h.append (.refl [f])

theorem Refine.nil_right {e : List SFrame} (h : Refine e []) : e = [] := by
  cases h; rfl

theorem Refine.nil_left {a : List SFrame} (h : Refine [] a) : a = [] := by
  cases h; rfl

/-- cutting one more piece off a DATA frame somewhere in the refined sequence keeps the refinement -/
theorem Refine.cut {L A : List SFrame} (h : Refine L A) :
    ∀ (E X : List SFrame) (l r : Nat) (eos : Bool), L = E ++ .data (l + r) eos :: X →
      Refine (E ++ .data l false :: .data r eos :: X) A := by
  induction h with
  | nil => intro E X l r eos e; cases E <;> cases e
  | @same f es as h ih =>
    intro E X l r eos e
    cases E with
    | nil =>
      simp only [List.nil_append, List.cons.injEq] at e
      obtain ⟨rfl, rfl⟩ := e
      exact .split l r eos (.same _ h)
    | cons x E =>
      simp only [List.cons_append, List.cons.injEq] at e
      obtain ⟨rfl, rfl⟩ := e
      exact .same _ (ih E X l r eos rfl)
  | @split l' r' eos' es as h ih =>
    intro E X l r eos e
    cases E with
    | nil =>
      simp only [List.nil_append, List.cons.injEq, SFrame.data.injEq] at e
      obtain ⟨⟨hl, rfl⟩, rfl⟩ := e
      have : Refine (.data l false :: .data r false :: es) (.data (l + (r + r')) eos' :: as) :=
        .split l (r + r') eos' (.split r r' eos' h)
      have e2 : l' + r' = l + (r + r') := by omega
      rw [e2]; exact this
    | cons x E =>
      simp only [List.cons_append, List.cons.injEq] at e
      obtain ⟨rfl, rfl⟩ := e
      exact .split l' r' eos' (ih E X l r eos rfl)

/-- the form in which `pop_frame` uses it: the head of the queued part is a DATA frame of `sz` octets, `len ≤ sz`
    octets go out now; when something is left, the remainder keeps the END_STREAM flag and goes back to
    the front -/
theorem Refine.pop_data {E X A : List SFrame} {sz len : Nat} {eos : Bool}
    (h : Refine (E ++ .data sz eos :: X) A) (hl : len ≤ sz) :
    Refine (E ++ .data len (if sz > len then false else eos) ::
      ((if sz - len > 0 then [.data (sz - len) eos] else []) ++ X)) A := by
  by_cases hlt : sz > len
  · have e : sz = len + (sz - len) := by omega
    have := h.cut E X len (sz - len) eos (by rw [← e])
    simp only [hlt, if_true, show sz - len > 0 by omega]
    exact this
  · have e : len = sz := by omega
    subst e
    simp only [Nat.lt_irrefl, if_false, Nat.sub_self, List.nil_append]
    exact h

-- ===================================================================== what the peer can observe

/-- what a frame sequence amounts to for the receiving application: header blocks, DATA octets
    (one token per octet; the model does not track their values), END_STREAM marks, resets -/
inductive Tok where
  | head (eos : Bool) (fields : List Hpack.Field)
  | promise (promisedId : Nat) (fields : List Hpack.Field)
  | octet
  | endStream
  | rst (reason : Reason)
  deriving DecidableEq

def tok : SFrame → List Tok
  | .headers eos f => .head eos f :: (if eos then [.endStream] else [])
  | .data len eos => List.replicate len .octet ++ (if eos then [.endStream] else [])
  | .reset r => [.rst r]
  | .pushPromise _ pid f => [.promise pid f]

def toks (l : List SFrame) : List Tok := l.flatMap tok

@[simp] theorem toks_nil : toks [] = [] := rfl
@[simp] theorem toks_cons (f : SFrame) (l : List SFrame) : toks (f :: l) = tok f ++ toks l := rfl
@[simp] theorem toks_append (a b : List SFrame) : toks (a ++ b) = toks a ++ toks b := List.flatMap_append ..

/-- **a refinement carries the same message**: same header blocks in the same places, the same
    number of DATA octets between them, END_STREAM at the same octet position -/
theorem Refine.toks_eq {e a : List SFrame} (h : Refine e a) : toks e = toks a := by
  induction h with
  | nil => rfl
  | same f _ ih => simp only [toks_cons, ih]
  | split l r eos _ ih =>
    simp only [toks_cons, ih, tok, ← List.replicate_append_replicate, List.append_assoc, if_false, Bool.false_eq_true,
      List.nil_append]

/-- total number of DATA octets in a frame sequence -/
def dataLen : List SFrame → Nat
  | [] => 0
  | .data n _ :: l => n + dataLen l
  | _ :: l => dataLen l

theorem Refine.dataLen_eq {e a : List SFrame} (h : Refine e a) : dataLen e = dataLen a := by
  induction h with
  | nil => rfl
  | same f _ ih => cases f <;> simp only [dataLen, ih]
  | split l r eos _ ih => simp only [dataLen] at ih ⊢; omega

/-- the frames that are not DATA, in order -/
def nonData (l : List SFrame) : List SFrame := l.filter (fun f => !f.isData)

theorem Refine.nonData_eq {e a : List SFrame} (h : Refine e a) : nonData e = nonData a := by
  induction h with
  | nil => rfl
  | same f _ ih => cases f <;> simp_all [nonData, SFrame.isData]
  | split l r eos _ ih => simp_all [nonData, SFrame.isData]

/-- number of END_STREAM flags -/
def eosCount : List SFrame → Nat
  | [] => 0
  | .data _ true :: l => 1 + eosCount l
  | .headers true _ :: l => 1 + eosCount l
  | _ :: l => eosCount l

theorem Refine.eosCount_eq {e a : List SFrame} (h : Refine e a) : eosCount e = eosCount a := by
  induction h with
  | nil => rfl
  | same f _ ih =>
    cases f with
    | data n eos => cases eos <;> simp only [eosCount, ih]
    | headers eos f => cases eos <;> simp only [eosCount, ih]
    | _ => simp only [eosCount, ih]
  | split l r eos _ ih => cases eos <;> simp_all [eosCount]

/-- `es` is what has left so far of a refinement of `as`: a refinement of an octet-wise prefix -/
def EmitsPrefix (es as : List SFrame) : Prop := ∃ T, Refine (es ++ T) as

theorem EmitsPrefix.toks_prefix {es as : List SFrame} (h : EmitsPrefix es as) : toks es <+: toks as := by
  obtain ⟨T, h⟩ := h
  rw [← h.toks_eq, toks_append]; exact List.prefix_append _ _

end H2V.Lemmas.ConnFidP

