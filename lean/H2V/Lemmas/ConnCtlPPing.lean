import H2V.Lemmas.ConnCtlPSettings
/-
  ConnCtlP, part 7 — C14, PING: the echo carries exactly the payload received; a PING ACK that
  answers nothing is ignored without error; a PING ACK answering the user's ping is delivered.
-/
set_option autoImplicit false
set_option linter.unusedSimpArgs false
namespace H2V.Lemmas.ConnCtlP
open H2V H2V.Model H2V.Model.Conn

/-- `send_pending_pong`: with the codec ready, exactly one frame is appended to the write buffer —
    a 17-octet PING ACK rendering the payload that `recv_ping` stored — and the slot is emptied;
    with the codec not ready nothing happens to the slot -/
theorem sendPendingPong_spec (c : Conn) (payload : Bytes) (h : c.pingPong.pendingPong = some payload) :
    (c.codecPollReady.2 = .ok →
      c.sendPendingPong.2 = .ok ∧ c.sendPendingPong.1.pingPong.pendingPong = none ∧
      c.sendPendingPong.1.codec.w.buf = c.codecPollReady.1.codec.w.buf ++
        [{ bytes := 17, done := some ("P:0:1:" ++ Hex.ofBytes payload) }]) ∧
    (c.codecPollReady.2 = .pending →
      c.sendPendingPong.2 = .pending ∧ c.sendPendingPong.1.pingPong.pendingPong = some payload) := by
  unfold Conn.sendPendingPong
  rw [h]
  dsimp only
  rcases hc : c.codecPollReady with ⟨c1, st⟩
  obtain ⟨h1, h2, -⟩ := codecPollReady_eq c c1 st hc
  cases st with
  | ok =>
    refine ⟨fun _ => ⟨rfl, rfl, ?_⟩, (fun hh => by cases hh)⟩
    simp [Conn.bufferSimple, Writer.bufferSimple, Writer.put, Generated.Consts.HEADER_LEN]
    rfl
  | pending => exact ⟨(fun hh => by cases hh), fun _ => ⟨rfl, by rw [h2]; exact h⟩⟩
  | err e => exact ⟨(fun hh => by cases hh), (fun hh => by cases hh)⟩

/-- a PING ACK that answers neither the shutdown ping nor a user ping is ignored: no state change,
    no error -/
theorem recvPing_ack_unsolicited (p : PingPong) (payload : Bytes)
    (h1 : ∀ pp, p.pendingPing = some pp → pp.payload ≠ payload)
    (h2 : ∀ u, p.userPings = some u →
      ¬ (payload = Generated.Consts.PING_USER_PAYLOAD ∧ u.state = Generated.Consts.USER_STATE_PENDING_PONG)) :
    p.recvPing true payload = (p, .unknown, [], p.pendingPong.isNone) := by
  have hc : ∀ u, p.userPings = some u →
      (payload == Generated.Consts.PING_USER_PAYLOAD && u.state == Generated.Consts.USER_STATE_PENDING_PONG) = false := by
    intro u hu
    have := h2 u hu
    cases hb : (payload == Generated.Consts.PING_USER_PAYLOAD && u.state == Generated.Consts.USER_STATE_PENDING_PONG)
    · rfl
    · simp at hb; exact absurd hb this
  unfold PingPong.recvPing
  simp only [if_true]
  cases hp : p.pendingPing with
  | none =>
    cases hu : p.userPings with
    | none => rfl
    | some u => simp [hc u hu]
  | some pp =>
    have hne := h1 pp hp
    have hb : (pp.payload == payload) = false := by simpa using hne
    cases hu : p.userPings with
    | none => simp [hb]
    | some u => simp [hb, hc u hu]

/-- the same seen from `recv_frame`: the frame is swallowed (`Continue`), the connection unchanged -/
theorem recvFrame_ping_ack_unsolicited (c : Conn) (payload : Bytes)
    (hp : c.pingPong.pendingPong = none)
    (h1 : ∀ pp, c.pingPong.pendingPing = some pp → pp.payload ≠ payload)
    (h2 : ∀ u, c.pingPong.userPings = some u →
      ¬ (payload = Generated.Consts.PING_USER_PAYLOAD ∧ u.state = Generated.Consts.USER_STATE_PENDING_PONG)) :
    c.recvFrame (some (.ping true payload)) = ({ c with streams := c.streams.wake [] }, .ok .continue) := by
  unfold Conn.recvFrame
  dsimp only
  rw [recvPing_ack_unsolicited c.pingPong payload h1 h2]
  simp [hp]

/-- a PING ACK with the user payload while a user ping is in flight: the pong is recorded and the
    task waiting in `poll_pong` is woken; nothing else changes -/
theorem recvPing_ack_user (p : PingPong) (u : UserPings) (hu : p.userPings = some u)
    (hs : u.state = Generated.Consts.USER_STATE_PENDING_PONG)
    (h1 : ∀ pp, p.pendingPing = some pp → pp.payload ≠ Generated.Consts.PING_USER_PAYLOAD) :
    p.recvPing true Generated.Consts.PING_USER_PAYLOAD =
      ({ p with userPings := some { u with state := Generated.Consts.USER_STATE_RECEIVED_PONG, pongTask := none } },
       .unknown, u.pongTask.toList, p.pendingPong.isNone) := by
  unfold PingPong.recvPing
  simp only [if_true]
  cases hp : p.pendingPing with
  | none => simp [hu, hs]
  | some pp =>
    have hne := h1 pp hp
    have : (pp.payload == Generated.Consts.PING_USER_PAYLOAD) = false := by simpa using hne
    simp [this, hu, hs]

end H2V.Lemmas.ConnCtlP
