import H2V.Lemmas.ConnCtlPGoAwayRecv
/-
  ConnCtlP, part 13 — C15: the stages of a graceful shutdown (server `graceful_shutdown`):
  GOAWAY(2^31-1, NO_ERROR) + shutdown PING → on the PING ACK GOAWAY(last_processed_id, NO_ERROR) and
  the cut-off → when no stream is left `go_away_now(NO_ERROR)`.
-/
set_option autoImplicit false
set_option linter.unusedSimpArgs false
namespace H2V.Lemmas.ConnCtlP
open H2V H2V.Model H2V.Model.Conn

/-- **stage 1** — `go_away_gracefully` on a connection that is not going away: GOAWAY(2^31-1,
    NO_ERROR) is queued (nothing is cut off yet: `max_stream_id` stays 2^31-1), the shutdown PING is
    armed, no assertion fires, the invariant holds -/
theorem goAwayGracefully_spec (c : Conn) (h : GoAwayInv c) (hn : c.goAway.goingAway = none)
    (hp : c.pingPong.pendingPing = none) :
    GoAwayInv c.goAwayGracefully ∧
    c.goAwayGracefully.goAway.pending = some { lastStreamId := STREAM_ID_MAX, reason := NO_ERROR } ∧
    c.goAwayGracefully.goAway.goingAway = some { lastProcessedId := STREAM_ID_MAX, reason := NO_ERROR } ∧
    c.goAwayGracefully.goAway.closeNow = c.goAway.closeNow ∧
    c.goAwayGracefully.streams.recv.maxStreamId = STREAM_ID_MAX ∧
    c.goAwayGracefully.streams.panicked = c.streams.panicked ∧
    c.goAwayGracefully.pingPong.pendingPing =
      some { payload := Generated.Consts.PING_SHUTDOWN_PAYLOAD, sent := false } := by
  have hmax := h.none_max hn
  have h1 : (view c.streams).lpi ≤ STREAM_ID_MAX := by rw [← hmax]; exact h.lpi_le_max
  have h2 : STREAM_ID_MAX ≤ (view c.streams).rmax := by rw [hmax]; exact Nat.le_refl _
  obtain ⟨d1, d2, d3, d4, d5, d6⟩ := dynGoAway_inv c STREAM_ID_MAX NO_ERROR h1 h2 (by intro ga hga; rw [hn] at hga; cases hga)
  have hpp : (c.dynGoAway STREAM_ID_MAX NO_ERROR).pingPong = c.pingPong := dynGoAway_pingPong c _ _
  have heq : c.goAwayGracefully =
      { (c.dynGoAway STREAM_ID_MAX NO_ERROR) with pingPong := (c.dynGoAway STREAM_ID_MAX NO_ERROR).pingPong.pingShutdown } := by
    unfold Conn.goAwayGracefully
    have : c.goAway.isGoingAway = false := by simp [GoAway.isGoingAway, hn]
    simp only [this, Bool.false_eq_true, if_false]
    rw [hpp, hp]
    simp
  rw [heq]
  refine ⟨d1.congr rfl rfl, d3, d4, d5, ?_, d6, rfl⟩
  show (c.dynGoAway STREAM_ID_MAX NO_ERROR).streams.recv.maxStreamId = STREAM_ID_MAX
  exact dynGoAway_max c _ _

/-- `go_away_gracefully` on a connection that is already going away does nothing -/
theorem goAwayGracefully_again (c : Conn) (h : c.goAway.goingAway.isSome = true) : c.goAwayGracefully = c := by
  unfold Conn.goAwayGracefully
  simp [GoAway.isGoingAway, h]

/-- **stage 2** — the ACK of the shutdown PING: `recv_frame` takes the pending ping away and runs
    `go_away(last_processed_id, NO_ERROR)`: the second GOAWAY, with the real cut-off, is queued and
    `max_stream_id` becomes `last_processed_id` (later streams of the peer are ignored); no assertion
    fires, the invariant holds -/
theorem recvFrame_shutdown_pong (c : Conn) (h : GoAwayInv c) (pp : PendingPing)
    (hping : c.pingPong.pendingPing = some pp) (hpay : pp.payload = Generated.Consts.PING_SHUTDOWN_PAYLOAD)
    (hpong : c.pingPong.pendingPong = none) (hga : c.goAway.goingAway.isSome = true) :
    let c' := (c.recvFrame (some (.ping true Generated.Consts.PING_SHUTDOWN_PAYLOAD))).1
    (c.recvFrame (some (.ping true Generated.Consts.PING_SHUTDOWN_PAYLOAD))).2 = .ok .continue ∧
    GoAwayInv c' ∧ c'.pingPong.pendingPing = none ∧
    c'.goAway.pending = some { lastStreamId := c.streams.recv.lastProcessedId, reason := NO_ERROR } ∧
    c'.goAway.goingAway = some { lastProcessedId := c.streams.recv.lastProcessedId, reason := NO_ERROR } ∧
    c'.streams.recv.maxStreamId = c.streams.recv.lastProcessedId ∧
    c'.streams.panicked = c.streams.panicked := by
  intro c'
  have hrp : c.pingPong.recvPing true Generated.Consts.PING_SHUTDOWN_PAYLOAD =
      ({ c.pingPong with pendingPing := none }, .shutdown, [], true) := by
    unfold PingPong.recvPing
    simp [hping, hpay, hpong]
  have hc' : c' = ({ c with pingPong := { c.pingPong with pendingPing := none }, streams := c.streams.wake [] } : Conn).dynGoAway
      c.streams.recv.lastProcessedId NO_ERROR := by
    show (c.recvFrame _).1 = _
    unfold Conn.recvFrame
    dsimp only
    rw [hrp]
    simp [GoAway.isGoingAway, hga]
    rfl
  have h0 : GoAwayInv ({ c with pingPong := { c.pingPong with pendingPing := none }, streams := c.streams.wake [] } : Conn) :=
    h.congr rfl (view_wake _ _)
  obtain ⟨d1, d2, d3, d4, d5, d6⟩ := dynGoAway_inv
    ({ c with pingPong := { c.pingPong with pendingPing := none }, streams := c.streams.wake [] } : Conn)
    c.streams.recv.lastProcessedId NO_ERROR (Nat.le_refl _) h.lpi_le_max (fun ga hg => h.lpi_le_ga ga hg)
  refine ⟨?_, ?_, ?_, ?_, ?_, ?_, ?_⟩
  · unfold Conn.recvFrame
    dsimp only
    rw [hrp]
    simp [GoAway.isGoingAway, hga]
  · rw [hc']; exact d1
  · rw [hc']; rw [dynGoAway_pingPong]
  · rw [hc']; exact d3
  · rw [hc']; exact d4
  · rw [hc']; exact dynGoAway_max _ _ _
  · rw [hc']; exact d6

/-- **stage 3** — the idle check of `Connection::poll`: once the real cut-off is announced
    (`going_away` below 2^31-1, `close_now` not yet set) `should_close_on_idle` holds, so as soon
    as `poll_complete` is done and no stream is counted, `poll` runs `go_away_now(NO_ERROR)` -/
theorem shouldCloseOnIdle_iff (g : GoAway) :
    g.shouldCloseOnIdle = true ↔
      g.closeNow = false ∧ ∃ ga, g.goingAway = some ga ∧ ga.lastProcessedId ≠ STREAM_ID_MAX := by
  unfold GoAway.shouldCloseOnIdle
  cases hg : g.goingAway with
  | none => simp
  | some ga => cases hc : g.closeNow <;> simp

end H2V.Lemmas.ConnCtlP
