import H2V.Spec.Huffman
/-
  Bit-string lemmas: `codeBits n v` (the `n` low bits of `v`, most significant first) versus
  arithmetic on `v`.
-/
namespace H2V.Lemmas.Huffman
open H2V H2V.Spec.Huffman

theorem bit_eq_testBit (v n : Nat) : (v / 2 ^ n % 2 == 1) = v.testBit n := by
  rw [Nat.testBit_eq_decide_div_mod_eq]
  by_cases h : v / 2 ^ n % 2 = 1 <;> simp [h]

theorem codeBits_succ (n v : Nat) : codeBits (n + 1) v = v.testBit n :: codeBits n v := by
  simp only [codeBits, bit_eq_testBit]

@[simp] theorem codeBits_length (n v : Nat) : (codeBits n v).length = n := by
  induction n with
  | zero => rfl
  | succ n ih => simp [codeBits, ih]

/-- `codeBits n v` only depends on the `n` low bits of `v` -/
theorem codeBits_congr {n v w : Nat} (h : ∀ i, i < n → v.testBit i = w.testBit i) :
    codeBits n v = codeBits n w := by
  induction n with
  | zero => rfl
  | succ n ih =>
    rw [codeBits_succ, codeBits_succ, h n (Nat.lt_succ_self n), ih (fun i hi => h i (by omega))]

theorem codeBits_mod {n m : Nat} (v : Nat) (h : n ≤ m) : codeBits n (v % 2 ^ m) = codeBits n v := by
  apply codeBits_congr
  intro i hi
  rw [Nat.testBit_mod_two_pow]
  simp [show i < m by omega]

theorem codeBits_add (a b v : Nat) :
    codeBits (a + b) v = codeBits a (v / 2 ^ b) ++ codeBits b v := by
  induction a with
  | zero => simp [codeBits]
  | succ a ih =>
    rw [show a + 1 + b = (a + b) + 1 by omega, codeBits_succ, codeBits_succ, ih,
      Nat.testBit_div_two_pow]
    rfl

/-- split off the top `k` of `n` bits -/
theorem codeBits_split {k n : Nat} (v : Nat) (h : k ≤ n) :
    codeBits n v = codeBits k (v / 2 ^ (n - k)) ++ codeBits (n - k) v := by
  have := codeBits_add k (n - k) v
  rwa [show k + (n - k) = n by omega] at this

theorem byteBits_eq (b : Nat) : byteBits b = codeBits 8 b := by
  simp [byteBits, codeBits]

/-- the numeric value of a bit, as used by `go` -/
theorem bitNat_eq (x k : Nat) : (if (x / 2 ^ k % 2 == 1) = true then 1 else 0) = x / 2 ^ k % 2 := by
  rcases Nat.mod_two_eq_zero_or_one (x / 2 ^ k) with h | h <;> simp [h]

theorem bitsVal_codeBits (k x a : Nat) : bitsVal (codeBits k x) a = a * 2 ^ k + x % 2 ^ k := by
  induction k generalizing a with
  | zero => simp [codeBits, bitsVal, Nat.mod_one]
  | succ k ih =>
    simp only [codeBits, bitsVal, bitNat_eq, ih]
    rw [Nat.mod_pow_succ, Nat.pow_succ]
    generalize 2 ^ k = P
    generalize x % P = r
    generalize x / P % 2 = b
    grind

/-- all-ones -/
theorem codeBits_ones {n v : Nat} (h : v % 2 ^ n = 2 ^ n - 1) :
    codeBits n v = List.replicate n true := by
  induction n with
  | zero => rfl
  | succ n ih =>
    have hb : v.testBit n = true := by
      have := Nat.testBit_mod_two_pow v (n + 1) n
      rw [h, Nat.testBit_two_pow_sub_one] at this
      simpa using this.symm
    have hr : v % 2 ^ n = 2 ^ n - 1 := by
      have h2 : v % 2 ^ n = (v % 2 ^ (n + 1)) % 2 ^ n := by
        rw [Nat.mod_mod_of_dvd]; exact Nat.pow_dvd_pow 2 (Nat.le_succ n)
      rw [h2, h]
      apply Nat.eq_of_testBit_eq
      intro i
      rw [Nat.testBit_mod_two_pow, Nat.testBit_two_pow_sub_one, Nat.testBit_two_pow_sub_one]
      by_cases hi : i < n <;> simp [hi]; omega
    rw [codeBits_succ, hb, ih hr, List.replicate_succ]

end H2V.Lemmas.Huffman
