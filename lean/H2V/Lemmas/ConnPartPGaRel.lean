import H2V.Lemmas.ConnWakePGoAway
/-
  ConnPartP (closing gaps left by earlier families), part 1 — C15: the per-stream relations used for
  the coverage theorem of `Inner::recv_go_away`.

  `Unt a b` ("untouched"): `b` is `a` except for the six fields that the hand-out of freed
  connection capacity may write on ANY stream (`assign_connection_capacity` inside
  `Send::handle_error → reclaim_all_capacity`): `send_flow.available`, `send_task`, `open_task`,
  `send_capacity_inc`, `is_pending_send_capacity`, `is_pending_send`.  Everything else — key, id,
  state, queues of frames and events, handle count, receive side, `is_pending_open`, the send
  *window* — is equal.
  `Oth k a b`: `Unt a b` unless the entry is the one with key `k` (then only key and id are kept).
-/
namespace H2V.Lemmas.ConnPartP
open H2V H2V.Model H2V.Model.Conn H2V.Lemmas.ConnWakeP

/-- a stream with the six capacity-assignment fields blanked -/
def mask (x : Stream) : Stream :=
  { x with sendFlow := { x.sendFlow with available := {} }, sendTask := none, openTask := none,
           sendCapacityInc := false, isPendingSendCapacity := false, isPendingSend := false }

/-- `b` is `a` up to the six fields written when freed connection capacity is handed out -/
def Unt (a b : Stream) : Prop := mask b = mask a

theorem Unt.refl (a : Stream) : Unt a a := rfl
theorem Unt.trans {a b c : Stream} (h1 : Unt a b) (h2 : Unt b c) : Unt a c := Eq.trans h2 h1

section fields
variable {a b : Stream} (h : Unt a b)
include h
theorem Unt.key : b.key = a.key :=
  have e : mask b = mask a := h; have e2 := congrArg Stream.key e; e2
theorem Unt.id : b.id = a.id :=
  have e : mask b = mask a := h; have e2 := congrArg Stream.id e; e2
theorem Unt.state : b.state = a.state :=
  have e : mask b = mask a := h; have e2 := congrArg Stream.state e; e2
theorem Unt.isCounted : b.isCounted = a.isCounted :=
  have e : mask b = mask a := h; have e2 := congrArg Stream.isCounted e; e2
theorem Unt.refCount : b.refCount = a.refCount :=
  have e : mask b = mask a := h; have e2 := congrArg Stream.refCount e; e2
theorem Unt.window : b.sendFlow.windowSize = a.sendFlow.windowSize :=
  have e : mask b = mask a := h; have e2 := congrArg (fun x => x.sendFlow.windowSize) e; e2
theorem Unt.requested : b.requestedSendCapacity = a.requestedSendCapacity :=
  have e : mask b = mask a := h; have e2 := congrArg Stream.requestedSendCapacity e; e2
theorem Unt.buffered : b.bufferedSendData = a.bufferedSendData :=
  have e : mask b = mask a := h; have e2 := congrArg Stream.bufferedSendData e; e2
theorem Unt.pendingSend : b.pendingSend = a.pendingSend :=
  have e : mask b = mask a := h; have e2 := congrArg Stream.pendingSend e; e2
theorem Unt.isPendingOpen : b.isPendingOpen = a.isPendingOpen :=
  have e : mask b = mask a := h; have e2 := congrArg Stream.isPendingOpen e; e2
theorem Unt.isPendingPush : b.isPendingPush = a.isPendingPush :=
  have e : mask b = mask a := h; have e2 := congrArg Stream.isPendingPush e; e2
theorem Unt.isPendingAccept : b.isPendingAccept = a.isPendingAccept :=
  have e : mask b = mask a := h; have e2 := congrArg Stream.isPendingAccept e; e2
theorem Unt.recvFlow : b.recvFlow = a.recvFlow :=
  have e : mask b = mask a := h; have e2 := congrArg Stream.recvFlow e; e2
theorem Unt.inFlightRecvData : b.inFlightRecvData = a.inFlightRecvData :=
  have e : mask b = mask a := h; have e2 := congrArg Stream.inFlightRecvData e; e2
theorem Unt.isPendingWindowUpdate : b.isPendingWindowUpdate = a.isPendingWindowUpdate :=
  have e : mask b = mask a := h; have e2 := congrArg Stream.isPendingWindowUpdate e; e2
theorem Unt.resetAt : b.resetAt = a.resetAt :=
  have e : mask b = mask a := h; have e2 := congrArg Stream.resetAt e; e2
theorem Unt.pendingRecv : b.pendingRecv = a.pendingRecv :=
  have e : mask b = mask a := h; have e2 := congrArg Stream.pendingRecv e; e2
theorem Unt.isRecv : b.isRecv = a.isRecv :=
  have e : mask b = mask a := h; have e2 := congrArg Stream.isRecv e; e2
theorem Unt.recvTask : b.recvTask = a.recvTask :=
  have e : mask b = mask a := h; have e2 := congrArg Stream.recvTask e; e2
theorem Unt.pushTask : b.pushTask = a.pushTask :=
  have e : mask b = mask a := h; have e2 := congrArg Stream.pushTask e; e2
theorem Unt.pendingPushPromises : b.pendingPushPromises = a.pendingPushPromises :=
  have e : mask b = mask a := h; have e2 := congrArg Stream.pendingPushPromises e; e2
theorem Unt.contentLength : b.contentLength = a.contentLength :=
  have e : mask b = mask a := h; have e2 := congrArg Stream.contentLength e; e2
end fields

instance : IsPre Unt where
  refl := Unt.refl
  trans := Unt.trans
  key := Unt.key

/-- `Unt` for every entry but the one with key `k`, which only keeps key and id -/
structure Oth (k : Nat) (a b : Stream) : Prop where
  key : b.key = a.key
  id : b.id = a.id
  unt : a.key ≠ k → Unt a b

instance (k : Nat) : IsPre (Oth k) where
  refl a := ⟨rfl, rfl, fun _ => Unt.refl a⟩
  trans h1 h2 := ⟨h2.key.trans h1.key, h2.id.trans h1.id,
    fun hk => (h1.unt hk).trans (h2.unt (by rw [h1.key]; exact hk))⟩
  key h := h.key

theorem Unt.oth {a b : Stream} (k : Nat) (h : Unt a b) : Oth k a b := ⟨h.key, h.id, fun _ => h⟩

@[grind =] theorem oth_iff (k : Nat) (a b : Stream) :
    Oth k a b ↔ (b.key = a.key ∧ b.id = a.id ∧ (a.key ≠ k → Unt a b)) :=
  ⟨fun h => ⟨h.1, h.2, h.3⟩, fun ⟨h1, h2, h3⟩ => ⟨h1, h2, h3⟩⟩

-- ===================================================================== stream methods that are `Unt`

@[grind ←] theorem unt_notifySend (x : Stream) : Unt x x.notifySend.1 := by
  cases h1 : x.sendTask <;> cases h2 : x.openTask <;> simp [Unt, mask, Stream.notifySend, h1, h2]

@[grind ←] theorem unt_assignCapacity (x : Stream) (c m : Nat) : Unt x (x.assignCapacity c m).1 := by
  unfold Stream.assignCapacity Stream.notifyCapacity
  simp only
  split
  · exact Unt.trans (b := { x with sendFlow := (x.sendFlow.assignCapacity c).1, sendCapacityInc := true }) rfl
      (unt_notifySend _)
  · rfl

@[grind ←] theorem unt_setQueued_pendingSend (x : Stream) (v : Bool) : Unt x (x.setQueued .pendingSend v) := rfl
@[grind ←] theorem unt_setQueued_pendingCapacity (x : Stream) (v : Bool) : Unt x (x.setQueued .pendingCapacity v) := rfl
@[grind ←] theorem unt_claim (x : Stream) (n : Nat) :
    Unt x { x with sendFlow := (x.sendFlow.claimCapacity n).1 } := rfl

-- ===================================================================== the hand-out of freed capacity is `Unt` on every stream

/-- no entry is removed, the id map is untouched, every entry is `Unt` -/
abbrev US := GStep False Unt
/-- the same, except that the entry with key `k` may change arbitrarily (key and id kept) -/
abbrev OS (k : Nat) := GStep False (Oth k)

section
variable {s0 s : Streams}

@[grind ←] theorem u_qPush_pendingSend (k : Nat) (h : US s0 s) : US s0 (s.qPush .pendingSend k).1 := by
  unfold Streams.qPush; tear_grind
@[grind ←] theorem u_qPush_pendingCapacity (k : Nat) (h : US s0 s) : US s0 (s.qPush .pendingCapacity k).1 := by
  unfold Streams.qPush; tear_grind
@[grind ←] theorem u_qPop_pendingCapacity (h : US s0 s) : US s0 (s.qPop .pendingCapacity).1 := by
  unfold Streams.qPop; tear_grind
@[grind ←] theorem u_tryAssignCapacity (k : Nat) (h : US s0 s) : US s0 (s.tryAssignCapacity k) := by
  unfold Streams.tryAssignCapacity; tear_grind

theorem u_assignConnectionCapacityLoop (n : Nat) (h : US s0 s) : US s0 (Streams.assignConnectionCapacityLoop n s) := by
  induction n generalizing s with
  | zero => unfold Streams.assignConnectionCapacityLoop; exact h
  | succ n ih =>
    unfold Streams.assignConnectionCapacityLoop
    split
    · split
      · next s1 heq => exact (u_qPop_pendingCapacity h).of_fst heq
      · next s1 id heq =>
        have h1 : US s0 s1 := (u_qPop_pendingCapacity h).of_fst heq
        simp only
        split
        · exact ih h1
        · next hc =>
          have hc' : ((s1.stream id).state.isSendStreaming || decide ((s1.stream id).bufferedSendData > 0)) = true := by
            cases hh : ((s1.stream id).state.isSendStreaming || decide ((s1.stream id).bufferedSendData > 0)) with
            | true => rfl
            | false => rw [hh] at hc; simp at hc
          have hnc : ((s1.tryAssignCapacity id).stream id).isClosed = false := by
            rw [FS.isClosed_eq (f_tryAssignCapacity id (GStep.refl s1))]
            exact not_closed_of_streaming hc'
          exact ih ((u_tryAssignCapacity id h1).trans (.of_store_eq (transitionAfter_store_of_not_closed hnc)))
    · exact h
attribute [grind ←] u_assignConnectionCapacityLoop

@[grind ←] theorem u_assignConnectionCapacity (inc : Nat) (h : US s0 s) : US s0 (s.assignConnectionCapacity inc) := by
  unfold Streams.assignConnectionCapacity; tear_grind
@[grind ←] theorem u_reclaimAllCapacity (k : Nat) (h : US s0 s) : US s0 (s.reclaimAllCapacity k) := by
  unfold Streams.reclaimAllCapacity; tear_grind

/-- `US` is `OS k` for every `k` -/
theorem US.os (k : Nat) (h : US s0 s) : OS k s0 s :=
  ⟨h.fresh, fun k' a ha => by
    rcases h.keep k' a ha with ⟨f, _⟩ | ⟨b, hb, hab⟩
    · exact f.elim
    · exact Or.inr ⟨b, hb, hab.oth k⟩, h.ids⟩

@[grind ←] theorem o_reclaimAllCapacity (k k' : Nat) (h : OS k s0 s) : OS k s0 (s.reclaimAllCapacity k') :=
  h.trans ((u_reclaimAllCapacity k' (GStep.refl s)).os k)

theorem oth_self (s : Streams) (k : Nat) (b : Stream) (h1 : b.key = (s.stream k).key) (h2 : b.id = (s.stream k).id) :
    Oth k (s.stream k) b := ⟨h1, h2, fun h => absurd (stream_key s k) h⟩

/-- any update of the entry with key `k` that keeps key and id is an `OS k` step -/
theorem o_modStream (k : Nat) (f : Stream → Stream) (hf : ∀ x, (f x).key = x.key ∧ (f x).id = x.id) (h : OS k s0 s) :
    OS k s0 (s.modStream k f) :=
  g_modStream k f (oth_self s k _ (hf _).1 (hf _).2) h
theorem o_modStreamW (k : Nat) (f : Stream → Stream × List String) (hf : ∀ x, (f x).1.key = x.key ∧ (f x).1.id = x.id)
    (h : OS k s0 s) : OS k s0 (s.modStreamW k f) :=
  g_modStreamW k f (oth_self s k _ (hf _).1 (hf _).2) h

theorem o_clearQueue (k : Nat) (h : OS k s0 s) : OS k s0 (s.clearQueue k) := by
  unfold Streams.clearQueue
  have h1 := o_modStream k (fun st => { st with pendingSend := [], bufferedSendData := 0, requestedSendCapacity := 0 })
    (fun _ => ⟨rfl, rfl⟩) h
  simp only
  split
  · split
    · exact g_modPrio _ h1
    · exact h1
  · exact h1
theorem o_recvHandleError (k : Nat) (e : PErr) (h : OS k s0 s) : OS k s0 (s.recvHandleError k e) := by
  unfold Streams.recvHandleError
  exact o_modStreamW k _ (fun x => ⟨(notifyPush_fields x).1, (notifyPush_fields x).2.1⟩)
    (o_modStreamW k _ (fun x => ⟨(notifyRecv_fields' x).1, (notifyRecv_fields' x).2.1⟩)
      (o_modStreamW k _ (fun x => ⟨(notifySend_fields x).1, (notifySend_fields x).2.1⟩)
        (o_modStream k _ (fun _ => ⟨rfl, rfl⟩) h)))
theorem o_sendHandleError (k : Nat) (h : OS k s0 s) : OS k s0 (s.sendHandleError k) := by
  unfold Streams.sendHandleError
  have h1 := o_reclaimAllCapacity k k (o_clearQueue k h)
  simp only
  split
  · split
    · exact o_modStreamW k _ (fun x => ⟨(setReset_fields x _ _).1, (setReset_fields x _ _).2.1⟩) h1
    · exact h1
  · exact h1

end

end H2V.Lemmas.ConnPartP
