import H2V.Lemmas.ConnFidPPoll
/-
  ConnFidP, part 25 — histories are closed under `recv_headers` of ANY header list, the over-long one included: the call
  is three phases — events queued (no send queue touched); possibly the library's own `HEADERS(431, END_STREAM)` on the
  stream, which a closed stream refuses; possibly a reset of the stream (`reset_on_recv_stream_err`) — found by `grind`
  (`recvHeaders_ph3`), each of which keeps the history going.
-/
set_option linter.unusedSectionVars false
namespace H2V.Lemmas.ConnFidP
open H2V H2V.Model H2V.Model.Conn H2V.Lemmas.ConnWakeP

/-- phase 1 of `recv_headers`: events are queued, no send queue is touched -/
def PA0 : Perm := { rpush := fun _ _ => True, gone := True }
/-- the library's own `431` answer on entry `k` -/
def P431 (k : Nat) : Perm := { push := fun j f => j = k ∧ f = .headers true f431, gone := True }
/-- the last phase: a stream error resets the stream -/
def PB : Perm := { cut := fun _ => True, gone := True }

/-- the `431` segment started in `Y` on entry `k` -/
def Seg (Y : Streams) (k : Nat) (Z : Streams) : Prop :=
  Tr (P431 k) Y Z ∧ ((Y.stream k).state.isClosed = true → Tr permRm Y Z)

def Ph2 (s0 Z : Streams) : Prop := Tr PA0 s0 Z ∨ ∃ Y k, Tr PA0 s0 Y ∧ Seg Y k Z

def Ph3 {α : Type} (s0 : Streams) (p : Streams × α) : Prop := ∃ Z, Ph2 s0 Z ∧ Tr PB Z p.1

section
variable {α : Type} {s0 s Z : Streams}

@[grind ←] theorem ph2_of_tr (h : Tr PA0 s0 Z) : Ph2 s0 Z := Or.inl h

@[grind ←] theorem ph2_sendHeaders431 (k : Nat) (h : Tr PA0 s0 s) : Ph2 s0 (s.sendHeaders k true f431).1 := by
  refine Or.inr ⟨s, k, h, ?_, fun hc => ?_⟩
  · exact sendHeaders_acc (P := P431 k) trivial k true f431 (Or.inl ⟨rfl, rfl⟩) (Tr.refl _ _)
  · rw [sendHeaders_closed s k true f431 hc]; exact Tr.refl _ _

theorem ph2_step (g : Streams → Streams) (hg : ∀ (P : Perm), P.gone → ∀ {t0 t : Streams}, Tr P t0 t → Tr P t0 (g t))
    (h : Ph2 s0 Z) : Ph2 s0 (g Z) := by
  rcases h with h | ⟨Y, k, h1, h2, h3⟩
  · exact Or.inl (hg PA0 trivial h)
  · exact Or.inr ⟨Y, k, h1, hg _ trivial h2, fun hc => hg permRm trivial (h3 hc)⟩

@[grind ←] theorem ph2_scheduleImplicitReset (k : Nat) (r : Reason) (h : Ph2 s0 Z) : Ph2 s0 (Z.scheduleImplicitReset k r) :=
  ph2_step (fun t => t.scheduleImplicitReset k r) (fun P hg _ _ t => scheduleImplicitReset_acc (P := P) hg k r t) h
@[grind ←] theorem ph2_enqueueResetExpiration (k : Nat) (h : Ph2 s0 Z) : Ph2 s0 (Z.enqueueResetExpiration k) :=
  ph2_step (fun t => t.enqueueResetExpiration k) (fun P hg _ _ t => enqueueResetExpiration_acc (P := P) hg k t) h

@[grind ←] theorem ph3_pair (r : α) (h : Ph2 s0 Z) : Ph3 s0 (Z, r) := ⟨Z, h, Tr.refl _ _⟩
@[grind ←] theorem ph3_reset (k : Nat) (res : Except PErr Unit) (h : Ph2 s0 Z) : Ph3 s0 (Z.resetOnRecvStreamErr k res) :=
  ⟨Z, h, resetOnRecvStreamErr_acc (P := PB) trivial k res trivial (Tr.refl _ _)⟩

theorem ph3_transition (k : Nat) (f : Streams → Streams × α)
    (hf : ∀ {s' : Streams}, Tr PA0 s0 s' → Ph3 s0 (f s')) (h : Tr PA0 s0 s) : Ph3 s0 (s.transition k f) := by
  unfold Streams.transition
  obtain ⟨Z, h2, h3⟩ := hf h
  rcases hfs : f s with ⟨s', a⟩
  rw [hfs] at h3
  exact ⟨Z, h2, transitionAfter_acc (P := PB) trivial _ _ h3⟩
grind_pattern ph3_transition => Ph3 s0 (Streams.transition s k f)
end

theorem recvHeaders_ph3 (s : Streams) (hd : HeadersIn) : Ph3 s (s.recvHeaders hd) := by
  have hg : PA0.gone := trivial
  have hA : RpushAll PA0 := fun _ _ => trivial
  have h : Tr PA0 s s := Tr.refl _ _
  unfold Streams.recvHeaders
  simp only [f431_fold]
  fid_grind

theorem Tr.mono {P Q : Perm} (hPQ : ∀ l, P.ok l → Q.ok l) {s s' : Streams} (t : Tr P s s') : Tr Q s s' := by
  obtain ⟨tr, p⟩ := t; exact ⟨tr, p.mono hPQ⟩

theorem PA0_le : ∀ l, PA0.ok l → permAny.ok l := by
  intro l h
  cases l <;> simp only [Perm.ok, PA0, permAny] at h ⊢ <;> first | trivial | exact h | (rcases h with h | ⟨_, h⟩ <;> exact absurd h id)

theorem PB_le : ∀ l, PB.ok l → permAny.ok l := by
  intro l h
  cases l <;> simp only [Perm.ok, PB, permAny] at h ⊢ <;> first | trivial | exact h | (rcases h with h | h; exact absurd h id; exact Or.inr h)

/-- **`recv_headers` of any header list maps a history to a history** -/
theorem HistP.recvHeaders {s : Streams} {w : Writer} (h : HistP s w) (hd : HeadersIn) : HistP (s.recvHeaders hd).1 w := by
  obtain ⟨Z, h2, h3⟩ := recvHeaders_ph3 s hd
  have hZ : HistP Z w := by
    rcases h2 with t | ⟨Y, k, t1, t2, t3⟩
    · exact h.any (t.mono PA0_le)
    · obtain ⟨g, hY⟩ := h.any (t1.mono PA0_le)
      rcases closed_cases Y k with hc | hnc
      · obtain ⟨g', h', _⟩ := hY.tr_quiet permRm (fun h => h) (fun h => h) (fun _ _ _ h => h) (t3 hc)
        exact ⟨g', h'⟩
      · obtain ⟨g', h', _⟩ := hY.accept (P431 k) k (fun h => h) (fun h => h) (fun _ h => h) (fun j f _ hp => hp.1) hnc t2
        exact ⟨g', h'⟩
  exact hZ.any (h3.mono PB_le)

end H2V.Lemmas.ConnFidP
