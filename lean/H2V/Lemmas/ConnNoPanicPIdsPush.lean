import H2V.Lemmas.ConnNoPanicPIdsStep
/-
  C08 (no panic) — `IBS`, part 3: the server's `StreamRef::send_push_promise` (`Streams.refSendPushPromise`).
-/
namespace H2V.Lemmas.ConnNoPanicP
open H2V H2V.Model H2V.Model.Conn H2V.Lemmas.ConnCountsP
attribute [local irreducible] wrapSubU32 wrapSubUsize

/-- the error path `unlink(id); remove(key)` of an entry that carries that id -/
theorem unlink_remove_parts {E : Nat → Prop} {s3 : Streams} (h3 : NPI E s3) {k id : Nat} (hid3 : (s3.stream k).id = id) :
    AvOK ({ s3 with store := (s3.store.unlink id).remove k } : Streams) ∧
    IdsOK ({ s3 with store := (s3.store.unlink id).remove k } : Streams) := by
  have hne : ∀ x ∈ Store.swapRemove s3.store.ids id, x.2 ≠ k := by
    intro x hx hxk
    have hx' := ConnWakeP.mem_of_mem_swapRemove hx
    have := (h3.ids.live x hx').2
    rw [hxk, hid3] at this
    exact swapRemove_not_mem h3.ids.nodup id x hx this.symm
  refine ⟨?_, ⟨ConnWakeP.swapRemove_nodup h3.ids.nodup _, ?_⟩⟩
  · intro x hx
    exact h3.av x (List.mem_filter.mp hx).1
  · intro x hx
    have hx' := ConnWakeP.mem_of_mem_swapRemove hx
    have hl := h3.ids.live x hx'
    have hn := hne x hx
    refine ⟨?_, ?_⟩
    · obtain ⟨y, hy⟩ := hl.1
      exact ⟨y, by show ((s3.store.unlink id).remove k).get? x.2 = some y; rw [get?_remove_ne _ _ _ hn]; exact hy⟩
    · have : ({ s3 with store := (s3.store.unlink id).remove k } : Streams).stream x.2 = s3.stream x.2 := by
        unfold Streams.stream
        show (((s3.store.unlink id).remove k).get? x.2).getD _ = _
        rw [get?_remove_ne _ _ _ hn]; rfl
      rw [this]; exact hl.2

/-- **`send_push_promise` keeps `NPI` and `IBS`** (the `assert!(self.ids.insert(id, index).is_none())` of `Store::insert`
    cannot fire); on success the child handle is the fresh key, live, with at least one reference -/
theorem refSendPushPromise_npi {s : Streams} (hn : NPI (fun _ => False) s) (hi : IBS s) {parent : Nat} (hk : Live s parent)
    (valid : Bool) (fields : List Hpack.Field) :
    NPI (fun _ => False) (s.refSendPushPromise parent valid fields).1 ∧ IBS (s.refSendPushPromise parent valid fields).1 ∧
    ∀ child, (s.refSendPushPromise parent valid fields).2 = .ok child →
      child = s.store.nextKey ∧ ∃ x', (s.refSendPushPromise parent valid fields).1.store.get? child = some x' ∧ 1 ≤ x'.refCount := by
  have ew := refSendPushPromise_ev s hn.keys.fresh hn.nl parent valid fields
  unfold Streams.refSendPushPromise Streams.sendReserveLocal at ew ⊢
  generalize hso : s.sendOpenId = p at ew ⊢
  obtain ⟨s1, r⟩ := p
  have hst1 : s1.store = s.store := by have := sendOpenId_store s; rw [hso] at this; exact this
  have e1 : EvB false s s1 := EvB.of_fst_eq hso (sendOpenId_ev (ρ := false) s)
  have h1 : NPI (fun _ => False) s1 := hn.lt (LT.of_fst_eq hso (sendOpenId_lt s)).w (liveAll0 s) e1 noE
  have hi1 : IBS s1 := hi.of_evF hn.keys e1
  cases r with
  | error e => exact ⟨h1, hi1, fun c hc => by cases hc⟩
  | ok pid =>
    simp only [] at ew ⊢
    have hnc : s1.store.contains pid = false := by rw [hst1]; exact hi.hfree hn pid (sendOpenId_ok hso)
    simp only [hnc, Bool.false_eq_true, if_false] at ew ⊢
    have hloc1 : s1.counts.isLocalInit pid = true := by rw [(sendOpenId_next hso).1]; exact hn.nl pid (sendOpenId_ok hso)
    generalize hst : Stream.new pid s1.actions.send.initWindowSz s1.recv.initWindowSz = st at ew ⊢
    have hid : st.id = pid := by rw [← hst]; rfl
    have hidle : st.state.inner = .idle := by rw [← hst]; rfl
    have hfr : Fresh st := by rw [← hst]; exact fresh_new _ _ _
    have hav : st.sendFlow.available.val ≤ 2147483647 := by rw [← hst]; exact new_av _ _ _
    obtain ⟨h2, hl2⟩ := h1.insert st hfr hav
    have hi2 : IBS { s1 with store := (s1.store.insert st).1 } := by
      refine hi1.insert st (fun _ n hn' => ?_)
      rw [(sendOpenId_next hso).2 n hn', hid]; omega
    have hkk : (s1.store.insert st).2 = s1.store.nextKey := rfl
    rw [hkk] at ew ⊢
    have hs2 : ({ s1 with store := (s1.store.insert st).1 } : Streams).stream s1.store.nextKey = { st with key := s1.store.nextKey } :=
      stream_of_get? (insert_get?_new h1.keys.fresh st)
    have hpar2 : Live ({ s1 with store := (s1.store.insert st).1 } : Streams) parent :=
      live_insert_old st (by obtain ⟨x, hx⟩ := hk; exact ⟨x, by rw [hst1]; exact hx⟩)
    have hloc2 : ({ s1 with store := (s1.store.insert st).1 } : Streams).counts.isLocalInit pid = true := hloc1
    have hknext : s1.store.nextKey = s.store.nextKey := by rw [hst1]
    generalize hs2g : ({ s1 with store := (s1.store.insert st).1 } : Streams) = s2 at ew h2 hl2 hi2 hs2 hpar2 hloc2 ⊢
    generalize s1.store.nextKey = k at ew h2 hl2 hs2 hknext ⊢
    rw [hs2] at ew ⊢
    have hrl : st.state.reserveLocal = ({ inner := .reservedLocal }, .ok ()) := by
      unfold State.reserveLocal; rw [hidle]
    simp only [hrl] at ew ⊢
    have hid2 : (s2.stream k).id = pid := by rw [hs2]; exact hid
    clear hs2 hs2g hso hst hkk
    generalize hs4 : s2.modStream k _ = s4 at ew ⊢
    have hlt4 : LT [k] s2 s4 := by rw [← hs4]; exact modStream_lt _ _ _ (fun x => ⟨rfl, rfl, rfl, rfl, id⟩)
    have e4 : EvB false s2 s4 := by
      rw [← hs4]
      refine modStream_ev _ _ _ (fun x _ => ?_)
      exact ⟨rfl, rfl, rfl, fun q => by cases q <;> rfl, fun h => (by rcases h with h | h <;> cases h), fun _ h _ => h⟩
    have h4 : NPI (fun j => j = k) s4 := h2.lt hlt4.w (liveAll1 hl2) e4 noE
    have hi4 : IBS s4 := hi2.of_evF h2.keys e4
    have hl4 : Live s4 k := hlt4.keys.live.mpr hl2
    have hpar4 : Live s4 parent := hlt4.keys.live.mpr hpar2
    have hid4 : (s4.stream k).id = pid := (hlt4.sid k).trans hid2
    have hloc4 : s4.counts.isLocalInit pid = true := by rw [← hs4, modStream_counts']; exact hloc2
    clear hs4
    cases valid with
    | false =>
      simp only [Bool.not_false, if_true] at ew ⊢
      exact ⟨hn.ev ew (fun _ _ h => h) h4.np h4.av h4.ids, hi4, fun c hc => by cases hc⟩
    | true =>
      simp only [Bool.not_true, Bool.false_eq_true, if_false] at ew ⊢
      generalize hsp : s4.sendPushPromise parent k pid fields = q at ew ⊢
      obtain ⟨s5, r5⟩ := q
      have hlt5 : LT [parent] s4 s5 := LT.of_fst_eq hsp (sendPushPromise_lt s4 parent k pid fields)
      have e5 : EvB false s4 s5 := EvB.of_fst_eq hsp (sendPushPromise_ev (ρ := false) s4 parent k pid fields hloc4)
      have h5 : NPI (fun j => j = k) s5 := h4.lt hlt5.w (liveAll1 hpar4) e5 noE
      have hi5 : IBS s5 := hi4.of_evF h4.keys e5
      have hl5 : Live s5 k := hlt5.keys.live.mpr hl4
      have hid5 : (s5.stream k).id = pid := (hlt5.sid k).trans hid4
      cases r5 with
      | error e =>
        simp only [] at ew ⊢
        obtain ⟨hav', hids'⟩ := unlink_remove_parts h5 hid5
        exact ⟨hn.ev ew (fun _ _ h => h) h5.np hav' hids',
          hi5.of_sub (fun x hx => (List.mem_filter.mp hx).1) rfl rfl, fun c hc => by cases hc⟩
      | ok u =>
        simp only [] at ew ⊢
        have h6 := h5.lt (setMisc_lt (ks := []) s5 s5.actions (s5.refs + 1) s5.recvBufferLeaked s5.wakes s5.unsupported rfl).w
          (liveAll0 _) (setMisc_ev (ρ := false) _ _ _ _ _ _ ⟨rfl, rfl, rfl, rfl, rfl⟩) noE
        have hX := refInc_npi h6 (k := k) hl5
        have hi6 : IBS { s5 with refs := s5.refs + 1 } := hi5.of_sub (fun _ hx => hx) rfl rfl
        refine ⟨hn.ev ew (fun _ _ h => h) hX.np hX.av hX.ids,
          hi6.of_evF ⟨h5.keys.nodup, h5.keys.fresh⟩ (refInc_ev (ρ := false) _ _), ?_⟩
        intro c hc
        simp only [Except.ok.injEq] at hc
        subst hc
        obtain ⟨y, hy⟩ := hl5
        exact ⟨hknext, _, refInc_get (s := { s5 with refs := s5.refs + 1 }) hy, Nat.le_add_left _ _⟩

end H2V.Lemmas.ConnNoPanicP
