import H2V.Lemmas.ConnNoPanicPDsOxHdr
/-
  C08 (no panic) — the residual hypothesis `OH` as an invariant, part 5: recv.rs `recv_headers` / `recv_data`, streams.rs.
-/
namespace H2V.Lemmas.ConnNoPanicP
open H2V H2V.Model H2V.Model.Conn H2V.Lemmas.ConnCountsP
attribute [local irreducible] wrapSubU32 wrapSubUsize

variable {sv : Bool}

theorem recvRecvHeaders_xk (s : Streams) (k : Nat) (h : HeadersIn) : XK sv s (s.recvRecvHeaders k h).1 := by
  unfold Streams.recvRecvHeaders
  split
  · exact .refl _
  · next st' isInitial heq =>
    dsimp only
    generalize hs1 : Streams.modStream s k _ = s1
    have h1 : XK sv s s1 := by rw [← hs1]; exact modStream_xk _ _ _ (by xp_tac)
    split
    · exact h1
    · generalize hs2 : (if (isInitial && !(s1.stream k).isCounted) = true then _ else s1) = s2
      have h2 : XK sv s s2 := by rw [← hs2]; xk_auto
      xk_auto
theorem decContentLength_xp {x y : Stream} {n : Nat} (h : x.decContentLength n = some y) : y.key = x.key ∧ Xp sv x y := by
  unfold Stream.decContentLength at h
  split at h
  · split at h
    · cases h; exact ⟨rfl, xp_same rfl rfl rfl rfl rfl rfl rfl⟩
    · cases h
  · split at h
    · cases h
    · cases h; exact ⟨rfl, .refl _⟩
  · cases h; exact ⟨rfl, .refl _⟩
theorem recvRecvData_xk (s : Streams) (k : Nat) (p : Bytes) (eos : Bool) (pad : Option Nat) :
    XK sv s (s.recvRecvData k p eos pad).1 := by
  unfold Streams.recvRecvData
  cases pad <;> dsimp only
  all_goals (
    generalize hs0 : (if _ > Generated.Consts.MAX_WINDOW_SIZE then s.panic _ else s) = s0
    have h0 : XK sv s s0 := by rw [← hs0]; split; exact panic_xk _ _; exact .refl _
    split
    · exact h0
    split
    · exact h0.trans (ignoreData_xk _ _)
    split
    · next s1 e heq1 => exact h0.trans (XK.of_fst_eq heq1 (consumeConnectionWindow_xk _ _))
    · next s1 _ heq1 =>
      have h1 : XK sv s s1 := h0.trans (XK.of_fst_eq heq1 (consumeConnectionWindow_xk _ _))
      split
      · exact h1
      · split
        · exact h1
        · next st1 hdc =>
          have hsp := decContentLength_xp (sv := sv) hdc
          have h2 : XK sv s (s1.setStream st1) := h1.trans (setStream_xk _ _ (by rw [hsp.1, stream_key]; exact hsp.2))
          generalize hs2 : s1.setStream st1 = s2 at h2 ⊢
          generalize hs3 : (if eos = true then _ else (s2, (none : Option PErr))) = p3
          have h3 : XK sv s p3.1 := by rw [← hs3]; xk_auto
          obtain ⟨s3, o3⟩ := p3
          cases o3 with
          | some e => exact h3
          | none =>
            dsimp only at h3 ⊢
            xk_auto)

-- ===================================================================== the entry is closed before `Send::handle_error`

theorem ClosedAt.modStreamW {s : Streams} {k : Nat} (g : Stream → Stream × List String) (hk : ∀ x, (g x).1.key = x.key)
    (hg : ∀ x, (g x).1.state = x.state) (hc : ClosedAt s k) : ClosedAt (s.modStreamW k g) k := by
  intro hl
  have hl0 : Live s k := by
    by_cases h : Live s k
    · exact h
    · unfold Live Streams.modStreamW at hl; rw [get?_none_of_not_live h, panic_store] at hl; exact hl
  rw [stream_modStreamW_live hl0 g hk, hg]; exact hc hl0


theorem ClosedAt.notify3 {s : Streams} {k : Nat} (hc : ClosedAt s k) :
    ClosedAt (((s.modStreamW k Stream.notifySend).modStreamW k Stream.notifyRecv).modStreamW k Stream.notifyPush) k :=
  ((hc.modStreamW _ (fun x => (notifySend_proj7 x).1) (fun x => (notifySend_proj7 x).2.2.1)).modStreamW _
    (fun x => (notifyRecv_xp (sv := true) x).1) (fun x => notifyRecv_state x)).modStreamW _
    (fun x => (notifyPush_xp (sv := true) x).1) (fun x => notifyPush_state x)

theorem closedAt_setState (s : Streams) (k : Nat) (g : Stream → State) (hg : ∀ x, (g x).isClosed = true) :
    ClosedAt (s.modStream k fun st => { st with state := g st }) k := by
  intro hl
  have hl0 : Live s k := (SameKeys.modStream s k _).live.mp hl
  have := stream_modStream_live hl0 (fun st => ({ st with state := g st } : Stream)) (fun _ => rfl)
  rw [this]; exact hg _

theorem handleError_closed (st : State) (e : PErr) : (st.handleError e).isClosed = true := by
  obtain ⟨inner⟩ := st
  rcases inner with _ | _ | _ | ⟨_ | _, _ | _⟩ | ⟨_ | _⟩ | ⟨_ | _⟩ | _ <;> simp [State.handleError, State.isClosed]
theorem recvEof_closed (st : State) : st.recvEof.isClosed = true := by
  obtain ⟨inner⟩ := st
  rcases inner with _ | _ | _ | ⟨_ | _, _ | _⟩ | ⟨_ | _⟩ | ⟨_ | _⟩ | _ <;> simp [State.recvEof, State.isClosed]

theorem recvHandleError_closedAt (s : Streams) (k : Nat) (e : PErr) : ClosedAt (s.recvHandleError k e) k := by
  unfold Streams.recvHandleError
  exact (closedAt_setState s k (fun st => st.state.handleError e) (fun _ => handleError_closed _ _)).notify3
theorem recvRecvEof_closedAt (s : Streams) (k : Nat) : ClosedAt (s.recvRecvEof k) k := by
  unfold Streams.recvRecvEof
  exact (closedAt_setState s k (fun st => st.state.recvEof) (fun _ => recvEof_closed _)).notify3
theorem recvRecvReset_closedAt {s s' : Streams} {k : Nat} {r : Reason} {u : Unit} (h : s.recvRecvReset k r = (s', .ok u)) :
    ClosedAt s' k := by
  unfold Streams.recvRecvReset at h
  dsimp only at h
  split at h
  · cases h
  · next s0 _ =>
    simp only [Prod.mk.injEq] at h
    rw [← h.1]
    exact (closedAt_setState s0 k (fun st => st.state.recvReset st.id r st.isPendingSend)
      (fun _ => State.recvReset_isClosed _ _ _ _)).notify3

-- ===================================================================== streams.rs, frame steps

theorem clearQueues_xk (s : Streams) (b : Bool) : XK sv s (s.clearQueues b) := by
  unfold Streams.clearQueues; xk_auto
theorem applyLocalSettingsFrame_xk (s : Streams) (v : List (Nat × Nat)) : XK sv s (s.applyLocalSettingsFrame v).1 := by
  unfold Streams.applyLocalSettingsFrame; xk_auto
theorem refInc_xk (s : Streams) (k : Nat) : XK sv s (s.refInc k) := by
  unfold Streams.refInc; xk_auto
theorem cloneStreamRef_xk (s : Streams) (k : Nat) : XK sv s (s.cloneStreamRef k) := by
  unfold Streams.cloneStreamRef; xk_auto
theorem maybeCancel_xk (s : Streams) (k : Nat) : XK sv s (s.maybeCancel k) := by
  unfold Streams.maybeCancel; xk_auto
theorem dropStreamRef_xk (s : Streams) (k : Nat) : XK sv s (s.dropStreamRef k) := by
  unfold Streams.dropStreamRef; xk_auto
theorem pollPendingOpen_xk (s : Streams) (p : Option Nat) (t : String) : XK sv s (s.pollPendingOpen p t).1 := by
  unfold Streams.pollPendingOpen; xk_auto
theorem nextIncoming_xk (s : Streams) : XK sv s s.nextIncoming.1 := by
  unfold Streams.nextIncoming; xk_auto
theorem cloneHandle_xk (s : Streams) : XK sv s s.cloneHandle := by
  unfold Streams.cloneHandle; xk_auto
theorem dropHandle_xk (s : Streams) : XK sv s s.dropHandle := by
  unfold Streams.dropHandle; xk_auto
theorem refSendTrailers_xk (s : Streams) (k : Nat) (f : List Hpack.Field) : XK sv s (s.refSendTrailers k f).1 := by
  unfold Streams.refSendTrailers; xk_auto
theorem refReserveCapacity_xk (s : Streams) (k c : Nat) : XK sv s (s.refReserveCapacity k c) := by
  unfold Streams.refReserveCapacity; xk_auto
theorem refPollData_xk (s : Streams) (k : Nat) (t : String) : XK sv s (s.refPollData k t).1 := by
  unfold Streams.refPollData; xk_auto
theorem refReleaseCapacity_xk (s : Streams) (k c : Nat) : XK sv s (s.refReleaseCapacity k c).1 := by
  unfold Streams.refReleaseCapacity; xk_auto
theorem refClearRecvBuffer_xk (s : Streams) (k : Nat) : XK sv s (s.refClearRecvBuffer k) := by
  unfold Streams.refClearRecvBuffer; xk_auto
theorem refPollPushed_xk (s : Streams) (k : Nat) (t : String) : XK sv s (s.refPollPushed k t).1 := by
  unfold Streams.refPollPushed; xk_auto
theorem pollSendPendingRefusal_xk (n : Nat) : ∀ (s : Streams) (w : Writer) (io : Tio) (t : String),
    XK sv s (Streams.pollSendPendingRefusal n s w io t).1 := by
  induction n with
  | zero => intro s w io t; unfold Streams.pollSendPendingRefusal; exact .refl _
  | succ n ih => intro s w io t; unfold Streams.pollSendPendingRefusal; xk_auto_ih ih
theorem recvData_xk (s : Streams) (id : Nat) (p : Bytes) (eos : Bool) (pad : Option Nat) : XK sv s (s.recvData id p eos pad).1 := by
  unfold Streams.recvData; xk_auto
theorem recvWindowUpdate_xk (s : Streams) (id inc : Nat) : XK sv s (s.recvWindowUpdate id inc).1 := by
  unfold Streams.recvWindowUpdate; xk_auto
theorem innerSendReset_xk (s : Streams) (id : Nat) (r : Reason) : XK sv s (s.innerSendReset id r).1 := by
  unfold Streams.innerSendReset; xk_auto
theorem refSendReset_xk (s : Streams) (k : Nat) (r : Reason) : XK sv s (s.refSendReset k r) := by
  unfold Streams.refSendReset; xk_auto
theorem applyRemoteSettings_xk (s : Streams) (v : List (Nat × Nat)) (b : Bool) : XK sv s (s.applyRemoteSettings v b).1 := by
  unfold Streams.applyRemoteSettings; xk_auto


attribute [local irreducible] ClosedAt

syntax "xc_side" : tactic
macro_rules | `(tactic| xc_side) => `(tactic| with_reducible exact recvHandleError_closedAt _ _ _)
macro_rules | `(tactic| xc_side) => `(tactic| with_reducible exact recvRecvEof_closedAt _ _)
macro_rules | `(tactic| xc_side) => `(tactic| with_reducible exact recvRecvReset_closedAt (by assumption))
macro "xk_auto2" : tactic => `(tactic| repeat (first | xk_step | xk_side | xc_side | intro _ | split | dsimp only))

theorem recvReset_xk (s : Streams) (id : Nat) (r : Reason) : XK sv s (s.recvReset id r).1 := by
  unfold Streams.recvReset; xk_auto2
theorem handleError_xk (s : Streams) (e : PErr) : XK sv s (s.handleError e).1 := by
  unfold Streams.handleError; xk_auto2
theorem recvGoAwayFrame_xk (s : Streams) (l : Nat) (r : Reason) (d : Bytes) : XK sv s (s.recvGoAwayFrame l r d).1 := by
  unfold Streams.recvGoAwayFrame; xk_auto2
theorem recvEof_xk (s : Streams) (b : Bool) : XK sv s (s.recvEof b) := by
  unfold Streams.recvEof; xk_auto2


end H2V.Lemmas.ConnNoPanicP
