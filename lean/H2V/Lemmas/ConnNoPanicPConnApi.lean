import H2V.Lemmas.ConnNoPanicPConnPoll
/-
  C08 (no panic) — connection layer, part 6: the calls of the application on a connection
  (`graceful_shutdown`, `abrupt_shutdown`, `set_target_window_size`, `set_initial_window_size`, the ping handle,
  `take_error`) and the two constructors, as histories of `(streams, codec.w)`.
-/
namespace H2V.Lemmas.ConnNoPanicP
open H2V H2V.Model H2V.Model.Conn
open H2V.Lemmas.ConnResetP (Op run)
open H2V.Lemmas.ConnCtlP (GoAwayInv Keep15 Step15 GaLe gaLast view)

/-- the result of a call on a connection satisfying `ConnOK`: the invariant again, and a history -/
structure CStep (X : String → Prop) (c c' : Conn) : Prop where
  ok : ConnOK c'
  hist : HistWX ConnP X c.streams c.codec.w c'.streams c'.codec.w

theorem CS.cstep {X : String → Prop} {c c' : Conn} (h : CS X c c') (hc : ConnOK c) : CStep X c c' := ⟨h.ok hc, h.hist⟩

/-- the streams-only history -/
theorem CStep.histS {X : String → Prop} {c c' : Conn} (h : CStep X c c') : HistX ConnP X c.streams c'.streams := h.hist.hist

-- ===================================================================== shutdown

/-- **`Connection::go_away_gracefully`**: `Recv::go_away(2^31-1)` with `max_stream_id = 2^31-1` (no GOAWAY was built
    yet), the shutdown PING armed; `assert!(self.pending_ping.is_none())` holds by `PingInv` -/
theorem goAwayGracefully_step {X : String → Prop} {c : Conn} (hc : ConnOK c) : CStep X c c.goAwayGracefully := by
  cases hn : c.goAway.goingAway with
  | some ga =>
    have : c.goAwayGracefully = c := by
      unfold Conn.goAwayGracefully
      simp [GoAway.isGoingAway, hn]
    rw [this]
    exact ⟨hc, .refl⟩
  | none =>
    have hp : c.pingPong.pendingPing = none := by
      cases hq : c.pingPong.pendingPing with
      | none => rfl
      | some q => have := (hc.ping q hq).2; rw [hn] at this; cases this
    have hmax := hc.ga.none_max hn
    have h1 : (view c.streams).lpi ≤ STREAM_ID_MAX := by rw [← hmax]; exact hc.ga.lpi_le_max
    have h2 : STREAM_ID_MAX ≤ (view c.streams).rmax := by rw [hmax]; exact Nat.le_refl _
    have h3 : ∀ ga, c.goAway.goingAway = some ga → STREAM_ID_MAX ≤ ga.lastProcessedId := by
      intro ga hga; rw [hn] at hga; cases hga
    have d := dynGoAway_cs (X := X) STREAM_ID_MAX NO_ERROR h1 h2 h3
    obtain ⟨-, -, -, d4, -, -⟩ := ConnCtlP.dynGoAway_inv c STREAM_ID_MAX NO_ERROR h1 h2 h3
    have hpp : (c.dynGoAway STREAM_ID_MAX NO_ERROR).pingPong = c.pingPong := ConnCtlP.dynGoAway_pingPong c _ _
    have heq : c.goAwayGracefully =
        { (c.dynGoAway STREAM_ID_MAX NO_ERROR) with pingPong := (c.dynGoAway STREAM_ID_MAX NO_ERROR).pingPong.pingShutdown } := by
      unfold Conn.goAwayGracefully
      have : c.goAway.isGoingAway = false := by simp [GoAway.isGoingAway, hn]
      simp only [this, Bool.false_eq_true, if_false]
      rw [hpp, hp]
      simp
    rw [heq]
    refine ⟨⟨d.ga.congr rfl rfl, ?_, (d.rd hc.rd).keep rfl (.of_eq rfl rfl)⟩, d.hist⟩
    intro p hp'
    have : p = { payload := Generated.Consts.PING_SHUTDOWN_PAYLOAD, sent := false } := by
      have h' : some ({ payload := Generated.Consts.PING_SHUTDOWN_PAYLOAD, sent := false } : PendingPing) = some p := hp'
      injection h' with h'; exact h'.symm
    subst this
    refine ⟨rfl, ?_⟩
    show (c.dynGoAway STREAM_ID_MAX NO_ERROR).goAway.goingAway.isSome = true
    rw [d4]; rfl

/-- **`Connection::go_away_from_user`** (`abrupt_shutdown`): `Streams::handle_error(user GOAWAY)` -/
theorem goAwayFromUser_cs {X : String → Prop} {c : Conn} (hi : GoAwayInv c) (e : Reason) : CS X c (c.goAwayFromUser e) := by
  have k := ConnCtlP.goAwayFromUser_step15 c e hi
  have hok := ConnCtlP.goAwayNow_ok c e [] true hi
  have heq : c.goAwayFromUser e = { c with
      goAway := (({ c.goAway with isUserInitiated := true } : GoAway).goAwayNow { lastStreamId := c.streams.recv.lastProcessedId, reason := e, debugData := [] }).1,
      streams := (c.streams.handleError (PErr.userGoAway e)).1 } := by
    unfold Conn.goAwayFromUser GoAway.goAwayFromUser
    dsimp only
    rw [if_pos hok]
  rw [heq] at k ⊢
  exact .mk' k rfl rfl rfl (.op1 (.handleError (PErr.goAway [] e .user)) (fun _ _ h => by cases h) rfl rfl rfl)

-- ===================================================================== windows

/-- `Connection::set_target_window_size` -/
theorem setTargetWindowSize_cs {X : String → Prop} {c : Conn} (hi : GoAwayInv c) (size : Nat) (hs : size ≤ 2147483647) :
    CS X c (c.setTargetWindowSize size) :=
  .viewKeep hi rfl (ConnCtlP.view_setTargetConnectionWindow' c.streams size) rfl rfl rfl
    (.op1 (.setTargetConnectionWindow size) hs rfl rfl rfl)

/-- `Connection::set_initial_window_size` = `Settings::send_settings([INITIAL_WINDOW_SIZE = size])`: `streams` untouched -/
theorem setInitialWindowSize_cs {X : String → Prop} {c : Conn} (hi : GoAwayInv c) (size : Nat) :
    CS X c (c.setInitialWindowSize size).1 := by
  unfold Conn.setInitialWindowSize Conn.sendSettings
  cases hl : c.settings.loc with
  | synced =>
    have k := (Keep15.of_view (c := c) (c' := { c with settings := { c.settings with loc := .toSend [(4, size)] } }) rfl rfl).step hi
    refine ⟨⟨k.1, k.2, fun p hp => ⟨p, hp, rfl⟩, fun hn => ⟨hn.max, hn.need, ?_, hn.rem⟩⟩, .refl⟩
    intro v m hv hm
    have : v = [(4, size)] := by
      rcases hv with hv | hv
      · injection hv with hv; exact hv.symm
      · cases hv
    subst this
    simp [ConnCtlP.getS] at hm
  | toSend v => exact .refl hi
  | waitingAck v => exact .refl hi

-- ===================================================================== the ping handle, take_error, unsup

theorem takeUserPings_cs {X : String → Prop} {c : Conn} (hi : GoAwayInv c) : CS X c c.takeUserPings.1 := by
  unfold Conn.takeUserPings
  split
  · exact .refl hi
  · exact .viewKeep hi rfl rfl rfl rfl rfl .refl

theorem userSendPing_cs {X : String → Prop} {c : Conn} (hi : GoAwayInv c) : CS X c c.userSendPing.1 := by
  unfold Conn.userSendPing
  cases hu : c.pingPong.userPings with
  | none => exact .refl hi
  | some u =>
    dsimp only
    split
    · exact .viewKeep hi rfl rfl rfl rfl rfl (.op1 (.wake _) trivial rfl rfl rfl)
    · split <;> exact .refl hi

theorem userPollPong_cs {X : String → Prop} {c : Conn} (hi : GoAwayInv c) (tag : String) : CS X c (c.userPollPong tag).1 := by
  unfold Conn.userPollPong
  cases hu : c.pingPong.userPings with
  | none => exact .refl hi
  | some u =>
    dsimp only
    split
    · exact .viewKeep hi rfl rfl rfl rfl rfl .refl
    · split <;> exact .viewKeep hi rfl rfl rfl rfl rfl .refl

theorem dropUserPingsRx_cs {X : String → Prop} {c : Conn} (hi : GoAwayInv c) : CS X c c.dropUserPingsRx := by
  unfold Conn.dropUserPingsRx
  cases hu : c.pingPong.userPings with
  | none => exact .refl hi
  | some u => exact .viewKeep hi rfl rfl rfl rfl rfl (.op1 (.wake _) trivial rfl rfl rfl)

/-- `Conn.unsup` marks the connection, not the streams -/
theorem unsup_cs {X : String → Prop} {c : Conn} (hi : GoAwayInv c) (m : String) : CS X c (c.unsup m) := by
  unfold Conn.unsup
  split
  · exact .refl hi
  · exact .same hi rfl rfl rfl rfl rfl

end H2V.Lemmas.ConnNoPanicP
