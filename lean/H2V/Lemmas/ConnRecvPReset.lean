import H2V.Lemmas.ConnRecvPStreams
import H2V.Lemmas.ConnRecvPClear
/-
  C03 — part 11: `Inner::send_reset(id, reason)` (`DynStreams::send_reset`, called by
  `handle_poll2_result` for a stream error that travelled up).  For an id the store does not know it
  inserts `Stream::new(id, 0, 0)` — receive window 0 whatever SETTINGS_INITIAL_WINDOW_SIZE is — and
  resets it at once.  The connection-level invariant is not concerned; the stream-level invariant
  holds again once the new entry is closed, i.e. when the call succeeds (it fails only when the
  limit of locally reset streams is exhausted: GOAWAY ENHANCE_YOUR_CALM).
-/
namespace H2V.Lemmas.ConnRecvP
open H2V H2V.Model H2V.Model.Conn
open H2V.Model.Conn.Streams
open H2V.Lemmas.Comp
attribute [local irreducible] wrapSubU32 wrapSubUsize

theorem Ext.closed_of_get? {s s' : Streams} (hk : KeysOK s.store) (e : Ext s s') {k : Nat} {x x' : Stream}
    (hx : s.store.get? k = some x) (hc : x.state.isClosed = true) (hx' : s'.store.get? k = some x') :
    x'.state.isClosed = true := by
  have hxm := get?_mem hx
  have hxm' := get?_mem hx'
  rcases e.slab hk x' hxm'.1 with ⟨y, hy, hs⟩ | hfr
  · have : y = x := eq_of_key_eq hk.nodup hy hxm.1 (by rw [← hs.key, hxm'.2, hxm.2])
    subst this
    exact hs.closed hc
  · have h1 := hfr.key
    have h2 := hk.lt x hxm.1
    rw [hxm'.2] at h1; rw [hxm.2] at h2; omega

theorem get?_modStreamW (s : Streams) (id : Nat) (f : Stream → Stream × List String) (hk : ∀ x, (f x).1.key = x.key) :
    (s.modStreamW id f).store.get? id = (s.store.get? id).map fun x => (f x).1 := by
  unfold Streams.modStreamW
  split
  · next x hx =>
    show ((s.setStream (f x).1).wake _).store.get? id = _
    show (s.setStream (f x).1).store.get? id = _
    rw [get?_setStream, hx]
    have : (f x).1.key = id := by rw [hk]; exact (get?_mem hx).2
    simp [this, (get?_mem hx).2]
  · next hn => rw [panic_store, hn]; rfl

theorem isClosed_of_isReset {st : State} (h : st.isReset = true) : st.isClosed = true := by
  obtain ⟨inner⟩ := st
  cases inner <;> simp [State.isReset, State.isClosed] at h ⊢

/-- after `Send::send_reset` the stream is closed -/
theorem sendSendReset_closed (s : Streams) (k : Nat) (r : Reason) (i : Initiator) (hk : KeysOK s.store)
    {x : Stream} (hx : s.store.get? k = some x) {x' : Stream}
    (hx' : (s.sendSendReset k r i).store.get? k = some x') : x'.state.isClosed = true := by
  unfold Streams.sendSendReset at hx'
  dsimp only at hx'
  split at hx'
  · next hr =>
    rw [hx] at hx'; cases hx'
    rw [stream_eq_of_get? hx] at hr
    exact isClosed_of_isReset hr
  · -- `set_reset`, then steps that do not reopen anything
    have hg1 : (s.modStreamW k fun st => st.setReset r i).store.get? k = some (x.setReset r i).1 := by
      rw [get?_modStreamW _ _ _ (fun y => (setReset_same y r i).key), hx]; rfl
    have hc1 : (x.setReset r i).1.state.isClosed = true := by
      have h1 : SameR { x with state := x.state.setReset x.id r i } (x.setReset r i).1 := by
        unfold Stream.setReset
        exact (notifySend_same _).trans ((notifyPush_same _).trans (notifyRecv_same _))
      exact h1.closed rfl
    have hk1 : KeysOK (s.modStreamW k fun st => st.setReset r i).store :=
      (modStreamW_ext s k _ fun y _ => setReset_same y r i).keys hk
    generalize (s.modStreamW k fun st => st.setReset r i) = s1 at hx' hg1 hk1
    split at hx'
    · rw [hg1] at hx'; cases hx'; exact hc1
    · refine Ext.closed_of_get? hk1 ?_ hg1 hc1 hx'
      ext_auto

theorem StreamOK.of_sameR {s s' : Streams} {g : Ghost} {x x' : Stream} (hk : KeysOK s.store) (e : Ext s s')
    (hx : x ∈ s.store.slab) (hs : SameR x x') (ok : StreamOK s g x) : StreamOK s' g x' := by
  refine ⟨by rw [hs.flow]; exact ok.wI32, by rw [hs.flow]; exact ok.aI32, by rw [hs.flow]; exact ok.wa, ?_, ?_⟩
  · rcases ok.live with hc | hl
    · exact .inl (hs.closed hc)
    · exact .inr (by rw [hs.flow, hs.infl]; exact hl)
  · intro hl
    have hl' : linked s x.key := by
      rcases e.link x'.key hl with h1 | h1
      · rw [hs.key] at h1; exact h1
      · have := hk.lt x hx
        rw [hs.key] at h1; omega
    rcases ok.bud hl' with hc | hb
    · exact .inl (hs.closed hc)
    · refine .inr ?_
      rw [hs.flow, hs.infl, e.init]
      exact ⟨hb.1, fun hr => hb.2 (hs.recv hr)⟩

theorem StreamOK.of_fresh {s s' : Streams} {g : Ghost} {x' : Stream} (e : Ext s s') (hfr : Fresh s x')
    (hI : s.recv.initWindowSz ≤ g.hiInit) (hM : g.hiInit ≤ 2147483647) : StreamOK s' g x' := by
  rcases hfr.flow with hfl | ⟨hfl, hc⟩
  · rw [newRecvFlow_eq (by omega)] at hfl
    refine ⟨?_, ?_, ?_, ?_, ?_⟩
    · rw [hfl]; apply inI32_of_range <;> simp <;> omega
    · rw [hfl]; apply inI32_of_range <;> simp <;> omega
    · rw [hfl]; exact Int.le_refl _
    · right; rw [hfl, hfr.infl]; simp; omega
    · intro _; right; rw [hfl, hfr.infl, e.init]; simp
  · rw [newRecvFlow_zero] at hfl
    refine ⟨?_, ?_, ?_, .inl hc, fun _ => .inl hc⟩
    · rw [hfl]; decide
    · rw [hfl]; decide
    · rw [hfl]; exact Int.le_refl _

/-- `Inv.of_ext` with one entry (key `k`) that is not covered by the invariant before — it has the
    zero window of `Stream::new(id, 0, 0)` — but is closed afterwards -/
theorem Inv.of_ext_exempt {full : Bool} {g : Ghost} {s s' : Streams} (k : Nat) (hbase : Inv false g s)
    (hstreams : full = true → ∀ x ∈ s.store.slab, x.key ≠ k → StreamOK s g x)
    (hz : ∀ x ∈ s.store.slab, x.key = k → x.recvFlow = ⟨⟨0⟩, ⟨0⟩⟩ ∧ x.inFlightRecvData = 0)
    (e : Ext s s') (hcl : ∀ x' ∈ s'.store.slab, x'.key = k → x'.state.isClosed = true) : Inv full g s' := by
  have hb' := hbase.of_ext e
  refine { hb' with streams := fun hf x' hx' => ?_ }
  rcases e.slab hbase.keys x' hx' with ⟨y, hy, hs⟩ | hfr
  · by_cases hyk : y.key = k
    · have hzz := hz y hy hyk
      have hc := hcl x' hx' (by rw [hs.key]; exact hyk)
      refine ⟨?_, ?_, ?_, .inl hc, fun _ => .inl hc⟩
      · rw [hs.flow, hzz.1]; decide
      · rw [hs.flow, hzz.1]; decide
      · rw [hs.flow, hzz.1]; exact Int.le_refl _
    · exact (hstreams hf y hy hyk).of_sameR hbase.keys e hy hs
  · exact StreamOK.of_fresh e hfr hbase.initHi hbase.initMax

theorem Ext.closed_of_mem {s s' : Streams} (hk : KeysOK s.store) (e : Ext s s') {k : Nat}
    (hc : ∀ y, s.store.get? k = some y → y.state.isClosed = true) (hlt : k < s.store.nextKey)
    {x' : Stream} (hx' : x' ∈ s'.store.slab) (hkx : x'.key = k) : x'.state.isClosed = true := by
  rcases e.slab hk x' hx' with ⟨y, hy, hs⟩ | hfr
  · have hg := get?_of_mem hk hy
    rw [← hs.key, hkx] at hg
    exact hs.closed (hc y hg)
  · have h1 := hfr.key
    rw [hkx] at h1; omega

/-- the same without knowing that the key is an old one: an entry created on the way has nothing in
    flight -/
theorem Ext.closed_or_empty_of_mem {s s' : Streams} (hk : KeysOK s.store) (e : Ext s s') {k : Nat}
    (hc : ∀ y, s.store.get? k = some y → y.state.isClosed = true)
    {x' : Stream} (hx' : x' ∈ s'.store.slab) (hkx : x'.key = k) :
    x'.state.isClosed = true ∨ x'.inFlightRecvData = 0 := by
  rcases e.slab hk x' hx' with ⟨y, hy, hs⟩ | hfr
  · have hg := get?_of_mem hk hy
    rw [← hs.key, hkx] at hg
    exact .inl (hs.closed (hc y hg))
  · exact .inr hfr.infl

theorem modCountsA_store (s : Streams) (w : String) (f : Counts → Option Counts) : (s.modCountsA w f).store = s.store := by
  unfold Streams.modCountsA; split
  · rfl
  · rw [panic_store]

/-- when `Actions::send_reset` answers `Ok`, the stream is closed (if it is still there) -/
theorem actionsSendReset_ok_closed (s : Streams) (k : Nat) (r : Reason) (i : Initiator) (hk : KeysOK s.store)
    (hlt : k < s.store.nextKey) (hok : (s.actionsSendReset k r i).2 = .ok ())
    {x' : Stream} (hx' : x' ∈ (s.actionsSendReset k r i).1.store.slab) (hkx : x'.key = k) :
    x'.state.isClosed = true := by
  unfold Streams.actionsSendReset Streams.transition at hok hx'
  dsimp only at hok hx'
  -- the counter check
  have hpre : ∀ (pre : Streams × Bool), pre.1.store = s.store →
      (match pre with
        | (s, false) => ((s, Except.error { reason := ENHANCE_YOUR_CALM, debugData := "too_many_internal_resets" }) :
            Streams × Except GoAwayErr Unit)
        | (s, true) =>
          (((s.sendSendReset k r i).enqueueResetExpiration k).modStreamW k Stream.notifyRecv, .ok ())).2 = .ok () →
      x' ∈ ((match pre with
        | (s, false) => ((s, Except.error { reason := ENHANCE_YOUR_CALM, debugData := "too_many_internal_resets" }) :
            Streams × Except GoAwayErr Unit)
        | (s, true) =>
          (((s.sendSendReset k r i).enqueueResetExpiration k).modStreamW k Stream.notifyRecv, .ok ())).1.transitionAfter k
            (s.stream k).isPendingResetExpiration).store.slab →
      x'.state.isClosed = true := by
    intro pre hst hok' hx''
    obtain ⟨s1, b⟩ := pre
    cases b with
    | false => cases hok'
    | true =>
      dsimp only at hx'' hst
      have hk1 : KeysOK s1.store := by rw [hst]; exact hk
      have hk2 : KeysOK (s1.sendSendReset k r i).store := (sendSendReset_ext s1 k r i).keys hk1
      have hlt2 : k < (s1.sendSendReset k r i).store.nextKey :=
        Nat.lt_of_lt_of_le (by rw [hst]; exact hlt) (sendSendReset_ext s1 k r i).nk
      have e : Ext (s1.sendSendReset k r i)
          ((((s1.sendSendReset k r i).enqueueResetExpiration k).modStreamW k Stream.notifyRecv).transitionAfter k
            (s.stream k).isPendingResetExpiration) :=
        ((enqueueResetExpiration_ext _ _).trans (modStreamW_ext _ _ _ (fun y _ => notifyRecv_same y))).trans
          (transitionAfter_ext _ _ _)
      refine Ext.closed_of_mem hk2 e (k := k) ?_ hlt2 hx'' hkx
      · intro y hy
        cases hg : s1.store.get? k with
        | none =>
          -- no entry before: none after (no fresh key below `nextKey`)
          exfalso
          have hym := get?_mem hy
          rcases (sendSendReset_ext s1 k r i).slab hk1 y hym.1 with ⟨z, hz, hs⟩ | hfr
          · have := get?_of_mem hk1 hz
            rw [← hs.key, hym.2, hg] at this; cases this
          · have := hfr.key
            rw [hym.2, hst] at this; omega
        | some x => exact sendSendReset_closed s1 k r i hk1 hg hy
  refine hpre _ ?_ hok hx'
  split
  · split
    · exact modCountsA_store _ _ _
    · rfl
  · rfl

/-- inserting a stream with nothing in flight cannot disturb the connection-level invariant -/
theorem Inv.false_insert {g : Ghost} {s : Streams} (h : Inv false g s) (x : Stream) (hi : x.inFlightRecvData = 0) :
    Inv false g { s with store := (s.store.insert x).1 } :=
  ⟨insert_keysOK _ _ h.keys, h.wI32, h.aI32, h.cons, h.w0, h.wI, h.tHi, h.hiMax,
   by show ((sumInfl (s.store.slab ++ [{ x with key := s.store.nextKey }]) : Nat) : Int) + 0 ≤ (cI s : Int)
      have := h.sum; simp [hi] at this ⊢; omega,
   h.initHi, h.initMax, fun hc => by cases hc⟩

theorem insert_link (st : Store) (x : Stream) (q : Nat) (hq : q ∈ (st.insert x).1.ids.map (·.2)) :
    q ∈ st.ids.map (·.2) ∨ q = st.nextKey := by
  simp only [Store.insert] at hq
  split at hq
  · obtain ⟨p, hp, rfl⟩ := List.mem_map.1 hq
    obtain ⟨p0, hp0, rfl⟩ := List.mem_map.1 hp
    split
    · exact .inr rfl
    · exact .inl (List.mem_map_of_mem hp0)
  · simp only [List.map_append, List.map_cons, List.map_nil, List.mem_append, List.mem_singleton] at hq
    rcases hq with hq | rfl
    · exact .inl hq
    · exact .inr rfl

/-- **`Inner::send_reset(id, reason)`** -/
theorem innerSendReset_inv {full : Bool} {g : Ghost} {s : Streams} (h : Inv full g s) (id : Nat) (r : Reason) :
    Inv false g (s.innerSendReset id r).1 ∧
    ((s.innerSendReset id r).2 = .ok () → Inv full g (s.innerSendReset id r).1) := by
  unfold Streams.innerSendReset
  cases hfk : s.store.findKey? id with
  | some k =>
    dsimp only
    have := h.of_ext (actionsSendReset_ext s k r .library)
    exact ⟨this.drop_full, fun _ => this⟩
  | none =>
    dsimp only
    have h0 : Inv full g (if s.counts.isLocalInit id = true then s.sendMaybeResetNextStreamId id
        else s.recvMaybeResetNextStreamId id) := by inv_auto
    generalize (if s.counts.isLocalInit id = true then s.sendMaybeResetNextStreamId id
        else s.recvMaybeResetNextStreamId id) = s0 at h0 ⊢
    -- the new entry: key `nextKey`, window 0
    have hbase : Inv false g { s0 with store := (s0.store.insert (Stream.new id 0 0)).1 } :=
      Inv.false_insert h0.drop_full _ rfl
    have hslab : ∀ y ∈ ({ s0 with store := (s0.store.insert (Stream.new id 0 0)).1 } : Streams).store.slab,
        (y ∈ s0.store.slab ∧ y.key ≠ s0.store.nextKey) ∨
        (y = { Stream.new id 0 0 with key := s0.store.nextKey }) := by
      intro y hy
      have hy' : y ∈ s0.store.slab ++ [{ Stream.new id 0 0 with key := s0.store.nextKey }] := hy
      rcases List.mem_append.1 hy' with hy' | hy'
      · left; exact ⟨hy', by have := h0.keys.lt y hy'; omega⟩
      · right; simpa using hy'
    have hstreams : full = true → ∀ y ∈ ({ s0 with store := (s0.store.insert (Stream.new id 0 0)).1 } : Streams).store.slab,
        y.key ≠ s0.store.nextKey → StreamOK { s0 with store := (s0.store.insert (Stream.new id 0 0)).1 } g y := by
      intro hf y hy hne
      rcases hslab y hy with ⟨hy0, -⟩ | rfl
      · have ok := h0.streams hf y hy0
        refine ⟨ok.wI32, ok.aI32, ok.wa, ok.live, fun hl => ?_⟩
        apply ok.bud
        rcases insert_link _ _ _ hl with hl' | hl'
        · exact hl'
        · exact absurd hl' hne
      · exact absurd rfl hne
    have hz : ∀ y ∈ ({ s0 with store := (s0.store.insert (Stream.new id 0 0)).1 } : Streams).store.slab,
        y.key = s0.store.nextKey → y.recvFlow = ⟨⟨0⟩, ⟨0⟩⟩ ∧ y.inFlightRecvData = 0 := by
      intro y hy hk
      rcases hslab y hy with ⟨-, hne⟩ | rfl
      · exact absurd hk hne
      · exact ⟨newRecvFlow_zero, rfl⟩
    have e := actionsSendReset_ext { s0 with store := (s0.store.insert (Stream.new id 0 0)).1 } s0.store.nextKey r .library
    refine ⟨hbase.of_ext e, fun hok => ?_⟩
    refine Inv.of_ext_exempt s0.store.nextKey hbase hstreams hz e fun x' hx' hkx => ?_
    exact actionsSendReset_ok_closed _ _ r .library hbase.keys (by show s0.store.nextKey < s0.store.nextKey + 1; omega)
      hok hx' hkx

end H2V.Lemmas.ConnRecvP
