import H2V.Lemmas.ConnDrainPCapC
/-
  ConnDrainP, part 17 — `KInv` through recv.rs (generated from the shape of ConnFlowPReq3: nothing here touches a
  send window or `pending_capacity` except through `send_reset` / `transition_after`).
-/
namespace H2V.Lemmas.ConnDrainP
open H2V H2V.Model H2V.Model.Conn
open H2V.Lemmas.ConnFlowP H2V.Lemmas.Comp

section
variable {t : Streams}

theorem KInv.setStream_dec (h : KInv t) {id len : Nat} {st1 : Stream}
    (he : (t.stream id).decContentLength len = some st1) : KInv (t.setStream st1) :=
  h.of_fr ((Fr.refl _).setStream_dec he) (h.req.setStream_dec he) rfl
macro_rules | `(tactic| k_peel) => `(tactic| (with_reducible apply KInv.setStream_dec (he := by assumption)))

theorem KInv.releaseConnectionCapacity (h : KInv t) (c : Nat) (b : Bool) : KInv (t.releaseConnectionCapacity c b) := by
  k_by Streams.releaseConnectionCapacity
macro_rules | `(tactic| k_peel) => `(tactic| with_reducible apply KInv.releaseConnectionCapacity)

theorem KInv.releaseCapacity (h : KInv t) (id c : Nat) (b : Bool) : KInv (t.releaseCapacity id c b).1 := by
  k_by Streams.releaseCapacity
macro_rules | `(tactic| k_peel) => `(tactic| with_reducible apply KInv.releaseCapacity)

theorem KInv.clearRecvBuffer (h : KInv t) (id : Nat) (b : Bool) : KInv (t.clearRecvBuffer id b) := by
  k_by Streams.clearRecvBuffer
macro_rules | `(tactic| k_peel) => `(tactic| with_reducible apply KInv.clearRecvBuffer)

theorem KInv.releaseClosedCapacity (h : KInv t) (id : Nat) : KInv (t.releaseClosedCapacity id) := by
  k_by Streams.releaseClosedCapacity
macro_rules | `(tactic| k_peel) => `(tactic| with_reducible apply KInv.releaseClosedCapacity)

theorem KInv.setTargetConnectionWindow (h : KInv t) (n : Nat) : KInv (t.setTargetConnectionWindow n).1 := by
  k_by Streams.setTargetConnectionWindow
macro_rules | `(tactic| k_peel) => `(tactic| with_reducible apply KInv.setTargetConnectionWindow)

theorem KInv.consumeConnectionWindow (h : KInv t) (n : Nat) : KInv (t.consumeConnectionWindow n).1 := by
  k_by Streams.consumeConnectionWindow
macro_rules | `(tactic| k_peel) => `(tactic| with_reducible apply KInv.consumeConnectionWindow)

theorem KInv.ignoreData (h : KInv t) (n : Nat) : KInv (t.ignoreData n).1 := by
  k_by Streams.ignoreData
macro_rules | `(tactic| k_peel) => `(tactic| with_reducible apply KInv.ignoreData)

theorem KInv.recvOpen (h : KInv t) (id : Nat) (b : Bool) : KInv (t.recvOpen id b).1 := by
  k_by Streams.recvOpen
macro_rules | `(tactic| k_peel) => `(tactic| with_reducible apply KInv.recvOpen)

theorem KInv.notifyPushIfRecvEnded (h : KInv t) (id : Nat) : KInv (t.notifyPushIfRecvEnded id) := by
  k_by Streams.notifyPushIfRecvEnded
macro_rules | `(tactic| k_peel) => `(tactic| with_reducible apply KInv.notifyPushIfRecvEnded)

set_option maxHeartbeats 800000 in
theorem KInv.recvRecvHeaders (h : KInv t) (id : Nat) (hd : HeadersIn) : KInv (t.recvRecvHeaders id hd).1 := by
  k_by Streams.recvRecvHeaders
macro_rules | `(tactic| k_peel) => `(tactic| with_reducible apply KInv.recvRecvHeaders)

theorem KInv.recvRecvTrailers (h : KInv t) (id : Nat) (hd : HeadersIn) : KInv (t.recvRecvTrailers id hd).1 := by
  k_by Streams.recvRecvTrailers
macro_rules | `(tactic| k_peel) => `(tactic| with_reducible apply KInv.recvRecvTrailers)

set_option maxHeartbeats 800000 in
theorem KInv.recvRecvData (h : KInv t) (id : Nat) (p : Bytes) (eos : Bool) (pad : Option Nat) :
    KInv (t.recvRecvData id p eos pad).1 := by
  k_by Streams.recvRecvData
macro_rules | `(tactic| k_peel) => `(tactic| with_reducible apply KInv.recvRecvData)

theorem KInv.recvRecvPushPromise (h : KInv t) (id : Nat) (hd : HeadersIn) : KInv (t.recvRecvPushPromise id hd).1 := by
  k_by Streams.recvRecvPushPromise
macro_rules | `(tactic| k_peel) => `(tactic| with_reducible apply KInv.recvRecvPushPromise)

theorem KInv.recvNextIncoming (h : KInv t) : KInv t.recvNextIncoming.1 := by
  k_by Streams.recvNextIncoming
macro_rules | `(tactic| k_peel) => `(tactic| with_reducible apply KInv.recvNextIncoming)

theorem KInv.recvTakeRequest (h : KInv t) (id : Nat) : KInv (t.recvTakeRequest id).1 := by
  k_by Streams.recvTakeRequest
macro_rules | `(tactic| k_peel) => `(tactic| with_reducible apply KInv.recvTakeRequest)

theorem KInv.recvRecvReset (h : KInv t) (id : Nat) (r : Reason) : KInv (t.recvRecvReset id r).1 := by
  k_by Streams.recvRecvReset
macro_rules | `(tactic| k_peel) => `(tactic| with_reducible apply KInv.recvRecvReset)

theorem KInv.recvHandleError (h : KInv t) (id : Nat) (e : PErr) : KInv (t.recvHandleError id e) := by
  k_by Streams.recvHandleError
macro_rules | `(tactic| k_peel) => `(tactic| with_reducible apply KInv.recvHandleError)

theorem KInv.recvGoAway (h : KInv t) (id : Nat) : KInv (t.recvGoAway id) := by
  k_by Streams.recvGoAway
macro_rules | `(tactic| k_peel) => `(tactic| with_reducible apply KInv.recvGoAway)

theorem KInv.recvRecvEof (h : KInv t) (id : Nat) : KInv (t.recvRecvEof id) := by
  k_by Streams.recvRecvEof
macro_rules | `(tactic| k_peel) => `(tactic| with_reducible apply KInv.recvRecvEof)

theorem KInv.recvMaybeResetNextStreamId (h : KInv t) (id : Nat) : KInv (t.recvMaybeResetNextStreamId id) := by
  k_by Streams.recvMaybeResetNextStreamId
macro_rules | `(tactic| k_peel) => `(tactic| with_reducible apply KInv.recvMaybeResetNextStreamId)

theorem KInv.enqueueResetExpiration (h : KInv t) (id : Nat) : KInv (t.enqueueResetExpiration id) := by
  k_by Streams.enqueueResetExpiration
macro_rules | `(tactic| k_peel) => `(tactic| with_reducible apply KInv.enqueueResetExpiration)

theorem KInv.sendPendingRefusal (h : KInv t) (w : Writer) : KInv (t.sendPendingRefusal w).1 := by
  k_by Streams.sendPendingRefusal
macro_rules | `(tactic| k_peel) => `(tactic| with_reducible apply KInv.sendPendingRefusal)

theorem KInv.clearExpiredResetStreams (fuel : Nat) : ∀ {t : Streams}, KInv t → KInv (Streams.clearExpiredResetStreams fuel t) := by
  induction fuel with
  | zero => intro t h; exact h
  | succ n ih => intro t h; k_by Streams.clearExpiredResetStreams
macro_rules | `(tactic| k_peel) => `(tactic| with_reducible apply KInv.clearExpiredResetStreams)

theorem KInv.clearStreamWindowUpdateQueue (fuel : Nat) :
    ∀ {t : Streams}, KInv t → KInv (Streams.clearStreamWindowUpdateQueue fuel t) := by
  induction fuel with
  | zero => intro t h; exact h
  | succ n ih => intro t h; k_by Streams.clearStreamWindowUpdateQueue
macro_rules | `(tactic| k_peel) => `(tactic| with_reducible apply KInv.clearStreamWindowUpdateQueue)

theorem KInv.clearAllResetStreams (fuel : Nat) : ∀ {t : Streams}, KInv t → KInv (Streams.clearAllResetStreams fuel t) := by
  induction fuel with
  | zero => intro t h; exact h
  | succ n ih => intro t h; k_by Streams.clearAllResetStreams
macro_rules | `(tactic| k_peel) => `(tactic| with_reducible apply KInv.clearAllResetStreams)

theorem KInv.clearAllPendingAccept (fuel : Nat) : ∀ {t : Streams}, KInv t → KInv (Streams.clearAllPendingAccept fuel t) := by
  induction fuel with
  | zero => intro t h; exact h
  | succ n ih => intro t h; k_by Streams.clearAllPendingAccept
macro_rules | `(tactic| k_peel) => `(tactic| with_reducible apply KInv.clearAllPendingAccept)

theorem KInv.recvClearQueues (h : KInv t) (b : Bool) : KInv (t.recvClearQueues b) := by
  k_by Streams.recvClearQueues
macro_rules | `(tactic| k_peel) => `(tactic| with_reducible apply KInv.recvClearQueues)

theorem KInv.sendConnectionWindowUpdate (h : KInv t) (w : Writer) : KInv (t.sendConnectionWindowUpdate w).1 := by
  k_by Streams.sendConnectionWindowUpdate
macro_rules | `(tactic| k_peel) => `(tactic| with_reducible apply KInv.sendConnectionWindowUpdate)

theorem KInv.sendStreamWindowUpdates (fuel : Nat) :
    ∀ {t : Streams}, KInv t → ∀ w, KInv (Streams.sendStreamWindowUpdates fuel t w).1 := by
  induction fuel with
  | zero => intro t h w; exact h
  | succ n ih => intro t h w; k_by Streams.sendStreamWindowUpdates
macro_rules | `(tactic| k_peel) => `(tactic| with_reducible apply KInv.sendStreamWindowUpdates)

theorem KInv.recvBufferPending (h : KInv t) (w : Writer) : KInv (t.recvBufferPending w).1 := by
  k_by Streams.recvBufferPending
macro_rules | `(tactic| k_peel) => `(tactic| with_reducible apply KInv.recvBufferPending)

theorem KInv.scheduleRecv (h : KInv t) (id : Nat) (tag : String) : KInv (t.scheduleRecv id tag).1 := by
  k_by Streams.scheduleRecv
macro_rules | `(tactic| k_peel) => `(tactic| with_reducible apply KInv.scheduleRecv)

theorem KInv.recvPollData (h : KInv t) (id : Nat) (tag : String) : KInv (t.recvPollData id tag).1 := by
  k_by Streams.recvPollData
macro_rules | `(tactic| k_peel) => `(tactic| with_reducible apply KInv.recvPollData)

theorem KInv.recvPollTrailers (h : KInv t) (id : Nat) (tag : String) : KInv (t.recvPollTrailers id tag).1 := by
  k_by Streams.recvPollTrailers
macro_rules | `(tactic| k_peel) => `(tactic| with_reducible apply KInv.recvPollTrailers)

theorem KInv.recvPollResponse (fuel : Nat) :
    ∀ {t : Streams}, KInv t → ∀ id tag, KInv (Streams.recvPollResponse fuel t id tag).1 := by
  induction fuel with
  | zero => intro t h id tag; exact h
  | succ n ih => intro t h id tag; k_by Streams.recvPollResponse
macro_rules | `(tactic| k_peel) => `(tactic| with_reducible apply KInv.recvPollResponse)

theorem KInv.recvPollInformational (h : KInv t) (id : Nat) (tag : String) : KInv (t.recvPollInformational id tag).1 := by
  unfold Streams.recvPollInformational; dsimp only
  split
  · rename_i r heq
    split at heq
    · cases heq; exact h
    · cases heq; k_auto
    · cases heq
  · k_auto
macro_rules | `(tactic| k_peel) => `(tactic| with_reducible apply KInv.recvPollInformational)

end


end H2V.Lemmas.ConnDrainP
