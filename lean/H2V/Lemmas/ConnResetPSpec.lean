import H2V.Lemmas.ConnResetPHist
/-
  ConnResetP — the exact effect of `StreamRef::send_reset` (C17, first half): what the reset stream
  looks like afterwards and that no other stream's queue is touched.
-/
set_option linter.unusedSectionVars false
namespace H2V.Lemmas.ConnResetP
open H2V H2V.Model H2V.Model.Conn

/-- the frame relation "core fields unchanged" -/
instance : Good CoreEq (fun _ => True) where
  trans := CoreEq.trans
  new := fun _ _ => trivial
  core := fun h => h
  key := CoreEq.key

theorem refSendReset_eq (s : Streams) (id : Nat) (r : Reason) :
    s.refSendReset id r =
      ((((s.sendSendReset id r .user).enqueueResetExpiration id).modStreamW id Stream.notifyRecv).transitionAfter id
        (s.stream id).isPendingResetExpiration) := rfl

/-- the reset stream keeps its core fields, and stays in the slab, through the rest of `send_reset`;
    the other streams keep theirs or (with an empty queue) are released -/
theorem resetTail_frame (x : Streams) (id : Nat) (b : Bool) :
    Evolves CoreEq (fun _ => True) x.store
      ((((x.reclaimAllCapacity id).enqueueResetExpiration id).modStreamW id Stream.notifyRecv).transitionAfter id b).store := by
  have h : Evolves CoreEq (fun _ => True) x.store x.store := Evolves.refl _
  ev

/-- **`send_reset(reason)` on a stream that is not reset yet and is not (closed with nothing unsent)**:
    afterwards the stream is still in the slab, closed with `Reset(id, reason, User)`, and its queue is
    exactly the RST_STREAM — preceded by the initial HEADERS when the stream still waits to be opened;
    every other slab entry keeps key, id, state and queue — or, if its queue was empty, may have been
    released by the capacity reassignment. -/
theorem refSendReset_spec (s : Streams) (id : Nat) (r : Reason) (st : Stream)
    (hkb : KeysBelow s.store) (hg : s.store.get? id = some st) (hr : st.state.isReset = false)
    (hne : (st.state.isClosed && (st.pendingSend.isEmpty && st.bufferedSendData == 0)) = false) :
    (∃ st', (s.refSendReset id r).store.get? id = some st' ∧ st'.id = st.id ∧
        st'.state = ⟨.closed (.error (.reset st.id r .user))⟩ ∧
        st'.pendingSend = (if st.isPendingOpen then st.pendingSend.head?.toList else []) ++ [.reset r]) ∧
    (∀ k st'', k ≠ id → k < s.store.nextKey → (s.refSendReset id r).store.get? k = some st'' →
        ∃ st0, s.store.get? k = some st0 ∧ CoreEq st0 st'') ∧
    (∀ k st0, k ≠ id → s.store.get? k = some st0 → st0.pendingSend ≠ [] →
        ∃ st'', (s.refSendReset id r).store.get? k = some st'' ∧ CoreEq st0 st'') := by
  have hs : s.stream id = st := stream_of_get? _ hg
  rw [refSendReset_eq, sendSendReset_eq s id r .user (by rw [hs]; exact hr) (by rw [hs]; exact hne)]
  obtain ⟨G, hG, hGk, hspec⟩ := sendResetPre_store s id r .user
  have sp := hspec st hg
  have ev := resetTail_frame (sendResetPre s id r .user) id (s.stream id).isPendingResetExpiration
  generalize ((((sendResetPre s id r .user).reclaimAllCapacity id).enqueueResetExpiration id).modStreamW id
    Stream.notifyRecv).transitionAfter id (s.stream id).isPendingResetExpiration = fin at ev ⊢
  rw [hG] at ev
  have hnk : (Store.mod s.store id G).nextKey = s.store.nextKey := Store.nextKey_mod _ _ _
  have hget : ∀ k, (Store.mod s.store id G).get? k = if k = id then (s.store.get? id).map G else s.store.get? k :=
    fun k => Store.get?_mod' _ _ _ hGk k
  refine ⟨?_, ?_, ?_⟩
  · have h3 : (Store.mod s.store id G).get? id = some (G st) := by rw [hget, if_pos rfl, hg]; rfl
    rcases ev.fwd id (G st) h3 (by rw [hnk]; exact hkb id st hg) with ⟨st', h', c⟩ | ⟨st'', c, d⟩
    · refine ⟨st', h', c.id.trans sp.id, ?_, ?_⟩
      · rw [c.state, sp.state]; rfl
      · rw [c.pendingSend, sp.pendingSend]
    · exfalso
      have : (G st).pendingSend = [] := by rw [← c.pendingSend]; exact d.1
      rw [sp.pendingSend] at this
      simp at this
  · intro k st'' hk hlt' h'
    rcases ev.back k st'' h' with ⟨st0, h0, c⟩ | ⟨hge, _, _⟩
    · rw [hget, if_neg hk] at h0; exact ⟨st0, h0, c⟩
    · exfalso; rw [hnk] at hge; omega
  · intro k st0 hk h0 hq
    have h3 : (Store.mod s.store id G).get? k = some st0 := by rw [hget, if_neg hk]; exact h0
    rcases ev.fwd k st0 h3 (by rw [hnk]; exact hkb k st0 h0) with ⟨st', h', c⟩ | ⟨st'', c, d⟩
    · exact ⟨st', h', c⟩
    · exfalso; apply hq; rw [← c.pendingSend]; exact d.1

end H2V.Lemmas.ConnResetP
