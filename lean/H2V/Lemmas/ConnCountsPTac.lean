import Lean
import H2V.Lemmas.ConnCountsPPrim
/-
  C05 / C18 / C19 — part 3: `Same` for the stream methods, and the automation for `Ev` goals.

  A goal `EvB ρ s0 (f a (g b s))` is peeled from the outside: `ev_head` looks at the head function `f`
  of the target and applies `EvB.trans ?_ (f_ev ..)` where `f_ev : EvB ρ s (f a s)` is found BY NAME
  (`<last component of f>_ev` in this namespace).  `ev_auto` repeats that, splitting `if`s and
  `match`es on the way; side conditions are handed to `ev_side`.
-/
namespace H2V.Lemmas.ConnCountsP
open H2V H2V.Model H2V.Model.Conn
variable {ρ : Bool}
attribute [local irreducible] wrapSubU32 wrapSubUsize

-- ===================================================================== `Same` for stream methods

/-- an update that touches neither the identity fields, nor `state`, nor `pending_send` -/
theorem Same.of_fields {a b : Stream} (hk : b.key = a.key) (hi : b.id = a.id) (hc : b.isCounted = a.isCounted)
    (h1 : b.isPendingSend = a.isPendingSend) (h2 : b.isPendingSendCapacity = a.isPendingSendCapacity)
    (h3 : b.isPendingOpen = a.isPendingOpen) (h4 : b.isPendingWindowUpdate = a.isPendingWindowUpdate)
    (h5 : b.isPendingAccept = a.isPendingAccept) (h6 : b.resetAt = a.resetAt)
    (hs : b.state = a.state) (hp : b.pendingSend = a.pendingSend) : Same a b :=
  ⟨hk, hi, hc, fun q => by cases q <;> simp [Stream.isQueued, *], fun h => by unfold Early at *; rw [← hs]; exact h,
   fun f hf _ => hp ▸ hf⟩

/-- `Same x { x with … }` when only uninteresting fields change -/
macro "same_fields" : tactic => `(tactic| with_reducible exact Same.of_fields rfl rfl rfl rfl rfl rfl rfl rfl rfl rfl rfl)

theorem notifySend_same (x : Stream) : Same x x.notifySend.1 := by
  unfold Stream.notifySend
  cases h1 : x.sendTask <;> cases h2 : x.openTask <;> simp only [h1, h2] <;> same_fields

theorem notifyRecv_same (x : Stream) : Same x x.notifyRecv.1 := by
  unfold Stream.notifyRecv; split <;> same_fields

theorem notifyPush_same (x : Stream) : Same x x.notifyPush.1 := by
  unfold Stream.notifyPush; split <;> same_fields

theorem notifyCapacity_same (x : Stream) : Same x x.notifyCapacity.1 := by
  unfold Stream.notifyCapacity
  exact Same.trans (b := { x with sendCapacityInc := true }) (by same_fields) (notifySend_same _)

theorem assignCapacity_same (x : Stream) (a b : Nat) : Same x (x.assignCapacity a b).1 := by
  unfold Stream.assignCapacity; simp only []; split
  · exact Same.trans (b := { x with sendFlow := (x.sendFlow.assignCapacity a).1 }) (by same_fields) (notifyCapacity_same _)
  · same_fields

open Lean Elab Command Meta in
/-- `abstract_const f c as g`: defines `g := fun (x : type of c) => (value of f)[c := x]`, so that
    `f = g c` holds by unfolding both sides to syntactically identical terms.
    (Needed for `Stream.sendData`: unfolding it makes the kernel evaluate `Nat.decLt` on
    `… + 2^64 …` in unary; with the instance abstracted the `if` is stuck on a variable.
    Technique relayed from the C03 proof.) -/
elab "abstract_const " f:ident c:ident " as " g:ident : command => liftTermElabM do
  let fn ← realizeGlobalConstNoOverloadWithInfo f
  let cn ← realizeGlobalConstNoOverloadWithInfo c
  let finfo ← getConstInfo fn
  let cinfo ← getConstInfo cn
  let some val := finfo.value? | throwError "no value"
  unless finfo.levelParams.isEmpty && cinfo.levelParams.isEmpty do throwError "universe polymorphic"
  let cty := cinfo.type
  let (gval, gty) ← withLocalDeclD `inst cty fun x => do
    let v := val.replace fun e => if e.isConstOf cn then some x else none
    let gval ← mkLambdaFVars #[x] v
    let gty ← mkForallFVars #[x] finfo.type
    pure (gval, gty)
  let gname := (← getCurrNamespace) ++ g.getId
  let hints := ReducibilityHints.regular (getMaxHeight (← getEnv) gval + 1)
  addDecl (.defnDecl { name := gname, levelParams := [], type := gty, value := gval, hints := hints, safety := .safe })

abstract_const Stream.sendData Nat.decLt as sendDataG
theorem sendData_eq_G : Stream.sendData = sendDataG Nat.decLt := rfl

theorem sendDataG_same (inst : ∀ p q : Nat, Decidable (p < q)) (x : Stream) (a b : Nat) :
    Same x (sendDataG inst x a b).1 := by
  unfold sendDataG
  generalize x.sendFlow.sendData a = p
  obtain ⟨fl, r⟩ := p
  dsimp only
  generalize inst _ _ = d
  cases d with
  | isTrue h =>
    simp only [if_pos h]
    refine Same.trans ?_ (notifyCapacity_same _)
    same_fields
  | isFalse h =>
    simp only [if_neg h]
    same_fields

theorem sendData_same (x : Stream) (a b : Nat) : Same x (x.sendData a b).1 := by
  rw [sendData_eq_G]; exact sendDataG_same _ x a b

theorem waitSend_same (x : Stream) (t : String) : Same x (x.waitSend t) := by unfold Stream.waitSend; same_fields
theorem waitOpen_same (x : Stream) (t : String) : Same x (x.waitOpen t) := by unfold Stream.waitOpen; same_fields

/-- a new `state` that is not an unopened one (or was one already) -/
theorem setState_same (x : Stream) (st' : State) (h : (st'.inner = .idle ∨ st'.inner = .reservedRemote) → Early x) :
    Same x { x with state := st' } :=
  ⟨rfl, rfl, rfl, fun q => by cases q <;> rfl, h, fun _ hf _ => hf⟩

theorem notEarly_of_closed {st' : State} (h : st'.isClosed = true) : ¬ (st'.inner = .idle ∨ st'.inner = .reservedRemote) := by
  intro h'
  unfold State.isClosed at h
  rcases h' with h' | h' <;> simp [h'] at h

theorem setReset_same (x : Stream) (r : Reason) (i : Initiator) : Same x (x.setReset r i).1 := by
  unfold Stream.setReset
  simp only []
  refine Same.trans (b := { x with state := x.state.setReset x.id r i }) (setState_same _ _ ?_) ?_
  · intro h; exact absurd h (notEarly_of_closed rfl)
  · exact (notifySend_same _).trans ((notifyPush_same _).trans (notifyRecv_same _))

/-- proves `Same x (… x …)` -/
macro "same_tac" : tactic => `(tactic| with_reducible first
  | exact Same.of_fields rfl rfl rfl rfl rfl rfl rfl rfl rfl rfl rfl
  | exact notifySend_same _ | exact notifyRecv_same _ | exact notifyPush_same _ | exact notifyCapacity_same _
  | exact assignCapacity_same _ _ _ | exact sendData_same _ _ _ | exact waitSend_same _ _ | exact waitOpen_same _ _
  | exact setReset_same _ _ _)

/-- a new `pending_send` whose PUSH_PROMISE frames were there before -/
theorem setPendingSend_same (x : Stream) (l : List SFrame) (b r : Nat)
    (h : ∀ f ∈ l, SFrame.isPP f = true → f ∈ x.pendingSend) :
    Same x { x with pendingSend := l, bufferedSendData := b, requestedSendCapacity := r } :=
  ⟨rfl, rfl, rfl, fun q => by cases q <;> rfl, fun h => h, h⟩

theorem setPendingSend_same' (x : Stream) (l : List SFrame)
    (h : ∀ f ∈ l, SFrame.isPP f = true → f ∈ x.pendingSend) :
    Same x { x with pendingSend := l } :=
  ⟨rfl, rfl, rfl, fun q => by cases q <;> rfl, fun h => h, h⟩

theorem mem_append_single_pp {l : List SFrame} {g : SFrame} (hg : SFrame.isPP g = false) :
    ∀ f ∈ l ++ [g], SFrame.isPP f = true → f ∈ l := by
  intro f hf hp
  rcases List.mem_append.mp hf with h | h
  · exact h
  · rw [List.mem_singleton.mp h, hg] at hp; cases hp

-- ===================================================================== the peeling tactic

/-- side conditions of the building-block lemmas -/
syntax "ev_side" : tactic
macro_rules | `(tactic| ev_side) => `(tactic| (intro _; exact ⟨rfl, rfl, rfl⟩))
macro_rules | `(tactic| ev_side) => `(tactic| (intro _; rfl))
macro_rules | `(tactic| ev_side) => `(tactic| (intro _ _; same_tac))
macro_rules | `(tactic| ev_side) => `(tactic| exact NextOK.refl _ _)
macro_rules | `(tactic| ev_side) => `(tactic| exact CStep.refl _)
macro_rules | `(tactic| ev_side) => `(tactic| decide)
macro_rules | `(tactic| ev_side) => `(tactic| assumption)

open Lean Elab Tactic Meta in
/-- goal `EvB ρ s0 (f … s …)` (possibly under `.1`): peel `f` with the lemma `f_ev` found by name -/
elab "ev_head" : tactic => withMainContext do
  let g ← getMainGoal
  let t ← instantiateMVars (← g.getType)
  let t := t.cleanupAnnotations
  unless t.isAppOfArity ``EvB 3 do throwError "ev_head: not an Ev goal"
  let e := t.appArg!
  let rec headOf (e : Expr) (fuel : Nat) : Option Name :=
    match fuel with
    | 0 => none
    | fuel + 1 =>
      match e with
      | .proj _ _ b => headOf b fuel
      | .mdata _ b => headOf b fuel
      | _ =>
        match e.getAppFn with
        | .const n _ =>
          if n == ``Prod.fst || n == ``Prod.snd then
            match e.getAppArgs.back? with
            | some a =>
              if a.isAppOfArity ``Prod.mk 4 then
                headOf (if n == ``Prod.fst then a.getAppArgs[2]! else a.getAppArgs[3]!) fuel
              else headOf a fuel
            | none => none
          else some n
        | _ => none
  match headOf e 8 with
  | none => throwError "ev_head: no head constant"
  | some n =>
    if n == ``Streams.mk then
      evalTactic (← `(tactic| first
        | with_reducible refine EvB.trans ?_ (setMisc_ev _ _ _ _ _ _ ⟨rfl, rfl, rfl, rfl, rfl⟩)
        | with_reducible refine EvB.trans ?_ (setCounts_ev _ _ ?_)))
    else
    let last := match n with
      | .str _ s => s
      | _ => "?"
    let lemmaName := (`H2V.Lemmas.ConnCountsP).str (last ++ "_ev")
    unless (← getEnv).contains lemmaName do throwError "ev_head: no lemma {lemmaName}"
    let gs ← g.apply (← mkConstWithFreshMVarLevels ``EvB.trans)
    let gs ← gs.filterM fun m => do
      let ty ← instantiateMVars (← m.getType)
      pure (ty.cleanupAnnotations.isAppOfArity ``EvB 3)
    match gs with
    | [g1, g2] =>
      let side ← withReducible (g2.apply (← mkConstWithFreshMVarLevels lemmaName))
      replaceMainGoal (g1 :: side)
    | _ => throwError "ev_head: unexpected goals after EvB.trans"

/-- one step on an `Ev` goal (alternatives are tried bottom-up) -/
syntax "ev_step" : tactic
macro_rules | `(tactic| ev_step) => `(tactic| ev_head)
macro_rules | `(tactic| ev_step) => `(tactic| with_reducible refine EvB.of_fst_eq (by with_reducible assumption) ?_)
macro_rules | `(tactic| ev_step) => `(tactic| with_reducible assumption)
macro_rules | `(tactic| ev_step) => `(tactic| with_reducible exact EvB.refl _)

macro "ev_auto" : tactic => `(tactic| repeat (first | ev_step | ev_side | intro _ | split | dsimp only))
/-- the same with an induction hypothesis `ih : ∀ …, EvB ρ s (loop n … s …)` -/
macro "ev_auto_ih" ih:ident : tactic =>
  `(tactic| repeat (first | ev_step | with_reducible refine EvB.trans ?_ ($ih ..) | ev_side | intro _ | split | dsimp only))

end H2V.Lemmas.ConnCountsP
