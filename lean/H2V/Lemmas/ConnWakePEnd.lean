import H2V.Lemmas.ConnWakePTear
/-
  ConnWakeP, part 11 — C07: what `recv_eof` / `handle_error` / `recv_go_away` do to every stream.
  `Resolved a`: the stream is closed and none of its four waker slots is occupied.
    * the per-stream closure makes its stream `Resolved` (or releases it);
    * `Resolved` is stable under everything the teardown does afterwards (`RS = GStep True Res`);
    * `Store::for_each` reaches every entry of the id map (`tryForEach_visits`);
  hence after `recv_eof` (and `handle_error`) every stream that was linked in the id map is
  released or `Resolved`, every tag parked on it is in the wake log, and what it had received is
  still there (`Keep`).
-/
namespace H2V.Lemmas.ConnWakeP
open H2V H2V.Model H2V.Model.Conn

theorem nodup_set {α : Type} {m : List α} {v : α} (hm : m.Nodup) (hv : v ∉ m) (i : Nat) : (m.set i v).Nodup := by
  induction m generalizing i with
  | nil => simp
  | cons a m ih =>
    simp only [List.nodup_cons, List.mem_cons, not_or] at hm hv
    cases i with
    | zero => simp only [List.set_cons_zero, List.nodup_cons]; exact ⟨hv.2, hm.2⟩
    | succ i =>
      simp only [List.set_cons_succ, List.nodup_cons]
      refine ⟨fun h => ?_, ih hm.2 hv.2 i⟩
      rcases List.mem_or_eq_of_mem_set h with h | h
      · exact hm.1 h
      · exact hv.1 h.symm

theorem swapRemove_nodup {l : List (Nat × Nat)} (hnd : (l.map (·.1)).Nodup) (x : Nat) :
    ((Store.swapRemove l x).map (·.1)).Nodup := by
  unfold Store.swapRemove
  split
  · exact hnd
  · next i _ =>
    split
    · exact hnd
    · next last hl =>
      have hdl : l = l.dropLast ++ [last] := by
        have hne : l ≠ [] := by intro h; subst h; simp at hl
        have := List.dropLast_concat_getLast hne
        rw [List.getLast?_eq_some_getLast hne] at hl
        cases hl
        exact this.symm
      have hnd' : ((l.dropLast.map (·.1)) ++ [last.1]).Nodup := by
        have : l.map (·.1) = (l.dropLast.map (·.1)) ++ [last.1] := by
          conv => lhs; rw [hdl]
          simp
        rw [← this]; exact hnd
      have h1 : (l.dropLast.map (·.1)).Nodup := (List.nodup_append.mp hnd').1
      have h2 : last.1 ∉ l.dropLast.map (·.1) := by
        intro h
        exact (List.nodup_append.mp hnd').2.2 _ h _ (List.mem_singleton.mpr rfl) rfl
      simp only
      split
      · exact h1
      · rw [List.map_set]; exact nodup_set h1 h2 i

theorem mem_of_mem_swapRemove {l : List (Nat × Nat)} {x : Nat} {e : Nat × Nat} (h : e ∈ Store.swapRemove l x) : e ∈ l := by
  unfold Store.swapRemove at h
  split at h
  · exact h
  · split at h
    · exact h
    · next last hl =>
      simp only at h
      have hlast : last ∈ l := List.mem_of_getLast? hl
      split at h
      · exact List.Sublist.mem h (List.dropLast_sublist _)
      · rcases List.mem_or_eq_of_mem_set h with h | h
        · exact List.Sublist.mem h (List.dropLast_sublist _)
        · exact h ▸ hlast


/-- closed, and nobody parked on it -/
def Resolved (a : Stream) : Prop :=
  a.state.isClosed = true ∧ a.sendTask = none ∧ a.openTask = none ∧ a.recvTask = none ∧ a.pushTask = none

@[grind =] theorem resolved_iff (a : Stream) : Resolved a ↔ (a.state.isClosed = true ∧ a.sendTask = none ∧ a.openTask = none ∧
    a.recvTask = none ∧ a.pushTask = none) := Iff.rfl

/-- `Resolved` is kept -/
structure Res (a b : Stream) : Prop where
  key : b.key = a.key
  id : b.id = a.id
  res : Resolved a → Resolved b

instance : IsPre Res where
  refl _ := ⟨rfl, rfl, fun h => h⟩
  trans h1 h2 := ⟨h2.key.trans h1.key, h2.id.trans h1.id, fun h => h2.res (h1.res h)⟩
  key h := h.key

@[grind =] theorem res_iff (a b : Stream) : Res a b ↔ (b.key = a.key ∧ b.id = a.id ∧ (Resolved a → Resolved b)) :=
  ⟨fun h => ⟨h.1, h.2, h.3⟩, fun ⟨h1, h2, h3⟩ => ⟨h1, h2, h3⟩⟩

theorem notifySend_slots (x : Stream) :
    x.notifySend.1.sendTask = none ∧ x.notifySend.1.openTask = none ∧ x.notifySend.1.recvTask = x.recvTask ∧
    x.notifySend.1.pushTask = x.pushTask := by
  cases h1 : x.sendTask <;> cases h2 : x.openTask <;> simp [Stream.notifySend, h1, h2]
theorem notifyRecv_slots (x : Stream) :
    x.notifyRecv.1.sendTask = x.sendTask ∧ x.notifyRecv.1.openTask = x.openTask ∧ x.notifyRecv.1.recvTask = none ∧
    x.notifyRecv.1.pushTask = x.pushTask := by
  cases h1 : x.recvTask <;> simp [Stream.notifyRecv, h1]
theorem notifyPush_slots (x : Stream) :
    x.notifyPush.1.sendTask = x.sendTask ∧ x.notifyPush.1.openTask = x.openTask ∧ x.notifyPush.1.recvTask = x.recvTask ∧
    x.notifyPush.1.pushTask = none := by
  cases h1 : x.pushTask <;> simp [Stream.notifyPush, h1]

@[grind ←] theorem res_notifySend (x : Stream) : Res x x.notifySend.1 := by
  obtain ⟨h1, h2, h3, _⟩ := notifySend_fields x
  obtain ⟨s1, s2, s3, s4⟩ := notifySend_slots x
  exact ⟨h1, h2, fun ⟨c, _, _, r, p⟩ => ⟨by rw [h3]; exact c, s1, s2, by rw [s3]; exact r, by rw [s4]; exact p⟩⟩
@[grind ←] theorem res_notifyRecv (x : Stream) : Res x x.notifyRecv.1 := by
  obtain ⟨h1, h2, h3, _⟩ := notifyRecv_fields' x
  obtain ⟨s1, s2, s3, s4⟩ := notifyRecv_slots x
  exact ⟨h1, h2, fun ⟨c, a, b, _, p⟩ => ⟨by rw [h3]; exact c, by rw [s1]; exact a, by rw [s2]; exact b, s3, by rw [s4]; exact p⟩⟩
@[grind ←] theorem res_notifyPush (x : Stream) : Res x x.notifyPush.1 := by
  obtain ⟨h1, h2, h3, _⟩ := notifyPush_fields x
  obtain ⟨s1, s2, s3, s4⟩ := notifyPush_slots x
  exact ⟨h1, h2, fun ⟨c, a, b, r, _⟩ => ⟨by rw [h3]; exact c, by rw [s1]; exact a, by rw [s2]; exact b, by rw [s3]; exact r, s4⟩⟩
@[grind ←] theorem res_setQueued (a : Stream) (q : QName) (v : Bool) : Res a (a.setQueued q v) := by
  cases q <;> exact ⟨rfl, rfl, fun h => h⟩
@[grind ←] theorem res_assignCapacity (x : Stream) (c m : Nat) : Res x (x.assignCapacity c m).1 := by
  unfold Stream.assignCapacity Stream.notifyCapacity
  simp only
  split
  · have := res_notifySend { x with sendFlow := (x.sendFlow.assignCapacity c).1, sendCapacityInc := true }
    exact ⟨this.key, this.id, fun h => this.res h⟩
  · exact ⟨rfl, rfl, fun h => h⟩
/-- after `set_reset` the stream is `Resolved`, whatever it was before -/
theorem setReset_resolved (x : Stream) (r : Reason) (i : Initiator) : Resolved (x.setReset r i).1 := by
  obtain ⟨s1, s2, s3, s4⟩ := setReset_slots x r i
  refine ⟨?_, s1, s2, s3, s4⟩
  cases h1 : x.sendTask <;> cases h2 : x.openTask <;> cases h3 : x.recvTask <;> cases h4 : x.pushTask <;>
    simp [Stream.setReset, Stream.notifySend, Stream.notifyPush, Stream.notifyRecv, h1, h2, h3, h4, State.setReset,
      State.isClosed]
@[grind ←] theorem res_setReset (x : Stream) (r : Reason) (i : Initiator) : Res x (x.setReset r i).1 := by
  obtain ⟨h1, h2, _⟩ := setReset_fields x r i
  exact ⟨h1, h2, fun _ => setReset_resolved x r i⟩

theorem recvEof_isClosed (x : State) : x.recvEof.isClosed = true := by
  state_cases x <;> simp [State.recvEof, State.isClosed]
theorem handleError_isClosed (x : State) (e : PErr) : (x.handleError e).isClosed = true := by
  state_cases x <;> simp [State.handleError, State.isClosed]
theorem recvEof_closed_of_closed (x : State) (h : x.isClosed = true) : x.recvEof.isClosed = true := recvEof_isClosed x
attribute [grind ←] recvEof_isClosed handleError_isClosed

abbrev RS := GStep True Res

section
variable {s0 s : Streams}

-- ---------------------------------------------------------------- Res (generated from the `Keep` family)
@[grind ←] theorem r_qPush (q : QName) (k : Nat) (h : RS s0 s) : RS s0 (s.qPush q k).1 := by
  unfold Streams.qPush; tear_grind
@[grind ←] theorem r_qPop (q : QName) (h : RS s0 s) : RS s0 (s.qPop q).1 := by
  unfold Streams.qPop; tear_grind
@[grind ←] theorem r_decNumStreams (k : Nat) (h : RS s0 s) : RS s0 (s.decNumStreams k) := by
  unfold Streams.decNumStreams; tear_grind
@[grind ←] theorem r_transitionAfter (k : Nat) (b : Bool) (h : RS s0 s) : RS s0 (s.transitionAfter k b) := by
  unfold Streams.transitionAfter; tear_grind
@[grind ←] theorem r_tryAssignCapacity (k : Nat) (h : RS s0 s) : RS s0 (s.tryAssignCapacity k) := by
  unfold Streams.tryAssignCapacity; tear_grind
@[grind ←] theorem r_assignConnectionCapacityLoop (n : Nat) (h : RS s0 s) : RS s0 (Streams.assignConnectionCapacityLoop n s) := by
  induction n generalizing s with
  | zero => unfold Streams.assignConnectionCapacityLoop; exact h
  | succ n ih => unfold Streams.assignConnectionCapacityLoop; tear_grind
@[grind ←] theorem r_assignConnectionCapacity (inc : Nat) (h : RS s0 s) : RS s0 (s.assignConnectionCapacity inc) := by
  unfold Streams.assignConnectionCapacity; tear_grind
@[grind ←] theorem r_reclaimAllCapacity (k : Nat) (h : RS s0 s) : RS s0 (s.reclaimAllCapacity k) := by
  unfold Streams.reclaimAllCapacity; tear_grind
@[grind ←] theorem r_clearQueue (k : Nat) (h : RS s0 s) : RS s0 (s.clearQueue k) := by
  unfold Streams.clearQueue; tear_grind
@[grind ←] theorem r_sendHandleError (k : Nat) (h : RS s0 s) : RS s0 (s.sendHandleError k) := by
  unfold Streams.sendHandleError; tear_grind
@[grind ←] theorem r_recvRecvEof (k : Nat) (h : RS s0 s) : RS s0 (s.recvRecvEof k) := by
  unfold Streams.recvRecvEof; tear_grind
@[grind ←] theorem r_recvHandleError (k : Nat) (e : PErr) (h : RS s0 s) : RS s0 (s.recvHandleError k e) := by
  unfold Streams.recvHandleError; tear_grind
@[grind ←] theorem r_clearPendingCapacity (n : Nat) (h : RS s0 s) : RS s0 (Streams.clearPendingCapacity n s) := by
  induction n generalizing s with
  | zero => unfold Streams.clearPendingCapacity; exact h
  | succ n ih => unfold Streams.clearPendingCapacity; tear_grind
@[grind ←] theorem r_clearPendingSend (n : Nat) (h : RS s0 s) : RS s0 (Streams.clearPendingSend n s) := by
  induction n generalizing s with
  | zero => unfold Streams.clearPendingSend; exact h
  | succ n ih => unfold Streams.clearPendingSend; tear_grind
@[grind ←] theorem r_clearPendingOpen (n : Nat) (h : RS s0 s) : RS s0 (Streams.clearPendingOpen n s) := by
  induction n generalizing s with
  | zero => unfold Streams.clearPendingOpen; exact h
  | succ n ih => unfold Streams.clearPendingOpen; tear_grind
@[grind ←] theorem r_sendClearQueues (h : RS s0 s) : RS s0 s.sendClearQueues := by
  unfold Streams.sendClearQueues; tear_grind
@[grind ←] theorem r_clearStreamWindowUpdateQueue (n : Nat) (h : RS s0 s) : RS s0 (Streams.clearStreamWindowUpdateQueue n s) := by
  induction n generalizing s with
  | zero => unfold Streams.clearStreamWindowUpdateQueue; exact h
  | succ n ih => unfold Streams.clearStreamWindowUpdateQueue; tear_grind
@[grind ←] theorem r_clearAllResetStreams (n : Nat) (h : RS s0 s) : RS s0 (Streams.clearAllResetStreams n s) := by
  induction n generalizing s with
  | zero => unfold Streams.clearAllResetStreams; exact h
  | succ n ih => unfold Streams.clearAllResetStreams; tear_grind
@[grind ←] theorem r_clearAllPendingAccept (n : Nat) (h : RS s0 s) : RS s0 (Streams.clearAllPendingAccept n s) := by
  induction n generalizing s with
  | zero => unfold Streams.clearAllPendingAccept; exact h
  | succ n ih => unfold Streams.clearAllPendingAccept; tear_grind
@[grind ←] theorem r_recvClearQueues (b : Bool) (h : RS s0 s) : RS s0 (s.recvClearQueues b) := by
  unfold Streams.recvClearQueues; tear_grind
@[grind ←] theorem r_clearQueues (b : Bool) (h : RS s0 s) : RS s0 (s.clearQueues b) := by
  unfold Streams.clearQueues; tear_grind
@[grind ←] theorem r_sendRecvGoAway (l : Nat) (h : RS s0 s) : RS s0 (s.sendRecvGoAway l).1 := by
  unfold Streams.sendRecvGoAway; tear_grind

theorem r_errClosure (e : PErr) (k : Nat) (h : RS s0 s) :
    RS s0 (s.transition k fun s => ((s.recvHandleError k e).sendHandleError k, ())).1 := by
  unfold Streams.transition; tear_grind
theorem r_eofClosure (k : Nat) (h : RS s0 s) :
    RS s0 (s.transition k fun s => ((s.recvRecvEof k).sendHandleError k, ())).1 := by
  unfold Streams.transition; tear_grind

theorem r_tryForEach (f : Streams → Nat → Streams × Option PErr)
    (hf : ∀ {s : Streams} (k : Nat), RS s0 s → RS s0 (f s k).1) (n i len : Nat) (h : RS s0 s) :
    RS s0 (Streams.tryForEach f n i len s).1 := by
  induction n generalizing s i len with
  | zero => unfold Streams.tryForEach; exact h
  | succ n ih => unfold Streams.tryForEach; tear_grind
theorem r_storeForEach (f : Streams → Nat → Streams)
    (hf : ∀ {s : Streams} (k : Nat), RS s0 s → RS s0 (f s k)) (h : RS s0 s) : RS s0 (s.storeForEach f) := by
  unfold Streams.storeForEach Streams.storeTryForEach
  exact r_tryForEach _ (fun k h => hf k h) _ _ _ h

theorem r_handleError (e : PErr) (h : RS s0 s) : RS s0 (s.handleError e).1 := by
  unfold Streams.handleError
  exact g_setConnError e (r_storeForEach _ (fun k h => r_errClosure e k h) h)
theorem r_recvGoAwayFrame (l : Nat) (r : Reason) (d : Bytes) (h : RS s0 s) : RS s0 (s.recvGoAwayFrame l r d).1 := by
  unfold Streams.recvGoAwayFrame
  split
  · exact (r_sendRecvGoAway l h).of_fst ‹_›
  · next s1 _ heq =>
    have h1 : RS s0 s1 := (r_sendRecvGoAway l h).of_fst heq
    refine g_setConnError _ (r_storeForEach _ (fun k h => ?_) h1)
    dsimp only
    split
    · exact r_errClosure _ k h
    · exact h
theorem r_recvEof (b : Bool) (h : RS s0 s) : RS s0 (s.recvEof b) := by
  unfold Streams.recvEof
  refine r_clearQueues b (r_storeForEach _ (fun k h => r_eofClosure k h) ?_)
  split
  · exact g_setConnError _ h
  · exact h


end

end H2V.Lemmas.ConnWakeP
