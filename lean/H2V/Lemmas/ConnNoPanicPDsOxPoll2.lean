import H2V.Lemmas.ConnNoPanicPDsOxPoll1
/-
  C08 (no panic) — the residual hypothesis `OH` as an invariant, part 8: `pop_frame`, `reclaim_frame`, the loops of
  `buffer_pending` / `poll_complete` keep `XE` for every entry (under `NoPPQ`).
-/
namespace H2V.Lemmas.ConnNoPanicP
open H2V H2V.Model H2V.Model.Conn H2V.Lemmas.ConnCountsP
attribute [local irreducible] wrapSubU32 wrapSubUsize

variable {sv : Bool} {E E' : Nat → Prop}

theorem closed_of_scheduled {st : State} {r : Reason} (h : st.getScheduledReset = some r) : st.isClosed = true := by
  unfold State.getScheduledReset at h
  obtain ⟨inner⟩ := st
  rcases inner with _ | _ | _ | ⟨_ | _, _ | _⟩ | ⟨_ | _⟩ | ⟨_ | _⟩ | c <;> simp at h ⊢ <;> rfl

theorem pe_setReset {x : Stream} (r : Reason) (i : Initiator) (hp : PE sv x) : PE sv (x.setReset r i).1 := by
  have f := setReset_fields x r i
  refine ⟨fun hf => ?_, fun _ hsu => ?_⟩
  · have hf' : flagB x = true := by
      unfold flagB at hf ⊢; rw [f.2.2.2.1, f.2.2.2.2.1] at hf; exact hf
    have hd := hp.df hf'
    exact ⟨f.2.2.2.2.2, by rw [f.2.1]; exact hd.2.1, by rw [f.2.2.1]; exact hd.2.2⟩
  · rw [suB_closed f.2.2.2.2.2] at hsu; cases hsu

set_option hygiene false in
local macro "xb_data_rest" : tactic => `(tactic|
  (split
   · exact ih h' hb' hs' hp' hx' _
   · split
     · exact ih h' hb' hs' hp' hx' _
     · next hc =>
       have hle1 : usizeAsU32 (min (min sz maxLen) (s'.stream id).sendFlow.available.asSize) ≤
           (s'.stream id).sendFlow.available.asSize := Nat.le_trans (ConnFlowP.usizeAsU32_le _) (Nat.min_le_right _ _)
       have hle2 : usizeAsU32 (min (min sz maxLen) (s'.stream id).sendFlow.available.asSize) ≤ sz :=
         Nat.le_trans (ConnFlowP.usizeAsU32_le _) (Nat.le_trans (Nat.min_le_left _ _) (Nat.min_le_left _ _))
       generalize usizeAsU32 (min (min sz maxLen) (s'.stream id).sendFlow.available.asSize) = len at *
       have hem := emitC_xes sd hsd hsk hl hps hle2 hx' hpe
       have hfk := (emitC_st hsd hs' hps hle1 (by
           simp only [Bool.and_eq_true, decide_eq_true_eq, not_and] at hc
           omega)).fk
       exact ⟨finish_xes id _ _ hem.1 hem.2, finish_noppq id _ _ (hfk.noppq hp')⟩))

/-- `pop_frame` with `Stream::send_data` abstracted -/
theorem popFrameC_xb (sd : Stream → Nat → Nat → Stream × List String × Bool) (hsd : SdNP sd) (hsk : SdSK sd) (fuel : Nat) :
    ∀ {s : Streams}, PI E' s → FB sv E s → ConnFlowP.SafeInv s → NoPPQ s → XEs sv s → ∀ maxLen,
      XEs sv (ConnFlowP.popFrameC sd fuel s maxLen).1 ∧ NoPPQ (ConnFlowP.popFrameC sd fuel s maxLen).1 := by
  induction fuel with
  | zero => intro s _ _ _ hp hx m; rw [ConnFlowP.popFrameC_zero]; exact ⟨hx, hp⟩
  | succ n ih =>
    intro s h hb hs hp hx maxLen
    rw [ConnFlowP.popFrameC_succ']
    have hq := h.npi.qs .pendingSend (by decide)
    split
    · next s' heq => exact ⟨(XK.of_fst_eq heq (qPop_xk s _)).xes hx, (FK.of_fst_eq heq (qPop_fk s _)).noppq hp⟩
    · next s' id heq =>
      have hl := (qPopQ_live hq heq).2.1
      have h' : PI E' s' :=
        h.lt (LT.of_fst_eq heq (qPop_ltq s _ hq)) (liveAll0 s) (.of_fst_eq heq (qPop_ev _ _ (by decide) (by decide)))
          (FK.of_fst_eq heq (qPop_fk s _))
      have hb' : FB sv E s' := hb.st (FK.of_fst_eq heq (qPop_fk s _)) (SK.of_fst_eq heq (qPop_sk s _))
      have hs' : ConnFlowP.SafeInv s' := ConnFlowP.SafeInvG.of_fst_eq heq (hs.fr ((ConnFlowP.Fr.refl _).qPop _))
      have hx' : XEs sv s' := (XK.of_fst_eq heq (qPop_xk s _)).xes hx
      have hp' : NoPPQ s' := (FK.of_fst_eq heq (qPop_fk s _)).noppq hp
      have hpe : PE sv (s'.stream id) := popped_pe hq heq hx
      dsimp only
      split
      · -- DATA
        next sz eos rest hps =>
        split
        · next reason hsr =>
          split
          · -- a scheduled reset discards the queued DATA
            refine ih (h'.st (ks := [id]) ⟨?_, ?_, ?_⟩ (liveAll1 hl)) (hb'.st ?_ ?_) ?_ (FK.noppq ?_ hp')
              (discard_xes (fun _ => closed_of_scheduled hsr) hx') _
            · lt_auto
            · ev_auto
            · fk_auto
            · fk_auto
            · sk_auto
            · safe_auto
            · fk_auto
          · xb_data_rest
        · simp only [Bool.false_eq_true, if_false]
          xb_data_rest
      · -- HEADERS
        next heos fields rest hps =>
        have hr := popRest_xes hl hps hx' hpe
        exact ⟨finish_xes id _ _ hr.1 (fun _ => hr.2), finish_noppq id _ _ ((modStream_fk' _ _ _ (popRest_flg hps)).noppq hp')⟩
      · -- RST_STREAM
        next reason rest hps =>
        have hr := popRest_xes hl hps hx' hpe
        exact ⟨finish_xes id _ _ hr.1 (fun _ => hr.2), finish_noppq id _ _ ((modStream_fk' _ _ _ (popRest_flg hps)).noppq hp')⟩
      · -- PUSH_PROMISE: none is queued
        next pk pid fields rest hps =>
        exfalso
        have := hp' id
        unfold ppq at this
        rw [hps, mem_ppIdsOf_cons] at this
        cases this
      · -- nothing queued
        next hps =>
        split
        · next reason hsr =>
          have hx2 : XEs sv (s'.modStreamW id fun st => st.setReset reason .library) :=
            (modStreamW_xk _ _ _ (setReset_xp _ _ _)).xes hx'
          refine ⟨finish_xes id _ _ hx2 (fun _ => ?_), finish_noppq id _ _ ((modStreamW_fk _ _ _ (fun _ => by flg_tac)).noppq hp')⟩
          rw [stream_modStreamW_live hl _ (fun x => (ConnFlowP.setReset_state x reason .library).2)]
          exact pe_setReset _ _ hpe
        · refine ih (h'.ta id _ (fun hb => hb)) (hb'.st (transitionAfter_fk _ _ _) (transitionAfter_sk _ _ _)) ?_
            ((transitionAfter_fk _ _ _).noppq hp') ((transitionAfter_xk _ _ _).xes hx') _
          safe_auto

/-- **`Prioritize::pop_frame`** -/
theorem popFrame_xb {s : Streams} (h : PI E' s) (hb : FB sv E s) (hs : ConnFlowP.SafeInv s) (hp : NoPPQ s) (hx : XEs sv s)
    (fuel maxLen : Nat) : XEs sv (Streams.popFrame fuel s maxLen).1 ∧ NoPPQ (Streams.popFrame fuel s maxLen).1 := by
  rw [ConnFlowP.popFrameC.eq]; exact popFrameC_xb _ sdNP_sendData sdSK_sendData fuel h hb hs hp hx maxLen

end H2V.Lemmas.ConnNoPanicP
