import H2V.Lemmas.ConnNoPanicPFiOps4
/-
  C08 (no panic) — `FI` is a reachable invariant, part 9: the step theorem over ConnResetP's `Op`.
  `FJ s := FB s.counts.isServer (fun _ => False) s` contains `FI s` (`FJ.fi`), holds in a blank state (`FJ_blank`)
  and is kept by every operation whose `opPre` is not `False` (`FJ_step`), given the typing preconditions `fiPre`.
-/
namespace H2V.Lemmas.ConnNoPanicP
open H2V H2V.Model H2V.Model.Conn H2V.Lemmas.ConnCountsP
open H2V.Lemmas.ConnResetP (Op run)
attribute [local irreducible] wrapSubU32 wrapSubUsize

/-- the inductive invariant behind `FI` -/
def FJ (s : Streams) : Prop := FB s.counts.isServer (fun _ => False) s

theorem FJ.fi {s : Streams} (h : FJ s) : FI s := FB.fi h

theorem FJ_blank {s : Streams} (h : Blank s) (_hq : ∀ q, s.getQ q = []) : FJ s := blank_fb h.slab h.ids
theorem FI_blank {s : Streams} (h : Blank s) (hq : ∀ q, s.getQ q = []) : FI s := (FJ_blank h hq).fi

/-- **typing preconditions** (handle kinds): `send_informational` and `push_request` exist on `SendResponse` only — the
    handle of a stream the PEER initiated —, not on `SendPushedResponse` (src/server.rs); without them `FI` fails
    (`ConnNoPanicPFiWitness.lean`) -/
def fiPre (s : Streams) : Op → Prop
  | .refSendInformationalHeaders k _ => s.counts.isLocalInit (s.stream k).id = false
  | .refSendPushPromise parent _ _ => s.counts.isLocalInit (s.stream parent).id = false
  | _ => True

theorem FJ.of_role {s s' : Streams} (hr : s'.counts.isServer = s.counts.isServer) (h : FB s.counts.isServer (fun _ => False) s') : FJ s' := by
  unfold FJ; rw [hr]; exact h

theorem FJ.st {s s' : Streams} (h : FJ s) (hr : s'.counts.isServer = s.counts.isServer) (hfk : FK s s')
    (hsk : SK s.counts.isServer s s') : FJ s' := FJ.of_role hr (FB.st h hfk hsk)

theorem cloneHandle_fk' (s : Streams) : FK s s.cloneHandle := cloneHandle_fk s

/-- **the step theorem**: every operation covered by `opPre` keeps `FJ` (hence `FI`) -/
theorem FJ_step {s : Streams} {H : List Nat} (hn : NPI (fun _ => False) s) (hh : HOK s H) (hj : FJ s) (op : Op)
    (hpre : opPre s op) (hty : fiPre s op) (hin : ∀ k, opKey op = some k → k ∈ H)
    (he : ErrOK s) (he' : ErrOK (op.apply s)) : FJ (op.apply s) := by
  have hkeys : ∀ k, opKey op = some k → Live s k ∧ (s.stream k).refCount > 0 := by
    intro k hk
    obtain ⟨x, hx, hc⟩ := hh k (hin k hk)
    have hpos := count_pos_of_mem (hin k hk)
    exact ⟨⟨x, hx⟩, by rw [stream_of_get? hx]; omega⟩
  have hrole : (op.apply s).counts.isServer = s.counts.isServer := ((op_step s op hpre hkeys).ev hn.keys).nx.role
  refine FJ.of_role hrole ?_
  have hb : FB s.counts.isServer (fun _ => False) s := hj
  cases op <;> simp only [opPre] at hpre <;> try exact hpre.elim
  case recvHeaders h => exact recvHeaders_fb hn he hb rfl h hpre
  case recvData id p eos pad => exact hb.st (recvData_fk _ _ _ _ _) (recvData_sk _ _ _ _ _)
  case recvReset id r => exact hb.st (recvReset_fk _ _ _) (recvReset_sk _ _ _)
  case recvWindowUpdate id inc => exact hb.st (recvWindowUpdate_fk _ _ _) (recvWindowUpdate_sk _ _ _)
  case innerSendReset id r => exact innerSendReset_fb hn hb id r he'
  case recvGoAway l => exact hb.st (recvGoAway_fk _ _) (recvGoAway_sk _ _)
  case handleError e => exact hb.st (handleError_fk _ _) (handleError_sk _ _)
  case recvGoAwayFrame l r d => exact hb.st (recvGoAwayFrame_fk _ _ _ _) (recvGoAwayFrame_sk _ _ _ _)
  case recvEof b => exact hb.st (recvEof_fk _ _) (recvEof_sk _ _)
  case clearExpiredResetStreams n => exact hb.st (clearExpiredResetStreams_fk _ _) (clearExpiredResetStreams_sk _ _)
  case applyRemoteSettings v b => exact hb.st (applyRemoteSettings_fk _ _ _) (applyRemoteSettings_sk _ _ _)
  case applyLocalSettingsFrame v => exact hb.st (applyLocalSettingsFrame_fk _ _) (applyLocalSettingsFrame_sk _ _)
  case wake t => exact hb.st (wake_fk _ _) (wake_sk _ _)
  case cloneHandle => exact hb.st (cloneHandle_fk _) (cloneHandle_sk _)
  case dropHandle => exact hb.st (dropHandle_fk _) (dropHandle_sk _)
  case sendRequest a b c d => exact sendRequest_fb hn hb rfl a b c d hpre
  case pollPendingOpen p t => exact hb.st (pollPendingOpen_fk _ _ _) (pollPendingOpen_sk _ _ _)
  case cloneStreamRef k => exact hb.st (cloneStreamRef_fk _ _) (cloneStreamRef_sk _ _)
  case dropStreamRef k => exact hb.st (dropStreamRef_fk _ _) (dropStreamRef_sk _ _)
  case refSendResponse k f eos => exact refSendResponse_fb hb rfl (hkeys k rfl).1 (fun h => h) f eos
  case refSendInformationalHeaders k f =>
    have hrem : locId s.counts.isServer (s.stream k).id = false := by
      have : s.counts.isLocalInit (s.stream k).id = false := hty
      rw [isLocalInit_eq] at this; exact this
    exact hb.st (refSendInformationalHeaders_fk _ _ _) (refSendInformationalHeaders_sk _ _ _ (.inr (.inr hrem)))
  case refSendData k len eos => exact hb.st (refSendData_fk _ _ _ _) (refSendData_sk _ _ _ _)
  case refSendTrailers k f => exact hb.st (refSendTrailers_fk _ _ _) (refSendTrailers_sk _ _ _)
  case refReserveCapacity k c => exact hb.st (refReserveCapacity_fk _ _ _) (refReserveCapacity_sk _ _ _)
  case pollCapacity k t => exact hb.st (pollCapacity_fk _ _ _) (pollCapacity_sk _ _ _)
  case refSendReset k r => exact hb.st (refSendReset_fk _ _ _) (refSendReset_sk _ _ _)
  case pollReset k m t => exact hb.st (pollReset_fk _ _ _ _) (pollReset_sk _ _ _ _)
  case recvPollInformational k t => exact hb.st (recvPollInformational_fk _ _ _) (recvPollInformational_sk _ _ _)
  case refPollData k t => exact hb.st (refPollData_fk _ _ _) (refPollData_sk _ _ _)
  case recvPollTrailers k t => exact hb.st (recvPollTrailers_fk _ _ _) (recvPollTrailers_sk _ _ _)
  case refReleaseCapacity k c => exact hb.st (refReleaseCapacity_fk _ _ _) (refReleaseCapacity_sk _ _ _)
  case refClearRecvBuffer k => exact hb.st (refClearRecvBuffer_fk _ _) (refClearRecvBuffer_sk _ _)

/-- `FI` after the step (the form asked for) -/
theorem FI_step {s : Streams} {H : List Nat} (hn : NPI (fun _ => False) s) (hh : HOK s H) (hj : FJ s) (op : Op)
    (hpre : opPre s op) (hty : fiPre s op) (hin : ∀ k, opKey op = some k → k ∈ H)
    (he : ErrOK s) (he' : ErrOK (op.apply s)) : FI (op.apply s) := (FJ_step hn hh hj op hpre hty hin he he').fi

-- ===================================================================== the other operations of the final set

theorem FJ_clearWakes {s : Streams} (hj : FJ s) : FJ ({ s with wakes := [] } : Streams) :=
  hj.st rfl (.of_eqs rfl rfl rfl) (.of_store rfl rfl)

theorem FJ_setTargetConnectionWindow {s : Streams} (hj : FJ s) (t : Nat) : FJ (s.setTargetConnectionWindow t).1 :=
  hj.st (setTargetConnectionWindow_ev (ρ := true) s t).nx.role (setTargetConnectionWindow_fk _ _) (setTargetConnectionWindow_sk _ _)

theorem FJ_nextIncoming {s : Streams} (hj : FJ s) : FJ s.nextIncoming.1 :=
  hj.st (nextIncoming_ev (ρ := true) s).nx.role (nextIncoming_fk _) (nextIncoming_sk _)

theorem FJ_recvTakeRequest {s : Streams} (hj : FJ s) (k : Nat) : FJ (s.recvTakeRequest k).1 :=
  hj.st (recvTakeRequest_ev (ρ := true) s k).nx.role (recvTakeRequest_fk _ _) (recvTakeRequest_sk _ _)

theorem FJ_recvPollResponse {s : Streams} (hj : FJ s) (fuel k : Nat) (tag : String) : FJ (Streams.recvPollResponse fuel s k tag).1 :=
  hj.st (recvPollResponse_ev (ρ := true) fuel s k tag).nx.role (recvPollResponse_fk _ _ _ _) (recvPollResponse_sk _ _ _ _)

theorem pollSendPendingRefusal_fk (n : Nat) :
    ∀ (s : Streams) (w : Writer) (io : Tio) (t : String), FK s (Streams.pollSendPendingRefusal n s w io t).1 := by
  induction n with
  | zero => intro s w io t; unfold Streams.pollSendPendingRefusal; exact .refl _
  | succ n ih => intro s w io t; unfold Streams.pollSendPendingRefusal; fk_auto_ih ih
theorem pollSendPendingRefusal_sk {sv : Bool} (n : Nat) :
    ∀ (s : Streams) (w : Writer) (io : Tio) (t : String), SK sv s (Streams.pollSendPendingRefusal n s w io t).1 := by
  induction n with
  | zero => intro s w io t; unfold Streams.pollSendPendingRefusal; exact .refl _
  | succ n ih => intro s w io t; unfold Streams.pollSendPendingRefusal; sk_auto_ih ih

theorem FJ_pollSendPendingRefusal {s : Streams} (hj : FJ s) (fuel : Nat) (w : Writer) (io : Tio) (tag : String) :
    FJ (Streams.pollSendPendingRefusal fuel s w io tag).1 :=
  hj.st (pollSendPendingRefusal_ev (ρ := true) fuel s w io tag).nx.role (pollSendPendingRefusal_fk _ _ _ _ _) (pollSendPendingRefusal_sk _ _ _ _ _)

/-- no PUSH_PROMISE can be accepted: a server, or a client that disabled push -/
def FiNoPush (s : Streams) : Prop := s.counts.isServer = true ∨ s.recv.isPushEnabled = false

/-- under `FiNoPush`, `recv_push_promise` answers a connection error (or ignores the frame) without touching anything -/
theorem recvPushPromise_fiNoPush {s : Streams} (hp : FiNoPush s) (id : Nat) (h : HeadersIn) : (s.recvPushPromise id h).1 = s := by
  unfold Streams.recvPushPromise
  rcases hp with hp | hp
  · simp only [hp, if_true]
  · have hcr : s.ensureCanReserve = .error (PErr.libraryGoAway PROTOCOL_ERROR) := by
      unfold Streams.ensureCanReserve; simp [hp]
    dsimp only
    split
    · rfl
    · cases hfk : s.store.findKey? id with
      | none => rfl
      | some k =>
        simp only []
        by_cases h1 : id > s.recv.maxStreamId
        · simp only [h1, if_true]
        · simp only [h1, if_false]
          by_cases h2 : (s.stream k).state.isLocalError = true
          · simp only [h2, if_true, hcr]
          · simp only [h2, Bool.false_eq_true, if_false]
            cases hre : (s.stream k).state.ensureRecvOpen with
            | error e => rfl
            | ok b =>
              cases b with
              | false => rfl
              | true => simp only [hcr]

theorem FJ_recvPushPromise {s : Streams} (hj : FJ s) (hp : FiNoPush s) (id : Nat) (h : HeadersIn) : FJ (s.recvPushPromise id h).1 := by
  rw [recvPushPromise_fiNoPush hp]; exact hj

/-- **`StreamRef::send_push_promise` keeps `FJ`** (with the typing precondition: the parent is peer-initiated) -/
theorem FJ_refSendPushPromise {s : Streams} (hn : NPI (fun _ => False) s) (hi : IBS s) (hj : FJ s) {parent : Nat}
    (hk : Live s parent) (hty : s.counts.isLocalInit (s.stream parent).id = false) (valid : Bool) (fields : List Hpack.Field) :
    FJ (s.refSendPushPromise parent valid fields).1 := by
  have hrem : locId s.counts.isServer (s.stream parent).id = false := by rw [isLocalInit_eq] at hty; exact hty
  exact FJ.of_role (refSendPushPromise_ev s hn.keys.fresh hn.nl parent valid fields).nx.role
    (refSendPushPromise_fb hn hi hj rfl hk hrem valid fields)

end H2V.Lemmas.ConnNoPanicP
