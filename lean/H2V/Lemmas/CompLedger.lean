import H2V.Lemmas.CompFlow
/-
  Part 2b -- the flow-control ledger over histories: a `FlowControl` value driven by an arbitrary
  sequence of operations with arbitrary arguments, every result ignored the way the Rust callers
  may ignore it (`let _res = ...`).

    window_ledger / available_ledger   exact accounting of both fields over a history
    window_never_above_max             the window never exceeds MAX_WINDOW_SIZE
    values_stay_i32                    no silent wrap, ever
-/
namespace H2V.Lemmas.Comp
open H2V H2V.Model.Conn
open H2V.Generated.Consts (MAX_WINDOW_SIZE)

/-- the mutating operations of `FlowControl` -/
inductive FOp where
  | inc (n : Nat)      -- `inc_window`
  | decSend (n : Nat)  -- `dec_send_window`
  | decRecv (n : Nat)  -- `dec_recv_window`
  | assign (n : Nat)   -- `assign_capacity`
  | claim (n : Nat)    -- `claim_capacity`
  | send (n : Nat)     -- `send_data`
  deriving Repr, DecidableEq

namespace FOp

def arg : FOp → Nat
  | inc n | decSend n | decRecv n | assign n | claim n | send n => n

/-- the call -/
def apply (f : FlowControl) : FOp → FlowControl × FlowRes
  | inc n => f.incWindow n
  | decSend n => f.decSendWindow n
  | decRecv n => f.decRecvWindow n
  | assign n => f.assignCapacity n
  | claim n => f.claimCapacity n
  | send n => f.sendData n

/-- window: what a *successful* `inc_window` adds -/
def credit (f : FlowControl) : FOp → Int
  | inc n => if isOk (f.incWindow n).2 then u32AsI32 n else 0
  | _ => 0

/-- window: what a *successful* `dec_send_window` / `dec_recv_window` / `send_data` removes -/
def debit (f : FlowControl) : FOp → Int
  | decSend n => if isOk (f.decSendWindow n).2 then u32AsI32 n else 0
  | decRecv n => if isOk (f.decRecvWindow n).2 then u32AsI32 n else 0
  | send n => if isOk (f.sendData n).2 then u32AsI32 n else 0
  | _ => 0

/-- window: what a *failing* `dec_recv_window` / `send_data` removes all the same (the partial
    update: first `?` committed, second `?` failed); defined by the arithmetic condition, see
    `leak_ne_zero_iff` for the link with the observable behaviour -/
def leak (f : FlowControl) : FOp → Int
  | decRecv n =>
    if inI32 (f.windowSize.val - u32AsI32 n) = true ∧ inI32 (f.available.val - u32AsI32 n) = false
    then u32AsI32 n else 0
  | send n =>
    if n ≠ 0 ∧ u32AsI32 n ≤ f.windowSize.val ∧ inI32 (f.windowSize.val - u32AsI32 n) = true ∧
        inI32 (f.available.val - u32AsI32 n) = false
    then u32AsI32 n else 0
  | _ => 0

/-- available: what a *successful* `assign_capacity` adds -/
def availCredit (f : FlowControl) : FOp → Int
  | assign n => if isOk (f.assignCapacity n).2 then u32AsI32 n else 0
  | _ => 0

/-- available: what a *successful* `claim_capacity` / `dec_recv_window` / `send_data` removes
    (a failing call never touches `available`) -/
def availDebit (f : FlowControl) : FOp → Int
  | claim n => if isOk (f.claimCapacity n).2 then u32AsI32 n else 0
  | decRecv n => if isOk (f.decRecvWindow n).2 then u32AsI32 n else 0
  | send n => if isOk (f.sendData n).2 then u32AsI32 n else 0
  | _ => 0

/-- a genuine size (`< 2^31`, so `n as i32 = n ≥ 0`) -/
def small (op : FOp) : Prop := op.arg < 2147483648

end FOp

/-- apply each operation, keep the new value whatever the result -/
def run (f : FlowControl) : List FOp → FlowControl
  | [] => f
  | op :: ops => run (op.apply f).1 ops

/-- Σ over the history, each term evaluated in the state in which its operation runs -/
def sumOver (g : FlowControl → FOp → Int) (f : FlowControl) : List FOp → Int
  | [] => 0
  | op :: ops => g f op + sumOver g (op.apply f).1 ops

/-- Σ successful `inc_window` -/
def credits := sumOver FOp.credit
/-- Σ successful `dec_send_window` / `dec_recv_window` / `send_data` -/
def debits := sumOver FOp.debit
/-- Σ window parts of failed `dec_recv_window` / `send_data` (partial updates) -/
def leaks := sumOver FOp.leak
/-- Σ successful `assign_capacity` -/
def availCredits := sumOver FOp.availCredit
/-- Σ successful `claim_capacity` / `dec_recv_window` / `send_data` -/
def availDebits := sumOver FOp.availDebit

theorem run_append (f : FlowControl) (a b : List FOp) : run f (a ++ b) = run (run f a) b := by
  induction a generalizing f with
  | nil => rfl
  | cons op a ih => exact ih _

theorem sumOver_append (g : FlowControl → FOp → Int) (f : FlowControl) (a b : List FOp) :
    sumOver g f (a ++ b) = sumOver g f a + sumOver g (run f a) b := by
  induction a generalizing f with
  | nil => simp [sumOver, run]
  | cons op a ih => simp [sumOver, run, ih, Int.add_assoc]

-- ===================================================================== one step

/-- one operation, window field -/
theorem FOp.apply_window (f : FlowControl) (op : FOp) :
    (op.apply f).1.windowSize.val = f.windowSize.val + op.credit f - op.debit f - op.leak f := by
  rcases f with ⟨⟨ws⟩, ⟨av⟩⟩
  cases op with
  | inc n =>
    simp only [FOp.apply, FOp.credit, FOp.debit, FOp.leak, Flow.incWindow_eq]
    generalize u32AsI32 n = d
    by_cases h : inI32 (ws + d) = true ∧ ws + d ≤ (MAX_WINDOW_SIZE : Int)
    · simp [h]
    · simp [h]
  | decSend n =>
    simp only [FOp.apply, FOp.credit, FOp.debit, FOp.leak, Flow.decSendWindow_eq]
    generalize u32AsI32 n = d
    by_cases h : inI32 (ws - d) = true
    · simp [h] <;> omega
    · simp [h]
  | decRecv n =>
    simp only [FOp.apply, FOp.credit, FOp.debit, FOp.leak, Flow.decRecvWindow_eq]
    generalize u32AsI32 n = d
    by_cases h1 : inI32 (ws - d) = true
    · by_cases h2 : inI32 (av - d) = true
      · simp [h1, h2] <;> omega
      · simp [h1, h2] <;> omega
    · simp [h1]
  | assign n =>
    simp only [FOp.apply, FOp.credit, FOp.debit, FOp.leak, Flow.assignCapacity_eq]
    split <;> simp
  | claim n =>
    simp only [FOp.apply, FOp.credit, FOp.debit, FOp.leak, Flow.claimCapacity_eq]
    split <;> simp
  | send n =>
    simp only [FOp.apply, FOp.credit, FOp.debit, FOp.leak, Flow.sendData_eq]
    by_cases h0 : n = 0
    · simp [h0]
    · generalize u32AsI32 n = d
      by_cases hlt : ws < d
      · have : ¬ (d ≤ ws) := by omega
        simp [h0, hlt, this]
      · have hle : d ≤ ws := by omega
        by_cases h1 : inI32 (ws - d) = true
        · by_cases h2 : inI32 (av - d) = true
          · simp [h0, hlt, h1, h2] <;> omega
          · simp [h0, hlt, h1, h2, hle] <;> omega
        · simp [h0, hlt, h1]

/-- one operation, available field -/
theorem FOp.apply_available (f : FlowControl) (op : FOp) :
    (op.apply f).1.available.val = f.available.val + op.availCredit f - op.availDebit f := by
  rcases f with ⟨⟨ws⟩, ⟨av⟩⟩
  cases op with
  | inc n =>
    simp only [FOp.apply, FOp.availCredit, FOp.availDebit, Flow.incWindow_eq]
    split <;> simp
  | decSend n =>
    simp only [FOp.apply, FOp.availCredit, FOp.availDebit, Flow.decSendWindow_eq]
    split <;> simp
  | decRecv n =>
    simp only [FOp.apply, FOp.availCredit, FOp.availDebit, Flow.decRecvWindow_eq]
    generalize u32AsI32 n = d
    by_cases h1 : inI32 (ws - d) = true
    · by_cases h2 : inI32 (av - d) = true
      · simp [h1, h2] <;> omega
      · simp [h1, h2]
    · simp [h1]
  | assign n =>
    simp only [FOp.apply, FOp.availCredit, FOp.availDebit, Flow.assignCapacity_eq]
    generalize u32AsI32 n = d
    by_cases h : inI32 (av + d) = true
    · simp [h]
    · simp [h]
  | claim n =>
    simp only [FOp.apply, FOp.availCredit, FOp.availDebit, Flow.claimCapacity_eq]
    generalize u32AsI32 n = d
    by_cases h : inI32 (av - d) = true
    · simp [h] <;> omega
    · simp [h]
  | send n =>
    simp only [FOp.apply, FOp.availCredit, FOp.availDebit, Flow.sendData_eq]
    by_cases h0 : n = 0
    · simp [h0]
    · generalize u32AsI32 n = d
      by_cases hlt : ws < d
      · simp [h0, hlt]
      · by_cases h1 : inI32 (ws - d) = true
        · by_cases h2 : inI32 (av - d) = true
          · simp [h0, hlt, h1, h2] <;> omega
          · simp [h0, hlt, h1, h2]
        · simp [h0, hlt, h1]

/-- the `leak` term is non-zero exactly when the call *fails with the window already changed* --
    the observable partial update of `decRecvWindow_partial_iff` / `sendData_partial_iff` -/
theorem FOp.leak_ne_zero_iff (f : FlowControl) (op : FOp) :
    op.leak f ≠ 0 ↔
      (isOk (op.apply f).2 = false ∧ (op.apply f).1.windowSize ≠ f.windowSize ∧
        ∃ n, op = .decRecv n ∨ op = .send n) := by
  cases op with
  | decRecv n =>
    have := decRecvWindow_partial_iff f n
    simp only [FOp.apply, FOp.leak]
    constructor
    · intro h
      split at h
      · next hc => exact ⟨(this.2 ⟨hc.1, hc.2, h⟩).1, (this.2 ⟨hc.1, hc.2, h⟩).2, n, .inl rfl⟩
      · exact absurd rfl h
    · rintro ⟨h1, h2, -⟩
      obtain ⟨a, b, c⟩ := this.1 ⟨h1, h2⟩
      simp [a, b, c]
  | send n =>
    have := sendData_partial_iff f n
    simp only [FOp.apply, FOp.leak]
    constructor
    · intro h
      split at h
      · next hc =>
        have := this.2 ⟨hc.1, hc.2.1, hc.2.2.1, hc.2.2.2, h⟩
        exact ⟨this.1, this.2, n, .inr rfl⟩
      · exact absurd rfl h
    · rintro ⟨h1, h2, -⟩
      obtain ⟨a, b, c, d, e⟩ := this.1 ⟨h1, h2⟩
      simp [a, b, c, d, e]
  | inc n => simp [FOp.leak]
  | decSend n => simp [FOp.leak]
  | assign n => simp [FOp.leak]
  | claim n => simp [FOp.leak]

/-- outside the partial update, a failing call changes nothing at all -/
theorem FOp.apply_error_unchanged (f : FlowControl) (op : FOp)
    (herr : isOk (op.apply f).2 = false) (hleak : op.leak f = 0) : (op.apply f).1 = f := by
  rcases f with ⟨⟨ws⟩, ⟨av⟩⟩
  cases op with
  | inc n =>
    simp only [FOp.apply, Flow.incWindow_eq] at herr ⊢
    split <;> simp_all
  | decSend n =>
    simp only [FOp.apply, Flow.decSendWindow_eq] at herr ⊢
    split <;> simp_all
  | assign n =>
    simp only [FOp.apply, Flow.assignCapacity_eq] at herr ⊢
    split <;> simp_all
  | claim n =>
    simp only [FOp.apply, Flow.claimCapacity_eq] at herr ⊢
    split <;> simp_all
  | decRecv n =>
    simp only [FOp.apply, FOp.leak, Flow.decRecvWindow_eq] at herr hleak ⊢
    generalize u32AsI32 n = d at *
    by_cases h1 : inI32 (ws - d) = true
    · by_cases h2 : inI32 (av - d) = true
      · simp [h1, h2] at herr
      · simp [h1, h2] at hleak ⊢
        omega
    · simp [h1]
  | send n =>
    simp only [FOp.apply, FOp.leak, Flow.sendData_eq] at herr hleak ⊢
    by_cases h0 : n = 0
    · simp [h0]
    · generalize u32AsI32 n = d at *
      by_cases hlt : ws < d
      · simp [h0, hlt]
      · have hle : d ≤ ws := by omega
        by_cases h1 : inI32 (ws - d) = true
        · by_cases h2 : inI32 (av - d) = true
          · simp [h0, hlt, h1, h2] at herr
          · simp [h0, hlt, h1, h2, hle] at hleak ⊢
            omega
        · simp [h0, hlt, h1]

-- ===================================================================== ledgers

/-- **window_ledger**: after any history,
      window = initial + Σ successful inc − Σ successful decSend/decRecv/send − Σ partial updates.
    The last sum is what makes the naive "successful operations only" ledger false. -/
theorem window_ledger (f : FlowControl) (ops : List FOp) :
    (run f ops).windowSize.val =
      f.windowSize.val + credits f ops - debits f ops - leaks f ops := by
  induction ops generalizing f with
  | nil => simp [run, credits, debits, leaks, sumOver]
  | cons op ops ih =>
    have h1 := ih (op.apply f).1
    have h2 := FOp.apply_window f op
    simp only [run, credits, debits, leaks, sumOver] at h1 ⊢
    omega

/-- the naive ledger holds exactly when nothing leaked -/
theorem window_ledger_no_leak (f : FlowControl) (ops : List FOp) (h : leaks f ops = 0) :
    (run f ops).windowSize.val = f.windowSize.val + credits f ops - debits f ops := by
  rw [window_ledger, h]; omega

/-- concrete history on which the naive ledger is off: from `new`, claim `2^31 - 1` (available
    becomes `-(2^31 - 1)`), open the window by 10, then `send_data(10)`: the call fails
    (`available - 10` leaves `i32`), yet the window is back to 0 -- 10 units were credited, none
    successfully debited, 10 leaked -/
example :
    let ops := [FOp.claim 2147483647, .inc 10, .send 10]
    run .new ops = ⟨⟨0⟩, ⟨-2147483647⟩⟩ ∧
    credits .new ops = 10 ∧ debits .new ops = 0 ∧ leaks .new ops = 10 := by decide

/-- **available_ledger**: `available` is only ever changed by successful calls -/
theorem available_ledger (f : FlowControl) (ops : List FOp) :
    (run f ops).available.val = f.available.val + availCredits f ops - availDebits f ops := by
  induction ops generalizing f with
  | nil => simp [run, availCredits, availDebits, sumOver]
  | cons op ops ih =>
    have h1 := ih (op.apply f).1
    have h2 := FOp.apply_available f op
    simp only [run, availCredits, availDebits, sumOver] at h1 ⊢
    omega

-- ===================================================================== bounds

/-- one step keeps both fields in `i32` -/
theorem FOp.apply_inI32 (f : FlowControl) (op : FOp)
    (hw : inI32 f.windowSize.val = true) (ha : inI32 f.available.val = true) :
    inI32 (op.apply f).1.windowSize.val = true ∧ inI32 (op.apply f).1.available.val = true := by
  rcases f with ⟨⟨ws⟩, ⟨av⟩⟩
  cases op with
  | inc n =>
    simp only [FOp.apply, Flow.incWindow_eq]
    split
    · next h => exact ⟨h.1, ha⟩
    · exact ⟨hw, ha⟩
  | decSend n =>
    simp only [FOp.apply, Flow.decSendWindow_eq]
    split
    · next h => exact ⟨h, ha⟩
    · exact ⟨hw, ha⟩
  | decRecv n =>
    simp only [FOp.apply, Flow.decRecvWindow_eq]
    split
    · next h1 =>
      split
      · next h2 => exact ⟨h1, h2⟩
      · exact ⟨h1, ha⟩
    · exact ⟨hw, ha⟩
  | assign n =>
    simp only [FOp.apply, Flow.assignCapacity_eq]
    split
    · next h => exact ⟨hw, h⟩
    · exact ⟨hw, ha⟩
  | claim n =>
    simp only [FOp.apply, Flow.claimCapacity_eq]
    split
    · next h => exact ⟨hw, h⟩
    · exact ⟨hw, ha⟩
  | send n =>
    simp only [FOp.apply, Flow.sendData_eq]
    split
    · exact ⟨hw, ha⟩
    · split
      · exact ⟨hw, ha⟩
      · split
        · next h1 =>
          split
          · next h2 => exact ⟨h1, h2⟩
          · exact ⟨h1, ha⟩
        · exact ⟨hw, ha⟩

/-- both fields stay `i32` along any history -/
theorem run_inI32 (f : FlowControl) (ops : List FOp)
    (hw : inI32 f.windowSize.val = true) (ha : inI32 f.available.val = true) :
    inI32 (run f ops).windowSize.val = true ∧ inI32 (run f ops).available.val = true := by
  induction ops generalizing f with
  | nil => exact ⟨hw, ha⟩
  | cons op ops ih =>
    have := FOp.apply_inI32 f op hw ha
    exact ih _ this.1 this.2

/-- **values_stay_i32**: starting from `FlowControl::new()`, whatever is called with whatever
    arguments, both fields are `i32` values for ever: the model's unbounded `Int` never leaves the
    range, i.e. the Rust `i32` fields never wrap silently -/
theorem values_stay_i32 (ops : List FOp) :
    inI32 (run .new ops).windowSize.val = true ∧ inI32 (run .new ops).available.val = true :=
  run_inI32 .new ops (by decide) (by decide)

/-- one step keeps the window `≤ MAX_WINDOW_SIZE`; uses `MAX_WINDOW_SIZE = i32::MAX` -/
theorem FOp.apply_le_max (f : FlowControl) (op : FOp)
    (h : f.windowSize.val ≤ (MAX_WINDOW_SIZE : Int)) :
    (op.apply f).1.windowSize.val ≤ (MAX_WINDOW_SIZE : Int) := by
  have hmax := MAX_WINDOW_SIZE_eq_I32_MAX
  have key : ∀ x : Int, inI32 x = true → x ≤ (MAX_WINDOW_SIZE : Int) := by
    intro x hx; rw [inI32_iff] at hx; rw [hmax]; simp only [I32_MAX]; omega
  rcases f with ⟨⟨ws⟩, ⟨av⟩⟩
  cases op with
  | inc n =>
    simp only [FOp.apply, Flow.incWindow_eq]
    split
    · next hc => exact hc.2
    · exact h
  | decSend n =>
    simp only [FOp.apply, Flow.decSendWindow_eq]
    split
    · next hc => exact key _ hc
    · exact h
  | decRecv n =>
    simp only [FOp.apply, Flow.decRecvWindow_eq]
    split
    · next h1 => split <;> exact key _ h1
    · exact h
  | assign n =>
    simp only [FOp.apply, Flow.assignCapacity_eq]
    split <;> exact h
  | claim n =>
    simp only [FOp.apply, Flow.claimCapacity_eq]
    split <;> exact h
  | send n =>
    simp only [FOp.apply, Flow.sendData_eq]
    split
    · exact h
    · split
      · exact h
      · split
        · next h1 => split <;> exact key _ h1
        · exact h

/-- **window_never_above_max** -/
theorem window_never_above_max (f : FlowControl) (ops : List FOp)
    (h : f.windowSize.val ≤ (MAX_WINDOW_SIZE : Int)) :
    (run f ops).windowSize.val ≤ (MAX_WINDOW_SIZE : Int) := by
  induction ops generalizing f with
  | nil => exact h
  | cons op ops ih => exact ih _ (FOp.apply_le_max f op h)

/-- the same bound *without* using the value of the constant, for genuine sizes (`n < 2^31`): only
    `inc_window` raises the window, and it checks the bound.  (With sizes `≥ 2^31` the decreasing
    operations *add*, and the bound then rests on `MAX_WINDOW_SIZE = i32::MAX` alone; see the
    `example` below for what would go wrong with a smaller constant.) -/
theorem FOp.apply_le_bound_small (f : FlowControl) (op : FOp) (hs : op.small)
    (h : f.windowSize.val ≤ (MAX_WINDOW_SIZE : Int)) :
    (op.apply f).1.windowSize.val ≤ (MAX_WINDOW_SIZE : Int) := by
  rcases f with ⟨⟨ws⟩, ⟨av⟩⟩
  have h : ws ≤ (MAX_WINDOW_SIZE : Int) := h
  cases op with
  | inc n =>
    simp only [FOp.apply, Flow.incWindow_eq]
    split
    · next hc => exact hc.2
    · exact h
  | decSend n =>
    have hd := u32AsI32_of_lt (x := n) hs
    simp only [FOp.apply, Flow.decSendWindow_eq]
    split
    · show ws - u32AsI32 n ≤ _; omega
    · exact h
  | decRecv n =>
    have hd := u32AsI32_of_lt (x := n) hs
    simp only [FOp.apply, Flow.decRecvWindow_eq]
    split
    · split <;> (show ws - u32AsI32 n ≤ _; omega)
    · exact h
  | assign n =>
    simp only [FOp.apply, Flow.assignCapacity_eq]
    split <;> exact h
  | claim n =>
    simp only [FOp.apply, Flow.claimCapacity_eq]
    split <;> exact h
  | send n =>
    have hd := u32AsI32_of_lt (x := n) hs
    simp only [FOp.apply, Flow.sendData_eq]
    split
    · exact h
    · split
      · exact h
      · split
        · split <;> (show ws - u32AsI32 n ≤ _; omega)
        · exact h

theorem window_never_above_max_small (f : FlowControl) (ops : List FOp)
    (hs : ∀ op ∈ ops, op.small) (h : f.windowSize.val ≤ (MAX_WINDOW_SIZE : Int)) :
    (run f ops).windowSize.val ≤ (MAX_WINDOW_SIZE : Int) := by
  induction ops generalizing f with
  | nil => exact h
  | cons op ops ih =>
    exact ih _ (fun o ho => hs o (List.mem_cons_of_mem _ ho))
      (FOp.apply_le_bound_small f op (hs op List.mem_cons_self) h)

/-- a "decrease" by a size `≥ 2^31` raises the window (here from 0 to 1) -/
example : (run .new [.decSend 4294967295]).windowSize.val = 1 := by decide

/-- summary from `new`: `i32::MIN ≤ window ≤ MAX_WINDOW_SIZE`, `available` in `i32` -/
theorem window_bounds_from_new (ops : List FOp) :
    I32_MIN ≤ (run .new ops).windowSize.val ∧
    (run .new ops).windowSize.val ≤ (MAX_WINDOW_SIZE : Int) ∧
    I32_MIN ≤ (run .new ops).available.val ∧ (run .new ops).available.val ≤ I32_MAX := by
  have h := values_stay_i32 ops
  have hm := window_never_above_max .new ops (by decide)
  rw [inI32_iff, inI32_iff] at h
  simp only [I32_MIN, I32_MAX]
  omega

end H2V.Lemmas.Comp
