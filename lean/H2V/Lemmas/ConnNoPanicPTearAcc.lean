import H2V.Lemmas.ConnNoPanicPTearReset
/-
  C08 (no panic) — part 11: `pending_accept`.  Its link flag `is_pending_accept` is shared with the
  parent's `pending_push_promises`, so ConnCountsP's `QOK` is not available for it; `AccOK` is the half
  that `clear_all_pending_accept` needs (queued keys are live, flagged, queued once).  It is framed by
  everything `recv_eof` does before it reaches `clear_all_pending_accept`.
-/
namespace H2V.Lemmas.ConnNoPanicP
open H2V H2V.Model H2V.Model.Conn H2V.Lemmas.ConnCountsP

-- ===================================================================== the invariant

/-- every key queued in `pending_accept` is a live entry with `is_pending_accept` set, and is queued once -/
structure AccOK (s : Streams) : Prop where
  fl : ∀ k ∈ s.recv.pendingAccept, Flagged .pendingAccept s k
  nodup : s.recv.pendingAccept.Nodup

theorem AccOK.of_qf {s s' : Streams} (h : QF .pendingAccept s s') (ha : AccOK s) : AccOK s' := by
  have hq : s'.recv.pendingAccept = s.recv.pendingAccept := h.queue
  exact ⟨fun k hk => (h.fl k).mpr (ha.fl k (hq ▸ hk)), hq ▸ ha.nodup⟩

theorem AccOK.live {s : Streams} (ha : AccOK s) {k : Nat} (hk : k ∈ s.recv.pendingAccept) : Live s k := by
  obtain ⟨x, hx, _⟩ := ha.fl k hk; exact ⟨x, hx⟩

theorem AccOK.qPop {s : Streams} (ha : AccOK s) : AccOK (s.qPop .pendingAccept).1 := by
  unfold Streams.qPop
  split
  · exact ha
  · next id rest heq =>
    dsimp only
    have heq' : s.recv.pendingAccept = id :: rest := heq
    have hnd := ha.nodup
    rw [heq'] at hnd
    have hnd' := List.nodup_cons.mp hnd
    obtain ⟨x, hx, _⟩ := ha.fl id (by rw [heq']; exact List.mem_cons_self ..)
    have hx' : (s.setQ .pendingAccept rest).store.get? id = some x := by rw [setQ_store]; exact hx
    have hq : ((s.setQ .pendingAccept rest).modStream id fun st => st.setQueued .pendingAccept false).recv.pendingAccept = rest := by
      show Streams.getQ _ .pendingAccept = rest
      rw [getQ_modStream, getQ_setQ]
    refine ⟨fun j hj => ?_, by rw [hq]; exact hnd'.2⟩
    rw [hq] at hj
    rw [flagged_modStream_set .pendingAccept _ id false x hx' j]
    have hne : j ≠ id := fun e => hnd'.1 (e ▸ hj)
    rw [if_neg hne]
    have : Flagged .pendingAccept (s.setQ .pendingAccept rest) j ↔ Flagged .pendingAccept s j := by
      unfold Flagged; rw [setQ_store]
    exact this.mpr (ha.fl j (by rw [heq']; exact List.mem_cons_of_mem _ hj))

theorem qPopAcc_live {s : Streams} (ha : AccOK s) {s' : Streams} {id : Nat}
    (h : s.qPop .pendingAccept = (s', some id)) : Live s id := by
  unfold Streams.qPop at h
  split at h
  · cases h
  · next id' rest heq =>
    cases h
    exact ha.live (by have : s.recv.pendingAccept = id :: rest := heq; rw [this]; exact List.mem_cons_self ..)

theorem qPopAcc_panicked {s : Streams} (ha : AccOK s) : (s.qPop .pendingAccept).1.panicked = s.panicked := by
  unfold Streams.qPop; split
  · rfl
  · next id rest heq =>
    dsimp only
    have hl : Live s id := ha.live (by have : s.recv.pendingAccept = id :: rest := heq; rw [this]; exact List.mem_cons_self ..)
    rw [modStream_panicked_live (live_setQ.mpr hl), setQ_panicked]

theorem qPopAcc_npi {E : Nat → Prop} {s : Streams} (h : NPI E s) (ha : AccOK s) : NPI E (s.qPop .pendingAccept).1 :=
  h.ev (ρ := false) (qPop_evB s .pendingAccept (by decide)) noE ((qPopAcc_panicked ha).trans h.np)
    (qPop_av _ h.av) (qPop_idsOK _ h.ids)

/-- `Recv::clear_all_pending_accept` -/
theorem clearAllPendingAccept_npe {E : Nat → Prop} (n : Nat) {s : Streams} (h : NPI E s) (he : ErrOK s) (ha : AccOK s) :
    NPE E (Streams.clearAllPendingAccept n s) ∧ AccOK (Streams.clearAllPendingAccept n s) := by
  induction n generalizing s with
  | zero => exact ⟨⟨h, he⟩, ha⟩
  | succ n ih =>
    unfold Streams.clearAllPendingAccept
    have h1 := qPopAcc_npi h ha
    have he1 := (qPop_errSame s .pendingAccept).errOK he
    have ha1 := ha.qPop
    split
    · next s' heq => rw [heq] at h1 he1 ha1; exact ⟨⟨h1, he1⟩, ha1⟩
    · next s' id heq =>
      rw [heq] at h1 he1 ha1
      exact ih (transitionAfter_npi h1 he1 id false (fun hb => Bool.noConfusion hb))
        ((transitionAfter_errSame _ _ _).errOK he1) (AccOK.of_qf (QF.transitionAfter _ _ _ _) ha1)

theorem clearAllPendingAccept_npi {E : Nat → Prop} (n : Nat) {s : Streams} (h : NPI E s) (he : ErrOK s) (ha : AccOK s) :
    NPI E (Streams.clearAllPendingAccept n s) := (clearAllPendingAccept_npe n h he ha).1.1

-- ===================================================================== what leaves `pending_accept` alone

theorem _root_.H2V.Lemmas.ConnCountsP.QF.modStreamW (q : QName) (s : Streams) (k : Nat) (f : Stream → Stream × List String)
    (hk : ∀ x, (f x).1.key = x.key) (hf : ∀ x, (f x).1.isQueued q = x.isQueued q) : QF q s (s.modStreamW k f) := by
  unfold Streams.modStreamW
  split
  · next st hst =>
    refine (QF.setStream q s _ ?_).trans (.of_store_q rfl rfl)
    intro x hx
    rw [hk, get?_key hst, hst] at hx
    cases hx; exact hf st
  · exact QF.panic' _ _ _

theorem _root_.H2V.Lemmas.ConnCountsP.QF.of_fst_eq {q : QName} {s : Streams} {α : Type} {p : Streams × α} {a : Streams} {x : α}
    (h : p = (a, x)) (e : QF q s p.1) : QF q s a := by subst h; exact e

/-- the draining loops of the other queues -/
theorem clearPendingCapacity_af (n : Nat) (s : Streams) : QF .pendingAccept s (Streams.clearPendingCapacity n s) := by
  induction n generalizing s with
  | zero => exact .refl _ _
  | succ n ih =>
    unfold Streams.clearPendingCapacity
    have h0 := QF.qPop .pendingAccept .pendingCapacity s (by decide)
    split
    · next s' heq => rw [heq] at h0; exact h0
    · next s' id heq => rw [heq] at h0; exact h0.trans ((QF.transitionAfter _ _ _ _).trans (ih _))

theorem clearPendingOpen_af (n : Nat) (s : Streams) : QF .pendingAccept s (Streams.clearPendingOpen n s) := by
  induction n generalizing s with
  | zero => exact .refl _ _
  | succ n ih =>
    unfold Streams.clearPendingOpen
    have h0 := QF.qPop .pendingAccept .pendingOpen s (by decide)
    split
    · next s' heq => rw [heq] at h0; exact h0
    · next s' id heq => rw [heq] at h0; exact h0.trans ((QF.transitionAfter _ _ _ _).trans (ih _))

theorem clearStreamWindowUpdateQueue_af (n : Nat) (s : Streams) :
    QF .pendingAccept s (Streams.clearStreamWindowUpdateQueue n s) := by
  induction n generalizing s with
  | zero => exact .refl _ _
  | succ n ih =>
    unfold Streams.clearStreamWindowUpdateQueue
    have h0 := QF.qPop .pendingAccept .pendingWindowUpdates s (by decide)
    split
    · next s' heq => rw [heq] at h0; exact h0
    · next s' id heq => rw [heq] at h0; exact h0.trans ((QF.transitionAfter _ _ _ _).trans (ih _))

theorem clearAllResetStreams_af (n : Nat) (s : Streams) : QF .pendingAccept s (Streams.clearAllResetStreams n s) := by
  induction n generalizing s with
  | zero => exact .refl _ _
  | succ n ih =>
    unfold Streams.clearAllResetStreams
    have h0 := QF.qPop .pendingAccept .pendingResetExpired s (by decide)
    split
    · next s' heq => rw [heq] at h0; exact h0
    · next s' id heq => rw [heq] at h0; exact h0.trans ((QF.transitionAfter _ _ _ _).trans (ih _))

theorem clearExpiredResetStreams_af (n : Nat) (s : Streams) : QF .pendingAccept s (Streams.clearExpiredResetStreams n s) := by
  induction n generalizing s with
  | zero => exact .refl _ _
  | succ n ih =>
    unfold Streams.clearExpiredResetStreams
    split
    · exact .refl _ _
    · have h0 := QF.qPop .pendingAccept .pendingResetExpired s (by decide)
      split
      · next s' heq => rw [heq] at h0; exact h0
      · next s' id heq => rw [heq] at h0; exact h0.trans ((QF.transitionAfter _ _ _ _).trans (ih _))

theorem clearPendingSend_af (n : Nat) (s : Streams) : QF .pendingAccept s (Streams.clearPendingSend n s) := by
  induction n generalizing s with
  | zero => exact .refl _ _
  | succ n ih =>
    unfold Streams.clearPendingSend
    have h0 := QF.qPop .pendingAccept .pendingSend s (by decide)
    split
    · next s' heq => rw [heq] at h0; exact h0
    · next s' id heq =>
      rw [heq] at h0
      dsimp only
      refine h0.trans (.trans ?_ ((QF.transitionAfter _ _ _ _).trans (ih _)))
      split
      · next reason _ =>
        exact QF.modStreamW _ _ _ _ (fun x => (setReset_same x reason .library).key)
          (fun x => (setReset_same x reason .library).fl _)
      · exact .refl _ _

theorem sendClearQueues_af (s : Streams) : QF .pendingAccept s s.sendClearQueues := by
  unfold Streams.sendClearQueues
  exact ((clearPendingCapacity_af _ _).trans (clearPendingSend_af _ _)).trans (clearPendingOpen_af _ _)

-- ===================================================================== `Recv::clear_queues`, `Actions::clear_queues`

theorem recvClearQueues_npe {s : Streams} (h : NPI (fun _ => False) s) (he : ErrOK s) (b : Bool) (ha : b = true → AccOK s) :
    NPE (fun _ => False) (s.recvClearQueues b) := by
  unfold Streams.recvClearQueues
  dsimp only
  have h1 := clearStreamWindowUpdateQueue_npe (s.recv.pendingWindowUpdates.length + 1) h he
  generalize hs1 : Streams.clearStreamWindowUpdateQueue (s.recv.pendingWindowUpdates.length + 1) s = s1 at h1
  have a1 : QF .pendingAccept s s1 := hs1 ▸ clearStreamWindowUpdateQueue_af _ _
  have h2 := clearAllResetStreams_npe (s1.recv.pendingResetExpired.length + 1) h1.1 h1.2
  generalize hs2 : Streams.clearAllResetStreams (s1.recv.pendingResetExpired.length + 1) s1 = s2 at h2
  have a2 : QF .pendingAccept s1 s2 := hs2 ▸ clearAllResetStreams_af _ _
  split
  · next hb => exact (clearAllPendingAccept_npe _ h2.1 h2.2 (AccOK.of_qf (a1.trans a2) (ha hb))).1
  · exact h2

theorem clearQueues_npe {s : Streams} (h : NPI (fun _ => False) s) (he : ErrOK s) (b : Bool) (ha : b = true → AccOK s) :
    NPE (fun _ => False) (s.clearQueues b) := by
  unfold Streams.clearQueues
  have h1 := recvClearQueues_npe h he b ha
  exact sendClearQueues_npe h1.1 h1.2

-- ===================================================================== `AccOK` itself survives the clearing functions (no other invariant needed)

theorem clearAllPendingAccept_accOK (n : Nat) {s : Streams} (ha : AccOK s) : AccOK (Streams.clearAllPendingAccept n s) := by
  induction n generalizing s with
  | zero => exact ha
  | succ n ih =>
    unfold Streams.clearAllPendingAccept
    have ha1 := ha.qPop
    split
    · next s' heq => rw [heq] at ha1; exact ha1
    · next s' id heq => rw [heq] at ha1; exact ih (AccOK.of_qf (QF.transitionAfter _ _ _ _) ha1)

theorem recvClearQueues_accOK {s : Streams} (ha : AccOK s) (b : Bool) : AccOK (s.recvClearQueues b) := by
  unfold Streams.recvClearQueues
  dsimp only
  have a2 : ∀ n, AccOK (Streams.clearAllResetStreams n
      (Streams.clearStreamWindowUpdateQueue (s.recv.pendingWindowUpdates.length + 1) s)) := fun n =>
    AccOK.of_qf ((clearStreamWindowUpdateQueue_af (s.recv.pendingWindowUpdates.length + 1) s).trans
      (clearAllResetStreams_af n _)) ha
  split
  · exact clearAllPendingAccept_accOK _ (a2 _)
  · exact a2 _

theorem clearQueues_accOK {s : Streams} (ha : AccOK s) (b : Bool) : AccOK (s.clearQueues b) := by
  unfold Streams.clearQueues
  exact AccOK.of_qf (sendClearQueues_af _) (recvClearQueues_accOK ha b)

theorem clearExpiredResetStreams_accOK (n : Nat) {s : Streams} (ha : AccOK s) : AccOK (Streams.clearExpiredResetStreams n s) :=
  AccOK.of_qf (clearExpiredResetStreams_af n s) ha

end H2V.Lemmas.ConnNoPanicP
