import H2V.Lemmas.ConnFidPRecvHist
/-
  ConnFidP, part 26 — exactly once at the level of the ghost log: a call that accepts the message frame `F` on entry `k`
  and answers `Ok` extends the accepted log of `k` by exactly `[F]` (or not at all, if the entry does not exist at the
  moment of the push: a dangling handle), leaves every other accepted log and all emitted logs alone, and the result
  is again a history.  Glue between `AccR` / `Once` (ConnFidPOnce) and `Hist`.
-/
set_option linter.unusedSectionVars false
namespace H2V.Lemmas.ConnFidP
open H2V H2V.Model H2V.Model.Conn H2V.Lemmas.ConnWakeP

/-- without permission to push, the accepted logs do not move -/
theorem Run.acc_same {P : Perm} {s0 s : Streams} {g0 g : Ghost} (r : Run P s0 g0 s g) (hn : ∀ k f, ¬P.push k f) :
    g.acc = g0.acc := by
  funext k
  obtain ⟨added, h1, h2⟩ := r.acc_grows k
  cases added with
  | nil => simpa using h1
  | cons f _ => exact absurd (h2 f (List.mem_cons_self ..)).2 (hn k f)

/-- the step `push k f` with its ghost -/
theorem push_run {P : Perm} (s : Streams) (g : Ghost) (k : Nat) (f : SFrame) (hA : P.ok (.push k f))
    (hs : (s.store.get? k).isSome = true) : Run P s g (s.modStream k (pushF f)) (gstep s (.push k f) g) := by
  refine .lbl (.push k f) (.refl s g) (El.modStream s k _ (fun a' ha' => ?_) (fun x hx => ES.other _ x ?_) rfl ?_ ?_ hs) hA
  · have hk := (Store.get?_key ha').symm
    exact ⟨rfl, rfl, fun h => h, by simp [pushF, sendEff, hk], rfl, trivial⟩
  · simp only [Lbl.key?]; intro e; exact hx (Option.some.inj e).symm
  · intro l' j e hj; cases e; exact (Option.some.inj hj).symm
  · intro j e; cases e

/-- "if the `cut` flag of `k` is up, the entry is gone for good" is kept along a run that cuts nothing -/
def CutAbs (k : Nat) (s : Streams) (g : Ghost) : Prop :=
  KeysBelow s ∧ (g.cut k = true → s.store.get? k = none ∧ k < s.store.nextKey)

theorem Run.cutAbs {P : Perm} {s0 s : Streams} {g0 g : Ghost} (r : Run P s0 g0 s g) (hc : ∀ k, ¬P.cut k)
    (k : Nat) (h0 : CutAbs k s0 g0) : CutAbs k s g := by
  induction r with
  | refl => exact h0
  | @tau s1 s2 _ g1 _ e ih =>
    obtain ⟨kb1, q1⟩ := ih h0
    refine ⟨e.keysBelow kb1, fun hcut => ?_⟩
    obtain ⟨hn, hlt⟩ := q1 hcut
    refine ⟨?_, Nat.lt_of_lt_of_le hlt e.nk⟩
    cases hb : s2.store.get? k with
    | none => rfl
    | some b => have := (e.new k b hn hb).1; omega
  | @lbl s1 s2 _ g1 l _ e ok ih =>
    obtain ⟨kb1, q1⟩ := ih h0
    refine ⟨e.keysBelow kb1, fun hcut => ?_⟩
    by_cases hg1 : g1.cut k = true
    · obtain ⟨hn, hlt⟩ := q1 hg1
      refine ⟨?_, Nat.lt_of_lt_of_le hlt e.nk⟩
      cases hb : s2.store.get? k with
      | none => rfl
      | some b => have := (e.new k b hn hb).1; omega
    · cases l with
      | cut j n => exact absurd ok (hc j)
      | gone j =>
        by_cases hj : j = k
        · subst hj
          simp only [gstep] at hcut
          split at hcut
          · next hs =>
            obtain ⟨a, ha⟩ := Option.isSome_iff_exists.mp hs
            exact ⟨e.goneAbs j rfl, Nat.lt_of_lt_of_le (kb1 j a ha) e.nk⟩
          · exact absurd hcut hg1
        · simp only [gstep] at hcut
          split at hcut
          · have : upd g1.cut j true k = g1.cut k := upd_other _ _ (fun e' => hj e'.symm)
            exact absurd (this ▸ hcut) hg1
          · exact absurd hcut hg1
      | push j f => simp only [gstep] at hcut; split at hcut <;> exact absurd hcut hg1
      | pop j f => simp only [gstep] at hcut; split at hcut <;> exact absurd hcut hg1
      | _ => exact absurd hcut hg1

theorem transition_snd {α : Type} (s : Streams) (k : Nat) (f : Streams → Streams × α) : (s.transition k f).2 = (f s).2 := by
  unfold Streams.transition
  rcases f s with ⟨s', a⟩
  rfl

theorem permG_nopush : ∀ k f, ¬permG.push k f := fun _ _ h => h

/-- **exactly once, ghost level**: from a history, a call that reached `s'` by `Once k F` (i.e. answered `Ok`) on an entry
    that is not closed (a closed one answers `Err`) -/
theorem Hist.once {s s' : Streams} {w : Writer} {g : Ghost} (h : Hist s w g) (hw : g.weird = false) (k : Nat) (F : SFrame)
    (hm : isMsg F = true) (hnc : ∀ a, s.store.get? k = some a → a.state.isClosed = false) (ho : Once k F s s') :
    ∃ g', Hist s' w g' ∧ g'.emi = g.emi ∧ (∀ j, j ≠ k → g'.acc j = g.acc j) ∧
      (g'.acc k = g.acc k ++ [F] ∨ g'.acc k = g.acc k) := by
  obtain ⟨s1, t1, t2⟩ := ho
  have hI := (h.inv hw).1
  -- at the start: if `k` was cut it is gone for good (it is not closed)
  have hca : CutAbs k s g := by
    refine ⟨hI.kb, fun hk => ?_⟩
    have hlt : k < s.store.nextKey := by
      apply Nat.lt_of_not_le; intro hle
      have := (hI.ghostKey k hle).2.2; rw [this] at hk; cases hk
    refine ⟨?_, hlt⟩
    cases ha : s.store.get? k with
    | none => rfl
    | some a => have := hI.closed k hk a ha; rw [hnc a ha] at this; cases this
  -- segment 1: silent steps and removals
  obtain ⟨g1, r1⟩ := t1.run g
  have h1 : Hist s1 w g1 := .api permG h (fun h => h) (fun h => h) (Or.inr (Or.inr (fun _ _ _ h => h))) r1
  have a1 : g1.acc = g.acc := r1.acc_same permG_nopush
  have e1 : g1.emi = g.emi := r1.emi_eq (fun h => h)
  have hca1 : CutAbs k s1 g1 := r1.cutAbs (fun _ h => h) k hca
  -- segment 3, from whatever the push produced
  have fin : ∀ (g2 : Ghost), Hist (s1.modStream k (pushF F)) w g2 →
      ∃ g', Hist s' w g' ∧ g'.emi = g2.emi ∧ g'.acc = g2.acc := by
    intro g2 h2
    obtain ⟨g3, r3⟩ := t2.run g2
    exact ⟨g3, .api permG h2 (fun h => h) (fun h => h) (Or.inr (Or.inr (fun _ _ _ h => h))) r3,
      r3.emi_eq (fun h => h), r3.acc_same permG_nopush⟩
  cases hs : s1.store.get? k with
  | none =>
    -- a dangling key: nothing is pushed
    obtain ⟨g2, h2, a2, e2⟩ := h1.tr_quiet permG (fun h => h) (fun h => h) (fun _ _ _ h => h)
      (panic_acc (P := permG) s!"dangling store key {k}" (Tr.refl permG s1))
    rw [← modStream_absent (pushF F) hs] at h2
    obtain ⟨g', h', e3, a3⟩ := fin g2 h2
    exact ⟨g', h', by rw [e3, e2, e1], fun j _ => by rw [a3, a2, a1], Or.inr (by rw [a3, a2, a1])⟩
  | some a1' =>
    have hcut1 : g1.cut k = false := by
      cases hk1 : g1.cut k with
      | false => rfl
      | true => have := (hca1.2 hk1).1; rw [hs] at this; cases this
    have r2 := push_run (P := { push := fun j f => j = k ∧ f = F }) s1 g1 k F (Or.inl ⟨rfl, rfl⟩) (by rw [hs]; rfl)
    have h2 : Hist (s1.modStream k (pushF F)) w (gstep s1 (.push k F) g1) := by
      refine .api _ h1 (fun h => h) (fun h => h) ?_ r2
      refine Or.inr (Or.inl ⟨fun _ h => h, fun j f _ hp hc => ?_⟩)
      have hj : j = k := hp.1
      subst hj; rw [hcut1] at hc; cases hc
    obtain ⟨g', h', e3, a3⟩ := fin _ h2
    refine ⟨g', h', ?_, fun j hj => ?_, Or.inl ?_⟩
    · rw [e3, gstep_emi _ _ _ (by intro _ _ e; cases e)]; exact e1
    · rw [a3]; simp only [gstep, hm, if_true]; rw [upd_other _ _ hj, a1]
    · rw [a3]; simp only [gstep, hm, if_true, upd_same]; rw [a1]

/-- **`send_data` answering `Ok` extends the accepted log of its stream by exactly `[DATA(len, eos)]`** (not at all only
    for a key that names no entry at that moment), touches no other log, and the result is again a history -/
theorem Hist.refSendData_exact {s : Streams} {w : Writer} {g : Ghost} (h : Hist s w g) (hw : g.weird = false)
    (k len : Nat) (eos : Bool) (u : Unit) (hr : (s.refSendData k len eos).2 = .ok u) :
    ∃ g', Hist (s.refSendData k len eos).1 w g' ∧ g'.emi = g.emi ∧ (∀ j, j ≠ k → g'.acc j = g.acc j) ∧
      (g'.acc k = g.acc k ++ [.data len eos] ∨ g'.acc k = g.acc k) := by
  refine h.once hw k (.data len eos) rfl ?_ ((refSendData_accR s k len eos).ok hr)
  -- a closed entry answers `Err`
  rcases closed_cases s k with hc | hnc
  · exfalso
    have e : (s.refSendData k len eos).2 = (s.prioSendData k len eos).2 := by
      unfold Streams.refSendData; rw [transition_snd]
    rw [e] at hr
    unfold Streams.prioSendData at hr
    split at hr
    · cases hr
    · simp only [closed_not_streaming _ hc, Bool.not_false, if_true] at hr; cases hr
  · exact hnc


theorem Hist.refSendTrailers_exact {s : Streams} {w : Writer} {g : Ghost} (h : Hist s w g) (hw : g.weird = false)
    (k : Nat) (f : List Hpack.Field) (u : Unit) (hr : (s.refSendTrailers k f).2 = .ok u) :
    ∃ g', Hist (s.refSendTrailers k f).1 w g' ∧ g'.emi = g.emi ∧ (∀ j, j ≠ k → g'.acc j = g.acc j) ∧
      (g'.acc k = g.acc k ++ [.headers true f] ∨ g'.acc k = g.acc k) := by
  refine h.once hw k (.headers true f) rfl ?_ ((refSendTrailers_accR s k f).ok hr)
  rcases closed_cases s k with hc | hnc
  · exfalso
    have e : (s.refSendTrailers k f).2 = (s.sendTrailers k f).2 := by
      unfold Streams.refSendTrailers; rw [transition_snd]
    rw [e] at hr
    unfold Streams.sendTrailers at hr
    split at hr
    · cases hr
    · simp only [closed_not_streaming _ hc, Bool.not_false, if_true] at hr; cases hr
  · exact hnc

theorem Hist.refSendResponse_exact {s : Streams} {w : Writer} {g : Ghost} (h : Hist s w g) (hw : g.weird = false)
    (k : Nat) (f : List Hpack.Field) (eos : Bool) (u : Unit) (hr : (s.refSendResponse k f eos).2 = .ok u) :
    ∃ g', Hist (s.refSendResponse k f eos).1 w g' ∧ g'.emi = g.emi ∧ (∀ j, j ≠ k → g'.acc j = g.acc j) ∧
      (g'.acc k = g.acc k ++ [.headers eos f] ∨ g'.acc k = g.acc k) := by
  refine h.once hw k (.headers eos f) rfl ?_ ((refSendResponse_accR s k f eos).ok hr)
  rcases closed_cases s k with hc | hnc
  · exfalso
    have e : (s.refSendResponse k f eos).2 = (s.sendHeaders k eos f).2 := by
      unfold Streams.refSendResponse; rw [transition_snd]
    rw [e] at hr
    unfold Streams.sendHeaders at hr
    split at hr
    · cases hr
    · rw [closed_sendOpen _ eos hc] at hr; cases hr
  · exact hnc

theorem Hist.refSendInformationalHeaders_exact {s : Streams} {w : Writer} {g : Ghost} (h : Hist s w g) (hw : g.weird = false)
    (k : Nat) (f : List Hpack.Field) (u : Unit) (hr : (s.refSendInformationalHeaders k f).2 = .ok u) :
    ∃ g', Hist (s.refSendInformationalHeaders k f).1 w g' ∧ g'.emi = g.emi ∧ (∀ j, j ≠ k → g'.acc j = g.acc j) ∧
      (g'.acc k = g.acc k ++ [.headers false f] ∨ g'.acc k = g.acc k) := by
  refine h.once hw k (.headers false f) rfl ?_ ((refSendInformationalHeaders_accR s k f).ok hr)
  rcases closed_cases s k with hc | hnc
  · exfalso
    have e : (s.refSendInformationalHeaders k f).2 = (s.sendInterimInformationalHeaders k f).2 := by
      unfold Streams.refSendInformationalHeaders; rw [transition_snd]
    rw [e] at hr
    unfold Streams.sendInterimInformationalHeaders at hr
    split at hr
    · cases hr
    · simp only [closed_sendClosed _ hc, Bool.or_true, if_true] at hr; cases hr
  · exact hnc

end H2V.Lemmas.ConnFidP
