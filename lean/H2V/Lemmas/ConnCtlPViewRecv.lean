import H2V.Lemmas.ConnCtlPViewSend
import H2V.Lemmas.ConnCtlPStore
/-
  ConnCtlP, view lemmas part 3 — ConnRecv.lean (recv.rs).  The functions that write a view field:
  `recvGoAway` (`rmax`), `recvRecvHeaders` (`lpi`, only upwards, to the id of the frame),
  `applyLocalSettings` (`rInitWin`).  Needs from ConnSend.lean only what ViewSend provides, plus the
  four functions proved at the top (`sendHeaders`, `sendSendReset`, `scheduleImplicitReset`,
  `tryForEach`).
-/
set_option autoImplicit false
set_option linter.unusedSimpArgs false
namespace H2V.Lemmas.ConnCtlP
open H2V H2V.Model H2V.Model.Conn

-- ===================================================================== recv.rs

@[simp] theorem view_releaseConnectionCapacity (s : Streams) (n : Nat) (b : Bool) :
    view (s.releaseConnectionCapacity n b) = view s := by
  unfold Streams.releaseConnectionCapacity; dsimp only; view_auto

@[simp] theorem view_releaseCapacity (s : Streams) (id n : Nat) (b : Bool) : view (s.releaseCapacity id n b).1 = view s := by
  unfold Streams.releaseCapacity; view_auto

theorem releaseDataFrame_keep (c : Counts) (n : Nat) : CountsKeep c (c.releaseDataFrame n) := by
  unfold Counts.releaseDataFrame; dsimp only; split <;> exact ⟨rfl, rfl, rfl⟩

theorem recordDataFrame_keep (c : Counts) (n : Nat) : CountsKeep c (c.recordDataFrame n).1 := by
  unfold Counts.recordDataFrame
  dsimp only
  (repeat' split) <;> exact ⟨rfl, rfl, rfl⟩

theorem clearRecvBufferLoop_keep (inFlight : Nat) : ∀ (l : List REvent) (acc : Nat) (c : Counts),
    CountsKeep c (Streams.clearRecvBufferLoop inFlight l acc c).2 := by
  intro l
  induction l with
  | nil => intro acc c; exact CountsKeep.refl c
  | cons e t ih =>
    intro acc c
    cases e with
    | data payload budgeted =>
      unfold Streams.clearRecvBufferLoop
      dsimp only
      split
      · exact (releaseDataFrame_keep c _).trans (ih _ _)
      · exact ih _ _
    | headers _ _ => unfold Streams.clearRecvBufferLoop; exact ih _ _
    | request _ _ _ => unfold Streams.clearRecvBufferLoop; exact ih _ _
    | informational _ _ => unfold Streams.clearRecvBufferLoop; exact ih _ _
    | trailers _ => unfold Streams.clearRecvBufferLoop; exact ih _ _

@[simp] theorem view_clearRecvBuffer (s : Streams) (id : Nat) (b : Bool) : view (s.clearRecvBuffer id b) = view s := by
  unfold Streams.clearRecvBuffer
  dsimp only
  have hk := clearRecvBufferLoop_keep (s.stream id).inFlightRecvData (s.stream id).pendingRecv 0 s.counts
  rcases h : Streams.clearRecvBufferLoop (s.stream id).inFlightRecvData (s.stream id).pendingRecv 0 s.counts with ⟨n, c⟩
  rw [h] at hk
  have hv := view_setCounts s c hk
  dsimp only
  split <;> simp [hv]

@[simp] theorem view_releaseClosedCapacity (s : Streams) (id : Nat) : view (s.releaseClosedCapacity id) = view s := by
  unfold Streams.releaseClosedCapacity; dsimp only; view_auto

@[simp] theorem view_setTargetConnectionWindow (s : Streams) (n : Nat) :
    view (s.setTargetConnectionWindow n).1 = view s := by
  unfold Streams.setTargetConnectionWindow
  (repeat' split) <;> simp

@[simp] theorem view_consumeConnectionWindow (s : Streams) (n : Nat) : view (s.consumeConnectionWindow n).1 = view s := by
  unfold Streams.consumeConnectionWindow
  (repeat' split) <;> simp

@[simp] theorem view_ignoreData (s : Streams) (n : Nat) : view (s.ignoreData n).1 = view s := by
  unfold Streams.ignoreData; view_auto

@[simp] theorem view_recvOpen (s : Streams) (id : Nat) (b : Bool) : view (s.recvOpen id b).1 = view s := by
  unfold Streams.recvOpen; view_auto

@[simp] theorem view_notifyPushIfRecvEnded (s : Streams) (id : Nat) : view (s.notifyPushIfRecvEnded id) = view s := by
  unfold Streams.notifyPushIfRecvEnded; split <;> simp

@[simp] theorem view_recvRecvTrailers (s : Streams) (id : Nat) (h : HeadersIn) : view (s.recvRecvTrailers id h).1 = view s := by
  unfold Streams.recvRecvTrailers; view_auto

/-- END_STREAM handling of `Recv::recv_data` (a copy) -/
def recvDataEos (s : Streams) (id : Nat) (eos : Bool) : Streams × Option PErr :=
  if eos then
    if !(s.stream id).ensureContentLengthZero then (s, some (PErr.libraryReset (s.stream id).id PROTOCOL_ERROR))
    else match (s.stream id).state.recvClose with
      | (_, .error _) => (s, some (PErr.libraryGoAway PROTOCOL_ERROR))
      | (st', .ok _) => (s.modStream id fun st => { st with state := st' }, none)
  else (s, none)

/-- the delivery part of `Recv::recv_data` (a copy) -/
def recvDataDeliver (s : Streams) (id : Nat) (payload : Bytes) (eos : Bool) (flowLen sz : Nat) : Streams × Except PErr Unit :=
  if !(s.stream id).isRecv then ((s.releaseConnectionCapacity sz false).notifyPushIfRecvEnded id, .ok ())
  else
    match (s.stream id).recvFlow.sendData sz with
    | (fl, .error (.reason r)) => (s.modStream id fun st => { st with recvFlow := fl }, .error (PErr.libraryGoAway r))
    | (_, .error .assertFailed) => (s.panic "assertion failed: self.window_size.0 >= sz as i32 (stream recv)", .ok ())
    | (fl, .ok _) =>
      let s := s.modStream id fun st => { st with recvFlow := fl, inFlightRecvData := wrapAddU32 st.inFlightRecvData sz }
      let padding := usizeAsU32 (flowLen - payload.length)
      let s := if padding > 0 then (s.releaseCapacity id padding false).1 else s
      if payload.isEmpty && !eos then (s, .ok ())
      else
        let s := s.modStream id fun st => { st with pendingRecv := st.pendingRecv ++ [.data payload (!eos)] }
        ((s.modStreamW id Stream.notifyRecv).notifyPushIfRecvEnded id, .ok ())

/-- `Recv::recv_data` after its `assert!(sz <= MAX_WINDOW_SIZE)` (a copy of the model's code) -/
def recvDataCore (s : Streams) (id : Nat) (payload : Bytes) (eos : Bool) (flowLen : Nat) : Streams × Except PErr Unit :=
  let sz := usizeAsU32 flowLen
  let st := s.stream id
  let isIgnoringFrame := st.state.isLocalError
  if !isIgnoringFrame && !st.state.isRecvStreaming then (s, .error (PErr.libraryGoAway PROTOCOL_ERROR))
  else if isIgnoringFrame then s.ignoreData sz
  else
    match s.consumeConnectionWindow sz with
    | (s, .error e) => (s, .error e)
    | (s, .ok _) =>
      if (s.stream id).recvFlow.windowSz < sz then (s, .error (PErr.libraryReset (s.stream id).id FLOW_CONTROL_ERROR))
      else
        match (s.stream id).decContentLength payload.length with
        | none => (s, .error (PErr.libraryReset (s.stream id).id PROTOCOL_ERROR))
        | some st1 =>
          match recvDataEos (s.setStream st1) id eos with
          | (s, some e) => (s, .error e)
          | (s, none) => recvDataDeliver s id payload eos flowLen sz

theorem recvRecvData_eq (s : Streams) (id : Nat) (p : Bytes) (eos : Bool) (pad : Option Nat) :
    s.recvRecvData id p eos pad =
      recvDataCore (if p.length + (match pad with | some x => x + 1 | none => 0) > Generated.Consts.MAX_WINDOW_SIZE
        then s.panic "assertion failed: sz <= MAX_WINDOW_SIZE" else s) id p eos
        (p.length + (match pad with | some x => x + 1 | none => 0)) := by
  cases pad <;> rfl

theorem view_recvDataEos (s : Streams) (id : Nat) (eos : Bool) : view (recvDataEos s id eos).1 = view s := by
  unfold recvDataEos
  (repeat' split) <;> simp

theorem view_recvDataDeliver (s : Streams) (id : Nat) (p : Bytes) (eos : Bool) (n sz : Nat) :
    view (recvDataDeliver s id p eos n sz).1 = view s := by
  unfold recvDataDeliver
  dsimp only
  (repeat' split) <;> simp

theorem view_recvDataCore (s : Streams) (id : Nat) (p : Bytes) (eos : Bool) (n : Nat) :
    view (recvDataCore s id p eos n).1 = view s := by
  unfold recvDataCore
  dsimp only
  split
  · rfl
  · split
    · simp
    · rcases hc : s.consumeConnectionWindow (usizeAsU32 n) with ⟨s1, r1⟩
      have hv1 : view s1 = view s := by
        have := view_consumeConnectionWindow s (usizeAsU32 n); rw [hc] at this; exact this
      cases r1 with
      | error e => exact hv1
      | ok u =>
        dsimp only
        rw [← hv1]
        split
        · rfl
        · split
          · rfl
          · rename_i st1 _
            rcases he : recvDataEos (s1.setStream st1) id eos with ⟨s2, r2⟩
            have hv2 : view s2 = view s1 := by
              have := view_recvDataEos (s1.setStream st1) id eos; rw [he] at this; simpa using this
            cases r2 with
            | some e => exact hv2
            | none => dsimp only; rw [view_recvDataDeliver, hv2]

@[simp] theorem view_recvRecvData (s : Streams) (id : Nat) (p : Bytes) (eos : Bool) (pad : Option Nat) :
    view (s.recvRecvData id p eos pad).1 = view s := by
  rw [recvRecvData_eq, view_recvDataCore]
  split <;> simp

@[simp] theorem view_recvRecvPushPromise (s : Streams) (id : Nat) (h : HeadersIn) :
    view (s.recvRecvPushPromise id h).1 = view s := by
  unfold Streams.recvRecvPushPromise; view_auto

@[simp] theorem view_recvNextIncoming (s : Streams) : view s.recvNextIncoming.1 = view s := by
  unfold Streams.recvNextIncoming; simp

@[simp] theorem view_recvTakeRequest (s : Streams) (id : Nat) : view (s.recvTakeRequest id).1 = view s := by
  unfold Streams.recvTakeRequest; view_auto

@[simp] theorem view_recvRecvReset (s : Streams) (id : Nat) (r : Reason) : view (s.recvRecvReset id r).1 = view s := by
  unfold Streams.recvRecvReset
  dsimp only
  split
  · rename_i s1 e h
    split at h
    · split at h <;> simp at h
      rw [← h.1]
    · simp at h
  · rename_i s1 h
    split at h
    · split at h <;> simp at h
      rw [← h]; simp
    · simp at h
      rw [← h]; simp

@[simp] theorem view_recvHandleError (s : Streams) (id : Nat) (e : PErr) : view (s.recvHandleError id e) = view s := by
  unfold Streams.recvHandleError; view_auto

theorem view_recvGoAway (s : Streams) (id : Nat) : view (s.recvGoAway id) = { view s with rmax := id } := by
  unfold Streams.recvGoAway
  dsimp only
  split
  · rfl
  · unfold Streams.panic; split <;> rfl

@[simp] theorem view_recvRecvEof (s : Streams) (id : Nat) : view (s.recvRecvEof id) = view s := by
  unfold Streams.recvRecvEof; view_auto

@[simp] theorem view_recvMaybeResetNextStreamId (s : Streams) (id : Nat) :
    view (s.recvMaybeResetNextStreamId id) = view s := by
  unfold Streams.recvMaybeResetNextStreamId; view_auto

@[simp] theorem view_enqueueResetExpiration (s : Streams) (id : Nat) : view (s.enqueueResetExpiration id) = view s := by
  unfold Streams.enqueueResetExpiration; dsimp only; view_auto

@[simp] theorem view_sendPendingRefusal (s : Streams) (w : Writer) : view (s.sendPendingRefusal w).1 = view s := by
  unfold Streams.sendPendingRefusal; view_auto

@[simp] theorem view_clearExpiredResetStreams (fuel : Nat) (s : Streams) :
    view (Streams.clearExpiredResetStreams fuel s) = view s := by
  induction fuel generalizing s with
  | zero => rfl
  | succ n ih => unfold Streams.clearExpiredResetStreams; view_auto

@[simp] theorem view_clearStreamWindowUpdateQueue (fuel : Nat) (s : Streams) :
    view (Streams.clearStreamWindowUpdateQueue fuel s) = view s := by
  induction fuel generalizing s with
  | zero => rfl
  | succ n ih => unfold Streams.clearStreamWindowUpdateQueue; view_auto

@[simp] theorem view_clearAllResetStreams (fuel : Nat) (s : Streams) :
    view (Streams.clearAllResetStreams fuel s) = view s := by
  induction fuel generalizing s with
  | zero => rfl
  | succ n ih => unfold Streams.clearAllResetStreams; view_auto

@[simp] theorem view_clearAllPendingAccept (fuel : Nat) (s : Streams) :
    view (Streams.clearAllPendingAccept fuel s) = view s := by
  induction fuel generalizing s with
  | zero => rfl
  | succ n ih => unfold Streams.clearAllPendingAccept; view_auto

@[simp] theorem view_recvClearQueues (s : Streams) (b : Bool) : view (s.recvClearQueues b) = view s := by
  unfold Streams.recvClearQueues; view_auto

@[simp] theorem view_sendConnectionWindowUpdate (s : Streams) (w : Writer) :
    view (s.sendConnectionWindowUpdate w).1 = view s := by
  unfold Streams.sendConnectionWindowUpdate; view_auto

@[simp] theorem view_sendStreamWindowUpdates (fuel : Nat) (s : Streams) (w : Writer) :
    view (Streams.sendStreamWindowUpdates fuel s w).1 = view s := by
  induction fuel generalizing s w with
  | zero => rfl
  | succ n ih => unfold Streams.sendStreamWindowUpdates; dsimp only; view_auto

@[simp] theorem view_recvBufferPending (s : Streams) (w : Writer) : view (s.recvBufferPending w).1 = view s := by
  unfold Streams.recvBufferPending; view_auto

@[simp] theorem view_scheduleRecv (s : Streams) (id : Nat) (t : String) : view (s.scheduleRecv id t).1 = view s := by
  unfold Streams.scheduleRecv; view_auto

@[simp] theorem view_recvPollData (s : Streams) (id : Nat) (t : String) : view (s.recvPollData id t).1 = view s := by
  unfold Streams.recvPollData; view_auto

@[simp] theorem view_recvPollTrailers (s : Streams) (id : Nat) (t : String) : view (s.recvPollTrailers id t).1 = view s := by
  unfold Streams.recvPollTrailers; view_auto

@[simp] theorem view_recvPollResponse (fuel : Nat) (s : Streams) (id : Nat) (t : String) :
    view (Streams.recvPollResponse fuel s id t).1 = view s := by
  induction fuel generalizing s with
  | zero => rfl
  | succ n ih => unfold Streams.recvPollResponse; view_auto

@[simp] theorem view_recvPollInformational (s : Streams) (id : Nat) (t : String) :
    view (s.recvPollInformational id t).1 = view s := by
  unfold Streams.recvPollInformational; view_auto

@[simp] theorem view_recvPollPushed (s : Streams) (id : Nat) (t : String) : view (s.recvPollPushed id t).1 = view s := by
  unfold Streams.recvPollPushed
  split
  · dsimp only
    split <;> simp
  · (repeat' split) <;> simp

-- ===================================================================== recv_headers

/-- the counting step of `Recv::recv_headers`: an initial HEADERS on a stream that is not counted yet
    raises `last_processed_id` to the frame's stream id and takes a concurrency slot (a copy) -/
def recvHeadersCount (s : Streams) (id : Nat) (h : HeadersIn) (isInitial : Bool) : Streams :=
  if isInitial && !(s.stream id).isCounted then
    let s := if h.sid > s.recv.lastProcessedId then s.modRecv fun r => { r with lastProcessedId := h.sid } else s
    s.incNumRecvStreams id
  else s

/-- the content-length step of `Recv::recv_headers` (a copy) -/
def recvHeadersCl (s : Streams) (id : Nat) (h : HeadersIn) : Streams × Option PErr :=
  if (s.stream id).contentLength != .head then
    match h.fields.find? (fun f => f.1 == Http.str "content-length") with
    | some (_, v :: rest) =>
      match parseU64 v with
      | none => (s, some (PErr.libraryReset (s.stream id).id PROTOCOL_ERROR))
      | some cl =>
        if rest.any (fun o => parseU64 o != some cl) then (s, some (PErr.libraryReset (s.stream id).id PROTOCOL_ERROR))
        else
        let s := s.modStream id fun st => { st with contentLength := .remaining cl }
        let statusNot204304 := match h.status with
          | some st => st != Http.str "204" && st != Http.str "304"
          | none => true
        if h.eos && cl > 0 && statusNot204304 then (s, some (PErr.libraryReset (s.stream id).id PROTOCOL_ERROR)) else (s, none)
    | _ => (s, none)
  else (s, none)

/-- the checks and the queueing of the message of `Recv::recv_headers` (a copy) -/
def recvHeadersQueue (s : Streams) (id : Nat) (h : HeadersIn) (isInitial : Bool) : Streams × RecvHeadersRes :=
  if h.isOverSize then (s, .oversize (s.counts.isServer && isInitial))
  else if h.hasProtocol && s.counts.isServer && !s.recv.isExtendedConnectProtocolEnabled then
    (s, .state (PErr.libraryReset (s.stream id).id PROTOCOL_ERROR))
  else if h.status.isSome && s.counts.isServer then (s, .state (PErr.libraryReset (s.stream id).id PROTOCOL_ERROR))
  else
    let status := h.status.getD (Http.str "200")
    if s.counts.isServer then
      match convertPollMessageServer h with
      | .malformed => (s, .state (PErr.libraryReset (s.stream id).id PROTOCOL_ERROR))
      | .unsupported => (s, .unsupported)
      | .ok method uri =>
        let s := s.modStream id fun st => { st with pendingRecv := st.pendingRecv ++ [.request method uri h.fields] }
        let s := s.modStreamW id Stream.notifyRecv
        let s := s.notifyPushIfRecvEnded id
        ((s.qPush .pendingAccept id).1, .ok)
    else if !h.isInformational then
      let s := s.modStream id fun st => { st with pendingRecv := st.pendingRecv ++ [.headers status h.fields] }
      ((s.modStreamW id Stream.notifyRecv).notifyPushIfRecvEnded id, .ok)
    else
      let s := s.modStream id fun st => { st with pendingRecv := st.pendingRecv ++ [.informational status h.fields] }
      (s.modStreamW id Stream.notifyRecv, .ok)

theorem recvRecvHeaders_eq (s : Streams) (id : Nat) (h : HeadersIn) :
    s.recvRecvHeaders id h =
      match (s.stream id).state.recvOpen h.eos h.isInformational with
      | (_, .error e) => (s, .state e)
      | (st', .ok isInitial) =>
        let s := s.modStream id fun st => { st with state := st' }
        if isInitial && !(s.stream id).isCounted && !s.counts.canIncNumRecvStreams then
          (s, .state (PErr.libraryReset (s.stream id).id REFUSED_STREAM))
        else
        match recvHeadersCl (recvHeadersCount s id h isInitial) id h with
        | (s, some e) => (s, .state e)
        | (s, none) => recvHeadersQueue s id h isInitial := rfl

theorem view_recvHeadersCl (s : Streams) (id : Nat) (h : HeadersIn) : view (recvHeadersCl s id h).1 = view s := by
  unfold recvHeadersCl
  (repeat' split) <;> (try simp) <;> (try (split <;> simp))

theorem view_recvHeadersQueue (s : Streams) (id : Nat) (h : HeadersIn) (b : Bool) :
    view (recvHeadersQueue s id h b).1 = view s := by
  unfold recvHeadersQueue
  (repeat' split) <;> simp

theorem view_recvHeadersCount (s : Streams) (id : Nat) (h : HeadersIn) (b : Bool) :
    ∃ l, view (recvHeadersCount s id h b) = { view s with lpi := l } ∧
      (l = (view s).lpi ∨ (l = h.sid ∧ (view s).lpi < h.sid)) ∧
      (b = true → (s.stream id).isCounted = false → h.sid ≤ l) := by
  unfold recvHeadersCount
  by_cases hc : (b && !(s.stream id).isCounted) = true
  · rw [if_pos hc]
    dsimp only
    by_cases hgt : h.sid > s.recv.lastProcessedId
    · rw [if_pos hgt, view_incNumRecvStreams]
      exact ⟨h.sid, rfl, Or.inr ⟨rfl, hgt⟩, fun _ _ => Nat.le_refl _⟩
    · rw [if_neg hgt, view_incNumRecvStreams]
      exact ⟨(view s).lpi, rfl, Or.inl rfl, fun _ _ => Nat.le_of_not_gt hgt⟩
  · rw [if_neg hc]
    refine ⟨(view s).lpi, rfl, Or.inl rfl, fun hb hcn => ?_⟩
    simp [hb, hcn] at hc

/-- **`Recv::recv_headers`** writes nothing of the view but `last_processed_id`, which it can only
    raise, and only to the stream id of the frame; an initial HEADERS on a stream that is not counted
    yet (a fresh entry) leaves it at or above that id -/
theorem view_recvRecvHeaders (s : Streams) (id : Nat) (h : HeadersIn) :
    ∃ l, view (s.recvRecvHeaders id h).1 = { view s with lpi := l } ∧
      (l = (view s).lpi ∨ (l = h.sid ∧ (view s).lpi < h.sid)) ∧
      ((s.stream id).state.inner = .idle → (s.stream id).isCounted = false →
        (∀ e, (s.recvRecvHeaders id h).2 ≠ .state e) → h.sid ≤ l) := by
  rw [recvRecvHeaders_eq]
  rcases ho : (s.stream id).state.recvOpen h.eos h.isInformational with ⟨st', r⟩
  cases r with
  | error e => exact ⟨(view s).lpi, rfl, Or.inl rfl, fun _ _ hne => absurd rfl (hne e)⟩
  | ok isInitial =>
    dsimp only
    obtain ⟨l, hl1, hl2, hl3⟩ := view_recvHeadersCount (s.modStream id fun st => { st with state := st' }) id h isInitial
    rw [view_modStream] at hl1 hl2
    rcases hcl : recvHeadersCl (recvHeadersCount (s.modStream id fun st => { st with state := st' }) id h isInitial) id h with ⟨s2, r2⟩
    have hv2 : view s2 = { view s with lpi := l } := by
      have := view_recvHeadersCl (recvHeadersCount (s.modStream id fun st => { st with state := st' }) id h isInitial) id h
      rw [hcl] at this
      rw [← hl1]; exact this
    have hinit : (s.stream id).state.inner = .idle → isInitial = true := by
      intro hi
      unfold State.recvOpen at ho
      rw [hi] at ho
      simp at ho
      exact ho.2
    have hcnt : ((s.modStream id fun st => { st with state := st' }).stream id).isCounted = (s.stream id).isCounted := by
      unfold Streams.modStream
      cases hg : s.store.get? id with
      | none => simp [Streams.stream, Streams.panic]; split <;> simp [hg]
      | some x =>
        dsimp only
        rw [stream_of_get? _ id _ (Store.get?_set s.store x _ id hg (by rw [Store.get?_key _ _ _ hg])), stream_of_get? _ id _ hg]
    split
    · -- the concurrency limit was reached while the stream was only reserved: REFUSED_STREAM
      exact ⟨(view s).lpi, by simp, Or.inl rfl, fun _ _ hne => absurd rfl (hne _)⟩
    · cases r2 with
      | some e =>
        refine ⟨l, hv2, hl2, fun _ _ hne => absurd rfl (hne e)⟩
      | none =>
        dsimp only
        refine ⟨l, by rw [view_recvHeadersQueue, hv2], hl2, fun hi hc _ => hl3 (hinit hi) (by rw [hcnt]; exact hc)⟩


-- ===================================================================== apply_local_settings

/-- the SETTINGS_INITIAL_WINDOW_SIZE part of `Recv::apply_local_settings` (a copy) -/
def alsWindow (s : Streams) (target : Nat) : Streams × Option PErr :=
  let oldSz := s.recv.initWindowSz
  let s := s.modRecv fun r => { r with initWindowSz := target }
  if target < oldSz then
    let dec := oldSz - target
    s.storeTryForEach fun s id =>
      match (s.stream id).recvFlow.decRecvWindow dec with
      | (fl, .error _) => (s.modStream id fun st => { st with recvFlow := fl }, some (PErr.libraryGoAway FLOW_CONTROL_ERROR))
      | (fl, .ok _) =>
        let s := s.modStream id fun st => { st with recvFlow := fl }
        if fl.unclaimedCapacity.isSome then ((s.qPush .pendingWindowUpdates id).1, none) else (s, none)
  else if target > oldSz then
    let inc := target - oldSz
    s.storeTryForEach fun s id =>
      match (s.stream id).recvFlow.incWindow inc with
      | (_, .error _) => (s, some (PErr.libraryGoAway FLOW_CONTROL_ERROR))
      | (fl, .ok _) =>
        match fl.assignCapacity inc with
        | (fl2, .error _) => (s.modStream id fun st => { st with recvFlow := fl2 }, some (PErr.libraryGoAway FLOW_CONTROL_ERROR))
        | (fl2, .ok _) => (s.modStream id fun st => { st with recvFlow := fl2 }, none)
  else (s, none)

def alsConnect (s : Streams) (enableConnect : Option Nat) : Streams :=
  match enableConnect with
  | some v => s.modRecv fun r => { r with isExtendedConnectProtocolEnabled := v != 0 }
  | none => s

theorem applyLocalSettings_eq (s : Streams) (iws ec : Option Nat) :
    s.applyLocalSettings iws ec =
      match iws with
      | none => (alsConnect s ec, .ok ())
      | some target =>
        let (s, res) := alsWindow (alsConnect s ec) target
        match res with
        | some e => (s, .error e)
        | none => (s, .ok ()) := by
  cases iws <;> rfl

theorem view_alsConnect (s : Streams) (ec : Option Nat) : view (alsConnect s ec) = view s := by
  unfold alsConnect; split <;> simp

theorem view_alsWindow (s : Streams) (target : Nat) :
    view (alsWindow s target).1 = { view s with rInitWin := target } := by
  have h0 : view (s.modRecv fun r => { r with initWindowSz := target }) = { view s with rInitWin := target } := rfl
  unfold alsWindow
  dsimp only
  split
  · rw [view_storeTryForEach, h0]
    intro s id
    (repeat' split) <;> simp
  · split
    · rw [view_storeTryForEach, h0]
      intro s id
      (repeat' split) <;> simp
    · exact h0

/-- `Recv::apply_local_settings` writes nothing of the view but `init_window_sz` -/
theorem view_applyLocalSettings (s : Streams) (iws ec : Option Nat) :
    ∃ w, view (s.applyLocalSettings iws ec).1 = { view s with rInitWin := w } ∧ w = iws.getD (view s).rInitWin := by
  rw [applyLocalSettings_eq]
  cases iws with
  | none => exact ⟨(view s).rInitWin, by simp [view_alsConnect], rfl⟩
  | some target =>
    dsimp only
    have := view_alsWindow (alsConnect s ec) target
    rw [view_alsConnect] at this
    rcases hw : alsWindow (alsConnect s ec) target with ⟨s1, r⟩
    rw [hw] at this
    cases r <;> exact ⟨target, this, rfl⟩


end H2V.Lemmas.ConnCtlP
