import H2V.Lemmas.ConnCtlPAck
/-
  ConnCtlP, part 6 — C14, the single steps: what `recv_settings`, `send_settings`,
  `Settings::poll_send`, `recv_ping`, `send_pending_pong` do to the state, exactly.
-/
set_option autoImplicit false
set_option linter.unusedSimpArgs false
namespace H2V.Lemmas.ConnCtlP
open H2V H2V.Model H2V.Model.Conn

-- ===================================================================== the writer's limits survive a flush

theorem flush_limits (w : Writer) (io : Tio) (tag : String) :
    (flush w io tag).1.maxFrameSize = w.maxFrameSize ∧ (flush w io tag).1.hpack = w.hpack := by
  unfold flush
  dsimp only
  (repeat' split) <;> simp [Writer.unsetFrame] <;> (repeat' split) <;> simp

theorem pollReadyW_limits (w : Writer) (io : Tio) (tag : String) :
    (pollReadyW w io tag).1.maxFrameSize = w.maxFrameSize ∧ (pollReadyW w io tag).1.hpack = w.hpack := by
  unfold pollReadyW
  split
  · have := flush_limits w io tag
    rcases h : flush w io tag with ⟨w1, io1, r⟩
    rw [h] at this
    cases r <;> exact this
  · exact ⟨rfl, rfl⟩

theorem codecPollReady_limits (c : Conn) :
    c.codecPollReady.1.codec.w.maxFrameSize = c.codec.w.maxFrameSize ∧
    c.codecPollReady.1.codec.w.hpack = c.codec.w.hpack ∧ c.codecPollReady.1.codec.r = c.codec.r := by
  have := pollReadyW_limits c.codec.w c.codec.io c.cx
  unfold Conn.codecPollReady
  rcases h : pollReadyW c.codec.w c.codec.io c.cx with ⟨w1, io1, r⟩
  rw [h] at this
  exact ⟨this.1, this.2, rfl⟩

-- ===================================================================== receiving SETTINGS

/-- a received SETTINGS frame is only remembered: nothing is applied, nothing is written -/
theorem recvSettings_nonack (c : Conn) (vals : List (Nat × Nat)) (h : c.settings.remote = none) :
    c.recvSettings false vals = ({ c with settings := { c.settings with remote := some vals } }, .ok ()) := by
  simp [Conn.recvSettings, h]

/-- a SETTINGS ACK while no local SETTINGS is waiting for one: connection error PROTOCOL_ERROR,
    state untouched -/
theorem recvSettings_ack_unsolicited (c : Conn) (vals : List (Nat × Nat))
    (h : ∀ l, c.settings.loc ≠ .waitingAck l) :
    c.recvSettings true vals = (c, .error (PErr.libraryGoAway PROTOCOL_ERROR)) := by
  cases hl : c.settings.loc with
  | waitingAck l => exact absurd hl (h l)
  | toSend l => simp [Conn.recvSettings, hl]
  | synced => simp [Conn.recvSettings, hl]

/-- the local values looked up in a SETTINGS frame -/
def getS (vals : List (Nat × Nat)) (id : Nat) : Option Nat := (vals.find? (·.1 = id)).map (·.2)

/-- what the peer's ACK does to the reader: a copy of the three `let r := …` of `recvSettings` -/
def applyLocalToReader (r : CodecRead.Reader) (loc : List (Nat × Nat)) : CodecRead.Reader :=
  let get := fun (id : Nat) => (loc.find? (·.1 = id)).map (·.2)
  let r := match get 5 with | some m => r.setMaxFrameSize m | none => r
  let r := match get 6 with | some m => r.setMaxHeaderListSize m | none => r
  match get 1 with | some v => { r with hpack := r.hpack.queueSizeUpdate v } | none => r

theorem applyLocalToReader_spec (r : CodecRead.Reader) (loc : List (Nat × Nat)) :
    (applyLocalToReader r loc).maxFrameLen = (getS loc 5).getD r.maxFrameLen ∧
    (applyLocalToReader r loc).maxHeaderListSize = (getS loc 6).getD r.maxHeaderListSize ∧
    (applyLocalToReader r loc).buf = r.buf := by
  unfold applyLocalToReader getS
  dsimp only
  cases List.find? (fun x => decide (x.fst = 5)) loc <;> cases List.find? (fun x => decide (x.fst = 6)) loc <;>
    cases List.find? (fun x => decide (x.fst = 1)) loc <;>
    simp [CodecRead.Reader.setMaxFrameSize, CodecRead.Reader.setMaxHeaderListSize]

/-- the peer's ACK, literally -/
theorem recvSettings_ack_eq (c : Conn) (vals loc : List (Nat × Nat)) (h : c.settings.loc = .waitingAck loc) :
    c.recvSettings true vals =
      (let c1 : Conn := { c with codec := { c.codec with r := applyLocalToReader c.codec.r loc } }
       match c1.streams.applyLocalSettingsFrame loc with
       | (s, .error e) => ({ c1 with streams := s }, .error e)
       | (s, .ok _) => ({ c1 with streams := s, settings := { c1.settings with loc := .synced } }, .ok ())) := by
  unfold Conn.recvSettings
  simp only [if_true, h]
  rfl

/-- the peer's ACK: the local SETTINGS take effect now — reader limits, HPACK decoder table size,
    `apply_local_settings` on the streams — and the state goes back to `Synced` -/
theorem recvSettings_ack_applies (c : Conn) (vals loc : List (Nat × Nat)) (h : c.settings.loc = .waitingAck loc) :
    (c.recvSettings true vals).1.codec.r.maxFrameLen = (getS loc 5).getD c.codec.r.maxFrameLen ∧
    (c.recvSettings true vals).1.codec.r.maxHeaderListSize = (getS loc 6).getD c.codec.r.maxHeaderListSize ∧
    (c.recvSettings true vals).1.streams = (c.streams.applyLocalSettingsFrame loc).1 ∧
    (c.recvSettings true vals).1.codec.w = c.codec.w ∧
    ((c.recvSettings true vals).2 = .ok () → (c.recvSettings true vals).1.settings.loc = .synced) ∧
    (c.recvSettings true vals).1.settings.remote = c.settings.remote := by
  rw [recvSettings_ack_eq c vals loc h]
  obtain ⟨r1, r2, -⟩ := applyLocalToReader_spec c.codec.r loc
  dsimp only
  rcases hs : c.streams.applyLocalSettingsFrame loc with ⟨s, r⟩
  cases r with
  | error e => exact ⟨r1, r2, rfl, rfl, (fun hh => by cases hh), rfl⟩
  | ok u => exact ⟨r1, r2, rfl, rfl, fun _ => rfl, rfl⟩

-- ===================================================================== sending SETTINGS

/-- `send_settings` only remembers the frame: neither the streams nor the codec change -/
theorem sendSettings_defers (c : Conn) (vals : List (Nat × Nat)) :
    (c.sendSettings vals).1.streams = c.streams ∧ (c.sendSettings vals).1.codec = c.codec ∧
    (c.settings.loc = .synced → (c.sendSettings vals).1.settings.loc = .toSend vals ∧ (c.sendSettings vals).2 = .ok ()) ∧
    (c.settings.loc ≠ .synced → (c.sendSettings vals) = (c, .error .sendSettingsWhilePending)) := by
  unfold Conn.sendSettings
  cases h : c.settings.loc <;> simp

/-- writing the local SETTINGS frame does not apply it: streams and reader untouched, the state
    becomes `WaitingAck` with the values sent -/
theorem settingsLocalSend_defers (c : Conn) :
    (settingsLocalSend c).1.streams = c.streams ∧ (settingsLocalSend c).1.codec.r = c.codec.r ∧
    (∀ v, (settingsLocalSend c).1.settings.loc = .waitingAck v →
        c.settings.loc = .waitingAck v ∨ c.settings.loc = .toSend v) := by
  unfold settingsLocalSend
  cases hl : c.settings.loc with
  | toSend vals =>
    dsimp only
    rcases h : c.codecPollReady with ⟨c1, st⟩
    obtain ⟨h1, h2, h3, h4, h5, h6⟩ := codecPollReady_eq c c1 st h
    have hr : c1.codec.r = c.codec.r := by
      have := congrArg Prod.fst h; subst this; rfl
    cases st with
    | ok => simp [h4, hr, Conn.bufferSettings, Conn.bufferSimple]
    | pending => simp [h4, hr, h1, hl]
    | err e => simp [h4, hr, h1, hl]
  | waitingAck v => simp [hl]
  | synced => simp [hl]

-- ===================================================================== acknowledging SETTINGS

/-- the rendering of a SETTINGS ACK frame in the abstract writer -/
theorem renderSettings_ack : Conn.renderSettings true [] = "S:0:1:-" := by decide

/-- **the ACK and the application of the peer's values are one step**: `ackAndApply` (the branch of
    `Settings::poll_send` taken when the codec has room) appends exactly one frame — the 9-octet
    SETTINGS ACK — to the write buffer, and the streams it leaves behind are exactly
    `apply_remote_settings(values)` of the streams it found; on success the writer's max frame size
    and HPACK table size are the frame's -/
theorem ackAndApply_spec (c : Conn) (vals : List (Nat × Nat)) :
    (ackAndApply c vals).1.codec.w.buf = c.codec.w.buf ++ [{ bytes := 9, done := some "S:0:1:-" }] ∧
    (ackAndApply c vals).1.streams =
      (c.streams.applyRemoteSettings vals (!c.settings.hasReceivedRemoteInitialSettings)).1 ∧
    (ackAndApply c vals).1.settings.hasReceivedRemoteInitialSettings = true ∧
    ((ackAndApply c vals).2 = .ok →
      (ackAndApply c vals).1.codec.w.maxFrameSize = (getS vals 5).getD c.codec.w.maxFrameSize ∧
      (ackAndApply c vals).1.codec.w.hpack =
        (match getS vals 1 with | some v => c.codec.w.hpack.updateMaxSize v | none => c.codec.w.hpack)) ∧
    (stepOk (ackAndApply c vals).2 = true ↔
      ∃ u, (c.streams.applyRemoteSettings vals (!c.settings.hasReceivedRemoteInitialSettings)).2 = .ok u) := by
  have hbuf : (c.bufferSettings true []).codec.w.buf = c.codec.w.buf ++ [{ bytes := 9, done := some "S:0:1:-" }] := by
    simp [Conn.bufferSettings, Conn.bufferSimple, Writer.bufferSimple, Writer.put, renderSettings_ack,
      Frame.settingsOrder, Generated.Consts.HEADER_LEN]
  unfold ackAndApply
  dsimp only
  rcases h : Streams.applyRemoteSettings (c.bufferSettings true []).streams vals
      (!(c.bufferSettings true []).settings.hasReceivedRemoteInitialSettings) with ⟨s, r⟩
  have h' : c.streams.applyRemoteSettings vals (!c.settings.hasReceivedRemoteInitialSettings) = (s, r) := h
  rw [h']
  cases r with
  | error e =>
    dsimp only
    refine ⟨hbuf, rfl, rfl, ?_, ?_⟩
    · intro hh; cases hh
    · simp [stepOk]
  | ok u =>
    dsimp only
    refine ⟨?_, rfl, rfl, ?_, ?_⟩
    rotate_left
    · intro _; refine ⟨?_, ?_⟩
      · cases h5 : (List.find? (fun x => decide (x.fst = 5)) vals) <;>
          cases h1 : (List.find? (fun x => decide (x.fst = 1)) vals) <;>
          simp [h5, h1, getS, Conn.bufferSettings, Conn.bufferSimple, Writer.bufferSimple, Writer.put]
      · cases h5 : (List.find? (fun x => decide (x.fst = 5)) vals) <;>
          cases h1 : (List.find? (fun x => decide (x.fst = 1)) vals) <;>
          simp [h5, h1, getS, Conn.bufferSettings, Conn.bufferSimple, Writer.bufferSimple, Writer.put]
    · simp [stepOk]
    · cases h5 : (List.find? (fun x => decide (x.fst = 5)) vals) <;>
        cases h1 : (List.find? (fun x => decide (x.fst = 1)) vals) <;> simp [h5, h1, hbuf]

/-- until the ACK is buffered nothing of a received SETTINGS is applied: while the codec is not
    ready, `Settings::poll_send` changes neither the streams nor the writer's limits, and the frame
    stays in `remote` -/
theorem settingsRemotePart_backpressure (c : Conn) (vals : List (Nat × Nat)) (hr : c.settings.remote = some vals)
    (hb : stepOk c.codecPollReady.2 = false) :
    (settingsRemotePart c).1.streams = c.streams ∧ (settingsRemotePart c).1.settings = c.settings ∧
    (settingsRemotePart c).1.codec.w.maxFrameSize = c.codec.w.maxFrameSize ∧
    stepOk (settingsRemotePart c).2 = false := by
  unfold settingsRemotePart
  rw [hr]
  dsimp only
  rcases h : c.codecPollReady with ⟨c1, st⟩
  obtain ⟨h1, h2, h3, h4, h5, h6⟩ := codecPollReady_eq c c1 st h
  rw [h] at hb
  have hm : c1.codec.w.maxFrameSize = c.codec.w.maxFrameSize := by
    have := congrArg Prod.fst h; subst this
    exact (codecPollReady_limits c).1
  cases st with
  | ok => simp [stepOk] at hb
  | pending => exact ⟨h4, h1, hm, rfl⟩
  | err e => exact ⟨h4, h1, hm, rfl⟩

end H2V.Lemmas.ConnCtlP
