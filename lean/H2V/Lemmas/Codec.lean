import H2V.Lemmas.CodecBytes
import H2V.Lemmas.CodecEncode
import H2V.Lemmas.CodecSplit
import H2V.Lemmas.CodecLoad
import H2V.Lemmas.CodecLoadHeaders
import H2V.Lemmas.CodecReader
import H2V.Lemmas.CodecWriter
import H2V.Lemmas.CodecDecode
import H2V.Lemmas.CodecRoundTrip
import H2V.Lemmas.CodecWire
import H2V.Lemmas.CodecShutdown
/-
  C09 / C12 — frame codec (namespace `H2V.Lemmas.Codec`).

  A. serialise → reference parser round trip          CodecBytes, CodecEncode, CodecSplit
     `be32_rd32 be24_rd24 be16_rd16 be32_u32 be24_u24 be16_u16 be32_u31`, `parse_head_encode`,
     `parse_encode_{data,settings,settings_ack,ping,goaway,window_update,reset}`,
     `frames_splitBlock`, `parse_split_block_{headers,push_promise,continuation}`,
     `splitBlock_within_max_frame_size`
  B. loaders against RFC 9113 §6                        CodecLoad
     `load{Data,Ping,WindowUpdate,Settings}_{sound,complete,error}` (exact agreement),
     `loadReset_*` + `loadReset_stream_zero`, `loadGoAway_*` + `loadGoAway_nonzero_stream`,
     `loadPriority_*` + `loadPriority_self_dependency`
     header frames (CodecLoadHeaders): `loadHeadersHead_{sound,complete}`,
     `loadPushPromiseHead_{sound,complete,error}` (exact since the `< 5` fix),
     summaries `loadPushPromiseHead_exact`, `loadHeadersHead_exact_except_self_dependency`
  C. reader chunk invariance                            CodecReader
     `drain_fuel`, `drain_app`, `feed_append`, `feed_chunks`, `feed_chunks_state`,
     `rx_oversize_rejected`, `rx_oversize_rejected_early`
  D. writer exactness                                   CodecWriter
     `flush_exact`, `flush_prefix`, `buffer_appends`, `buffer_refused`, `writer_bytes_exact`,
     `writer_bytes_prefix`, `writer_bytes_all`, `tx_data_too_big`, `tx_data_within_max_frame_size`,
     `tx_headers_within_max_frame_size`
  B'. `decode_frame` level                              CodecDecode
     `decodeFrame_sound`, `decodeFrame_sound_parse`
  A+B. h2 reads what h2 writes                          CodecRoundTrip, CodecWire
     `roundtrip_{data,ping,goaway,window_update,reset,settings,settings_ack}`, `lastWins_settingsOrder`,
     `feed_one_frame`, `feed_wire`, `feed_wire_chunks`, `frameBytes_*`
-/
