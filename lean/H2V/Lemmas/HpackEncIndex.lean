import H2V.Model.HpackEnc
import H2V.Spec.Hpack
import H2V.Props.C10Tables
import H2V.Lemmas.HpackEncTable
/-
  C10, part 3 — `Table::index`: the index it hands to `encode_header` denotes, in the table as it
  is *before* the insertion, an entry with the field's name (and value for `Indexed`), in the
  RFC 7541 §2.3.3 address space (`Spec.Hpack.lookup`).
-/
namespace H2V.Lemmas.HpackEnc
open H2V H2V.Model.Hpack H2V.Spec.Hpack

/-! finite facts about generated data, re-checked by the kernel on every run -/
theorem staticTable_length : Spec.Rfc7541.staticTable.length = 61 := by decide +kernel
theorem dyn_offset : Generated.Consts.TABLE_DYN_OFFSET = 62 := by decide +kernel

/-! ### the static part (`index_static`) -/

theorem indexStatic_go_sound (h : Header) :
    ∀ (rs : List (List Nat × Option (List Nat) × Nat × Bool)),
      rs.all Props.C10.ruleSound = true → ∀ n b, indexStatic.go h rs = some (n, b) →
      1 ≤ n ∧ ∃ v, Spec.Rfc7541.staticTable[n - 1]? = some (h.1, v) ∧ (b = true → v = h.2) := by
  intro rs
  induction rs with
  | nil => intro _ n b hgo; cases hgo
  | cons r rest ih =>
    intro hall n b hgo
    obtain ⟨rn, pat, idx, rb⟩ := r
    simp only [List.all_cons, Bool.and_eq_true] at hall
    simp only [indexStatic.go] at hgo
    have hm : ∀ (c : Bool), (if c = true then some (idx, rb) else indexStatic.go h rest) = some (n, b) →
        (c = true ∧ idx = n ∧ rb = b) ∨ indexStatic.go h rest = some (n, b) := by
      intro c hc
      cases c with
      | true => simp only [if_true, Option.some.injEq, Prod.mk.injEq] at hc; exact Or.inl ⟨rfl, hc⟩
      | false => exact Or.inr (by simpa using hc)
    rcases hm _ hgo with ⟨hcond, rfl, rfl⟩ | hgo'
    · simp only [Bool.and_eq_true, beq_iff_eq] at hcond
      obtain ⟨hname, hpat⟩ := hcond
      have hr := hall.1
      unfold Props.C10.ruleSound at hr
      simp only at hr
      split at hr
      · rename_i sn sv hs
        simp only [Bool.and_eq_true, decide_eq_true_eq, beq_iff_eq] at hr
        obtain ⟨⟨h1, h2⟩, h3⟩ := hr
        refine ⟨h1, sv, ?_, ?_⟩
        · rw [hs, h2, hname]
        · intro hb
          rw [if_pos hb] at h3
          simp only [beq_iff_eq] at h3
          subst h3
          simpa using hpat
      · cases hr
    · exact ih hall.2 n b hgo'

theorem indexStatic_sound (h : Header) (n : Nat) (b : Bool) (hs : indexStatic h = some (n, b)) :
    1 ≤ n ∧ ∃ v, Spec.Rfc7541.staticTable[n - 1]? = some (h.1, v) ∧ (b = true → v = h.2) :=
  indexStatic_go_sound h _ Props.C10.index_static_sound n b hs

/-- a static match is an RFC 7541 Appendix A entry with the field's name (and value, when the
    rule says so) -/
theorem static_lookup (st : St) (h : Header) (n : Nat) (b : Bool)
    (hs : indexStatic h = some (n, b)) :
    ∃ v, lookup st n = some (h.1, v) ∧ (b = true → v = h.2) := by
  obtain ⟨h1, v, hv, hb⟩ := indexStatic_sound h n b hs
  refine ⟨v, ?_, hb⟩
  have hlt : n - 1 < Spec.Rfc7541.staticTable.length := by
    have := List.getElem?_eq_some_iff.1 hv
    exact this.1
  rw [staticTable_length] at hlt
  unfold lookup
  rw [if_neg (by omega), if_pos (by omega)]
  exact hv

/-! ### the dynamic part (the same-name chain) -/

theorem mem_sameName (entries : List Header) (name : Bytes) (i : Nat) :
    i ∈ sameNameOldestFirst entries name ↔
      i < entries.length ∧ (entries.getD i ([], [])).1 = name := by
  simp [sameNameOldestFirst]

theorem dyn_lookup (st : St) (i : Nat) (hi : i < st.entries.length) :
    lookup st (i + Generated.Consts.TABLE_DYN_OFFSET) = some (st.entries.getD i ([], [])) := by
  rw [dyn_offset]
  unfold lookup
  rw [if_neg (by omega), if_neg (by omega)]
  have : i + 62 - 62 = i := by omega
  rw [this, List.getD_eq_getElem?_getD, List.getElem?_eq_getElem hi]
  rfl

/-- every index that `lookup` resolves is below `62 + length` -/
theorem lookup_bound (st : St) (i : Nat) (f : Spec.Hpack.Field) (h : lookup st i = some f) :
    1 ≤ i ∧ i < 62 + st.entries.length := by
  unfold lookup at h
  split at h
  · cases h
  · split at h
    · omega
    · have := (List.getElem?_eq_some_iff.1 h).1
      omega

/-- what an `Index` must denote in the decoder's table for `encode_header` to be right -/
def IndexDenotes (st : St) (h : Header) : Index → Prop
  | .indexed i => lookup st i = some h
  | .name i => ∃ f, lookup st i = some f ∧ f.1 = h.1
  | .insertedValue i => ∃ f, lookup st i = some f ∧ f.1 = h.1
  | .inserted => True
  | .notIndexed => True

/-- whether the index comes with an insertion -/
def _root_.H2V.Model.Hpack.Index.inserts : Index → Bool
  | .inserted => true
  | .insertedValue _ => true
  | _ => false

theorem ofStatic_denotes (st : St) (h : Header) (s : Option (Nat × Bool)) (hs : indexStatic h = s) :
    IndexDenotes st h (Index.ofStatic s) ∧ (Index.ofStatic s).inserts = false := by
  match s, hs with
  | none, _ => exact ⟨trivial, rfl⟩
  | some (n, true), hs =>
    obtain ⟨v, hv, hb⟩ := static_lookup st h n true hs
    refine ⟨?_, rfl⟩
    show lookup st n = some h
    rw [hv, hb rfl]
  | some (n, false), hs =>
    obtain ⟨v, hv, _⟩ := static_lookup st h n false hs
    exact ⟨⟨_, hv, rfl⟩, rfl⟩

/-- **`index_sound`**: the index chosen by `Table::index` is right for the table *before* the
    insertion; an insertion happens exactly for `Inserted` / `InsertedValue`, and only for a header
    within 3/4 of the table's maximum size. -/
theorem index_sound (e : Encoder) (st : St) (h : Header) (s : Bool) (hent : e.entries = st.entries) :
    IndexDenotes st h (e.index h s).2 ∧
    (if (e.index h s).2.inserts then
       (e.index h s).1 = e.insert h ∧ h.size * 4 ≤ e.maxSize * 3
     else (e.index h s).1 = e) := by
  unfold Encoder.index
  simp only
  split
  · -- skip_value_index
    obtain ⟨h1, h2⟩ := ofStatic_denotes st h (indexStatic h) rfl
    exact ⟨h1, by rw [h2]; simp⟩
  · split
    · -- full static match
      rename_i n hs
      obtain ⟨h1, h2⟩ := ofStatic_denotes st h (some (n, true)) hs
      exact ⟨h1, by simp [Index.inserts]⟩
    · split
      · -- the 3/4 rule
        obtain ⟨h1, h2⟩ := ofStatic_denotes st h (indexStatic h) rfl
        exact ⟨h1, by rw [h2]; simp⟩
      · rename_i hfit
        have hfit' : h.size * 4 ≤ e.maxSize * 3 := by omega
        split
        · -- vacant
          split
          · obtain ⟨h1, h2⟩ := ofStatic_denotes st h (indexStatic h) rfl
            exact ⟨h1, by rw [h2]; simp⟩
          · split
            · rename_i n b hs
              obtain ⟨v, hv, _⟩ := static_lookup st h n b hs
              exact ⟨⟨_, hv, rfl⟩, by simp [Index.inserts, hfit']⟩
            · exact ⟨trivial, by simp [Index.inserts, hfit']⟩
        · -- occupied
          rename_i hchain
          split
          · -- same name, same value
            rename_i i hfind
            have hmem := List.mem_of_find?_eq_some hfind
            have hval := List.find?_some hfind
            rw [mem_sameName] at hmem
            simp only [decide_eq_true_eq] at hval
            refine ⟨?_, by simp [Index.inserts]⟩
            show lookup st (i + Generated.Consts.TABLE_DYN_OFFSET) = some h
            rw [dyn_lookup st i (by rw [← hent]; exact hmem.1), ← hent]
            congr 1
            exact Prod.ext hmem.2 hval
          · -- same name, other value: the newest entry of the chain carries the name
            have hlast : ∃ j, (sameNameOldestFirst e.entries h.1).getLast? = some j := by
              cases hc : (sameNameOldestFirst e.entries h.1).getLast? with
              | none => exact absurd (List.getLast?_eq_none_iff.1 hc) hchain
              | some j => exact ⟨j, rfl⟩
            obtain ⟨j, hj⟩ := hlast
            have hmem := List.mem_of_getLast? hj
            rw [mem_sameName] at hmem
            have hlook : ∃ f, lookup st (j + Generated.Consts.TABLE_DYN_OFFSET) = some f ∧ f.1 = h.1 :=
              ⟨_, dyn_lookup st j (by rw [← hent]; exact hmem.1), by rw [← hent]; exact hmem.2⟩
            simp only [hj, Option.getD_some]
            split
            · exact ⟨hlook, by simp [Index.inserts]⟩
            · split
              · rename_i n b hs
                obtain ⟨v, hv, _⟩ := static_lookup st h n b hs
                exact ⟨⟨_, hv, rfl⟩, by simp [Index.inserts, hfit']⟩
              · exact ⟨hlook, by simp [Index.inserts, hfit']⟩

end H2V.Lemmas.HpackEnc
