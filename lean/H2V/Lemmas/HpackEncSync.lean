import H2V.Lemmas.HpackEncBlock
/-
  C10, part 5 — every history.  The encoder (`Encoder::update_max_size` / `Encoder::encode`) runs
  side by side with the reference monitor of `Spec.HpackSync`; a simulation invariant ties the
  encoder's pending size update (`SizeUpdate::One` / `Two`) to what the monitor remembers of the
  peer's settings (`allowed`, `lowest`).
-/
namespace H2V.Lemmas.HpackEnc
open H2V H2V.Model.Hpack H2V.Spec.Hpack H2V.Spec.HpackSync

/-! ### `encode_size_updates` -/

/-- the first size update `encode_size_updates` will write -/
def firstUpdate : Option SizeUpdate → Option Nat
  | none => none
  | some (.one v) => some v
  | some (.two mn _) => some mn

/-- the table's maximum size after `encode_size_updates` -/
def lastUpdate (cur : Nat) : Option SizeUpdate → Nat
  | none => cur
  | some (.one v) => v
  | some (.two _ mx) => mx

/-- the pending updates are within the decoder's limit (and are `usize`s) -/
def UpdOk (lim : Nat) : Option SizeUpdate → Prop
  | none => True
  | some (.one v) => v ≤ lim ∧ v < 2 ^ 63
  | some (.two mn mx) => mn ≤ lim ∧ mx ≤ lim ∧ mn < 2 ^ 63 ∧ mx < 2 ^ 63

theorem sizeUpdates_sim (e : Encoder) (st : St) (hsim : TableSim e st)
    (hupd : UpdOk st.limit e.sizeUpdate) :
    ∃ (st1 : St) (k : Nat), TableSim e.encodeSizeUpdates.1 st1 ∧
      st1.limit = st.limit ∧ st1.pendingLimit = st.pendingLimit ∧
      e.encodeSizeUpdates.1.sizeUpdate = none ∧
      e.encodeSizeUpdates.1.maxAllowed = e.maxAllowed ∧
      e.encodeSizeUpdates.1.maxSize = lastUpdate e.maxSize e.sizeUpdate ∧
      st1.maxSize = lastUpdate e.maxSize e.sizeUpdate ∧
      k ≤ e.encodeSizeUpdates.2.length ∧
      ∀ (fuel : Nat) (rest : Bytes) (acc : List Spec.Hpack.Field),
        block (fuel + k) st false (e.encodeSizeUpdates.2 ++ rest) acc = block fuel st1 false rest acc := by
  unfold Encoder.encodeSizeUpdates
  match hsu : e.sizeUpdate, hupd with
  | none, _ =>
    exact ⟨st, 0, hsim, rfl, rfl, hsu, rfl, rfl, hsim.maxSize.symm, Nat.le_refl _,
      fun fuel rest acc => by simp⟩
  | some (.one v), hupd =>
    obtain ⟨hv1, hv2⟩ := hupd
    have hsim0 : TableSim ({ e with sizeUpdate := none } : Encoder) st :=
      ⟨hsim.entries, hsim.maxSize, hsim.size, hsim.le⟩
    have hr := resize_spec ({ e with sizeUpdate := none } : Encoder) v hsim0.size
    have hs := resize_sim _ st v hsim0
    refine ⟨_, 1, hs, rfl, rfl, hr.2.2.2.2.2, hr.2.2.2.2.1, hr.2.2.2.1, rfl, ?_, ?_⟩
    · have := List.length_pos_iff.2 (encodeInt_ne_nil v 5 32); simp only; omega
    · intro fuel rest acc
      exact block_sizeUpdate fuel st v rest acc (by simp only [Nat.reducePow] at hv2 ⊢; omega) hv1
  | some (.two mn mx), hupd =>
    obtain ⟨h1, h2, h3, h4⟩ := hupd
    have hsim0 : TableSim ({ e with sizeUpdate := none } : Encoder) st :=
      ⟨hsim.entries, hsim.maxSize, hsim.size, hsim.le⟩
    have hr1 := resize_spec ({ e with sizeUpdate := none } : Encoder) mn hsim0.size
    have hs1 := resize_sim _ st mn hsim0
    have hr2 := resize_spec _ mx hs1.size
    have hs2 := resize_sim _ _ mx hs1
    refine ⟨_, 2, hs2, rfl, rfl, ?_, ?_, hr2.2.2.2.1, rfl, ?_, ?_⟩
    · rw [hr2.2.2.2.2.2]; exact hr1.2.2.2.2.2
    · rw [hr2.2.2.2.2.1]; exact hr1.2.2.2.2.1
    · have a := List.length_pos_iff.2 (encodeInt_ne_nil mn 5 32)
      have b := List.length_pos_iff.2 (encodeInt_ne_nil mx 5 32)
      simp only [List.length_append]; omega
    · intro fuel rest acc
      simp only [List.append_assoc]
      rw [show fuel + 2 = (fuel + 1) + 1 from rfl]
      rw [block_sizeUpdate (fuel + 1) st mn _ acc (by simp only [Nat.reducePow] at h3 ⊢; omega) h1]
      exact block_sizeUpdate fuel { st with maxSize := mn, entries := evict st.entries mn } mx rest acc
        (by simp only [Nat.reducePow] at h4 ⊢; omega) h2

/-- the emitted bytes extend the accumulator -/
theorem encodeFields_prefix : ∀ (fs : List Model.Hpack.Field) (e : Encoder)
    (last : Option (Index × Header)) (out : Bytes) (e' : Encoder) (b : Bytes),
    Encoder.encodeFields fs e last out = some (e', b) → ∃ t, b = out ++ t := by
  intro fs
  induction fs with
  | nil =>
    intro e last out e' b h
    simp only [Encoder.encodeFields, Option.some.injEq, Prod.mk.injEq] at h
    exact ⟨[], by simp [h.2]⟩
  | cons f rest ih =>
    intro e last out e' b h
    simp only [Encoder.encodeFields] at h
    split at h
    · split at h
      · cases h
      · split at h
        · obtain ⟨t, ht⟩ := ih _ _ _ _ _ h
          exact ⟨_, by rw [ht, List.append_assoc]⟩
        · obtain ⟨t, ht⟩ := ih _ _ _ _ _ h
          exact ⟨_, by rw [ht, List.append_assoc]⟩
    · obtain ⟨t, ht⟩ := ih _ _ _ _ _ h
      exact ⟨_, by rw [ht, List.append_assoc]⟩

theorem leading_encodeInt (v : Nat) (rest : Bytes) (hv : v < 2 ^ 64) :
    leadingSizeUpdate (encodeInt v 5 32 ++ rest) = some v := by
  obtain ⟨b, tl, hb, hb1, hb2⟩ := encodeInt_head v 5 32 (by decide)
  have hint := spec_int_roundtrip v 5 32 rest (by decide) (by decide) (by decide) (by decide) hv
  rw [hb] at hint ⊢
  simp only [List.cons_append] at hint ⊢
  unfold leadingSizeUpdate
  simp only [hint]
  rw [if_pos (by omega)]
  rfl

/-- a pending size update is the first thing of the next block -/
theorem leading_of_encode (e : Encoder) (fs : List Model.Hpack.Field) (e' : Encoder) (bytes : Bytes)
    (u : Nat) (hu : firstUpdate e.sizeUpdate = some u) (hlt : u < 2 ^ 64)
    (henc : e.encode fs = some (e', bytes)) : leadingSizeUpdate bytes = some u := by
  unfold Encoder.encode at henc
  simp only at henc
  obtain ⟨t, ht⟩ := encodeFields_prefix _ _ _ _ _ _ henc
  rw [ht]
  unfold Encoder.encodeSizeUpdates
  match hsu : e.sizeUpdate, hu with
  | some (.one v), hu =>
    simp only [firstUpdate, Option.some.injEq] at hu
    subst hu
    exact leading_encodeInt _ _ hlt
  | some (.two mn mx), hu =>
    simp only [firstUpdate, Option.some.injEq] at hu
    subst hu
    simp only [List.append_assoc]
    exact leading_encodeInt _ _ hlt

/-! ### one block -/

/-- a block the encoder can be given -/
def BlockWF (fs : List Model.Hpack.Field) : Prop := (∀ f ∈ fs, FieldOk f) ∧ NamelessOk none fs

instance (fs : List Model.Hpack.Field) : Decidable (BlockWF fs) := by unfold BlockWF; infer_instance

/-- **one block**: no `panic!`; a conforming decoder whose table equals the encoder's reads back
    exactly the submitted fields, and the tables are equal again afterwards -/
theorem encode_sim (e : Encoder) (st : St) (fs : List Model.Hpack.Field)
    (hsim : TableSim e st) (hpl : st.pendingLimit = none)
    (hupd : UpdOk st.limit e.sizeUpdate) (hmax : lastUpdate e.maxSize e.sizeUpdate < 2 ^ 63)
    (hwf : BlockWF fs) :
    ∃ e' bytes st', e.encode fs = some (e', bytes) ∧
      decode st bytes = .ok (fs.map (·.h), st') ∧
      TableSim e' st' ∧ st'.limit = st.limit ∧ st'.pendingLimit = none ∧
      e'.sizeUpdate = none ∧ e'.maxAllowed = e.maxAllowed ∧
      e'.maxSize = lastUpdate e.maxSize e.sizeUpdate := by
  obtain ⟨st1, k, s1, s2, s3, s4, s5, s6, s7, s8, s9⟩ := sizeUpdates_sim e st hsim hupd
  obtain ⟨e', bytes, f1, f2, f3, f4, f5, f6⟩ :=
    fields_sim fs e.encodeSizeUpdates.1 st1 none none e.encodeSizeUpdates.2 s1
      (by rw [s6]; exact hmax) rfl hwf.2 hwf.1
  refine ⟨e', e.encodeSizeUpdates.2 ++ bytes, { st1 with entries := e'.entries }, ?_, ?_, f2, s2,
    by rw [← hpl, ← s3], by rw [f5, s4], by rw [f4, s5], by rw [f3, s6]⟩
  · unfold Encoder.encode
    exact f1
  · unfold decode
    simp only [hpl]
    have hfuel : (e.encodeSizeUpdates.2 ++ bytes).length + 1 =
        (e.encodeSizeUpdates.2.length - k + bytes.length + 1) + k := by
      simp only [List.length_append]; omega
    rw [hfuel, s9, f6 _ false [] (by omega)]
    simp

/-! ### the monitor accepts -/

theorem mon_block_ok (m : Mon) (fields : List Spec.Hpack.Field) (bytes : Bytes) (st' : St)
    (hsig : ∀ l, m.lowest = some l → m.st.maxSize > l →
      ∃ v, leadingSizeUpdate bytes = some v ∧ v ≤ l)
    (hdec : decode m.st bytes = .ok (fields, st'))
    (h1 : st'.maxSize ≤ m.allowed) (h2 : tableSize st'.entries ≤ st'.maxSize) :
    m.block fields bytes = .ok { m with st := st', lowest := none } := by
  unfold Mon.block
  simp only [hdec]
  cases hl : m.lowest with
  | none =>
    simp only [Bool.false_eq_true, if_false]
    rw [if_neg (by simp), if_neg (by simp), if_neg (by omega), if_neg (by omega)]
  | some l =>
    simp only
    by_cases hgt : m.st.maxSize > l
    · obtain ⟨v, hv, hvl⟩ := hsig l hl hgt
      simp only [hgt, hv, decide_true, if_true, hvl]
      rw [if_neg (by simp), if_neg (by simp), if_neg (by omega), if_neg (by omega)]
    · simp only [hgt, decide_false, Bool.false_eq_true, if_false]
      rw [if_neg (by simp), if_neg (by simp), if_neg (by omega), if_neg (by omega)]

/-! ### the simulation invariant -/

/-- how the pending size update describes what `allowed` / `lowest` did since the last block.
    `M` = the table's current maximum, `A` = the encoder's own cap (4096). -/
def UpdRel (M A allowed : Nat) (lowest : Option Nat) : Option SizeUpdate → Prop
  | none => M = min allowed A ∧ ∀ l, lowest = some l → M ≤ l
  | some (.one v) => v = min allowed A ∧ ∃ l, lowest = some l ∧ (v ≤ l ∨ M ≤ l)
  | some (.two mn mx) => mx = min allowed A ∧ mn ≤ mx ∧ ∃ l, lowest = some l ∧ (mn ≤ l ∨ M ≤ l)

structure Sync (e : Encoder) (m : Mon) : Prop where
  table : TableSim e m.st
  limit : m.st.limit = m.allowed
  pendingLimit : m.st.pendingLimit = none
  cap : e.maxAllowed = Generated.Consts.ENCODER_DEFAULT_MAX_ALLOWED_SIZE
  maxLe : e.maxSize ≤ e.maxAllowed
  upd : UpdRel e.maxSize e.maxAllowed m.allowed m.lowest e.sizeUpdate

theorem cap_small : Generated.Consts.ENCODER_DEFAULT_MAX_ALLOWED_SIZE < 2 ^ 63 := by decide +kernel
theorem cap_eq : Generated.Consts.ENCODER_DEFAULT_MAX_ALLOWED_SIZE = 4096 := by decide +kernel

theorem sync_init (n : Nat) :
    Sync (Encoder.new n) (Mon.init (min n Generated.Consts.ENCODER_DEFAULT_MAX_ALLOWED_SIZE)) := by
  refine ⟨⟨rfl, rfl, rfl, Nat.zero_le _⟩, rfl, rfl, rfl, ?_, ?_⟩
  · simp only [Encoder.new]; omega
  · simp only [Encoder.new, Mon.init, UpdRel]
    exact ⟨by omega, fun l h => by cases h⟩

/-- the `One` / `Two` bookkeeping of `update_max_size`, as a function of the pending update -/
theorem updateMaxSize_sizeUpdate (e : Encoder) (v : Nat) :
    (e.updateMaxSize v).sizeUpdate =
      match e.sizeUpdate with
      | some (.one old) =>
        if min v e.maxAllowed > old then
          if old > e.maxSize then some (.one (min v e.maxAllowed))
          else some (.two old (min v e.maxAllowed))
        else some (.one (min v e.maxAllowed))
      | some (.two mn _) =>
        if min v e.maxAllowed < mn then some (.one (min v e.maxAllowed))
        else some (.two mn (min v e.maxAllowed))
      | none => if min v e.maxAllowed ≠ e.maxSize then some (.one (min v e.maxAllowed)) else none := by
  unfold Encoder.updateMaxSize
  simp only
  cases hsu : e.sizeUpdate with
  | none =>
    simp only
    by_cases h : min v e.maxAllowed ≠ e.maxSize
    · simp only [if_pos h]
    · simp only [if_neg h]; exact hsu
  | some u =>
    cases u with
    | one old =>
      simp only
      by_cases h1 : min v e.maxAllowed > old
      · simp only [if_pos h1]
        by_cases h2 : old > e.maxSize
        · simp only [if_pos h2]
        · simp only [if_neg h2]
      · simp only [if_neg h1]
    | two mn mx =>
      simp only
      by_cases h1 : min v e.maxAllowed < mn
      · simp only [if_pos h1]
      · simp only [if_neg h1]

theorem updateMaxSize_rest (e : Encoder) (v : Nat) :
    (e.updateMaxSize v).entries = e.entries ∧ (e.updateMaxSize v).size = e.size ∧
    (e.updateMaxSize v).maxSize = e.maxSize ∧ (e.updateMaxSize v).maxAllowed = e.maxAllowed := by
  unfold Encoder.updateMaxSize
  simp only
  split
  · split
    · split <;> exact ⟨rfl, rfl, rfl, rfl⟩
    · exact ⟨rfl, rfl, rfl, rfl⟩
  · split <;> exact ⟨rfl, rfl, rfl, rfl⟩
  · split <;> exact ⟨rfl, rfl, rfl, rfl⟩

theorem sync_setMax (e : Encoder) (m : Mon) (v : Nat) (h : Sync e m) :
    Sync (e.updateMaxSize v) (m.setAllowed v) := by
  obtain ⟨htab, hlim, hpl, hcap, hle, hupd⟩ := h
  obtain ⟨k1, k2, k3, k4⟩ := updateMaxSize_rest e v
  refine ⟨⟨by rw [k1]; exact htab.entries, by rw [k3]; exact htab.maxSize, by rw [k2, k1]; exact htab.size,
    by rw [k2, k3]; exact htab.le⟩, rfl, hpl, by rw [k4]; exact hcap, by rw [k3, k4]; exact hle, ?_⟩
  rw [k3, k4, updateMaxSize_sizeUpdate]
  simp only [Mon.setAllowed]
  match hsu : e.sizeUpdate, hupd with
  | none, hupd =>
    obtain ⟨u1, u2⟩ := hupd
    simp only
    have hlow : ∀ l, m.lowest = some l → e.maxSize ≤ l := u2
    by_cases hne : min v e.maxAllowed ≠ e.maxSize
    · rw [if_pos hne]
      refine ⟨rfl, _, rfl, ?_⟩
      cases hl : m.lowest with
      | none => simp only; omega
      | some l => have := u2 l hl; simp only; omega
    · rw [if_neg hne]
      refine ⟨by omega, ?_⟩
      intro l hl'
      simp only [Option.some.injEq] at hl'
      subst hl'
      cases hl : m.lowest with
      | none => simp only; omega
      | some l => have := u2 l hl; simp only; omega
  | some (.one old), hupd =>
    obtain ⟨u1, l, u2, u3⟩ := hupd
    simp only [u2]
    by_cases h1 : min v e.maxAllowed > old
    · rw [if_pos h1]
      by_cases h2 : old > e.maxSize
      · rw [if_pos h2]; exact ⟨rfl, _, rfl, by omega⟩
      · rw [if_neg h2]; exact ⟨rfl, by omega, _, rfl, by omega⟩
    · rw [if_neg h1]; exact ⟨rfl, _, rfl, by omega⟩
  | some (.two mn mx), hupd =>
    obtain ⟨u1, u0, l, u2, u3⟩ := hupd
    simp only [u2]
    by_cases h1 : min v e.maxAllowed < mn
    · rw [if_pos h1]; exact ⟨rfl, _, rfl, by omega⟩
    · rw [if_neg h1]; exact ⟨rfl, by omega, _, rfl, by omega⟩

theorem sync_block (e : Encoder) (m : Mon) (fs : List Model.Hpack.Field) (h : Sync e m)
    (hwf : BlockWF fs) :
    ∃ e' bytes m', e.encode fs = some (e', bytes) ∧ m.block (fs.map (·.h)) bytes = .ok m' ∧
      Sync e' m' ∧ e'.sizeUpdate = none ∧ m'.allowed = m.allowed := by
  obtain ⟨htab, hlim, hpl, hcap, hle, hupd⟩ := h
  have hA := cap_small
  rw [← hcap] at hA
  -- the pending updates respect the decoder's limit
  have hok : UpdOk m.st.limit e.sizeUpdate ∧ lastUpdate e.maxSize e.sizeUpdate < 2 ^ 63 ∧
      lastUpdate e.maxSize e.sizeUpdate = min m.allowed e.maxAllowed := by
    rw [hlim]
    match hsu : e.sizeUpdate, hupd with
    | none, hupd => exact ⟨trivial, by simp only [lastUpdate]; omega, hupd.1⟩
    | some (.one v), hupd =>
      obtain ⟨u1, _⟩ := hupd
      exact ⟨⟨by omega, by omega⟩, by simp only [lastUpdate]; omega, u1⟩
    | some (.two mn mx), hupd =>
      obtain ⟨u1, u0, _⟩ := hupd
      exact ⟨⟨by omega, by omega, by omega, by omega⟩, by simp only [lastUpdate]; omega, u1⟩
  obtain ⟨hok1, hok2, hok3⟩ := hok
  obtain ⟨e', bytes, st', c1, c2, c3, c4, c5, c6, c7, c8⟩ :=
    encode_sim e m.st fs htab hpl hok1 hok2 hwf
  have hm : m.block (fs.map (·.h)) bytes = .ok { m with st := st', lowest := none } := by
    apply mon_block_ok m _ bytes st' ?_ c2
    · rw [← c3.maxSize, c8, hok3]; omega
    · rw [← c3.entries, ← c3.size, ← c3.maxSize]; exact c3.le
    · -- a reduction is signalled first
      intro l hl hgt
      rw [← htab.maxSize] at hgt
      match hsu : e.sizeUpdate, hupd with
      | none, hupd => have := hupd.2 l hl; omega
      | some (.one v), hupd =>
        obtain ⟨u1, l', u2, u3⟩ := hupd
        rw [hl] at u2; cases u2
        exact ⟨v, leading_of_encode e fs e' bytes v (by rw [hsu]; rfl)
          (by simp only [Nat.reducePow] at hA ⊢; omega) c1, by omega⟩
      | some (.two mn mx), hupd =>
        obtain ⟨u1, u0, l', u2, u3⟩ := hupd
        rw [hl] at u2; cases u2
        exact ⟨mn, leading_of_encode e fs e' bytes mn (by rw [hsu]; rfl)
          (by simp only [Nat.reducePow] at hA ⊢; omega) c1, by omega⟩
  refine ⟨e', bytes, _, c1, hm, ⟨c3, by rw [c4]; exact hlim, c5, by rw [c7]; exact hcap,
    by rw [c8, c7, hok3]; omega, ?_⟩, c6, rfl⟩
  rw [c6, c7, c8, hok3]
  exact ⟨rfl, fun l hl => by cases hl⟩

/-! ### every history -/

inductive Op where
  | setMax (v : Nat)
  | block (fs : List Model.Hpack.Field)
  deriving Repr, DecidableEq

/-- the peer's SETTINGS_HEADER_TABLE_SIZE is unconstrained; a block is as `BlockWF` says -/
def OpWF : Op → Prop
  | .setMax _ => True
  | .block fs => BlockWF fs

instance (op : Op) : Decidable (OpWF op) := by cases op <;> unfold OpWF <;> infer_instance

def WF (ops : List Op) : Prop := ∀ op ∈ ops, OpWF op

instance (ops : List Op) : Decidable (WF ops) := by unfold WF; infer_instance

/-- one operation on the encoder and the reference monitor; `none` = the encoder panicked or the
    monitor rejected the block -/
def step (e : Encoder) (m : Mon) : Op → Option (Encoder × Mon)
  | .setMax v => some (e.updateMaxSize v, m.setAllowed v)
  | .block fs =>
    match e.encode fs with
    | none => none
    | some (e', bytes) =>
      match m.block (fs.map (·.h)) bytes with
      | .ok m' => some (e', m')
      | .error _ => none

def run : Encoder → Mon → List Op → Option (Encoder × Mon)
  | e, m, [] => some (e, m)
  | e, m, op :: ops =>
    match step e m op with
    | some (e', m') => run e' m' ops
    | none => none

/-- every block of the history is encoded without a `panic!` and accepted by the monitor -/
def runOk (e : Encoder) (m : Mon) (ops : List Op) : Prop := (run e m ops).isSome = true

/-! `runOk` unfolded, to read the main statement against -/

theorem runOk_nil (e : Encoder) (m : Mon) : runOk e m [] := rfl

theorem runOk_setMax (e : Encoder) (m : Mon) (v : Nat) (ops : List Op) :
    runOk e m (.setMax v :: ops) ↔ runOk (e.updateMaxSize v) (m.setAllowed v) ops := by
  simp only [runOk, run, step]

theorem runOk_block (e : Encoder) (m : Mon) (fs : List Model.Hpack.Field) (ops : List Op) :
    runOk e m (.block fs :: ops) ↔
      ∃ e' bytes m', e.encode fs = some (e', bytes) ∧ m.block (fs.map (·.h)) bytes = .ok m' ∧
        runOk e' m' ops := by
  constructor
  · intro h
    cases he : e.encode fs with
    | none => simp [runOk, run, step, he] at h
    | some p =>
      obtain ⟨e', bytes⟩ := p
      cases hm : m.block (fs.map (·.h)) bytes with
      | error err => simp [runOk, run, step, he, hm] at h
      | ok m' => exact ⟨e', bytes, m', rfl, hm, by simpa [runOk, run, step, he, hm] using h⟩
  · rintro ⟨e', bytes, m', he, hm, h⟩
    simpa [runOk, run, step, he, hm] using h

theorem step_sync (e : Encoder) (m : Mon) (op : Op) (h : Sync e m) (hwf : OpWF op) :
    ∃ e' m', step e m op = some (e', m') ∧ Sync e' m' := by
  cases op with
  | setMax v => exact ⟨_, _, rfl, sync_setMax e m v h⟩
  | block fs =>
    obtain ⟨e', bytes, m', h1, h2, h3, _⟩ := sync_block e m fs h hwf
    exact ⟨e', m', by simp only [step, h1, h2], h3⟩

theorem run_sync : ∀ (ops : List Op) (e : Encoder) (m : Mon), Sync e m → WF ops →
    ∃ e' m', run e m ops = some (e', m') ∧ Sync e' m' := by
  intro ops
  induction ops with
  | nil => intro e m h _; exact ⟨e, m, rfl, h⟩
  | cons op ops ih =>
    intro e m h hwf
    obtain ⟨e1, m1, hs, h1⟩ := step_sync e m op h (hwf op (List.mem_cons_self ..))
    obtain ⟨e2, m2, hr, h2⟩ := ih e1 m1 h1 (fun o ho => hwf o (List.mem_cons_of_mem _ ho))
    exact ⟨e2, m2, by simp only [run, hs, hr], h2⟩

/-- **C10, round trip for every history** (stated with the encoder's own cap) -/
theorem roundtrip_history' (n : Nat) (ops : List Op) (hwf : WF ops) :
    runOk (Encoder.new n) (Mon.init (min n Generated.Consts.ENCODER_DEFAULT_MAX_ALLOWED_SIZE)) ops := by
  obtain ⟨e', m', hr, _⟩ := run_sync ops _ _ (sync_init n) hwf
  simp [runOk, hr]

/-- **C10, round trip for every history**: from `Encoder::new(n)` against a decoder that starts
    with `min n 4096`, whatever the peer does with SETTINGS_HEADER_TABLE_SIZE and whatever
    (well-formed) blocks are submitted, `encode` never panics and every block is accepted by the
    reference monitor: a conforming decoder reads back exactly the submitted fields in order, the
    table stays within what the peer allows, and a reduction is signalled at the start of the block. -/
theorem roundtrip_history (n : Nat) (ops : List Op) (hwf : WF ops) :
    runOk (Encoder.new n) (Mon.init (min n 4096)) ops := by
  have := roundtrip_history' n ops hwf
  rw [cap_eq] at this
  exact this

/-- the invariant holds in every reachable state -/
theorem reachable_sync (n : Nat) (ops : List Op) (hwf : WF ops) (e : Encoder) (m : Mon)
    (hrun : run (Encoder.new n) (Mon.init (min n 4096)) ops = some (e, m)) : Sync e m := by
  have h0 := sync_init n
  rw [cap_eq] at h0
  obtain ⟨e', m', hr, hs⟩ := run_sync ops _ _ h0 hwf
  rw [hr] at hrun
  cases hrun
  exact hs

/-- **`table_bounded`**: in every reachable state the encoder's table size is exact and within
    its maximum, and the maximum is at most 4096 -/
theorem table_bounded (n : Nat) (ops : List Op) (hwf : WF ops) (e : Encoder) (m : Mon)
    (hrun : run (Encoder.new n) (Mon.init (min n 4096)) ops = some (e, m)) :
    e.size = tableSize e.entries ∧ e.size ≤ e.maxSize ∧ e.maxSize ≤ 4096 := by
  have hs := reachable_sync n ops hwf e m hrun
  have := hs.maxLe
  rw [hs.cap, cap_eq] at this
  exact ⟨hs.table.size, hs.table.le, this⟩

/-- **`table_bounded`, at a block end**: the maximum is `min (what the peer allows) 4096` -/
theorem table_bounded_block_end (n : Nat) (ops : List Op) (fs : List Model.Hpack.Field)
    (hwf : WF (ops ++ [.block fs])) (e : Encoder) (m : Mon)
    (hrun : run (Encoder.new n) (Mon.init (min n 4096)) (ops ++ [.block fs]) = some (e, m)) :
    e.size ≤ e.maxSize ∧ e.maxSize = min m.allowed 4096 ∧ e.sizeUpdate = none := by
  have h0 := sync_init n
  rw [cap_eq] at h0
  have hwf1 : WF ops := fun o ho => hwf o (List.mem_append_left _ ho)
  have hwf2 : BlockWF fs := hwf (.block fs) (by simp)
  -- split the run
  have hsplit : ∀ (ops : List Op) (e0 : Encoder) (m0 : Mon),
      run e0 m0 (ops ++ [.block fs]) =
        match run e0 m0 ops with
        | some (e1, m1) => step e1 m1 (.block fs)
        | none => none := by
    intro ops
    induction ops with
    | nil =>
      intro e0 m0
      simp only [List.nil_append, run]
      cases step e0 m0 (.block fs) with
      | none => rfl
      | some p => rfl
    | cons o os ih =>
      intro e0 m0
      simp only [List.cons_append, run]
      cases step e0 m0 o with
      | none => rfl
      | some p => exact ih p.1 p.2
  obtain ⟨e1, m1, hr1, hs1⟩ := run_sync ops _ _ h0 hwf1
  rw [hsplit, hr1] at hrun
  obtain ⟨e', bytes, m', b1, b2, b3, b4, b5⟩ := sync_block e1 m1 fs hs1 hwf2
  simp only [step, b1, b2, Option.some.injEq, Prod.mk.injEq] at hrun
  obtain ⟨rfl, rfl⟩ := hrun
  have hu := b3.upd
  rw [b4] at hu
  have := hu.1
  rw [b3.cap, cap_eq] at this
  exact ⟨b3.table.le, this, b4⟩

/-- **`reduction_signalled_first`**: in a reachable state (any `Sync` state), once the peer lowers
    the table size below the current maximum, the next block starts with a size update that is at
    most the new value (the `One` / `Two` logic emits the minimum first) -/
theorem reduction_signalled_first (e : Encoder) (m : Mon) (v : Nat) (fs : List Model.Hpack.Field)
    (hs : Sync e m) (hv : v < e.maxSize) (e' : Encoder) (bytes : Bytes)
    (henc : (e.updateMaxSize v).encode fs = some (e', bytes)) :
    ∃ u, leadingSizeUpdate bytes = some u ∧ u ≤ v := by
  obtain ⟨htab, hlim, hpl, hcap, hle, hupd⟩ := hs
  have hA := cap_small
  rw [← hcap] at hA
  have hfirst : ∃ u, firstUpdate (e.updateMaxSize v).sizeUpdate = some u ∧ u ≤ v := by
    unfold Encoder.updateMaxSize
    simp only
    match hsu : e.sizeUpdate, hupd with
    | none, hupd =>
      simp only
      rw [if_pos (by omega)]
      exact ⟨_, rfl, by omega⟩
    | some (.one old), hupd =>
      simp only
      split
      · split
        · omega
        · exact ⟨_, rfl, by omega⟩
      · exact ⟨_, rfl, by omega⟩
    | some (.two mn mx), hupd =>
      simp only
      split
      · exact ⟨_, rfl, by omega⟩
      · exact ⟨_, rfl, by omega⟩
  obtain ⟨u, hu1, hu2⟩ := hfirst
  exact ⟨u, leading_of_encode _ fs e' bytes u hu1 (by simp only [Nat.reducePow] at hA ⊢; omega) henc,
    hu2⟩

end H2V.Lemmas.HpackEnc
