import H2V.Lemmas.ConnNoPanicPPollAcct
/-
  C08 (no panic) — part 13: `pop_frame` keeps `DSum`, and the DATA frame it hands out is covered:
  if a remainder stays with the codec (`frame.rest > 0`) the stream is still in the slab and
  `rest + Σ queued DATA ≤ buffered_send_data` (`HeldOK`) — what `reclaim_frame` needs.
-/
namespace H2V.Lemmas.ConnNoPanicP
open H2V H2V.Model H2V.Model.Conn H2V.Lemmas.ConnCountsP
attribute [local irreducible] wrapSubU32 wrapSubUsize

theorem wrapSubUsize_of_le {a b : Nat} (h : b ≤ a) (ha : a < USIZE_MOD) : wrapSubUsize a b = a - b := by
  unfold wrapSubUsize USIZE_MOD at *; omega

/-- the remainder of a DATA frame the codec holds is accounted for by its (live) stream -/
def HeldOK (s : Streams) (fr : DataFrame) : Prop :=
  fr.rest > 0 → Live s fr.key ∧ fr.rest + dsum (s.stream fr.key).pendingSend ≤ (s.stream fr.key).bufferedSendData ∧
    (s.stream fr.key).bufferedSendData < USIZE_MOD

theorem stream_of_store_eqP {s t : Streams} (h : t.store = s.store) (j : Nat) : t.stream j = s.stream j := by
  unfold Streams.stream; rw [h]

/-- the entry after the chunk is cut -/
theorem emitC_ds {sd : Stream → Nat → Nat → Stream × List String × Bool} (hsd : SdNP sd) {s : Streams}
    {id len sz : Nat} {eos : Bool} {rest : List SFrame} (hl : Live s id)
    (hps : (s.stream id).pendingSend = .data sz eos :: rest) (hds : DSum s) (hlen : len ≤ sz) :
    DSum (ConnFlowP.emitC sd s id len rest) ∧
    ((ConnFlowP.emitC sd s id len rest).stream id).pendingSend = rest ∧
    ((ConnFlowP.emitC sd s id len rest).stream id).bufferedSendData = (s.stream id).bufferedSendData - len ∧
    sz + dsum rest ≤ (s.stream id).bufferedSendData ∧ (s.stream id).bufferedSendData < USIZE_MOD := by
  have hd := hds id
  unfold DS at hd
  rw [hps] at hd
  simp only [dsum] at hd
  have hget1 : (s.modStream id fun st => { st with pendingSend := rest }).store.get? id =
      some { s.stream id with pendingSend := rest } := modStream_get?_self s id _ _ hl.stream rfl
  have hdk1 : DK s (s.modStream id fun st => { st with pendingSend := rest }) :=
    modStream_dk' _ _ _ (fun _ => rfl) (fun h => by
      unfold DS at h ⊢; rw [hps] at h
      exact ⟨Nat.le_trans (dsum_tail_le _ _) h.1, h.2⟩)
  have hstore := ConnFlowP.emitC_store sd s id len rest
  generalize hs1 : (s.modStream id fun st => { st with pendingSend := rest }) = s1 at hget1 hdk1 hstore
  have hst1 : s1.stream id = { s.stream id with pendingSend := rest } := stream_of_get? hget1
  have hsend := hsd.send (s1.stream id) len s1.prio.maxBufferSize
  have hbuf := hsd.buf (s1.stream id) len s1.prio.maxBufferSize
  have hkey := (hsd.ok (s1.stream id) len s1.prio.maxBufferSize).1
  generalize (sd (s1.stream id) len s1.prio.maxBufferSize).1 = st' at hsend hbuf hkey hstore
  rw [hst1] at hsend hbuf hkey
  have hbuf' : st'.bufferedSendData = (s.stream id).bufferedSendData - len := by
    rw [hbuf]; exact wrapSubUsize_of_le (by show len ≤ (s.stream id).bufferedSendData; omega) hd.2
  have hkey' : st'.key = id := hkey.trans (stream_key _ _)
  have hds' : DS st' := by
    unfold DS; rw [hsend, hbuf']
    show dsum rest ≤ _ ∧ _
    omega
  have hdk2 : DK s1 (s1.setStream st') := setStream_dk _ _ (fun _ => hds')
  have heq : ∀ j, (ConnFlowP.emitC sd s id len rest).stream j = (s1.setStream st').stream j :=
    fun j => stream_of_store_eqP (t := ConnFlowP.emitC sd s id len rest) (s := s1.setStream st') hstore j
  have hget2 : (s1.setStream st').store.get? id = some st' := by
    rw [setStream_get?, hget1]; simp [hkey', stream_key]
  refine ⟨fun j => by rw [heq]; exact (hdk1.trans hdk2).dsum hds j, ?_, ?_, hd.1, hd.2⟩
  · rw [heq, stream_of_get? hget2, hsend]
  · rw [heq, stream_of_get? hget2, hbuf']

theorem isClosed_false_of_buffered {x : Stream} (h : x.bufferedSendData ≠ 0) : x.isClosed = false := by
  unfold Stream.isClosed
  have : (x.bufferedSendData == 0) = false := by simpa using h
  rw [this, Bool.and_false]

/-- requeue + `transition_after` behind the DATA arm: the stream that keeps buffered data stays -/
theorem finish_held {s' t : Streams} {id : Nat} (c : Prop) [Decidable c] {rest : List SFrame} {r B : Nat}
    (hl : Live t id) (hd : DSum t) (e : EvB false s' t) (h1 : (t.stream id).pendingSend = rest)
    (h2 : (t.stream id).bufferedSendData = B) (h3 : r + dsum rest ≤ B) (h4 : B < USIZE_MOD) :
    DSum ((if c then (t.qPush .pendingSend id).1 else t).transitionAfter id (s'.stream id).isPendingResetExpiration) ∧
    (r > 0 →
      Live ((if c then (t.qPush .pendingSend id).1 else t).transitionAfter id (s'.stream id).isPendingResetExpiration) id ∧
      r + dsum (((if c then (t.qPush .pendingSend id).1 else t).transitionAfter id
        (s'.stream id).isPendingResetExpiration).stream id).pendingSend ≤
      (((if c then (t.qPush .pendingSend id).1 else t).transitionAfter id
        (s'.stream id).isPendingResetExpiration).stream id).bufferedSendData ∧
      (((if c then (t.qPush .pendingSend id).1 else t).transitionAfter id
        (s'.stream id).isPendingResetExpiration).stream id).bufferedSendData < USIZE_MOD) := by
  generalize hs2 : (if c then (t.qPush .pendingSend id).1 else t) = t2
  have hdk : DK t t2 := by rw [← hs2]; split; exact qPush_dk _ _ _; exact .refl _
  have hev : EvB false t t2 := by rw [← hs2]; split; exact qPush_ev _ _ _ (by decide) (by decide); exact .refl _
  have hlive : Live t2 id := by
    rw [← hs2]; split
    · exact (qPush_lt t .pendingSend id).keys.live.mpr hl
    · exact hl
  have hf : (t2.stream id).pendingSend = rest ∧ (t2.stream id).bufferedSendData = B := by
    rw [← hs2]; split
    · have := qPush_spr (P := fun x => (x.pendingSend, x.bufferedSendData)) t .pendingSend id (fun x v => by cases v <;> rfl) id
      simp only [Prod.mk.injEq] at this
      exact ⟨this.1.trans h1, this.2.trans h2⟩
    · exact ⟨h1, h2⟩
  refine ⟨(hdk.trans (transitionAfter_dk _ _ _)).dsum hd, fun hr => ?_⟩
  have hnc : (t2.stream id).isClosed = false := isClosed_false_of_buffered (by rw [hf.2]; omega)
  have hno := transitionAfter_noop (b := (s'.stream id).isPendingResetExpiration) hnc
    (fun hb => (EvB.trans e hev).mono.resetAt id hb)
  rw [hno, hf.1, hf.2]
  exact ⟨hlive, h3, h4⟩

/-- what `pop_frame` returns, as far as the accounting goes -/
def PopOK (r : Streams × Option Streams.OutFrame) : Prop :=
  DSum r.1 ∧ ∀ len e fr, r.2 = some (.data len e fr) → HeldOK r.1 fr

theorem PopOK.other {t : Streams} {o : Option Streams.OutFrame} (h : DSum t) (ho : ∀ len e fr, o ≠ some (.data len e fr)) :
    PopOK (t, o) := ⟨h, fun len e fr hf => absurd hf (ho len e fr)⟩

set_option hygiene false in
local macro "ds_data_rest" : tactic => `(tactic|
  (split
   · exact ih h' hs' hd' _
   · split
     · exact ih h' hs' hd' _
     · next hc =>
       have hle1 : usizeAsU32 (min (min sz maxLen) (s'.stream id).sendFlow.available.asSize) ≤
           (s'.stream id).sendFlow.available.asSize := Nat.le_trans (ConnFlowP.usizeAsU32_le _) (Nat.min_le_right _ _)
       have hle2 : usizeAsU32 (min (min sz maxLen) (s'.stream id).sendFlow.available.asSize) ≤ sz :=
         Nat.le_trans (ConnFlowP.usizeAsU32_le _) (Nat.le_trans (Nat.min_le_left _ _) (Nat.min_le_left _ _))
       generalize usizeAsU32 (min (min sz maxLen) (s'.stream id).sendFlow.available.asSize) = len at *
       have hlw : len = 0 ∨ len ≤ (s'.stream id).sendFlow.windowSz := by
         simp only [Bool.and_eq_true, decide_eq_true_eq, not_and] at hc
         omega
       have hst := emitC_st hsd hs' hps hle1 hlw
       have hem := emitC_ds hsd hl hps hd' hle2
       have hfin := finish_held (s' := s') (id := id)
         ((!((ConnFlowP.emitC sd s' id len rest).stream id).pendingSend.isEmpty ||
           ((ConnFlowP.emitC sd s' id len rest).stream id).state.isScheduledReset) = true) (r := sz - len)
         (hst.lt.keys.live.mpr hl) hem.1 hst.ev hem.2.1 hem.2.2.1 (by omega) (by omega)
       refine ⟨hfin.1, ?_⟩
       intro len' e' fr' hfr
       cases hfr
       exact hfin.2))

/-- `pop_frame` with `Stream::send_data` abstracted: the accounting -/
theorem popFrameC_ds {E : Nat → Prop} (sd : Stream → Nat → Nat → Stream × List String × Bool) (hsd : SdNP sd) (fuel : Nat) :
    ∀ {s : Streams}, PI E s → ConnFlowP.SafeInv s → DSum s → ∀ maxLen, PopOK (ConnFlowP.popFrameC sd fuel s maxLen) := by
  induction fuel with
  | zero => intro s _ _ hd m; rw [ConnFlowP.popFrameC_zero]; exact .other hd (by intros; simp)
  | succ n ih =>
    intro s h hs hd maxLen
    rw [ConnFlowP.popFrameC_succ']
    have hq := h.npi.qs .pendingSend (by decide)
    split
    · next s' heq => exact .other ((DK.of_fst_eq heq (qPop_dk s _)).dsum hd) (by intros; simp)
    · next s' id heq =>
      have hl := (qPopQ_live hq heq).2.1
      have h' : PI E s' :=
        h.lt (LT.of_fst_eq heq (qPop_ltq s _ hq)) (liveAll0 s) (.of_fst_eq heq (qPop_ev _ _ (by decide) (by decide)))
          (FK.of_fst_eq heq (qPop_fk s _))
      have hs' : ConnFlowP.SafeInv s' := ConnFlowP.SafeInvG.of_fst_eq heq (hs.fr ((ConnFlowP.Fr.refl _).qPop _))
      have hd' : DSum s' := (DK.of_fst_eq heq (qPop_dk s _)).dsum hd
      dsimp only
      split
      · -- DATA
        next sz eos rest hps =>
        split
        · split
          · refine ih (h'.st (ks := [id]) ⟨?_, ?_, ?_⟩ (liveAll1 hl)) ?_ (DK.dsum ?_ hd') _
            · lt_auto
            · ev_auto
            · fk_auto
            · safe_auto
            · dk_auto
          · ds_data_rest
        · simp only [Bool.false_eq_true, if_false]
          ds_data_rest
      · next heos fields rest hps =>
        refine .other (DK.dsum ?_ hd') (by intros; simp)
        refine DK.trans (b := s'.modStream id fun st => { st with pendingSend := rest }) ?_ (by dk_auto)
        exact modStream_dk' _ _ _ (fun _ => rfl) (fun h => by
          unfold DS at h ⊢; rw [hps] at h; exact ⟨Nat.le_trans (dsum_tail_le _ _) h.1, h.2⟩)
      · next reason rest hps =>
        refine .other (DK.dsum ?_ hd') (by intros; simp)
        refine DK.trans (b := s'.modStream id fun st => { st with pendingSend := rest }) ?_ (by dk_auto)
        exact modStream_dk' _ _ _ (fun _ => rfl) (fun h => by
          unfold DS at h ⊢; rw [hps] at h; exact ⟨Nat.le_trans (dsum_tail_le _ _) h.1, h.2⟩)
      · next pk pid fields rest hps =>
        have hdk1 : DK s' (s'.modStream id fun st => { st with pendingSend := rest }) :=
          modStream_dk' _ _ _ (fun _ => rfl) (fun h => by
            unfold DS at h ⊢; rw [hps] at h; exact ⟨Nat.le_trans (dsum_tail_le _ _) h.1, h.2⟩)
        split
        · next hfind =>
          have hst := popRest_st (rest := rest) hps
          have hfin := PI.finish (s' := s') id
            (((!((s'.modStream id fun st => { st with pendingSend := rest }).stream id).pendingSend.isEmpty ||
               ((s'.modStream id fun st => { st with pendingSend := rest }).stream id).state.isScheduledReset) = true))
            (h'.st hst (liveAll1 hl)) (hst.lt.keys.live.mpr hl) hst.ev
          refine ih hfin ?_ (DK.dsum ?_ hd') _
          · safe_auto
          · refine hdk1.trans ?_
            dk_auto
        · next pushed hfind =>
          refine .other (DK.dsum ?_ hd') (by intros; simp)
          refine hdk1.trans ?_
          dk_auto
      · next hps =>
        split
        · next reason hsr =>
          refine .other (DK.dsum ?_ hd') (by intros; simp)
          dk_auto
        · refine ih (h'.ta id _ (fun hb => hb)) ?_ ((transitionAfter_dk _ _ _).dsum hd') _
          safe_auto

/-- **`Prioritize::pop_frame`: `buffered_send_data` keeps covering the queued DATA, and the remainder of the frame
    handed to the codec** -/
theorem popFrame_ds {E : Nat → Prop} {s : Streams} (h : PI E s) (hs : ConnFlowP.SafeInv s) (hd : DSum s) (fuel maxLen : Nat) :
    PopOK (Streams.popFrame fuel s maxLen) := by
  rw [ConnFlowP.popFrameC.eq]; exact popFrameC_ds _ sdNP_sendData fuel h hs hd maxLen

end H2V.Lemmas.ConnNoPanicP
