import H2V.Lemmas.ConnNoPanicPPushInvHeldFns
/-
  C08 (no panic) — PUSH_PROMISE bookkeeping, part 3: the frame `HR` for the teardown loops, `Store::for_each`,
  `counts.transition`, the settings functions and the frame entry points that do not insert.
-/
namespace H2V.Lemmas.ConnNoPanicP
open H2V H2V.Model H2V.Model.Conn H2V.Lemmas.ConnCountsP
attribute [local irreducible] wrapSubU32 wrapSubUsize

-- ===================================================================== queue-draining loops

theorem clearPendingCapacity_hr (n : Nat) (s : Streams) : HR s (Streams.clearPendingCapacity n s) := by
  induction n generalizing s with
  | zero => unfold Streams.clearPendingCapacity; exact .refl _
  | succ n ih => unfold Streams.clearPendingCapacity; hr_auto_ih ih
theorem clearPendingSend_hr (n : Nat) (s : Streams) : HR s (Streams.clearPendingSend n s) := by
  induction n generalizing s with
  | zero => unfold Streams.clearPendingSend; exact .refl _
  | succ n ih => unfold Streams.clearPendingSend; hr_auto_ih ih
theorem clearPendingOpen_hr (n : Nat) (s : Streams) : HR s (Streams.clearPendingOpen n s) := by
  induction n generalizing s with
  | zero => unfold Streams.clearPendingOpen; exact .refl _
  | succ n ih => unfold Streams.clearPendingOpen; hr_auto_ih ih
theorem sendClearQueues_hr (s : Streams) : HR s s.sendClearQueues := by
  unfold Streams.sendClearQueues; hr_auto
theorem clearExpiredResetStreams_hr (n : Nat) (s : Streams) : HR s (Streams.clearExpiredResetStreams n s) := by
  induction n generalizing s with
  | zero => unfold Streams.clearExpiredResetStreams; exact .refl _
  | succ n ih => unfold Streams.clearExpiredResetStreams; hr_auto_ih ih
theorem clearStreamWindowUpdateQueue_hr (n : Nat) (s : Streams) : HR s (Streams.clearStreamWindowUpdateQueue n s) := by
  induction n generalizing s with
  | zero => unfold Streams.clearStreamWindowUpdateQueue; exact .refl _
  | succ n ih => unfold Streams.clearStreamWindowUpdateQueue; hr_auto_ih ih
theorem clearAllResetStreams_hr (n : Nat) (s : Streams) : HR s (Streams.clearAllResetStreams n s) := by
  induction n generalizing s with
  | zero => unfold Streams.clearAllResetStreams; exact .refl _
  | succ n ih => unfold Streams.clearAllResetStreams; hr_auto_ih ih
theorem clearAllPendingAccept_hr (n : Nat) (s : Streams) : HR s (Streams.clearAllPendingAccept n s) := by
  induction n generalizing s with
  | zero => unfold Streams.clearAllPendingAccept; exact .refl _
  | succ n ih => unfold Streams.clearAllPendingAccept; hr_auto_ih ih
theorem recvClearQueues_hr (s : Streams) (b : Bool) : HR s (s.recvClearQueues b) := by
  unfold Streams.recvClearQueues; hr_auto
theorem clearQueues_hr (s : Streams) (b : Bool) : HR s (s.clearQueues b) := by
  unfold Streams.clearQueues; hr_auto

-- ===================================================================== `counts.transition`, `Store::for_each`

theorem transition_hr {α : Type} (s : Streams) (k : Nat) (f : Streams → Streams × α) (hf : ∀ s, HR s (f s).1) :
    HR s (s.transition k f).1 := by
  have : (s.transition k f).1 = (f s).1.transitionAfter k (s.stream k).isPendingResetExpiration := by
    unfold Streams.transition; rfl
  rw [this]
  exact (hf s).trans (transitionAfter_hr _ _ _)

theorem tryForEach_hr (f : Streams → Nat → Streams × Option PErr) (hf : ∀ s k, HR s (f s k).1) :
    ∀ (fuel i len : Nat) (s : Streams), HR s (Streams.tryForEach f fuel i len s).1 := by
  intro fuel
  induction fuel with
  | zero => intro i len s; exact .refl _
  | succ n ih =>
    intro i len s
    unfold Streams.tryForEach
    split
    · split
      · exact panic_hr _ _
      · next id _ =>
        have := hf s id
        split
        · next s' e heq => rw [heq] at this; exact this
        · next s' heq =>
          rw [heq] at this
          dsimp only
          split
          · exact .trans this (ih _ _ _)
          · exact .trans this (ih _ _ _)
    · exact .refl _

theorem storeTryForEach_hr (s : Streams) (f : Streams → Nat → Streams × Option PErr) (hf : ∀ s k, HR s (f s k).1) :
    HR s (s.storeTryForEach f).1 := tryForEach_hr f hf _ _ _ s

theorem storeForEach_hr (s : Streams) (f : Streams → Nat → Streams) (hf : ∀ s k, HR s (f s k)) :
    HR s (s.storeForEach f) := storeTryForEach_hr s _ (fun s k => hf s k)

theorem tryForEachAcc_hr (f : Nat → Streams → Nat → Streams × Nat × Option PErr) (hf : ∀ a s k, HR s (f a s k).1) :
    ∀ (fuel i len acc : Nat) (s : Streams), HR s (Streams.tryForEachAcc f fuel i len acc s).1 := by
  intro fuel
  induction fuel with
  | zero => intro i len acc s; exact .refl _
  | succ n ih =>
    intro i len acc s
    unfold Streams.tryForEachAcc
    split
    · split
      · exact panic_hr _ _
      · next id _ =>
        have := hf acc s id
        split
        · next s' a' e heq => rw [heq] at this; exact this
        · next s' a' heq =>
          rw [heq] at this
          dsimp only
          split
          · exact .trans this (ih _ _ _ _)
          · exact .trans this (ih _ _ _ _)
    · exact .refl _

theorem setConnError_hr (s : Streams) (o : Option PErr) :
    HR s { s with actions := { s.actions with connError := o } } := .of_store rfl rfl rfl

theorem errClosure_hr (s : Streams) (k : Nat) (e : PErr) :
    HR s (s.transition k fun s => ((s.recvHandleError k e).sendHandleError k, ())).1 :=
  transition_hr s k _ (fun s => (recvHandleError_hr s k e).trans (sendHandleError_hr _ k))

theorem handleError_hr (s : Streams) (err : PErr) : HR s (s.handleError err).1 := by
  unfold Streams.handleError
  exact (storeForEach_hr s _ (fun s k => errClosure_hr s k err)).trans (setConnError_hr _ _)

theorem recvGoAwayFrame_hr (s : Streams) (last : Nat) (r : Reason) (d : Bytes) : HR s (s.recvGoAwayFrame last r d).1 := by
  unfold Streams.recvGoAwayFrame
  have h0 := sendRecvGoAway_hr s last
  split
  · next s1 e heq => rw [heq] at h0; exact h0
  · next s1 _ heq =>
    rw [heq] at h0
    refine h0.trans (.trans (storeForEach_hr _ _ (fun s k => ?_)) (setConnError_hr _ _))
    dsimp only
    split
    · exact errClosure_hr _ _ _
    · exact .refl _

theorem recvEof_hr (s : Streams) (b : Bool) : HR s (s.recvEof b) := by
  unfold Streams.recvEof
  dsimp only
  generalize hs1 : (if s.actions.connError.isNone = true then _ else s) = s1
  have h1 : HR s s1 := by
    rw [← hs1]; split
    · exact setConnError_hr _ _
    · exact .refl _
  have a2 := storeForEach_hr s1 (fun s id => (s.transition id fun s => ((s.recvRecvEof id).sendHandleError id, ())).1)
    (fun s k => transition_hr s k _ (fun s => (recvRecvEof_hr s k).trans (sendHandleError_hr _ k)))
  exact (h1.trans a2).trans (clearQueues_hr _ _)

-- ===================================================================== settings

theorem sarsWindow_hr (s : Streams) (a : Option Nat) : HR s (sarsWindow s a).1 := by
  unfold sarsWindow
  split
  · exact .refl _
  · next val =>
    dsimp only
    have h2 : HR s (s.modSend fun sd => { sd with initWindowSz := val }) := modSend_hr _ _
    generalize (s.modSend fun sd => { sd with initWindowSz := val }) = s2 at h2 ⊢
    split
    · have h3 := tryForEachAcc_hr (Streams.decStreamWindow (s.actions.send.initWindowSz - val))
        (fun a t k => decStreamWindow_hr _ a t k) (2 * s2.store.ids.length + 1) 0 s2.store.ids.length 0 s2
      split
      · next s3 _ e heq => rw [heq] at h3; exact h2.trans h3
      · next s3 total heq => rw [heq] at h3; exact h2.trans (h3.trans (assignConnectionCapacity_hr _ _))
    · split
      · refine h2.trans (storeTryForEach_hr _ _ (fun t k => ?_))
        have := sendRecvStreamWindowUpdate_hr t k (val - s.actions.send.initWindowSz)
        split
        · next s' r heq => rw [heq] at this; exact this
        · next s' _ heq => rw [heq] at this; exact this
      · exact h2

theorem sendApplyRemoteSettings_hr (s : Streams) (a b c : Option Nat) : HR s (s.sendApplyRemoteSettings a b c).1 := by
  rw [sars_eq]
  have h1 : HR s (match c with
      | some v => s.modSend fun sd => { sd with isExtendedConnectProtocolEnabled := v != 0 }
      | none => s) := by
    split
    · exact modSend_hr _ _
    · exact .refl _
  have h2 := h1.trans (sarsWindow_hr _ a)
  generalize sarsWindow _ a = p at h2 ⊢
  obtain ⟨s2, res⟩ := p
  dsimp only at h2 ⊢
  split
  · exact h2
  · dsimp only
    split
    · exact h2.trans (modSend_hr _ _)
    · exact h2

theorem applyRemoteSettings_hr (s : Streams) (vals : List (Nat × Nat)) (b : Bool) : HR s (s.applyRemoteSettings vals b).1 := by
  unfold Streams.applyRemoteSettings
  exact (modCounts_hr _ _).trans (sendApplyRemoteSettings_hr _ _ _ _)

theorem alsDec_hr (dec : Nat) (s : Streams) (k : Nat) : HR s (alsDec dec s k).1 := by
  unfold alsDec; hr_auto
theorem alsInc_hr (inc : Nat) (s : Streams) (k : Nat) : HR s (alsInc inc s k).1 := by
  unfold alsInc; hr_auto

theorem alsRest_hr (s s1 : Streams) (h1 : HR s s1) (a : Option Nat) :
    HR s (match a with
      | none => (s1, (.ok () : Except PErr Unit))
      | some target =>
        let oldSz := s1.recv.initWindowSz
        let s := s1.modRecv fun r => { r with initWindowSz := target }
        let (s, res) : Streams × Option PErr :=
          if target < oldSz then s.storeTryForEach (alsDec (oldSz - target))
          else if target > oldSz then s.storeTryForEach (alsInc (target - oldSz))
          else (s, none)
        match res with
        | some e => (s, .error e)
        | none => (s, .ok ())).1 := by
  split
  · exact h1
  · next target =>
    dsimp only
    have h2 : HR s (s1.modRecv fun r => { r with initWindowSz := target }) := h1.trans (modRecv_hr _ _ (fun _ => ⟨rfl, rfl⟩))
    generalize (s1.modRecv fun r => { r with initWindowSz := target }) = s2 at h2 ⊢
    have h3 : HR s (if target < s1.recv.initWindowSz then s2.storeTryForEach (alsDec (s1.recv.initWindowSz - target))
        else if target > s1.recv.initWindowSz then s2.storeTryForEach (alsInc (target - s1.recv.initWindowSz))
        else (s2, none)).1 := by
      split
      · exact h2.trans (storeTryForEach_hr _ _ (fun t k => alsDec_hr _ t k))
      · split
        · exact h2.trans (storeTryForEach_hr _ _ (fun t k => alsInc_hr _ t k))
        · exact h2
    generalize (if target < s1.recv.initWindowSz then s2.storeTryForEach (alsDec (s1.recv.initWindowSz - target))
        else if target > s1.recv.initWindowSz then s2.storeTryForEach (alsInc (target - s1.recv.initWindowSz))
        else (s2, none)) = p at h3 ⊢
    obtain ⟨s3, res⟩ := p
    dsimp only at h3 ⊢
    split <;> exact h3

theorem applyLocalSettings_hr (s : Streams) (a b : Option Nat) : HR s (s.applyLocalSettings a b).1 := by
  rw [als_eq]
  cases b with
  | none => exact alsRest_hr s s (.refl _) a
  | some v =>
    refine alsRest_hr s _ ?_ a
    exact modRecv_hr _ _ (fun _ => ⟨rfl, rfl⟩)

theorem applyLocalSettingsFrame_hr (s : Streams) (vals : List (Nat × Nat)) : HR s (s.applyLocalSettingsFrame vals).1 := by
  unfold Streams.applyLocalSettingsFrame; exact applyLocalSettings_hr _ _ _

theorem setTargetConnectionWindow_hr (s : Streams) (t : Nat) : HR s (s.setTargetConnectionWindow t).1 := by
  unfold Streams.setTargetConnectionWindow; hr_auto

-- ===================================================================== frames and handle calls that do not insert

theorem resetOnRecvStreamErr_hr (s : Streams) (k : Nat) (r : Except PErr Unit) : HR s (s.resetOnRecvStreamErr k r).1 := by
  unfold Streams.resetOnRecvStreamErr; hr_auto

theorem actionsSendReset_hr (s : Streams) (k : Nat) (r : Reason) (i : Initiator) : HR s (s.actionsSendReset k r i).1 := by
  unfold Streams.actionsSendReset
  refine transition_hr s k _ (fun s => ?_)
  hr_auto

theorem refSendReset_hr (s : Streams) (k : Nat) (r : Reason) : HR s (s.refSendReset k r) := by
  unfold Streams.refSendReset
  have := actionsSendReset_hr s k r .user
  hr_auto

theorem recvData_hr (s : Streams) (id : Nat) (p : Bytes) (eos : Bool) (pad : Option Nat) : HR s (s.recvData id p eos pad).1 := by
  unfold Streams.recvData
  dsimp only
  split
  · hr_auto
  · next k _ =>
    refine transition_hr s k _ (fun s => ?_)
    hr_auto

theorem recvReset_hr (s : Streams) (id : Nat) (r : Reason) : HR s (s.recvReset id r).1 := by
  unfold Streams.recvReset
  split
  · exact .refl _
  split
  · exact .refl _
  split
  · split <;> exact .refl _
  · next k _ =>
    split
    · exact .refl _
    · refine transition_hr s k _ (fun s => ?_)
      hr_auto

theorem recvWindowUpdate_hr (s : Streams) (id inc : Nat) : HR s (s.recvWindowUpdate id inc).1 := by
  unfold Streams.recvWindowUpdate; hr_auto

theorem refSendResponse_hr (s : Streams) (k : Nat) (f : List Hpack.Field) (eos : Bool) : HR s (s.refSendResponse k f eos).1 :=
  transition_hr s k _ (fun s => sendHeaders_hr s k eos f)
theorem refSendInformationalHeaders_hr (s : Streams) (k : Nat) (f : List Hpack.Field) :
    HR s (s.refSendInformationalHeaders k f).1 :=
  transition_hr s k _ (fun s => sendInterimInformationalHeaders_hr s k f)
theorem refSendData_hr (s : Streams) (k len : Nat) (eos : Bool) : HR s (s.refSendData k len eos).1 :=
  transition_hr s k _ (fun s => prioSendData_hr s k len eos)
theorem refSendTrailers_hr (s : Streams) (k : Nat) (f : List Hpack.Field) : HR s (s.refSendTrailers k f).1 :=
  transition_hr s k _ (fun s => sendTrailers_hr s k f)

theorem refInc_hr (s : Streams) (k : Nat) : HR s (s.refInc k) := by
  unfold Streams.refInc; hr_auto
theorem cloneStreamRef_hr (s : Streams) (k : Nat) : HR s (s.cloneStreamRef k) := by
  unfold Streams.cloneStreamRef; hr_auto
theorem recvNextIncoming_hr (s : Streams) : HR s s.recvNextIncoming.1 := by
  unfold Streams.recvNextIncoming; hr_auto
theorem nextIncoming_hr (s : Streams) : HR s s.nextIncoming.1 := by
  unfold Streams.nextIncoming; hr_auto
theorem recvTakeRequest_hr (s : Streams) (k : Nat) : HR s (s.recvTakeRequest k).1 := by
  unfold Streams.recvTakeRequest; hr_auto
theorem recvPollResponse_hr (n : Nat) (s : Streams) (k : Nat) (t : String) : HR s (Streams.recvPollResponse n s k t).1 := by
  induction n generalizing s with
  | zero => unfold Streams.recvPollResponse; exact .refl _
  | succ n ih => unfold Streams.recvPollResponse; hr_auto_ih ih
theorem dropPre_hr (s : Streams) (k : Nat) : HR s (dropPre s k) := by
  unfold dropPre; hr_auto

end H2V.Lemmas.ConnNoPanicP
