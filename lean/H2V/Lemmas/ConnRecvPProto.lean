import H2V.Lemmas.ConnRecvPConn
/-
  C03 — part 16 (not needed by `H2V/Props/C03.lean`): the connection layer (`ConnProto.lean`,
  connection.rs / settings.rs / go_away.rs / ping_pong.rs) only ever touches the stream layer through
  the calls listed in `Op`, with valid arguments.  Consequently every state a `Connection::poll`
  produces — whatever the peer sends, however the transport chops it, whatever the fuel — is a
  `Reach` state, and the invariant of `ConnRecvPInv.lean` holds for it (`protoPoll_cinv`,
  `clientPoll_cinv`, `creach_reach`: every connection reachable from `Conn.init` / `Conn.initServer`
  by the functions `ConnDriver.lean` calls, with an arbitrary environment).
-/
namespace H2V.Lemmas.ConnRecvP
open H2V H2V.Model H2V.Model.Conn
open H2V.Model.Conn.Streams

/-- the values of a SETTINGS frame we sent or are about to send are legal window sizes -/
def valsValid (vals : List (Nat × Nat)) : Prop := ∀ t, settingsIws vals = some t → t ≤ 2147483647

def LocValid : Local → Prop
  | .toSend v => valsValid v
  | .waitingAck v => valsValid v
  | .synced => True

/-- the call is not `set_target_connection_window` (the only one that changes the configured
    connection window) -/
def Op.keepsTarget : Op → Bool
  | .setTargetConnectionWindow _ => false
  | _ => true

theorem Op.ghost_target {op : Op} (h : op.keepsTarget = true) (g : Ghost) :
    (op.ghost g).target = g.target ∧ (op.ghost g).hiTarget = g.hiTarget := by
  cases op <;> first | exact ⟨rfl, rfl⟩ | cases h | skip
  next vals =>
    show (g.afterSettings (settingsIws vals)).target = _ ∧ (g.afterSettings (settingsIws vals)).hiTarget = _
    cases settingsIws vals <;> exact ⟨rfl, rfl⟩

/-- the stream layer is in a reachable state in which the connection window configured last is `T`
    and the largest one so far `H`; our SETTINGS are legal -/
def CI (T H : Nat) (s : Streams) (loc : Local) : Prop :=
  (∃ g, Reach g s ∧ g.target = T ∧ g.hiTarget = H) ∧ LocValid loc

/-- connection-level invariant -/
abbrev CInv (T H : Nat) (c : Conn) : Prop := CI T H c.streams c.settings.loc

variable {T H : Nat}

theorem CI.op {s : Streams} {loc : Local} (h : CI T H s loc) (op : Op) (hv : op.valid s)
    (hk : op.keepsTarget = true := by rfl) : CI T H (op.apply s) loc := by
  obtain ⟨g, hg, ht, hh⟩ := h.1
  have := Op.ghost_target hk g
  exact ⟨⟨_, Reach.step op hg hv, this.1.trans ht, this.2.trans hh⟩, h.2⟩

theorem CI.fst {α : Type} {s' : Streams} {r : α} {p : Streams × α} {loc : Local} (h : p = (s', r)) (hp : CI T H p.1 loc) :
    CI T H s' loc := by subst h; exact hp

theorem cinv_of_fst {α : Type} {c1 : Conn} {r : α} {p : Conn × α} (h : p = (c1, r)) (hp : CInv T H p.1) : CInv T H c1 := by
  subst h; exact hp

theorem panic_cinv {c : Conn} (h : CInv T H c) (m : String) : CInv T H (c.panic m) := h.op (.panic m) trivial

theorem dynGoAway_cinv {c : Conn} (h : CInv T H c) (id : Nat) (e : Reason) : CInv T H (c.dynGoAway id e) := by
  unfold Conn.dynGoAway
  have h1 : CI T H (c.streams.recvGoAway id) c.settings.loc := h.op (.recvGoAway id) trivial
  dsimp only
  split
  · exact h1
  · exact h1.op (.panic _) trivial

theorem goAwayNowData_cinv {c : Conn} (h : CInv T H c) (e : Reason) (d : Bytes) : CInv T H (c.goAwayNowData e d) := by
  unfold Conn.goAwayNowData
  dsimp only
  split
  · exact h
  · exact h.op (.panic _) trivial

theorem goAwayNow_cinv {c : Conn} (h : CInv T H c) (e : Reason) : CInv T H (c.goAwayNow e) := goAwayNowData_cinv h e []

theorem codecPollReady_cinv {c : Conn} (h : CInv T H c) : CInv T H c.codecPollReady.1 := h

theorem sendPendingGoAway_cinv {c : Conn} (h : CInv T H c) : CInv T H c.sendPendingGoAway.1 := by
  unfold Conn.sendPendingGoAway
  split
  · have h1 := codecPollReady_cinv h
    split <;> (rename_i heq; rw [heq] at h1; exact h1)
  · split
    · split <;> exact h
    · exact h

theorem sendPendingPong_cinv {c : Conn} (h : CInv T H c) : CInv T H c.sendPendingPong.1 := by
  unfold Conn.sendPendingPong
  split
  · have h1 := codecPollReady_cinv h
    split <;> (rename_i heq; rw [heq] at h1; exact h1)
  · exact h

theorem sendPendingPing_cinv {c : Conn} (h : CInv T H c) : CInv T H c.sendPendingPing.1 := by
  unfold Conn.sendPendingPing
  split
  · split
    · have h1 := codecPollReady_cinv h
      split
      · rename_i heq; rw [heq] at h1; exact h1
      · exact h1
    · exact h
  · split
    · dsimp only
      split
      · split
        · rename_i _ c1 heq
          have h1 : CInv T H c1 := cinv_of_fst heq h
          exact h1
        · exact h
      · exact h
    · exact h

theorem takeUserPings_cinv {c : Conn} (h : CInv T H c) : CInv T H c.takeUserPings.1 := by
  unfold Conn.takeUserPings; split <;> exact h

theorem userSendPing_cinv {c : Conn} (h : CInv T H c) : CInv T H c.userSendPing.1 := by
  unfold Conn.userSendPing
  split
  · exact h
  · split
    · exact h.op (.wake _) trivial
    · split <;> exact h

theorem userPollPong_cinv {c : Conn} (h : CInv T H c) (t : String) : CInv T H (c.userPollPong t).1 := by
  unfold Conn.userPollPong
  split
  · exact h
  · dsimp only
    split
    · exact h
    · split <;> exact h

theorem dropUserPingsRx_cinv {c : Conn} (h : CInv T H c) : CInv T H c.dropUserPingsRx := by
  unfold Conn.dropUserPingsRx
  split
  · exact h
  · exact h.op (.wake _) trivial

/-- `Settings::recv_settings`: the ACK of our SETTINGS applies exactly the values we sent -/
theorem recvSettings_cinv {c : Conn} (h : CInv T H c) (ack : Bool) (vals : List (Nat × Nat)) :
    CInv T H (c.recvSettings ack vals).1 := by
  unfold Conn.recvSettings
  split
  · split
    · next loc hloc =>
      have hv : valsValid loc := by have := h.2; rw [hloc] at this; exact this
      have h1 : CI T H (c.streams.applyLocalSettingsFrame loc).1 c.settings.loc := h.op (.applyLocalSettings loc) hv
      dsimp only
      split
      · rename_i heq; rw [heq] at h1; exact h1
      · rename_i heq; rw [heq] at h1; exact ⟨h1.1, trivial⟩
    · exact h
  · dsimp only
    split
    · exact h.op (.panic _) trivial
    · exact h

theorem sendSettings_cinv {c : Conn} (h : CInv T H c) (vals : List (Nat × Nat)) (hv : valsValid vals) :
    CInv T H (c.sendSettings vals).1 := by
  unfold Conn.sendSettings
  split
  · exact ⟨h.1, hv⟩
  · exact h

/-- first half of `Settings::poll_send`: ACK the peer's SETTINGS and apply them -/
def settingsAck (c : Conn) : Conn × Step :=
  match c.settings.remote with
  | some settings =>
    match c.codecPollReady with
    | (c, .pending) => (c, .pending)
    | (c, .err e) => (c, .err e)
    | (c, .ok) =>
      let c := c.bufferSettings true []
      let isInitial := !c.settings.hasReceivedRemoteInitialSettings
      let c := { c with settings := { c.settings with hasReceivedRemoteInitialSettings := true } }
      match c.streams.applyRemoteSettings settings isInitial with
      | (s, .error e) => ({ c with streams := s }, .err e)
      | (s, .ok _) =>
        let c := { c with streams := s }
        let get := fun (id : Nat) => (settings.find? (·.1 = id)).map (·.2)
        let w := c.codec.w
        let w := match get 1 with | some v => { w with hpack := w.hpack.updateMaxSize v } | none => w
        let w := match get 5 with | some v => { w with maxFrameSize := v } | none => w
        ({ c with codec := { c.codec with w := w } }, .ok)
  | none => (c, .ok)

/-- second half: send our own SETTINGS -/
def settingsSendOwn (c : Conn) : Conn × Step :=
  let c := { c with settings := { c.settings with remote := none } }
  match c.settings.loc with
  | .toSend settings =>
    match c.codecPollReady with
    | (c, .ok) =>
      let c := c.bufferSettings false settings
      ({ c with settings := { c.settings with loc := .waitingAck settings } }, .ok)
    | r => r
  | _ => (c, .ok)

theorem settingsPollSend_eq (c : Conn) : c.settingsPollSend =
    (match settingsAck c with
     | (c, .ok) => settingsSendOwn c
     | r => r) := by
  unfold Conn.settingsPollSend settingsAck settingsSendOwn
  rfl

theorem settingsAck_cinv {c : Conn} (h : CInv T H c) : CInv T H (settingsAck c).1 := by
  unfold settingsAck
  split
  · next settings _ =>
    split
    · rename_i c1 heq; exact cinv_of_fst heq h
    · rename_i c1 e heq; exact cinv_of_fst heq h
    · rename_i c1 heq
      have h1 : CInv T H c1 := cinv_of_fst heq h
      dsimp only
      have h2 : CI T H (c1.streams.applyRemoteSettings settings (!c1.settings.hasReceivedRemoteInitialSettings)).1
          c1.settings.loc := h1.op (.applyRemoteSettings _ _) trivial
      split
      · rename_i heq2; exact CI.fst heq2 h2
      · rename_i heq2; exact CI.fst heq2 h2
  · exact h

theorem settingsSendOwn_cinv {c : Conn} (h : CInv T H c) : CInv T H (settingsSendOwn c).1 := by
  unfold settingsSendOwn
  dsimp only
  split
  · next settings hloc =>
    have hv : valsValid settings := by
      have := h.2
      have hloc' : c.settings.loc = .toSend settings := hloc
      rw [hloc'] at this; exact this
    split
    · rename_i c2 heq2
      have h2 : CInv T H c2 := cinv_of_fst heq2 (show CInv T H _ from h)
      exact ⟨h2.1, hv⟩
    · exact (show CInv T H _ from h)
  · exact h

theorem settingsPollSend_cinv {c : Conn} (h : CInv T H c) : CInv T H c.settingsPollSend.1 := by
  rw [settingsPollSend_eq]
  have h1 := settingsAck_cinv h
  split
  · rename_i c1 heq
    rw [heq] at h1
    exact settingsSendOwn_cinv h1
  · exact h1

theorem pollReady_cinv {c : Conn} (h : CInv T H c) : CInv T H c.pollReady.1 := by
  unfold Conn.pollReady
  have h1 := sendPendingPong_cinv h
  split
  · rename_i c1 heq1
    rw [heq1] at h1
    have h2 := sendPendingPing_cinv h1
    split
    · rename_i c2 heq2
      rw [heq2] at h2
      have h3 := settingsPollSend_cinv h2
      split
      · rename_i c3 heq3
        rw [heq3] at h3
        dsimp only
        exact CI.op (s := c3.streams) h3 (.pollSendPendingRefusal 4 c3.codec.w c3.codec.io c3.cx) trivial
      · exact h3
    · exact h2
  · exact h1

theorem setTargetWindowSize_cinv {c : Conn} (h : CInv T H c) (size : Nat) (hs : size ≤ 2147483647) :
    CInv size (max H size) (c.setTargetWindowSize size) := by
  unfold Conn.setTargetWindowSize
  obtain ⟨g, hg, -, hh⟩ := h.1
  refine ⟨⟨_, Reach.step (.setTargetConnectionWindow size) hg hs, rfl, ?_⟩, h.2⟩
  show max g.hiTarget size = _
  rw [hh]

theorem setInitialWindowSize_cinv {c : Conn} (h : CInv T H c) (size : Nat) (hs : size ≤ 2147483647) :
    CInv T H (c.setInitialWindowSize size).1 := by
  unfold Conn.setInitialWindowSize
  refine sendSettings_cinv h _ ?_
  intro t ht
  have : settingsIws [(4, size)] = some size := by simp [settingsIws]
  rw [this] at ht; cases ht; exact hs

end H2V.Lemmas.ConnRecvP
