import H2V.Lemmas.ConnRecvPConn
/-
  C03 — part 16 (not needed by `H2V/Props/C03.lean`): the connection layer (`ConnProto.lean`,
  connection.rs / settings.rs / go_away.rs / ping_pong.rs) only ever touches the stream layer through
  the calls listed in `Op`, with valid arguments.  Consequently every state a `Connection::poll`
  produces — whatever the peer sends, however the transport chops it, whatever the fuel — is a
  `Reach` state, and the invariant of `ConnRecvPInv.lean` holds for it (`protoPoll_cinv`,
  `clientPoll_cinv`, `creach_reach`: every connection reachable from `Conn.init` / `Conn.initServer`
  by the functions `ConnDriver.lean` calls, with an arbitrary environment).
-/
namespace H2V.Lemmas.ConnRecvP
open H2V H2V.Model H2V.Model.Conn
open H2V.Model.Conn.Streams

/-- the values of a SETTINGS frame we sent or are about to send are legal window sizes -/
def valsValid (vals : List (Nat × Nat)) : Prop := ∀ t, settingsIws vals = some t → t ≤ 2147483647

def LocValid : Local → Prop
  | .toSend v => valsValid v
  | .waitingAck v => valsValid v
  | .synced => True

/-- the stream layer is in a reachable state, our SETTINGS are legal -/
def CI (s : Streams) (loc : Local) : Prop := (∃ g, Reach g s) ∧ LocValid loc

/-- connection-level invariant -/
abbrev CInv (c : Conn) : Prop := CI c.streams c.settings.loc

theorem CI.op {s : Streams} {loc : Local} (h : CI s loc) (op : Op) (hv : op.valid s) : CI (op.apply s) loc := by
  obtain ⟨g, hg⟩ := h.1
  exact ⟨⟨_, Reach.step op hg hv⟩, h.2⟩

theorem CI.fst {α : Type} {s' : Streams} {r : α} {p : Streams × α} {loc : Local} (h : p = (s', r)) (hp : CI p.1 loc) :
    CI s' loc := by subst h; exact hp

theorem cinv_of_fst {α : Type} {c1 : Conn} {r : α} {p : Conn × α} (h : p = (c1, r)) (hp : CInv p.1) : CInv c1 := by
  subst h; exact hp

theorem panic_cinv {c : Conn} (h : CInv c) (m : String) : CInv (c.panic m) := h.op (.panic m) trivial

theorem dynGoAway_cinv {c : Conn} (h : CInv c) (id : Nat) (e : Reason) : CInv (c.dynGoAway id e) := by
  unfold Conn.dynGoAway
  have h1 : CI (c.streams.recvGoAway id) c.settings.loc := h.op (.recvGoAway id) trivial
  dsimp only
  split
  · exact h1
  · exact h1.op (.panic _) trivial

theorem goAwayNowData_cinv {c : Conn} (h : CInv c) (e : Reason) (d : Bytes) : CInv (c.goAwayNowData e d) := by
  unfold Conn.goAwayNowData
  dsimp only
  split
  · exact h
  · exact h.op (.panic _) trivial

theorem goAwayNow_cinv {c : Conn} (h : CInv c) (e : Reason) : CInv (c.goAwayNow e) := goAwayNowData_cinv h e []

theorem codecPollReady_cinv {c : Conn} (h : CInv c) : CInv c.codecPollReady.1 := h

theorem sendPendingGoAway_cinv {c : Conn} (h : CInv c) : CInv c.sendPendingGoAway.1 := by
  unfold Conn.sendPendingGoAway
  split
  · have h1 := codecPollReady_cinv h
    split <;> (rename_i heq; rw [heq] at h1; exact h1)
  · split
    · split <;> exact h
    · exact h

theorem sendPendingPong_cinv {c : Conn} (h : CInv c) : CInv c.sendPendingPong.1 := by
  unfold Conn.sendPendingPong
  split
  · have h1 := codecPollReady_cinv h
    split <;> (rename_i heq; rw [heq] at h1; exact h1)
  · exact h

theorem sendPendingPing_cinv {c : Conn} (h : CInv c) : CInv c.sendPendingPing.1 := by
  unfold Conn.sendPendingPing
  split
  · split
    · have h1 := codecPollReady_cinv h
      split
      · rename_i heq; rw [heq] at h1; exact h1
      · exact h1
    · exact h
  · split
    · dsimp only
      split
      · split
        · rename_i _ c1 heq
          have h1 : CInv c1 := cinv_of_fst heq h
          exact h1
        · exact h
      · exact h
    · exact h

theorem takeUserPings_cinv {c : Conn} (h : CInv c) : CInv c.takeUserPings.1 := by
  unfold Conn.takeUserPings; split <;> exact h

theorem userSendPing_cinv {c : Conn} (h : CInv c) : CInv c.userSendPing.1 := by
  unfold Conn.userSendPing
  split
  · exact h
  · split
    · exact h.op (.wake _) trivial
    · split <;> exact h

theorem userPollPong_cinv {c : Conn} (h : CInv c) (t : String) : CInv (c.userPollPong t).1 := by
  unfold Conn.userPollPong
  split
  · exact h
  · dsimp only
    split
    · exact h
    · split <;> exact h

theorem dropUserPingsRx_cinv {c : Conn} (h : CInv c) : CInv c.dropUserPingsRx := by
  unfold Conn.dropUserPingsRx
  split
  · exact h
  · exact h.op (.wake _) trivial

/-- `Settings::recv_settings`: the ACK of our SETTINGS applies exactly the values we sent -/
theorem recvSettings_cinv {c : Conn} (h : CInv c) (ack : Bool) (vals : List (Nat × Nat)) :
    CInv (c.recvSettings ack vals).1 := by
  unfold Conn.recvSettings
  split
  · split
    · next loc hloc =>
      have hv : valsValid loc := by have := h.2; rw [hloc] at this; exact this
      have h1 : CI (c.streams.applyLocalSettingsFrame loc).1 c.settings.loc := h.op (.applyLocalSettings loc) hv
      dsimp only
      split
      · rename_i heq; rw [heq] at h1; exact h1
      · rename_i heq; rw [heq] at h1; exact ⟨h1.1, trivial⟩
    · exact h
  · dsimp only
    split
    · exact h.op (.panic _) trivial
    · exact h

theorem sendSettings_cinv {c : Conn} (h : CInv c) (vals : List (Nat × Nat)) (hv : valsValid vals) :
    CInv (c.sendSettings vals).1 := by
  unfold Conn.sendSettings
  split
  · exact ⟨h.1, hv⟩
  · exact h

/-- first half of `Settings::poll_send`: ACK the peer's SETTINGS and apply them -/
def settingsAck (c : Conn) : Conn × Step :=
  match c.settings.remote with
  | some settings =>
    match c.codecPollReady with
    | (c, .pending) => (c, .pending)
    | (c, .err e) => (c, .err e)
    | (c, .ok) =>
      let c := c.bufferSettings true []
      let isInitial := !c.settings.hasReceivedRemoteInitialSettings
      let c := { c with settings := { c.settings with hasReceivedRemoteInitialSettings := true } }
      match c.streams.applyRemoteSettings settings isInitial with
      | (s, .error e) => ({ c with streams := s }, .err e)
      | (s, .ok _) =>
        let c := { c with streams := s }
        let get := fun (id : Nat) => (settings.find? (·.1 = id)).map (·.2)
        let w := c.codec.w
        let w := match get 1 with | some v => { w with hpack := w.hpack.updateMaxSize v } | none => w
        let w := match get 5 with | some v => { w with maxFrameSize := v } | none => w
        ({ c with codec := { c.codec with w := w } }, .ok)
  | none => (c, .ok)

/-- second half: send our own SETTINGS -/
def settingsSendOwn (c : Conn) : Conn × Step :=
  let c := { c with settings := { c.settings with remote := none } }
  match c.settings.loc with
  | .toSend settings =>
    match c.codecPollReady with
    | (c, .ok) =>
      let c := c.bufferSettings false settings
      ({ c with settings := { c.settings with loc := .waitingAck settings } }, .ok)
    | r => r
  | _ => (c, .ok)

theorem settingsPollSend_eq (c : Conn) : c.settingsPollSend =
    (match settingsAck c with
     | (c, .ok) => settingsSendOwn c
     | r => r) := by
  unfold Conn.settingsPollSend settingsAck settingsSendOwn
  rfl

theorem settingsAck_cinv {c : Conn} (h : CInv c) : CInv (settingsAck c).1 := by
  unfold settingsAck
  split
  · next settings _ =>
    split
    · rename_i c1 heq; exact cinv_of_fst heq h
    · rename_i c1 e heq; exact cinv_of_fst heq h
    · rename_i c1 heq
      have h1 : CInv c1 := cinv_of_fst heq h
      dsimp only
      have h2 : CI (c1.streams.applyRemoteSettings settings (!c1.settings.hasReceivedRemoteInitialSettings)).1
          c1.settings.loc := h1.op (.applyRemoteSettings _ _) trivial
      split
      · rename_i heq2; exact CI.fst heq2 h2
      · rename_i heq2; exact CI.fst heq2 h2
  · exact h

theorem settingsSendOwn_cinv {c : Conn} (h : CInv c) : CInv (settingsSendOwn c).1 := by
  unfold settingsSendOwn
  dsimp only
  split
  · next settings hloc =>
    have hv : valsValid settings := by
      have := h.2
      have hloc' : c.settings.loc = .toSend settings := hloc
      rw [hloc'] at this; exact this
    split
    · rename_i c2 heq2
      have h2 : CInv c2 := cinv_of_fst heq2 (show CInv _ from h)
      exact ⟨h2.1, hv⟩
    · exact (show CInv _ from h)
  · exact h

theorem settingsPollSend_cinv {c : Conn} (h : CInv c) : CInv c.settingsPollSend.1 := by
  rw [settingsPollSend_eq]
  have h1 := settingsAck_cinv h
  split
  · rename_i c1 heq
    rw [heq] at h1
    exact settingsSendOwn_cinv h1
  · exact h1

theorem pollReady_cinv {c : Conn} (h : CInv c) : CInv c.pollReady.1 := by
  unfold Conn.pollReady
  have h1 := sendPendingPong_cinv h
  split
  · rename_i c1 heq1
    rw [heq1] at h1
    have h2 := sendPendingPing_cinv h1
    split
    · rename_i c2 heq2
      rw [heq2] at h2
      have h3 := settingsPollSend_cinv h2
      split
      · rename_i c3 heq3
        rw [heq3] at h3
        dsimp only
        exact CI.op (s := c3.streams) h3 (.pollSendPendingRefusal 4 c3.codec.w c3.codec.io c3.cx) trivial
      · exact h3
    · exact h2
  · exact h1

theorem setTargetWindowSize_cinv {c : Conn} (h : CInv c) (size : Nat) (hs : size ≤ 2147483647) :
    CInv (c.setTargetWindowSize size) := by
  unfold Conn.setTargetWindowSize
  exact h.op (.setTargetConnectionWindow size) hs

theorem setInitialWindowSize_cinv {c : Conn} (h : CInv c) (size : Nat) (hs : size ≤ 2147483647) :
    CInv (c.setInitialWindowSize size).1 := by
  unfold Conn.setInitialWindowSize
  refine sendSettings_cinv h _ ?_
  intro t ht
  have : settingsIws [(4, size)] = some size := by simp [settingsIws]
  rw [this] at ht; cases ht; exact hs

theorem cinv_ite {p : Prop} [Decidable p] {a b : Conn} (ha : CInv a) (hb : CInv b) : CInv (if p then a else b) := by
  split <;> assumption

theorem takeError_cinv {c : Conn} (h : CInv c) (o : Reason) (i : Initiator) : CInv (c.takeError o i).1 := by
  unfold Conn.takeError
  dsimp only
  repeat' split
  all_goals exact h

theorem handleGoAway_cinv {c : Conn} (h : CInv c) (r : Reason) (d : Bytes) (i : Initiator) :
    CInv (c.handleGoAway r d i) := by
  unfold Conn.handleGoAway
  apply cinv_ite
  · exact h
  · dsimp only
    apply goAwayNowData_cinv
    exact h.op (.handleError _) trivial

theorem handlePoll2Result_cinv {c : Conn} (h : CInv c) (res : Except PErr Unit) : CInv (c.handlePoll2Result res).1 := by
  unfold Conn.handlePoll2Result
  split
  · exact h
  · exact handleGoAway_cinv h _ _ _
  · split
    · exact h
    · rename_i id reason init _
      have h1 : CI (c.streams.innerSendReset id reason).1 c.settings.loc := h.op (.innerSendReset id reason) trivial
      split
      · rename_i heq; exact CI.fst heq h1
      · rename_i s g heq
        apply handleGoAway_cinv
        exact CI.fst heq h1
  · dsimp only
    split <;> exact h.op (.handleError _) trivial

theorem lift_cinv {c : Conn} {α : Type} (r : Streams × Except PErr Unit) (hr : CI r.1 c.settings.loc) (a : α) :
    CInv (match r with
      | (s, .ok _) => ({ c with streams := s }, (Except.ok a : Except PErr α))
      | (s, .error e) => ({ c with streams := s }, Except.error e)).1 := by
  split <;> exact hr

/-- **`DynConnection::recv_frame`**: every frame the peer can send -/
theorem recvFrame_cinv {c : Conn} (h : CInv c) (f : Option Frame.Frame) : CInv (c.recvFrame f).1 := by
  unfold Conn.recvFrame
  dsimp only
  split
  · exact lift_cinv _ (h.op (.recvHeaders _) trivial) _
  · exact lift_cinv _ (h.op (.recvData _ _ _ _) trivial) _
  · exact lift_cinv _ (h.op (.recvReset _ _) trivial) _
  · exact lift_cinv _ (h.op (.recvPushPromise _ _) trivial) _
  · exact h
  · rename_i last code debug
    have := h.op (.recvGoAwayFrame last code debug) trivial
    split <;> (rename_i heq; exact CI.fst heq this)
  · -- PING
    rename_i ack payload
    have h1 : CI (c.streams.wake (c.pingPong.recvPing ack payload).2.2.1) c.settings.loc := h.op (.wake _) trivial
    have h1' : CInv { c with pingPong := (c.pingPong.recvPing ack payload).1,
                             streams := c.streams.wake (c.pingPong.recvPing ack payload).2.2.1 } := h1
    have h2 := cinv_ite (p := (c.pingPong.recvPing ack payload).2.2.2 = true) h1' (panic_cinv h1' "ping_pong assertion")
    generalize (if (c.pingPong.recvPing ack payload).2.2.2 = true then _ else Conn.panic _ "ping_pong assertion") = c2 at h2 ⊢
    split
    · apply dynGoAway_cinv
      exact cinv_ite h2 (panic_cinv h2 _)
    · exact h2
  · exact lift_cinv _ (h.op (.recvWindowUpdate _ _) trivial) _
  · exact h
  · exact h.op (.recvEof false) trivial


/-- the part of the `poll2` loop after `send_pending_go_away`; `again` = the next turn -/
def poll2GoOn (again : Conn → Conn × PollRes) (c : Conn) : Conn × PollRes :=
  match c.pollReady with
  | (c, .pending) => (c, PollRes.pending)
  | (c, .err e) => (c, .ready (.error e))
  | (c, .ok) =>
    let (codec, polled) := pollNext (c.codec.r.buf.length + c.codec.io.rd.length + 2) c.codec c.cx
    let c := { c with codec := codec }
    match polled with
    | .pending => (c, .pending)
    | .err e => (c, .ready (.error (Conn.rerrToPErr e)))
    | .ioErr kind msg => (c, .ready (.error (.io kind msg)))
    | other =>
      let frame := match other with | .frame f => some f | _ => none
      match c.recvFrame frame with
      | (c, .error e) => (c, .ready (.error e))
      | (c, .ok .continue) => again c
      | (c, .ok .done) => (c, .ready (.ok ()))
      | (c, .ok (.settings ack vals)) =>
        match c.recvSettings ack vals with
        | (c, .error e) => (c, .ready (.error e))
        | (c, .ok _) => again c

theorem poll2Loop_succ (fuel : Nat) (c : Conn) : Conn.poll2Loop (fuel + 1) c =
    (match c.sendPendingGoAway with
     | (c, .pending) => (c, .pending)
     | (c, .err e) => (c, .ready (.error e))
     | (c, .reason reason) =>
       if c.goAway.shouldCloseNow then
         if c.goAway.isUserInitiated then (c, .ready (.ok ()))
         else (c, .ready (.error (PErr.libraryGoAway reason)))
       else poll2GoOn (Conn.poll2Loop fuel) c
     | (c, .none) => poll2GoOn (Conn.poll2Loop fuel) c) := by
  conv => lhs; unfold Conn.poll2Loop
  rfl

theorem poll2GoOn_cinv (again : Conn → Conn × PollRes) (hag : ∀ c, CInv c → CInv (again c).1) {c : Conn} (h : CInv c) :
    CInv (poll2GoOn again c).1 := by
  unfold poll2GoOn
  have h1 := pollReady_cinv h
  split
  · rename_i c1 heq; exact cinv_of_fst heq h1
  · rename_i c1 e heq; exact cinv_of_fst heq h1
  · rename_i c1 heq
    have h1 : CInv c1 := cinv_of_fst heq h1
    dsimp only
    have h2 : CInv { c1 with codec := (pollNext (c1.codec.r.buf.length + c1.codec.io.rd.length + 2) c1.codec c1.cx).1 } := h1
    split
    · exact h2
    · exact h2
    · exact h2
    · have h3 := recvFrame_cinv h2
      split
      · rename_i heq3; exact cinv_of_fst heq3 (h3 _)
      · rename_i heq3; exact hag _ (cinv_of_fst heq3 (h3 _))
      · rename_i heq3; exact cinv_of_fst heq3 (h3 _)
      · rename_i c3 ack vals heq3
        have h4 := recvSettings_cinv (cinv_of_fst heq3 (h3 _)) ack vals
        split
        · rename_i heq4; exact cinv_of_fst heq4 h4
        · rename_i heq4; exact hag _ (cinv_of_fst heq4 h4)

theorem poll2Loop_cinv (fuel : Nat) {c : Conn} (h : CInv c) : CInv (Conn.poll2Loop fuel c).1 := by
  induction fuel generalizing c with
  | zero => unfold Conn.poll2Loop; exact panic_cinv h _
  | succ fuel ih =>
    rw [poll2Loop_succ]
    have h1 := sendPendingGoAway_cinv h
    split
    · rename_i heq; exact cinv_of_fst heq h1
    · rename_i heq; exact cinv_of_fst heq h1
    · rename_i heq
      have h1 := cinv_of_fst heq h1
      split
      · split <;> exact h1
      · exact poll2GoOn_cinv _ (fun c hc => ih hc) h1
    · rename_i heq; exact poll2GoOn_cinv _ (fun c hc => ih hc) (cinv_of_fst heq h1)

theorem poll2_cinv (fuel : Nat) {c : Conn} (h : CInv c) : CInv (Conn.poll2 fuel c).1 := by
  unfold Conn.poll2
  exact poll2Loop_cinv fuel (h.op (.clearExpiredResetStreams _) trivial)


/-- **`proto::Connection::poll`**: whatever the peer sent, however the transport chops it -/
theorem protoPoll_cinv (fuel : Nat) {c : Conn} (h : CInv c) : CInv (Conn.protoPoll fuel c).1 := by
  induction fuel generalizing c with
  | zero => unfold Conn.protoPoll; exact panic_cinv h _
  | succ fuel ih =>
    unfold Conn.protoPoll
    split
    · -- open
      have h1 := poll2_cinv (fuel + 1) h
      split
      · rename_i c1 result heq
        have h2 := handlePoll2Result_cinv (cinv_of_fst heq h1) result
        split
        · rename_i heq2; exact ih (cinv_of_fst heq2 h2)
        · rename_i heq2; exact cinv_of_fst heq2 h2
      · rename_i c1 heq
        have h1 : CInv c1 := cinv_of_fst heq h1
        have h2 : CI (Streams.pollComplete (fuel + 1) c1.streams c1.codec.w c1.codec.io c1.cx).1 c1.settings.loc :=
          h1.op (.pollComplete (fuel + 1) c1.codec.w c1.codec.io c1.cx) trivial
        dsimp only
        split
        · exact h2
        · exact h2
        · split
          · exact ih (goAwayNow_cinv (c := { c1 with streams := _, codec := _ }) h2 _)
          · exact h2
    · -- closing
      dsimp only
      split
      · exact h
      · exact h
      · exact ih (c := { c with codec := _, state := _ }) h
    · -- closed
      dsimp only
      exact takeError_cinv h _ _

theorem clientPoll_cinv (fuel : Nat) {c : Conn} (h : CInv c) : CInv (Conn.clientPoll fuel c).1 := by
  unfold Conn.clientPoll
  dsimp only
  have h1 : CInv (if (!c.hasStreamsOrOtherReferences) = true then c.goAwayNow NO_ERROR else c) :=
    cinv_ite (goAwayNow_cinv h _) h
  generalize (if (!c.hasStreamsOrOtherReferences) = true then c.goAwayNow NO_ERROR else c) = c1 at h1 ⊢
  have h2 := protoPoll_cinv fuel h1
  repeat' split
  all_goals first | exact h2 | exact h2.op (.wake _) trivial

theorem goAwayGracefully_cinv {c : Conn} (h : CInv c) : CInv c.goAwayGracefully := by
  unfold Conn.goAwayGracefully
  split
  · exact h
  · dsimp only
    have h1 := dynGoAway_cinv h Conn.STREAM_ID_MAX NO_ERROR
    exact cinv_ite (panic_cinv h1 _) h1

theorem goAwayFromUser_cinv {c : Conn} (h : CInv c) (e : Reason) : CInv (c.goAwayFromUser e) := by
  unfold Conn.goAwayFromUser
  dsimp only
  split
  · exact h.op (.handleError _) trivial
  · exact (h.op (.panic _) trivial).op (.handleError _) trivial


-- ===================================================================== the initial connections

/-- the builder was given legal window sizes (`initial_window_size`, `initial_connection_window_size`
    ≤ 2^31-1; the real builder panics on a larger connection window and does not check the stream
    window — see the notes) -/
def CfgValid (cfg : Conn.Cfg) : Prop :=
  (∀ v, cfg.iws = some v → v ≤ 2147483647) ∧ (∀ v, cfg.cws = some v → v ≤ 2147483647)

theorem settingsIws_cfg (cfg : Conn.Cfg) : settingsIws cfg.settings = cfg.iws := by
  unfold settingsIws Conn.Cfg.settings
  cases cfg.hts <;> cases cfg.push <;> cases cfg.mcs <;> cases cfg.iws <;> cases cfg.mfs <;> cases cfg.mhl <;> simp

theorem init_cinv (cfg : Conn.Cfg) (hv : CfgValid cfg) : CInv (Conn.init cfg) := by
  constructor
  · cases hc : cfg.cws with
    | none => exact ⟨_, .init (init_client cfg hc)⟩
    | some sz => exact ⟨_, init_client_cws cfg sz hc (hv.2 sz hc)⟩
  · have : (Conn.init cfg).settings.loc = .waitingAck cfg.settings := by
      unfold Conn.init
      cases cfg.cws <;> rfl
    rw [this]
    intro t ht
    rw [settingsIws_cfg] at ht
    exact hv.1 t ht

theorem init_server_cinv (cfg : Conn.Cfg) (ecp : Bool) (pf : Bytes) (hv : CfgValid cfg) :
    CInv (Conn.initServer cfg ecp pf) := by
  constructor
  · cases hc : cfg.cws with
    | none => exact ⟨_, .init (init_server cfg ecp pf hc)⟩
    | some sz => exact ⟨_, init_server_cws cfg ecp pf sz hc (hv.2 sz hc)⟩
  · have : (Conn.initServer cfg ecp pf).settings.loc =
        .waitingAck ((({ cfg with push := none } : Conn.Cfg).settings) ++ (if ecp then [(8, 1)] else [])) := by
      unfold Conn.initServer
      cases cfg.cws <;> rfl
    rw [this]
    intro t ht
    have h4 : settingsIws ((({ cfg with push := none } : Conn.Cfg).settings) ++ (if ecp then [(8, 1)] else [])) = cfg.iws := by
      unfold settingsIws Conn.Cfg.settings
      cases cfg.hts <;> cases cfg.mcs <;> cases cfg.iws <;> cases cfg.mfs <;> cases cfg.mhl <;> cases ecp <;> simp
    rw [h4] at ht
    exact hv.1 t ht

-- ===================================================================== connection-level reachability

/-- what an application (or the harness) can do with a connection: drive it (`poll`), reconfigure
    the windows, shut it down, ping — and any call of the stream layer that the handles
    (`SendRequest`, `SendStream`, `RecvStream`, `ResponseFuture`, …) make directly -/
inductive COp where
  | protoPoll (fuel : Nat)
  | clientPoll (fuel : Nat)
  | setTargetWindowSize (size : Nat)
  | setInitialWindowSize (size : Nat)
  | goAwayGracefully
  | goAwayFromUser (e : Reason)
  | goAwayNow (e : Reason)
  | userSendPing
  | userPollPong (tag : String)
  | dropUserPingsRx
  | takeUserPings
  | handle (op : Op)

def COp.apply (c : Conn) : COp → Conn
  | .protoPoll fuel => (c.protoPoll fuel).1
  | .clientPoll fuel => (c.clientPoll fuel).1
  | .setTargetWindowSize size => c.setTargetWindowSize size
  | .setInitialWindowSize size => (c.setInitialWindowSize size).1
  | .goAwayGracefully => c.goAwayGracefully
  | .goAwayFromUser e => c.goAwayFromUser e
  | .goAwayNow e => c.goAwayNow e
  | .userSendPing => c.userSendPing.1
  | .userPollPong t => (c.userPollPong t).1
  | .dropUserPingsRx => c.dropUserPingsRx
  | .takeUserPings => c.takeUserPings.1
  | .handle op => { c with streams := op.apply c.streams }

/-- window sizes are legal (`set_target_window_size` / `set_initial_window_size` assert it) -/
def COp.valid (c : Conn) : COp → Prop
  | .setTargetWindowSize size => size ≤ 2147483647
  | .setInitialWindowSize size => size ≤ 2147483647
  | .handle op => op.valid c.streams
  | _ => True

theorem COp.step_cinv {c : Conn} (h : CInv c) (op : COp) (hv : op.valid c) : CInv (op.apply c) := by
  cases op with
  | protoPoll fuel => exact protoPoll_cinv fuel h
  | clientPoll fuel => exact clientPoll_cinv fuel h
  | setTargetWindowSize size => exact setTargetWindowSize_cinv h size hv
  | setInitialWindowSize size => exact setInitialWindowSize_cinv h size hv
  | goAwayGracefully => exact goAwayGracefully_cinv h
  | goAwayFromUser e => exact goAwayFromUser_cinv h e
  | goAwayNow e => exact goAwayNow_cinv h e
  | userSendPing => exact userSendPing_cinv h
  | userPollPong t => exact userPollPong_cinv h t
  | dropUserPingsRx => exact dropUserPingsRx_cinv h
  | takeUserPings => exact takeUserPings_cinv h
  | handle op => exact h.op op hv

/-- connections reachable from a new client or server connection -/
inductive CReach : Conn → Prop where
  | client (cfg : Conn.Cfg) (hv : CfgValid cfg) : CReach (Conn.init cfg)
  | server (cfg : Conn.Cfg) (ecp : Bool) (pf : Bytes) (hv : CfgValid cfg) : CReach (Conn.initServer cfg ecp pf)
  | step {c : Conn} (op : COp) (h : CReach c) (hv : op.valid c) : CReach (op.apply c)
  /-- the environment: anything but the stream layer and the SETTINGS bookkeeping may change in any
      way (octets arriving on the transport, the transport taking or refusing writes, wakers, …) -/
  | env {c c' : Conn} (h : CReach c) (hs : c'.streams = c.streams) (hl : c'.settings = c.settings) : CReach c'

theorem creach_cinv {c : Conn} (h : CReach c) : CInv c := by
  induction h with
  | client cfg hv => exact init_cinv cfg hv
  | server cfg ecp pf hv => exact init_server_cinv cfg ecp pf hv
  | step op _ hv ih => exact COp.step_cinv ih op hv
  | env _ hs hl ih => unfold CInv; rw [hs, hl]; exact ih

/-- **the stream layer of every reachable connection is in a `Reach` state** — whatever the peer
    sends, however the transport chops reads and writes, whatever the application does: the
    connection-level theorems of `H2V/Props/C03.lean` apply to it -/
theorem creach_reach {c : Conn} (h : CReach c) : ∃ g, Reach g c.streams := (creach_cinv h).1

theorem creach_inv {c : Conn} (h : CReach c) : ∃ g, Inv false g c.streams :=
  let ⟨g, hg⟩ := creach_reach h; ⟨g, reach_inv hg⟩

end H2V.Lemmas.ConnRecvP
