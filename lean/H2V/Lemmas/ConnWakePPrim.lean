import H2V.Lemmas.ConnWakePBasic
import H2V.Lemmas.ConnWakePClone
/-
  ConnWakeP, part 2 — `State` transitions respect the state clauses of `SStep`; the waker-touching
  methods of `Stream` (`notify_send`, `notify_recv`, `notify_push`, `notify_capacity`,
  `assign_capacity`, `send_data`, `set_reset`) satisfy `SStep`; the primitive updates of `Streams` in
  "accumulator" form (`Step cx s0 s → Step cx s0 (f s)`), registered as backward `grind` rules so
  that the step lemma of a composite model function is `unfold f; grind`.
-/
namespace H2V.Lemmas.ConnWakeP
open H2V H2V.Model H2V.Model.Conn

-- ===================================================================== State

/-- a change of `State` that respects the three state clauses of `SStep` -/
def StateOK (x y : State) : Prop :=
  (x.isClosed = true → y.isClosed = true) ∧ (lostEos x = true → lostEos y = true) ∧
  (x.isRecvEndStream = true → y.isRecvEndStream = true ∨ lostEos y = true)

@[grind ←] theorem StateOK.refl (x : State) : StateOK x x := ⟨fun h => h, fun h => h, Or.inl⟩

/-- full case split of a `State` -/
macro "state_cases " x:ident : tactic =>
  `(tactic| rcases $x:ident with ⟨_|_|_|⟨_|_,_|_⟩|⟨_|_⟩|⟨_|_⟩|⟨_|⟨_|_|_⟩|⟨_|_|_⟩|_⟩⟩)

@[grind ←] theorem sendOpen_ok (x : State) (eos : Bool) : StateOK x (x.sendOpen eos).1 := by
  state_cases x <;> cases eos <;> simp [StateOK, lostEos, State.isClosed, State.isRecvEndStream, State.sendOpen]
@[grind ←] theorem recvOpen_ok (x : State) (eos info : Bool) : StateOK x (x.recvOpen eos info).1 := by
  state_cases x <;> cases eos <;> cases info <;>
    simp [StateOK, lostEos, State.isClosed, State.isRecvEndStream, State.recvOpen]
@[grind ←] theorem reserveRemote_ok (x : State) : StateOK x (x.reserveRemote).1 := by
  state_cases x <;> simp [StateOK, lostEos, State.isClosed, State.isRecvEndStream, State.reserveRemote]
@[grind ←] theorem reserveLocal_ok (x : State) : StateOK x (x.reserveLocal).1 := by
  state_cases x <;> simp [StateOK, lostEos, State.isClosed, State.isRecvEndStream, State.reserveLocal]
@[grind ←] theorem recvClose_ok (x : State) : StateOK x (x.recvClose).1 := by
  state_cases x <;> simp [StateOK, lostEos, State.isClosed, State.isRecvEndStream, State.recvClose]
@[grind ←] theorem recvReset_ok (x : State) (sid : Nat) (r : Reason) (q : Bool) : StateOK x (x.recvReset sid r q) := by
  state_cases x <;> cases q <;>
    simp [StateOK, lostEos, State.isClosed, State.isRecvEndStream, State.recvReset, PErr.remoteReset]
@[grind ←] theorem handleError_ok (x : State) (e : PErr) : StateOK x (x.handleError e) := by
  state_cases x <;> simp [StateOK, lostEos, State.isClosed, State.isRecvEndStream, State.handleError]
@[grind ←] theorem recvEof_ok (x : State) : StateOK x x.recvEof := by
  state_cases x <;> simp [StateOK, lostEos, State.isClosed, State.isRecvEndStream, State.recvEof]
@[grind →] theorem sendClose_ok {x y : State} (h : x.sendClose = some y) : StateOK x y := by
  state_cases x <;> simp [State.sendClose] at h <;> subst h <;>
    simp [StateOK, lostEos, State.isClosed, State.isRecvEndStream]
@[grind ←] theorem setReset_ok (x : State) (sid : Nat) (r : Reason) (i : Initiator) : StateOK x (x.setReset sid r i) := by
  simp [StateOK, lostEos, State.isClosed, State.isRecvEndStream, State.setReset]
@[grind ←] theorem setScheduledReset_ok (x : State) (r : Reason) : StateOK x (x.setScheduledReset r) := by
  simp [StateOK, lostEos, State.isClosed, State.isRecvEndStream, State.setScheduledReset]

-- ===================================================================== stream updates

@[grind =] theorem inert_iff (a b : Stream) : Inert a b ↔ (b.key = a.key ∧ b.id = a.id ∧ b.state = a.state ∧
    b.sendTask = a.sendTask ∧ b.openTask = a.openTask ∧ b.recvTask = a.recvTask ∧ b.pushTask = a.pushTask ∧
    b.sendCapacityInc = a.sendCapacityInc ∧ b.pendingRecv = a.pendingRecv) :=
  ⟨fun h => ⟨h.1, h.2, h.3, h.4, h.5, h.6, h.7, h.8, h.9⟩,
   fun ⟨h1, h2, h3, h4, h5, h6, h7, h8, h9⟩ => ⟨h1, h2, h3, h4, h5, h6, h7, h8, h9⟩⟩

/-- everything `SStep` talks about untouched, except `state` -/
structure InertS (a b : Stream) : Prop where
  key : b.key = a.key
  id : b.id = a.id
  sendTask : b.sendTask = a.sendTask
  openTask : b.openTask = a.openTask
  recvTask : b.recvTask = a.recvTask
  pushTask : b.pushTask = a.pushTask
  cap : b.sendCapacityInc = a.sendCapacityInc
  recv : b.pendingRecv = a.pendingRecv

@[grind =] theorem inertS_iff (a b : Stream) : InertS a b ↔ (b.key = a.key ∧ b.id = a.id ∧
    b.sendTask = a.sendTask ∧ b.openTask = a.openTask ∧ b.recvTask = a.recvTask ∧ b.pushTask = a.pushTask ∧
    b.sendCapacityInc = a.sendCapacityInc ∧ b.pendingRecv = a.pendingRecv) :=
  ⟨fun h => ⟨h.1, h.2, h.3, h.4, h.5, h.6, h.7, h.8⟩,
   fun ⟨h1, h2, h3, h4, h5, h6, h7, h8⟩ => ⟨h1, h2, h3, h4, h5, h6, h7, h8⟩⟩

@[grind ←] theorem sstep_of_state {a b : Stream} (w : List String) (h : InertS a b) (hs : StateOK a.state b.state) :
    SStep w a b :=
  SStep.of_state w h.key h.id h.sendTask h.openTask h.recvTask h.pushTask h.cap h.recv hs.1 hs.2.1 hs.2.2

/-- everything untouched except that `pending_recv` lost entries at the front (`pop_front`, `clear`) -/
structure InertPop (a b : Stream) : Prop where
  key : b.key = a.key
  id : b.id = a.id
  state : b.state = a.state
  sendTask : b.sendTask = a.sendTask
  openTask : b.openTask = a.openTask
  recvTask : b.recvTask = a.recvTask
  pushTask : b.pushTask = a.pushTask
  cap : b.sendCapacityInc = a.sendCapacityInc
  recv : ∃ n, b.pendingRecv = a.pendingRecv.drop n

theorem InertPop.sstep {a b : Stream} (h : InertPop a b) (w : List String) : SStep w a b where
  key := h.key
  id := h.id
  closed := by rw [h.state]; exact fun h => h
  lost := by rw [h.state]; exact fun h => h
  eos := by rw [h.state]; exact Or.inl
  sendTask := Or.inl h.sendTask
  openTask := Or.inl h.openTask
  recvTask := Or.inl h.recvTask
  pushTask := Or.inl h.pushTask
  capKeep := by rw [h.cap]; exact fun h => h
  capRise := Or.inl h.cap
  recvPush := Or.inl h.recv

theorem notifySend_sstep (a : Stream) : SStep a.notifySend.2 a a.notifySend.1 := by
  cases h1 : a.sendTask <;> cases h2 : a.openTask <;> simp only [Stream.notifySend, h1, h2] <;>
    refine ⟨rfl, rfl, fun h => h, fun h => h, Or.inl, ?_, ?_, .refl _ _, .refl _ _, fun h => h, Or.inl rfl,
      Or.inl ⟨0, rfl⟩⟩ <;> simp [SlotStep, h1, h2]

theorem notifyRecv_sstep (a : Stream) : SStep a.notifyRecv.2 a a.notifyRecv.1 := by
  cases h1 : a.recvTask <;> simp only [Stream.notifyRecv, h1] <;>
    refine ⟨rfl, rfl, fun h => h, fun h => h, Or.inl, .refl _ _, .refl _ _, ?_, .refl _ _, fun h => h, Or.inl rfl,
      Or.inl ⟨0, rfl⟩⟩ <;> simp [SlotStep, h1]

theorem notifyPush_sstep (a : Stream) : SStep a.notifyPush.2 a a.notifyPush.1 := by
  cases h1 : a.pushTask <;> simp only [Stream.notifyPush, h1] <;>
    refine ⟨rfl, rfl, fun h => h, fun h => h, Or.inl, .refl _ _, .refl _ _, .refl _ _, ?_, fun h => h, Or.inl rfl,
      Or.inl ⟨0, rfl⟩⟩ <;> simp [SlotStep, h1]

theorem notifyCapacity_sstep (a : Stream) : SStep a.notifyCapacity.2 a a.notifyCapacity.1 := by
  cases h1 : a.sendTask <;> cases h2 : a.openTask <;> simp only [Stream.notifyCapacity, Stream.notifySend, h1, h2] <;>
    refine ⟨rfl, rfl, fun h => h, fun h => h, Or.inl, ?_, ?_, .refl _ _, .refl _ _, fun _ => rfl, Or.inr ?_,
      Or.inl ⟨0, rfl⟩⟩ <;> simp [SlotStep, h1, h2] <;> grind

theorem assignCapacity_sstep (a : Stream) (c m : Nat) : SStep (a.assignCapacity c m).2 a (a.assignCapacity c m).1 := by
  unfold Stream.assignCapacity
  simp only
  split
  · have h0 : SStep [] a { a with sendFlow := (a.sendFlow.assignCapacity c).1 } := Inert.sstep (by inert) []
    exact h0.trans (notifyCapacity_sstep _)
  · exact Inert.sstep (by inert) _

/-- `Stream::send_data`, through its clone (see `ConnWakePClone.lean`: `Stream.sendData` itself must
    never be unfolded) -/
theorem sendDataC_sstep (capf : Stream → Nat → Nat) (a : Stream) (len m : Nat) :
    ∃ b w f, sendDataC capf a len m = (b, w, f) ∧ SStep w a b := by
  rw [sendDataC_def]
  rcases h : a.sendFlow.sendData len with ⟨fl, r⟩
  simp only
  generalize hs1 : ({ a with sendFlow := fl, bufferedSendData := wrapSubUsize a.bufferedSendData len, requestedSendCapacity := wrapSubU32 a.requestedSendCapacity len } : Stream) = s1
  have h0 : SStep [] a s1 := by subst hs1; exact Inert.sstep (by inert) []
  by_cases hc : capf a m < capf s1 m
  · rcases hn : s1.notifyCapacity with ⟨b, w⟩
    have h1 := notifyCapacity_sstep s1
    rw [hn] at h1
    simp only [if_pos hc]
    exact ⟨_, _, _, rfl, SStep.mono (by simp) (h0.trans h1)⟩
  · simp only [if_neg hc]
    exact ⟨_, _, _, rfl, h0⟩

theorem sendData_sstep (a : Stream) (len m : Nat) : ∃ b w f, a.sendData len m = (b, w, f) ∧ SStep w a b := by
  rw [sendDataC.eq]; exact sendDataC_sstep _ _ _ _

theorem setReset_sstep (a : Stream) (r : Reason) (i : Initiator) : SStep (a.setReset r i).2 a (a.setReset r i).1 := by
  have hs := setReset_ok a.state a.id r i
  cases h1 : a.sendTask <;> cases h2 : a.openTask <;> cases h3 : a.recvTask <;> cases h4 : a.pushTask <;>
    simp only [Stream.setReset, Stream.notifySend, Stream.notifyPush, Stream.notifyRecv, h1, h2, h3, h4] <;>
    refine ⟨rfl, rfl, hs.1, hs.2.1, hs.2.2, ?_, ?_, ?_, ?_, fun h => h, Or.inl rfl, Or.inl ⟨0, rfl⟩⟩ <;>
    simp [SlotStep, h1, h2, h3, h4]

/-- after `set_reset` all four waker slots are empty -/
theorem setReset_slots (a : Stream) (r : Reason) (i : Initiator) :
    (a.setReset r i).1.sendTask = none ∧ (a.setReset r i).1.openTask = none ∧
    (a.setReset r i).1.recvTask = none ∧ (a.setReset r i).1.pushTask = none := by
  unfold Stream.setReset Stream.notifySend Stream.notifyPush Stream.notifyRecv
  cases a.sendTask <;> cases a.openTask <;> cases a.recvTask <;> cases a.pushTask <;> simp

-- ===================================================================== accumulator forms

attribute [grind ←] Step.refl

section acc
variable {cx : Option String} {s0 s : Streams}

@[grind ←] theorem panic_acc (m : String) (h : Step cx s0 s) : Step cx s0 (s.panic m) := h.trans (panic_step _ _ _)
@[grind ←] theorem unsup_acc (m : String) (h : Step cx s0 s) : Step cx s0 (s.unsup m) := h.trans (unsup_step _ _ _)
@[grind ←] theorem wake_acc (w : List String) (h : Step cx s0 s) : Step cx s0 (s.wake w) := h.trans (wake_step _ _ _)
@[grind ←] theorem notifyTask_acc (h : Step cx s0 s) : Step cx s0 s.notifyTask := h.trans (notifyTask_step _ _)
@[grind ←] theorem modPrio_acc (f : Prioritize → Prioritize)
    (hf : (f s.actions.send.prioritize).maxBufferSize = s.actions.send.prioritize.maxBufferSize)
    (h : Step cx s0 s) : Step cx s0 (s.modPrio f) := h.trans (modPrio_step _ _ _ hf)
@[grind ←] theorem modSend_acc (f : Send → Send)
    (hf : (f s.actions.send).prioritize.maxBufferSize = s.actions.send.prioritize.maxBufferSize)
    (h : Step cx s0 s) : Step cx s0 (s.modSend f) := h.trans (modSend_step _ _ _ hf)
@[grind ←] theorem modRecv_acc (f : Recv → Recv) (h : Step cx s0 s) : Step cx s0 (s.modRecv f) :=
  h.trans (modRecv_step _ _ _)
@[grind ←] theorem modCounts_acc (f : Counts → Counts) (h : Step cx s0 s) : Step cx s0 (s.modCounts f) :=
  h.trans (modCounts_step _ _ _)
@[grind ←] theorem modCountsA_acc (m : String) (f : Counts → Option Counts) (h : Step cx s0 s) :
    Step cx s0 (s.modCountsA m f) := h.trans (modCountsA_step _ _ _ _)
@[grind ←] theorem setQ_acc (q : QName) (l : List Nat) (h : Step cx s0 s) : Step cx s0 (s.setQ q l) :=
  h.trans (setQ_step _ _ _ _)
@[grind ←] theorem setCounts_acc (c : Counts) (h : Step cx s0 s) : Step cx s0 { s with counts := c } :=
  h.trans (setCounts_step _ _ _)
@[grind ←] theorem setRefs_acc (n : Nat) (h : Step cx s0 s) : Step cx s0 { s with refs := n } :=
  h.trans (setRefs_step _ _ _)
@[grind ←] theorem setConnError_acc (e : PErr) (h : Step cx s0 s) :
    Step cx s0 { s with actions := { s.actions with connError := some e } } := h.trans (setConnError_step _ _ _)

@[grind ←] theorem modStream_acc (k : Nat) (f : Stream → Stream)
    (hf : SStep [] (s.stream k) (f (s.stream k))) (h : Step cx s0 s) : Step cx s0 (s.modStream k f) := by
  refine h.trans (modStream_step cx s k f fun a ha => ?_)
  rw [stream_eq_of_get? ha] at hf; exact hf

@[grind ←] theorem sstep_of_inert {a b : Stream} (w : List String) (h : Inert a b) : SStep w a b := h.sstep w
@[grind ←] theorem sstep_of_inertPop {a b : Stream} (w : List String) (h : InertPop a b) : SStep w a b := h.sstep w

@[grind ←] theorem modStreamW_acc (k : Nat) (f : Stream → Stream × List String)
    (hf : SStep (f (s.stream k)).2 (s.stream k) (f (s.stream k)).1) (h : Step cx s0 s) :
    Step cx s0 (s.modStreamW k f) := by
  refine h.trans (modStreamW_step cx s k f fun a ha => ?_)
  rw [stream_eq_of_get? ha] at hf; exact hf

attribute [grind ←] notifySend_sstep notifyRecv_sstep notifyPush_sstep notifyCapacity_sstep assignCapacity_sstep
  setReset_sstep

/-- `{ s with store := s.store.unlink id }` -/
@[grind ←] theorem unlink_acc (id : Nat) (h : Step cx s0 s) : Step cx s0 { s with store := s.store.unlink id } := by
  refine h.trans ⟨List.prefix_refl _, Nat.le_refl _, fun h => h.unlink _, fun _ _ h => h,
    fun _ a _ h => Or.inr ⟨a, h, SStep.refl _ _⟩, Or.inl rfl, fun h => h, rfl⟩

/-- `Ptr::remove` together with the bookkeeping of the leaked receive buffer entries -/
@[grind ←] theorem remove_acc (k n : Nat) (h : Step cx s0 s) :
    Step cx s0 { s with store := s.store.remove k, recvBufferLeaked := n } := by
  refine h.trans ⟨List.prefix_refl _, Nat.le_refl _, fun h => h.remove _, ?_, ?_, Or.inl rfl, fun h => h, rfl⟩
  · intro k' _ h
    show (s.store.remove k).get? k' = none
    rw [Store.get?_remove]; split <;> simp [h]
  · intro k' a _ h
    show (s.store.remove k).get? k' = none ∨ ∃ b, (s.store.remove k).get? k' = some b ∧ _
    rw [Store.get?_remove]
    by_cases hk : k' = k
    · exact Or.inl (by simp [hk])
    · exact Or.inr ⟨a, by simp [hk, h], SStep.refl _ _⟩

/-- `(s.store.unlink id).remove k` (the clean-up of `send_request` / `send_push_promise`) -/
@[grind ←] theorem unlinkRemove_acc (id k : Nat) (h : Step cx s0 s) :
    Step cx s0 { s with store := (s.store.unlink id).remove k } := by
  have h1 := unlink_acc id h
  have h2 := remove_acc k s.recvBufferLeaked h1
  exact h2

/-- `Store::insert` -/
@[grind ←] theorem insert_acc (a : Stream) (h : Step cx s0 s) : Step cx s0 { s with store := (s.store.insert a).1 } := by
  refine h.trans ⟨List.prefix_refl _, Nat.le_succ _, fun h => h.insert _, ?_, ?_, Or.inl rfl, fun h => h, rfl⟩
  · intro k hk h
    show (s.store.insert a).1.get? k = none
    rw [Store.get?_insert, h]
    simp only
    rw [if_neg (Nat.ne_of_lt hk)]
  · intro k x _ h
    refine Or.inr ⟨x, ?_, SStep.refl _ _⟩
    show (s.store.insert a).1.get? k = some x
    rw [Store.get?_insert, h]

/-- `s.setStream b` where `b` is an update of the entry it replaces -/
@[grind ←] theorem setStream_acc (b : Stream) (hb : SStep [] (s.stream b.key) b) (hk : (s.store.get? b.key).isSome = true)
    (h : Step cx s0 s) : Step cx s0 (s.setStream b) := by
  obtain ⟨a, ha⟩ := Option.isSome_iff_exists.mp hk
  rw [stream_eq_of_get? ha] at hb
  exact h.trans (setStream_step cx s ha hb)

end acc

end H2V.Lemmas.ConnWakeP
