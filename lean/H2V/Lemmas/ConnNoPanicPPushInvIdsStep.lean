import H2V.Lemmas.ConnNoPanicPPushInvIds
/-
  C08 (no panic) — PUSH_PROMISE bookkeeping, stage 2, part 10: `IBR` for `send_push_promise`, `recv_push_promise`,
  `drop_stream_ref`, and `IBR_step` over every operation of ConnResetP's `Op`.
-/
namespace H2V.Lemmas.ConnNoPanicP
open H2V H2V.Model H2V.Model.Conn H2V.Lemmas.ConnCountsP
open H2V.Lemmas.ConnResetP (Op run)
open H2V.Lemmas.ConnCtlP (ppParent ppChild ppRest recvPushPromise_eq view)
attribute [local irreducible] wrapSubU32 wrapSubUsize

theorem DR.modStream (s : Streams) (k : Nat) (f : Stream → Stream) (h : ∀ x, Inert x (f x)) : DR s (s.modStream k f) :=
  .of_ltw (modStream_lt s k f h).w (by rw [modStream_counts]) (by rw [ConnResetP.modStream_recv]; exact .refl _)
theorem DR.modStreamW (s : Streams) (k : Nat) (f : Stream → Stream × List String) (h : ∀ x, Inert x (f x).1) :
    DR s (s.modStreamW k f) :=
  .of_ltw (modStreamW_lt s k f h).w (by rw [ConnResetP.modStreamW_counts]) (by rw [ConnResetP.modStreamW_recv]; exact .refl _)

theorem DR.keysOK {ks : List Nat} {s s' : Streams} (h : LTw ks s s') (hk : KeysOK s) : KeysOK s' := h.keys.keysOK hk

-- ===================================================================== StreamRef::send_push_promise

theorem refSendPushPromise_ibr {s : Streams} (hn : NPI (fun _ => False) s) (hi : IBR s) (parent : Nat) (valid : Bool)
    (fields : List Hpack.Field) : IBR (s.refSendPushPromise parent valid fields).1 := by
  unfold Streams.refSendPushPromise Streams.sendReserveLocal
  generalize hso : s.sendOpenId = p
  obtain ⟨s1, r⟩ := p
  have e1 : EvB false s s1 := EvB.of_fst_eq hso (sendOpenId_ev (ρ := false) s)
  have h1 : IBR s1 := hi.of_ev hn.keys e1 (HR.of_fst_eq hso (sendOpenId_hr s))
  have hk1 : KeysOK s1 := e1.keysOK hn.keys
  cases r with
  | error e => exact h1
  | ok pid =>
    simp only []
    have hloc1 : s1.counts.isLocalInit pid = true := by rw [(sendOpenId_next hso).1]; exact hn.nl pid (sendOpenId_ok hso)
    generalize hsP : (if s1.store.contains pid = true then s1.panic _ else s1) = sP
    have hP : IBR sP ∧ KeysOK sP ∧ sP.counts.isLocalInit pid = true := by
      rw [← hsP]; split
      · have e := panic_ev (ρ := false) s1 "assertion failed: self.ids.insert(id, index).is_none()"
        exact ⟨h1.of_ev hk1 e (panic_hr _ _), e.keysOK hk1, by rw [panic_counts]; exact hloc1⟩
      · exact ⟨h1, hk1, hloc1⟩
    have h2 : IBR { sP with store := (sP.store.insert (Stream.new pid sP.actions.send.initWindowSz sP.recv.initWindowSz)).1 } := by
      refine hP.1.insert _ (fun hl => ?_)
      have : (Stream.new pid sP.actions.send.initWindowSz sP.recv.initWindowSz).id = pid := rfl
      rw [this, hP.2.2] at hl; cases hl
    have hk2 : KeysOK { sP with store := (sP.store.insert (Stream.new pid sP.actions.send.initWindowSz sP.recv.initWindowSz)).1 } :=
      hP.2.1.insert _
    generalize ({ sP with store := (sP.store.insert (Stream.new pid sP.actions.send.initWindowSz sP.recv.initWindowSz)).1 } : Streams) = s2 at h2 hk2 ⊢
    generalize (sP.store.insert (Stream.new pid sP.actions.send.initWindowSz sP.recv.initWindowSz)).2 = child
    split
    · exact h2
    · next st' _ heq =>
      have hlt3 : LT [child] s2 (s2.modStream child fun st => { st with state := st', isPendingPush := true }) :=
        modStream_lt _ _ _ (fun x => ⟨rfl, rfl, rfl, rfl, id⟩)
      have h3 : IBR (s2.modStream child fun st => { st with state := st', isPendingPush := true }) :=
        h2.of_dr (hlt3.keys.keysOK hk2) (.of_ltw hlt3.w (by rw [modStream_counts]) (by rw [ConnResetP.modStream_recv]; exact .refl _))
      have hk3 := hlt3.keys.keysOK hk2
      generalize (s2.modStream child fun st => { st with state := st', isPendingPush := true }) = s3 at h3 hk3 ⊢
      split
      · exact h3
      · generalize hsp : s3.sendPushPromise parent child pid fields = q
        obtain ⟨s4, r4⟩ := q
        have hlt4 : LT [parent] s3 s4 := LT.of_fst_eq hsp (sendPushPromise_lt s3 parent child pid fields)
        have hrole4 : s4.counts.isServer = s3.counts.isServer := by
          have := congrArg (·.isServer) (ConnCtlP.view_sendPushPromise s3 parent child pid fields)
          rw [hsp] at this; exact this
        have hk4 := hlt4.keys.keysOK hk3
        have h4 : IBR s4 := h3.of_dr hk4 (.of_ltw hlt4.w hrole4 (HR.of_fst_eq hsp (sendPushPromise_hr s3 parent child pid fields)).next)
        cases r4 with
        | error e =>
          simp only []
          exact h4.of_sub (fun x hx => (List.mem_filter.mp hx).1) rfl rfl
        | ok u =>
          simp only []
          have h5 : IBR { s4 with refs := s4.refs + 1 } := h4.of_sub (fun _ hx => hx) rfl rfl
          exact h5.of_ev ⟨hk4.nodup, hk4.fresh⟩ (refInc_ev (ρ := false) _ _) (refInc_hr _ _)

-- ===================================================================== Inner::recv_push_promise

theorem ppRest_ibr {s : Streams} (hn : NPI (fun _ => False) s) (hi : IBR s) (pk : Nat) (h : HeadersIn)
    (hkF : KeysOK (ppRest s pk h).1) : IBR (ppRest s pk h).1 := by
  unfold ppRest at hkF ⊢
  generalize s.ensureCanReserve = ec at hkF ⊢
  cases ec with
  | error e => exact hi
  | ok u =>
    dsimp only at hkF ⊢
    generalize hro : s.recvOpen h.sid true = p at hkF ⊢
    obtain ⟨s1, res⟩ := p
    have e1 : EvB false s s1 := EvB.of_fst_eq hro (recvOpen_ev (ρ := false) s h.sid true)
    have h1 : IBR s1 := hi.of_ev hn.keys e1 (HR.of_fst_eq hro (recvOpen_hr s h.sid true))
    have hk1 : KeysOK s1 := e1.keysOK hn.keys
    cases res with
    | error e => exact h1
    | ok b =>
      cases b
      · exact h1
      · simp only [] at hkF ⊢
        generalize hsP : (if s1.store.contains h.sid = true then s1.panic _ else s1) = sP at hkF ⊢
        have hP : IBR sP ∧ (∀ n, sP.recv.nextStreamId = some n → h.sid < n) := by
          rw [← hsP]; split
          · have e := panic_ev (ρ := false) s1 "assertion failed: self.ids.insert(id, index).is_none()"
            exact ⟨h1.of_ev hk1 e (panic_hr _ _), by rw [panic_recv]; exact recvOpen_true_above hro⟩
          · exact ⟨h1, recvOpen_true_above hro⟩
        have h2 : IBR { sP with store := (sP.store.insert (Stream.new h.sid sP.actions.send.initWindowSz sP.recv.initWindowSz)).1 } :=
          hP.1.insert _ (fun _ => hP.2)
        generalize ({ sP with store := (sP.store.insert (Stream.new h.sid sP.actions.send.initWindowSz sP.recv.initWindowSz)).1 } : Streams) = s2 at h2 hkF ⊢
        generalize (sP.store.insert (Stream.new h.sid sP.actions.send.initWindowSz sP.recv.initWindowSz)).2 = child at hkF ⊢
        have htr : (s2.transition child (ppChild child h)) =
            ((ppChild child h s2).1.transitionAfter child (s2.stream child).isPendingResetExpiration, (ppChild child h s2).2) := rfl
        rw [htr] at hkF ⊢
        have hd3 : DR s2 ((ppChild child h s2).1.transitionAfter child (s2.stream child).isPendingResetExpiration) :=
          (DR.of_le (ppChild_le child h s2) (ppChild_hr child h s2)).trans (.transitionAfter _ _ _)
        generalize ((ppChild child h s2).1.transitionAfter child (s2.stream child).isPendingResetExpiration) = s4 at hkF hd3 ⊢
        generalize (ppChild child h s2).2 = r3 at hkF ⊢
        dsimp only at hkF ⊢
        cases r3 with
        | error e => exact h2.of_dr hkF hd3
        | ok b =>
          cases b
          · exact h2.of_dr hkF hd3
          · dsimp only at hkF ⊢
            refine h2.of_dr hkF (hd3.trans ?_)
            refine DR.trans ?_ (DR.modStreamW _ _ _ (fun x => notifyPush_inert x))
            split
            · exact .refl _
            · exact (DR.modStream _ _ _ (fun _ => by inert_tac)).trans (DR.modStream _ _ _ (fun _ => by inert_tac))

theorem recvPushPromise_ibr {s : Streams} (hn : NPI (fun _ => False) s) (hi : IBR s) (id : Nat) (h : HeadersIn) :
    IBR (s.recvPushPromise id h).1 := by
  have hkF : KeysOK (s.recvPushPromise id h).1 := (recvPushPromise_ev s id h).keysOK hn.keys
  rw [recvPushPromise_eq] at hkF ⊢
  split
  · exact hi
  · next hsv =>
    rw [if_neg hsv] at hkF
    have hopen : IBR (s.recvOpen h.sid true).1 :=
      hi.of_ev hn.keys (recvOpen_ev (ρ := false) s h.sid true) (recvOpen_hr s h.sid true)
    have hpar : IBR (ppParent s id h.sid).1 := by
      rcases ppParent_cases s id h.sid with e | e
      · rw [e]; exact hi
      · rw [e]; exact hopen
    generalize hpp : ppParent s id h.sid = p at hkF hpar ⊢
    obtain ⟨s1, r⟩ := p
    cases r with
    | error e => exact hpar
    | ok o =>
      cases o with
      | none => exact hpar
      | some pk =>
        obtain ⟨e1, _⟩ := ppParent_some hpp
        subst e1
        exact ppRest_ibr hn hi pk h hkF

-- ===================================================================== drop_stream_ref: `recv.next_stream_id` is not touched

theorem dropFold_next : ∀ (L : List Nat) (u : Streams), RNext u.recv.nextStreamId (dropFold L u).recv.nextStreamId := by
  intro L
  induction L with
  | nil => intro u; exact .refl _
  | cons c rest ih =>
    intro u
    rw [dropFold_eq, List.foldl_cons, ← dropFold_eq]
    refine RNext.trans ?_ (ih _)
    rw [dropStep_eq]
    have h1 : RNext u.recv.nextStreamId (u.modStream c fun st => { st with isPendingAccept := false }).recv.nextStreamId := by
      rw [ConnResetP.modStream_recv]; exact .refl _
    exact h1.trans (transition_hr _ c _ (dropStepClosure_hr c)).next

theorem dropStreamRef_next (s : Streams) (k : Nat) : RNext s.recv.nextStreamId (s.dropStreamRef k).recv.nextStreamId := by
  rw [dropStreamRef_eq]
  refine (dropPre_hr s k).next.trans ?_
  generalize dropPre s k = t
  have : (t.transition k (dropClosure k)).1 = (dropClosure k t).1.transitionAfter k (t.stream k).isPendingResetExpiration := rfl
  rw [this]
  refine RNext.trans ?_ (transitionAfter_hr _ _ _).next
  unfold dropClosure
  dsimp only
  split
  · refine RNext.trans ?_ (dropFold_next _ _)
    rw [ConnResetP.modStream_recv]
    exact ((maybeCancel_hr t k).trans (releaseClosedCapacity_hr _ k)).next
  · exact (maybeCancel_hr t k).next

-- ===================================================================== every operation

/-- **`IBR` is kept by every operation** -/
theorem IBR_step {s : Streams} (hn : NPI (fun _ => False) s) (hj : IBR s) (op : Op) : IBR (op.apply s) := by
  have hk := hn.keys
  cases op <;> simp only [Op.apply]
  case recvHeaders h => exact recvHeaders_ibr hn hj h
  case recvPushPromise id h => exact recvPushPromise_ibr hn hj id h
  case innerSendReset id r => exact innerSendReset_ibr hn hj id r
  case sendRequest a b c d => exact sendRequest_ibr hn hj a b c d
  case refSendPushPromise p v f => exact refSendPushPromise_ibr hn hj p v f
  case dropStreamRef k =>
    exact hj.of_dr ((dropStreamRef_ev (ρ := false) s k).keysOK hk)
      (.of_ld (evF_ld (dropStreamRef_ev (ρ := false) s k)) (dropStreamRef_ev (ρ := false) s k).nx.role (dropStreamRef_next s k))
  case recvEof b =>
    exact hj.of_dr ((recvEof_evT s b).keysOK hk) (.of_ld (recvEof_ld s b) (recvEof_evT s b).nx.role (recvEof_hr s b).next)
  case clearExpiredResetStreams n =>
    exact hj.of_dr ((clearExpiredResetStreams_evT n s).keysOK hk)
      (.of_ld (clearExpiredResetStreams_ld n s) (clearExpiredResetStreams_evT n s).nx.role (clearExpiredResetStreams_hr n s).next)
  case recvData id p eos pad => exact hj.of_ev hk (recvData_ev (ρ := false) s id p eos pad) (recvData_hr s id p eos pad)
  case recvReset id r => exact hj.of_ev hk (recvReset_ev (ρ := false) s id r) (recvReset_hr s id r)
  case recvWindowUpdate id inc => exact hj.of_ev hk (recvWindowUpdate_ev (ρ := false) s id inc) (recvWindowUpdate_hr s id inc)
  case recvGoAway l => exact hj.of_ev hk (recvGoAway_ev (ρ := false) s l) (recvGoAway_hr s l)
  case handleError e => exact hj.of_ev hk (handleError_ev (ρ := false) s e) (handleError_hr s e)
  case recvGoAwayFrame l r d => exact hj.of_ev hk (recvGoAwayFrame_ev (ρ := false) s l r d) (recvGoAwayFrame_hr s l r d)
  case setTargetConnectionWindow t => exact hj.of_ev hk (setTargetConnectionWindow_ev (ρ := false) s t) (setTargetConnectionWindow_hr s t)
  case applyRemoteSettings v b => exact hj.of_ev hk (applyRemoteSettings_ev (ρ := false) s v b) (applyRemoteSettings_hr s v b)
  case applyLocalSettingsFrame v => exact hj.of_ev hk (applyLocalSettingsFrame_ev (ρ := false) s v) (applyLocalSettingsFrame_hr s v)
  case pollComplete fuel w io tag => exact hj.of_ev hk (pollComplete_ev (ρ := false) fuel s w io tag) (pollComplete_hr fuel s w io tag)
  case pollSendPendingRefusal fuel w io tag =>
    exact hj.of_ev hk (pollSendPendingRefusal_ev (ρ := false) fuel s w io tag) (pollSendPendingRefusal_hr fuel s w io tag)
  case wake t => exact hj.of_ev hk (wake_ev (ρ := false) s t) (wake_hr s t)
  case clearWakes => exact hj.of_sub (s' := { s with wakes := [] }) (fun _ hx => hx) rfl rfl
  case panic m => exact hj.of_ev hk (panic_ev (ρ := false) s m) (panic_hr s m)
  case cloneHandle => exact hj.of_ev hk (cloneHandle_ev (ρ := false) s) (cloneHandle_hr s)
  case dropHandle => exact hj.of_ev hk (dropHandle_ev (ρ := false) s) (dropHandle_hr s)
  case pollPendingOpen p t => exact hj.of_ev hk (pollPendingOpen_ev (ρ := false) s p t) (pollPendingOpen_hr s p t)
  case nextIncoming => exact hj.of_ev hk (nextIncoming_ev (ρ := false) s) (nextIncoming_hr s)
  case recvTakeRequest k => exact hj.of_ev hk (recvTakeRequest_ev (ρ := false) s k) (recvTakeRequest_hr s k)
  case cloneStreamRef k => exact hj.of_ev hk (cloneStreamRef_ev (ρ := false) s k) (cloneStreamRef_hr s k)
  case refSendResponse k f eos => exact hj.of_ev hk (refSendResponse_ev (ρ := false) s k f eos) (refSendResponse_hr s k f eos)
  case refSendInformationalHeaders k f =>
    exact hj.of_ev hk (refSendInformationalHeaders_ev (ρ := false) s k f) (refSendInformationalHeaders_hr s k f)
  case refSendData k len eos => exact hj.of_ev hk (refSendData_ev (ρ := false) s k len eos) (refSendData_hr s k len eos)
  case refSendTrailers k f => exact hj.of_ev hk (refSendTrailers_ev (ρ := false) s k f) (refSendTrailers_hr s k f)
  case refReserveCapacity k c => exact hj.of_ev hk (refReserveCapacity_ev (ρ := false) s k c) (refReserveCapacity_hr s k c)
  case pollCapacity k t => exact hj.of_ev hk (pollCapacity_ev (ρ := false) s k t) (pollCapacity_hr s k t)
  case refSendReset k r => exact hj.of_ev hk (refSendReset_ev (ρ := false) s k r) (refSendReset_hr s k r)
  case pollReset k m t => exact hj.of_ev hk (pollReset_ev (ρ := false) s k m t) (pollReset_hr s k m t)
  case recvPollResponse fuel k t => exact hj.of_ev hk (recvPollResponse_ev (ρ := false) fuel s k t) (recvPollResponse_hr fuel s k t)
  case recvPollInformational k t => exact hj.of_ev hk (recvPollInformational_ev (ρ := false) s k t) (recvPollInformational_hr s k t)
  case refPollData k t => exact hj.of_ev hk (refPollData_ev (ρ := false) s k t) (refPollData_hr s k t)
  case recvPollTrailers k t => exact hj.of_ev hk (recvPollTrailers_ev (ρ := false) s k t) (recvPollTrailers_hr s k t)
  case refReleaseCapacity k c => exact hj.of_ev hk (refReleaseCapacity_ev (ρ := false) s k c) (refReleaseCapacity_hr s k c)
  case refClearRecvBuffer k => exact hj.of_ev hk (refClearRecvBuffer_ev (ρ := false) s k) (refClearRecvBuffer_hr s k)

end H2V.Lemmas.ConnNoPanicP
