import H2V.Lemmas.CodecRoundTrip
import H2V.Lemmas.CodecWriter
/-
  Codec lemmas, part 9 (A–D together): a sequence of serialised frames, cut into chunks in any way
  by the transport, is delivered by `FramedRead` as exactly that sequence of frames.
-/
namespace H2V.Lemmas.Codec
open H2V H2V.Model.Frame H2V.Model.CodecRead

/-- `bytes` is one complete frame within the receiver's limit which `decode_frame` (between header
    blocks) turns into `f` without touching its state -/
structure FrameBytes (maxLen : Nat) (bytes : Bytes) (f : Model.Frame.Frame) : Prop where
  complete : bytes.length = rd24 bytes + 9
  within : rd24 bytes ≤ maxLen
  decodes : ∀ r : Reader, r.partialBlk = none → decodeFrame r bytes = (r, .frame f)

theorem atBoundary_eta (r : Reader) (hb : AtBoundary r) : ({ r with buf := [], need := none } : Reader) = r := by
  obtain ⟨h1, h2⟩ := hb
  cases r
  simp only at h1 h2
  subst h1 h2
  rfl

/-- exactly one complete frame arrives at a frame boundary -/
theorem feed_one_frame (maxLen : Nat) (bytes : Bytes) (f : Model.Frame.Frame) (hf : FrameBytes maxLen bytes f)
    (r : Reader) (hb : AtBoundary r) (hpb : r.partialBlk = none) (hm : r.maxFrameLen = maxLen) :
    r.feed bytes = (r, [.frame f], false) := by
  have hlen := hf.complete
  have happ : r.app bytes = { r with buf := bytes } := by
    unfold Reader.app; rw [hb.1, List.nil_append]
  rw [feed_eq]
  show Reader.drain (((r.app bytes).buf.length / 9 + 1) + 1) _ _ = _
  rw [drain_succ]
  have hneed : needOf (r.app bytes) = some (.ok (rd24 bytes + 9)) := by
    unfold needOf
    simp only [app_need, app_buf, app_maxFrameLen, hb.1, hb.2, List.nil_append]
    rw [if_neg (by omega), if_neg (by have := hf.within; omega)]
  rw [hneed]
  simp only
  rw [if_neg (by simp only [app_buf, hb.1, List.nil_append]; omega)]
  have htf : takeFrame (r.app bytes) (rd24 bytes + 9) = (r, .frame f) := by
    unfold takeFrame
    rw [happ]
    simp only
    rw [← hlen, List.take_length, List.drop_length, atBoundary_eta r hb]
    exact hf.decodes r hpb
  rw [htf]
  simp only [isErr, Bool.false_eq_true, if_false, itemsOf, List.nil_append]
  rw [drain_succ]
  have : needOf r = none := by
    unfold needOf; rw [hb.2]; simp [hb.1]
  rw [this]

/-- WIRE ROUND TRIP: the concatenation of any number of serialised frames, delivered at once … -/
theorem feed_wire (maxLen : Nat) (l : List (Bytes × Model.Frame.Frame))
    (hl : ∀ x ∈ l, FrameBytes maxLen x.1 x.2)
    (r : Reader) (hb : AtBoundary r) (hpb : r.partialBlk = none) (hm : r.maxFrameLen = maxLen) :
    r.feed (l.map (·.1)).flatten = (r, l.map (fun x => Item.frame x.2), false) := by
  induction l with
  | nil =>
    simp only [List.map_nil, List.flatten_nil]
    rw [feed_eq, drain_succ]
    have : needOf (r.app []) = none := by
      unfold needOf; simp [hb.1, hb.2]
    rw [this, app_nil]
  | cons x xs ih =>
    simp only [List.map_cons, List.flatten_cons]
    rw [feed_append, feed_one_frame maxLen x.1 x.2 (hl x (List.mem_cons_self ..)) r hb hpb hm]
    simp only [Bool.false_eq_true, if_false]
    rw [ih (fun y hy => hl y (List.mem_cons_of_mem _ hy))]
    rfl

/-- … or in any chunks whatsoever: the same frames, in order, stream alive, reader back at the boundary -/
theorem feed_wire_chunks (maxLen : Nat) (l : List (Bytes × Model.Frame.Frame))
    (hl : ∀ x ∈ l, FrameBytes maxLen x.1 x.2)
    (r : Reader) (hb : AtBoundary r) (hpb : r.partialBlk = none) (hm : r.maxFrameLen = maxLen)
    (c : Bytes) (cs : List Bytes) (hc : (c :: cs).flatten = (l.map (·.1)).flatten) :
    feedAll r (c :: cs) = (r, l.map (fun x => Item.frame x.2), false) := by
  obtain ⟨h1, h2⟩ := feed_chunks_cons c cs r
  rw [hc, feed_wire maxLen l hl r hb hpb hm] at h1 h2
  have h3 : (feedAll r (c :: cs)).2.2 = false := congrArg Prod.snd h1
  exact Prod.ext (h2 h3) h1

-- ===================================================================== the frames h2 emits qualify

theorem frameBytes_of_encode {maxLen : Nat} {h : Head} {p : Bytes} {f : Model.Frame.Frame}
    (hp : p.length < 2 ^ 24) (hm : p.length ≤ maxLen)
    (hd : ∀ r : Reader, r.partialBlk = none → decodeFrame r (h.encode p.length ++ p) = (r, .frame f)) :
    FrameBytes maxLen (h.encode p.length ++ p) f := by
  have hrd := Head.rd24_encode h p.length hp p
  refine ⟨?_, by rw [hrd]; exact hm, hd⟩
  rw [hrd]; simp; omega

theorem frameBytes_data (maxLen sid : Nat) (payload : Bytes) (eos : Bool)
    (hs0 : sid ≠ 0) (hs : sid < 2 ^ 31) (hp : payload.length < 2 ^ 24) (hm : payload.length ≤ maxLen) :
    FrameBytes maxLen ((Head.mk 0 (if eos then 1 else 0) sid).encode payload.length ++ payload)
      (.data sid payload eos none) := by
  apply frameBytes_of_encode hp hm
  intro r hpb
  obtain ⟨bytes, hb, hd⟩ := roundtrip_data r hpb sid payload eos none hs0 hs hp
  simp only [encodeSimple, Option.some.injEq] at hb
  rw [hb]; exact hd

theorem frameBytes_ping (maxLen : Nat) (ack : Bool) (p : Bytes) (hp : p.length = 8) (hm : 8 ≤ maxLen) :
    FrameBytes maxLen ((Head.mk 6 (if ack then 1 else 0) 0).encode 8 ++ p) (.ping ack p) := by
  have := frameBytes_of_encode (maxLen := maxLen) (h := Head.mk 6 (if ack then 1 else 0) 0) (p := p) (f := .ping ack p)
    (by omega) (by omega)
  rw [hp] at this
  apply this
  intro r hpb
  obtain ⟨bytes, hb, hd⟩ := roundtrip_ping r hpb ack p hp
  simp only [encodeSimple, Option.some.injEq] at hb
  rw [hb]; exact hd

theorem frameBytes_window_update (maxLen sid inc : Nat) (hs : sid < 2 ^ 31) (hi0 : inc ≠ 0) (hi : inc < 2 ^ 31)
    (hm : 4 ≤ maxLen) :
    FrameBytes maxLen ((Head.mk 8 0 sid).encode 4 ++ be32 inc) (.windowUpdate sid inc) := by
  apply frameBytes_of_encode (p := be32 inc) (by simp) (by simpa using hm)
  intro r hpb
  obtain ⟨bytes, hb, hd⟩ := roundtrip_window_update r hpb sid inc hs hi0 hi
  simp only [encodeSimple, Option.some.injEq] at hb
  rw [← hb] at hd; exact hd

theorem frameBytes_reset (maxLen sid code : Nat) (hs0 : sid ≠ 0) (hs : sid < 2 ^ 31) (hc : code < 2 ^ 32)
    (hm : 4 ≤ maxLen) :
    FrameBytes maxLen ((Head.mk 3 0 sid).encode 4 ++ be32 code) (.reset sid code) := by
  apply frameBytes_of_encode (p := be32 code) (by simp) (by simpa using hm)
  intro r hpb
  obtain ⟨bytes, hb, hd⟩ := roundtrip_reset r hpb sid code hs0 hs hc
  simp only [encodeSimple, Option.some.injEq] at hb
  rw [← hb] at hd; exact hd

theorem frameBytes_settings (maxLen : Nat) (vals : List (Nat × Nat)) (hv : ∀ p ∈ vals, SettingOK p)
    (hm : 42 ≤ maxLen) :
    FrameBytes maxLen ((Head.mk 4 0 0).encode (settingsPayload vals).length ++ settingsPayload vals)
      (.settings false (settingsOrder vals)) := by
  have hlen := settingsPayload_length vals
  have hle := settingsOrder_length_le vals
  apply frameBytes_of_encode (by omega) (by omega)
  intro r hpb
  obtain ⟨bytes, hb, hd⟩ := roundtrip_settings r hpb vals hv
  simp only [encodeSimple, Option.some.injEq] at hb
  rw [← hb] at hd; exact hd

end H2V.Lemmas.Codec
