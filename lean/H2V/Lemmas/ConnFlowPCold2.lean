import H2V.Lemmas.ConnFlowPCold
/-
  ConnFlowP, part 31 — after a reset the stream is cold: `Send::send_reset`, `Send::handle_error`
  (the send half of `recv_reset`, of a connection error, of EOF), and the API entry points
  `StreamRef::send_reset` and `Inner::recv_reset`.
-/
namespace H2V.Lemmas.ConnFlowP
open H2V H2V.Model H2V.Model.Conn H2V.Lemmas.Comp

/-- an update of the entry `id` that turns `P` into `Q` -/
theorem KeyP.transform {id : Nat} {P Q : Stream → Prop} {t : Streams} {f : Stream → Stream}
    (hf : ∀ x, (f x).key = x.key ∧ (P x → Q (f x))) (h : KeyP id P t) : KeyP id Q (t.modStream id f) := by
  unfold Streams.modStream
  split
  · rename_i st hget
    intro y hy hk
    simp only [Streams.setStream, Store.set, List.mem_map] at hy
    obtain ⟨x, hx, rfl⟩ := hy
    have hm := get?_mem hget
    by_cases he : (x.key == (f st).key) = true
    · simp only [he, if_true]
      exact (hf st).2 (h st hm.1 hm.2)
    · exfalso
      simp only [he] at hk
      simp only [beq_iff_eq] at he
      exact he (hk.trans ((hf st).1.trans hm.2).symm)
  · rename_i hget
    exact KeyP.panic (KeyP.vacuous hget) _

/-- not send-streaming -/
def NoStr (x : Stream) : Prop := x.state.isSendStreaming = false

theorem coreP_noStr : CoreP NoStr := by
  intro x y h hx; unfold NoStr at *; rw [← h.2.1]; exact hx

theorem setReset_state (x : Stream) (r : Reason) (i : Initiator) :
    (x.setReset r i).1.state = x.state.setReset x.id r i ∧ (x.setReset r i).1.key = x.key := by
  unfold Stream.setReset
  simp only
  have h1 := notifySend_core { x with state := x.state.setReset x.id r i }
  have h2 := notifyPush_core ({ x with state := x.state.setReset x.id r i } : Stream).notifySend.1
  have h3 := notifyRecv_core (({ x with state := x.state.setReset x.id r i } : Stream).notifySend.1).notifyPush.1
  exact ⟨h3.2.2.1.symm.trans (h2.2.2.1.symm.trans h1.2.2.1.symm), h3.1.trans (h2.1.trans h1.1)⟩

theorem setReset_noStr (x : Stream) (r : Reason) (i : Initiator) : NoStr (x.setReset r i).1 := by
  unfold NoStr; rw [(setReset_state x r i).1]; rfl

theorem clearQueue_quiet {id : Nat} {t : Streams} (h : KeyP id NoStr t) : KeyP id QuietSt (t.clearQueue id) := by
  have hP := coreP_quiet
  unfold Streams.clearQueue
  dsimp only
  have h1 : KeyP id QuietSt (t.modStream id fun st =>
      { st with pendingSend := [], bufferedSendData := 0, requestedSendCapacity := 0 }) :=
    KeyP.transform (fun x => ⟨rfl, fun hx => ⟨hx, rfl⟩⟩) h
  keyp_auto

/-- **`Send::send_reset` leaves the stream cold** (unless it was reset already, or closed and flushed —
    then `send_reset` does nothing) -/
theorem sendSendReset_cold {s : Streams} (h : SafeInv s) (id : Nat) (r : Reason) (i : Initiator)
    (hnr : (s.stream id).state.isReset = false)
    (hne : ((s.stream id).state.isClosed &&
      ((s.stream id).pendingSend.isEmpty && (s.stream id).bufferedSendData == 0)) = false) :
    KeyP id ColdSt (s.sendSendReset id r i) := by
  unfold Streams.sendSendReset
  dsimp only
  rw [hnr]
  simp only [Bool.false_eq_true, if_false, hne]
  apply reclaimAll_cold
  · safe_auto
  · have hq := coreP_quiet
    have h1 : KeyP id NoStr (s.modStreamW id fun st => st.setReset r i) :=
      KeyP.establishW (fun x => ⟨(setReset_state x r i).2, setReset_noStr x r i⟩) s
    have hN := coreP_noStr
    unfold Streams.queueFrame
    generalize hS : (if ((s.modStreamW id fun st => st.setReset r i).stream id).isPendingOpen = true then _ else _ : Streams) = S2
    have hS2 : KeyP id QuietSt S2 := by
      subst hS
      split
      · have h2 : KeyP id NoStr ((s.modStreamW id fun st => st.setReset r i).modStream id fun st =>
            { st with pendingSend := st.pendingSend.drop 1 }) :=
          KeyP.modStreamC hN (fun _ => ⟨rfl, rfl, rfl, rfl, rfl⟩) h1
        have h3 := clearQueue_quiet h2
        split
        · exact KeyP.modStreamC hq (fun _ => ⟨rfl, rfl, rfl, rfl, rfl⟩) h3
        · exact h3
      · exact clearQueue_quiet h1
    clear hS hN h1
    have hP := hq
    keyp_auto

theorem setReset_core (x : Stream) (r : Reason) (i : Initiator) :
    (x.setReset r i).1.key = x.key ∧ (x.setReset r i).1.sendFlow = x.sendFlow ∧
    (x.setReset r i).1.bufferedSendData = x.bufferedSendData := by
  unfold Stream.setReset
  simp only
  have h1 := notifySend_core { x with state := x.state.setReset x.id r i }
  have h2 := notifyPush_core ({ x with state := x.state.setReset x.id r i } : Stream).notifySend.1
  have h3 := notifyRecv_core (({ x with state := x.state.setReset x.id r i } : Stream).notifySend.1).notifyPush.1
  exact ⟨h3.1.trans (h2.1.trans h1.1), h3.2.1.symm.trans (h2.2.1.symm.trans h1.2.1.symm),
    h3.2.2.2.1.symm.trans (h2.2.2.2.1.symm.trans h1.2.2.2.1.symm)⟩

theorem setReset_cold (x : Stream) (r : Reason) (i : Initiator) (h : ColdSt x) : ColdSt (x.setReset r i).1 := by
  have hc := setReset_core x r i
  exact ⟨by rw [hc.2.1]; exact h.1, setReset_noStr x r i, by rw [hc.2.2]; exact h.2.2⟩

/-- **`Send::handle_error` leaves a stream that is no longer send-streaming cold** (it is called
    after `Recv::recv_reset` / `Recv::handle_error` / `Recv::recv_eof` closed the state) -/
theorem sendHandleError_cold {s : Streams} (h : SafeInv s) {id : Nat} (hq : KeyP id NoStr s) :
    KeyP id ColdSt (s.sendHandleError id) := by
  unfold Streams.sendHandleError
  dsimp only
  have hc : KeyP id ColdSt ((s.clearQueue id).reclaimAllCapacity id) :=
    reclaimAll_cold (h.fr ((Fr.refl _).clearQueue id)) (clearQueue_quiet hq)
  split
  · split
    · exact KeyP.modStreamW' (fun x => ⟨(setReset_core x _ _).1, setReset_cold x _ _⟩) hc
    · exact hc
  · exact hc

theorem recvReset_state_noStr (st : State) (sid : Nat) (r : Reason) (q : Bool) :
    (st.recvReset sid r q).isSendStreaming = false := by
  unfold State.recvReset
  cases hst : st.inner <;> dsimp only <;> (try split) <;> first | rfl | (unfold State.isSendStreaming; rw [hst])

theorem handleError_state_noStr (st : State) (e : PErr) : (st.handleError e).isSendStreaming = false := by
  unfold State.handleError
  cases hst : st.inner <;> dsimp only <;> first | rfl | (unfold State.isSendStreaming; rw [hst])

theorem recvEof_state_noStr (st : State) : st.recvEof.isSendStreaming = false := by
  unfold State.recvEof
  cases hst : st.inner <;> dsimp only <;> first | rfl | (unfold State.isSendStreaming; rw [hst])

theorem KeyP.enqueueResetExpiration {id : Nat} {P : Stream → Prop} {t : Streams} (hP : CoreP P) (h : KeyP id P t)
    (k : Nat) : KeyP id P (t.enqueueResetExpiration k) := by
  keyp_by Streams.enqueueResetExpiration

/-- **`StreamRef::send_reset` (the user resets a stream): afterwards the stream holds no send capacity**
    and cannot get any (unless it was reset already, or closed and flushed: then nothing happens) -/
theorem refSendReset_cold {s : Streams} (h : SafeInv s) (id : Nat) (r : Reason)
    (hnr : (s.stream id).state.isReset = false)
    (hne : ((s.stream id).state.isClosed &&
      ((s.stream id).pendingSend.isEmpty && (s.stream id).bufferedSendData == 0)) = false) :
    KeyP id ColdSt (s.refSendReset id r) := by
  have hP := coreP_cold
  have hc := sendSendReset_cold h id r .user hnr hne
  unfold Streams.refSendReset Streams.actionsSendReset Streams.transition
  dsimp only
  have hlib : Initiator.isLibrary .user = false := rfl
  simp only [hlib, Bool.false_eq_true, if_false]
  have h2 := KeyP.transitionAfter hP
    (KeyP.modStreamWC hP notifyRecv_core (KeyP.enqueueResetExpiration hP hc id) (k := id)) id
    (s.stream id).isPendingResetExpiration
  exact h2

/-- **`Inner::recv_reset` (the peer resets a stream): afterwards the stream holds no send capacity** -/
theorem recvReset_cold {s : Streams} (h : SafeInv s) {id k : Nat} (reason : Reason)
    (hid : id ≠ 0) (hmax : ¬ id > s.recv.maxStreamId) (hfind : s.store.findKey? id = some k)
    (hpo : (s.stream k).isPendingOpen = false) (hok : (s.recvRecvReset k reason).2 = .ok ()) :
    KeyP k ColdSt (s.recvReset id reason).1 := by
  have hP := coreP_cold
  have hN := coreP_noStr
  unfold Streams.recvReset Streams.transition
  simp only [hid, if_false, hmax, hfind, hpo, Bool.false_eq_true]
  -- what `Recv::recv_reset` leaves
  have hs1 : SafeInv (s.recvRecvReset k reason).1 := h.fr ((Fr.refl _).recvRecvReset k reason)
  have hn1 : KeyP k NoStr (s.recvRecvReset k reason).1 := by
    unfold Streams.recvRecvReset at hok ⊢
    dsimp only at hok ⊢
    generalize (if (s.stream k).isPendingAccept = true then
      if s.counts.canIncNumRemoteResetStreams = true then
        (s.modCountsA "can_inc_num_remote_reset_streams" Counts.incNumRemoteResetStreams, (none : Option PErr))
      else (s, some (PErr.libraryGoAwayData ENHANCE_YOUR_CALM "too_many_resets"))
      else (s, none)) = pre at hok ⊢
    obtain ⟨s0, o⟩ := pre
    cases o with
    | some e => simp at hok
    | none =>
      dsimp only
      have e : KeyP k NoStr (s0.modStream k
          fun st => { st with state := st.state.recvReset st.id reason st.isPendingSend }) :=
        KeyP.establish (P := NoStr)
          (f := fun st => { st with state := st.state.recvReset st.id reason st.isPendingSend })
          (fun x => ⟨rfl, recvReset_state_noStr _ _ _ _⟩) _
      have hP := hN
      keyp_auto
  generalize hr : s.recvRecvReset k reason = res at hok hs1 hn1 ⊢
  obtain ⟨s1, r1⟩ := res
  simp only at hok hs1 hn1
  subst hok
  dsimp only
  have hc := sendHandleError_cold hs1 hn1
  keyp_auto

-- ===================================================================== the other two ways capacity goes back

/-- `reclaim_reserved_capacity` (handles dropped: what exceeds the buffered data) = give back
    `available − buffered`, then `assign_connection_capacity`'s loop -/
theorem reclaimReserved_exact {s : Streams} (h : SafeInv s) {id : Nat} {st : Stream} (hget : s.store.get? id = some st)
    (hgt : st.sendFlow.available.asSize > st.bufferedSendData) :
    s.reclaimReservedCapacity id =
      Streams.assignConnectionCapacityLoop
        ((giveBack s id (st.sendFlow.available.asSize - st.bufferedSendData)).prio.pendingCapacity.length + 2)
        (giveBack s id (st.sendFlow.available.asSize - st.bufferedSendData)) := by
  have hm := get?_mem hget
  have hok := h.st st hm.1
  have hlt := hok.windowSz_lt
  have hle := hok.asSize_le
  have hres : wrapSubU32 st.sendFlow.available.asSize (usizeAsU32 st.bufferedSendData) =
      st.sendFlow.available.asSize - st.bufferedSendData := by
    rw [usizeAsU32_small (by omega), wrapSubU32_le (by omega) (by omega)]
  have hcl := flOk_claim hok (n := st.sendFlow.available.asSize - st.bufferedSendData) (by omega)
  have hr : (st.sendFlow.claimCapacity (st.sendFlow.available.asSize - st.bufferedSendData)).2 = .ok () := by
    rw [Flow.claimCapacity_eq]
    have hin : inI32 (st.sendFlow.available.val -
        u32AsI32 (st.sendFlow.available.asSize - st.bufferedSendData)) = true := by
      rw [u32AsI32_small (by omega)]
      have := hok.av0
      rw [asSize_eq] at *
      exact (inI32_iff _).2 (by omega32)
    rw [if_pos hin]
  unfold Streams.reclaimReservedCapacity Streams.assignConnectionCapacity giveBack
  rw [stream_of_get hget]
  simp only [hgt, if_true, hres, hr]
  unfold Streams.modStream
  rw [hget]

/-- a lowered `reserve_capacity` (new request + buffered below what is assigned) = record the request,
    give back `available − (request + buffered)`, then the loop -/
theorem reserveLower_exact {s : Streams} (h : SafeInv s) {id c : Nat} {st : Stream} (hget : s.store.get? id = some st)
    (hlt : c + st.bufferedSendData < st.requestedSendCapacity)
    (hgt : st.sendFlow.available.asSize > c + st.bufferedSendData) :
    s.reserveCapacity id c =
      Streams.assignConnectionCapacityLoop
        ((giveBack (s.modStream id fun x => { x with requestedSendCapacity := usizeAsU32 (c + st.bufferedSendData) }) id
          (st.sendFlow.available.asSize - (c + st.bufferedSendData))).prio.pendingCapacity.length + 2)
        (giveBack (s.modStream id fun x => { x with requestedSendCapacity := usizeAsU32 (c + st.bufferedSendData) }) id
          (st.sendFlow.available.asSize - (c + st.bufferedSendData))) := by
  have hm := get?_mem hget
  have hok := h.st st hm.1
  have hl := hok.windowSz_lt
  have hle := hok.asSize_le
  have hres : wrapSubU32 st.sendFlow.available.asSize (usizeAsU32 (c + st.bufferedSendData)) =
      st.sendFlow.available.asSize - (c + st.bufferedSendData) := by
    rw [usizeAsU32_small (by omega), wrapSubU32_le (by omega) (by omega)]
  unfold Streams.reserveCapacity Streams.assignConnectionCapacity giveBack
  rw [stream_of_get hget]
  have hne : ¬ c + st.bufferedSendData = st.requestedSendCapacity := by omega
  simp only [hne, if_false, hlt, if_true, hgt, hres]

end H2V.Lemmas.ConnFlowP
