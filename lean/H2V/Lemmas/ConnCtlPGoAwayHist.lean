import H2V.Lemmas.ConnCtlPGoAwayPoll
import H2V.Lemmas.ConnCtlPHist
/-
  ConnCtlP, part 16 — C15 over `proto::Connection::poll`, `client::Connection::poll` and whole
  histories: the GOAWAY invariant holds in every reachable state (so none of the GOAWAY `assert!`s can
  fire), the last-stream-ids of the GOAWAY frames sent never increase, `conn_error` once set stays set.
  `PollCompleteFrame` — `Streams::poll_complete` does not write the view — is proved in
  ConnCtlPViewStreams (`view_pollComplete`) and passed in explicitly here.
-/
set_option autoImplicit false
set_option linter.unusedSimpArgs false
namespace H2V.Lemmas.ConnCtlP
open H2V H2V.Model H2V.Model.Conn

/-- `Streams::poll_complete` writes nothing of the view -/
def PollCompleteFrame : Prop :=
  ∀ (fuel : Nat) (s : Streams) (w : Writer) (io : Tio) (tag : String),
    view (Streams.pollComplete fuel s w io tag).1 = view s

theorem goAwayNow_step15 (c : Conn) (e : Reason) (hi : GoAwayInv c) : Step15 c (c.goAwayNow e) :=
  goAwayNowData_step15 c e [] hi

theorem protoPollT_15 (hpc : PollCompleteFrame) : ∀ (fuel : Nat) (c : Conn), GoAwayInv c → Run15 c (protoPollT fuel c)
  | 0, c, hi => ((Keep15.of_view (c := c) (c' := c.panic "model: poll out of fuel") rfl (by simp [Conn.panic])).step hi).run rfl _
  | fuel + 1, c, hi => by
    unfold protoPollT
    cases hs : c.state with
    | «open» =>
      dsimp only
      have k0 : Keep15 c { c with streams := Streams.clearExpiredResetStreams (c.streams.recv.pendingResetExpired.length + 1) c.streams } :=
        Keep15.of_view rfl (by simp)
      have q := poll2LoopT_15 (fuel + 1) _ (k0.inv hi)
      unfold poll2T
      dsimp only
      rcases h1 : poll2LoopT (fuel + 1) { c with streams := Streams.clearExpiredResetStreams (c.streams.recv.pendingResetExpired.length + 1) c.streams } with ⟨⟨c1, r1⟩, e0⟩
      rw [h1] at q
      have q' : Run15 c ((c1, r1), e0) := Run15.left k0 q
      obtain ⟨i1, s1⟩ := q'
      dsimp only at i1 s1
      cases r1 with
      | ready result =>
        dsimp only
        have hh := handlePoll2Result_step15 c1 result i1
        rcases h2 : c1.handlePoll2Result result with ⟨c2, r2⟩
        rw [h2] at hh
        dsimp only at hh
        have s2 : SentOK c e0 c2 := by simpa using s1.trans (hh.sent (evs := []) rfl)
        cases r2 with
        | error e => exact ⟨hh.1, s2⟩
        | ok u => exact Run15.pre s2 (protoPollT_15 hpc fuel c2 hh.1)
      | pending =>
        dsimp only
        have hv := hpc (fuel + 1) c1.streams c1.codec.w c1.codec.io c1.cx
        rcases h2 : Streams.pollComplete (fuel + 1) c1.streams c1.codec.w c1.codec.io c1.cx with ⟨s, w, io, r⟩
        rw [h2] at hv
        dsimp only at hv ⊢
        have k2 : Keep15 c1 { c1 with streams := s, codec := { c1.codec with w := w, io := io } } := Keep15.of_view rfl hv
        have s2 : SentOK c e0 { c1 with streams := s, codec := { c1.codec with w := w, io := io } } := by
          simpa using s1.trans ((k2.step i1).sent (evs := []) rfl)
        cases r with
        | pending => exact ⟨k2.inv i1, s2⟩
        | err k => exact ⟨k2.inv i1, s2⟩
        | ready =>
          dsimp only
          split
          · have hg := goAwayNow_step15 _ NO_ERROR (k2.inv i1)
            have s3 : SentOK c e0 (({ c1 with streams := s, codec := { c1.codec with w := w, io := io } } : Conn).goAwayNow NO_ERROR) := by
              simpa using s2.trans (hg.sent (evs := []) rfl)
            exact Run15.pre s3 (protoPollT_15 hpc fuel _ hg.1)
          · exact ⟨k2.inv i1, s2⟩
    | closing reason init =>
      dsimp only
      rcases h2 : shutdownW c.codec.w c.codec.io c.cx with ⟨w, io, r⟩
      dsimp only
      have k : Keep15 c { c with codec := { c.codec with w := w, io := io } } := Keep15.of_view rfl rfl
      cases r with
      | pending => dsimp only; exact ⟨Keep15.inv (c := c) ⟨rfl, rfl, rfl, id⟩ hi, SentOK.quiet rfl (Keep15.gaLe (c := c) ⟨rfl, rfl, rfl, id⟩)⟩
      | err e => dsimp only; exact ⟨Keep15.inv (c := c) ⟨rfl, rfl, rfl, id⟩ hi, SentOK.quiet rfl (Keep15.gaLe (c := c) ⟨rfl, rfl, rfl, id⟩)⟩
      | ready =>
        dsimp only
        have k' : Keep15 c { c with codec := { c.codec with w := w, io := io }, state := .closed reason init } := Keep15.of_view rfl rfl
        exact Run15.left k' (protoPollT_15 hpc fuel _ (k'.inv hi))
    | closed reason init =>
      dsimp only
      rw [takeError_fst]
      exact ((Keep15.of_view (c := c) (c' := { c with error := none }) rfl rfl).step hi).run rfl _

theorem clientPollT_15 (hpc : PollCompleteFrame) (fuel : Nat) (c : Conn) (hi : GoAwayInv c) : Run15 c (clientPollT fuel c) := by
  have hpre : Step15 c (if !c.hasStreamsOrOtherReferences then c.goAwayNow NO_ERROR else c) := by
    split
    · exact goAwayNow_step15 c NO_ERROR hi
    · exact (Keep15.refl c).step hi
  have hrun := protoPollT_15 hpc fuel _ hpre.1
  have hpost : Keep15 (protoPollT fuel (if !c.hasStreamsOrOtherReferences then c.goAwayNow NO_ERROR else c)).1.1
      (clientPollT fuel c).1.1 := by
    unfold clientPollT
    generalize (if !c.hasStreamsOrOtherReferences then c.goAwayNow NO_ERROR else c) = c0
    dsimp only
    (repeat' split) <;> first | exact Keep15.refl _ | exact Keep15.of_view rfl (by simp)
  refine ⟨hpost.inv hrun.1, ?_⟩
  rw [clientPollT_snd]
  have := (hpre.sent (evs := []) rfl).trans (hrun.2.trans ((hpost.step hrun.1).sent (evs := []) rfl))
  simpa using this

-- ===================================================================== histories

/-- the histories of one connection for C15: polls, the two shutdown calls, and calls that leave
    `goAway`, `last_processed_id` and `max_stream_id` alone (`Keep15`: every handle call and transport
    event, by the frame lemmas `view_…`; `send_settings`; the ping handle) -/
inductive Hist15 (c0 : Conn) : List Ev → Conn → Prop
  | init : Hist15 c0 [] c0
  | serverPoll {evs : List Ev} {c : Conn} (cx : String) (fuel : Nat) : Hist15 c0 evs c →
      Hist15 c0 (evs ++ (protoPollT fuel { c with cx := cx }).2) (protoPollT fuel { c with cx := cx }).1.1
  | clientPoll {evs : List Ev} {c : Conn} (cx : String) (fuel : Nat) : Hist15 c0 evs c →
      Hist15 c0 (evs ++ (clientPollT fuel { c with cx := cx }).2) (clientPollT fuel { c with cx := cx }).1.1
  | graceful {evs : List Ev} {c : Conn} : Hist15 c0 evs c → Hist15 c0 evs c.goAwayGracefully
  | abrupt {evs : List Ev} {c : Conn} (e : Reason) : Hist15 c0 evs c → Hist15 c0 evs (c.goAwayFromUser e)
  | call {evs : List Ev} {c : Conn} (c' : Conn) : Hist15 c0 evs c → Keep15 c c' → Hist15 c0 evs c'

theorem goAwayGracefully_step15 (c : Conn) (hi : GoAwayInv c) : Step15 c c.goAwayGracefully := by
  unfold Conn.goAwayGracefully
  split
  · exact (Keep15.refl c).step hi
  · rename_i hng
    have hn : c.goAway.goingAway = none := by
      cases h : c.goAway.goingAway with
      | none => rfl
      | some ga => simp [GoAway.isGoingAway, h] at hng
    have hmax := hi.none_max hn
    obtain ⟨d1, d2', -, d4, -, -⟩ := dynGoAway_inv c STREAM_ID_MAX NO_ERROR (by rw [← hmax]; exact hi.lpi_le_max)
      (by rw [hmax]; exact Nat.le_refl _) (by intro ga hga; rw [hn] at hga; cases hga)
    obtain ⟨-, dv, -, -, -⟩ := recvGoAway_ok c.streams STREAM_ID_MAX (by rw [hmax]; exact Nat.le_refl _)
    have hs : Step15 c (c.dynGoAway STREAM_ID_MAX NO_ERROR) :=
      ⟨d1, (by intro m hm; unfold gaLast at hm; rw [hn] at hm; cases hm), (by intro h; rw [d2', dv]; exact h)⟩
    dsimp only
    refine hs.trans (fun h1 => ?_)
    split
    · exact Keep15.step (c := c.dynGoAway STREAM_ID_MAX NO_ERROR) ⟨rfl, by simp [Conn.panic], by simp [Conn.panic], by simp [Conn.panic]⟩ h1
    · exact Keep15.step (c := c.dynGoAway STREAM_ID_MAX NO_ERROR) ⟨rfl, rfl, rfl, id⟩ h1

theorem goAwayFromUser_step15 (c : Conn) (e : Reason) (hi : GoAwayInv c) : Step15 c (c.goAwayFromUser e) := by
  have hok := goAwayNow_ok c e [] true hi
  obtain ⟨r1, r2, r3, r4⟩ := goAwayNow_result c e [] true hi
  have heq : c.goAwayFromUser e = { c with
      goAway := (({ c.goAway with isUserInitiated := true } : GoAway).goAwayNow { lastStreamId := c.streams.recv.lastProcessedId, reason := e, debugData := [] }).1,
      streams := (c.streams.handleError (PErr.userGoAway e)).1 } := by
    unfold Conn.goAwayFromUser GoAway.goAwayFromUser
    dsimp only
    rw [if_pos hok]
  rw [heq]
  have hv := (view_handleError c.streams (PErr.userGoAway e)).1
  refine ⟨?_, ?_⟩
  · constructor
    · show (view (c.streams.handleError _).1).lpi ≤ (view (c.streams.handleError _).1).rmax
      rw [hv]; exact hi.lpi_le_max
    · intro ga hga
      dsimp only at hga
      rw [r2] at hga
      cases hga
      show (view (c.streams.handleError _).1).lpi ≤ _
      rw [hv]; exact Nat.le_refl _
    · intro ga _ hcn
      dsimp only at hcn
      rw [r1] at hcn
      cases hcn
    · intro hn
      dsimp only at hn
      rw [r2] at hn
      cases hn
    · intro f hf
      dsimp only at hf ⊢
      rcases r4 with r4 | ⟨r4, r5⟩
      · rw [r4] at hf; cases hf; exact r2
      · rw [r4] at hf
        have := hi.pend f hf
        rw [r5] at this
        rw [r2]
        exact this
    · intro _
      dsimp only
      rw [r2]; rfl
  · refine ⟨?_, fun _ => by show (view (c.streams.handleError _).1).connErr.isSome = true; rw [hv]; rfl⟩
    intro m hm
    refine ⟨c.streams.recv.lastProcessedId, by unfold gaLast; dsimp only; rw [r2]; rfl, ?_⟩
    unfold gaLast at hm
    cases hga : c.goAway.goingAway with
    | none => rw [hga] at hm; cases hm
    | some ga =>
      rw [hga] at hm
      simp at hm
      rw [← hm]
      exact hi.lpi_le_ga ga hga

/-- **over every history: the GOAWAY invariant holds and the GOAWAYs sent carry non-increasing
    last-stream-ids** -/
theorem hist15 (hpc : PollCompleteFrame) {c0 c : Conn} {evs : List Ev} (h : Hist15 c0 evs c) (h0 : GoAwayInv c0) :
    GoAwayInv c ∧ SentOK c0 evs c := by
  induction h with
  | init => exact ⟨h0, SentOK.quiet rfl (GaLe.refl _)⟩
  | @serverPoll evs c cx fuel _ ih =>
    have k : Keep15 c { c with cx := cx } := Keep15.of_view rfl rfl
    have r := Run15.left k (protoPollT_15 hpc fuel _ (k.inv ih.1))
    exact ⟨r.1, ih.2.trans r.2⟩
  | @clientPoll evs c cx fuel _ ih =>
    have k : Keep15 c { c with cx := cx } := Keep15.of_view rfl rfl
    have r := Run15.left k (clientPollT_15 hpc fuel _ (k.inv ih.1))
    exact ⟨r.1, ih.2.trans r.2⟩
  | @graceful evs c _ ih =>
    have s := goAwayGracefully_step15 c ih.1
    exact ⟨s.1, by simpa using ih.2.trans (s.sent (evs := []) rfl)⟩
  | @abrupt evs c e _ ih =>
    have s := goAwayFromUser_step15 c e ih.1
    exact ⟨s.1, by simpa using ih.2.trans (s.sent (evs := []) rfl)⟩
  | @call evs c c' _ hk ih =>
    exact ⟨hk.inv ih.1, by simpa using ih.2.trans ((hk.step ih.1).sent (evs := []) rfl)⟩

/-- every GOAWAY sent so far announces at least `last_processed_id` — the highest peer-initiated
    stream `recv_headers` has counted so far -/
theorem hist15_covers_processed (hpc : PollCompleteFrame) {c0 c : Conn} {evs : List Ev} (h : Hist15 c0 evs c)
    (h0 : GoAwayInv c0) : ∀ f ∈ sentG evs, c.streams.recv.lastProcessedId ≤ f.lastStreamId := by
  obtain ⟨hi, hs⟩ := hist15 hpc h h0
  intro f hf
  obtain ⟨m', hm, hle⟩ := hs.lower f hf
  unfold gaLast at hm
  cases hga : c.goAway.goingAway with
  | none => rw [hga] at hm; cases hm
  | some ga =>
    rw [hga] at hm
    simp at hm
    have := hi.lpi_le_ga ga hga
    rw [hm] at this
    exact Nat.le_trans this hle

end H2V.Lemmas.ConnCtlP
