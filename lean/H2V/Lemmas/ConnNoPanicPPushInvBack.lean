import H2V.Lemmas.ConnNoPanicPPushInvIdsStep
/-
  C08 (no panic) — PUSH_PROMISE bookkeeping, stage 2, part 11: the backward frame `HB` for
  `panic!("Headers not set on pushed stream")` of `Recv::poll_pushed`.
  `PRH`: every held entry (live, `is_pending_accept`, not in `recv.pending_accept` — the promised streams waiting in
  some `pending_push_promises`) has no handle (`ref_count = 0`) and the promised request at the FRONT of its
  `pending_recv`.  `HB s s'`: an entry held afterwards was held before, with the same `ref_count` and a `pending_recv`
  that only grew at its end.  Everything is `HB` except `recv_push_promise` (creates a held entry); the functions that pop
  `pending_recv` or move `ref_count` of a handle's stream `k` are `HB` given `¬ Held s k` (a handle's stream has
  `ref_count > 0`, so it is not held by `PRH`).  Peeling tactic `hb_auto`, lemmas `f_hb` by name.
-/
namespace H2V.Lemmas.ConnNoPanicP
open H2V H2V.Model H2V.Model.Conn H2V.Lemmas.ConnCountsP
attribute [local irreducible] wrapSubU32 wrapSubUsize

/-- the projections the frame looks at -/
def rp (x : Stream) : Nat × Bool × Nat × List REvent := (x.key, x.isPendingAccept, x.refCount, x.pendingRecv)

/-- key, link flag and `ref_count` kept, `pending_recv` only grows at its end -/
abbrev HBP (a b : Stream) : Prop :=
  b.key = a.key ∧ b.isPendingAccept = a.isPendingAccept ∧ b.refCount = a.refCount ∧ ∃ l, b.pendingRecv = a.pendingRecv ++ l

theorem HBP.of_rp {a b : Stream} (h : rp b = rp a) : HBP a b := by
  unfold rp at h
  simp only [Prod.mk.injEq] at h
  exact ⟨h.1, h.2.1, h.2.2.1, [], by rw [h.2.2.2, List.append_nil]⟩

theorem rp_notifySend (x : Stream) : rp x.notifySend.1 = rp x := by
  unfold Stream.notifySend
  cases h1 : x.sendTask <;> cases h2 : x.openTask <;> simp [h1, h2, rp]
theorem rp_notifyRecv (x : Stream) : rp x.notifyRecv.1 = rp x := by
  unfold Stream.notifyRecv; split <;> rfl
theorem rp_notifyPush (x : Stream) : rp x.notifyPush.1 = rp x := by
  unfold Stream.notifyPush; split <;> rfl
theorem rp_notifyCapacity (x : Stream) : rp x.notifyCapacity.1 = rp x := by
  unfold Stream.notifyCapacity; rw [rp_notifySend]; rfl
theorem rp_assignCapacity (x : Stream) (a b : Nat) : rp (x.assignCapacity a b).1 = rp x := by
  unfold Stream.assignCapacity; simp only []; split
  · rw [rp_notifyCapacity]; rfl
  · rfl
theorem rp_setReset (x : Stream) (r : Reason) (i : Initiator) : rp (x.setReset r i).1 = rp x := by
  unfold Stream.setReset; simp only []
  rw [rp_notifyRecv, rp_notifyPush, rp_notifySend]; rfl
theorem rp_sendDataG (inst : ∀ p q : Nat, Decidable (p < q)) (x : Stream) (a b : Nat) : rp (sendDataG inst x a b).1 = rp x := by
  unfold sendDataG
  generalize x.sendFlow.sendData a = p
  obtain ⟨fl, r⟩ := p
  dsimp only
  generalize inst _ _ = d
  cases d with
  | isTrue h => rw [if_pos h, rp_notifyCapacity]; rfl
  | isFalse h => rw [if_neg h]; rfl
theorem rp_sendData (x : Stream) (a b : Nat) : rp (x.sendData a b).1 = rp x := by
  rw [sendData_eq_G]; exact rp_sendDataG _ x a b
theorem rp_setQueued (x : Stream) (q : QName) (v : Bool) (h : q ≠ .pendingAccept) : rp (x.setQueued q v) = rp x := by
  cases q <;> first | rfl | exact absurd rfl h

/-- `pending_recv` starts with the promised request -/
def ReqHd (x : Stream) : Prop := ∃ m u f rest, x.pendingRecv = .request m u f :: rest

/-- no held entry has a handle; each has its request at the front of `pending_recv` -/
def PRH (s : Streams) : Prop := ∀ c, Held s c → (s.stream c).refCount = 0 ∧ ReqHd (s.stream c)

/-- backward frame: held afterwards ⇒ held before, same `ref_count`, `pending_recv` grown at its end -/
structure HB (s s' : Streams) : Prop where
  back : ∀ c, Held s' c → Held s c ∧ (s'.stream c).refCount = (s.stream c).refCount ∧
    ∃ l, (s'.stream c).pendingRecv = (s.stream c).pendingRecv ++ l

theorem HB.refl (s : Streams) : HB s s := ⟨fun _ h => ⟨h, rfl, [], (List.append_nil _).symm⟩⟩
theorem HB.trans {a b c : Streams} (h1 : HB a b) (h2 : HB b c) : HB a c := ⟨fun k hk => by
  obtain ⟨hb, r2, l2, e2⟩ := h2.back k hk
  obtain ⟨ha, r1, l1, e1⟩ := h1.back k hb
  exact ⟨ha, r2.trans r1, l1 ++ l2, by rw [e2, e1, List.append_assoc]⟩⟩
theorem HB.of_fst_eq {s : Streams} {α : Type} {p : Streams × α} {a : Streams} {x : α}
    (h : p = (a, x)) (e : HB s p.1) : HB s a := by subst h; exact e

theorem PRH.step {s s' : Streams} (h : PRH s) (hb : HB s s') : PRH s' := fun c hc => by
  obtain ⟨h0, r, l, e⟩ := hb.back c hc
  obtain ⟨hr, m, u, f, rest, hq⟩ := h c h0
  exact ⟨r.trans hr, m, u, f, rest ++ l, by rw [e, hq]; rfl⟩

theorem PRH_of_noHeld {s : Streams} (h : ∀ c, ¬ Held s c) : PRH s := fun c hc => absurd hc (h c)
theorem PRH_blank {s : Streams} (hb : Blank s) : PRH s := PRH_of_noHeld (fun c hc => by
  obtain ⟨x, hx, _⟩ := hc.1
  have : s.store.get? c = none := by unfold Store.get?; rw [hb.slab]; rfl
  rw [this] at hx; cases hx)

/-- a handle's stream is not held -/
theorem PRH.not_held {s : Streams} (h : PRH s) {k : Nat} (hr : (s.stream k).refCount > 0) : ¬ Held s k :=
  fun hk => by have := (h k hk).1; omega

theorem held_iff_of_qf {s s' : Streams} (h : QF .pendingAccept s s') (c : Nat) : Held s' c ↔ Held s c := by
  have hq : s'.recv.pendingAccept = s.recv.pendingAccept := h.queue
  unfold Held; rw [h.fl c, hq]

/-- the flags and the queue are untouched, and so are the two projections of every entry -/
theorem HB.of_qf {s s' : Streams} (h : QF .pendingAccept s s')
    (hs : ∀ j, Live s' j → ((s'.stream j).refCount, (s'.stream j).pendingRecv) = ((s.stream j).refCount, (s.stream j).pendingRecv)) :
    HB s s' := ⟨fun c hc => by
  have := hs c (held_live hc)
  simp only [Prod.mk.injEq] at this
  exact ⟨(held_iff_of_qf h c).mp hc, this.1, [], by rw [this.2, List.append_nil]⟩⟩

theorem HB.of_store {s s' : Streams} (h1 : s'.store = s.store) (h2 : s'.recv.pendingAccept = s.recv.pendingAccept) : HB s s' :=
  .of_qf (.of_store_q h1 h2) (fun j _ => by unfold Streams.stream; rw [h1])

theorem wake_hb (s : Streams) (t : List String) : HB s (s.wake t) := .of_store rfl rfl
theorem notifyTask_hb (s : Streams) : HB s s.notifyTask := by
  unfold Streams.notifyTask; split
  · exact .of_store rfl rfl
  · exact .refl _
theorem unsup_hb (s : Streams) (m : String) : HB s (s.unsup m) := by
  unfold Streams.unsup; split
  · exact .refl _
  · exact .of_store rfl rfl
theorem panic_hb (s : Streams) (m : String) : HB s (s.panic m) := .of_store (panic_store _ _) (by rw [panic_recv])
theorem modPrio_hb (s : Streams) (f : Prioritize → Prioritize) : HB s (s.modPrio f) := .of_store rfl rfl
theorem modRecv_hb (s : Streams) (f : Recv → Recv) (h : ∀ r, (f r).pendingAccept = r.pendingAccept) : HB s (s.modRecv f) :=
  .of_store rfl (h _)
theorem modSend_hb (s : Streams) (f : Send → Send) : HB s (s.modSend f) := .of_store rfl rfl
theorem modCounts_hb (s : Streams) (f : Counts → Counts) : HB s (s.modCounts f) := .of_store rfl rfl
theorem modCountsA_hb (s : Streams) (w : String) (f : Counts → Option Counts) : HB s (s.modCountsA w f) := by
  unfold Streams.modCountsA; split
  · exact .of_store rfl rfl
  · exact panic_hb _ _
theorem setMisc_hb (s : Streams) (a : Actions) (refs leaked : Nat) (wk : List String) (un : Option String)
    (ha : a.recv.pendingAccept = s.actions.recv.pendingAccept) :
    HB s { s with actions := a, refs := refs, recvBufferLeaked := leaked, wakes := wk, unsupported := un } := .of_store rfl ha
theorem setCounts_hb (s : Streams) (c : Counts) : HB s { s with counts := c } := .of_store rfl rfl

/-- an update of entry `k`: either it keeps the projections (appending to `pending_recv` allowed), or `k` is not held
    and the update keeps key and flag -/
theorem setStream_hb (s : Streams) (k : Nat) (st' : Stream) (hk : st'.key = k)
    (h : HBP (s.stream k) st' ∨ (¬ Held s k ∧ st'.isPendingAccept = (s.stream k).isPendingAccept)) : HB s (s.setStream st') := by
  have hfl : st'.isPendingAccept = (s.stream k).isPendingAccept := by
    rcases h with h | h
    · exact h.2.1
    · exact h.2
  have hqf : QF .pendingAccept s (s.setStream st') := by
    refine QF.setStream _ s st' ?_
    intro x hx
    rw [hk] at hx
    show st'.isPendingAccept = x.isPendingAccept
    rw [hfl, stream_of_get? hx]
  refine ⟨fun c hc => ?_⟩
  have h0 := (held_iff_of_qf hqf c).mp hc
  refine ⟨h0, ?_⟩
  rcases setStream_stream s st' c with e | ⟨e, hck, _⟩
  · rw [e]; exact ⟨rfl, [], (List.append_nil _).symm⟩
  · rw [hk] at hck
    subst hck
    rw [e]
    rcases h with h | h
    · exact ⟨h.2.2.1, h.2.2.2⟩
    · exact absurd h0 h.1

theorem modStream_hb (s : Streams) (k : Nat) (f : Stream → Stream)
    (h : (∀ x, HBP x (f x)) ∨ (¬ Held s k ∧ ∀ x, (f x).key = x.key ∧ (f x).isPendingAccept = x.isPendingAccept)) :
    HB s (s.modStream k f) := by
  unfold Streams.modStream
  split
  · next st hst =>
    have hsk : s.stream k = st := stream_of_get? hst
    have hkey : (f st).key = k := by
      rcases h with h | h
      · rw [(h st).1, get?_key hst]
      · rw [(h.2 st).1, get?_key hst]
    refine setStream_hb s k (f st) hkey ?_
    rw [hsk]
    rcases h with h | h
    · exact .inl (h st)
    · exact .inr ⟨h.1, (h.2 st).2⟩
  · exact panic_hb _ _

theorem modStreamW_hb (s : Streams) (k : Nat) (f : Stream → Stream × List String)
    (h : (∀ x, HBP x (f x).1) ∨ (¬ Held s k ∧ ∀ x, (f x).1.key = x.key ∧ (f x).1.isPendingAccept = x.isPendingAccept)) :
    HB s (s.modStreamW k f) := by
  unfold Streams.modStreamW
  split
  · next st hst =>
    have hsk : s.stream k = st := stream_of_get? hst
    have hkey : (f st).1.key = k := by
      rcases h with h | h
      · rw [(h st).1, get?_key hst]
      · rw [(h.2 st).1, get?_key hst]
    refine (setStream_hb s k (f st).1 hkey ?_).trans (wake_hb _ _)
    rw [hsk]
    rcases h with h | h
    · exact .inl (h st)
    · exact .inr ⟨h.1, (h.2 st).2⟩
  · exact panic_hb _ _

theorem transitionAfter_hb (s : Streams) (k : Nat) (b : Bool) : HB s (s.transitionAfter k b) :=
  .of_qf (transitionAfter_af s k b) (fun _ hl =>
    transitionAfter_proj (fun x => (x.refCount, x.pendingRecv)) (fun _ _ => rfl) b hl)

/-- the queues: `Queue::push` on `pending_accept` makes its entry flagged AND queued (not held), `Queue::pop` unflags
    the key it pops -/
theorem qPush_hb (s : Streams) (q : QName) (k : Nat) : HB s (s.qPush q k).1 := by
  have hsp : ∀ j, ((s.qPush q k).1.stream j).refCount = (s.stream j).refCount ∧
      ((s.qPush q k).1.stream j).pendingRecv = (s.stream j).pendingRecv := fun j =>
    ⟨qPush_spr (P := (·.refCount)) s q k (fun x v => by cases q <;> rfl) j,
     qPush_spr (P := (·.pendingRecv)) s q k (fun x v => by cases q <;> rfl) j⟩
  by_cases hq : QName.pendingAccept = q
  · subst hq
    refine ⟨fun c hc => ?_⟩
    refine ⟨?_, (hsp c).1, [], by rw [(hsp c).2, List.append_nil]⟩
    unfold Streams.qPush at hc
    split at hc
    · exact hc
    · next hk =>
      have hque : ((s.modStream k fun st => st.setQueued .pendingAccept true).setQ .pendingAccept
          (s.getQ .pendingAccept ++ [k])).recv.pendingAccept = s.recv.pendingAccept ++ [k] := rfl
      obtain ⟨⟨x, hx, hfl⟩, hnot⟩ := hc
      rw [hque] at hnot
      have hck : c ≠ k := fun e => hnot (List.mem_append.mpr (.inr (e ▸ List.mem_singleton.mpr rfl)))
      have hcq : c ∉ s.recv.pendingAccept := fun e => hnot (List.mem_append.mpr (.inl e))
      rw [setQ_store] at hx
      refine ⟨?_, hcq⟩
      cases hg : s.store.get? k with
      | none =>
        have : (s.modStream k fun st => st.setQueued .pendingAccept true).store = s.store := by
          unfold Streams.modStream; rw [hg]; dsimp only; rw [panic_store]
        rw [this] at hx; exact ⟨x, hx, hfl⟩
      | some y =>
        have := (flagged_modStream_set .pendingAccept s k true y hg c).mp ⟨x, hx, hfl⟩
        rw [if_neg hck] at this; exact this
  · exact .of_qf (QF.qPush _ _ _ _ hq) (fun j _ => by rw [(hsp j).1, (hsp j).2])

theorem qPushFront_hb (s : Streams) (q : QName) (k : Nat) : HB s (s.qPushFront q k).1 := by
  have hsp : ∀ j, ((s.qPushFront q k).1.stream j).refCount = (s.stream j).refCount ∧
      ((s.qPushFront q k).1.stream j).pendingRecv = (s.stream j).pendingRecv := fun j =>
    ⟨qPushFront_spr (P := (·.refCount)) s q k (fun x v => by cases q <;> rfl) j,
     qPushFront_spr (P := (·.pendingRecv)) s q k (fun x v => by cases q <;> rfl) j⟩
  by_cases hq : QName.pendingAccept = q
  · subst hq
    refine ⟨fun c hc => ?_⟩
    refine ⟨?_, (hsp c).1, [], by rw [(hsp c).2, List.append_nil]⟩
    unfold Streams.qPushFront at hc
    split at hc
    · exact hc
    · next hk =>
      have hque : ((s.modStream k fun st => st.setQueued .pendingAccept true).setQ .pendingAccept
          (k :: s.getQ .pendingAccept)).recv.pendingAccept = k :: s.recv.pendingAccept := rfl
      obtain ⟨⟨x, hx, hfl⟩, hnot⟩ := hc
      rw [hque] at hnot
      have hck : c ≠ k := fun e => hnot (e ▸ List.mem_cons_self ..)
      have hcq : c ∉ s.recv.pendingAccept := fun e => hnot (List.mem_cons_of_mem _ e)
      rw [setQ_store] at hx
      refine ⟨?_, hcq⟩
      cases hg : s.store.get? k with
      | none =>
        have : (s.modStream k fun st => st.setQueued .pendingAccept true).store = s.store := by
          unfold Streams.modStream; rw [hg]; dsimp only; rw [panic_store]
        rw [this] at hx; exact ⟨x, hx, hfl⟩
      | some y =>
        have := (flagged_modStream_set .pendingAccept s k true y hg c).mp ⟨x, hx, hfl⟩
        rw [if_neg hck] at this; exact this
  · exact .of_qf (QF.qPushFront _ _ _ _ hq) (fun j _ => by rw [(hsp j).1, (hsp j).2])

theorem qPop_hb (s : Streams) (q : QName) : HB s (s.qPop q).1 := by
  have hsp : ∀ j, ((s.qPop q).1.stream j).refCount = (s.stream j).refCount ∧
      ((s.qPop q).1.stream j).pendingRecv = (s.stream j).pendingRecv := fun j =>
    ⟨qPop_spr (P := (·.refCount)) s q (fun x v => by cases q <;> rfl) j,
     qPop_spr (P := (·.pendingRecv)) s q (fun x v => by cases q <;> rfl) j⟩
  by_cases hq : QName.pendingAccept = q
  · subst hq
    refine ⟨fun c hc => ?_⟩
    refine ⟨?_, (hsp c).1, [], by rw [(hsp c).2, List.append_nil]⟩
    unfold Streams.qPop at hc
    split at hc
    · exact hc
    · next id rest hrest =>
      have hql : s.recv.pendingAccept = id :: rest := hrest
      obtain ⟨⟨x, hx, hfl⟩, hnot⟩ := hc
      rw [ConnResetP.modStream_recv] at hnot
      have hnot' : c ∉ rest := hnot
      cases hg : (s.setQ .pendingAccept rest).store.get? id with
      | none =>
        have hst : ((s.setQ .pendingAccept rest).modStream id fun st => st.setQueued .pendingAccept false).store = s.store := by
          unfold Streams.modStream; rw [hg]; dsimp only; rw [panic_store, setQ_store]
        rw [hst] at hx
        have hck : c ≠ id := by
          intro e; subst e
          rw [setQ_store] at hg; rw [hg] at hx; cases hx
        refine ⟨⟨x, hx, hfl⟩, ?_⟩
        rw [hql]; intro hm
        rcases List.mem_cons.mp hm with e | e
        · exact hck e
        · exact hnot' e
      | some y =>
        have h2 := (flagged_modStream_set .pendingAccept (s.setQ .pendingAccept rest) id false y hg c).mp ⟨x, hx, hfl⟩
        have hck : c ≠ id := by
          intro e; rw [if_pos e] at h2; cases h2
        rw [if_neg hck] at h2
        unfold Flagged at h2; rw [setQ_store] at h2
        refine ⟨h2, ?_⟩
        rw [hql]; intro hm
        rcases List.mem_cons.mp hm with e | e
        · exact hck e
        · exact hnot' e
  · exact .of_qf (QF.qPop _ _ _ hq) (fun j _ => by rw [(hsp j).1, (hsp j).2])

theorem decContentLength_hbp {x y : Stream} {n : Nat} (h : x.decContentLength n = some y) : HBP x y := by
  unfold Stream.decContentLength at h
  split at h
  · split at h
    · cases h; exact .of_rp rfl
    · cases h
  · split at h
    · cases h
    · cases h; exact .of_rp rfl
  · cases h; exact .of_rp rfl

-- ===================================================================== peeling

syntax "hb_side" : tactic
macro_rules | `(tactic| hb_side) => `(tactic| (intro _; rfl))
macro_rules | `(tactic| hb_side) => `(tactic| with_reducible exact .inl (fun _ => ⟨rfl, rfl, rfl, [], (List.append_nil _).symm⟩))
macro_rules | `(tactic| hb_side) => `(tactic| with_reducible exact .inl (fun _ => ⟨rfl, rfl, rfl, _, rfl⟩))
macro_rules | `(tactic| hb_side) => `(tactic| exact .inl (fun _ => HBP.of_rp (by first
  | exact rp_notifySend _ | exact rp_notifyRecv _ | exact rp_notifyPush _ | exact rp_notifyCapacity _
  | exact rp_assignCapacity _ _ _ | exact rp_setReset _ _ _)))
macro_rules | `(tactic| hb_side) => `(tactic| exact .inr ⟨by assumption, fun _ => ⟨rfl, rfl⟩⟩)
macro_rules | `(tactic| hb_side) => `(tactic| with_reducible rfl)
macro_rules | `(tactic| hb_side) => `(tactic| assumption)

elab "hb_head" : tactic => do
  relHead ``HB "_hb" (← `(tactic| first
    | with_reducible refine HB.trans ?_ (setMisc_hb _ _ _ _ _ _ rfl)
    | with_reducible refine HB.trans ?_ (setCounts_hb _ _)))

syntax "hb_step" : tactic
macro_rules | `(tactic| hb_step) => `(tactic| hb_head)
macro_rules | `(tactic| hb_step) => `(tactic| with_reducible refine HB.of_fst_eq (by with_reducible assumption) ?_)
macro_rules | `(tactic| hb_step) => `(tactic| with_reducible assumption)
macro_rules | `(tactic| hb_step) => `(tactic| with_reducible exact HB.refl _)

macro "hb_auto" : tactic => `(tactic| repeat (first | hb_step | hb_side | intro _ | split | dsimp only))
macro "hb_auto_ih" ih:ident : tactic =>
  `(tactic| repeat (first | hb_step | with_reducible refine HB.trans ?_ ($ih ..) | hb_side | intro _ | split | dsimp only))

theorem scheduleSend_hb (s : Streams) (k : Nat) : HB s (s.scheduleSend k) := by
  unfold Streams.scheduleSend; hb_auto
theorem queueFrame_hb (s : Streams) (k : Nat) (f : SFrame) : HB s (s.queueFrame k f) := by
  unfold Streams.queueFrame; hb_auto
theorem tryAssignCapacity_hb (s : Streams) (k : Nat) : HB s (s.tryAssignCapacity k) := by
  unfold Streams.tryAssignCapacity; hb_auto

end H2V.Lemmas.ConnNoPanicP
