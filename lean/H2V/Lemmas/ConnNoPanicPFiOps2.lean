import H2V.Lemmas.ConnNoPanicPFiOps1
/-
  C08 (no panic) — `FI` is a reachable invariant, part 6: the operations that insert an entry (`send_request`,
  `Inner::send_reset`, `send_push_promise`) and `drop_stream_ref`.
-/
namespace H2V.Lemmas.ConnNoPanicP
open H2V H2V.Model H2V.Model.Conn H2V.Lemmas.ConnCountsP
attribute [local irreducible] wrapSubU32 wrapSubUsize

variable {sv : Bool} {E : Nat → Prop}

-- ===================================================================== unlink + remove, drop_stream_ref

theorem unlinkRemove_fk (s : Streams) (id k : Nat) : FK s { s with store := (s.store.unlink id).remove k } :=
  (unlink_fk s id).trans (remove_fk { s with store := s.store.unlink id } k s.recvBufferLeaked)
theorem unlinkRemove_sk (s : Streams) (id k : Nat) : SK sv s { s with store := (s.store.unlink id).remove k } :=
  (unlink_sk s id).trans (remove_sk { s with store := s.store.unlink id } k s.recvBufferLeaked)

theorem dropFold_fk (l : List Nat) : ∀ s : Streams, FK s (dropFold l s) := by
  induction l with
  | nil => intro s; exact .refl _
  | cons a l ih =>
    intro s
    unfold dropFold
    rw [List.foldl_cons]
    refine FK.trans ?_ (ih _)
    dsimp only
    refine FK.trans ?_ (transition_fk _ _ _ (fun s => ?_))
    · exact modStream_fk _ _ _ (fun _ => by flg_tac)
    · fk_auto
theorem dropFold_sk (l : List Nat) : ∀ s : Streams, SK sv s (dropFold l s) := by
  induction l with
  | nil => intro s; exact .refl _
  | cons a l ih =>
    intro s
    unfold dropFold
    rw [List.foldl_cons]
    refine SK.trans ?_ (ih _)
    dsimp only
    refine SK.trans ?_ (transition_sk _ _ _ (fun s => ?_))
    · exact modStream_sk _ _ _ (fun _ => by sr_tac)
    · sk_auto

theorem dropClosure_fk (k : Nat) (s : Streams) : FK s (dropClosure k s).1 := by
  unfold dropClosure
  dsimp only
  split
  · exact (((maybeCancel_fk s k).trans (releaseClosedCapacity_fk _ k)).trans (modStream_fk _ _ _ (fun _ => by flg_tac))).trans (dropFold_fk _ _)
  · exact maybeCancel_fk s k
theorem dropClosure_sk (k : Nat) (s : Streams) : SK sv s (dropClosure k s).1 := by
  unfold dropClosure
  dsimp only
  split
  · exact (((maybeCancel_sk s k).trans (releaseClosedCapacity_sk _ k)).trans (modStream_sk _ _ _ (fun _ => by sr_tac))).trans (dropFold_sk _ _)
  · exact maybeCancel_sk s k

theorem dropStreamRef_fk (s : Streams) (k : Nat) : FK s (s.dropStreamRef k) := by
  rw [dropStreamRef_eq]
  exact (dropPre_fk s k).trans (transition_fk _ k _ (fun s => dropClosure_fk k s))
theorem dropStreamRef_sk (s : Streams) (k : Nat) : SK sv s (s.dropStreamRef k) := by
  rw [dropStreamRef_eq]
  exact (dropPre_sk s k).trans (transition_sk _ k _ (fun s => dropClosure_sk k s))

-- ===================================================================== send_request

theorem sendRequestCore_fb {s : Streams} (hn : NPI (fun _ => False) s) (hb : FB sv (fun _ => False) s) (hr : s.counts.isServer = sv)
    (isHead : Bool) (fields : List Hpack.Field) (eos : Bool)
    (hfree : ∀ id, s.actions.send.nextStreamId = some id → s.store.contains id = false) :
    FB sv (fun _ => False) (sendRequestCore isHead fields eos s).1 := by
  unfold sendRequestCore
  generalize hso : s.sendOpenId = p
  obtain ⟨s1, r⟩ := p
  have hst1 : s1.store = s.store := by have := sendOpenId_store s; rw [hso] at this; exact this
  have hb1 : FB sv (fun _ => False) s1 := hb.st (FK.of_fst_eq hso (sendOpenId_fk s)) (SK.of_fst_eq hso (sendOpenId_sk s))
  have hk1 : KeysOK s1 := ⟨by rw [hst1]; exact hn.keys.nodup, by unfold KeysFresh; rw [hst1]; exact hn.keys.fresh⟩
  cases r with
  | error e => exact hb1
  | ok id =>
    simp only []
    have hnext : s.actions.send.nextStreamId = some id := sendOpenId_ok hso
    have hnc : s1.store.contains id = false := by rw [hst1]; exact hfree id hnext
    simp only [hnc, Bool.false_eq_true, if_false]
    generalize hst : (if isHead = true then _ else Stream.new id s1.actions.send.initWindowSz s1.recv.initWindowSz) = st
    have hid : st.id = id := by rw [← hst]; split <;> rfl
    have hfr : Fresh st := by rw [← hst]; exact fresh_head _ (fresh_new _ _ _) isHead
    have hpp : st.isPendingPush = false := by rw [← hst]; split <;> rfl
    have hbd : st.bufferedSendData = 0 := by rw [← hst]; split <;> rfl
    have hio : ∀ id' k, s1.store.findKey? id' = some k → Live s1 k := by
      intro id' k hf; rw [hst1] at hf
      obtain ⟨x, hx⟩ := (hn.ids.findKey hf).1
      exact ⟨x, by rw [hst1]; exact hx⟩
    have hb2 := hb1.insert hk1 st hfr hpp hbd (by rw [hid]; exact hnc) hio
    have hkk : (s1.store.insert st).2 = s1.store.nextKey := rfl
    rw [hkk]
    have hns : ({ s1 with store := (s1.store.insert st).1 } : Streams).stream s1.store.nextKey = { st with key := s1.store.nextKey } :=
      stream_of_get? (insert_get?_new hk1.fresh st)
    have hl2 : Live ({ s1 with store := (s1.store.insert st).1 } : Streams) s1.store.nextKey := ⟨_, insert_get?_new hk1.fresh st⟩
    have hb2' : FB sv (fun _ => False) ({ s1 with store := (s1.store.insert st).1 } : Streams) := by
      refine hb2.dropE (fun j hj hlj => ?_)
      rcases hj with hj | hj
      · exact hj.elim
      · subst hj
        right; right
        intro k' pid hp hf
        have hid2 := hb2.idm pid _ hf hlj
        rw [hns] at hid2
        have hid3 : id = pid := hid.symm.trans hid2
        -- the queued ids are below the old `next_stream_id`
        have hp1 : pid ∈ ppq s k' := by
          have hq : ppq ({ s1 with store := (s1.store.insert st).1 } : Streams) k' = ppq s1 k' := by
            unfold ppq
            by_cases hj : k' = s1.store.nextKey
            · subst hj; rw [hns, stream_blank_of_not_live (not_live_of_none (get?_nextKey_none hk1.fresh))]
              show ppIdsOf st.pendingSend = _; rw [hfr.send]
            · have : ({ s1 with store := (s1.store.insert st).1 } : Streams).stream k' = s1.stream k' := by
                unfold Streams.stream
                rcases insert_get?_cases s1.store st k' with e | ⟨_, e, _⟩
                · show ((s1.store.insert st).1.get? k').getD _ = _; rw [e]
                · exact absurd e hj
              rw [this]
          rw [hq] at hp
          exact ((FK.of_fst_eq hso (sendOpenId_fk s)).ppq_sub k').subset hp
        have := hb.fx.lt k' pid hp1 id hnext
        omega
    have hr2 : ({ s1 with store := (s1.store.insert st).1 } : Streams).counts.isServer = sv := by
      show s1.counts.isServer = sv
      rw [(sendOpenId_next hso).1]; exact hr
    have hb3 := sendHeaders_fb hb2' hr2 hl2 (fun h => h) eos fields
    generalize hsh : Streams.sendHeaders _ s1.store.nextKey eos fields = q at hb3 ⊢
    obtain ⟨s3, r3⟩ := q
    cases r3 with
    | error e => exact FB.st hb3 (unlinkRemove_fk _ _ _) (unlinkRemove_sk _ _ _)
    | ok u =>
      simp only []
      exact FB.st hb3 ((setMisc_fk s3 s3.actions (s3.refs + 1) s3.recvBufferLeaked s3.wakes s3.unsupported rfl).trans (refInc_fk _ _))
        ((setMisc_sk s3 s3.actions (s3.refs + 1) s3.recvBufferLeaked s3.wakes s3.unsupported rfl).trans (refInc_sk _ _))

/-- **`Streams::send_request` keeps the bundle** -/
theorem sendRequest_fb {s : Streams} (hn : NPI (fun _ => False) s) (hb : FB sv (fun _ => False) s) (hr : s.counts.isServer = sv)
    (isHead : Bool) (fields : List Hpack.Field) (eos : Bool) (pending : Option Nat)
    (hfree : ∀ id, s.actions.send.nextStreamId = some id → s.store.contains id = false) :
    FB sv (fun _ => False) (s.sendRequest isHead fields eos pending).1 := by
  rcases sendRequest_cases s isHead fields eos pending with e | e
  · rw [e]; exact hb
  · rw [e]; exact sendRequestCore_fb hn hb hr isHead fields eos hfree

end H2V.Lemmas.ConnNoPanicP
