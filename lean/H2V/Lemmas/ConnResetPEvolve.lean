import Lean.Elab.Tactic
import H2V.Lemmas.ConnResetPBase
/-
  ConnResetP — the `Evolves` relation: how the slab entries relate before and after an operation.
  `Evolves P N a b` (on stores) says: every entry of `b` either evolved (relation `P`) from the
  entry of `a` with the same key, or carries a key `a` had not handed out yet and satisfies `N`.
  Entries may disappear.  With a reflexive/transitive `P` this composes along any sequence of
  model operations; invariants and monotone quantities of single streams are lifted to whole
  histories through it.
-/
namespace H2V.Lemmas.ConnResetP
open H2V H2V.Model H2V.Model.Conn

/-- the fields of a stream the send-side life-cycle arguments look at, and the handle count -/
structure CoreEq (a b : Stream) : Prop where
  key : b.key = a.key
  id : b.id = a.id
  state : b.state = a.state
  pendingSend : b.pendingSend = a.pendingSend
  refCount : b.refCount = a.refCount

theorem CoreEq.rfl' (a : Stream) : CoreEq a a := ⟨rfl, rfl, rfl, rfl, rfl⟩

/-- a slab entry may only be dropped once nothing is queued on it any more -/
def Removable (st : Stream) : Prop := st.pendingSend = [] ∧ st.refCount = 0

theorem CoreEq.trans {a b c : Stream} (h1 : CoreEq a b) (h2 : CoreEq b c) : CoreEq a c :=
  ⟨h2.key.trans h1.key, h2.id.trans h1.id, h2.state.trans h1.state, h2.pendingSend.trans h1.pendingSend,
   h2.refCount.trans h1.refCount⟩

/-- what the framework needs of a per-stream step relation `P` and a new-stream predicate `N` -/
class Good (P : Stream → Stream → Prop) (N : outParam (Stream → Prop)) : Prop where
  trans : ∀ {a b c}, P a b → P b c → P a c
  new : ∀ {a b}, N a → P a b → N b
  /-- a change outside the core fields is always allowed (in particular `P` is reflexive) -/
  core : ∀ {a b}, CoreEq a b → P a b
  key : ∀ {a b}, P a b → b.key = a.key

theorem Good.refl {P N} [Good P N] (a : Stream) : P a a := Good.core (CoreEq.rfl' a)

/-- relations that also accept a new handle (`ref_count + 1`) -/
class GoodRef (P : Stream → Stream → Prop) (N : outParam (Stream → Prop)) : Prop extends Good P N where
  refInc : ∀ (a : Stream), P a { a with refCount := a.refCount + 1 }

structure Evolves (P : Stream → Stream → Prop) (N : Stream → Prop) (a b : Store) : Prop where
  nk : a.nextKey ≤ b.nextKey
  back : ∀ k st', b.get? k = some st' →
      (∃ st, a.get? k = some st ∧ P st st') ∨ (a.nextKey ≤ k ∧ k < b.nextKey ∧ N st')
  /-- an entry of `a` is still there, or it evolved into an entry with an empty queue (and was dropped) -/
  fwd : ∀ k st, a.get? k = some st → k < a.nextKey →
      (∃ st', b.get? k = some st' ∧ P st st') ∨ (∃ st'', P st st'' ∧ Removable st'')

theorem Store.get?_mod (st : Store) (id : Nat) (f : Stream → Stream) (k : Nat)
    (hf : ∀ x, st.get? id = some x → (f x).key = x.key) :
    (Store.mod st id f).get? k = if k = id then (st.get? id).map f else st.get? k := by
  unfold Store.mod
  cases h : st.get? id with
  | none =>
    simp only [Option.map_none]
    split
    · next hk => rw [hk, h]
    · rfl
  | some x =>
    have hkey : (f x).key = id := by rw [hf x h, Store.get?_key h]
    simp only [Store.get?_set, hkey, Option.map_some]
    split
    · next hk => rw [hk, h]; rfl
    · rfl

theorem Store.get?_mod' (S : Store) (id : Nat) (f : Stream → Stream) (hf : ∀ x, (f x).key = x.key) (k : Nat) :
    (Store.mod S id f).get? k = if k = id then (S.get? id).map f else S.get? k :=
  Store.get?_mod S id f k (fun x _ => hf x)

@[simp] theorem Store.nextKey_mod (st : Store) (id : Nat) (f : Stream → Stream) : (Store.mod st id f).nextKey = st.nextKey := by
  unfold Store.mod; split <;> rfl
@[simp] theorem Store.ids_mod (st : Store) (id : Nat) (f : Stream → Stream) : (Store.mod st id f).ids = st.ids := by
  unfold Store.mod; split <;> rfl

section generic
variable {P : Stream → Stream → Prop} {N : Stream → Prop} [Good P N]

theorem Evolves.refl (a : Store) : Evolves P N a a :=
  ⟨Nat.le_refl _, fun _ st' h => .inl ⟨st', h, Good.refl st'⟩, fun _ st h _ => .inl ⟨st, h, Good.refl st⟩⟩

theorem Evolves.trans {a b c : Store} (h1 : Evolves P N a b) (h2 : Evolves P N b c) : Evolves P N a c := by
  refine ⟨Nat.le_trans h1.nk h2.nk, fun k st'' h => ?_, fun k st h hlt => ?_⟩
  · rcases h2.back k st'' h with ⟨st', hb, p2⟩ | ⟨hk, hlt, n⟩
    · rcases h1.back k st' hb with ⟨st, ha, p1⟩ | ⟨hk, hlt, n⟩
      · exact .inl ⟨st, ha, Good.trans p1 p2⟩
      · exact .inr ⟨hk, Nat.lt_of_lt_of_le hlt h2.nk, Good.new n p2⟩
    · exact .inr ⟨Nat.le_trans h1.nk hk, hlt, n⟩
  · rcases h1.fwd k st h hlt with ⟨st', hb, p1⟩ | ⟨st'', p, d⟩
    · rcases h2.fwd k st' hb (Nat.lt_of_lt_of_le hlt h1.nk) with ⟨st2, hc, p2⟩ | ⟨st'', p, d⟩
      · exact .inl ⟨st2, hc, Good.trans p1 p2⟩
      · exact .inr ⟨st'', Good.trans p1 p, d⟩
    · exact .inr ⟨st'', p, d⟩

/-- replacing one slab entry -/
theorem Evolves.set {a b : Store} (h : Evolves P N a b) (x : Stream)
    (hx : ∀ st, b.get? x.key = some st → P st x) : Evolves P N a (b.set x) := by
  refine h.trans ⟨Nat.le_refl _, fun k st' hk => ?_, fun k st hk _ => ?_⟩
  · rw [Store.get?_set] at hk
    split at hk
    · next e =>
      cases hg : b.get? k with
      | none => rw [hg] at hk; cases hk
      | some st =>
        rw [hg] at hk; simp only [Option.map_some, Option.some.injEq] at hk
        subst hk; subst e
        exact .inl ⟨st, rfl, hx st hg⟩
    · exact .inl ⟨st', hk, Good.refl st'⟩
  · rw [Store.get?_set]
    split
    · next e => subst e; rw [hk]; exact .inl ⟨x, rfl, hx st hk⟩
    · exact .inl ⟨st, hk, Good.refl st⟩

theorem Evolves.mod {a b : Store} (h : Evolves P N a b) (id : Nat) (f : Stream → Stream)
    (hf : ∀ st, b.get? id = some st → P st (f st)) : Evolves P N a (Store.mod b id f) := by
  unfold Store.mod
  cases hg : b.get? id with
  | none => exact h
  | some st =>
    have hp := hf st hg
    have hkey : (f st).key = id := by rw [Good.key hp, Store.get?_key hg]
    exact h.set _ (fun st1 h1 => by rw [hkey, hg] at h1; cases h1; exact hp)

omit [Good P N] in
theorem Evolves.unlink {a b : Store} (h : Evolves P N a b) (id : Nat) : Evolves P N a (b.unlink id) :=
  ⟨h.nk, fun k st' hk => h.back k st' hk, fun k st hk hlt => h.fwd k st hk hlt⟩

omit [Good P N] in
/-- slab removal -/
theorem Evolves.remove {a b : Store} (h : Evolves P N a b) (k : Nat)
    (hD : k < a.nextKey → ∀ st, b.get? k = some st → Removable st) : Evolves P N a (b.remove k) := by
  refine ⟨h.nk, fun k' st' hk => ?_, fun k' st hk hlt => ?_⟩
  · rw [Store.get?_remove] at hk
    split at hk
    · cases hk
    · exact h.back k' st' hk
  · rcases h.fwd k' st hk hlt with ⟨st', hb, p⟩ | r
    · rw [Store.get?_remove]
      split
      · next e => subst e; exact .inr ⟨st', p, hD hlt st' hb⟩
      · exact .inl ⟨st', hb, p⟩
    · exact .inr r

omit [Good P N] in
/-- removal of an entry that was inserted after `a` -/
theorem Evolves.remove_new {a b0 b : Store} (h0 : Evolves P N a b0) (h : Evolves P N a b) (k : Nat)
    (hk : b0.nextKey ≤ k) : Evolves P N a (b.remove k) :=
  h.remove k (fun hlt => absurd (Nat.lt_of_lt_of_le hlt h0.nk) (Nat.not_lt.mpr hk))

/-- slab insertion -/
theorem Evolves.insert {a b : Store} (h : Evolves P N a b) (x : Stream)
    (hx : N { x with key := b.nextKey }) : Evolves P N a (b.insert x).1 := by
  refine h.trans ⟨Nat.le_succ _, fun k st' hk => ?_, fun k st hk _ => ?_⟩
  · unfold Store.insert Store.get? at hk
    simp only [List.find?_append] at hk
    cases hg : b.slab.find? (·.key == k) with
    | some y =>
      rw [hg] at hk; simp only [Option.some_or, Option.some.injEq] at hk
      subst hk; exact .inl ⟨y, hg, Good.refl y⟩
    | none =>
      rw [hg] at hk; simp only [Option.none_or, List.find?_cons, List.find?_nil] at hk
      split at hk
      · next hb =>
        simp only [Option.some.injEq] at hk
        subst hk
        have : b.nextKey = k := by simpa using hb
        exact .inr ⟨by omega, by simp only [Store.insert_nextKey]; omega, hx⟩
      · cases hk
  · refine .inl ⟨st, ?_, Good.refl st⟩
    unfold Store.get? at hk
    unfold Store.insert Store.get?
    simp only [List.find?_append, hk, Option.some_or]

end generic

-- ===================================================================== lifting invariants

theorem Evolves.ite {P N} {a : Store} {c : Prop} [Decidable c] {A B : Streams}
    (hA : c → Evolves P N a A.store) (hB : ¬c → Evolves P N a B.store) :
    Evolves P N a (if c then A else B).store := by
  split
  · exact hA ‹_›
  · exact hB ‹_›

theorem Evolves.ite_fst {P N} {a : Store} {c : Prop} [Decidable c] {α : Type} {A B : Streams × α}
    (hA : c → Evolves P N a A.1.store) (hB : ¬c → Evolves P N a B.1.store) :
    Evolves P N a (if c then A else B).1.store := by
  split
  · exact hA ‹_›
  · exact hB ‹_›

/-- an invariant of single slab entries -/
def AllStreams (I : Stream → Prop) (a : Store) : Prop := ∀ k st, a.get? k = some st → I st

theorem Evolves.allStreams {P N} {I : Stream → Prop} {a b : Store} (h : Evolves P N a b)
    (hP : ∀ x y, I x → P x y → I y) (hN : ∀ x, N x → I x) (hs : AllStreams I a) : AllStreams I b := by
  intro k st' hk
  rcases h.back k st' hk with ⟨st, ha, p⟩ | ⟨_, _, n⟩
  · exact hP _ _ (hs k st ha) p
  · exact hN _ n

/-- every key in use is below `nextKey` (so that a key is never handed out twice) -/
def KeysBelow (a : Store) : Prop := ∀ k st, a.get? k = some st → k < a.nextKey

theorem Evolves.keysBelow {P N} {a b : Store} (h : Evolves P N a b) (ha : KeysBelow a) : KeysBelow b := by
  intro k st' hk
  rcases h.back k st' hk with ⟨st, hg, _⟩ | ⟨_, hlt, _⟩
  · exact Nat.lt_of_lt_of_le (ha k st hg) h.nk
  · exact hlt

/-- the entry of a key that `a` already used evolved from `a`'s entry -/
theorem Evolves.same_key {P N} {a b : Store} (h : Evolves P N a b) {k : Nat} {st' : Stream}
    (hk : b.get? k = some st') (hlt : k < a.nextKey) : ∃ st, a.get? k = some st ∧ P st st' := by
  rcases h.back k st' hk with r | ⟨hge, _, _⟩
  · exact r
  · omega

-- ===================================================================== tactics
open Lean Elab Tactic Meta

/-- for every hypothesis `h : e = (x, …)` with `x` a local variable: replace `x` by `e.1` everywhere -/
elab "subst_fst" : tactic => withMainContext do
  let lctx ← getLCtx
  for d in lctx do
    if d.isImplementationDetail then continue
    let ty ← instantiateMVars d.type
    if let some (_, lhs, rhs) := ty.eq? then
      if rhs.isAppOfArity ``Prod.mk 4 && (rhs.getArg! 2).isFVar && !(lhs.containsFVar (rhs.getArg! 2).fvarId!) then
        let hStx ← Term.exprToSyntax d.toExpr
        evalTactic (← `(tactic| (have h' := congrArg Prod.fst $hStx; dsimp only at h'; subst h')))
        return
  throwError "subst_fst: no hypothesis of the form e = (x, _)"

/-- apply a hypothesis whose conclusion is an `Evolves` statement (induction hypotheses, closures) -/
elab "ev_hyp" : tactic => withMainContext do
  let lctx ← getLCtx
  for d in lctx do
    if d.isImplementationDetail then continue
    let ty ← instantiateMVars d.type
    if ty.getForallBody.isAppOf ``Evolves then
      let hStx ← Term.exprToSyntax d.toExpr
      try
        evalTactic (← `(tactic| with_reducible apply $hStx))
        return
      catch _ => pure ()
  throwError "ev_hyp: no applicable hypothesis"

/-- the base of a chain of projections `.store` / `.1`, when it is a local variable (possibly applied
    to arguments: a local function definition) -/
partial def projBase (e : Expr) : Option ((Expr → Expr) × FVarId × Array Expr) :=
  match e with
  | .fvar id => some (fun x => x, id, #[])
  | .mdata _ b => projBase b
  | .proj n i b => (projBase b).map fun (c, f) => (fun x => .proj n i (c x), f)
  | .app f b =>
    if e.isAppOfArity ``Streams.store 1 || e.isAppOfArity ``Prod.fst 3 then
      (projBase b).map fun (c, fv) => (fun x => .app f (c x), fv)
    else if e.getAppFn.isFVar then some (fun x => x, e.getAppFn.fvarId!, e.getAppArgs)
    else none
  | _ => none

/-- the goals `ev` works on: `Evolves P N a E.store` (the relation, `E` under `.store`) or `I E` for a
    one-place invariant `I` of `Streams` named `QInv`: the prefix, the expression, and how to wrap a
    `Streams` term for a side goal -/
def goalParts (ty : Expr) : Option (Expr × Expr × (Expr → Expr)) :=
  let ty := ty.consumeMData
  if ty.isAppOfArity ``Evolves 4 then
    some (ty.appFn!, ty.appArg!, fun x => mkApp (mkConst ``Streams.store) x)
  else if ty.isApp && ty.getAppFn.constName? == some `H2V.Lemmas.ConnResetP.QInv && ty.getAppNumArgs == 1 then
    some (ty.appFn!, ty.appArg!, fun x => x)
  else none

/-- goal `Evolves P N a x.store` with `x` a local definition (`x : Streams := v`): unfold `x` -/
elab "ev_unfold" : tactic => do
  let g ← getMainGoal
  g.withContext do
    let ty := (← instantiateMVars (← g.getType)).consumeMData
    let some (pre, E, _) := goalParts ty | throwError "ev_unfold: not an Evolves goal"
    match projBase E with
    | some (ctx, fv, args) =>
      match (← fv.getDecl).value? with
      | some v =>
        let g' ← g.replaceTargetDefEq (mkApp pre (ctx (v.beta args)))
        replaceMainGoal [g']
      | none => throwError "ev_unfold: not a local definition"
    | none => throwError "ev_unfold: no local variable"

/-- pull all `let`s of the goal into the context; for every new local definition `x : Streams := v`
    add the hypothesis `Evolves P N a x.store` (as a new first goal) so that `x` is dealt with once -/
elab "ev_lets" : tactic => do
  let before := (← (← getMainGoal).getDecl).lctx
  evalTactic (← `(tactic| extract_lets))
  let g ← getMainGoal
  let ty := (← instantiateMVars (← g.getType)).consumeMData
  let some (pre, _, wrap) := goalParts ty | return
  let lctx := (← g.getDecl).lctx
  -- local definitions that are neither `Streams` nor `Streams × _` values go back into the goal (they are small)
  let isPair (t : Expr) : Bool := t.isAppOfArity ``Prod 2 && (t.getArg! 0).isConstOf ``Streams
  let mut main := g
  let mut tgt ← instantiateMVars (← main.getType)
  for d in lctx.decls.toList.reverse.filterMap id do
    if d.isImplementationDetail then continue
    if before.contains d.fvarId then continue
    if d.type.isConstOf ``Streams || isPair d.type then continue
    match d.value? with
    | some v => tgt := tgt.replaceFVar d.toExpr v
    | none => continue
  tgt ← Core.betaReduce tgt
  main ← main.replaceTargetDefEq tgt
  let mut side : List MVarId := []
  let mut pairs : List FVarId := []
  for d in lctx do
    if d.isImplementationDetail then continue
    if before.contains d.fvarId then continue
    if d.value?.isNone then continue
    unless d.type.isConstOf ``Streams || isPair d.type do continue
    let base ← if isPair d.type then
        main.withContext <| mkAppM ``Prod.fst #[d.toExpr]
      else pure d.toExpr
    if isPair d.type then pairs := pairs ++ [d.fvarId]
    let T := mkApp pre (wrap base)
    let hm ← main.withContext <| mkFreshExprSyntheticOpaqueMVar T
    let main' ← main.assert `hlet T hm
    let (_, main'') ← main'.intro1P
    side := side ++ [hm.mvarId!]
    main := main''
  -- a pair is only used through `match`: forget its value so that `split` can take it apart
  for fv in pairs.reverse do
    try main ← main.clearValue fv catch _ => pure ()
  replaceMainGoal (side ++ [main])

/-- closes `CoreEq a b` when `b` is `a` with non-core fields changed -/
syntax "core_tac" : tactic
macro_rules | `(tactic| core_tac) => `(tactic| first | exact ⟨rfl, rfl, rfl, rfl, rfl⟩ | (constructor <;> simp <;> done))

/-- closes `Removable st` for the entry `hg : S.get? k = some st` about to be dropped -/
syntax "removable_tac" ident : tactic

/-- one backward step on a goal `Evolves P N a (op … s …).store`: extended with `macro_rules` after
    every lemma -/
syntax "ev_step" : tactic
macro_rules
  | `(tactic| ev_step) => `(tactic| (with_reducible refine Evolves.mod ?_ _ _ ?hf; case hf => (intro _ _; refine Good.core ?_; core_tac)))
macro_rules | `(tactic| ev_step) => `(tactic| with_reducible apply Evolves.unlink)
macro_rules
  | `(tactic| ev_step) =>
    `(tactic| (with_reducible refine Evolves.remove ?_ _ ?hD; case hD => (intro _ hg; removable_tac hg)))
macro_rules | `(tactic| ev_step) => `(tactic| ev_hyp)

/-- repeat `ev_step`, normalising `.store`, splitting `if`/`match` and eliminating result pairs on the way -/
macro "ev" : tactic =>
  `(tactic| repeat' (first | with_reducible assumption | with_reducible exact Evolves.refl _ | ev_lets | ev_unfold | ev_step | simp (config := { zeta := false }) only [crp_store] | subst_fst | split | with_reducible refine Evolves.ite (fun _ => ?_) (fun _ => ?_) | with_reducible refine Evolves.ite_fst (fun _ => ?_) (fun _ => ?_)))

end H2V.Lemmas.ConnResetP
