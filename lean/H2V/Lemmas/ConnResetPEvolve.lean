import Lean.Elab.Tactic
import H2V.Lemmas.ConnResetPBase
/-
  ConnResetP — the `Evolves` relation: how the slab entries of a `Streams` value relate before and
  after an operation.  `Evolves P N s s'` says: every entry of `s'` either evolved (relation `P`)
  from the entry of `s` with the same key, or carries a key `s` had not handed out yet and satisfies
  `N`.  Entries may disappear.  With a reflexive/transitive `P` this composes along any sequence of
  model operations; invariants and monotone quantities of single streams are lifted to whole
  histories through it.
-/
namespace H2V.Lemmas.ConnResetP
open H2V H2V.Model H2V.Model.Conn

/-- the fields of a stream the send-side life-cycle arguments look at -/
structure CoreEq (a b : Stream) : Prop where
  key : b.key = a.key
  id : b.id = a.id
  state : b.state = a.state
  pendingSend : b.pendingSend = a.pendingSend

theorem CoreEq.rfl' (a : Stream) : CoreEq a a := ⟨rfl, rfl, rfl, rfl⟩

/-- what the framework needs of a per-stream step relation `P` and a new-stream predicate `N` -/
class Good (P : Stream → Stream → Prop) (N : outParam (Stream → Prop)) : Prop where
  trans : ∀ {a b c}, P a b → P b c → P a c
  new : ∀ {a b}, N a → P a b → N b
  /-- a change outside the core fields is always allowed (in particular `P` is reflexive) -/
  core : ∀ {a b}, CoreEq a b → P a b
  key : ∀ {a b}, P a b → b.key = a.key

theorem Good.refl {P N} [Good P N] (a : Stream) : P a a := Good.core (CoreEq.rfl' a)

structure Evolves (P : Stream → Stream → Prop) (N : Stream → Prop) (s s' : Streams) : Prop where
  nk : s.store.nextKey ≤ s'.store.nextKey
  back : ∀ k st', s'.store.get? k = some st' →
      (∃ st, s.store.get? k = some st ∧ P st st') ∨ (s.store.nextKey ≤ k ∧ N st')

section generic
variable {P : Stream → Stream → Prop} {N : Stream → Prop} [Good P N]

theorem Evolves.refl (s : Streams) : Evolves P N s s :=
  ⟨Nat.le_refl _, fun _ st' h => .inl ⟨st', h, Good.refl st'⟩⟩

theorem Evolves.trans {a b c : Streams} (h1 : Evolves P N a b) (h2 : Evolves P N b c) : Evolves P N a c := by
  refine ⟨Nat.le_trans h1.nk h2.nk, fun k st'' h => ?_⟩
  rcases h2.back k st'' h with ⟨st', hb, p2⟩ | ⟨hk, n⟩
  · rcases h1.back k st' hb with ⟨st, ha, p1⟩ | ⟨hk, n⟩
    · exact .inl ⟨st, ha, Good.trans p1 p2⟩
    · exact .inr ⟨hk, Good.new n p2⟩
  · exact .inr ⟨Nat.le_trans h1.nk hk, n⟩

omit [Good P N] in
/-- anything that leaves the store alone -/
theorem Evolves.of_store_eq {s0 s s' : Streams} (h : Evolves P N s0 s) (e : s'.store = s.store) :
    Evolves P N s0 s' := by
  refine ⟨by rw [e]; exact h.nk, fun k st' hk => ?_⟩
  rw [e] at hk; exact h.back k st' hk

omit [Good P N] in
/-- anything that leaves `get?` and `nextKey` alone (`unlink`) -/
theorem Evolves.of_get?_eq {s0 s s' : Streams} (h : Evolves P N s0 s)
    (e : ∀ k, s'.store.get? k = s.store.get? k) (n : s'.store.nextKey = s.store.nextKey) :
    Evolves P N s0 s' := by
  refine ⟨by rw [n]; exact h.nk, fun k st' hk => ?_⟩
  rw [e] at hk; exact h.back k st' hk

/-- replacing one slab entry -/
theorem Evolves.setStream {s0 s : Streams} (h : Evolves P N s0 s) (x : Stream)
    (hx : ∀ st, s.store.get? x.key = some st → P st x) : Evolves P N s0 (s.setStream x) := by
  refine h.trans ⟨Nat.le_refl _, fun k st' hk => ?_⟩
  rw [setStream_get?] at hk
  split at hk
  · next e =>
    cases hg : s.store.get? k with
    | none => rw [hg] at hk; cases hk
    | some st =>
      rw [hg] at hk; simp only [Option.map_some, Option.some.injEq] at hk
      subst hk; subst e
      exact .inl ⟨st, rfl, hx st hg⟩
  · exact .inl ⟨st', hk, Good.refl st'⟩

theorem Evolves.modStream {s0 s : Streams} (h : Evolves P N s0 s) (id : Nat) (f : Stream → Stream)
    (hf : ∀ st, s.store.get? id = some st → P st (f st)) : Evolves P N s0 (s.modStream id f) := by
  unfold Streams.modStream
  cases hg : s.store.get? id with
  | none => exact h.of_store_eq (by simp)
  | some st =>
    have hp := hf st hg
    have hkey : (f st).key = id := by rw [Good.key hp, Store.get?_key hg]
    exact h.setStream _ (fun st1 h1 => by rw [hkey, hg] at h1; cases h1; exact hp)

theorem Evolves.modStreamW {s0 s : Streams} (h : Evolves P N s0 s) (id : Nat) (f : Stream → Stream × List String)
    (hf : ∀ st, s.store.get? id = some st → P st (f st).1) : Evolves P N s0 (s.modStreamW id f) := by
  unfold Streams.modStreamW
  cases hg : s.store.get? id with
  | none => exact h.of_store_eq (by simp)
  | some st =>
    have hp := hf st hg
    have hkey : (f st).1.key = id := by rw [Good.key hp, Store.get?_key hg]
    refine Evolves.of_store_eq (s := s.setStream (f st).1) ?_ (by simp)
    exact h.setStream _ (fun st1 h1 => by rw [hkey, hg] at h1; cases h1; exact hp)

/-- slab removal -/
theorem Evolves.remove {s0 s s' : Streams} (h : Evolves P N s0 s) (k : Nat)
    (e : s'.store = s.store.remove k) : Evolves P N s0 s' := by
  refine h.trans ⟨by rw [e]; exact Nat.le_refl _, fun k' st' hk => ?_⟩
  rw [e, Store.get?_remove] at hk
  split at hk
  · cases hk
  · exact .inl ⟨st', hk, Good.refl st'⟩

/-- slab insertion -/
theorem Evolves.insert {s0 s s' : Streams} (h : Evolves P N s0 s) (x : Stream)
    (hx : N { x with key := s.store.nextKey }) (e : s'.store = (s.store.insert x).1) : Evolves P N s0 s' := by
  refine h.trans ⟨by rw [e]; exact Nat.le_succ _, fun k st' hk => ?_⟩
  rw [e] at hk
  unfold Store.insert Store.get? at hk
  simp only [List.find?_append] at hk
  cases hg : s.store.slab.find? (·.key == k) with
  | some y =>
    rw [hg] at hk; simp only [Option.some_or, Option.some.injEq] at hk
    subst hk; exact .inl ⟨y, hg, Good.refl y⟩
  | none =>
    rw [hg] at hk; simp only [Option.none_or, List.find?_cons, List.find?_nil] at hk
    split at hk
    · next hb =>
      simp only [Option.some.injEq] at hk
      subst hk
      have : s.store.nextKey = k := by simpa using hb
      exact .inr ⟨by omega, hx⟩
    · cases hk

end generic

-- ===================================================================== lifting invariants

/-- an invariant of single slab entries -/
def AllStreams (I : Stream → Prop) (s : Streams) : Prop := ∀ k st, s.store.get? k = some st → I st

theorem Evolves.allStreams {P N} {I : Stream → Prop} {s s' : Streams} (h : Evolves P N s s')
    (hP : ∀ a b, I a → P a b → I b) (hN : ∀ a, N a → I a) (hs : AllStreams I s) : AllStreams I s' := by
  intro k st' hk
  rcases h.back k st' hk with ⟨st, ha, p⟩ | ⟨_, n⟩
  · exact hP _ _ (hs k st ha) p
  · exact hN _ n

end H2V.Lemmas.ConnResetP

-- ===================================================================== tactics
namespace H2V.Lemmas.ConnResetP
open Lean Elab Tactic Meta

/-- for every hypothesis `h : e = (x, …)` with `x` a local variable: replace `x` by `e.1` everywhere -/
elab "subst_fst" : tactic => withMainContext do
  let lctx ← getLCtx
  for d in lctx do
    if d.isImplementationDetail then continue
    let ty ← instantiateMVars d.type
    if let some (_, lhs, rhs) := ty.eq? then
      if rhs.isAppOfArity ``Prod.mk 4 && (rhs.getArg! 2).isFVar && !(lhs.containsFVar (rhs.getArg! 2).fvarId!) then
        let hStx ← Term.exprToSyntax d.toExpr
        evalTactic (← `(tactic| (have h' := congrArg Prod.fst $hStx; dsimp only at h'; subst h')))
        return
  throwError "subst_fst: no hypothesis of the form e = (x, _)"

/-- apply a hypothesis whose conclusion is an `Evolves` statement (induction hypotheses, closures) -/
elab "ev_hyp" : tactic => withMainContext do
  let lctx ← getLCtx
  for d in lctx do
    if d.isImplementationDetail then continue
    let ty ← instantiateMVars d.type
    if ty.getForallBody.isAppOf ``Evolves then
      let hStx ← Term.exprToSyntax d.toExpr
      try
        evalTactic (← `(tactic| apply $hStx))
        return
      catch _ => pure ()
  throwError "ev_hyp: no applicable hypothesis"

/-- closes `CoreEq a b` when `b` is `a` with non-core fields changed -/
syntax "core_tac" : tactic
macro_rules | `(tactic| core_tac) => `(tactic| first | exact ⟨rfl, rfl, rfl, rfl⟩ | (constructor <;> simp <;> done))

/-- one backward step on a goal `Evolves P N s0 (op … s …)`: extended with `macro_rules` after
    every lemma -/
syntax "ev_step" : tactic
macro_rules | `(tactic| ev_step) => `(tactic| (refine Evolves.of_store_eq (s := ?s) ?h ?e; case e => (simp; rfl)))
macro_rules
  | `(tactic| ev_step) => `(tactic| (refine Evolves.modStream ?_ _ _ (fun _ _ => Good.core (by core_tac))))
macro_rules
  | `(tactic| ev_step) => `(tactic| (refine Evolves.modStreamW ?_ _ _ (fun _ _ => Good.core (by core_tac))))
macro_rules | `(tactic| ev_step) => `(tactic| ev_hyp)

/-- repeat `ev_step`, splitting `if`/`match` and eliminating result pairs on the way -/
macro "ev" : tactic => `(tactic| repeat (first | assumption | exact Evolves.refl _ | ev_step | subst_fst | split))

end H2V.Lemmas.ConnResetP
