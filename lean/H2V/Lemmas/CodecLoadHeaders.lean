import H2V.Lemmas.CodecLoad
/-
  Codec lemmas, part 4b (goal B, header frames): the framing part of `Headers::load` and
  `PushPromise::load` (everything before HPACK) against RFC 9113 §6.2 / §6.6.
-/
namespace H2V.Lemmas.Codec
open H2V H2V.Model.Frame

theorem and45 (f i : Nat) (h : 45 &&& 2 ^ i = 2 ^ i) : f &&& 45 &&& 2 ^ i = f &&& 2 ^ i := by
  rw [Nat.and_assoc, h]
theorem and12 (f i : Nat) (h : 12 &&& 2 ^ i = 2 ^ i) : f &&& 12 &&& 2 ^ i = f &&& 2 ^ i := by
  rw [Nat.and_assoc, h]

theorem and45_1 (f : Nat) : f &&& 45 &&& 1 = f &&& 1 := and45 f 0 rfl
theorem and45_4 (f : Nat) : f &&& 45 &&& 4 = f &&& 4 := and45 f 2 rfl
theorem and45_8 (f : Nat) : f &&& 45 &&& 8 = f &&& 8 := and45 f 3 rfl
theorem and45_32 (f : Nat) : f &&& 45 &&& 32 = f &&& 32 := and45 f 5 rfl
theorem and12_4 (f : Nat) : f &&& 12 &&& 4 = f &&& 4 := and12 f 2 rfl
theorem and12_8 (f : Nat) : f &&& 12 &&& 8 = f &&& 8 := and12 f 3 rfl

/-- the first five octets survive a `take` of at least five -/
theorem prioOf_take (l : Bytes) (n : Nat) (h : 5 ≤ n) : Spec.Frame.prioOf (l.take n) = Spec.Frame.prioOf l := by
  obtain ⟨k, rfl⟩ : ∃ k, n = k + 5 := ⟨n - 5, by omega⟩
  match l with
  | [] | [_] | [_, _] | [_, _, _] | [_, _, _, _] => simp [List.take]
  | a :: b :: c :: d :: e :: t => rfl

theorem u31_take (l : Bytes) (n : Nat) (h : 4 ≤ n) : Spec.Frame.u31 (l.take n) = Spec.Frame.u31 l := by
  obtain ⟨k, rfl⟩ : ∃ k, n = k + 4 := ⟨n - 4, by omega⟩
  match l with
  | [] | [_] | [_, _] | [_, _, _] => simp [List.take]
  | a :: b :: c :: d :: t => rfl

/-- the RFC view of what `Headers::load` returns -/
def headersToSpec (x : Nat × Bool × Bool × Option (Nat × Nat × Bool) × Bytes) : Spec.Frame.Frame :=
  .headers x.1 x.2.1 x.2.2.1 (x.2.2.2.1.map fun d => ⟨d.2.2, d.1, d.2.1⟩) x.2.2.2.2

/-- the framing part of `Headers::load` as one expression over the unpadded view -/
theorem loadHeadersHead_eq (h : Head) (p : Bytes) :
    loadHeadersHead h p =
      if h.sid = 0 then .error .invalidStreamId
      else if h.flag &&& 8 = 8 ∧ p = [] then .error .malformedMessage
      else
        let pad := if h.flag &&& 8 = 8 then p.getD 0 0 else 0
        let src := if h.flag &&& 8 = 8 then p.drop 1 else p
        if h.flag &&& 32 = 32 ∧ src.length < 5 then .error .malformedMessage
        else if h.flag &&& 32 = 32 ∧ (parseStreamId src).1 = h.sid then .error .invalidDependencyId
        else
          let src' := if h.flag &&& 32 = 32 then src.drop 5 else src
          if pad > src'.length then .error .tooMuchPadding
          else .ok (h.sid, decide (h.flag &&& 1 = 1), decide (h.flag &&& 4 = 4),
            (if h.flag &&& 32 = 32 then some ((parseStreamId src).1, src.getD 4 0, (parseStreamId src).2) else none),
            src'.take (src'.length - pad)) := by
  unfold loadHeadersHead
  simp only [and45_1, and45_4, and45_8, and45_32, List.isEmpty_iff]

theorem loadHeadersHead_sound (h : Head) (p : Bytes) (x) (hl : loadHeadersHead h p = .ok x) :
    Spec.Frame.ofParts 1 h.flag h.sid p = .ok (headersToSpec x) := by
  rw [loadHeadersHead_eq] at hl
  simp only [Spec.Frame.ofParts, flag1, flag4, flag8, flag32]
  by_cases hs : h.sid = 0
  · simp [hs] at hl
  rw [if_neg hs] at hl ⊢
  by_cases h8 : h.flag &&& 8 = 8
  · -- padded
    simp only [h8, true_and, if_true, decide_true] at hl ⊢
    cases p with
    | nil => simp at hl
    | cons pl rest =>
      simp only [reduceCtorEq, if_false, List.getD_cons_zero, List.drop_succ_cons, List.drop_zero] at hl
      simp only [Spec.Frame.unpad, if_true]
      by_cases h32 : h.flag &&& 32 = 32
      · simp only [h32, true_and, if_true, decide_true] at hl ⊢
        by_cases h5 : rest.length < 5
        · rw [if_pos h5] at hl; cases hl
        rw [if_neg h5] at hl
        by_cases hd : (parseStreamId rest).1 = h.sid
        · rw [if_pos hd] at hl; cases hl
        rw [if_neg hd] at hl
        by_cases hp : pl > (rest.drop 5).length
        · rw [if_pos hp] at hl; cases hl
        rw [if_neg hp] at hl
        simp only [Except.ok.injEq] at hl
        subst hl
        simp only [List.length_drop] at hp
        rw [if_neg (by omega)]
        simp only [List.length_take]
        rw [if_neg (by omega)]
        simp only [headersToSpec, Option.map_some, prioOf_take _ _ (show 5 ≤ rest.length - pl by omega), prioOf_eq,
          List.length_drop, List.drop_take]
        congr 3
        omega
      · simp only [h32, false_and, if_false, decide_false, Bool.false_eq_true] at hl ⊢
        by_cases hp : pl > rest.length
        · rw [if_pos hp] at hl; cases hl
        rw [if_neg hp] at hl ⊢
        simp only [Except.ok.injEq] at hl
        subst hl
        rfl
  · -- not padded
    simp only [h8, false_and, if_false, decide_false] at hl ⊢
    simp only [Spec.Frame.unpad, Bool.false_eq_true, if_false]
    by_cases h32 : h.flag &&& 32 = 32
    · simp only [h32, true_and, if_true, decide_true] at hl ⊢
      by_cases h5 : p.length < 5
      · rw [if_pos h5] at hl; cases hl
      rw [if_neg h5] at hl ⊢
      by_cases hd : (parseStreamId p).1 = h.sid
      · rw [if_pos hd] at hl; cases hl
      rw [if_neg hd] at hl
      simp only [Nat.not_lt_zero, gt_iff_lt, if_false, Nat.sub_zero, List.take_length, Except.ok.injEq] at hl
      subst hl
      simp only [headersToSpec, Option.map_some, prioOf_eq]
    · simp only [h32, false_and, if_false, decide_false, Bool.false_eq_true] at hl ⊢
      simp only [Nat.not_lt_zero, gt_iff_lt, if_false, Nat.sub_zero, List.take_length, Except.ok.injEq] at hl
      subst hl
      rfl

/-- the only HEADERS frames of RFC 9113 §6.2 that `Headers::load` refuses are self-dependent ones
    (RFC 7540 §5.3.1; a stream error in `decode_frame`) -/
theorem loadHeadersHead_complete (h : Head) (p : Bytes) (f' : Spec.Frame.Frame)
    (hs : Spec.Frame.ofParts 1 h.flag h.sid p = .ok f')
    (hself : ∀ sid eos eh pr frag, f' = .headers sid eos eh (some pr) frag → pr.dependency ≠ sid) :
    ∃ x, loadHeadersHead h p = .ok x ∧ headersToSpec x = f' := by
  cases hl : loadHeadersHead h p with
  | ok x => exact ⟨x, rfl, by have := loadHeadersHead_sound h p x hl; rw [hs] at this; exact (Except.ok.inj this).symm⟩
  | error e =>
    exfalso
    rw [loadHeadersHead_eq] at hl
    simp only [Spec.Frame.ofParts, flag1, flag4, flag8, flag32] at hs
    by_cases hs0 : h.sid = 0
    · simp [hs0] at hs
    rw [if_neg hs0] at hl hs
    by_cases h8 : h.flag &&& 8 = 8
    · simp only [h8, true_and, if_true, decide_true] at hl hs
      cases p with
      | nil => simp [Spec.Frame.unpad] at hs
      | cons pl rest =>
        simp only [reduceCtorEq, if_false, List.getD_cons_zero, List.drop_succ_cons, List.drop_zero] at hl
        simp only [Spec.Frame.unpad, if_true] at hs
        by_cases hp : pl > rest.length
        · rw [if_pos hp] at hs; cases hs
        rw [if_neg hp] at hs
        simp only at hs
        by_cases h32 : h.flag &&& 32 = 32
        · simp only [h32, true_and, if_true, decide_true, List.length_take] at hl hs
          by_cases h5 : min (rest.length - pl) rest.length < 5
          · rw [if_pos h5] at hs; cases hs
          rw [if_neg h5] at hs
          simp only [Except.ok.injEq] at hs
          rw [if_neg (by omega)] at hl
          have hd := hself _ _ _ _ _ hs.symm
          rw [prioOf_take _ _ (by omega), prioOf_eq] at hd
          simp only at hd
          rw [if_neg hd, if_neg (by simp only [List.length_drop]; omega)] at hl
          cases hl
        · simp only [h32, false_and, if_false] at hl
          rw [if_neg hp] at hl
          cases hl
    · simp only [h8, false_and, if_false, decide_false] at hl hs
      simp only [Spec.Frame.unpad, Bool.false_eq_true, if_false] at hs
      by_cases h32 : h.flag &&& 32 = 32
      · simp only [h32, true_and, if_true, decide_true] at hl hs
        by_cases h5 : p.length < 5
        · rw [if_pos h5] at hs; cases hs
        rw [if_neg h5] at hs hl
        simp only [Except.ok.injEq] at hs
        have hd := hself _ _ _ _ _ hs.symm
        rw [prioOf_eq] at hd
        simp only at hd
        rw [if_neg hd] at hl
        simp at hl
      · simp only [h32, false_and, if_false] at hl
        simp at hl

/-- exception (stricter than RFC 9113): HEADERS with a priority block naming its own stream -/
example : loadHeadersHead ⟨1, 36, 3⟩ [0, 0, 0, 3, 16] = .error .invalidDependencyId ∧
    Spec.Frame.ofParts 1 36 3 [0, 0, 0, 3, 16] = .ok (.headers 3 false true (some ⟨false, 3, 16⟩) []) := ⟨rfl, rfl⟩

-- ===================================================================== PUSH_PROMISE

def pushPromiseToSpec (x : Nat × Nat × Bool × Bytes) : Spec.Frame.Frame :=
  .pushPromise x.1 x.2.2.1 x.2.1 x.2.2.2

theorem loadPushPromiseHead_eq (h : Head) (p : Bytes) :
    loadPushPromiseHead h p =
      if h.sid = 0 then .error .invalidStreamId
      else if h.flag &&& 8 = 8 ∧ p = [] then .error .malformedMessage
      else
        let pad := if h.flag &&& 8 = 8 then p.getD 0 0 else 0
        let src := if h.flag &&& 8 = 8 then p.drop 1 else p
        if src.length < 4 then .error .malformedMessage
        else if pad > (src.drop 4).length then .error .tooMuchPadding
        else .ok (h.sid, (parseStreamId src).1, decide (h.flag &&& 4 = 4),
          (src.drop 4).take ((src.drop 4).length - pad)) := by
  unfold loadPushPromiseHead
  simp only [and12_4, and12_8, List.isEmpty_iff]

theorem loadPushPromiseHead_sound (h : Head) (p : Bytes) (x) (hl : loadPushPromiseHead h p = .ok x) :
    Spec.Frame.ofParts 5 h.flag h.sid p = .ok (pushPromiseToSpec x) := by
  rw [loadPushPromiseHead_eq] at hl
  simp only [Spec.Frame.ofParts, flag4, flag8]
  by_cases hs : h.sid = 0
  · simp [hs] at hl
  rw [if_neg hs] at hl ⊢
  by_cases h8 : h.flag &&& 8 = 8
  · simp only [h8, true_and, if_true, decide_true] at hl ⊢
    cases p with
    | nil => simp at hl
    | cons pl rest =>
      simp only [reduceCtorEq, if_false, List.getD_cons_zero, List.drop_succ_cons, List.drop_zero] at hl
      simp only [Spec.Frame.unpad, if_true]
      by_cases h4 : rest.length < 4
      · rw [if_pos h4] at hl; cases hl
      rw [if_neg h4] at hl
      by_cases hp : pl > (rest.drop 4).length
      · rw [if_pos hp] at hl; cases hl
      rw [if_neg hp] at hl
      simp only [Except.ok.injEq] at hl
      subst hl
      simp only [List.length_drop] at hp
      rw [if_neg (by omega)]
      simp only [List.length_take]
      rw [if_neg (by omega)]
      simp only [pushPromiseToSpec, u31_take _ _ (show 4 ≤ rest.length - pl by omega), u31_eq,
        List.length_drop, List.drop_take]
      congr 3
      omega
  · simp only [h8, false_and, if_false, decide_false] at hl ⊢
    simp only [Spec.Frame.unpad, Bool.false_eq_true, if_false]
    by_cases h4 : p.length < 4
    · rw [if_pos h4] at hl; cases hl
    rw [if_neg h4] at hl ⊢
    simp only [Nat.not_lt_zero, gt_iff_lt, if_false, Nat.sub_zero, List.take_length, Except.ok.injEq] at hl
    subst hl
    simp only [pushPromiseToSpec, u31_eq]

/-- `PushPromise::load` accepts every §6.6 frame (since the fix of the `< 5` length test: a payload of
    just the promised stream id, the header block following in CONTINUATION frames, is accepted) -/
theorem loadPushPromiseHead_complete (h : Head) (p : Bytes) (f' : Spec.Frame.Frame)
    (hs : Spec.Frame.ofParts 5 h.flag h.sid p = .ok f') :
    ∃ x, loadPushPromiseHead h p = .ok x ∧ pushPromiseToSpec x = f' := by
  cases hl : loadPushPromiseHead h p with
  | ok x => exact ⟨x, rfl, by have := loadPushPromiseHead_sound h p x hl; rw [hs] at this; exact (Except.ok.inj this).symm⟩
  | error e =>
    exfalso
    rw [loadPushPromiseHead_eq] at hl
    simp only [Spec.Frame.ofParts, flag4, flag8] at hs
    by_cases hs0 : h.sid = 0
    · simp [hs0] at hs
    rw [if_neg hs0] at hl hs
    by_cases h8 : h.flag &&& 8 = 8
    · simp only [h8, true_and, if_true, decide_true] at hl hs
      cases p with
      | nil => simp [Spec.Frame.unpad] at hs
      | cons pl rest =>
        simp only [reduceCtorEq, if_false, List.getD_cons_zero, List.drop_succ_cons, List.drop_zero] at hl
        simp only [Spec.Frame.unpad, if_true] at hs
        by_cases hp : pl > rest.length
        · rw [if_pos hp] at hs; cases hs
        rw [if_neg hp] at hs
        simp only [List.length_take] at hs
        by_cases h4 : min (rest.length - pl) rest.length < 4
        · rw [if_pos h4] at hs; cases hs
        rw [if_neg (by omega), if_neg (by simp only [List.length_drop]; omega)] at hl
        cases hl
    · simp only [h8, false_and, if_false, decide_false] at hl hs
      simp only [Spec.Frame.unpad, Bool.false_eq_true, if_false] at hs
      by_cases h4 : p.length < 4
      · rw [if_pos h4] at hs; cases hs
      rw [if_neg h4] at hl
      simp at hl

theorem loadPushPromiseHead_error (h : Head) (p : Bytes) (v : Spec.Frame.Violation)
    (hs : Spec.Frame.ofParts 5 h.flag h.sid p = .error v) : ∃ e, loadPushPromiseHead h p = .error e :=
  error_of_sound (fun x hx => ⟨_, loadPushPromiseHead_sound h p x hx⟩) v hs

/-- regression witness for the former finding: `00 00 04 05 00 00 00 00 01 | 00 00 00 02`
    (PUSH_PROMISE on stream 1 promising stream 2, no END_HEADERS, empty fragment) now loads -/
example : loadPushPromiseHead ⟨5, 0, 1⟩ [0, 0, 0, 2] = .ok (1, 2, false, []) ∧
    Spec.Frame.ofParts 5 0 1 [0, 0, 0, 2] = .ok (.pushPromise 1 false 2 []) := ⟨rfl, rfl⟩

-- ===================================================================== summary of B for header frames

/-- PUSH_PROMISE framing: `PushPromise::load` and RFC 9113 §6.6 agree exactly — same frames accepted,
    same content, same frames rejected -/
theorem loadPushPromiseHead_exact (h : Head) (p : Bytes) :
    (∀ x, loadPushPromiseHead h p = .ok x → Spec.Frame.ofParts 5 h.flag h.sid p = .ok (pushPromiseToSpec x)) ∧
    (∀ f', Spec.Frame.ofParts 5 h.flag h.sid p = .ok f' →
      ∃ x, loadPushPromiseHead h p = .ok x ∧ pushPromiseToSpec x = f') ∧
    ((∃ e, loadPushPromiseHead h p = .error e) ↔ (∃ v, Spec.Frame.ofParts 5 h.flag h.sid p = .error v)) := by
  refine ⟨loadPushPromiseHead_sound h p, loadPushPromiseHead_complete h p, ?_, ?_⟩
  · rintro ⟨e, he⟩
    cases hs : Spec.Frame.ofParts 5 h.flag h.sid p with
    | error v => exact ⟨v, rfl⟩
    | ok f' =>
      obtain ⟨x, hx, _⟩ := loadPushPromiseHead_complete h p f' hs
      rw [he] at hx; cases hx
  · rintro ⟨v, hv⟩
    exact loadPushPromiseHead_error h p v hv

/-- HEADERS framing: `Headers::load` and RFC 9113 §6.2 agree exactly, except that h2 also refuses a
    priority block naming the frame's own stream (RFC 7540 §5.3.1, `InvalidDependencyId`):
    sound; complete for every frame that is not self-dependent; and a frame the RFC accepts is
    refused only with `InvalidDependencyId`, only when self-dependent. -/
theorem loadHeadersHead_exact_except_self_dependency (h : Head) (p : Bytes) :
    (∀ x, loadHeadersHead h p = .ok x → Spec.Frame.ofParts 1 h.flag h.sid p = .ok (headersToSpec x)) ∧
    (∀ f', Spec.Frame.ofParts 1 h.flag h.sid p = .ok f' →
      (∀ sid eos eh pr frag, f' = .headers sid eos eh (some pr) frag → pr.dependency ≠ sid) →
      ∃ x, loadHeadersHead h p = .ok x ∧ headersToSpec x = f') ∧
    (∀ v, Spec.Frame.ofParts 1 h.flag h.sid p = .error v → ∃ e, loadHeadersHead h p = .error e) ∧
    (∀ f' e, Spec.Frame.ofParts 1 h.flag h.sid p = .ok f' → loadHeadersHead h p = .error e →
      ∃ sid eos eh pr frag, f' = .headers sid eos eh (some pr) frag ∧ pr.dependency = sid) := by
  refine ⟨loadHeadersHead_sound h p, loadHeadersHead_complete h p, ?_, ?_⟩
  · exact error_of_sound (fun x hx => ⟨_, loadHeadersHead_sound h p x hx⟩)
  · intro f' e hs he
    have key : (∀ sid eos eh pr frag, f' = Spec.Frame.Frame.headers sid eos eh (some pr) frag → pr.dependency ≠ sid) → False := by
      intro hself
      obtain ⟨x, hx, _⟩ := loadHeadersHead_complete h p f' hs hself
      rw [he] at hx; cases hx
    cases f' with
    | headers sid eos eh prio frag =>
      cases prio with
      | none => exact (key (fun _ _ _ _ _ hf => by cases hf)).elim
      | some pr =>
        by_cases hd : pr.dependency = sid
        · exact ⟨sid, eos, eh, pr, frag, rfl, hd⟩
        · refine (key (fun sid' eos' eh' pr' frag' hf => ?_)).elim
          simp only [Spec.Frame.Frame.headers.injEq, Option.some.injEq] at hf
          obtain ⟨rfl, _, _, rfl, _⟩ := hf
          exact hd
    | _ => exact (key (fun _ _ _ _ _ hf => by cases hf)).elim

end H2V.Lemmas.Codec
