import H2V.Lemmas.ConnCountsPRecv
/-
  C05 / C18 / C19 — local theorems: what single functions of the stream layer do at the limits
  (no induction over histories here; the invariants over histories are in `ConnCountsPInv*.lean`).
-/
namespace H2V.Lemmas.ConnCountsP
open H2V H2V.Model H2V.Model.Conn
variable {ρ : Bool}
attribute [local irreducible] wrapSubU32 wrapSubUsize

-- ===================================================================== C19: transition_after

/-- after `transition_after` the slab holds no released entry under the key it was called for -/
theorem transitionAfter_no_released (s : Streams) (k : Nat) (b : Bool) :
    ∀ st, (s.transitionAfter k b).store.get? k = some st → st.isReleased = false := by
  unfold Streams.transitionAfter
  extract_lets st0 s1 s2
  split
  · intro st h
    simp only [remove_get?_self] at h
    cases h
  · next hn =>
    intro st h
    rw [stream_of_get? h] at hn
    simpa using hn

theorem modStream_get?_ne (u : Streams) (k j : Nat) (f : Stream → Stream) (hf : ∀ y, (f y).key = y.key) (hj : j ≠ k)
    (x : Stream) (hu : u.store.get? j = some x) : (u.modStream k f).store.get? j = some x := by
  unfold Streams.modStream
  split
  · next y hy =>
    rw [setStream_get?, hu]
    have : (x.key == (f y).key) = false := by rw [hf, get?_key hu, get?_key hy]; simpa using hj
    simp only [Option.map_some, this, Bool.false_eq_true, if_false]
  · rw [panic_store]; exact hu

theorem decNumStreams_get?_ne (t : Streams) (k j : Nat) (hj : j ≠ k) (x : Stream) (hx : t.store.get? j = some x) :
    (t.decNumStreams k).store.get? j = some x := by
  unfold Streams.decNumStreams
  dsimp only
  repeat' split
  all_goals
    refine modStream_get?_ne _ k j (fun st => { st with isCounted := false }) ?_ hj x ?_
    · intro _; rfl
    · simp only [Streams.modCounts, panic_store, hx]

-- ===================================================================== C05: the send limit

/-- `pop_pending_open` opens nothing while `num_send_streams` has reached the peer's limit -/
theorem popPendingOpen_at_limit (s : Streams) (h : s.counts.canIncNumSendStreams = false) :
    s.popPendingOpen = (s, none) := by
  unfold Streams.popPendingOpen
  simp [h]

theorem modStream_counts (s : Streams) (k : Nat) (f : Stream → Stream) : (s.modStream k f).counts = s.counts := by
  unfold Streams.modStream; split
  · rfl
  · rw [panic_counts]
theorem modStreamW_counts (s : Streams) (k : Nat) (f : Stream → Stream × List String) : (s.modStreamW k f).counts = s.counts := by
  unfold Streams.modStreamW; split
  · rfl
  · rw [panic_counts]
theorem qPop_counts (s : Streams) (q : QName) : (s.qPop q).1.counts = s.counts := by
  unfold Streams.qPop; split
  · rfl
  · rw [modStream_counts, setQ_counts]

theorem incNumSendStreams_counts (s : Streams) (k : Nat) :
    (s.incNumSendStreams k).counts = { s.counts with numSendStreams := s.counts.numSendStreams + 1 } := by
  unfold Streams.incNumSendStreams
  dsimp only
  rw [modStream_counts]
  simp only [Streams.modCounts]
  split <;> split <;> simp only [panic_counts]

/-- a stream leaves `pending_open` only into a free slot, which it then occupies -/
theorem popPendingOpen_takes_slot (s s' : Streams) (k : Nat) (h : s.popPendingOpen = (s', some k)) :
    s.counts.numSendStreams < s.counts.maxSendStreams ∧
    s'.counts.numSendStreams = s.counts.numSendStreams + 1 ∧ s'.counts.maxSendStreams = s.counts.maxSendStreams := by
  unfold Streams.popPendingOpen at h
  split at h
  · next hc =>
    refine ⟨by simpa [Counts.canIncNumSendStreams] using hc, ?_⟩
    split at h
    · next s1 id heq =>
      have h1 : s1.counts = s.counts := by
        have := qPop_counts s .pendingOpen; rw [heq] at this; exact this
      simp only [Prod.mk.injEq] at h
      rw [← h.1, modStreamW_counts, incNumSendStreams_counts, h1]
      exact ⟨rfl, rfl⟩
    · cases h
  · cases h

-- ===================================================================== C05: the receive limit

/-- `Recv::open` at the limit: the stream is refused (`Ok(None)`), remembered in `refused`, and
    nothing else changes -/
theorem recvOpen_refuses (s : Streams) (id : Nat) (isPP : Bool) (nextId : Nat)
    (hr : s.recv.refused = none) (hnext : s.recv.nextStreamId = some nextId) (hid : nextId ≤ id)
    (hcan : (if s.counts.isServer then !(isPP || id % 2 == 0) else !(!isPP || !(id % 2 == 0))) = true)
    (hfull : s.counts.canIncNumRecvStreams = false) :
    (s.recvOpen id isPP).2 = .ok false ∧ (s.recvOpen id isPP).1.recv.refused = some id ∧
    (s.recvOpen id isPP).1.store = s.store ∧ (s.recvOpen id isPP).1.counts = s.counts ∧
    (s.recvOpen id isPP).1.recv.pendingAccept = s.recv.pendingAccept := by
  unfold Streams.recvOpen
  simp only [hr, Option.isSome_none, Bool.false_eq_true, if_false, hcan, Bool.not_true, hnext]
  have : ¬ id < nextId := by omega
  simp only [this, if_false]
  have hc : (s.modRecv fun r => { r with nextStreamId := if id + 2 > 2147483647 then none else some (id + 2) }).counts = s.counts := rfl
  simp only [hc, hfull, Bool.not_false, if_true]
  refine ⟨?_, ?_, ?_, ?_, ?_⟩ <;> first | rfl | trivial

/-- the refusal is answered with `RST_STREAM(REFUSED_STREAM)` as soon as the codec takes a frame -/
theorem sendPendingRefusal_writes (s : Streams) (w : Writer) (sid : Nat) (hr : s.recv.refused = some sid)
    (hw : w.hasCapacity = true) :
    s.sendPendingRefusal w =
      (s.modRecv fun r => { r with refused := none }, w.bufferSimple 4 s!"R:{sid}:{REFUSED_STREAM}", .complete) := by
  unfold Streams.sendPendingRefusal
  simp [hr, hw]

-- ===================================================================== C18: quotas

/-- the local-error-reset quota: at the limit a stream error becomes a connection error
    (`GOAWAY(ENHANCE_YOUR_CALM)`), no RST_STREAM is queued, nothing is remembered -/
theorem resetOnRecvStreamErr_at_limit (s : Streams) (k sid : Nat) (r : Reason) (i : Initiator)
    (h : s.counts.canIncNumLocalErrorResets = false) :
    s.resetOnRecvStreamErr k (.error (.reset sid r i)) =
      (s, .error (PErr.libraryGoAwayData ENHANCE_YOUR_CALM "too_many_internal_resets")) := by
  unfold Streams.resetOnRecvStreamErr
  simp [h]

/-- the pending-accept reset quota: a RST_STREAM for a stream the application has not accepted yet,
    beyond `max_pending_accept_reset_streams`, kills the connection and changes nothing -/
theorem recvRecvReset_at_limit (s : Streams) (k : Nat) (r : Reason)
    (hp : (s.stream k).isPendingAccept = true) (h : s.counts.canIncNumRemoteResetStreams = false) :
    s.recvRecvReset k r = (s, .error (PErr.libraryGoAwayData ENHANCE_YOUR_CALM "too_many_resets")) := by
  unfold Streams.recvRecvReset
  simp [hp, h]

/-- `enqueue_reset_expiration` never lets `num_local_reset_streams` pass `max_concurrent_reset_streams` -/
theorem enqueueResetExpiration_bound (s : Streams) (k : Nat)
    (h : s.counts.numLocalResetStreams ≤ s.counts.maxLocalResetStreams) :
    (s.enqueueResetExpiration k).counts.numLocalResetStreams ≤ (s.enqueueResetExpiration k).counts.maxLocalResetStreams := by
  unfold Streams.enqueueResetExpiration
  dsimp only
  split
  · exact h
  · split
    · next hc =>
      have : ((s.modCountsA "can_inc_num_reset_streams" Counts.incNumResetStreams).qPush .pendingResetExpired k).1.counts =
          (s.modCountsA "can_inc_num_reset_streams" Counts.incNumResetStreams).counts := by
        unfold Streams.qPush; split
        · rfl
        · rw [setQ_counts, modStream_counts]
      rw [this]
      unfold Streams.modCountsA Counts.incNumResetStreams
      simp only [hc, if_true]
      simp only [Counts.canIncNumResetStreams, decide_eq_true_eq] at hc
      show s.counts.numLocalResetStreams + 1 ≤ s.counts.maxLocalResetStreams
      omega
    · exact h

-- ===================================================================== C18: the DATA-frame budget

/-- feed a sequence of DATA payload lengths (none of them END_STREAM) through `record_data_frame`:
    `none` = `Err(BudgetExhausted)`, which `recv_data` turns into `GOAWAY(ENHANCE_YOUR_CALM)` -/
def recordAll : Counts → List Nat → Option Counts
  | c, [] => some c
  | c, n :: rest => if (c.recordDataFrame n).2 then recordAll (c.recordDataFrame n).1 rest else none

/-- what small non-empty frames cost -/
def tinyCost (l : List Nat) : Nat :=
  (l.map fun n => Generated.Consts.DEFAULT_DATA_FRAME_OVERHEAD_THRESHOLD - n).sum

/-- a flood of small non-empty DATA frames whose total overhead exceeds the budget is cut off -/
theorem tiny_data_flood (l : List Nat) : ∀ (c : Counts),
    (∀ n ∈ l, n ≠ 0 ∧ n < Generated.Consts.DEFAULT_DATA_FRAME_OVERHEAD_THRESHOLD) →
    c.dataFrameBudget.available < tinyCost l → recordAll c l = none := by
  induction l with
  | nil => intro c _ h; simp [tinyCost] at h
  | cons n rest ih =>
    intro c hl hb
    have hn := hl n (List.mem_cons_self)
    have hrec : c.recordDataFrame n =
        (match c.dataFrameBudget.consume (Generated.Consts.DEFAULT_DATA_FRAME_OVERHEAD_THRESHOLD - n) with
         | some b => ({ c with dataFrameBudget := b }, true)
         | none => (c, false)) := by
      unfold Counts.recordDataFrame
      dsimp only
      rw [if_neg hn.1, if_pos hn.2]
      rfl
    unfold recordAll
    rw [hrec]
    unfold Budget.consume
    by_cases hge : c.dataFrameBudget.available ≥ Generated.Consts.DEFAULT_DATA_FRAME_OVERHEAD_THRESHOLD - n
    · simp only [hge, if_true]
      apply ih
      · intro m hm; exact hl m (List.mem_cons_of_mem _ hm)
      · simp only [tinyCost, List.map_cons, List.sum_cons] at hb ⊢
        show c.dataFrameBudget.available - (Generated.Consts.DEFAULT_DATA_FRAME_OVERHEAD_THRESHOLD - n) < _
        omega
    · simp only [hge, if_false]
      rfl

/-- empty DATA frames (without END_STREAM) beyond `MAX_RECV_EMPTY_DATA_FRAMES` are refused -/
theorem empty_data_flood (c : Counts) (h : Generated.Consts.MAX_RECV_EMPTY_DATA_FRAMES ≤ c.numRecvEmptyDataFrames) :
    (c.recordDataFrame 0).2 = false := by
  unfold Counts.recordDataFrame
  simp only [if_true]
  split
  · rfl
  · simp only [decide_eq_false_iff_not]
    omega

/-- the empty-frame counter only grows -/
theorem empty_counter_grows (c : Counts) (n : Nat) :
    c.numRecvEmptyDataFrames ≤ (c.recordDataFrame n).1.numRecvEmptyDataFrames := by
  unfold Counts.recordDataFrame
  dsimp only
  split
  · split
    · exact Nat.le_refl _
    · exact Nat.le_succ _
  · split
    · split <;> exact Nat.le_refl _
    · exact Nat.le_refl _

-- ===================================================================== C05: end to end through `recv_headers`

/-- `Inner::recv_headers` for a new stream beyond the advertised limit: the frame is dropped, no
    stream is created, nothing is queued for `accept`; only `next_stream_id` and `refused` move -/
theorem recvHeaders_refuses (s : Streams) (h : HeadersIn) (nextId : Nat)
    (hsv : s.counts.isServer = true) (hmax : ¬ h.sid > s.recv.maxStreamId) (hnew : s.store.findKey? h.sid = none)
    (hr : s.recv.refused = none) (hnext : s.recv.nextStreamId = some nextId) (hid : nextId ≤ h.sid)
    (hodd : h.sid % 2 = 1) (hfull : s.counts.canIncNumRecvStreams = false) :
    (s.recvHeaders h).2 = .ok () ∧ (s.recvHeaders h).1.store = s.store ∧ (s.recvHeaders h).1.counts = s.counts ∧
    (s.recvHeaders h).1.recv.pendingAccept = s.recv.pendingAccept ∧ (s.recvHeaders h).1.recv.refused = some h.sid := by
  have hcan : (if s.counts.isServer then !(false || h.sid % 2 == 0) else !(!false || !(h.sid % 2 == 0))) = true := by
    simp [hsv, hodd]
  obtain ⟨h1, h2, h3, h4, h5⟩ := recvOpen_refuses s h.sid false nextId hr hnext hid hcan hfull
  unfold Streams.recvHeaders
  simp only [hmax, if_false, hnew, hsv, Bool.not_true, Bool.false_and, Bool.false_eq_true]
  generalize hro : s.recvOpen h.sid false = ro at h1 h2 h3 h4 h5
  obtain ⟨s1, r1⟩ := ro
  simp only at h1 h2 h3 h4 h5
  subst h1
  exact ⟨rfl, h3, h4, h5, h2⟩

/-- `Recv::recv_headers` for a stream that is still uncounted (a promised stream whose response
    arrives) when the limit is reached: the stream is refused with a stream error
    `REFUSED_STREAM`; it is not counted, and no `assert!` fires (fix F31) -/
theorem recvRecvHeaders_refuses (s : Streams) (id : Nat) (h : HeadersIn) (x : Stream) (st' : State)
    (hx : s.store.get? id = some x) (ho : x.state.recvOpen h.eos h.isInformational = (st', .ok true))
    (hc : x.isCounted = false) (hfull : s.counts.canIncNumRecvStreams = false) :
    (s.recvRecvHeaders id h).2 = .state (PErr.libraryReset x.id REFUSED_STREAM) ∧
    (s.recvRecvHeaders id h).1.counts = s.counts ∧ (s.recvRecvHeaders id h).1.panicked = s.panicked := by
  have hm := modStream_get?_self s id (fun st => { st with state := st' }) x hx rfl
  have hcnt : (s.modStream id fun st => { st with state := st' }).counts = s.counts := by
    unfold Streams.modStream; rw [hx]; rfl
  have hpan : (s.modStream id fun st => { st with state := st' }).panicked = s.panicked := by
    unfold Streams.modStream; rw [hx]; rfl
  unfold Streams.recvRecvHeaders
  rw [stream_of_get? hx, ho]
  dsimp only
  rw [stream_of_get? hm, hcnt, hfull]
  simp only [hc, Bool.not_false, Bool.and_self, if_true]
  exact ⟨by first | rfl | trivial, hcnt, hpan⟩

-- ===================================================================== C05: a freed slot is taken

/-- as soon as there is room, the head of `pending_open` is opened -/
theorem popPendingOpen_opens (s : Streams) (k : Nat) (rest : List Nat) (hc : s.counts.canIncNumSendStreams = true)
    (hq : s.prio.pendingOpen = k :: rest) : s.popPendingOpen.2 = some k := by
  unfold Streams.popPendingOpen Streams.qPop
  have : s.getQ .pendingOpen = k :: rest := hq
  simp only [hc, if_true, this]

-- ===================================================================== C18: the budget through `recv_data`

/-- `Inner::recv_data`: a DATA frame (without END_STREAM) that the stream accepts but that exhausts
    the DATA-frame budget (or the empty-frame allowance) kills the connection with
    `GOAWAY(ENHANCE_YOUR_CALM, "too_many_data_frames")` -/
theorem recvData_flood (s : Streams) (id k : Nat) (payload : Bytes) (pad : Option Nat)
    (hk : s.store.findKey? id = some k)
    (hok : (s.recvRecvData k payload false pad).2 = .ok ())
    (hbud : ((s.recvRecvData k payload false pad).1.counts.recordDataFrame payload.length).2 = false) :
    (s.recvData id payload false pad).2 = .error (PErr.libraryGoAwayData ENHANCE_YOUR_CALM "too_many_data_frames") := by
  unfold Streams.recvData
  simp only [hk]
  unfold Streams.transition
  dsimp only
  generalize hr : s.recvRecvData k payload false pad = r at hok hbud
  obtain ⟨s1, res⟩ := r
  simp only at hok hbud
  subst hok
  simp only [Bool.not_false, if_true, Bool.false_eq_true, if_false]
  generalize hrec : s1.counts.recordDataFrame payload.length = rec at hbud
  obtain ⟨c, ok⟩ := rec
  simp only at hbud
  subst hbud
  simp only [Bool.false_eq_true, if_false]
  unfold Streams.resetOnRecvStreamErr PErr.libraryGoAwayData
  rfl

end H2V.Lemmas.ConnCountsP
