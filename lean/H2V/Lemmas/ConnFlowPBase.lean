import H2V.Model.ConnStreams
import H2V.Lemmas.CompFlow
/-
  ConnFlowP, part 1 — the *send-flow frame* relation `Fr`.

  `Fr s s'` says that going from `s` to `s'` did not touch anything the send-side flow-control
  ledger looks at: the connection `FlowControl` (`prio.flow`), `max_send_buffer_size`, and, for
  every slab entry that survives, its `key` and `send_flow`.  Slab entries may disappear
  (`Ptr::remove`) and fresh ones (key ≥ the old `nextKey`, nothing assigned) may appear.
  The relation is conditional on the slab keys being pairwise distinct (`KeysOk`, itself preserved),
  because `Store.set` replaces *every* entry that carries the key.

  All lemmas have the shape `Fr s t → Fr s (prim t)` so that a composite function is handled by
  peeling primitives from the outside (`fr_step`).
-/
namespace H2V.Lemmas.ConnFlowP
open H2V H2V.Model H2V.Model.Conn

-- ===================================================================== list helpers

theorem key_inj {l : List Stream} (hn : (l.map (·.key)).Nodup) {x y : Stream}
    (hx : x ∈ l) (hy : y ∈ l) (h : x.key = y.key) : x = y := by
  induction l with
  | nil => cases hx
  | cons a t ih =>
    simp only [List.map_cons, List.nodup_cons, List.mem_map, not_exists, not_and] at hn
    rcases List.mem_cons.1 hx with rfl | hx'
    · rcases List.mem_cons.1 hy with rfl | hy'
      · rfl
      · exact absurd h.symm (hn.1 y hy')
    · rcases List.mem_cons.1 hy with rfl | hy'
      · exact absurd h (hn.1 x hx')
      · exact ih hn.2 hx' hy'

-- ===================================================================== definitions

/-- slab keys pairwise distinct and below `nextKey` -/
def KeysOk (st : Store) : Prop :=
  (st.slab.map (·.key)).Nodup ∧ ∀ x ∈ st.slab, x.key < st.nextKey

/-- a slab entry nothing has been assigned to, window inside `i32` -/
def Fresh (x : Stream) : Prop :=
  x.sendFlow.available.val = 0 ∧ I32_MIN ≤ x.sendFlow.windowSize.val ∧ x.sendFlow.windowSize.val ≤ I32_MAX

/-- frame condition on the store -/
def StoreFr (a b : Store) : Prop :=
  KeysOk a → KeysOk b ∧ a.nextKey ≤ b.nextKey ∧
    ∀ y ∈ b.slab, (∃ x ∈ a.slab, x.key = y.key ∧ x.sendFlow = y.sendFlow) ∨ (a.nextKey ≤ y.key ∧ Fresh y)

/-- the send-flow frame relation -/
def Fr (s s' : Streams) : Prop :=
  s'.prio.flow = s.prio.flow ∧ s'.prio.maxBufferSize = s.prio.maxBufferSize ∧ StoreFr s.store s'.store

/-- a stream update that keeps `key` and `send_flow` -/
@[reducible] def NoFlow (f : Stream → Stream) : Prop := ∀ x, (f x).key = x.key ∧ (f x).sendFlow = x.sendFlow

/-- same for the stream methods that also return the tasks to wake -/
@[reducible] def NoFlowW (f : Stream → Stream × List String) : Prop := ∀ x, (f x).1.key = x.key ∧ (f x).1.sendFlow = x.sendFlow

-- ===================================================================== StoreFr basics

theorem StoreFr.refl (a : Store) : StoreFr a a := fun h =>
  ⟨h, Nat.le_refl _, fun y hy => Or.inl ⟨y, hy, rfl, rfl⟩⟩

theorem StoreFr.trans {a b c : Store} (h1 : StoreFr a b) (h2 : StoreFr b c) : StoreFr a c := by
  intro ha
  obtain ⟨hb, hn1, hs1⟩ := h1 ha
  obtain ⟨hc, hn2, hs2⟩ := h2 hb
  refine ⟨hc, Nat.le_trans hn1 hn2, fun y hy => ?_⟩
  rcases hs2 y hy with ⟨x, hx, hk, hf⟩ | ⟨hk, hf⟩
  · rcases hs1 x hx with ⟨w, hw, hk', hf'⟩ | ⟨hk', hf'⟩
    · exact Or.inl ⟨w, hw, hk'.trans hk, hf'.trans hf⟩
    · refine Or.inr ⟨hk ▸ hk', ?_⟩
      unfold Fresh at *; rw [← hf]; exact hf'
  · exact Or.inr ⟨Nat.le_trans hn1 hk, hf⟩

/-- `Store.set` with an entry that agrees (key, send flow) with what it replaces -/
theorem StoreFr.set (a : Store) (st' : Stream)
    (h : ∀ x ∈ a.slab, x.key = st'.key → x.sendFlow = st'.sendFlow) : StoreFr a (a.set st') := by
  intro ha
  have hkeys : (a.set st').slab.map (·.key) = a.slab.map (·.key) := by
    simp only [Store.set, List.map_map]
    apply List.map_congr_left
    intro x _
    simp only [Function.comp]
    split
    · rename_i hk; exact (beq_iff_eq.1 hk).symm
    · rfl
  refine ⟨⟨by rw [hkeys]; exact ha.1, ?_⟩, Nat.le_refl _, ?_⟩
  · intro y hy
    simp only [Store.set, List.mem_map] at hy
    obtain ⟨x, hx, rfl⟩ := hy
    split
    · rename_i hk; rw [← beq_iff_eq.1 hk]; exact ha.2 x hx
    · exact ha.2 x hx
  · intro y hy
    simp only [Store.set, List.mem_map] at hy
    obtain ⟨x, hx, rfl⟩ := hy
    split
    · rename_i hk
      exact Or.inl ⟨x, hx, beq_iff_eq.1 hk, h x hx (beq_iff_eq.1 hk)⟩
    · exact Or.inl ⟨x, hx, rfl, rfl⟩

theorem get?_mem {a : Store} {k : Nat} {st : Stream} (h : a.get? k = some st) : st ∈ a.slab ∧ st.key = k := by
  unfold Store.get? at h
  have h2 := List.find?_some h
  exact ⟨List.mem_of_find?_eq_some h, beq_iff_eq.1 h2⟩

theorem StoreFr.remove (a : Store) (k : Nat) : StoreFr a (a.remove k) := by
  intro ha
  refine ⟨⟨?_, ?_⟩, Nat.le_refl _, ?_⟩
  · simp only [Store.remove]
    exact (List.filter_sublist.map _).nodup ha.1
  · intro y hy
    simp only [Store.remove, List.mem_filter] at hy
    exact ha.2 y hy.1
  · intro y hy
    simp only [Store.remove, List.mem_filter] at hy
    exact Or.inl ⟨y, hy.1, rfl, rfl⟩

theorem StoreFr.unlink (a : Store) (id : Nat) : StoreFr a (a.unlink id) := by
  intro ha
  exact ⟨ha, Nat.le_refl _, fun y hy => Or.inl ⟨y, hy, rfl, rfl⟩⟩

theorem StoreFr.insert (a : Store) (st : Stream) (hf : Fresh st) : StoreFr a (a.insert st).1 := by
  intro ha
  simp only [Store.insert]
  refine ⟨⟨?_, ?_⟩, Nat.le_succ _, ?_⟩
  · simp only [List.map_append, List.map_cons, List.map_nil]
    refine List.nodup_append.2 ⟨ha.1, by simp, ?_⟩
    intro k hk k' hk'
    simp only [List.mem_singleton] at hk'
    simp only [List.mem_map] at hk
    obtain ⟨x, hx, rfl⟩ := hk
    have := ha.2 x hx
    omega
  · intro y hy
    rcases List.mem_append.1 hy with h | h
    · have := ha.2 y h; show y.key < a.nextKey + 1; omega
    · simp only [List.mem_singleton] at h; subst h; show a.nextKey < a.nextKey + 1; omega
  · intro y hy
    rcases List.mem_append.1 hy with h | h
    · exact Or.inl ⟨y, h, rfl, rfl⟩
    · simp only [List.mem_singleton] at h; subst h
      exact Or.inr ⟨Nat.le_refl _, hf⟩

-- ===================================================================== Fr basics

theorem Fr.refl (s : Streams) : Fr s s := ⟨rfl, rfl, StoreFr.refl _⟩

theorem Fr.trans {a b c : Streams} (h1 : Fr a b) (h2 : Fr b c) : Fr a c :=
  ⟨h2.1.trans h1.1, h2.2.1.trans h1.2.1, h1.2.2.trans h2.2.2⟩

/-- a step that leaves the store, the connection flow and the buffer bound alone -/
theorem Fr.of_same {s t t' : Streams} (h : Fr s t) (hs : t'.store = t.store)
    (hf : t'.prio.flow = t.prio.flow) (hm : t'.prio.maxBufferSize = t.prio.maxBufferSize) : Fr s t' :=
  h.trans ⟨hf, hm, hs ▸ StoreFr.refl _⟩

theorem Fr.of_store {s t t' : Streams} (h : Fr s t) (hs : StoreFr t.store t'.store)
    (hf : t'.prio.flow = t.prio.flow) (hm : t'.prio.maxBufferSize = t.prio.maxBufferSize) : Fr s t' :=
  h.trans ⟨hf, hm, hs⟩

end H2V.Lemmas.ConnFlowP
