import H2V.Lemmas.ConnResetPSpec
/-
  ConnResetP — where RST_STREAM frames come from (C17): `pop_frame` hands the codec a RST_STREAM only
  for a slab entry that owes one (an RST_STREAM at the head of its queue, or a scheduled implicit
  reset with an empty queue), with that entry's id and exactly the owed code, and leaves the entry
  reset with nothing owed.
-/
set_option linter.unusedSectionVars false
namespace H2V.Lemmas.ConnResetP
open H2V H2V.Model H2V.Model.Conn
set_option allowUnsafeReducibility true in
attribute [local reducible] Streams.stream Store.getD'

/-- the stream owes an RST_STREAM with code `r` and it is next in line -/
def Owes (st : Stream) (r : Reason) : Prop :=
  (∃ rest, st.pendingSend = .reset r :: rest) ∨ (st.pendingSend = [] ∧ st.state.getScheduledReset = some r)

/-- what `pop_frame` guarantees when it returns the frame `f` -/
def EmitSpec (s s' : Streams) (f : Streams.OutFrame) : Prop :=
  match f with
  | .reset sid r =>
    ∃ s1 : Store, Evolves SRelAny RInv s.store s1 ∧ Evolves SRelAny RInv s1 s'.store ∧
      ∃ k st1, s1.get? k = some st1 ∧ st1.id = sid ∧ Owes st1 r ∧
        (RInv st1 → ∀ st', s'.store.get? k = some st' → isErr st'.state = true ∧ resetCount st'.pendingSend = 0)
  | _ => True

theorem owes_rank {st : Stream} {r : Reason} (i : RInv st) (h : Owes st r) : rank st = 1 := by
  unfold rank
  rcases h with ⟨rest, hq⟩ | ⟨_, hs⟩
  · have hc : resetCount st.pendingSend = 1 := by
      have := i.le; rw [hq] at this ⊢; simp [isResetFrame] at this ⊢; omega
    have he := i.err hc
    unfold isErr at he; simp only [Bool.and_eq_true, Bool.not_eq_true'] at he
    simp [he.1, he.2, hc]
  · have h1 : st.state.isScheduledReset = true := isScheduledReset_of_get hs
    have h2 : st.state.isReset = true := by
      revert hs; generalize st.state = x
      rcases x with ⟨_ | _ | _ | _ | _ | _ | ⟨_ | _ | _ | _⟩⟩ <;> simp [State.getScheduledReset, State.isReset]
    simp [h1, h2]

theorem done_rank {st : Stream} (h1 : isErr st.state = true) (h2 : resetCount st.pendingSend = 0) : rank st = 2 := by
  unfold rank
  unfold isErr at h1; simp only [Bool.and_eq_true, Bool.not_eq_true'] at h1
  simp [h1.1, h1.2, h2]

theorem EmitSpec.mono_left {s sB s' : Streams} {f : Streams.OutFrame} (e : Evolves SRelAny RInv s.store sB.store)
    (h : EmitSpec sB s' f) : EmitSpec s s' f := by
  unfold EmitSpec at *
  split
  · next sid r =>
    simp only at h
    obtain ⟨s1, e1, e2, r⟩ := h
    exact ⟨s1, e.trans e1, e2, r⟩
  · trivial

theorem emit_close {s sA sE s' : Streams} {id : Nat} {r : Reason} {st : Stream}
    (evA : Evolves SRelAny RInv s.store sA.store) (hkA : KeysBelow sA.store)
    (hgA : sA.store.get? id = some st) (hO : Owes st r)
    (hE : Evolves SRelAny RInv sA.store sE.store)
    (hyE : ∀ st1, sE.store.get? id = some st1 → RInv st → isErr st1.state = true ∧ resetCount st1.pendingSend = 0)
    (hF : Evolves CoreEq (fun _ => True) sE.store s'.store) (hF' : Evolves SRelAny RInv sE.store s'.store) :
    EmitSpec s s' (.reset st.id r) := by
  refine ⟨sA.store, evA, hE.trans hF', id, st, hgA, rfl, hO, fun i st' h' => ?_⟩
  rcases hF.back id st' h' with ⟨st1, h1, c⟩ | ⟨hge, _, _⟩
  · have := hyE st1 h1 i
    rw [c.state, c.pendingSend]; exact this
  · exfalso
    have h1 := hkA id st hgA
    have h2 := hE.nk
    omega

theorem get?_of_stream_ne {s : Streams} {id : Nat} (h : (s.stream id).pendingSend ≠ [] ∨ (s.stream id).state.isIdle = false) :
    s.store.get? id = some (s.stream id) := by
  cases hg : s.store.get? id with
  | some st => rw [stream_of_get? _ hg]
  | none =>
    rw [stream_of_none _ hg] at h
    rcases h with h | h
    · exact absurd rfl h
    · cases h

theorem popFrameC_emit (sd : Stream → Nat → Nat → Stream × List String × Bool)
    (fuel : Nat) :
    ∀ (s : Streams) (m : Nat) (s' : Streams) (f : Streams.OutFrame), KeysBelow s.store →
      popFrameC sd fuel s m = (s', some f) → EmitSpec s s' f := by
  induction fuel with
  | zero => intro s m s' f _ h; rw [popFrameC_zero] at h; cases h
  | succ n ih =>
    intro s m s' f hkb h
    rw [popFrameC_succ] at h
    split at h
    · cases h
    · next sA id hq =>
      have evA : Evolves SRelAny RInv s.store sA.store := by
        have := qPop_ev (P := SRelAny) (N := RInv) (Evolves.refl s.store) .pendingSend
        rw [hq] at this; exact this
      have hkA : KeysBelow sA.store := evA.keysBelow hkb
      dsimp only at h
      -- a recursive call on a state reached from `sA`
      have recur : ∀ sB : Streams, Evolves SRelAny RInv s.store sB.store → popFrameC sd n sB m = (s', some f) → EmitSpec s s' f :=
        fun sB e hB => EmitSpec.mono_left e (ih sB m s' f (e.keysBelow hkb) hB)
      split at h
      · -- DATA
        have dataTail : ∀ {X : Streams × Option Streams.OutFrame} {c1 c2 : Prop} [Decidable c1] [Decidable c2] {fr : Streams.OutFrame}
            {sX : Streams},
            (if c1 then popFrameC sd n sA m else if c2 then popFrameC sd n sA m else (sX, some fr)) = (s', some f) →
            (∀ r sid, fr ≠ .reset sid r) → EmitSpec s s' f := by
          intro X c1 c2 _ _ fr sX hh hfr
          split at hh
          · exact recur _ evA hh
          · split at hh
            · exact recur _ evA hh
            · cases hh
              unfold EmitSpec
              split
              · next sid r => exact absurd rfl (hfr r sid)
              · trivial
        split at h
        · split at h
          · exact recur _ (by ev) h
          · exact dataTail (X := (s, none)) h (by intro r sid hc; cases hc)
        · simp only [Bool.false_eq_true, if_false] at h
          exact dataTail (X := (s, none)) h (by intro r sid hc; cases hc)
      · -- HEADERS
        cases h; exact trivial
      · -- RST_STREAM at the head of the queue
        next reason rest hps =>
        cases h
        have hgA : sA.store.get? id = some (sA.stream id) := get?_of_stream_ne (.inl (by rw [hps]; simp))
        refine emit_close (sE := sA.modStream id fun st => { st with pendingSend := rest }) evA hkA hgA
          (.inl ⟨rest, hps⟩) (by ev) ?_ (by ev) (by ev)
        intro st1 h1 i
        rw [modStream_store, Store.get?_mod' _ _ _ (by intro; rfl), if_pos rfl, hgA] at h1
        simp only [Option.map_some, Option.some.injEq] at h1
        subst h1
        have hc := i.le
        rw [hps] at hc
        simp only [resetCount_cons, isResetFrame, if_true] at hc
        have h1 : resetCount (sA.stream id).pendingSend = 1 := by rw [hps]; simp [isResetFrame]; omega
        refine ⟨i.err h1, ?_⟩
        show resetCount rest = 0
        omega
      · -- PUSH_PROMISE
        split at h
        · exact recur _ (by ev) h
        · cases h; exact trivial
      · -- empty queue
        rename_i hnil
        split at h
        · rename_i reason hsr
          cases h
          have hgA : sA.store.get? id = some (sA.stream id) := get?_of_stream_ne (.inr (by
            revert hsr; generalize (sA.stream id).state = x
            rcases x with ⟨_ | _ | _ | _ | _ | _ | _⟩ <;> simp [State.getScheduledReset, State.isIdle]))
          refine emit_close (sE := sA.modStreamW id fun st => st.setReset reason .library) evA hkA hgA
            (.inr ⟨hnil, hsr⟩) (by ev) ?_ (by ev) (by ev)
          intro st1 h1 _
          rw [modStreamW_store, Store.get?_mod' _ _ _ (by intro x; exact setReset_key x _ _), if_pos rfl, hgA] at h1
          simp only [Option.map_some, Option.some.injEq] at h1
          subst h1
          rw [setReset_state, setReset_pendingSend, hnil]
          exact ⟨rfl, rfl⟩
        · exact recur _ (by ev) h


/-- **`pop_frame` and RST_STREAM**: when `pop_frame` returns `RST_STREAM(sid, r)`, some slab entry with
    stream id `sid` owed exactly that frame at that moment, and afterwards (if it is still in the slab)
    it is closed by an error with no RST_STREAM left in its queue. -/
theorem popFrame_emit (fuel : Nat) (s : Streams) (m : Nat) (s' : Streams) (f : Streams.OutFrame)
    (hkb : KeysBelow s.store) (h : Streams.popFrame fuel s m = (s', some f)) : EmitSpec s s' f := by
  rw [popFrameC.eq] at h; exact popFrameC_emit _ fuel s m s' f hkb h

end H2V.Lemmas.ConnResetP
