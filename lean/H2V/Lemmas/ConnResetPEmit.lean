import H2V.Lemmas.ConnResetPSpec
/-
  ConnResetP — where RST_STREAM frames come from (C17): `pop_frame` hands the codec a RST_STREAM only
  for a slab entry that owes one (an RST_STREAM at the head of its queue, or a scheduled implicit
  reset with an empty queue), with that entry's id and exactly the owed code, and leaves the entry
  reset with nothing owed.
-/
set_option linter.unusedSectionVars false
namespace H2V.Lemmas.ConnResetP
open H2V H2V.Model H2V.Model.Conn

/-- the stream owes an RST_STREAM with code `r` and it is next in line -/
def Owes (st : Stream) (r : Reason) : Prop :=
  (∃ rest, st.pendingSend = .reset r :: rest) ∨ (st.pendingSend = [] ∧ st.state.getScheduledReset = some r)

/-- what `pop_frame` guarantees when it returns the frame `f` -/
def EmitSpec (s s' : Streams) (f : Streams.OutFrame) : Prop :=
  match f with
  | .reset sid r =>
    ∃ s1 : Store, Evolves SRel RInv s.store s1 ∧ Evolves SRel RInv s1 s'.store ∧
      ∃ k st1, s1.get? k = some st1 ∧ st1.id = sid ∧ Owes st1 r ∧
        (RInv st1 → ∀ st', s'.store.get? k = some st' → isErr st'.state = true ∧ resetCount st'.pendingSend = 0)
  | _ => True

theorem owes_rank {st : Stream} {r : Reason} (i : RInv st) (h : Owes st r) : rank st = 1 := by
  unfold rank
  rcases h with ⟨rest, hq⟩ | ⟨_, hs⟩
  · have hc : resetCount st.pendingSend = 1 := by
      have := i.le; rw [hq] at this ⊢; simp [isResetFrame] at this ⊢; omega
    have he := i.err hc
    unfold isErr at he; simp only [Bool.and_eq_true, Bool.not_eq_true'] at he
    simp [he.1, he.2, hc]
  · have h1 : st.state.isScheduledReset = true := isScheduledReset_of_get hs
    have h2 : st.state.isReset = true := by
      revert hs; generalize st.state = x
      rcases x with ⟨_ | _ | _ | _ | _ | _ | ⟨_ | _ | _ | _⟩⟩ <;> simp [State.getScheduledReset, State.isReset]
    simp [h1, h2]

theorem done_rank {st : Stream} (h1 : isErr st.state = true) (h2 : resetCount st.pendingSend = 0) : rank st = 2 := by
  unfold rank
  unfold isErr at h1; simp only [Bool.and_eq_true, Bool.not_eq_true'] at h1
  simp [h1.1, h1.2, h2]

end H2V.Lemmas.ConnResetP
