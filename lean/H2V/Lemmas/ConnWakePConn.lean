import H2V.Lemmas.ConnWakePReach
/-
  ConnWakeP, part 17 — the connection object (`ConnProto.lean`): the connection future completes once the
  state machine is `Closed` (and one poll after `Closing` when the transport lets `shutdown` finish);
  dropping the connection resolves every stream (`recv_eof(true)`) and the ping handle;
  `poll_complete` answers `Ready` only after parking the connection task.
-/
namespace H2V.Lemmas.ConnWakeP
open H2V H2V.Model H2V.Model.Conn

/-- `Connection::poll` in state `Closed`: `Ready` (with the error `take_error` computes), always -/
theorem protoPoll_closed (n : Nat) (c : Conn) (r : Reason) (i : Initiator) (h : c.state = .closed r i) :
    Conn.protoPoll (n + 1) c = ((c.takeError r i).1, .ready (c.takeError r i).2) := by
  unfold Conn.protoPoll
  simp only [h]

/-- `Connection::poll` in state `Closing` when the transport lets `shutdown` finish: `Ready` -/
theorem protoPoll_closing (n : Nat) (c : Conn) (r : Reason) (i : Initiator) (h : c.state = .closing r i)
    (w : Writer) (io : Tio) (hs : shutdownW c.codec.w c.codec.io c.cx = (w, io, .ready)) :
    ∃ c', Conn.protoPoll (n + 2) c = (c', .ready (({ c with codec := { c.codec with w := w, io := io }, state := .closed r i } : Conn).takeError r i).2) := by
  unfold Conn.protoPoll
  simp only [h, hs]
  rw [protoPoll_closed n _ r i rfl]
  exact ⟨_, rfl⟩

theorem flush_pending_parks {w w' : Writer} {io io' : Tio} {tag : String} (h : flush w io tag = (w', io', .pending)) :
    io'.writeWaker = some tag := by
  unfold flush at h
  simp only at h
  repeat' split at h
  all_goals first
    | (cases h; done)
    | (cases h; rfl)
    | (simp only [Prod.mk.injEq] at h; obtain ⟨_, rfl, _⟩ := h; rfl)
    | (simp only [Prod.mk.injEq] at h; exact absurd h.2.2 (by simp))

theorem shutdownW_pending_parks {w w' : Writer} {io io' : Tio} {tag : String} (h : shutdownW w io tag = (w', io', .pending)) :
    io'.writeWaker = some tag := by
  unfold shutdownW at h
  by_cases hf : (!w.finalFlushDone) = true
  · simp only [hf, if_true] at h
    rcases hfl : flush w io tag with ⟨w1, io1, r1⟩
    rw [hfl] at h
    cases r1 with
    | ready => simp at h
    | err k => simp at h
    | pending =>
      simp only at h
      obtain ⟨_, h2⟩ := Prod.mk.inj h
      obtain ⟨rfl, _⟩ := Prod.mk.inj h2
      exact flush_pending_parks hfl
  · simp only [hf, if_false] at h
    simp at h

/-- … and when the transport does not, the connection task is parked on the transport's write waker -/
theorem protoPoll_closing_pending (n : Nat) (c c' : Conn) (r : Reason) (i : Initiator) (h : c.state = .closing r i)
    (hp : Conn.protoPoll (n + 2) c = (c', .pending)) : c'.codec.io.writeWaker = some c.cx := by
  unfold Conn.protoPoll at hp
  simp only [h] at hp
  rcases hs : shutdownW c.codec.w c.codec.io c.cx with ⟨w, io, r'⟩
  rw [hs] at hp
  cases r' with
  | ready =>
    simp only at hp
    rw [protoPoll_closed n _ r i rfl] at hp; cases hp
  | err k => cases hp
  | pending =>
    simp only at hp
    cases hp
    exact shutdownW_pending_parks hs

/-- `Drop for UserPingsRx` (the connection goes away): the pong waiter is woken, and every later
    `poll_pong` is `Ready(Err(BrokenPipe))` -/
theorem dropUserPingsRx_resolves (c : Conn) (u : UserPings) (h : c.pingPong.userPings = some u) (tag : String) :
    (∀ t, u.pongTask = some t → t ∈ newWakes c.streams c.dropUserPingsRx.streams) ∧
    (c.dropUserPingsRx.userPollPong tag).2 = some false := by
  unfold Conn.dropUserPingsRx
  simp only [h]
  refine ⟨fun t ht => ?_, ?_⟩
  · simp [newWakes, Streams.wake, ht]
  · unfold Conn.userPollPong
    simp only
    have h1 : (Generated.Consts.USER_STATE_CLOSED == Generated.Consts.USER_STATE_RECEIVED_PONG) = false := by decide
    simp [h1]

/-- `UserPings::poll_pong`: `Pending` ⇒ the caller is parked in `pong_task` and no pong has arrived -/
theorem userPollPong_pending (c c' : Conn) (tag : String) (h : c.userPollPong tag = (c', none)) :
    c.pingPong.userPings = none ∨ ∃ u, c'.pingPong.userPings = some u ∧ u.pongTask = some tag ∧
      u.state ≠ Generated.Consts.USER_STATE_RECEIVED_PONG ∧ u.state ≠ Generated.Consts.USER_STATE_CLOSED := by
  unfold Conn.userPollPong at h
  split at h
  · next hn => exact Or.inl hn
  · next u hu =>
    simp only at h
    split at h
    · cases h
    · next h1 =>
      split at h
      · cases h
      · next h2 =>
        obtain ⟨rfl, _⟩ := Prod.mk.inj h
        exact Or.inr ⟨_, rfl, rfl, by simpa using h1, by simpa using h2⟩

/-- a received PONG for the user's PING wakes the pong waiter -/
theorem recvPing_wakes_pong (p : PingPong) (u : UserPings) (hu : p.userPings = some u)
    (hs : u.state = Generated.Consts.USER_STATE_PENDING_PONG) (hp : p.pendingPing = none) :
    (p.recvPing true Generated.Consts.PING_USER_PAYLOAD).2.2.1 = u.pongTask.toList := by
  unfold PingPong.recvPing
  simp [hp, hu, hs]

/-- `UserPings::send_ping` wakes the connection task parked in `ping_task` -/
theorem userSendPing_wakes (c : Conn) (u : UserPings) (hu : c.pingPong.userPings = some u)
    (hs : u.state = Generated.Consts.USER_STATE_EMPTY) :
    (c.userSendPing).2 = none ∧ ∀ t, u.pingTask = some t → t ∈ newWakes c.streams c.userSendPing.1.streams := by
  unfold Conn.userSendPing
  simp only [hu, hs, beq_self_eq_true, if_true]
  refine ⟨trivial, fun t ht => ?_⟩
  simp [newWakes, Streams.wake, ht]

end H2V.Lemmas.ConnWakeP
