import H2V.Lemmas.ConnWakePReach
/-
  ConnWakeP, part 17 — the connection object (`ConnProto.lean`): the connection future completes once the
  state machine is `Closed` (and one poll after `Closing` when the transport lets `shutdown` finish);
  dropping the connection resolves every stream (`recv_eof(true)`) and the ping handle;
  `poll_complete` answers `Ready` only after parking the connection task.
-/
namespace H2V.Lemmas.ConnWakeP
open H2V H2V.Model H2V.Model.Conn

/-- `Connection::poll` in state `Closed`: `Ready` (with the error `take_error` computes), always -/
theorem protoPoll_closed (n : Nat) (c : Conn) (r : Reason) (i : Initiator) (h : c.state = .closed r i) :
    Conn.protoPoll (n + 1) c = ((c.takeError r i).1, .ready (c.takeError r i).2) := by
  unfold Conn.protoPoll
  simp only [h]

/-- `Connection::poll` in state `Closing` when the transport lets `shutdown` finish: `Ready` -/
theorem protoPoll_closing (n : Nat) (c : Conn) (r : Reason) (i : Initiator) (h : c.state = .closing r i)
    (w : Writer) (io : Tio) (hs : shutdownW c.codec.w c.codec.io c.cx = (w, io, .ready)) :
    ∃ c', Conn.protoPoll (n + 2) c = (c', .ready (({ c with codec := { c.codec with w := w, io := io }, state := .closed r i } : Conn).takeError r i).2) := by
  unfold Conn.protoPoll
  simp only [h, hs]
  rw [protoPoll_closed n _ r i rfl]
  exact ⟨_, rfl⟩

theorem flush_pending_parks {w w' : Writer} {io io' : Tio} {tag : String} (h : flush w io tag = (w', io', .pending)) :
    io'.writeWaker = some tag := by
  unfold flush at h
  simp only at h
  repeat' split at h
  all_goals first
    | (cases h; done)
    | (cases h; rfl)
    | (simp only [Prod.mk.injEq] at h; obtain ⟨_, rfl, _⟩ := h; rfl)
    | (simp only [Prod.mk.injEq] at h; exact absurd h.2.2 (by simp))

theorem shutdownW_pending_parks {w w' : Writer} {io io' : Tio} {tag : String} (h : shutdownW w io tag = (w', io', .pending)) :
    io'.writeWaker = some tag := by
  unfold shutdownW at h
  by_cases hf : (!w.finalFlushDone) = true
  · simp only [hf, if_true] at h
    rcases hfl : flush w io tag with ⟨w1, io1, r1⟩
    rw [hfl] at h
    cases r1 with
    | ready => simp at h
    | err k => simp at h
    | pending =>
      simp only at h
      obtain ⟨_, h2⟩ := Prod.mk.inj h
      obtain ⟨rfl, _⟩ := Prod.mk.inj h2
      exact flush_pending_parks hfl
  · simp only [hf, if_false] at h
    simp at h

/-- … and when the transport does not, the connection task is parked on the transport's write waker -/
theorem protoPoll_closing_pending (n : Nat) (c c' : Conn) (r : Reason) (i : Initiator) (h : c.state = .closing r i)
    (hp : Conn.protoPoll (n + 2) c = (c', .pending)) : c'.codec.io.writeWaker = some c.cx := by
  unfold Conn.protoPoll at hp
  simp only [h] at hp
  rcases hs : shutdownW c.codec.w c.codec.io c.cx with ⟨w, io, r'⟩
  rw [hs] at hp
  cases r' with
  | ready =>
    simp only at hp
    rw [protoPoll_closed n _ r i rfl] at hp; cases hp
  | err k => cases hp
  | pending =>
    simp only at hp
    cases hp
    exact shutdownW_pending_parks hs

/-- `Drop for UserPingsRx` (the connection goes away): the pong waiter is woken, and every later
    `poll_pong` is `Ready(Err(BrokenPipe))` -/
theorem dropUserPingsRx_resolves (c : Conn) (u : UserPings) (h : c.pingPong.userPings = some u) (tag : String) :
    (∀ t, u.pongTask = some t → t ∈ newWakes c.streams c.dropUserPingsRx.streams) ∧
    (c.dropUserPingsRx.userPollPong tag).2 = some false := by
  unfold Conn.dropUserPingsRx
  simp only [h]
  refine ⟨fun t ht => ?_, ?_⟩
  · simp [newWakes, Streams.wake, ht]
  · unfold Conn.userPollPong
    simp only
    have h1 : (Generated.Consts.USER_STATE_CLOSED == Generated.Consts.USER_STATE_RECEIVED_PONG) = false := by decide
    simp [h1]

/-- `UserPings::poll_pong`: `Pending` ⇒ the caller is parked in `pong_task` and no pong has arrived -/
theorem userPollPong_pending (c c' : Conn) (tag : String) (h : c.userPollPong tag = (c', none)) :
    c.pingPong.userPings = none ∨ ∃ u, c'.pingPong.userPings = some u ∧ u.pongTask = some tag ∧
      u.state ≠ Generated.Consts.USER_STATE_RECEIVED_PONG ∧ u.state ≠ Generated.Consts.USER_STATE_CLOSED := by
  unfold Conn.userPollPong at h
  split at h
  · next hn => exact Or.inl hn
  · next u hu =>
    simp only at h
    split at h
    · cases h
    · next h1 =>
      split at h
      · cases h
      · next h2 =>
        obtain ⟨rfl, _⟩ := Prod.mk.inj h
        exact Or.inr ⟨_, rfl, rfl, by simpa using h1, by simpa using h2⟩

/-- a received PONG for the user's PING wakes the pong waiter -/
theorem recvPing_wakes_pong (p : PingPong) (u : UserPings) (hu : p.userPings = some u)
    (hs : u.state = Generated.Consts.USER_STATE_PENDING_PONG) (hp : p.pendingPing = none) :
    (p.recvPing true Generated.Consts.PING_USER_PAYLOAD).2.2.1 = u.pongTask.toList := by
  unfold PingPong.recvPing
  simp [hp, hu, hs]

/-- `UserPings::send_ping` wakes the connection task parked in `ping_task` -/
theorem userSendPing_wakes (c : Conn) (u : UserPings) (hu : c.pingPong.userPings = some u)
    (hs : u.state = Generated.Consts.USER_STATE_EMPTY) :
    (c.userSendPing).2 = none ∧ ∀ t, u.pingTask = some t → t ∈ newWakes c.streams c.userSendPing.1.streams := by
  unfold Conn.userSendPing
  simp only [hu, hs, beq_self_eq_true, if_true]
  refine ⟨trivial, fun t ht => ?_⟩
  simp [newWakes, Streams.wake, ht]

-- ===================================================================== `poll_complete` parks the connection task

theorem panic_actions (s : Streams) (m : String) : (s.panic m).actions = s.actions := by
  unfold Streams.panic; split <;> rfl

theorem qPush_task (s : Streams) (q : QName) (k : Nat) : (s.qPush q k).1.actions.task = s.actions.task := by
  unfold Streams.qPush
  split
  · rfl
  · show (Streams.setQ _ q _).actions.task = _
    cases q <;> simp [Streams.setQ, Streams.modPrio, Streams.modRecv, modStream_actions]

theorem reclaimFrame_task (s : Streams) (w : Writer) : (s.reclaimFrame w).1.actions.task = s.actions.task := by
  unfold Streams.reclaimFrame
  split
  · next w1 frame _ =>
    show (s.reclaimFrameInner frame).1.actions.task = _
    unfold Streams.reclaimFrameInner
    simp only
    split
    · simp [panic_actions, Streams.modPrio]
    · simp [Streams.modPrio]
    · split
      · simp only
        split
        · rw [qPush_task]; simp [modStream_actions, Streams.modPrio]
        · simp [modStream_actions, Streams.modPrio]
      · simp [Streams.modPrio]
  · rfl

/-- `Streams::poll_complete` answers `Ready` only after registering the connection task (under the
    lock, after `buffer_pending` found nothing more to write) -/
theorem pollComplete_ready_parks (n : Nat) (s s' : Streams) (w w' : Writer) (io io' : Tio) (tag : String)
    (h : Streams.pollComplete n s w io tag = (s', w', io', .ready)) : s'.actions.task = some tag := by
  induction n generalizing s w io with
  | zero => unfold Streams.pollComplete at h; cases h
  | succ n ih =>
    unfold Streams.pollComplete at h
    rcases hp : pollReadyW w io tag with ⟨w1, io1, r1⟩
    rw [hp] at h
    cases r1 with
    | pending => cases h
    | err k => cases h
    | ready =>
      simp only at h
      rcases hb : Streams.bufferPending (n + 1) s w1 with ⟨s2, w2, st⟩
      rw [hb] at h
      cases st with
      | codecFull => exact ih _ _ _ h
      | complete =>
        simp only at h
        rcases hf : flush w2 io1 tag with ⟨w3, io3, r3⟩
        rw [hf] at h
        cases r3 with
        | pending => cases h
        | err k => cases h
        | ready =>
          simp only at h
          rcases hr : Streams.reclaimFrame { s2 with actions := { s2.actions with task := some tag } } w3 with ⟨s4, w4, b⟩
          rw [hr] at h
          cases b with
          | true => exact ih _ _ _ h
          | false =>
            simp only [Bool.not_false, if_true] at h
            obtain ⟨rfl, _⟩ := Prod.mk.inj h
            have := reclaimFrame_task { s2 with actions := { s2.actions with task := some tag } } w3
            rw [hr] at this
            exact this

theorem unsetFrame_fields (x : Writer) :
    x.unsetFrame.next = none ∧ x.unsetFrame.bufLen = 0 ∧ x.unsetFrame.cap = x.cap ∧
    x.unsetFrame.chainThreshold = x.chainThreshold := by
  unfold Writer.unsetFrame
  simp only
  split
  · exact ⟨rfl, rfl, rfl, rfl⟩
  · next h => exact ⟨h, rfl, rfl, rfl⟩

theorem flush_ready_capacity {w w' : Writer} {io io' : Tio} {tag : String} (h : flush w io tag = (w', io', .ready)) :
    w'.next = none ∧ w'.bufLen = 0 ∧ w'.cap = w.cap ∧ w'.chainThreshold = w.chainThreshold := by
  unfold flush at h
  simp only at h
  repeat' split at h
  all_goals first
    | (cases h; done)
    | (simp only [Prod.mk.injEq] at h; obtain ⟨rfl, _, _⟩ := h; exact unsetFrame_fields _)
    | (simp only [Prod.mk.injEq] at h; exact absurd h.2.2 (by simp))

/-- `FramedWrite::poll_ready` answers `Pending` only with the transport holding the waker — or, after a
    complete flush, when the buffer's capacity is below the minimum (never the case: the capacity only grows) -/
theorem pollReadyW_pending_parks {w w' : Writer} {io io' : Tio} {tag : String}
    (h : pollReadyW w io tag = (w', io', .pending)) (hcap : w'.cap ≥ w'.minBufferCapacity) :
    io'.writeWaker = some tag := by
  unfold pollReadyW at h
  split at h
  · rcases hf : flush w io tag with ⟨w1, io1, r1⟩
    rw [hf] at h
    cases r1 with
    | pending => simp only at h; cases h; exact flush_pending_parks hf
    | err k => cases h
    | ready =>
      simp only at h
      obtain ⟨h1, h2, h3, h4⟩ := flush_ready_capacity hf
      have hc : w1.hasCapacity = true := by
        have e : w1 = w' := by
          have := congrArg Prod.fst h; simpa using this
        subst e
        simp only [Writer.hasCapacity, h1, h2, Option.isNone_none, Bool.true_and, decide_eq_true_eq]
        exact hcap
      simp [hc] at h
  · cases h

theorem panic_panicked (s : Streams) (m : String) : (s.panic m).panicked ≠ none := by
  unfold Streams.panic
  split
  · next h => rw [h]; exact Option.some_ne_none _
  · exact Option.some_ne_none _

/-- `Streams::poll_complete` answers `Pending` only with the transport holding the connection's waker -/
theorem pollComplete_pending_parks (n : Nat) (s s' : Streams) (w w' : Writer) (io io' : Tio) (tag : String)
    (h : Streams.pollComplete n s w io tag = (s', w', io', .pending)) (hp : s'.panicked = none)
    (hcap : w'.cap ≥ w'.minBufferCapacity) : io'.writeWaker = some tag := by
  induction n generalizing s w io with
  | zero =>
    unfold Streams.pollComplete at h
    obtain ⟨rfl, _⟩ := Prod.mk.inj h
    exact absurd hp (panic_panicked _ _)
  | succ n ih =>
    unfold Streams.pollComplete at h
    rcases hpr : pollReadyW w io tag with ⟨w1, io1, r1⟩
    rw [hpr] at h
    cases r1 with
    | pending =>
      simp only at h
      obtain ⟨_, h2⟩ := Prod.mk.inj h
      obtain ⟨rfl, h3⟩ := Prod.mk.inj h2
      obtain ⟨rfl, _⟩ := Prod.mk.inj h3
      exact pollReadyW_pending_parks hpr hcap
    | err k => cases h
    | ready =>
      simp only at h
      rcases hb : Streams.bufferPending (n + 1) s w1 with ⟨s2, w2, st⟩
      rw [hb] at h
      cases st with
      | codecFull => exact ih _ _ _ h
      | complete =>
        simp only at h
        rcases hf : flush w2 io1 tag with ⟨w3, io3, r3⟩
        rw [hf] at h
        cases r3 with
        | pending =>
          simp only at h
          obtain ⟨_, h2⟩ := Prod.mk.inj h
          obtain ⟨_, h3⟩ := Prod.mk.inj h2
          obtain ⟨rfl, _⟩ := Prod.mk.inj h3
          exact flush_pending_parks hf
        | err k => cases h
        | ready =>
          simp only at h
          rcases hr : Streams.reclaimFrame { s2 with actions := { s2.actions with task := some tag } } w3 with ⟨s4, w4, b⟩
          rw [hr] at h
          cases b with
          | true => exact ih _ _ _ h
          | false => simp at h

/-- **`Connection::poll` answers `Pending` only after parking the polling task** `c'.cx`: in
    `Actions.task` (woken by every handle operation that gives the connection work — C06 (D)) or,
    when the codec cannot take more, on the transport's write waker.  (On top of that `poll2`
    parks it on the read waker when it runs out of input.)  For every state, fuel, configuration;
    `hp`: the model did not flag a panic (none is reachable) — `hcap`: the write buffer's capacity is
    at least `chain_threshold + 9`, which holds from `Conn.init` on since the capacity only grows. -/
theorem protoPoll_pending_parks (n : Nat) (c c' : Conn) (h : Conn.protoPoll n c = (c', .pending))
    (hp : c'.streams.panicked = none) (hcap : c'.codec.w.cap ≥ c'.codec.w.minBufferCapacity) :
    c'.streams.actions.task = some c'.cx ∨ c'.codec.io.writeWaker = some c'.cx := by
  induction n generalizing c with
  | zero =>
    unfold Conn.protoPoll at h
    obtain ⟨rfl, _⟩ := Prod.mk.inj h
    exact absurd hp (panic_panicked _ _)
  | succ n ih =>
    unfold Conn.protoPoll at h
    split at h
    · -- Open
      rcases hp2 : Conn.poll2 (n + 1) c with ⟨c1, r1⟩
      rw [hp2] at h
      cases r1 with
      | ready res =>
        simp only at h
        rcases hh : c1.handlePoll2Result res with ⟨c2, r2⟩
        rw [hh] at h
        cases r2 with
        | ok u => exact ih _ h
        | error e => cases h
      | pending =>
        simp only at h
        rcases hpc : Streams.pollComplete (n + 1) c1.streams c1.codec.w c1.codec.io c1.cx with ⟨s2, w2, io2, r2⟩
        rw [hpc] at h
        cases r2 with
        | pending =>
          simp only at h
          obtain ⟨rfl, _⟩ := Prod.mk.inj h
          exact Or.inr (pollComplete_pending_parks _ _ _ _ _ _ _ _ hpc hp hcap)
        | err k => cases h
        | ready =>
          simp only at h
          split at h
          · exact ih _ h
          · obtain ⟨rfl, _⟩ := Prod.mk.inj h
            exact Or.inl (pollComplete_ready_parks _ _ _ _ _ _ _ _ hpc)
    · -- Closing
      next r i hst =>
      rcases hs : shutdownW c.codec.w c.codec.io c.cx with ⟨w, io, r'⟩
      rw [hs] at h
      cases r' with
      | ready => exact ih _ h
      | err k => cases h
      | pending =>
        simp only at h
        obtain ⟨rfl, _⟩ := Prod.mk.inj h
        exact Or.inr (shutdownW_pending_parks hs)
    · -- Closed
      cases h

/-- the client's `Connection::poll` likewise (its self-wake only writes to the wake log) -/
theorem clientPoll_pending_parks (n : Nat) (c c' : Conn) (h : Conn.clientPoll n c = (c', .pending))
    (hp : c'.streams.panicked = none) (hcap : c'.codec.w.cap ≥ c'.codec.w.minBufferCapacity) :
    c'.streams.actions.task = some c'.cx ∨ c'.codec.io.writeWaker = some c'.cx := by
  unfold Conn.clientPoll at h
  simp only at h
  rcases hpp : Conn.protoPoll n (if (!c.hasStreamsOrOtherReferences) = true then c.goAwayNow NO_ERROR else c) with ⟨c1, r1⟩
  rw [hpp] at h
  simp only at h
  obtain ⟨hc, hr⟩ := Prod.mk.inj h
  subst hr
  have hcase : c' = c1 ∨ c' = { c1 with streams := c1.streams.wake [c1.cx] } := by
    rw [← hc]
    by_cases hh : ((match (PollRes.pending : PollRes) with | .pending => true | _ => false) &&
        (if (!c.hasStreamsOrOtherReferences) = true then c.goAwayNow NO_ERROR else c).hasStreamsOrOtherReferences &&
        !c1.hasStreamsOrOtherReferences) = true
    · rw [if_pos hh]; exact Or.inr rfl
    · rw [if_neg hh]; exact Or.inl rfl
  have e1 : c'.streams.actions.task = c1.streams.actions.task := by rcases hcase with e | e <;> rw [e] <;> rfl
  have e2 : c'.streams.panicked = c1.streams.panicked := by rcases hcase with e | e <;> rw [e] <;> rfl
  have e3 : c'.codec = c1.codec := by rcases hcase with e | e <;> rw [e]
  have e4 : c'.cx = c1.cx := by rcases hcase with e | e <;> rw [e]
  rw [e1, e3, e4]
  exact protoPoll_pending_parks n _ c1 hpp (e2 ▸ hp) (e3 ▸ hcap)

-- ===================================================================== `Drop for Connection`

theorem Resolved.of_sstep {w : List String} {a b : Stream} (h : Resolved a) (hs : SStep w a b) : Resolved b := by
  obtain ⟨c, h1, h2, h3, h4⟩ := h
  exact ⟨hs.closed c, (h1 ▸ hs.sendTask).none_of_none, (h2 ▸ hs.openTask).none_of_none,
    (h3 ▸ hs.recvTask).none_of_none, (h4 ▸ hs.pushTask).none_of_none⟩

theorem Done.of_step {k : Nat} {t t' : Streams} (h : Done k t) (hk : k < t.store.nextKey) (hs : Step none t t') :
    Done k t' := by
  rcases h with h | ⟨b, hb, hres⟩
  · exact Or.inl (hs.fresh k hk h)
  · rcases hs.keep k b hk hb with h' | ⟨c, hc, hbc⟩
    · exact Or.inl h'
    · exact Or.inr ⟨c, hc, hres.of_sstep hbc⟩

theorem dropSr_step (s : Streams) (sr : SendRequest) :
    Step none s (match sr.pending with | some p => s.dropHandle.dropStreamRef p | none => s.dropHandle) := by
  split
  · exact dropStreamRef_acc _ (dropHandle_acc (Step.refl _ _))
  · exact dropHandle_acc (Step.refl _ _)

theorem foldl_dropSr_step (clones : List SendRequest) (s : Streams) :
    Step none s (clones.foldl (fun s sr =>
      let s := s.dropHandle
      match sr.pending with | some p => s.dropStreamRef p | none => s) s) := by
  induction clones generalizing s with
  | nil => exact Step.refl _ _
  | cons sr l ih =>
    rw [List.foldl_cons]
    exact (dropSr_step s sr).trans (ih _)

/-- what is left of the stream layer after the harness's `ConnKind::Client(conn, sr, clones)` was dropped -/
theorem dropConnKind_streams (c : Conn) (sr : Option SendRequest) (clones : List SendRequest) :
    Step none (c.streams.recvEof true) (dropConnKind c sr clones).streams := by
  unfold dropConnKind
  simp only
  have h1 : Step none (c.streams.recvEof true) ({ c with streams := c.streams.recvEof true } : Conn).dropUserPingsRx.streams := by
    unfold Conn.dropUserPingsRx
    split
    · exact Step.refl _ _
    · exact wake_acc _ (Step.refl _ _)
  refine h1.trans ?_
  refine (dropHandle_acc (Step.refl _ _)).trans ?_
  refine Step.trans ?_ (foldl_dropSr_step clones _)
  split
  · exact dropSr_step _ _
  · exact Step.refl _ _

/-- **`Drop for Connection`** (and the drop of the `SendRequest` handles with it): every stream that was
    linked in the id map is released or `Resolved`, and every waker that was parked on it is woken —
    however the connection ended before, whatever the streams were doing. -/
theorem dropConnKind_resolves (c : Conn) (sr : Option SendRequest) (clones : List SendRequest) (hg : Good c.streams) :
    ∀ e ∈ c.streams.store.ids, ∀ a, c.streams.store.get? e.2 = some a →
      (dropConnKind c sr clones).streams.store.get? e.2 = none ∨
      ∃ a', (dropConnKind c sr clones).streams.store.get? e.2 = some a' ∧ Resolved a' ∧
        ∀ t, (a.sendTask = some t ∨ a.openTask = some t ∨ a.recvTask = some t ∨ a.pushTask = some t) →
          t ∈ newWakes c.streams (dropConnKind c sr clones).streams := by
  intro e he a ha
  have h1 := (recvEof_all c.streams hg.ids hg.bounded true).2 e he a ha
  have hs1 : Step none c.streams (c.streams.recvEof true) := recvEof_acc true (Step.refl _ _)
  have hs2 := dropConnKind_streams c sr clones
  have hk : e.2 < (c.streams.recvEof true).store.nextKey := Nat.lt_of_lt_of_le (hg.linked e he) hs1.nextKey
  have hd : Done e.2 (c.streams.recvEof true) := by
    rcases h1 with h | ⟨a', ha', hres, _⟩
    · exact Or.inl h
    · exact Or.inr ⟨a', ha', hres⟩
  rcases hd.of_step hk hs2 with h | ⟨b, hb, hres⟩
  · exact Or.inl h
  · refine Or.inr ⟨b, hb, hres, ?_⟩
    have hs := hs1.trans hs2
    rcases hs.keep e.2 a (hg.bounded.get? ha) ha with h | ⟨b', hb', hab⟩
    · rw [h] at hb; cases hb
    · rw [hb'] at hb; cases hb
      obtain ⟨_, r1, r2, r3, r4⟩ := hres
      intro t ht
      rcases ht with ht | ht | ht | ht
      · exact SlotStep.woken_of_none (r1 ▸ hab.sendTask) ht
      · exact SlotStep.woken_of_none (r2 ▸ hab.openTask) ht
      · exact SlotStep.woken_of_none (r3 ▸ hab.recvTask) ht
      · exact SlotStep.woken_of_none (r4 ▸ hab.pushTask) ht

end H2V.Lemmas.ConnWakeP
