import H2V.Lemmas.ConnCountsPReach
/-
  C05 — `transition_after` frees the slot of a closed, counted stream.
-/
namespace H2V.Lemmas.ConnCountsP
open H2V H2V.Model H2V.Model.Conn

theorem modCountsA_decReset_facts (s : Streams) :
    (s.modCountsA "self.num_local_reset_streams > 0" Counts.decNumResetStreams).store = s.store ∧
    (s.modCountsA "self.num_local_reset_streams > 0" Counts.decNumResetStreams).counts.numSendStreams = s.counts.numSendStreams ∧
    (s.modCountsA "self.num_local_reset_streams > 0" Counts.decNumResetStreams).counts.numRecvStreams = s.counts.numRecvStreams := by
  unfold Streams.modCountsA Counts.decNumResetStreams
  split
  · next c hc =>
    split at hc
    · cases hc; exact ⟨rfl, rfl, rfl⟩
    · cases hc
  · rw [panic_store, panic_counts]; exact ⟨rfl, rfl, rfl⟩

/-- **`transition_after` on a stream that is closed, flushed, counted and not waiting for its
    implicit RST_STREAM: exactly one slot is given back** (whatever else happens to the entry:
    unlinked, kept for the reset queue, released) -/
theorem transitionAfter_frees_slot (s : Streams) (k : Nat) (b : Bool) (hA : KeysOK s)
    (hp : (s.transitionAfter k b).panicked = none)
    (hcl : (s.stream k).isClosed = true) (hcn : (s.stream k).isCounted = true)
    (hns : (s.stream k).state.isScheduledReset = false) :
    (s.transitionAfter k b).counts.numSendStreams + (s.transitionAfter k b).counts.numRecvStreams + 1 =
      s.counts.numSendStreams + s.counts.numRecvStreams := by
  rw [transitionAfter_split] at hp ⊢
  generalize hs1 : (if (b && !(s.stream k).isPendingResetExpiration) = true then
      s.modCountsA "self.num_local_reset_streams > 0" Counts.decNumResetStreams else s) = s1 at hp ⊢
  have h1 : s1.store = s.store ∧ s1.counts.numSendStreams = s.counts.numSendStreams ∧ s1.counts.numRecvStreams = s.counts.numRecvStreams := by
    rw [← hs1]; split
    · exact modCountsA_decReset_facts s
    · exact ⟨rfl, rfl, rfl⟩
  have hst1 : s1.stream k = s.stream k := by unfold Streams.stream; rw [h1.1]
  have hA1 : KeysOK s1 := ⟨by rw [h1.1]; exact hA.nodup, by unfold KeysFresh; rw [h1.1]; exact hA.fresh⟩
  rw [← h1.2.1, ← h1.2.2]
  rw [← hst1] at hcl hcn hns
  clear hs1 h1 hst1 hA
  -- `transition_after(stream, false)` on `s1`
  unfold Streams.transitionAfter at hp ⊢
  simp only [Bool.false_and, Bool.false_eq_true, if_false, hcl, if_true, hns, Bool.not_false, hcn, Bool.and_self] at hp ⊢
  generalize hs2 : (if (!(s1.stream k).isPendingResetExpiration) = true then
      ({ s1 with store := s1.store.unlink (s1.stream k).id } : Streams) else s1) = s2 at hp ⊢
  have h2 : s2.store.slab = s1.store.slab ∧ s2.store.nextKey = s1.store.nextKey ∧ s2.counts = s1.counts := by
    rw [← hs2]; split <;> exact ⟨rfl, rfl, rfl⟩
  have hA2 : KeysOK s2 := ⟨by rw [h2.1]; exact hA1.nodup, by unfold KeysFresh; rw [h2.1, h2.2.1]; exact hA1.fresh⟩
  rw [← h2.2.2]
  clear hs2 h2 hA1
  -- the decrement
  have hp3 : (s2.decNumStreams k).panicked = none := by
    split at hp
    · have hp' : (if ((s2.decNumStreams k).stream k).isCounted = true then (s2.decNumStreams k).decNumStreams k
          else s2.decNumStreams k).panicked = none := hp
      split at hp'
      · exact noPanic_of_mono (Mono.decNumStreams _ _) hp'
      · exact hp'
    · exact hp
  obtain ⟨_, ⟨x, hx, _, hcase⟩, _⟩ := decNumStreams_spec hA2 hp3
  have hx3 := decNumStreams_get?_self s2 k x hx
  have hnc3 : ((s2.decNumStreams k).stream k).isCounted = false := by rw [stream_of_get? hx3]
  have hcounts : (s2.decNumStreams k).counts.numSendStreams + (s2.decNumStreams k).counts.numRecvStreams + 1 =
      s2.counts.numSendStreams + s2.counts.numRecvStreams := by
    rcases hcase with ⟨_, hpos, hc⟩ | ⟨_, hpos, hc⟩ <;> rw [hc] <;> dsimp only <;> omega
  split
  · simp only [hnc3, Bool.false_eq_true, if_false]
    exact hcounts
  · exact hcounts

-- ===================================================================== C19: what `transition_after` keeps

theorem decNumStreams_get?_any (t : Streams) (k j : Nat) (x : Stream) (hx : t.store.get? j = some x) :
    ∃ x', (t.decNumStreams k).store.get? j = some x' ∧ x'.refCount = x.refCount ∧ x'.id = x.id := by
  by_cases hj : j = k
  · subst hj
    exact ⟨_, decNumStreams_get?_self t j x hx, rfl, rfl⟩
  · refine ⟨x, ?_, rfl, rfl⟩
    -- another key: untouched
    unfold Streams.decNumStreams
    dsimp only
    have hm : ∀ (u : Streams), u.store.get? j = some x →
        (u.modStream k fun st => { st with isCounted := false }).store.get? j = some x := by
      intro u hu
      unfold Streams.modStream
      split
      · next y hy =>
        rw [setStream_get?, hu]
        have : (x.key == ({ y with isCounted := false } : Stream).key) = false := by
          show (x.key == y.key) = false
          rw [get?_key hu, get?_key hy]; simpa using hj
        simp only [Option.map_some, this, Bool.false_eq_true, if_false]
      · rw [panic_store]; exact hu
    repeat' split
    all_goals
      apply hm
      simp only [Streams.modCounts, panic_store, hx]

/-- **an entry that a handle still refers to (`ref_count > 0`), or any entry other than the one
    `transition_after` was called for, stays in the slab with its stream id and `ref_count`** -/
theorem transitionAfter_keeps (s : Streams) (k j : Nat) (b : Bool) (x : Stream) (hx : s.store.get? j = some x)
    (hkeep : j ≠ k ∨ x.refCount ≠ 0) :
    ∃ x', (s.transitionAfter k b).store.get? j = some x' ∧ x'.refCount = x.refCount ∧ x'.id = x.id := by
  rw [transitionAfter_split]
  generalize hs1 : (if (b && !(s.stream k).isPendingResetExpiration) = true then
      s.modCountsA "self.num_local_reset_streams > 0" Counts.decNumResetStreams else s) = s1
  have hx1 : s1.store.get? j = some x := by
    rw [← hs1]; split
    · rw [(modCountsA_decReset_facts s).1]; exact hx
    · exact hx
  clear hs1 hx
  unfold Streams.transitionAfter
  simp only [Bool.false_and, Bool.false_eq_true, if_false]
  generalize hs2 : (if (s1.stream k).isClosed = true then _ else s1) = s2
  have hx2 : ∃ x2, s2.store.get? j = some x2 ∧ x2.refCount = x.refCount ∧ x2.id = x.id := by
    rw [← hs2]
    split
    · generalize hs3 : (if (!(s1.stream k).isPendingResetExpiration) = true then
          ({ s1 with store := s1.store.unlink (s1.stream k).id } : Streams) else s1) = s3
      have hx3 : s3.store.get? j = some x := by rw [← hs3]; split <;> exact hx1
      split
      · exact decNumStreams_get?_any s3 k j x hx3
      · exact ⟨x, hx3, rfl, rfl⟩
    · exact ⟨x, hx1, rfl, rfl⟩
  clear hs2
  obtain ⟨x2, hx2, hr2, hi2⟩ := hx2
  split
  · next hrel =>
    -- released: then `j ≠ k`, because a released entry has `ref_count = 0`
    have hjk : j ≠ k := by
      rcases hkeep with h | h
      · exact h
      · intro he
        subst he
        rw [stream_of_get? hx2] at hrel
        unfold Stream.isReleased at hrel
        simp only [Bool.and_eq_true, beq_iff_eq] at hrel
        rw [hr2] at hrel
        exact h hrel.1.1.1.1.1.1.2
    generalize hs4 : (if (s2.stream k).isCounted = true then s2.decNumStreams k else s2) = s4
    have hx4 : ∃ x4, s4.store.get? j = some x4 ∧ x4.refCount = x2.refCount ∧ x4.id = x2.id := by
      rw [← hs4]; split
      · exact decNumStreams_get?_any s2 k j x2 hx2
      · exact ⟨x2, hx2, rfl, rfl⟩
    obtain ⟨x4, hx4, hr4, hi4⟩ := hx4
    refine ⟨x4, ?_, hr4.trans hr2, hi4.trans hi2⟩
    show (Store.remove _ k).get? j = some x4
    rw [remove_get?_ne _ _ _ hjk]; exact hx4
  · exact ⟨x2, hx2, hr2, hi2⟩

end H2V.Lemmas.ConnCountsP
