import H2V.Lemmas.ConnNoPanicPPollComplete
import H2V.Lemmas.ConnNoPanicPIdsPush
/-
  C08 (no panic) — `FI` is a reachable invariant, part 1: the frame relation `SK`.

  `FI` (ConnNoPanicPPollOpen.lean) alone is not inductive: `send_headers` puts a locally initiated stream
  into `pending_open` whenever `State::send_open` succeeds, so one has to know that such a stream is not
  counted.  The fact behind it: a locally initiated stream whose send half has NOT been opened yet
  (`suB`: `Idle`, `ReservedLocal`, `Open{local: AwaitingHeaders}`, `HalfClosedRemote(AwaitingHeaders)` — the
  states from which `send_open` succeeds) carries nothing: not counted, not in `pending_open`, nothing
  queued, nothing buffered (`Nil`).  `SK sv s s'` is the frame relation for it: no entry is created, an
  entry that is still send-unopened afterwards was so before, kept `is_pending_push` and, if locally
  initiated, stayed `Nil`.  Same peeling design as `fk_auto` (`f_sk` lemmas found by name).
-/
namespace H2V.Lemmas.ConnNoPanicP
open H2V H2V.Model H2V.Model.Conn H2V.Lemmas.ConnCountsP
attribute [local irreducible] wrapSubU32 wrapSubUsize

-- ===================================================================== per-stream part

/-- the send half has not been opened: `State::send_open` would succeed -/
def suB (st : State) : Bool :=
  match st.inner with
  | .idle | .reservedLocal | .open .awaitingHeaders _ | .halfClosedRemote .awaitingHeaders => true
  | _ => false

/-- the stream carries nothing: not counted, not waiting to be opened, nothing queued or buffered -/
structure Nil (x : Stream) : Prop where
  c : x.isCounted = false
  po : x.isPendingOpen = false
  ps : x.pendingSend = []
  bd : x.bufferedSendData = 0

/-- `b` is an update of `a`: same key and id, `is_pending_push` is not raised; if `b` is still send-unopened then
    so was `a`, `is_pending_push` was not cleared and (locally initiated) `Nil` was kept -/
structure SR (sv : Bool) (a b : Stream) : Prop where
  key : b.key = a.key
  id : b.id = a.id
  ppu : b.isPendingPush = true → a.isPendingPush = true
  su : suB b.state = true → suB a.state = true
  pp : suB b.state = true → a.isPendingPush = true → b.isPendingPush = true
  nil : suB b.state = true → locId sv a.id = true → Nil a → Nil b

variable {sv : Bool}

theorem SR.refl (a : Stream) : SR sv a a := ⟨rfl, rfl, fun h => h, fun h => h, fun _ h => h, fun _ _ h => h⟩
theorem SR.trans {a b c : Stream} (h1 : SR sv a b) (h2 : SR sv b c) : SR sv a c :=
  ⟨h2.key.trans h1.key, h2.id.trans h1.id, fun h => h1.ppu (h2.ppu h), fun h => h1.su (h2.su h),
   fun h hp => h2.pp h (h1.pp (h2.su h) hp),
   fun h hl hn => h2.nil h (by rw [h1.id]; exact hl) (h1.nil (h2.su h) hl hn)⟩

/-- an update that touches none of the fields looked at -/
theorem SR.of_fields {a b : Stream} (hk : b.key = a.key) (hi : b.id = a.id) (hs : b.state = a.state)
    (h1 : b.isCounted = a.isCounted) (h2 : b.isPendingPush = a.isPendingPush) (h3 : b.isPendingOpen = a.isPendingOpen)
    (h4 : b.pendingSend = a.pendingSend) (h5 : b.bufferedSendData = a.bufferedSendData) : SR sv a b :=
  ⟨hk, hi, fun h => h2 ▸ h, fun h => hs ▸ h, fun _ h => h2 ▸ h,
   fun _ _ hn => ⟨h1.trans hn.c, h3.trans hn.po, h4.trans hn.ps, h5.trans hn.bd⟩⟩

/-- an update after which the send half is open (or closed) -/
theorem SR.of_nsu {a b : Stream} (hk : b.key = a.key) (hi : b.id = a.id) (hp : b.isPendingPush = true → a.isPendingPush = true)
    (h : suB b.state = false) : SR sv a b :=
  ⟨hk, hi, hp, fun h' => (by rw [h] at h'; cases h'), fun h' _ => (by rw [h] at h'; cases h'),
   fun h' _ _ => (by rw [h] at h'; cases h')⟩

/-- an update of an entry that is not `Nil`, or not locally initiated -/
theorem SR.of_not_nil {a b : Stream} (hk : b.key = a.key) (hi : b.id = a.id) (hs : b.state = a.state)
    (h2 : b.isPendingPush = a.isPendingPush) (h : locId sv a.id = true → Nil a → False) : SR sv a b :=
  ⟨hk, hi, fun h => h2 ▸ h, fun h => hs ▸ h, fun _ h => h2 ▸ h, fun _ hl hn => (h hl hn).elim⟩

/-- an update that keeps state and `is_pending_push` and does not spoil `Nil` -/
theorem SR.of_nil {a b : Stream} (hk : b.key = a.key) (hi : b.id = a.id) (hs : b.state = a.state)
    (h2 : b.isPendingPush = a.isPendingPush) (h : Nil a → Nil b) : SR sv a b :=
  ⟨hk, hi, fun h => h2 ▸ h, fun h => hs ▸ h, fun _ h => h2 ▸ h, fun _ _ hn => h hn⟩

macro "sr_fields" : tactic => `(tactic| with_reducible exact SR.of_fields rfl rfl rfl rfl rfl rfl rfl rfl)

theorem notifySend_sr (x : Stream) : SR sv x x.notifySend.1 := by
  unfold Stream.notifySend
  cases h1 : x.sendTask <;> cases h2 : x.openTask <;> simp only [h1, h2] <;> sr_fields
theorem notifyRecv_sr (x : Stream) : SR sv x x.notifyRecv.1 := by
  unfold Stream.notifyRecv; split <;> sr_fields
theorem notifyPush_sr (x : Stream) : SR sv x x.notifyPush.1 := by
  unfold Stream.notifyPush; split <;> sr_fields
theorem notifyCapacity_sr (x : Stream) : SR sv x x.notifyCapacity.1 := by
  unfold Stream.notifyCapacity
  exact SR.trans (b := { x with sendCapacityInc := true }) (by sr_fields) (notifySend_sr _)
theorem assignCapacity_sr (x : Stream) (a b : Nat) : SR sv x (x.assignCapacity a b).1 := by
  unfold Stream.assignCapacity; simp only []; split
  · exact SR.trans (b := { x with sendFlow := (x.sendFlow.assignCapacity a).1 }) (by sr_fields) (notifyCapacity_sr _)
  · sr_fields
theorem waitSend_sr (x : Stream) (t : String) : SR sv x (x.waitSend t) := by unfold Stream.waitSend; sr_fields
theorem waitOpen_sr (x : Stream) (t : String) : SR sv x (x.waitOpen t) := by unfold Stream.waitOpen; sr_fields

theorem suB_closed {st : State} (h : st.isClosed = true) : suB st = false := by
  obtain ⟨inner⟩ := st
  cases inner <;> first | rfl | (simp [State.isClosed] at h)

theorem setReset_sr (x : Stream) (r : Reason) (i : Initiator) : SR sv x (x.setReset r i).1 := by
  unfold Stream.setReset
  simp only []
  refine SR.trans (b := { x with state := x.state.setReset x.id r i }) (SR.of_nsu rfl rfl (fun h => h) rfl) ?_
  exact (notifySend_sr _).trans ((notifyPush_sr _).trans (notifyRecv_sr _))

theorem setQueued_sr (x : Stream) (q : QName) (v : Bool) (h : q ≠ .pendingOpen ∨ v = false) : SR sv x (x.setQueued q v) := by
  cases q <;> first | exact SR.of_fields rfl rfl rfl rfl rfl rfl rfl rfl | skip
  rcases h with h | h
  · exact absurd rfl h
  · subst h; exact SR.of_nil rfl rfl rfl rfl (fun hn => ⟨hn.c, rfl, hn.ps, hn.bd⟩)

/-- a new state that is not send-unopened -/
theorem setState_sr (x : Stream) (st' : State) (h : suB st' = false) : SR sv x { x with state := st' } :=
  SR.of_nsu rfl rfl (fun h => h) h

/-- a new state that is send-unopened only if the old one was -/
theorem setState_sr' (x : Stream) (st' : State) (h : suB st' = true → suB x.state = true) : SR sv x { x with state := st' } :=
  ⟨rfl, rfl, fun h => h, h, fun _ hp => hp, fun _ _ hn => ⟨hn.c, hn.po, hn.ps, hn.bd⟩⟩

-- ===================================================================== `State` transitions

theorem sendOpen_nsu {st st' : State} {eos : Bool} {u : Unit} (h : st.sendOpen eos = (st', .ok u)) : suB st' = false := by
  obtain ⟨inner⟩ := st
  unfold State.sendOpen at h
  cases inner with
  | idle => cases eos <;> cases h <;> rfl
  | reservedLocal => cases eos <;> cases h <;> rfl
  | «open» l r => cases l <;> cases eos <;> cases h <;> rfl
  | halfClosedRemote p => cases p <;> cases eos <;> cases h <;> rfl
  | _ => cases h
theorem sendOpen_su {st st' : State} {eos : Bool} {u : Unit} (h : st.sendOpen eos = (st', .ok u)) : suB st = true := by
  obtain ⟨inner⟩ := st
  unfold State.sendOpen at h
  cases inner with
  | idle => rfl
  | reservedLocal => rfl
  | «open» l r => cases l <;> first | rfl | cases h
  | halfClosedRemote p => cases p <;> first | rfl | cases h
  | _ => cases h
theorem sendClose_nsu {st st' : State} (h : st.sendClose = some st') : suB st' = false := by
  unfold State.sendClose at h
  split at h <;> cases h <;> rfl
theorem recvOpen_su {st st' : State} {a b : Bool} {r : Except PErr Bool} (h : st.recvOpen a b = (st', r)) :
    suB st' = true → suB st = true := by
  have : st' = (st.recvOpen a b).1 := by rw [h]
  subst this
  obtain ⟨inner⟩ := st
  cases inner with
  | idle => intro _; rfl
  | reservedLocal => intro _; rfl
  | reservedRemote => cases a <;> cases b <;> simp [State.recvOpen, suB]
  | «open» l r => cases l <;> cases r <;> cases a <;> cases b <;> simp [State.recvOpen, suB]
  | halfClosedLocal p => cases p <;> cases a <;> cases b <;> simp [State.recvOpen, suB]
  | halfClosedRemote p => cases p <;> simp [State.recvOpen, suB]
  | closed c => simp [State.recvOpen, suB]
theorem recvClose_su {st st' : State} {r : Except PErr Unit} (h : st.recvClose = (st', r)) :
    suB st' = true → suB st = true := by
  have : st' = st.recvClose.1 := by rw [h]
  subst this
  obtain ⟨inner⟩ := st
  cases inner with
  | «open» l r => cases l <;> simp [State.recvClose, suB]
  | halfClosedLocal p => simp [State.recvClose, suB]
  | _ => simp [State.recvClose]
theorem reserveRemote_su {st st' : State} {r : Except PErr Unit} (h : st.reserveRemote = (st', r)) :
    suB st' = true → suB st = true := by
  have : st' = st.reserveRemote.1 := by rw [h]
  subst this
  obtain ⟨inner⟩ := st
  cases inner <;> simp [State.reserveRemote, suB]
theorem reserveLocal_su {st st' : State} {r : Except UserError Unit} (h : st.reserveLocal = (st', r)) :
    suB st' = true → suB st = true := by
  have : st' = st.reserveLocal.1 := by rw [h]
  subst this
  obtain ⟨inner⟩ := st
  cases inner <;> simp [State.reserveLocal, suB]
theorem recvReset_nsu (st : State) (sid : Nat) (r : Reason) (q : Bool) : suB (st.recvReset sid r q) = false :=
  suB_closed (State.recvReset_isClosed st sid r q)
theorem handleError_nsu (st : State) (e : PErr) : suB (st.handleError e) = true → suB st = true := by
  obtain ⟨inner⟩ := st
  cases inner <;> simp [State.handleError, suB]
theorem recvEof_nsu (st : State) : suB st.recvEof = true → suB st = true := by
  obtain ⟨inner⟩ := st
  cases inner <;> simp [State.recvEof, suB]

-- ===================================================================== the relation

/-- no entry is created, and every entry is updated as `SR` allows -/
structure SK (sv : Bool) (s s' : Streams) : Prop where
  live : ∀ j, Live s' j → Live s j
  st : ∀ j, Live s' j → SR sv (s.stream j) (s'.stream j)
  nx : ∀ n', s'.actions.send.nextStreamId = some n' → ∃ n, s.actions.send.nextStreamId = some n ∧ n ≤ n'

theorem SK.refl (s : Streams) : SK sv s s := ⟨fun _ h => h, fun _ _ => SR.refl _, fun n h => ⟨n, h, Nat.le_refl _⟩⟩
theorem SK.trans {a b c : Streams} (h1 : SK sv a b) (h2 : SK sv b c) : SK sv a c :=
  ⟨fun j h => h1.live j (h2.live j h), fun j h => (h1.st j (h2.live j h)).trans (h2.st j h),
   fun n'' h => by
     obtain ⟨n', hn', hle'⟩ := h2.nx n'' h
     obtain ⟨n, hn, hle⟩ := h1.nx n' hn'
     exact ⟨n, hn, Nat.le_trans hle hle'⟩⟩
theorem SK.of_fst_eq {s : Streams} {α : Type} {p : Streams × α} {a : Streams} {x : α}
    (h : p = (a, x)) (e : SK sv s p.1) : SK sv s a := by subst h; exact e
theorem SK.of_store {s s' : Streams} (h : s'.store = s.store)
    (hn : s'.actions.send.nextStreamId = s.actions.send.nextStreamId) : SK sv s s' :=
  ⟨fun j hl => by unfold Live at *; rw [← h]; exact hl, fun j _ => by rw [stream_of_store_eqP h]; exact SR.refl _,
   fun n h' => ⟨n, hn ▸ h', Nat.le_refl _⟩⟩

theorem panic_sk (s : Streams) (m : String) : SK sv s (s.panic m) := .of_store (panic_store _ _) (by rw [panic_actions])
theorem unsup_sk (s : Streams) (m : String) : SK sv s (s.unsup m) := by
  unfold Streams.unsup; split
  · exact .refl _
  · exact .of_store rfl rfl
theorem wake_sk (s : Streams) (t : List String) : SK sv s (s.wake t) := .of_store rfl rfl
theorem notifyTask_sk (s : Streams) : SK sv s s.notifyTask := by
  unfold Streams.notifyTask; split
  · exact .of_store rfl rfl
  · exact .refl _
theorem modPrio_sk (s : Streams) (f : Prioritize → Prioritize) : SK sv s (s.modPrio f) := .of_store rfl rfl
theorem modRecv_sk (s : Streams) (f : Recv → Recv) : SK sv s (s.modRecv f) := .of_store rfl rfl
theorem modSend_sk (s : Streams) (f : Send → Send) (h : ∀ p, (f p).nextStreamId = p.nextStreamId) : SK sv s (s.modSend f) :=
  .of_store rfl (h _)
theorem modCounts_sk (s : Streams) (f : Counts → Counts) : SK sv s (s.modCounts f) := .of_store rfl rfl
theorem modCountsA_sk (s : Streams) (w : String) (f : Counts → Option Counts) : SK sv s (s.modCountsA w f) := by
  unfold Streams.modCountsA; split
  · exact .of_store rfl rfl
  · exact panic_sk _ _
theorem setQ_sk (s : Streams) (q : QName) (l : List Nat) : SK sv s (s.setQ q l) :=
  .of_store (setQ_store _ _ _) (by cases q <;> rfl)
theorem setMisc_sk (s : Streams) (a : Actions) (refs leaked : Nat) (wk : List String) (un : Option String)
    (ha : a.send.nextStreamId = s.actions.send.nextStreamId) :
    SK sv s { s with actions := a, refs := refs, recvBufferLeaked := leaked, wakes := wk, unsupported := un } := .of_store rfl ha
theorem setCounts_sk (s : Streams) (c : Counts) : SK sv s { s with counts := c } := .of_store rfl rfl

theorem setStream_sk (s : Streams) (st' : Stream) (h : SR sv (s.stream st'.key) st') : SK sv s (s.setStream st') := by
  refine ⟨fun j hl => (SameKeys.setStream _ _).live.mp hl, fun j _ => ?_, fun n h' => ⟨n, h', Nat.le_refl _⟩⟩
  rcases setStream_stream s st' j with e | ⟨e, hj, _⟩
  · rw [e]; exact SR.refl _
  · rw [e, hj]; exact h

/-- the side condition on the entry itself -/
theorem modStream_sk' (s : Streams) (k : Nat) (f : Stream → Stream) (h : SR sv (s.stream k) (f (s.stream k))) :
    SK sv s (s.modStream k f) := by
  unfold Streams.modStream
  split
  · next st hst =>
    rw [stream_of_get? hst] at h
    refine setStream_sk s _ ?_
    rw [h.key, get?_key hst, stream_of_get? hst]; exact h
  · exact panic_sk _ _

theorem modStream_sk (s : Streams) (k : Nat) (f : Stream → Stream) (h : ∀ x, SR sv x (f x)) : SK sv s (s.modStream k f) :=
  modStream_sk' s k f (h _)

theorem modStreamW_sk' (s : Streams) (k : Nat) (f : Stream → Stream × List String) (h : SR sv (s.stream k) (f (s.stream k)).1) :
    SK sv s (s.modStreamW k f) := by
  unfold Streams.modStreamW
  split
  · next st hst =>
    rw [stream_of_get? hst] at h
    refine (setStream_sk s _ ?_).trans (wake_sk _ _)
    rw [h.key, get?_key hst, stream_of_get? hst]; exact h
  · exact panic_sk _ _

theorem modStreamW_sk (s : Streams) (k : Nat) (f : Stream → Stream × List String) (h : ∀ x, SR sv x (f x).1) :
    SK sv s (s.modStreamW k f) := modStreamW_sk' s k f (h _)

theorem qPush_sk (s : Streams) (q : QName) (k : Nat) (hq : q ≠ .pendingOpen) : SK sv s (s.qPush q k).1 := by
  unfold Streams.qPush; split
  · exact .refl _
  · exact (modStream_sk _ _ _ (fun x => setQueued_sr x q true (.inl hq))).trans (setQ_sk _ _ _)
theorem qPushFront_sk (s : Streams) (q : QName) (k : Nat) (hq : q ≠ .pendingOpen) : SK sv s (s.qPushFront q k).1 := by
  unfold Streams.qPushFront; split
  · exact .refl _
  · exact (modStream_sk _ _ _ (fun x => setQueued_sr x q true (.inl hq))).trans (setQ_sk _ _ _)
theorem qPop_sk (s : Streams) (q : QName) : SK sv s (s.qPop q).1 := by
  unfold Streams.qPop; split
  · exact .refl _
  · exact (setQ_sk _ _ _).trans (modStream_sk _ _ _ (fun x => setQueued_sr x q false (.inr rfl)))

theorem decNumStreams_sk (s : Streams) (k : Nat) : SK sv s (s.decNumStreams k) := by
  have hlow : ∀ x : Stream, SR sv x { x with isCounted := false } :=
    fun x => SR.of_nil rfl rfl rfl rfl (fun hn => ⟨rfl, hn.po, hn.ps, hn.bd⟩)
  unfold Streams.decNumStreams
  dsimp only
  generalize hs1 : (if (s.stream k).isCounted = true then s else s.panic _) = s1
  have h1 : SK sv s s1 := by rw [← hs1]; split; exact .refl _; exact panic_sk _ _
  split
  · generalize hs2 : (if s1.counts.numSendStreams > 0 then s1 else s1.panic _) = s2
    have h2 : SK sv s1 s2 := by rw [← hs2]; split; exact .refl _; exact panic_sk _ _
    exact (h1.trans (h2.trans (modCounts_sk _ _))).trans (modStream_sk _ _ _ hlow)
  · generalize hs2 : (if s1.counts.numRecvStreams > 0 then s1 else s1.panic _) = s2
    have h2 : SK sv s1 s2 := by rw [← hs2]; split; exact .refl _; exact panic_sk _ _
    exact (h1.trans (h2.trans (modCounts_sk _ _))).trans (modStream_sk _ _ _ hlow)

/-- forgetting a slab entry -/
theorem remove_sk (s : Streams) (k n : Nat) : SK sv s { s with store := s.store.remove k, recvBufferLeaked := n } := by
  have hne : ∀ j, Live ({ s with store := s.store.remove k, recvBufferLeaked := n } : Streams) j → j ≠ k := by
    rintro j ⟨x, hx⟩ e
    subst e
    have : (s.store.remove j).get? j = some x := hx
    rw [remove_get?_self] at this; cases this
  refine ⟨fun j hl => ?_, fun j hl => ?_, fun n h' => ⟨n, h', Nat.le_refl _⟩⟩
  · obtain ⟨x, hx⟩ := hl
    have hx' : (s.store.remove k).get? j = some x := hx
    rw [get?_remove_ne _ _ _ (hne j ⟨x, hx⟩)] at hx'
    exact ⟨x, hx'⟩
  · have : ({ s with store := s.store.remove k, recvBufferLeaked := n } : Streams).stream j = s.stream j := by
      unfold Streams.stream
      show ((s.store.remove k).get? j).getD _ = _
      rw [get?_remove_ne _ _ _ (hne j hl)]
    rw [this]; exact SR.refl _

theorem unlink_sk (s : Streams) (id : Nat) : SK sv s { s with store := s.store.unlink id } :=
  ⟨fun _ hl => hl, fun _ _ => SR.refl _, fun n h' => ⟨n, h', Nat.le_refl _⟩⟩

theorem transitionAfter_sk (s : Streams) (k : Nat) (b : Bool) : SK sv s (s.transitionAfter k b) := by
  unfold Streams.transitionAfter
  dsimp only
  generalize hs1 : (if (b && !(s.stream k).isPendingResetExpiration) = true then _ else s) = s1
  have h1 : SK sv s s1 := by rw [← hs1]; split; exact modCountsA_sk _ _ _; exact .refl _
  generalize hs2 : (if (s.stream k).isClosed = true then _ else s1) = s2
  have h2 : SK sv s s2 := by
    rw [← hs2]; split
    · generalize hs3 : (if (!(s.stream k).isPendingResetExpiration) = true then
          ({ s1 with store := s1.store.unlink (s.stream k).id } : Streams) else s1) = s3
      have h3 : SK sv s s3 := by rw [← hs3]; split; exact h1.trans (unlink_sk _ _); exact h1
      split
      · exact h3.trans (decNumStreams_sk _ _)
      · exact h3
    · exact h1
  split
  · generalize hs4 : (if (s2.stream k).isCounted = true then s2.decNumStreams k else s2) = s4
    have h4 : SK sv s s4 := by rw [← hs4]; split; exact h2.trans (decNumStreams_sk _ _); exact h2
    exact h4.trans (remove_sk _ _ _)
  · exact h2

theorem drop_nil {α : Type} {l : List α} (h : l = []) : l.drop 1 = [] := by rw [h]; rfl

-- ===================================================================== the peeling tactic

/-- proves `SR sv x (… x …)` -/
macro "sr_tac" : tactic => `(tactic| with_reducible first
  | exact SR.of_fields rfl rfl rfl rfl rfl rfl rfl rfl
  | exact notifySend_sr _ | exact notifyRecv_sr _ | exact notifyPush_sr _ | exact notifyCapacity_sr _
  | exact assignCapacity_sr _ _ _ | exact setReset_sr _ _ _ | exact waitSend_sr _ _ | exact waitOpen_sr _ _
  | exact SR.of_nsu rfl rfl (fun h => h) rfl
  | exact SR.of_nsu rfl rfl (fun h => h) (recvReset_nsu _ _ _ _)
  | exact setState_sr' _ _ (handleError_nsu _ _)
  | exact setState_sr' _ _ (recvEof_nsu _)
  | exact SR.of_nil rfl rfl rfl rfl (fun hn => ⟨hn.c, hn.po, rfl, rfl⟩)
  | exact SR.of_nil rfl rfl rfl rfl (fun hn => ⟨hn.c, hn.po, drop_nil hn.ps, hn.bd⟩)
  | exact SR.of_nil rfl rfl rfl rfl (fun hn => ⟨rfl, hn.po, hn.ps, hn.bd⟩))

syntax "sk_side" : tactic
macro_rules | `(tactic| sk_side) => `(tactic| (intro _; rfl))
macro_rules | `(tactic| sk_side) => `(tactic| (intro _; sr_tac))
macro_rules | `(tactic| sk_side) => `(tactic| decide)
macro_rules | `(tactic| sk_side) => `(tactic| assumption)

open Lean Elab Tactic Meta in
/-- `relHead` (ConnNoPanicPPollBase.lean) for a relation with leading parameters: goal `R p… s0 (f … s …)` -/
def relHeadN (rel : Name) (arity : Nat) (sfx : String) (recordCase : Syntax) : TacticM Unit := withMainContext do
  let g ← getMainGoal
  let t ← instantiateMVars (← g.getType)
  let t := t.cleanupAnnotations
  unless t.isAppOfArity rel arity do throwError "rel_head: not a goal of the relation"
  let e := t.appArg!
  let rec headOf (e : Expr) (fuel : Nat) : Option Name :=
    match fuel with
    | 0 => none
    | fuel + 1 =>
      match e with
      | .proj _ _ b => headOf b fuel
      | .mdata _ b => headOf b fuel
      | _ =>
        match e.getAppFn with
        | .const n _ =>
          if n == ``Prod.fst || n == ``Prod.snd then
            match e.getAppArgs.back? with
            | some a =>
              if a.isAppOfArity ``Prod.mk 4 then
                headOf (if n == ``Prod.fst then a.getAppArgs[2]! else a.getAppArgs[3]!) fuel
              else headOf a fuel
            | none => none
          else some n
        | _ => none
  match headOf e 8 with
  | none => throwError "rel_head: no head constant"
  | some n =>
    if n == ``Streams.mk then evalTactic recordCase else
    let last := match n with
      | .str _ s => s
      | _ => "?"
    let lemmaName := (`H2V.Lemmas.ConnNoPanicP).str (last ++ sfx)
    unless (← getEnv).contains lemmaName do throwError "rel_head: no lemma {lemmaName}"
    let gs ← g.apply (← mkConstWithFreshMVarLevels (rel ++ `trans))
    let gs ← gs.filterM fun m => do
      let ty ← instantiateMVars (← m.getType)
      pure (ty.cleanupAnnotations.isAppOfArity rel arity)
    match gs with
    | [g1, g2] =>
      let side ← withReducible (g2.apply (← mkConstWithFreshMVarLevels lemmaName))
      replaceMainGoal (g1 :: side)
    | _ => throwError "rel_head: unexpected goals after trans"

elab "sk_head" : tactic => do
  relHeadN ``SK 3 "_sk" (← `(tactic| first
    | with_reducible refine SK.trans ?_ (setMisc_sk _ _ _ _ _ _ rfl)
    | with_reducible refine SK.trans ?_ (setCounts_sk _ _)))

syntax "sk_step" : tactic
macro_rules | `(tactic| sk_step) => `(tactic| sk_head)
macro_rules | `(tactic| sk_step) => `(tactic| with_reducible refine SK.of_fst_eq (by with_reducible assumption) ?_)
macro_rules | `(tactic| sk_step) => `(tactic| with_reducible assumption)
macro_rules | `(tactic| sk_step) => `(tactic| with_reducible exact SK.refl _)

macro "sk_auto" : tactic => `(tactic| repeat (first | sk_step | sk_side | intro _ | split | dsimp only))
macro "sk_auto_ih" ih:ident : tactic =>
  `(tactic| repeat (first | sk_step | with_reducible refine SK.trans ?_ ($ih ..) | sk_side | intro _ | split | dsimp only))

-- ===================================================================== first uses

theorem scheduleSend_sk (s : Streams) (k : Nat) : SK sv s (s.scheduleSend k) := by
  unfold Streams.scheduleSend; sk_auto
theorem tryAssignCapacity_sk (s : Streams) (k : Nat) : SK sv s (s.tryAssignCapacity k) := by
  unfold Streams.tryAssignCapacity; sk_auto

-- ===================================================================== entries on which anything may be done

/-- entry `k` is dangling, or its send half is open/closed, or it is not locally initiated: `SR` allows any update
    that keeps key, id, state and `is_pending_push` -/
def Opn (sv : Bool) (s : Streams) (k : Nat) : Prop :=
  ¬ Live s k ∨ suB (s.stream k).state = false ∨ locId sv (s.stream k).id = false

theorem Opn.sk {s s' : Streams} {k : Nat} (h : Opn sv s k) (hs : SK sv s s') : Opn sv s' k := by
  by_cases hl : Live s' k
  · have r := hs.st k hl
    rcases h with h | h | h
    · exact absurd (hs.live k hl) h
    · right; left
      cases hb : suB (s'.stream k).state with
      | false => rfl
      | true => rw [r.su hb] at h; cases h
    · right; right; rw [r.id]; exact h
  · exact .inl hl

theorem SR.of_opn {a b : Stream} (hk : b.key = a.key) (hi : b.id = a.id) (hs : b.state = a.state)
    (h2 : b.isPendingPush = a.isPendingPush) (h : suB a.state = false ∨ locId sv a.id = false) : SR sv a b := by
  rcases h with h | h
  · exact SR.of_nsu hk hi (fun hp => h2 ▸ hp) (by rw [hs]; exact h)
  · exact SR.of_not_nil hk hi hs h2 (fun hl _ => by rw [h] at hl; cases hl)

theorem modStream_dangling {s : Streams} {k : Nat} (h : ¬ Live s k) (f : Stream → Stream) : (s.modStream k f).store = s.store := by
  have : s.store.get? k = none := by
    cases hx : s.store.get? k with
    | none => rfl
    | some x => exact absurd ⟨x, hx⟩ h
  unfold Streams.modStream; rw [this]; exact panic_store _ _

/-- any update of an `Opn` entry that keeps key, id, state and `is_pending_push` -/
theorem modStream_sk_opn {s : Streams} {k : Nat} (h : Opn sv s k) (f : Stream → Stream)
    (hf : ∀ x, (f x).key = x.key ∧ (f x).id = x.id ∧ (f x).state = x.state ∧ (f x).isPendingPush = x.isPendingPush) :
    SK sv s (s.modStream k f) := by
  rcases h with h | h
  · exact .of_store (modStream_dangling h f) (by unfold Streams.modStream; split; rfl; rw [panic_actions])
  · exact modStream_sk' s k f (SR.of_opn (hf _).1 (hf _).2.1 (hf _).2.2.1 (hf _).2.2.2 h)

theorem opn_of_streaming {s : Streams} {k : Nat} (h : (s.stream k).state.isSendStreaming = true) : Opn sv s k := by
  right; left
  generalize (s.stream k).state = st at h
  obtain ⟨inner⟩ := st
  cases inner with
  | «open» l r => cases l <;> first | rfl | (simp [State.isSendStreaming] at h)
  | halfClosedRemote p => cases p <;> first | rfl | (simp [State.isSendStreaming] at h)
  | _ => simp [State.isSendStreaming] at h

theorem opn_of_nsu {s : Streams} {k : Nat} (h : suB (s.stream k).state = false) : Opn sv s k := .inr (.inl h)

/-- after `modStream k (state := st')` with `st'` open/closed -/
theorem opn_setState (s : Streams) (k : Nat) (st' : State) (h : suB st' = false) :
    Opn sv (s.modStream k fun st => { st with state := st' }) k := by
  by_cases hl : Live s k
  · right; left
    rw [stream_modStream_live hl (fun st => { st with state := st' }) (fun _ => rfl)]; exact h
  · left; intro hl'; exact hl ((SameKeys.modStream _ _ _).live.mp hl')

theorem opn_setReset (s : Streams) (k : Nat) (r : Reason) (i : Initiator) :
    Opn sv (s.modStreamW k fun st => st.setReset r i) k := by
  by_cases hl : Live s k
  · right; left
    rw [stream_modStreamW_live hl (fun st => st.setReset r i) (fun x => (setReset_inert x r i).key)]
    have : ((s.stream k).setReset r i).1.state = (s.stream k).state.setReset (s.stream k).id r i := by
      unfold Stream.setReset; simp only []
      rw [notifyRecv_state, notifyPush_state, notifySend_state]
    rw [this]; rfl
  · left; intro hl'; exact hl ((modStreamW_sk (sv := sv) s k _ (fun x => setReset_sr x r i)).live k hl')

theorem queueFrame_sk (s : Streams) (k : Nat) (f : SFrame) (h : Opn sv s k) : SK sv s (s.queueFrame k f) := by
  unfold Streams.queueFrame
  exact (modStream_sk_opn h _ (fun _ => by exact ⟨rfl, rfl, rfl, rfl⟩)).trans (scheduleSend_sk _ _)

theorem queueOpen_sk (s : Streams) (k : Nat) (h : Opn sv s k) : SK sv s (s.queueOpen k) := by
  unfold Streams.queueOpen Streams.qPush
  split
  · exact .refl _
  · dsimp only
    exact (modStream_sk_opn h (fun st => st.setQueued .pendingOpen true) (fun _ => ⟨rfl, rfl, rfl, rfl⟩)).trans (setQ_sk _ _ _)

theorem incNumSendStreams_sk (s : Streams) (k : Nat) (h : Opn sv s k) : SK sv s (s.incNumSendStreams k) := by
  unfold Streams.incNumSendStreams
  dsimp only
  generalize hs1 : (if s.counts.canIncNumSendStreams = true then s else s.panic _) = s1
  have h1 : SK sv s s1 := by rw [← hs1]; split; exact .refl _; exact panic_sk _ _
  generalize hs2 : (if (s1.stream k).isCounted = true then s1.panic _ else s1) = s2
  have h2 : SK sv s1 s2 := by rw [← hs2]; split; exact panic_sk _ _; exact .refl _
  have h3 : SK sv s2 (s2.modCounts fun c => { c with numSendStreams := c.numSendStreams + 1 }) := modCounts_sk _ _
  exact ((h1.trans h2).trans h3).trans
    (modStream_sk_opn (h.sk ((h1.trans h2).trans h3)) _ (fun _ => by exact ⟨rfl, rfl, rfl, rfl⟩))

theorem incNumRecvStreams_sk (s : Streams) (k : Nat) (h : Opn sv s k) : SK sv s (s.incNumRecvStreams k) := by
  unfold Streams.incNumRecvStreams
  dsimp only
  generalize hs1 : (if s.counts.canIncNumRecvStreams = true then s else s.panic _) = s1
  have h1 : SK sv s s1 := by rw [← hs1]; split; exact .refl _; exact panic_sk _ _
  generalize hs2 : (if (s1.stream k).isCounted = true then s1.panic _ else s1) = s2
  have h2 : SK sv s1 s2 := by rw [← hs2]; split; exact panic_sk _ _; exact .refl _
  have h3 : SK sv s2 (s2.modCounts fun c => { c with numRecvStreams := c.numRecvStreams + 1 }) := modCounts_sk _ _
  exact ((h1.trans h2).trans h3).trans
    (modStream_sk_opn (h.sk ((h1.trans h2).trans h3)) _ (fun _ => by exact ⟨rfl, rfl, rfl, rfl⟩))

end H2V.Lemmas.ConnNoPanicP
