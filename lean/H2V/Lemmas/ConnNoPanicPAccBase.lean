import H2V.Lemmas.ConnNoPanicPTearEof
/-
  C08 (no panic) — the server accept path, part 1: the frame relation `AL`.

  `Streams::next_incoming` asserts `num_remote_reset_streams > 0` for a popped stream that the peer has
  reset, `Recv::take_request` is `unreachable!` unless the popped stream's `pending_recv` starts with the
  request head.  Both need invariants about the streams queued in `recv.pending_accept`
  (ConnNoPanicPAccInv).  This file: what the functions of the stream layer that do NOT belong to the
  accept path do to the data those invariants look at.

    `AR a b`  : one slab entry — key, `ref_count`, `is_pending_accept` unchanged; the state does not go back
                to a state in which the first HEADERS is still expected (`is_recv_headers`), does not become
                "reset by the peer" (`is_remote_reset`); `pending_recv` becomes non-empty only when the state
                is past `is_recv_headers`.
    `App a b` : `pending_recv` only grows at its end.
    `AL ks s s'` : same slab keys, same `pending_accept`, `AR` for every entry, `App` for every entry
                except those in `ks` (the handle calls that pop / clear `pending_recv`),
                `num_remote_reset_streams` not decremented, same role.
  The peeling tactic `al_auto` is `lt_auto` with `_al` lemmas.
-/
namespace H2V.Lemmas.ConnNoPanicP
open H2V H2V.Model H2V.Model.Conn H2V.Lemmas.ConnCountsP
attribute [local irreducible] wrapSubU32 wrapSubUsize

-- ===================================================================== one entry

structure AR (a b : Stream) : Prop where
  key : b.key = a.key
  ref : b.refCount = a.refCount
  acc : b.isPendingAccept = a.isPendingAccept
  rh : a.state.isRecvHeaders = false → b.state.isRecvHeaders = false
  rr : b.state.isRemoteReset = true → a.state.isRemoteReset = true
  pr : b.pendingRecv ≠ [] → a.pendingRecv ≠ [] ∨ b.state.isRecvHeaders = false

/-- `pending_recv` only grows at its end -/
def App (a b : Stream) : Prop := ∃ l, b.pendingRecv = a.pendingRecv ++ l

theorem AR.refl (a : Stream) : AR a a := ⟨rfl, rfl, rfl, fun h => h, fun h => h, fun h => .inl h⟩
theorem AR.trans {a b c : Stream} (h1 : AR a b) (h2 : AR b c) : AR a c :=
  ⟨h2.key.trans h1.key, h2.ref.trans h1.ref, h2.acc.trans h1.acc, fun h => h2.rh (h1.rh h), fun h => h1.rr (h2.rr h),
   fun h => by
    rcases h2.pr h with h' | h'
    · rcases h1.pr h' with h'' | h''
      · exact .inl h''
      · exact .inr (h2.rh h'')
    · exact .inr h'⟩
theorem App.refl (a : Stream) : App a a := ⟨[], (List.append_nil _).symm⟩
theorem App.trans {a b c : Stream} (h1 : App a b) (h2 : App b c) : App a c := by
  obtain ⟨l1, e1⟩ := h1
  obtain ⟨l2, e2⟩ := h2
  exact ⟨l1 ++ l2, by rw [e2, e1, List.append_assoc]⟩

/-- the strict form: what every function other than a handle call on the entry does -/
def ARs (a b : Stream) : Prop := AR a b ∧ App a b
theorem ARs.refl (a : Stream) : ARs a a := ⟨.refl _, .refl _⟩
theorem ARs.trans {a b c : Stream} (h1 : ARs a b) (h2 : ARs b c) : ARs a c := ⟨h1.1.trans h2.1, h1.2.trans h2.2⟩

/-- an update that touches none of the five projections -/
theorem ARs.of_fields {a b : Stream} (h1 : b.key = a.key) (h2 : b.refCount = a.refCount)
    (h3 : b.isPendingAccept = a.isPendingAccept) (h4 : b.state = a.state) (h5 : b.pendingRecv = a.pendingRecv) : ARs a b :=
  ⟨⟨h1, h2, h3, fun h => by rw [h4]; exact h, fun h => by rw [← h4]; exact h, fun h => .inl (by rw [← h5]; exact h)⟩,
   ⟨[], by rw [h5, List.append_nil]⟩⟩

/-- a new state that is past `is_recv_headers` whenever the old one was, and not "reset by the peer" -/
theorem ARs.of_state (a : Stream) (st' : State) (h1 : a.state.isRecvHeaders = false → st'.isRecvHeaders = false)
    (h2 : st'.isRemoteReset = true → a.state.isRemoteReset = true) : ARs a { a with state := st' } :=
  ⟨⟨rfl, rfl, rfl, h1, h2, fun h => .inl h⟩, .refl _⟩

/-- an event is appended once the state is past `is_recv_headers` -/
theorem ARs.push (a : Stream) (e : REvent) (h : a.state.isRecvHeaders = false) :
    ARs a { a with pendingRecv := a.pendingRecv ++ [e] } :=
  ⟨⟨rfl, rfl, rfl, fun h => h, fun h => h, fun _ => .inr h⟩, ⟨[e], rfl⟩⟩

/-- `pending_recv` loses entries (a handle call) -/
theorem AR.shrink (a : Stream) (l : List REvent) (h : l ≠ [] → a.pendingRecv ≠ []) : AR a { a with pendingRecv := l } :=
  ⟨rfl, rfl, rfl, fun h => h, fun h => h, fun hl => .inl (h hl)⟩

-- ------------------------------------------------------------------ the state transitions

theorem sendOpen_acc {x y : State} {eos : Bool} {u : Unit} (h : x.sendOpen eos = (y, .ok u)) :
    (x.isRecvHeaders = false → y.isRecvHeaders = false) ∧ y.isRemoteReset = false := by
  rcases x with ⟨_ | _ | _ | ⟨_ | _, _ | _⟩ | ⟨_ | _⟩ | ⟨_ | _⟩ | _⟩ <;> cases eos <;> simp [State.sendOpen] at h <;>
    subst h <;> simp [State.isRecvHeaders, State.isRemoteReset]

theorem sendClose_acc {x y : State} (h : x.sendClose = some y) :
    (x.isRecvHeaders = false → y.isRecvHeaders = false) ∧ y.isRemoteReset = false := by
  rcases x with ⟨_ | _ | _ | ⟨_ | _, _ | _⟩ | ⟨_ | _⟩ | ⟨_ | _⟩ | _⟩ <;> simp [State.sendClose] at h <;>
    subst h <;> simp [State.isRecvHeaders, State.isRemoteReset]

theorem recvClose_acc {x y : State} {u : Unit} (h : x.recvClose = (y, .ok u)) :
    y.isRecvHeaders = false ∧ y.isRemoteReset = false := by
  rcases x with ⟨_ | _ | _ | ⟨_ | _, _ | _⟩ | ⟨_ | _⟩ | ⟨_ | _⟩ | _⟩ <;> simp [State.recvClose] at h <;>
    subst h <;> simp [State.isRecvHeaders, State.isRemoteReset]

/-- not `Reset(_, _, Initiator::Remote)` -/
def NotRR (e : PErr) : Prop := ∀ id r, e ≠ .reset id r .remote

theorem notRR_goAway (d : Bytes) (r : Reason) (i : Initiator) : NotRR (.goAway d r i) := fun _ _ h => by cases h
theorem notRR_io (k : String) (m : Option String) : NotRR (.io k m) := fun _ _ h => by cases h
theorem notRR_reset (id : Nat) (r : Reason) {i : Initiator} (h : i ≠ .remote) : NotRR (.reset id r i) :=
  fun _ _ e => by cases e; exact h rfl

theorem isRemoteReset_error {e : PErr} (h : NotRR e) : State.isRemoteReset { inner := .closed (.error e) } = false := by
  cases e with
  | reset id r i => cases i <;> first | rfl | exact absurd rfl (h id r)
  | goAway d r i => rfl
  | io k m => rfl
theorem isRemoteReset_errorAfter {e : PErr} (h : NotRR e) :
    State.isRemoteReset { inner := .closed (.errorAfterEndStream e) } = false := by
  cases e with
  | reset id r i => cases i <;> first | rfl | exact absurd rfl (h id r)
  | goAway d r i => rfl
  | io k m => rfl

theorem handleError_acc (x : State) {e : PErr} (h : NotRR e) :
    (x.isRecvHeaders = false → (x.handleError e).isRecvHeaders = false) ∧
    ((x.handleError e).isRemoteReset = true → x.isRemoteReset = true) := by
  unfold State.handleError
  dsimp only
  split
  · exact ⟨fun h => h, fun h => h⟩
  · refine ⟨fun _ => rfl, fun h' => ?_⟩
    split at h'
    · rw [isRemoteReset_errorAfter h] at h'; cases h'
    · rw [isRemoteReset_error h] at h'; cases h'

theorem recvEof_acc (x : State) :
    (x.isRecvHeaders = false → x.recvEof.isRecvHeaders = false) ∧ (x.recvEof.isRemoteReset = true → x.isRemoteReset = true) :=
  handleError_acc x (notRR_io _ _)

theorem handleError_ars (x : Stream) {e : PErr} (h : NotRR e) : ARs x { x with state := x.state.handleError e } :=
  .of_state _ _ (handleError_acc _ h).1 (handleError_acc _ h).2
theorem recvEof_ars (x : Stream) : ARs x { x with state := x.state.recvEof } :=
  .of_state _ _ (recvEof_acc _).1 (recvEof_acc _).2
theorem setScheduledReset_ars (x : Stream) (r : Reason) : ARs x { x with state := x.state.setScheduledReset r } :=
  .of_state _ _ (fun _ => rfl) (fun h => by cases h)

theorem ars_sendOpen {a : Stream} {st' : State} {eos : Bool} {u : Unit} (h : a.state.sendOpen eos = (st', .ok u)) :
    ARs a { a with state := st' } :=
  .of_state _ _ (sendOpen_acc h).1 (fun h' => by rw [(sendOpen_acc h).2] at h'; cases h')
theorem ars_sendClose {a : Stream} {st' : State} (h : a.state.sendClose = some st') : ARs a { a with state := st' } :=
  .of_state _ _ (sendClose_acc h).1 (fun h' => by rw [(sendClose_acc h).2] at h'; cases h')
theorem ars_recvClose {a : Stream} {st' : State} {u : Unit} (h : a.state.recvClose = (st', .ok u)) : ARs a { a with state := st' } :=
  .of_state _ _ (fun _ => (recvClose_acc h).1) (fun h' => by rw [(recvClose_acc h).2] at h'; cases h')

theorem ars_decContentLength {x y : Stream} {n : Nat} (h : x.decContentLength n = some y) : ARs x y := by
  unfold Stream.decContentLength at h
  split at h
  · split at h
    · cases h; exact .of_fields rfl rfl rfl rfl rfl
    · cases h
  · split at h
    · cases h
    · cases h; exact .refl _
  · cases h; exact .refl _

theorem not_recvHeaders_of_streaming {x : State} (h : x.isRecvStreaming = true) : x.isRecvHeaders = false := by
  rcases x with ⟨_ | _ | _ | ⟨_ | _, _ | _⟩ | ⟨_ | _⟩ | ⟨_ | _⟩ | _⟩ <;> simp [State.isRecvStreaming] at h <;> rfl

-- ------------------------------------------------------------------ the stream methods

theorem notifySend_ars (x : Stream) : ARs x x.notifySend.1 := by
  unfold Stream.notifySend
  cases h1 : x.sendTask <;> cases h2 : x.openTask <;> simp only [h1, h2] <;> exact .of_fields rfl rfl rfl rfl rfl
theorem notifyRecv_ars (x : Stream) : ARs x x.notifyRecv.1 := by
  unfold Stream.notifyRecv; split <;> exact .of_fields rfl rfl rfl rfl rfl
theorem notifyPush_ars (x : Stream) : ARs x x.notifyPush.1 := by
  unfold Stream.notifyPush; split <;> exact .of_fields rfl rfl rfl rfl rfl
theorem notifyCapacity_ars (x : Stream) : ARs x x.notifyCapacity.1 := by
  unfold Stream.notifyCapacity
  exact ARs.trans (b := { x with sendCapacityInc := true }) (.of_fields rfl rfl rfl rfl rfl) (notifySend_ars _)
theorem waitSend_ars (x : Stream) (t : String) : ARs x (x.waitSend t) := .of_fields rfl rfl rfl rfl rfl
theorem waitOpen_ars (x : Stream) (t : String) : ARs x (x.waitOpen t) := .of_fields rfl rfl rfl rfl rfl
theorem assignCapacity_ars (x : Stream) (a b : Nat) : ARs x (x.assignCapacity a b).1 := by
  unfold Stream.assignCapacity; simp only []; split
  · exact ARs.trans (b := { x with sendFlow := (x.sendFlow.assignCapacity a).1 }) (.of_fields rfl rfl rfl rfl rfl)
      (notifyCapacity_ars _)
  · exact .of_fields rfl rfl rfl rfl rfl
theorem sendDataG_ars (inst : ∀ p q : Nat, Decidable (p < q)) (x : Stream) (a b : Nat) : ARs x (sendDataG inst x a b).1 := by
  unfold sendDataG
  generalize x.sendFlow.sendData a = p
  obtain ⟨fl, r⟩ := p
  dsimp only
  generalize inst _ _ = d
  cases d with
  | isTrue h =>
    simp only [if_pos h]
    refine ARs.trans ?_ (notifyCapacity_ars _)
    exact .of_fields rfl rfl rfl rfl rfl
  | isFalse h =>
    simp only [if_neg h]
    exact .of_fields rfl rfl rfl rfl rfl
theorem sendData_ars (x : Stream) (a b : Nat) : ARs x (x.sendData a b).1 := by
  rw [sendData_eq_G]; exact sendDataG_ars _ x a b
theorem setReset_ars (x : Stream) (r : Reason) {i : Initiator} (hi : i ≠ .remote) : ARs x (x.setReset r i).1 := by
  unfold Stream.setReset
  simp only []
  refine ARs.trans (b := { x with state := x.state.setReset x.id r i }) (.of_state _ _ (fun _ => rfl) ?_) ?_
  · intro h
    have : State.isRemoteReset { inner := .closed (.error (.reset x.id r i)) } = false := isRemoteReset_error (notRR_reset _ _ hi)
    unfold State.setReset at h; rw [this] at h; cases h
  · exact (notifySend_ars _).trans ((notifyPush_ars _).trans (notifyRecv_ars _))
theorem setQueued_ars (x : Stream) (q : QName) (v : Bool) (h : q ≠ .pendingAccept) : ARs x (x.setQueued q v) := by
  cases q <;> first | exact .of_fields rfl rfl rfl rfl rfl | exact absurd rfl h

/-- proves `ARs x (… x …)` -/
macro "ars_tac" : tactic => `(tactic| with_reducible first
  | exact ARs.of_fields rfl rfl rfl rfl rfl
  | exact notifySend_ars _ | exact notifyRecv_ars _ | exact notifyPush_ars _ | exact notifyCapacity_ars _
  | exact assignCapacity_ars _ _ _ | exact sendData_ars _ _ _ | exact waitSend_ars _ _ | exact waitOpen_ars _ _
  | exact setReset_ars _ _ (by first | assumption | decide)
  | exact handleError_ars _ (by assumption) | exact recvEof_ars _ | exact setScheduledReset_ars _ _
  | exact ars_sendOpen (by assumption) | exact ars_sendClose (by assumption) | exact ars_recvClose (by assumption)
  | exact ars_decContentLength (by assumption) | exact ARs.push _ _ (by assumption))

-- ===================================================================== the relation on `Streams`

/-- `R` relates every entry before and after (a dangling key reads a blank stream on both sides) -/
def SRel (R : Stream → Stream → Prop) (s s' : Streams) : Prop := ∀ j, R (s.stream j) (s'.stream j)

theorem SRel.of_store {R : Stream → Stream → Prop} (hr : ∀ a, R a a) {s s' : Streams} (h : s'.store = s.store) : SRel R s s' :=
  fun j => by unfold Streams.stream; rw [h]; exact hr _
theorem SRel.setStream {R : Stream → Stream → Prop} (hr : ∀ a, R a a) (s : Streams) (st' : Stream)
    (h : R (s.stream st'.key) st') : SRel R s (s.setStream st') := by
  intro j
  rcases setStream_stream s st' j with e | ⟨e, hj, _⟩
  · rw [e]; exact hr _
  · rw [e, hj]; exact h
theorem SRel.modStream {R : Stream → Stream → Prop} (hr : ∀ a, R a a) (s : Streams) (k : Nat) (f : Stream → Stream)
    (hk : (f (s.stream k)).key = k) (h : R (s.stream k) (f (s.stream k))) : SRel R s (s.modStream k f) := by
  unfold Streams.modStream
  split
  · next st hst =>
    rw [stream_of_get? hst] at hk h
    exact SRel.setStream hr s _ (by rw [hk]; rw [stream_of_get? hst]; exact h)
  · exact .of_store hr (panic_store _ _)

structure AL (ks : List Nat) (s s' : Streams) : Prop where
  keys : SameKeys s s'
  queue : s'.recv.pendingAccept = s.recv.pendingAccept
  str : SRel AR s s'
  app : ∀ j, j ∉ ks → App (s.stream j) (s'.stream j)
  cnt : s.counts.numRemoteResetStreams ≤ s'.counts.numRemoteResetStreams
  srv : s'.counts.isServer = s.counts.isServer

theorem AL.refl (ks : List Nat) (s : Streams) : AL ks s s :=
  ⟨.refl _, rfl, fun _ => .refl _, fun _ _ => .refl _, Nat.le_refl _, rfl⟩
theorem AL.trans {ks ks' : List Nat} {a b c : Streams} (h1 : AL ks a b) (h2 : AL ks' b c) (hs : ∀ k ∈ ks', k ∈ ks) : AL ks a c :=
  ⟨h1.keys.trans h2.keys, h2.queue.trans h1.queue, fun j => (h1.str j).trans (h2.str j),
   fun j hj => (h1.app j hj).trans (h2.app j (fun h => hj (hs j h))), Nat.le_trans h1.cnt h2.cnt, h2.srv.trans h1.srv⟩
theorem AL.mono {ks ks' : List Nat} {s s' : Streams} (h : AL ks s s') (hs : ∀ k ∈ ks, k ∈ ks') : AL ks' s s' :=
  ⟨h.keys, h.queue, h.str, fun j hj => h.app j (fun hk => hj (hs j hk)), h.cnt, h.srv⟩
theorem AL.of_fst_eq {ks : List Nat} {s : Streams} {α : Type} {p : Streams × α} {a : Streams} {x : α}
    (h : p = (a, x)) (e : AL ks s p.1) : AL ks s a := by subst h; exact e

/-- nothing the relation looks at is touched -/
theorem AL.of_eqs {ks : List Nat} {s s' : Streams} (h1 : s'.store = s.store)
    (h2 : s'.recv.pendingAccept = s.recv.pendingAccept) (h3 : s.counts.numRemoteResetStreams ≤ s'.counts.numRemoteResetStreams)
    (h4 : s'.counts.isServer = s.counts.isServer) : AL ks s s' :=
  ⟨.of_store_eq h1, h2, .of_store AR.refl h1, fun j _ => by unfold Streams.stream; rw [h1]; exact .refl _, h3, h4⟩

theorem AL.live {ks : List Nat} {s s' : Streams} (h : AL ks s s') {k : Nat} : Live s' k ↔ Live s k := h.keys.live

-- ------------------------------------------------------------------ primitives

theorem wake_al (s : Streams) (t : List String) : AL ks s (s.wake t) := .of_eqs rfl rfl (Nat.le_refl _) rfl
theorem notifyTask_al (s : Streams) : AL ks s s.notifyTask := by
  unfold Streams.notifyTask; split
  · exact .of_eqs rfl rfl (Nat.le_refl _) rfl
  · exact .refl _ _
theorem unsup_al (s : Streams) (m : String) : AL ks s (s.unsup m) := by
  unfold Streams.unsup; split
  · exact .refl _ _
  · exact .of_eqs rfl rfl (Nat.le_refl _) rfl
theorem panic_al (s : Streams) (m : String) : AL ks s (s.panic m) := by
  unfold Streams.panic; split
  · exact .refl _ _
  · exact .of_eqs rfl rfl (Nat.le_refl _) rfl
theorem modPrio_al (s : Streams) (f : Prioritize → Prioritize) : AL ks s (s.modPrio f) := .of_eqs rfl rfl (Nat.le_refl _) rfl
theorem modSend_al (s : Streams) (f : Send → Send) : AL ks s (s.modSend f) := .of_eqs rfl rfl (Nat.le_refl _) rfl
theorem modRecv_al (s : Streams) (f : Recv → Recv) (h : ∀ r, (f r).pendingAccept = r.pendingAccept) : AL ks s (s.modRecv f) :=
  .of_eqs rfl (h _) (Nat.le_refl _) rfl
theorem setMisc_al (s : Streams) (a : Actions) (refs leaked : Nat) (wk : List String) (un : Option String)
    (ha : a.recv.pendingAccept = s.actions.recv.pendingAccept) :
    AL ks s { s with actions := a, refs := refs, recvBufferLeaked := leaked, wakes := wk, unsupported := un } :=
  .of_eqs rfl ha (Nat.le_refl _) rfl

/-- a `Counts` value that may replace `c` -/
structure COK (c c' : Counts) : Prop where
  cnt : c.numRemoteResetStreams ≤ c'.numRemoteResetStreams
  srv : c'.isServer = c.isServer

theorem setCounts_al (s : Streams) (c : Counts) (h : COK s.counts c) : AL ks s { s with counts := c } := .of_eqs rfl rfl h.1 h.2
theorem modCounts_al (s : Streams) (f : Counts → Counts) (h : COK s.counts (f s.counts)) : AL ks s (s.modCounts f) :=
  setCounts_al s _ h
theorem modCountsA_al (s : Streams) (w : String) (f : Counts → Option Counts) (h : ∀ c c', f c = some c' → COK c c') :
    AL ks s (s.modCountsA w f) := by
  unfold Streams.modCountsA; split
  · next c hc => exact setCounts_al s c (h _ _ hc)
  · exact panic_al _ _

theorem cok_incReset : ∀ c c', Counts.incNumResetStreams c = some c' → COK c c' := by
  intro c c' h; unfold Counts.incNumResetStreams at h; split at h
  · cases h; exact ⟨Nat.le_refl _, rfl⟩
  · cases h
theorem cok_decReset : ∀ c c', Counts.decNumResetStreams c = some c' → COK c c' := by
  intro c c' h; unfold Counts.decNumResetStreams at h; split at h
  · cases h; exact ⟨Nat.le_refl _, rfl⟩
  · cases h
theorem cok_incErr : ∀ c c', Counts.incNumLocalErrorResets c = some c' → COK c c' := by
  intro c c' h; unfold Counts.incNumLocalErrorResets at h; split at h
  · cases h; exact ⟨Nat.le_refl _, rfl⟩
  · cases h
theorem cok_incRemote : ∀ c c', Counts.incNumRemoteResetStreams c = some c' → COK c c' := by
  intro c c' h; unfold Counts.incNumRemoteResetStreams at h; split at h
  · cases h; exact ⟨Nat.le_succ _, rfl⟩
  · cases h
theorem cok_releaseDataFrame (c : Counts) (n : Nat) : COK c (c.releaseDataFrame n) := by
  unfold Counts.releaseDataFrame; dsimp only; split <;> exact ⟨Nat.le_refl _, rfl⟩
theorem cok_recordDataFrame (c : Counts) (n : Nat) : COK c (c.recordDataFrame n).1 := by
  unfold Counts.recordDataFrame
  dsimp only
  split
  · split <;> exact ⟨Nat.le_refl _, rfl⟩
  · split
    · split <;> exact ⟨Nat.le_refl _, rfl⟩
    · exact ⟨Nat.le_refl _, rfl⟩
theorem COK.trans {a b c : Counts} (h1 : COK a b) (h2 : COK b c) : COK a c := ⟨Nat.le_trans h1.1 h2.1, h2.2.trans h1.2⟩

theorem setStream_al (s : Streams) {k : Nat} (st' : Stream) (h : ARs (s.stream k) st') : AL ks s (s.setStream st') := by
  have hk : st'.key = k := h.1.key.trans (stream_key s k)
  subst hk
  exact ⟨SameKeys.setStream _ _, rfl, SRel.setStream AR.refl s st' h.1, fun j _ => SRel.setStream App.refl s st' h.2 j, Nat.le_refl _, rfl⟩

/-- a stream update, judged on the entry it is applied to -/
theorem modStream_al' (s : Streams) (k : Nat) (f : Stream → Stream) (h : ARs (s.stream k) (f (s.stream k))) :
    AL ks s (s.modStream k f) := by
  have hk : (f (s.stream k)).key = k := h.1.key.trans (stream_key s k)
  refine ⟨SameKeys.modStream _ _ _, ?_, SRel.modStream AR.refl s k f hk h.1, fun j _ => SRel.modStream App.refl s k f hk h.2 j, ?_, ?_⟩
  · show Streams.getQ _ .pendingAccept = Streams.getQ _ .pendingAccept
    rw [getQ_modStream]
  · rw [modStream_counts]; exact Nat.le_refl _
  · rw [modStream_counts]

theorem modStream_al (s : Streams) (k : Nat) (f : Stream → Stream) (h : ARs (s.stream k) (f (s.stream k))) :
    AL ks s (s.modStream k f) := modStream_al' s k f h

/-- a handle call on entry `k` that pops / clears its `pending_recv` -/
theorem modStream_alp (s : Streams) (k : Nat) (f : Stream → Stream) (h : AR (s.stream k) (f (s.stream k))) :
    AL [k] s (s.modStream k f) := by
  have hk : (f (s.stream k)).key = k := h.key.trans (stream_key s k)
  refine ⟨SameKeys.modStream _ _ _, ?_, SRel.modStream AR.refl s k f hk h, ?_, ?_, ?_⟩
  · show Streams.getQ _ .pendingAccept = Streams.getQ _ .pendingAccept
    rw [getQ_modStream]
  · intro j hj
    have hjk : j ≠ k := fun e => hj (by rw [e]; exact List.mem_cons_self ..)
    unfold Streams.modStream
    split
    · next st hst =>
      rcases setStream_stream s (f st) j with e | ⟨_, hj', _⟩
      · rw [e]; exact .refl _
      · rw [stream_of_get? hst] at hk; rw [hk] at hj'; exact absurd hj' hjk
    · unfold Streams.stream; rw [panic_store]; exact .refl _
  · rw [modStream_counts]; exact Nat.le_refl _
  · rw [modStream_counts]

theorem wake_store' (s : Streams) (t : List String) : (s.wake t).store = s.store := rfl

theorem modStreamW_al' (s : Streams) (k : Nat) (f : Stream → Stream × List String) (h : ARs (s.stream k) (f (s.stream k)).1) :
    AL ks s (s.modStreamW k f) := by
  have h1 := modStream_al' (ks := ks) s k (fun x => (f x).1) h
  unfold Streams.modStream at h1
  unfold Streams.modStreamW
  split
  · next st hst => rw [hst] at h1; exact h1.trans (wake_al (ks := ks) _ _) (fun _ h => h)
  · exact panic_al _ _

theorem modStreamW_al (s : Streams) (k : Nat) (f : Stream → Stream × List String) (h : ARs (s.stream k) (f (s.stream k)).1) :
    AL ks s (s.modStreamW k f) := modStreamW_al' s k f h

theorem setQ_al (s : Streams) (q : QName) (l : List Nat) (h : q ≠ .pendingAccept) : AL ks s (s.setQ q l) :=
  .of_eqs (setQ_store _ _ _) (getQ_setQ_ne s q .pendingAccept l (fun e => h e.symm)) (by rw [setQ_counts]; exact Nat.le_refl _)
    (by rw [setQ_counts])

theorem qPush_al (s : Streams) (q : QName) (k : Nat) (h : q ≠ .pendingAccept) : AL ks s (s.qPush q k).1 := by
  unfold Streams.qPush; split
  · exact .refl _ _
  · exact (modStream_al (ks := ks) s k _ (setQueued_ars _ q true h)).trans (setQ_al (ks := ks) _ _ _ h) (fun _ h => h)
theorem qPushFront_al (s : Streams) (q : QName) (k : Nat) (h : q ≠ .pendingAccept) : AL ks s (s.qPushFront q k).1 := by
  unfold Streams.qPushFront; split
  · exact .refl _ _
  · exact (modStream_al (ks := ks) s k _ (setQueued_ars _ q true h)).trans (setQ_al (ks := ks) _ _ _ h) (fun _ h => h)
theorem qPop_al (s : Streams) (q : QName) (h : q ≠ .pendingAccept) : AL ks s (s.qPop q).1 := by
  unfold Streams.qPop; split
  · exact .refl _ _
  · exact (setQ_al (ks := ks) s q _ h).trans (modStream_al (ks := ks) _ _ _ (setQueued_ars _ q false h)) (fun _ h => h)

-- ===================================================================== the peeling tactic

/-- side conditions of the building-block lemmas -/
syntax "al_side" : tactic
macro_rules | `(tactic| al_side) => `(tactic| (intro _; rfl))
macro_rules | `(tactic| al_side) => `(tactic| (intro _; ars_tac))
macro_rules | `(tactic| al_side) => `(tactic| ars_tac)
macro_rules | `(tactic| al_side) => `(tactic| exact COK.mk (Nat.le_refl _) rfl)
macro_rules | `(tactic| al_side) => `(tactic| (first | exact cok_incReset | exact cok_decReset | exact cok_incErr | exact cok_incRemote | exact cok_releaseDataFrame _ _ | exact cok_recordDataFrame _ _))
macro_rules | `(tactic| al_side) => `(tactic| decide)
macro_rules | `(tactic| al_side) => `(tactic| assumption)
macro_rules | `(tactic| al_side) => `(tactic| lt_sub)

open Lean Elab Tactic Meta in
/-- goal `AL ks s0 (f … s …)` (possibly under `.1`): peel `f` with the lemma `f_al` found by name -/
elab "al_head" : tactic => withMainContext do
  let g ← getMainGoal
  let t ← instantiateMVars (← g.getType)
  let t := t.cleanupAnnotations
  unless t.isAppOfArity ``AL 3 do throwError "al_head: not an AL goal"
  let e := t.appArg!
  let rec headOf (e : Expr) (fuel : Nat) : Option Name :=
    match fuel with
    | 0 => none
    | fuel + 1 =>
      match e with
      | .proj _ _ b => headOf b fuel
      | .mdata _ b => headOf b fuel
      | _ =>
        match e.getAppFn with
        | .const n _ =>
          if n == ``Prod.fst || n == ``Prod.snd then
            match e.getAppArgs.back? with
            | some a =>
              if a.isAppOfArity ``Prod.mk 4 then
                headOf (if n == ``Prod.fst then a.getAppArgs[2]! else a.getAppArgs[3]!) fuel
              else headOf a fuel
            | none => none
          else some n
        | _ => none
  match headOf e 8 with
  | none => throwError "al_head: no head constant"
  | some n =>
    if n == ``Streams.mk then
      evalTactic (← `(tactic| first
        | with_reducible refine AL.trans (ks' := []) ?_ (setMisc_al _ _ _ _ _ _ rfl) (fun _ h => absurd h List.not_mem_nil)
        | with_reducible refine AL.trans (ks' := []) ?_ (setCounts_al _ _ ?_) (fun _ h => absurd h List.not_mem_nil)))
    else
    let last := match n with
      | .str _ s => s
      | _ => "?"
    let lemmaName := (`H2V.Lemmas.ConnNoPanicP).str (last ++ "_al")
    unless (← getEnv).contains lemmaName do throwError "al_head: no lemma {lemmaName}"
    let gs ← g.apply (← mkConstWithFreshMVarLevels ``AL.trans)
    let mut alGoals : List MVarId := []
    let mut others : List MVarId := []
    for m in gs do
      let ty ← instantiateMVars (← m.getType)
      if ty.cleanupAnnotations.isAppOfArity ``AL 3 then alGoals := alGoals ++ [m]
      else
        if (← isProp ty) then others := others ++ [m]
    match alGoals with
    | [g1, g2] =>
      let side ← withReducible (g2.apply (← mkConstWithFreshMVarLevels lemmaName))
      replaceMainGoal (g1 :: side ++ others)
    | _ => throwError "al_head: unexpected goals after AL.trans"

syntax "al_step" : tactic
macro_rules | `(tactic| al_step) => `(tactic| al_head)
macro_rules | `(tactic| al_step) => `(tactic| with_reducible refine AL.of_fst_eq (by with_reducible assumption) ?_)
macro_rules | `(tactic| al_step) => `(tactic| with_reducible assumption)
macro_rules | `(tactic| al_step) => `(tactic| with_reducible exact AL.refl _ _)

macro "al_auto" : tactic => `(tactic| repeat (first | al_step | al_side | intro _ | split | dsimp only))
macro "al_auto_ih" ih:ident : tactic =>
  `(tactic| repeat (first | al_step | with_reducible refine AL.trans ?_ ($ih ..) ?_ | al_side | intro _ | split | dsimp only))

theorem incNumRecvStreams_al (s : Streams) (k : Nat) : AL ks s (s.incNumRecvStreams k) := by
  unfold Streams.incNumRecvStreams; al_auto
theorem incNumSendStreams_al (s : Streams) (k : Nat) : AL ks s (s.incNumSendStreams k) := by
  unfold Streams.incNumSendStreams; al_auto
theorem decNumStreams_al (s : Streams) (k : Nat) : AL ks s (s.decNumStreams k) := by
  unfold Streams.decNumStreams; al_auto

end H2V.Lemmas.ConnNoPanicP
