import H2V.Lemmas.ConnNoPanicPRecv
/-
  C08 (no panic) — part 5: `LT` for the handle functions of streams.rs that neither create nor release
  a stream, `LTw` (the light step without the error-reset counter) for `reset_on_recv_stream_err`,
  and a way to build `NPQ` for a concrete state (non-vacuity witnesses).
-/
namespace H2V.Lemmas.ConnNoPanicP
open H2V H2V.Model H2V.Model.Conn H2V.Lemmas.ConnCountsP
attribute [local irreducible] wrapSubU32 wrapSubUsize

theorem maybeCancel_lt (s : Streams) (k : Nat) : LT [k] s (s.maybeCancel k) := by
  unfold Streams.maybeCancel; lt_auto
theorem refReserveCapacity_lt (s : Streams) (k c : Nat) : LT [k] s (s.refReserveCapacity k c) := by
  unfold Streams.refReserveCapacity; lt_auto
theorem refReleaseCapacity_lt (s : Streams) (k c : Nat) : LT [k] s (s.refReleaseCapacity k c).1 := by
  unfold Streams.refReleaseCapacity; lt_auto
theorem refClearRecvBuffer_lt (s : Streams) (k : Nat) : LT [k] s (s.refClearRecvBuffer k) := by
  unfold Streams.refClearRecvBuffer; lt_auto
theorem pollPendingOpen_lt (s : Streams) (p : Option Nat) (t : String) : LT p.toList s (s.pollPendingOpen p t).1 := by
  unfold Streams.pollPendingOpen
  split
  · exact .refl _ _
  · split
    · exact .refl _ _
    · split
      · next p =>
        split
        · exact modStream_lt _ _ _ (fun _ => by inert_tac)
        · exact .refl _ _
      · exact .refl _ _
theorem cloneHandle_lt (s : Streams) : LT [] s s.cloneHandle := by
  unfold Streams.cloneHandle; lt_auto
theorem dropHandle_lt (s : Streams) : LT [] s s.dropHandle := by
  unfold Streams.dropHandle; lt_auto

theorem releaseDataFrame_err (c : Counts) (n : Nat) :
    (c.releaseDataFrame n).numLocalErrorResetStreams = c.numLocalErrorResetStreams ∧
    (c.releaseDataFrame n).maxLocalErrorResetStreams = c.maxLocalErrorResetStreams := by
  unfold Counts.releaseDataFrame; dsimp only; split <;> exact ⟨rfl, rfl⟩

theorem refPollData_lt (s : Streams) (k : Nat) (t : String) : LT [k] s (s.refPollData k t).1 := by
  unfold Streams.refPollData
  split
  · next s1 payload budgeted heq =>
    have h1 : LT [k] s s1 := LT.of_fst_eq heq (recvPollData_lt s k t)
    dsimp only
    split
    · exact h1.trans (modCounts_lt _ _ (releaseDataFrame_err _ _)) (fun _ h => absurd h List.not_mem_nil)
    · exact h1
  · exact recvPollData_lt s k t

-- ===================================================================== without the error-reset counter

/-- the light step without the frame of the local-error-reset counter -/
structure LTw (ks : List Nat) (s s' : Streams) : Prop where
  keys : SameKeys s s'
  ids : s'.store.ids = s.store.ids
  sid : SPr (·.id) s s'
  ref : SPr (·.refCount) s s'
  ok : LiveAll s ks → NPQ s → NPQ s'

theorem LT.w {ks : List Nat} {s s' : Streams} (h : LT ks s s') : LTw ks s s' := ⟨h.keys, h.ids, h.sid, h.ref, h.ok⟩
theorem LTw.refl (ks : List Nat) (s : Streams) : LTw ks s s := ⟨SameKeys.refl _, rfl, SPr.refl _ _, SPr.refl _ _, fun _ h => h⟩
theorem LTw.trans {ks ks' : List Nat} {a b c : Streams} (h1 : LTw ks a b) (h2 : LTw ks' b c) (hs : ∀ k ∈ ks', k ∈ ks) :
    LTw ks a c :=
  ⟨h1.keys.trans h2.keys, h2.ids.trans h1.ids, h1.sid.trans h2.sid, h1.ref.trans h2.ref, fun hl hq => h2.ok (fun k hk => h1.keys.live.mpr (hl k (hs k hk))) (h1.ok hl hq)⟩
theorem LTw.of_fst_eq {ks : List Nat} {s : Streams} {α : Type} {p : Streams × α} {a : Streams} {x : α}
    (h : p = (a, x)) (e : LTw ks s p.1) : LTw ks s a := by subst h; exact e

theorem setCounts_ltw (s : Streams) (c : Counts) : LTw ks s { s with counts := c } :=
  ⟨.of_store_eq rfl, rfl, .of_store rfl, .of_store rfl, fun _ hq => ⟨hq.np, (SameKeys.of_store_eq (s := s) (s' := { s with counts := c }) rfl).keysOK hq.keys,
    (QF.of_store_q (s := s) (s' := { s with counts := c }) rfl rfl).qok hq.qc, hq.av⟩⟩

/-- `Actions::reset_on_recv_stream_err`: `inc_num_local_error_resets` is guarded by its `can_inc` test -/
theorem resetOnRecvStreamErr_ltw (s : Streams) (k : Nat) (res : Except PErr Unit) :
    LTw [k] s (s.resetOnRecvStreamErr k res).1 := by
  unfold Streams.resetOnRecvStreamErr
  split
  · next reason init =>
    split
    · next hc =>
      have h0 : LTw [k] s (s.modCountsA "can_inc_num_local_error_resets" Counts.incNumLocalErrorResets) := by
        unfold Streams.modCountsA Counts.incNumLocalErrorResets
        rw [if_pos hc]
        exact setCounts_ltw s _
      dsimp only
      refine h0.trans (LT.w ?_) (fun _ h => h)
      lt_auto
    · exact .refl _ _
  · exact .refl _ _

-- ===================================================================== `NPQ` of a concrete state

/-- a state with one slab entry that is not waiting for capacity -/
theorem npq_single {s : Streams} {x : Stream} (hp : s.panicked = none) (hs : s.store.slab = [x])
    (hk : x.key < s.store.nextKey) (hq : s.prio.pendingCapacity = []) (hf : x.isPendingSendCapacity = false)
    (ha : x.sendFlow.available.val ≤ 2147483647) : NPQ s := by
  refine ⟨hp, ⟨by rw [hs]; simp, ?_⟩, ⟨?_, ?_⟩, ?_⟩
  · intro y hy; rw [hs] at hy; simp at hy; subst hy; exact hk
  · intro k
    have : s.getQ .pendingCapacity = [] := hq
    rw [this]
    constructor
    · intro h; cases h
    · rintro ⟨y, hy, hfl⟩
      have := get?_mem hy
      rw [hs] at this; simp at this; subst this
      rw [show y.isQueued .pendingCapacity = y.isPendingSendCapacity from rfl, hf] at hfl; cases hfl
  · have : s.getQ .pendingCapacity = [] := hq
    rw [this]; exact List.nodup_nil
  · intro y hy; rw [hs] at hy; simp at hy; subst hy; exact ha

end H2V.Lemmas.ConnNoPanicP
