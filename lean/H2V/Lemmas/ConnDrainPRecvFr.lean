import H2V.Lemmas.ConnDrainPFuel
/-
  ConnDrainP, part 6 — the send side (`Prioritize::buffer_pending` and everything below it) never touches
  `Recv` (`recv_*` lemmas); the arithmetic of the connection-level WINDOW_UPDATE.
-/
namespace H2V.Lemmas.ConnDrainP
open H2V H2V.Model H2V.Model.Conn
open H2V.Lemmas.ConnWakeP (popFrameC popFrameC_zero popFrameC_succ pfFinish pfData)

-- ===================================================================== the send side leaves `Recv` alone

/-- the three queues of `Prioritize` -/
def sendQ : QName → Bool
  | .pendingSend | .pendingCapacity | .pendingOpen => true
  | _ => false

@[simp] theorem recv_panic (s : Streams) (m : String) : (s.panic m).actions.recv = s.actions.recv := by
  unfold Streams.panic; split <;> rfl
@[simp] theorem recv_wake (s : Streams) (w : List String) : (s.wake w).actions.recv = s.actions.recv := rfl
@[simp] theorem recv_setStream (s : Streams) (x : Stream) : (s.setStream x).actions.recv = s.actions.recv := rfl
@[simp] theorem recv_modStream (s : Streams) (k : Nat) (f : Stream → Stream) : (s.modStream k f).actions.recv = s.actions.recv := by
  unfold Streams.modStream; split <;> simp
@[simp] theorem recv_modStreamW (s : Streams) (k : Nat) (f : Stream → Stream × List String) :
    (s.modStreamW k f).actions.recv = s.actions.recv := by
  unfold Streams.modStreamW; split <;> simp
@[simp] theorem recv_modPrio (s : Streams) (f : Prioritize → Prioritize) : (s.modPrio f).actions.recv = s.actions.recv := rfl
@[simp] theorem recv_modCounts (s : Streams) (f : Counts → Counts) : (s.modCounts f).actions.recv = s.actions.recv := rfl
@[simp] theorem recv_modCountsA (s : Streams) (w : String) (f : Counts → Option Counts) :
    (s.modCountsA w f).actions.recv = s.actions.recv := by
  unfold Streams.modCountsA; split <;> simp
@[simp] theorem recv_notifyTask (s : Streams) : s.notifyTask.actions.recv = s.actions.recv := by
  unfold Streams.notifyTask; split <;> rfl
theorem recv_setQ (s : Streams) (q : QName) (l : List Nat) (h : sendQ q = true) : (s.setQ q l).actions.recv = s.actions.recv := by
  cases q <;> first | rfl | cases h
theorem recv_qPush (s : Streams) (q : QName) (k : Nat) (h : sendQ q = true) : (s.qPush q k).1.actions.recv = s.actions.recv := by
  unfold Streams.qPush; split
  · rfl
  · simp [recv_setQ _ _ _ h]
theorem recv_qPushFront (s : Streams) (q : QName) (k : Nat) (h : sendQ q = true) : (s.qPushFront q k).1.actions.recv = s.actions.recv := by
  unfold Streams.qPushFront; split
  · rfl
  · simp [recv_setQ _ _ _ h]
theorem recv_qPop (s : Streams) (q : QName) (h : sendQ q = true) : (s.qPop q).1.actions.recv = s.actions.recv := by
  unfold Streams.qPop; split
  · rfl
  · simp [recv_setQ _ _ _ h]
theorem recv_qPop_eq {s s' : Streams} {q : QName} {r : Option Nat} (he : s.qPop q = (s', r)) (h : sendQ q = true) :
    s'.actions.recv = s.actions.recv := by
  have := recv_qPop s q h; rw [he] at this; exact this
@[simp] theorem recv_qPush_PS (s : Streams) (k : Nat) : (s.qPush .pendingSend k).1.actions.recv = s.actions.recv := recv_qPush _ _ _ rfl
@[simp] theorem recv_qPush_PC (s : Streams) (k : Nat) : (s.qPush .pendingCapacity k).1.actions.recv = s.actions.recv := recv_qPush _ _ _ rfl
@[simp] theorem recv_qPush_PO (s : Streams) (k : Nat) : (s.qPush .pendingOpen k).1.actions.recv = s.actions.recv := recv_qPush _ _ _ rfl
@[simp] theorem recv_qPushFront_PS (s : Streams) (k : Nat) : (s.qPushFront .pendingSend k).1.actions.recv = s.actions.recv := recv_qPushFront _ _ _ rfl

@[simp] theorem recv_incNumSendStreams (s : Streams) (k : Nat) : (s.incNumSendStreams k).actions.recv = s.actions.recv := by
  unfold Streams.incNumSendStreams; dsimp only; simp only [recv_modStream, recv_modCounts]
  split <;> split <;> simp
@[simp] theorem recv_decNumStreams (s : Streams) (k : Nat) : (s.decNumStreams k).actions.recv = s.actions.recv := by
  unfold Streams.decNumStreams; dsimp only
  repeat' split
  all_goals (first | rfl | simp)
@[simp] theorem recv_transitionAfter (s : Streams) (k : Nat) (b : Bool) : (s.transitionAfter k b).actions.recv = s.actions.recv := by
  unfold Streams.transitionAfter
  dsimp only
  repeat' split
  all_goals simp
@[simp] theorem recv_tryAssignCapacity (s : Streams) (k : Nat) : (s.tryAssignCapacity k).actions.recv = s.actions.recv := by
  unfold Streams.tryAssignCapacity
  dsimp only
  repeat' split
  all_goals simp
@[simp] theorem recv_assignLoop (n : Nat) : ∀ s : Streams, (Streams.assignConnectionCapacityLoop n s).actions.recv = s.actions.recv := by
  induction n with
  | zero => intro s; rfl
  | succ n ih =>
    intro s
    unfold Streams.assignConnectionCapacityLoop
    split
    · split
      · next heq => exact recv_qPop_eq heq rfl
      · next heq =>
        dsimp only
        split
        · rw [ih]; exact recv_qPop_eq heq rfl
        · rw [ih]; simp; exact recv_qPop_eq heq rfl
    · rfl
@[simp] theorem recv_assignConnectionCapacity (s : Streams) (inc : Nat) : (s.assignConnectionCapacity inc).actions.recv = s.actions.recv := by
  unfold Streams.assignConnectionCapacity; simp
@[simp] theorem recv_reclaimAllCapacity (s : Streams) (k : Nat) : (s.reclaimAllCapacity k).actions.recv = s.actions.recv := by
  unfold Streams.reclaimAllCapacity; dsimp only; split <;> simp
@[simp] theorem recv_clearQueue (s : Streams) (k : Nat) : (s.clearQueue k).actions.recv = s.actions.recv := by
  unfold Streams.clearQueue; dsimp only; repeat' split
  all_goals simp
@[simp] theorem recv_queueOpen (s : Streams) (k : Nat) : (s.queueOpen k).actions.recv = s.actions.recv := by
  unfold Streams.queueOpen; simp
@[simp] theorem recv_popPendingOpen (s : Streams) : s.popPendingOpen.1.actions.recv = s.actions.recv := by
  unfold Streams.popPendingOpen
  split
  · split
    · next heq => simp; exact recv_qPop_eq heq rfl
    · next heq => exact recv_qPop_eq heq rfl
  · rfl
@[simp] theorem recv_pfFinish (k : Nat) (b : Bool) (s : Streams) (f : Streams.OutFrame) :
    (pfFinish k b s f).1.actions.recv = s.actions.recv := by
  unfold pfFinish; dsimp only; split <;> simp
@[simp] theorem recv_pfData (sd : Stream → Nat → Nat → Stream × List String × Bool) (s : Streams) (k len : Nat) (rest : List SFrame) :
    (pfData sd s k len rest).actions.recv = s.actions.recv := by
  unfold pfData
  dsimp only
  repeat' split
  all_goals simp

theorem recv_popFrameC (sd : Stream → Nat → Nat → Stream × List String × Bool) (n : Nat) :
    ∀ (s : Streams) (m : Nat), (popFrameC sd n s m).1.actions.recv = s.actions.recv := by
  induction n with
  | zero => intro s m; rw [popFrameC_zero]
  | succ n ih =>
    intro s m
    rw [popFrameC_succ]
    split
    · next heq => exact recv_qPop_eq heq rfl
    · next s0 k heq =>
      have h0 := recv_qPop_eq heq rfl
      dsimp only
      repeat' split
      all_goals (first | (rw [ih]; (try simp); exact h0) | ((try simp); exact h0))

theorem recv_popFrame (n : Nat) (s : Streams) (m : Nat) : (Streams.popFrame n s m).1.actions.recv = s.actions.recv := by
  rw [ConnWakeP.popFrameC.eq]; exact recv_popFrameC _ n s m

@[simp] theorem recv_reclaimFrameInner (s : Streams) (f : DataFrame) : (s.reclaimFrameInner f).1.actions.recv = s.actions.recv := by
  unfold Streams.reclaimFrameInner; dsimp only; repeat' split
  all_goals simp
@[simp] theorem recv_reclaimFrame (s : Streams) (w : Writer) : (s.reclaimFrame w).1.actions.recv = s.actions.recv := by
  unfold Streams.reclaimFrame; split <;> simp
@[simp] theorem recv_bufferOut (s : Streams) (w : Writer) (f : Streams.OutFrame) : (s.bufferOut w f).1.actions.recv = s.actions.recv := by
  unfold Streams.bufferOut; repeat' split
  all_goals simp

theorem recv_prioLoop (n : Nat) : ∀ (s : Streams) (w : Writer), (Streams.prioBufferPendingLoop n s w).1.actions.recv = s.actions.recv := by
  induction n with
  | zero => intro s w; unfold Streams.prioBufferPendingLoop; simp
  | succ n ih =>
    intro s w
    rw [ConnFlowP.loop_eq]
    split
    · rfl
    · have hpre : (ConnFlowP.loopPre s).actions.recv = s.actions.recv := by
        unfold ConnFlowP.loopPre; split
        · next heq => have := recv_popPendingOpen s; rw [heq] at this; simp; exact this
        · next heq => have := recv_popPendingOpen s; rw [heq] at this; exact this
      split
      · next s' f heq =>
        rw [ih]
        have := recv_popFrame (Streams.popFrameFuel (ConnFlowP.loopPre s)) (ConnFlowP.loopPre s) w.maxFrameSize
        rw [heq] at this
        unfold ConnFlowP.loopPost; simp; rw [this, hpre]
      · next s' heq =>
        have := recv_popFrame (Streams.popFrameFuel (ConnFlowP.loopPre s)) (ConnFlowP.loopPre s) w.maxFrameSize
        rw [heq] at this
        show s'.actions.recv = _
        rw [this, hpre]


-- ===================================================================== WINDOW_UPDATE arithmetic

theorem wrapI32_of_range (d : Int) (h0 : 0 ≤ d) (h1 : d < 4294967296) :
    wrapI32 d = if d < 2147483648 then d else d - 4294967296 := by
  unfold wrapI32 u32AsI32 U32_MOD
  have e : d % ((4294967296 : Nat) : Int) = d := Int.emod_eq_of_lt h0 (by omega)
  rw [e]
  simp only
  have e2 : d.toNat % 4294967296 = d.toNat := Nat.mod_eq_of_lt (by omega)
  rw [e2]
  split <;> split <;> omega

theorem u32AsI32_of_lt (n : Nat) (h : n < 4294967296) :
    u32AsI32 n = if n < 2147483648 then (n : Int) else (n : Int) - 4294967296 := by
  unfold u32AsI32 U32_MOD
  simp only
  rw [Nat.mod_eq_of_lt h]
  rfl

/-- after the WINDOW_UPDATE that `unclaimed_capacity` asked for, nothing is unclaimed any more -/
theorem unclaimed_none_after_update {f f' : FlowControl} {incr : Nat}
    (ha : f.available.val ≤ 2147483647) (hw : -2147483648 ≤ f.windowSize.val)
    (hu : f.unclaimedCapacity = some incr) (hi : f.incWindow incr = (f', .ok ())) :
    f'.unclaimedCapacity = none := by
  unfold FlowControl.unclaimedCapacity at hu
  split at hu
  · cases hu
  · next hlt =>
    simp only at hu
    split at hu
    · cases hu
    · next hth =>
      have hd0 : 0 < f.available.val - f.windowSize.val := by omega
      have hd1 : f.available.val - f.windowSize.val < 4294967296 := by omega
      have hwr := wrapI32_of_range _ (Int.le_of_lt hd0) hd1
      have hinc : incr = (f.available.val - f.windowSize.val).toNat := by
        injection hu with hu
        rw [← hu, hwr]
        unfold U32_MOD
        split <;> omega
      have hlt32 : incr < 4294967296 := by omega
      have hu32 := u32AsI32_of_lt incr hlt32
      unfold FlowControl.incWindow at hi
      simp only at hi
      split at hi
      · cases hi
      · next hin =>
        split at hi
        · cases hi
        · next hmax =>
          injection hi with hi _
          subst hi
          have hin' : inI32 (f.windowSize.val + u32AsI32 incr) = true := by simpa using hin
          simp only [inI32, I32_MIN, I32_MAX, Bool.and_eq_true] at hin'
          have hin1 := of_decide_eq_true hin'.1
          have hin2 := of_decide_eq_true hin'.2
          clear hin'
          unfold FlowControl.unclaimedCapacity
          have : f.windowSize.val + u32AsI32 incr ≥ f.available.val := by
            have hcast : (incr : Int) = f.available.val - f.windowSize.val := by omega
            by_cases hc : incr < 2147483648
            · have hval : u32AsI32 incr = (incr : Int) := by rw [hu32, if_pos hc]
              rw [hval] at hin1 hin2 ⊢
              clear hu32 hin hmax hth hwr hu hval
              omega
            · have hval : u32AsI32 incr = (incr : Int) - 4294967296 := by rw [hu32, if_neg hc]
              rw [hval] at hin1 hin2 ⊢
              clear hu32 hin hmax hth hwr hu hval
              omega
          simp only [ge_iff_le, this, if_true]

end H2V.Lemmas.ConnDrainP
