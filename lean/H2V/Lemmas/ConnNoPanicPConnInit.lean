import H2V.Lemmas.ConnNoPanicPConnApi
/-
  C08 (no panic) — connection layer, part 7: the two constructors (`client::Connection::handshake2`,
  `server::Handshake` + `proto::Connection::new`) as histories from the literal initial `Streams` record and the
  empty writer, and the connection invariant of a new connection.
-/
namespace H2V.Lemmas.ConnNoPanicP
open H2V H2V.Model H2V.Model.Conn
open H2V.Lemmas.ConnResetP (Op run)
open H2V.Lemmas.ConnCtlP (GoAwayInv Keep15 Step15 GaLe gaLast view)

/-- the connection-level `FlowControl` of a new connection -/
def flowInit0 : FlowControl :=
  ((FlowControl.new.incWindow Generated.Consts.DEFAULT_INITIAL_WINDOW_SIZE).1.assignCapacity Generated.Consts.DEFAULT_INITIAL_WINDOW_SIZE).1

/-- the literal `Streams` record of `Conn.init` (before `cloneHandle` / `set_target_window_size`) -/
def clientStreams0 (g : Conn.Cfg) : Streams :=
  { counts := { isServer := false, maxSendStreams := g.initMaxSend,
                maxRecvStreams := (match g.mcs with | some m => m | none => USIZE_MAX),
                maxLocalResetStreams := g.resetMax, maxRemoteResetStreams := g.pendAcceptReset,
                dataFrameBudget := Budget.new g.budget },
    actions := {
      recv := { flow := flowInit0, isPushEnabled := (match g.push with | some v => v != 0 | none => true),
                resetDurationZero := g.resetSecs == 0 },
      send := { nextStreamId := some g.firstId,
                prioritize := { flow := flowInit0, maxBufferSize := g.sendbuf } } },
    refs := 1 }

/-- the literal `Streams` record of `Conn.initServer` -/
def serverStreams0 (g : Conn.Cfg) (ecp : Bool) : Streams :=
  { counts := { isServer := true, maxSendStreams := 0,
                maxRecvStreams := (match g.mcs with | some m => m | none => USIZE_MAX),
                maxLocalResetStreams := g.resetMax, maxRemoteResetStreams := g.pendAcceptReset,
                dataFrameBudget := Budget.new g.budget },
    actions := {
      recv := { flow := flowInit0, nextStreamId := some 1, isPushEnabled := true,
                isExtendedConnectProtocolEnabled := ecp, resetDurationZero := g.resetSecs == 0 },
      send := { nextStreamId := some 2,
                prioritize := { flow := flowInit0, maxBufferSize := g.sendbuf } } },
    refs := 1 }

/-- the builder was given a legal `initial_connection_window_size` (the real builder asserts `≤ 2^31-1`) -/
def CwsOK (g : Conn.Cfg) : Prop := ∀ sz, g.cws = some sz → sz ≤ 2147483647

/-- **`Conn.init`**: the SETTINGS frame is buffered, `SendRequest` clones the handle, `set_target_window_size` -/
theorem init_hist (g : Conn.Cfg) (hg : CwsOK g) :
    HistW ConnP (clientStreams0 g) {} (Conn.init g).streams (Conn.init g).codec.w := by
  unfold Conn.init
  dsimp only
  have h1 : HistW ConnP (clientStreams0 g) {} (clientStreams0 g)
      (({} : Writer).bufferSimple (6 * (Frame.settingsOrder g.settings).length) (Conn.renderSettings false g.settings)) :=
    .w1 (.bufferSimple _ _ _) rfl
  have h2 := h1.trans (.op1 (s' := (clientStreams0 g).cloneHandle) .cloneHandle trivial rfl rfl rfl)
  cases hc : g.cws with
  | none => exact h2
  | some sz => exact h2.trans (.op1 (.setTargetConnectionWindow sz) (hg sz hc) rfl rfl rfl)

/-- **`Conn.initServer`**: the SETTINGS frame is buffered and flushed, `set_target_window_size` -/
theorem initServer_hist (g : Conn.Cfg) (ecp : Bool) (pf : Bytes) (hg : CwsOK g) :
    HistW ConnP (serverStreams0 g ecp) {} (Conn.initServer g ecp pf).streams (Conn.initServer g ecp pf).codec.w := by
  unfold Conn.initServer
  dsimp only
  generalize hset : (({ g with push := none } : Conn.Cfg).settings ++ if ecp = true then [(8, 1)] else []) = settings
  have h1 : HistW ConnP (serverStreams0 g ecp) {} (serverStreams0 g ecp)
      (({} : Writer).bufferSimple (6 * (Frame.settingsOrder settings).length) (Conn.renderSettings false settings)) :=
    .w1 (.bufferSimple _ _ _) rfl
  have h2 := h1.trans (.w1 (.flush _ { rd := pf } WAKER_CONN) rfl)
  cases hc : g.cws with
  | none => exact h2
  | some sz => exact h2.trans (.op1 (.setTargetConnectionWindow sz) (hg sz hc) rfl rfl rfl)

-- ===================================================================== the invariant of a new connection

/-- the builder was given a legal `max_frame_size` (the real builder asserts `16 384 ≤ max ≤ 2^24-1`) -/
def CfgOK (g : Conn.Cfg) : Prop := ∀ m, g.mfs = some m → m ≤ 16777215

theorem getS5_cfg (g : Conn.Cfg) : ConnCtlP.getS g.settings 5 = g.mfs := by
  unfold ConnCtlP.getS Conn.Cfg.settings
  cases g.hts <;> cases g.push <;> cases g.mcs <;> cases g.iws <;> cases g.mfs <;> cases g.mhl <;> simp

theorem getS5_cfg_server (g : Conn.Cfg) (ecp : Bool) :
    ConnCtlP.getS ((({ g with push := none } : Conn.Cfg).settings) ++ (if ecp then [(8, 1)] else [])) 5 = g.mfs := by
  unfold ConnCtlP.getS Conn.Cfg.settings
  cases g.hts <;> cases g.mcs <;> cases g.iws <;> cases g.mfs <;> cases g.mhl <;> cases ecp <;> simp

/-- the reader of a new connection -/
def reader0 (g : Conn.Cfg) : CodecRead.Reader :=
  let r := CodecRead.Reader.new Generated.Consts.DEFAULT_MAX_FRAME_SIZE
  let r := match g.mfs with | some m => r.setMaxFrameSize m | none => r
  match g.mhl with | some m => r.setMaxHeaderListSize m | none => r

theorem reader0_ok (g : Conn.Cfg) (hg : CfgOK g) : (reader0 g).maxFrameLen ≤ 16777215 ∧ (reader0 g).need = none := by
  unfold reader0
  dsimp only
  cases hm : g.mfs with
  | none =>
    cases g.mhl <;> exact ⟨(by decide : (16384 : Nat) ≤ 16777215), rfl⟩
  | some m =>
    have := hg m hm
    cases g.mhl <;> exact ⟨this, rfl⟩

theorem rdOK_of_new {c : Conn} {g : Conn.Cfg} {v : List (Nat × Nat)} (hg : CfgOK g) (hr : c.codec.r = reader0 g)
    (hl : c.settings.loc = .waitingAck v) (hv : ConnCtlP.getS v 5 = g.mfs) (hrem : c.settings.remote = none) : RdOK c := by
  obtain ⟨r1, r2⟩ := reader0_ok g hg
  refine ⟨by rw [hr]; exact r1, (by rw [hr, r2]; intro n hn; cases hn), ?_, (by rw [hrem]; intro v hv; cases hv)⟩
  intro v' m hv' hm
  have : v' = v := by
    rcases hv' with h | h <;> rw [hl] at h
    · cases h
    · injection h with h; exact h.symm
  subst this
  rw [hv] at hm
  exact hg m hm

/-- **a new client connection satisfies the connection invariant** -/
theorem init_ok (g : Conn.Cfg) (hg : CfgOK g) : ConnOK (Conn.init g) := by
  refine ⟨ConnCtlP.goAwayInv_init g, ?_, rdOK_of_new (g := g) (v := g.settings) hg ?_ ?_ (getS5_cfg g) ?_⟩
  · intro p hp
    have : (Conn.init g).pingPong.pendingPing = none := by unfold Conn.init; cases g.cws <;> rfl
    rw [this] at hp; cases hp
  · unfold Conn.init; cases g.cws <;> rfl
  · unfold Conn.init; cases g.cws <;> rfl
  · unfold Conn.init; cases g.cws <;> rfl

/-- **a new server connection satisfies the connection invariant** -/
theorem initServer_ok (g : Conn.Cfg) (ecp : Bool) (pf : Bytes) (hg : CfgOK g) : ConnOK (Conn.initServer g ecp pf) := by
  refine ⟨ConnCtlP.goAwayInv_initServer g ecp pf, ?_,
    rdOK_of_new (g := g) (v := (({ g with push := none } : Conn.Cfg).settings) ++ (if ecp then [(8, 1)] else [])) hg ?_ ?_
      (getS5_cfg_server g ecp) ?_⟩
  · intro p hp
    have : (Conn.initServer g ecp pf).pingPong.pendingPing = none := by unfold Conn.initServer; cases g.cws <;> rfl
    rw [this] at hp; cases hp
  · unfold Conn.initServer; cases g.cws <;> rfl
  · unfold Conn.initServer; cases g.cws <;> rfl
  · unfold Conn.initServer; cases g.cws <;> rfl

end H2V.Lemmas.ConnNoPanicP
