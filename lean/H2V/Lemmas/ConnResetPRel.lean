import H2V.Lemmas.ConnResetPFrame
import H2V.Lemmas.CompState
/-
  ConnResetP — the per-stream step relation `SRel` used for the whole-history theorems about
  RST_STREAM (C17) and the send life cycle (C04).

  * `resetCount` : number of RST_STREAM frames sitting in a stream's `pending_send`;
  * `RInv`       : at most one, and only on a stream whose state is "closed by an error"
                   (`Closed(Error | ErrorAfterEndStream)`, not a scheduled reset);
  * `rank`       : 0 = not reset, 1 = an RST_STREAM is owed (queued, or implicit reset scheduled),
                   2 = reset and nothing owed any more;
  * `SRel D a b` : same key and id, (handle count not decreased unless `D key`), `RInv` preserved, `rank` never decreases, a stream never
                   returns to idle, a closed stream stays closed, and a recorded error cause can
                   only be replaced by a later RST_STREAM of the peer.
-/
namespace H2V.Lemmas.ConnResetP
open H2V H2V.Model H2V.Model.Conn

def isResetFrame : SFrame → Bool
  | .reset _ => true
  | _ => false

def resetCount (l : List SFrame) : Nat := (l.filter isResetFrame).length

@[simp] theorem resetCount_nil : resetCount [] = 0 := rfl
@[simp] theorem resetCount_cons (f : SFrame) (l : List SFrame) :
    resetCount (f :: l) = (if isResetFrame f then 1 else 0) + resetCount l := by
  unfold resetCount; simp only [List.filter_cons]; split <;> simp <;> omega
@[simp] theorem resetCount_append (l m : List SFrame) : resetCount (l ++ m) = resetCount l + resetCount m := by
  unfold resetCount; simp

theorem resetCount_drop_le (l : List SFrame) (n : Nat) : resetCount (l.drop n) ≤ resetCount l := by
  induction l generalizing n with
  | nil => simp
  | cons f l ih =>
    cases n with
    | zero => simp
    | succ n => simp only [List.drop_succ_cons, resetCount_cons]; have := ih n; omega

theorem resetCount_head?_le (l : List SFrame) : resetCount l.head?.toList ≤ resetCount l := by
  cases l <;> simp

/-- closed by an error (local or remote), not by END_STREAM and not a scheduled implicit reset -/
def isErr (s : State) : Bool := s.isReset && !s.isScheduledReset

structure RInv (st : Stream) : Prop where
  le : resetCount st.pendingSend ≤ 1
  err : resetCount st.pendingSend = 1 → isErr st.state = true

def rank (st : Stream) : Nat :=
  if st.state.isReset then (if st.state.isScheduledReset || decide (1 ≤ resetCount st.pendingSend) then 1 else 2) else 0

/-- how the error cause of a closed stream may change: only a later RST_STREAM of the peer replaces it -/
def causeStable (id : Nat) (a b : State) : Prop :=
  (∀ e, a.inner = .closed (.error e) →
      b.inner = .closed (.error e) ∨ ∃ r, b.inner = .closed (.error (.reset id r .remote))) ∧
  (∀ e, a.inner = .closed (.errorAfterEndStream e) →
      b.inner = .closed (.errorAfterEndStream e) ∨ ∃ r, b.inner = .closed (.errorAfterEndStream (.reset id r .remote)))

structure SRel (D : Nat → Prop) (a b : Stream) : Prop where
  key : b.key = a.key
  id : b.id = a.id
  inv : RInv a → RInv b
  mono : RInv a → rank a ≤ rank b
  nonIdle : a.state.isIdle = false → b.state.isIdle = false
  closed : a.state.isClosed = true → b.state.isClosed = true
  cause : causeStable a.id a.state b.state
  /-- the handle count of an entry only goes down when a handle of that entry is dropped (`D key`) -/
  refs : ¬ D a.key → a.refCount ≤ b.refCount

theorem causeStable.rfl' (id : Nat) (a : State) : causeStable id a a :=
  ⟨fun _ h => .inl h, fun _ h => .inl h⟩

theorem causeStable.trans {id : Nat} {a b c : State} (h1 : causeStable id a b) (h2 : causeStable id b c) :
    causeStable id a c := by
  constructor
  · intro e he
    rcases h1.1 e he with hb | ⟨r, hb⟩
    · exact h2.1 e hb
    · rcases h2.1 _ hb with hc | ⟨r', hc⟩
      · exact .inr ⟨r, hc⟩
      · exact .inr ⟨r', hc⟩
  · intro e he
    rcases h1.2 e he with hb | ⟨r, hb⟩
    · exact h2.2 e hb
    · rcases h2.2 _ hb with hc | ⟨r', hc⟩
      · exact .inr ⟨r, hc⟩
      · exact .inr ⟨r', hc⟩

variable {D : Nat → Prop}

/-- state and queue untouched -/
theorem SRel.of_core4 {a b : Stream} (hk : b.key = a.key) (hi : b.id = a.id) (hs : b.state = a.state)
    (hp : b.pendingSend = a.pendingSend) (hr : ¬ D a.key → a.refCount ≤ b.refCount) : SRel D a b := by
  refine ⟨hk, hi, fun i => ⟨?_, ?_⟩, fun _ => ?_, ?_, ?_, ?_, hr⟩
  · rw [hp]; exact i.le
  · rw [hp, hs]; exact i.err
  · unfold rank; rw [hp, hs]; exact Nat.le_refl _
  · rw [hs]; exact fun h => h
  · rw [hs]; exact fun h => h
  · rw [hs]; exact causeStable.rfl' _ _

theorem SRel.of_coreEq {a b : Stream} (h : CoreEq a b) : SRel D a b := by
  have hs := h.state; have hp := h.pendingSend
  refine ⟨h.key, h.id, fun i => ⟨?_, ?_⟩, fun _ => ?_, ?_, ?_, ?_, fun _ => Nat.le_of_eq h.refCount.symm⟩
  · rw [hp]; exact i.le
  · rw [hp, hs]; exact i.err
  · unfold rank; rw [hp, hs]; exact Nat.le_refl _
  · rw [hs]; exact fun h => h
  · rw [hs]; exact fun h => h
  · rw [hs]; exact causeStable.rfl' _ _

instance : GoodRef (SRel D) RInv where
  trans := fun {a b c} h1 h2 =>
    ⟨h2.key.trans h1.key, h2.id.trans h1.id, fun i => h2.inv (h1.inv i),
     fun i => Nat.le_trans (h1.mono i) (h2.mono (h1.inv i)),
     fun h => h2.nonIdle (h1.nonIdle h), fun h => h2.closed (h1.closed h),
     causeStable.trans h1.cause (by rw [← h1.id]; exact h2.cause),
     fun hd => Nat.le_trans (h1.refs hd) (h2.refs (by rw [h1.key]; exact hd))⟩
  new := fun n h => h.inv n
  core := SRel.of_coreEq
  key := SRel.key
  refInc := fun a => ⟨rfl, rfl, fun i => ⟨i.le, i.err⟩, fun _ => Nat.le_refl _, fun h => h, fun h => h,
    causeStable.rfl' _ _, fun _ => Nat.le_succ _⟩

/-- the relation with every drop allowed -/
abbrev SRelAny := SRel (fun _ => True)

-- ===================================================================== changes of the queue (state untouched)

/-- any change of `pending_send` that does not add an RST_STREAM (pop, drop, clear, push of DATA…) -/
theorem SRel.queue_le {a b : Stream} (hk : b.key = a.key) (hi : b.id = a.id) (hs : b.state = a.state)
    (hrc : b.refCount = a.refCount)
    (hq : resetCount b.pendingSend ≤ resetCount a.pendingSend) : SRel D a b := by
  refine ⟨hk, hi, fun i => ⟨Nat.le_trans hq i.le, fun h1 => ?_⟩, fun i => ?_, ?_, ?_, ?_, fun _ => Nat.le_of_eq hrc.symm⟩
  · rw [hs]; exact i.err (by have := i.le; omega)
  · unfold rank; rw [hs]
    split
    · split
      · next h1 =>
        split
        · exact Nat.le_refl _
        · omega
      · next h1 =>
        split
        · next h2 =>
          simp only [Bool.or_eq_true, decide_eq_true_eq, not_or] at h1
          simp only [Bool.or_eq_true, decide_eq_true_eq] at h2
          rcases h2 with h2 | h2
          · exact absurd h2 h1.1
          · omega
        · exact Nat.le_refl _
    · exact Nat.le_refl _
  · rw [hs]; exact fun h => h
  · rw [hs]; exact fun h => h
  · rw [hs]; exact causeStable.rfl' _ _

theorem isErr_closed {x : State} (h : isErr x = true) : x.isClosed = true ∧ x.isIdle = false := by
  revert h; rcases x with ⟨_ | _ | _ | _ | _ | _ | ⟨_ | _ | _ | _⟩⟩ <;>
    simp [isErr, State.isClosed, State.isIdle, State.isReset, State.isScheduledReset, State.getScheduledReset]

theorem facts_of_error {x : State} {e : PErr} (h : x.inner = .closed (.error e)) :
    x.isReset = true ∧ x.isClosed = true ∧ x.isScheduledReset = false ∧ x.isRecvEndStream = false := by
  rcases x with ⟨i⟩; simp only at h; subst h
  simp [State.isReset, State.isClosed, State.isScheduledReset, State.getScheduledReset, State.isRecvEndStream]

theorem facts_of_errorAES {x : State} {e : PErr} (h : x.inner = .closed (.errorAfterEndStream e)) :
    x.isReset = true ∧ x.isClosed = true ∧ x.isScheduledReset = false ∧ x.isRecvEndStream = true := by
  rcases x with ⟨i⟩; simp only at h; subst h
  simp [State.isReset, State.isClosed, State.isScheduledReset, State.getScheduledReset, State.isRecvEndStream]

/-- a stream that was not reset is closed by an error and its queue rewritten in one step (`send_reset`):
    at most one RST_STREAM may be in the new queue -/
theorem SRel.reset_atomic {a b : Stream} (hk : b.key = a.key) (hi : b.id = a.id) (hrc : b.refCount = a.refCount)
    (ha : a.state.isReset = false) (hb : isErr b.state = true) (hq : resetCount b.pendingSend ≤ 1) : SRel D a b := by
  refine ⟨hk, hi, fun _ => ⟨hq, fun _ => hb⟩, fun _ => ?_, fun _ => (isErr_closed hb).2, fun _ => (isErr_closed hb).1, ?_,
    fun _ => Nat.le_of_eq hrc.symm⟩
  · unfold rank; rw [ha]; simp
  · constructor <;> intro e he
    · rw [(facts_of_error he).1] at ha; cases ha
    · rw [(facts_of_errorAES he).1] at ha; cases ha

-- ===================================================================== changes of the state (queue untouched)

open H2V.Lemmas.Comp in
/-- the transitions of the state machine as the stream layer uses them -/
inductive StateStep (id : Nat) (a : State) : State → Prop where
  | same : StateStep id a a
  /-- the ordinary life cycle: a stream that is not closed moves to a state that is not a reset -/
  | normal {b : State} : a.isClosed = false → b.isReset = false → b.isIdle = false → StateStep id a b
  /-- the first error -/
  | error {b : State} : a.isReset = false → isErr b = true → StateStep id a b
  /-- the scheduled implicit reset is sent or dropped: `Closed(ScheduledLibraryReset)` becomes an error -/
  | unschedule {b : State} : a.isScheduledReset = true → isErr b = true → StateStep id a b
  /-- an implicit reset is scheduled on a stream that is not closed -/
  | schedule {b : State} : a.isClosed = false → b.isScheduledReset = true → StateStep id a b
  /-- RST_STREAM from the peer on a stream that is already closed with a cause -/
  | remote (r : Reason) (eos : Bool) : a.isReset = true → a.isRecvEndStream = eos →
      StateStep id a ⟨.closed (if eos then .errorAfterEndStream (.reset id r .remote) else .error (.reset id r .remote))⟩

theorem SRel.state_step {a b : Stream} (hk : b.key = a.key) (hi : b.id = a.id) (hq : b.pendingSend = a.pendingSend)
    (hrc : b.refCount = a.refCount)
    (hs : StateStep a.id a.state b.state) : SRel D a b := by
  have hrefs : ¬ D a.key → a.refCount ≤ b.refCount := fun _ => Nat.le_of_eq hrc.symm
  have hc0 : ∀ i : RInv a, a.state.isReset = false → resetCount a.pendingSend = 0 := by
    intro i hr
    have := i.le
    rcases Nat.lt_or_ge (resetCount a.pendingSend) 1 with h | h
    · omega
    · have := i.err (by omega); unfold isErr at this; simp [hr] at this
  have hc1 : ∀ i : RInv a, a.state.isScheduledReset = true → resetCount a.pendingSend = 0 := by
    intro i hr
    have := i.le
    rcases Nat.lt_or_ge (resetCount a.pendingSend) 1 with h | h
    · omega
    · have := i.err (by omega); unfold isErr at this; simp [hr] at this
  generalize hb : b.state = bs at hs
  cases hs with
  | same => exact SRel.of_coreEq ⟨hk, hi, hb, hq, hrc⟩
  | normal h1 h2 h3 =>
    have hr : a.state.isReset = false := by
      revert h1; generalize a.state = x; intro h1
      rcases x with ⟨_ | _ | _ | _ | _ | _ | ⟨_ | _ | _ | _⟩⟩ <;> simp_all [State.isClosed, State.isReset]
    refine ⟨hk, hi, fun i => ⟨by rw [hq]; exact i.le, fun h => ?_⟩, fun i => ?_, fun _ => ?_, fun h => ?_, ?_, hrefs⟩
    · rw [hq, hc0 i hr] at h; cases h
    · unfold rank; rw [hr]; simp
    · rw [hb]; exact h3
    · rw [h1] at h; cases h
    · constructor <;> intro e he
      · rw [(facts_of_error he).2.1] at h1; cases h1
      · rw [(facts_of_errorAES he).2.1] at h1; cases h1
  | error h1 h2 =>
    have hcl : bs.isClosed = true := (isErr_closed h2).1
    have hni : bs.isIdle = false := (isErr_closed h2).2
    refine ⟨hk, hi, fun i => ⟨by rw [hq]; exact i.le, fun _ => by rw [hb]; exact h2⟩, fun i => ?_, fun _ => ?_, fun _ => ?_, ?_, hrefs⟩
    · unfold rank; rw [h1]; simp
    · rw [hb]; exact hni
    · rw [hb]; exact hcl
    · constructor <;> intro e he
      · rw [(facts_of_error he).1] at h1; cases h1
      · rw [(facts_of_errorAES he).1] at h1; cases h1
  | unschedule h1 h2 =>
    have hcl : bs.isClosed = true := (isErr_closed h2).1
    have hni : bs.isIdle = false := (isErr_closed h2).2
    have hra : a.state.isReset = true := by
      revert h1; generalize a.state = x; intro h1
      rcases x with ⟨_ | _ | _ | _ | _ | _ | ⟨_ | _ | _ | _⟩⟩ <;>
        simp_all [State.isReset, State.isScheduledReset, State.getScheduledReset]
    refine ⟨hk, hi, fun i => ⟨by rw [hq]; exact i.le, fun _ => by rw [hb]; exact h2⟩, fun i => ?_, fun _ => ?_, fun _ => ?_, ?_, hrefs⟩
    · unfold rank; rw [hb, hq, hc1 i h1, hra, h1]
      unfold isErr at h2; simp only [Bool.and_eq_true, Bool.not_eq_true'] at h2
      simp [h2.1, h2.2]
    · rw [hb]; exact hni
    · rw [hb]; exact hcl
    · constructor <;> intro e he
      · rw [(facts_of_error he).2.2.1] at h1; cases h1
      · rw [(facts_of_errorAES he).2.2.1] at h1; cases h1
  | schedule h1 h2 =>
    have hr : a.state.isReset = false := by
      revert h1; generalize a.state = x; intro h1
      rcases x with ⟨_ | _ | _ | _ | _ | _ | ⟨_ | _ | _ | _⟩⟩ <;> simp_all [State.isClosed, State.isReset]
    have hb2 : bs.isClosed = true ∧ bs.isIdle = false := by
      revert h2; rcases bs with ⟨_ | _ | _ | _ | _ | _ | ⟨_ | _ | _ | _⟩⟩ <;>
        simp [State.isClosed, State.isIdle, State.isScheduledReset, State.getScheduledReset]
    refine ⟨hk, hi, fun i => ⟨by rw [hq]; exact i.le, fun h => ?_⟩, fun i => ?_, fun _ => ?_, fun h => ?_, ?_, hrefs⟩
    · rw [hq, hc0 i hr] at h; cases h
    · unfold rank; rw [hr]; simp
    · rw [hb]; exact hb2.2
    · rw [h1] at h; cases h
    · constructor <;> intro e he
      · rw [(facts_of_error he).2.1] at h1; cases h1
      · rw [(facts_of_errorAES he).2.1] at h1; cases h1
  | remote r eos h1 h2 =>
    have herr : isErr b.state = true := by rw [hb]; cases eos <;> rfl
    have hrb : b.state.isReset = true ∧ b.state.isScheduledReset = false := by
      unfold isErr at herr; simpa using herr
    refine ⟨hk, hi, fun i => ⟨by rw [hq]; exact i.le, fun _ => herr⟩, fun i => ?_,
      fun _ => (isErr_closed herr).2, fun _ => (isErr_closed herr).1, ?_, hrefs⟩
    · unfold rank; rw [h1, hq, hrb.1, hrb.2]
      simp only [if_true, Bool.false_or]
      by_cases hs : a.state.isScheduledReset = true
      · simp [hs, hc1 i hs]
      · simp only [hs, Bool.false_or]; exact Nat.le_refl _
    · rw [hb]; constructor <;> intro e he
      · rw [(facts_of_error he).2.2.2] at h2; subst h2; exact .inr ⟨r, rfl⟩
      · rw [(facts_of_errorAES he).2.2.2] at h2; subst h2; exact .inr ⟨r, rfl⟩

end H2V.Lemmas.ConnResetP
