import H2V.Lemmas.ConnNoPanicPFiFkFns
/-
  C08 (no panic) — PUSH_PROMISE bookkeeping, part 3: the frame `PP` for the teardown loops, `Store::for_each`,
  `counts.transition`, the settings functions and the frame entry points that do not insert.
-/
namespace H2V.Lemmas.ConnNoPanicP
open H2V H2V.Model H2V.Model.Conn H2V.Lemmas.ConnCountsP
attribute [local irreducible] wrapSubU32 wrapSubUsize
variable {sv : Bool}


-- ===================================================================== queue-draining loops

theorem clearPendingCapacity_sk (n : Nat) (s : Streams) : SK sv s (Streams.clearPendingCapacity n s) := by
  induction n generalizing s with
  | zero => unfold Streams.clearPendingCapacity; exact .refl _
  | succ n ih => unfold Streams.clearPendingCapacity; sk_auto_ih ih
theorem clearPendingSend_sk (n : Nat) (s : Streams) : SK sv s (Streams.clearPendingSend n s) := by
  induction n generalizing s with
  | zero => unfold Streams.clearPendingSend; exact .refl _
  | succ n ih => unfold Streams.clearPendingSend; sk_auto_ih ih
theorem clearPendingOpen_sk (n : Nat) (s : Streams) : SK sv s (Streams.clearPendingOpen n s) := by
  induction n generalizing s with
  | zero => unfold Streams.clearPendingOpen; exact .refl _
  | succ n ih => unfold Streams.clearPendingOpen; sk_auto_ih ih
theorem sendClearQueues_sk (s : Streams) : SK sv s s.sendClearQueues := by
  unfold Streams.sendClearQueues; sk_auto
theorem clearExpiredResetStreams_sk (n : Nat) (s : Streams) : SK sv s (Streams.clearExpiredResetStreams n s) := by
  induction n generalizing s with
  | zero => unfold Streams.clearExpiredResetStreams; exact .refl _
  | succ n ih => unfold Streams.clearExpiredResetStreams; sk_auto_ih ih
theorem clearStreamWindowUpdateQueue_sk (n : Nat) (s : Streams) : SK sv s (Streams.clearStreamWindowUpdateQueue n s) := by
  induction n generalizing s with
  | zero => unfold Streams.clearStreamWindowUpdateQueue; exact .refl _
  | succ n ih => unfold Streams.clearStreamWindowUpdateQueue; sk_auto_ih ih
theorem clearAllResetStreams_sk (n : Nat) (s : Streams) : SK sv s (Streams.clearAllResetStreams n s) := by
  induction n generalizing s with
  | zero => unfold Streams.clearAllResetStreams; exact .refl _
  | succ n ih => unfold Streams.clearAllResetStreams; sk_auto_ih ih
theorem clearAllPendingAccept_sk (n : Nat) (s : Streams) : SK sv s (Streams.clearAllPendingAccept n s) := by
  induction n generalizing s with
  | zero => unfold Streams.clearAllPendingAccept; exact .refl _
  | succ n ih => unfold Streams.clearAllPendingAccept; sk_auto_ih ih
theorem recvClearQueues_sk (s : Streams) (b : Bool) : SK sv s (s.recvClearQueues b) := by
  unfold Streams.recvClearQueues; sk_auto
theorem clearQueues_sk (s : Streams) (b : Bool) : SK sv s (s.clearQueues b) := by
  unfold Streams.clearQueues; sk_auto

-- ===================================================================== `counts.transition`, `Store::for_each`

theorem transition_sk {α : Type} (s : Streams) (k : Nat) (f : Streams → Streams × α) (hf : ∀ s, SK sv s (f s).1) :
    SK sv s (s.transition k f).1 := by
  have : (s.transition k f).1 = (f s).1.transitionAfter k (s.stream k).isPendingResetExpiration := by
    unfold Streams.transition; rfl
  rw [this]
  exact (hf s).trans (transitionAfter_sk _ _ _)

theorem transition_sk' {α : Type} (s : Streams) (k : Nat) (f : Streams → Streams × α) (hf : SK sv s (f s).1) :
    SK sv s (s.transition k f).1 := by
  have : (s.transition k f).1 = (f s).1.transitionAfter k (s.stream k).isPendingResetExpiration := by
    unfold Streams.transition; rfl
  rw [this]
  exact hf.trans (transitionAfter_sk _ _ _)

theorem tryForEach_sk (f : Streams → Nat → Streams × Option PErr) (hf : ∀ s k, SK sv s (f s k).1) :
    ∀ (fuel i len : Nat) (s : Streams), SK sv s (Streams.tryForEach f fuel i len s).1 := by
  intro fuel
  induction fuel with
  | zero => intro i len s; exact .refl _
  | succ n ih =>
    intro i len s
    unfold Streams.tryForEach
    split
    · split
      · exact panic_sk _ _
      · next id _ =>
        have := hf s id
        split
        · next s' e heq => rw [heq] at this; exact this
        · next s' heq =>
          rw [heq] at this
          dsimp only
          split
          · exact .trans this (ih _ _ _)
          · exact .trans this (ih _ _ _)
    · exact .refl _

theorem storeTryForEach_sk (s : Streams) (f : Streams → Nat → Streams × Option PErr) (hf : ∀ s k, SK sv s (f s k).1) :
    SK sv s (s.storeTryForEach f).1 := tryForEach_sk f hf _ _ _ s

theorem storeForEach_sk (s : Streams) (f : Streams → Nat → Streams) (hf : ∀ s k, SK sv s (f s k)) :
    SK sv s (s.storeForEach f) := storeTryForEach_sk s _ (fun s k => hf s k)

theorem tryForEachAcc_sk (f : Nat → Streams → Nat → Streams × Nat × Option PErr) (hf : ∀ a s k, SK sv s (f a s k).1) :
    ∀ (fuel i len acc : Nat) (s : Streams), SK sv s (Streams.tryForEachAcc f fuel i len acc s).1 := by
  intro fuel
  induction fuel with
  | zero => intro i len acc s; exact .refl _
  | succ n ih =>
    intro i len acc s
    unfold Streams.tryForEachAcc
    split
    · split
      · exact panic_sk _ _
      · next id _ =>
        have := hf acc s id
        split
        · next s' a' e heq => rw [heq] at this; exact this
        · next s' a' heq =>
          rw [heq] at this
          dsimp only
          split
          · exact .trans this (ih _ _ _ _)
          · exact .trans this (ih _ _ _ _)
    · exact .refl _

theorem setConnError_sk (s : Streams) (o : Option PErr) :
    SK sv s { s with actions := { s.actions with connError := o } } := .of_store rfl rfl

theorem errClosure_sk (s : Streams) (k : Nat) (e : PErr) :
    SK sv s (s.transition k fun s => ((s.recvHandleError k e).sendHandleError k, ())).1 :=
  transition_sk s k _ (fun s => (recvHandleError_sk s k e).trans (sendHandleError_sk _ k))

theorem handleError_sk (s : Streams) (err : PErr) : SK sv s (s.handleError err).1 := by
  unfold Streams.handleError
  exact (storeForEach_sk s _ (fun s k => errClosure_sk s k err)).trans (setConnError_sk _ _)

theorem recvGoAwayFrame_sk (s : Streams) (last : Nat) (r : Reason) (d : Bytes) : SK sv s (s.recvGoAwayFrame last r d).1 := by
  unfold Streams.recvGoAwayFrame
  have h0 := sendRecvGoAway_sk (sv := sv) s last
  split
  · next s1 e heq => rw [heq] at h0; exact h0
  · next s1 _ heq =>
    rw [heq] at h0
    refine h0.trans (.trans (storeForEach_sk _ _ (fun s k => ?_)) (setConnError_sk _ _))
    dsimp only
    split
    · exact errClosure_sk _ _ _
    · exact .refl _

theorem recvEof_sk (s : Streams) (b : Bool) : SK sv s (s.recvEof b) := by
  unfold Streams.recvEof
  dsimp only
  generalize hs1 : (if s.actions.connError.isNone = true then _ else s) = s1
  have h1 : SK sv s s1 := by
    rw [← hs1]; split
    · exact setConnError_sk _ _
    · exact .refl _
  have a2 := storeForEach_sk (sv := sv) s1 (fun s id => (s.transition id fun s => ((s.recvRecvEof id).sendHandleError id, ())).1)
    (fun s k => transition_sk s k _ (fun s => (recvRecvEof_sk s k).trans (sendHandleError_sk _ k)))
  exact (h1.trans a2).trans (clearQueues_sk _ _)

-- ===================================================================== settings

theorem sarsWindow_sk (s : Streams) (a : Option Nat) : SK sv s (sarsWindow s a).1 := by
  unfold sarsWindow
  split
  · exact .refl _
  · next val =>
    dsimp only
    have h2 : SK sv s (s.modSend fun sd => { sd with initWindowSz := val }) := modSend_sk _ _ (fun _ => rfl)
    generalize (s.modSend fun sd => { sd with initWindowSz := val }) = s2 at h2 ⊢
    split
    · have h3 := tryForEachAcc_sk (sv := sv) (Streams.decStreamWindow (s.actions.send.initWindowSz - val))
        (fun a t k => decStreamWindow_sk _ a t k) (2 * s2.store.ids.length + 1) 0 s2.store.ids.length 0 s2
      split
      · next s3 _ e heq => rw [heq] at h3; exact h2.trans h3
      · next s3 total heq => rw [heq] at h3; exact h2.trans (h3.trans (assignConnectionCapacity_sk _ _))
    · split
      · refine h2.trans (storeTryForEach_sk _ _ (fun t k => ?_))
        have := sendRecvStreamWindowUpdate_sk (sv := sv) t k (val - s.actions.send.initWindowSz)
        split
        · next s' r heq => rw [heq] at this; exact this
        · next s' _ heq => rw [heq] at this; exact this
      · exact h2

theorem sendApplyRemoteSettings_sk (s : Streams) (a b c : Option Nat) : SK sv s (s.sendApplyRemoteSettings a b c).1 := by
  rw [sars_eq]
  have h1 : SK sv s (match c with
      | some v => s.modSend fun sd => { sd with isExtendedConnectProtocolEnabled := v != 0 }
      | none => s) := by
    split
    · exact modSend_sk _ _ (fun _ => rfl)
    · exact .refl _
  have h2 := h1.trans (sarsWindow_sk _ a)
  generalize sarsWindow _ a = p at h2 ⊢
  obtain ⟨s2, res⟩ := p
  dsimp only at h2 ⊢
  split
  · exact h2
  · dsimp only
    split
    · exact h2.trans (modSend_sk _ _ (fun _ => rfl))
    · exact h2

theorem applyRemoteSettings_sk (s : Streams) (vals : List (Nat × Nat)) (b : Bool) : SK sv s (s.applyRemoteSettings vals b).1 := by
  unfold Streams.applyRemoteSettings
  exact (modCounts_sk _ _).trans (sendApplyRemoteSettings_sk _ _ _ _)

theorem alsDec_sk (dec : Nat) (s : Streams) (k : Nat) : SK sv s (alsDec dec s k).1 := by
  unfold alsDec; sk_auto
theorem alsInc_sk (inc : Nat) (s : Streams) (k : Nat) : SK sv s (alsInc inc s k).1 := by
  unfold alsInc; sk_auto

theorem alsRest_sk (s s1 : Streams) (h1 : SK sv s s1) (a : Option Nat) :
    SK sv s (match a with
      | none => (s1, (.ok () : Except PErr Unit))
      | some target =>
        let oldSz := s1.recv.initWindowSz
        let s := s1.modRecv fun r => { r with initWindowSz := target }
        let (s, res) : Streams × Option PErr :=
          if target < oldSz then s.storeTryForEach (alsDec (oldSz - target))
          else if target > oldSz then s.storeTryForEach (alsInc (target - oldSz))
          else (s, none)
        match res with
        | some e => (s, .error e)
        | none => (s, .ok ())).1 := by
  split
  · exact h1
  · next target =>
    dsimp only
    have h2 : SK sv s (s1.modRecv fun r => { r with initWindowSz := target }) := h1.trans (modRecv_sk _ _)
    generalize (s1.modRecv fun r => { r with initWindowSz := target }) = s2 at h2 ⊢
    have h3 : SK sv s (if target < s1.recv.initWindowSz then s2.storeTryForEach (alsDec (s1.recv.initWindowSz - target))
        else if target > s1.recv.initWindowSz then s2.storeTryForEach (alsInc (target - s1.recv.initWindowSz))
        else (s2, none)).1 := by
      split
      · exact h2.trans (storeTryForEach_sk _ _ (fun t k => alsDec_sk _ t k))
      · split
        · exact h2.trans (storeTryForEach_sk _ _ (fun t k => alsInc_sk _ t k))
        · exact h2
    generalize (if target < s1.recv.initWindowSz then s2.storeTryForEach (alsDec (s1.recv.initWindowSz - target))
        else if target > s1.recv.initWindowSz then s2.storeTryForEach (alsInc (target - s1.recv.initWindowSz))
        else (s2, none)) = p at h3 ⊢
    obtain ⟨s3, res⟩ := p
    dsimp only at h3 ⊢
    split <;> exact h3

theorem applyLocalSettings_sk (s : Streams) (a b : Option Nat) : SK sv s (s.applyLocalSettings a b).1 := by
  rw [als_eq]
  cases b with
  | none => exact alsRest_sk s s (.refl _) a
  | some v => exact alsRest_sk s _ (modRecv_sk _ _) a

theorem applyLocalSettingsFrame_sk (s : Streams) (vals : List (Nat × Nat)) : SK sv s (s.applyLocalSettingsFrame vals).1 := by
  unfold Streams.applyLocalSettingsFrame; exact applyLocalSettings_sk _ _ _

theorem setTargetConnectionWindow_sk (s : Streams) (t : Nat) : SK sv s (s.setTargetConnectionWindow t).1 := by
  unfold Streams.setTargetConnectionWindow; sk_auto

-- ===================================================================== frames and handle calls that do not insert

theorem resetOnRecvStreamErr_sk (s : Streams) (k : Nat) (r : Except PErr Unit) : SK sv s (s.resetOnRecvStreamErr k r).1 := by
  unfold Streams.resetOnRecvStreamErr; sk_auto

theorem actionsSendReset_sk (s : Streams) (k : Nat) (r : Reason) (i : Initiator) : SK sv s (s.actionsSendReset k r i).1 := by
  unfold Streams.actionsSendReset
  refine transition_sk s k _ (fun s => ?_)
  sk_auto

theorem refSendReset_sk (s : Streams) (k : Nat) (r : Reason) : SK sv s (s.refSendReset k r) := by
  unfold Streams.refSendReset
  have := actionsSendReset_sk (sv := sv) s k r .user
  sk_auto

theorem recvData_sk (s : Streams) (id : Nat) (p : Bytes) (eos : Bool) (pad : Option Nat) : SK sv s (s.recvData id p eos pad).1 := by
  unfold Streams.recvData
  dsimp only
  split
  · sk_auto
  · next k _ =>
    refine transition_sk s k _ (fun s => ?_)
    sk_auto

theorem recvReset_sk (s : Streams) (id : Nat) (r : Reason) : SK sv s (s.recvReset id r).1 := by
  unfold Streams.recvReset
  split
  · exact .refl _
  split
  · exact .refl _
  split
  · split <;> exact .refl _
  · next k _ =>
    split
    · exact .refl _
    · refine transition_sk s k _ (fun s => ?_)
      sk_auto

theorem recvWindowUpdate_sk (s : Streams) (id inc : Nat) : SK sv s (s.recvWindowUpdate id inc).1 := by
  unfold Streams.recvWindowUpdate; sk_auto

theorem refSendResponse_sk (s : Streams) (k : Nat) (f : List Hpack.Field) (eos : Bool) : SK sv s (s.refSendResponse k f eos).1 :=
  transition_sk s k _ (fun s => sendHeaders_sk s k eos f)
theorem refSendInformationalHeaders_sk (s : Streams) (k : Nat) (f : List Hpack.Field) (h : Opn sv s k) :
    SK sv s (s.refSendInformationalHeaders k f).1 :=
  transition_sk' s k _ (sendInterimInformationalHeaders_sk s k f h)
theorem refSendData_sk (s : Streams) (k len : Nat) (eos : Bool) : SK sv s (s.refSendData k len eos).1 :=
  transition_sk s k _ (fun s => prioSendData_sk s k len eos)
theorem refSendTrailers_sk (s : Streams) (k : Nat) (f : List Hpack.Field) : SK sv s (s.refSendTrailers k f).1 :=
  transition_sk s k _ (fun s => sendTrailers_sk s k f)

theorem refInc_sk (s : Streams) (k : Nat) : SK sv s (s.refInc k) := by
  unfold Streams.refInc; sk_auto
theorem cloneStreamRef_sk (s : Streams) (k : Nat) : SK sv s (s.cloneStreamRef k) := by
  unfold Streams.cloneStreamRef; sk_auto
theorem recvNextIncoming_sk (s : Streams) : SK sv s s.recvNextIncoming.1 := by
  unfold Streams.recvNextIncoming; sk_auto
theorem nextIncoming_sk (s : Streams) : SK sv s s.nextIncoming.1 := by
  unfold Streams.nextIncoming; sk_auto
theorem recvTakeRequest_sk (s : Streams) (k : Nat) : SK sv s (s.recvTakeRequest k).1 := by
  unfold Streams.recvTakeRequest; sk_auto
theorem recvPollResponse_sk (n : Nat) (s : Streams) (k : Nat) (t : String) : SK sv s (Streams.recvPollResponse n s k t).1 := by
  induction n generalizing s with
  | zero => unfold Streams.recvPollResponse; exact .refl _
  | succ n ih => unfold Streams.recvPollResponse; sk_auto_ih ih
theorem dropPre_sk (s : Streams) (k : Nat) : SK sv s (dropPre s k) := by
  unfold dropPre; sk_auto

end H2V.Lemmas.ConnNoPanicP
