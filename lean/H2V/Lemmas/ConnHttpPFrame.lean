import H2V.Lemmas.ConnHttpPQuiet2
import H2V.Lemmas.ConnHttpPTop
/-
  C13 (ConnHttpP), part 23 — `DynConnection::recv_frame`, every connection state, every frame: the only
  frames that put anything into a receive queue are HEADERS, DATA and PUSH_PROMISE, each at most one
  event that passed the checks of its path.
-/
namespace H2V.Lemmas.ConnHttpP
open H2V H2V.Model H2V.Model.Frame H2V.Model.Hpack H2V.Model.Conn H2V.Model.CodecRead

/-- what `recv_frame` may hand over for the frame `f` (`none` = end of input) -/
def FrameEvent (cfg : Bool × Bool) : Option Frame.Frame → REvent → Prop
  | some (.headers sid eos _ blk), ev => FrameAccepted cfg (Conn.headersIn sid eos blk) ev
  | some (.data _ payload eos _), ev => DataAccepted payload eos ev
  | some (.pushPromise _ promised blk), ev => PromiseAccepted (Conn.headersIn promised false blk) ev
  | _, _ => False

theorem recvFrame_delivers (c : Conn) (f : Option Frame.Frame) :
    Delivers (fun _ ev => FrameEvent (cfgOf c.streams) f ev) c.streams (c.recvFrame f).1.streams := by
  cases f with
  | none =>
    unfold Conn.recvFrame
    exact ((Quiet.refl c.streams).recvEof false).delivers
  | some fr =>
    cases fr with
    | headers sid eos d blk =>
      rw [recvFrame_headers]
      exact recvHeaders_delivers c.streams _
    | data sid payload eos pad =>
      rw [recvFrame_data]
      exact recvData_delivers c.streams sid payload eos pad
    | pushPromise sid promised blk =>
      rw [recvFrame_pushPromise]
      exact recvPushPromise_delivers c.streams sid _
    | reset sid code =>
      unfold Conn.recvFrame
      simp only
      have q := (Quiet.refl c.streams).recvReset sid code
      generalize c.streams.recvReset sid code = r at q ⊢
      obtain ⟨s, res⟩ := r
      cases res <;> exact Quiet.delivers q
    | windowUpdate sid inc =>
      unfold Conn.recvFrame
      simp only
      have q := (Quiet.refl c.streams).recvWindowUpdate sid inc
      generalize c.streams.recvWindowUpdate sid inc = r at q ⊢
      obtain ⟨s, res⟩ := r
      cases res <;> exact Quiet.delivers q
    | settings ack vals => exact (Quiet.refl c.streams).delivers
    | priority sid dep w e => exact (Quiet.refl c.streams).delivers
    | goAway last code debug =>
      unfold Conn.recvFrame
      simp only
      have q := (Quiet.refl c.streams).recvGoAwayFrame last code debug
      generalize c.streams.recvGoAwayFrame last code debug = r at q ⊢
      obtain ⟨s, res⟩ := r
      cases res <;> exact Quiet.delivers q
    | ping ack payload =>
      unfold Conn.recvFrame
      simp only
      generalize c.pingPong.recvPing ack payload = r
      obtain ⟨pp, status, woken, ok⟩ := r
      simp only
      have q1 : Quiet c.streams (if ok = true then ({ c with pingPong := pp, streams := c.streams.wake woken } : Conn)
          else ({ c with pingPong := pp, streams := c.streams.wake woken } : Conn).panic "ping_pong assertion").streams := by
        split
        · exact (Quiet.refl _).wake _
        · exact ((Quiet.refl _).wake _).panic _
      generalize (if ok = true then ({ c with pingPong := pp, streams := c.streams.wake woken } : Conn)
          else ({ c with pingPong := pp, streams := c.streams.wake woken } : Conn).panic "ping_pong assertion") = c1 at q1 ⊢
      split
      · have q2 : Quiet c.streams (if c1.goAway.isGoingAway = true then c1
            else c1.panic "received unexpected shutdown ping").streams := by
          split
          · exact q1
          · exact q1.panic _
        generalize (if c1.goAway.isGoingAway = true then c1 else c1.panic "received unexpected shutdown ping") = c2 at q2 ⊢
        simp only
        refine Quiet.delivers ?_
        unfold Conn.dynGoAway
        simp only
        have q3 : Quiet c.streams (c2.streams.recvGoAway c2.streams.recv.lastProcessedId) := by
          unfold Streams.recvGoAway
          simp only
          quiet
        split
        · exact q3
        · exact q3.panic _
      · exact q1.delivers

end H2V.Lemmas.ConnHttpP
