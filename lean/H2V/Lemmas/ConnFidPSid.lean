import H2V.Lemmas.ConnFidPExact
/-
  ConnFidP, part 27 — the stream id on the frames `pop_frame` hands out.  `popFrame_last2` ties the CONTENT of the frame
  to the queue of an entry `k`; here: the stream id the frame is labelled with (`DataFrame.sid`, `OutFrame.headers sid`,
  `OutFrame.pushPromise sid`) is the id of that same entry `k` — so what was accepted on a stream is emitted under the id
  of that stream and no other.  The proof of `popFrameC_sid` is the proof of `popFrameC_last2` with the stronger
  conclusion; the id is read in the state at the start of `pop_frame` (`IdAt`): ids of entries are fixed (`ES.id`) and a
  key below `next_key` is never handed out again (`El.new`).
-/
set_option linter.unusedSectionVars false
namespace H2V.Lemmas.ConnFidP
open H2V H2V.Model H2V.Model.Conn H2V.Lemmas.ConnWakeP

/-- the entry with key `k` of `s` carries stream id `sid` (`k` being a key `s` has handed out) -/
def IdAt (s : Streams) (k sid : Nat) : Prop := k < s.store.nextKey → ∃ st, s.store.get? k = some st ∧ st.id = sid

/-- an entry found after a run, under a key that had been handed out before the run, was there before, with the same id -/
theorem Run.back {P : Perm} {s0 s : Streams} {g0 g : Ghost} (r : Run P s0 g0 s g) (k : Nat) (b : Stream)
    (hb : s.store.get? k = some b) (hk : k < s0.store.nextKey) : ∃ a, s0.store.get? k = some a ∧ a.id = b.id := by
  have step : ∀ (l : Option Lbl) (s1 s2 : Streams) (b : Stream), El l s1 s2 → s2.store.get? k = some b → k < s1.store.nextKey →
      ∃ a, s1.store.get? k = some a ∧ a.id = b.id := by
    intro l s1 s2 b e hb hk
    cases ha : s1.store.get? k with
    | none => exact absurd (e.new k b ha hb).1 (Nat.not_le.mpr hk)
    | some a =>
      rcases e.keep k a ha with ⟨b', hb', es⟩ | ⟨hn, _⟩
      · rw [hb] at hb'; cases hb'; exact ⟨a, rfl, es.id.symm⟩
      · rw [hb] at hn; cases hn
  have nk : ∀ {s0 s : Streams} {g0 g : Ghost}, Run P s0 g0 s g → s0.store.nextKey ≤ s.store.nextKey := by
    intro s0 s g0 g r
    induction r with
    | refl => exact Nat.le_refl _
    | tau _ e ih => exact Nat.le_trans ih e.nk
    | lbl l _ e _ ih => exact Nat.le_trans ih e.nk
  induction r generalizing b with
  | refl => exact ⟨b, hb, rfl⟩
  | tau r e ih =>
    obtain ⟨a, ha, hid⟩ := step none _ _ b e hb (Nat.lt_of_lt_of_le hk (nk r))
    obtain ⟨a0, ha0, hid0⟩ := ih a ha
    exact ⟨a0, ha0, hid0.trans hid⟩
  | lbl l r e _ ih =>
    obtain ⟨a, ha, hid⟩ := step (some l) _ _ b e hb (Nat.lt_of_lt_of_le hk (nk r))
    obtain ⟨a0, ha0, hid0⟩ := ih a ha
    exact ⟨a0, ha0, hid0.trans hid⟩

theorem idAt_of_run {P : Perm} {s s1 : Streams} {g g1 : Ghost} (r : Run P s g s1 g1) {k : Nat} {F : SFrame} {rest : List SFrame}
    (hq : (s1.stream k).pendingSend = F :: rest) : IdAt s k (s1.stream k).id := by
  intro hk
  cases hs : s1.store.get? k with
  | none =>
    have : (s1.stream k).pendingSend = [] := by unfold Streams.stream; rw [hs]; rfl
    rw [this] at hq; cases hq
  | some b =>
    obtain ⟨a, ha, hid⟩ := r.back k b hs hk
    exact ⟨a, ha, by rw [stream_eq_of_get? hs]; exact hid⟩

/-- `OutLast` with the stream id: the frame handed out is labelled with the id of the entry whose queue it came from -/
def OutSid (s : Streams) (g : Ghost) (m : Nat) (r : Option Streams.OutFrame) : Prop :=
  (∀ len fe fr, r = some (.data len fe fr) → IdAt s fr.key fr.sid ∧
    ∃ E0, g.emi fr.key = E0 ++ [.data (len + fr.rest) fr.eos] ∧ fe = (if fr.rest > 0 then false else fr.eos) ∧ len ≤ m) ∧
  (∀ sid e fl, r = some (.headers sid e fl) → ∃ k E0, IdAt s k sid ∧ g.emi k = E0 ++ [.headers e fl]) ∧
  (∀ sid pid fl, r = some (.pushPromise sid pid fl) → ∃ k pk E0, IdAt s k sid ∧ g.emi k = E0 ++ [.pushPromise pk pid fl])

theorem outSid_none (s : Streams) (g : Ghost) (m : Nat) : OutSid s g m none :=
  ⟨(by intro _ _ _ h; cases h), (by intro _ _ _ h; cases h), (by intro _ _ _ h; cases h)⟩
theorem outSid_reset (s : Streams) (g : Ghost) (m sid : Nat) (r : Reason) : OutSid s g m (some (.reset sid r)) :=
  ⟨(by intro _ _ _ h; cases h), (by intro _ _ _ h; cases h), (by intro _ _ _ h; cases h)⟩

theorem IdAt.back {P : Perm} {s s2 : Streams} {g g2 : Ghost} (r : Run P s g s2 g2) {k sid : Nat} (h : IdAt s2 k sid) :
    IdAt s k sid := by
  intro hk
  have nk : s.store.nextKey ≤ s2.store.nextKey := by
    clear h hk
    induction r with
    | refl => exact Nat.le_refl _
    | tau _ e ih => exact Nat.le_trans ih e.nk
    | lbl l _ e _ ih => exact Nat.le_trans ih e.nk
  obtain ⟨b, hb, hid⟩ := h (Nat.lt_of_lt_of_le hk nk)
  obtain ⟨a, ha, hid'⟩ := r.back k b hb hk
  exact ⟨a, ha, hid'.trans hid⟩

theorem OutSid.back {P : Perm} {s s2 : Streams} {g g2 g' : Ghost} (r : Run P s g s2 g2) {m : Nat} {o : Option Streams.OutFrame}
    (h : OutSid s2 g' m o) : OutSid s g' m o := by
  obtain ⟨h1, h2, h3⟩ := h
  refine ⟨fun len fe fr e => ?_, fun sid e fl e' => ?_, fun sid pid fl e => ?_⟩
  · obtain ⟨a, b⟩ := h1 len fe fr e; exact ⟨a.back r, b⟩
  · obtain ⟨k, E0, a, b⟩ := h2 sid e fl e'; exact ⟨k, E0, a.back r, b⟩
  · obtain ⟨k, pk, E0, a, b⟩ := h3 sid pid fl e; exact ⟨k, pk, E0, a.back r, b⟩

/-- the queued frame `F`, the `OutFrame` it becomes, and the stream id on it -/
def FrameOK3 (F : SFrame) (f : Streams.OutFrame) (sidv : Nat) : Prop :=
  match f with
  | .headers sid e fl => F = .headers e fl ∧ sid = sidv
  | .pushPromise sid pid fl => (∃ pk, F = .pushPromise pk pid fl) ∧ sid = sidv
  | .reset _ r => F = .reset r
  | .data _ _ _ => False

theorem popFrameC_sid (sd : Stream → Nat → Nat → Stream × List String × Bool)
    (hsd : ∀ a len m, ∃ b w f, sd a len m = (b, w, f) ∧ Quiet a b) (n m : Nat) (s : Streams) (g : Ghost) :
    ∃ g', Run permPop s g (popFrameC sd n s m).1 g' ∧ OutSid s g' m (popFrameC sd n s m).2 := by
  have hgone : permPop.gone := trivial
  have hgp : permPost.gone := trivial
  have hcut : CutAll permPop := fun _ => trivial
  induction n generalizing s g with
  | zero => rw [popFrameC_zero]; exact ⟨g, .refl _ _, outSid_none _ _ _⟩
  | succ n ih =>
    rw [popFrameC_succ]
    fid_fold
    have hq0 := qPop_acc (P := permPop) hgone .pendingSend (Tr.refl permPop s)
    split
    · next s1 heq =>
      rw [heq] at hq0
      obtain ⟨g1, r1⟩ := hq0.run g
      exact ⟨g1, r1, outSid_none _ _ _⟩
    · next s1 id heq =>
      rw [heq] at hq0
      obtain ⟨g1, r1⟩ := hq0.run g
      try simp only
      clear heq hq0
      -- continue with the loop from a state reached by permitted steps
      have cont : ∀ s2, Tr permPop s1 s2 →
          ∃ g', Run permPop s g (popFrameC sd n s2 m).1 g' ∧ OutSid s g' m (popFrameC sd n s2 m).2 := by
        intro s2 t
        obtain ⟨g2, r2⟩ := t.run g1
        obtain ⟨g', r', d'⟩ := ih s2 g2
        exact ⟨g', (r1.trans r2).trans r', d'.back (r1.trans r2)⟩
      -- a frame that is not DATA taken off the queue and handed out
      have emit : ∀ (F : SFrame) (rest : List SFrame) (f : Streams.OutFrame) (b : Bool) (s3 : Streams),
          (s1.stream id).pendingSend = F :: rest → Tr permPost (s1.modStream id (setSendF rest)) s3 →
          FrameOK3 F f (s1.stream id).id →
          ∃ g', Run permPop s g (pfFinish id b s3 f).1 g' ∧ OutSid s g' m (pfFinish id b s3 f).2 := by
        intro F rest f b s3 hps t hF
        have rp := pop_run (P := permPop) s1 g1 id F rest hps trivial
        obtain ⟨g3, r3⟩ := (pfFinish_acc (P := permPost) hgp id b f t).run (gstep s1 (.pop id F) g1)
        have hemi := r3.emi_eq (fun h => h)
        have hres : (pfFinish id b s3 f).2 = some f := rfl
        have hid := idAt_of_run r1 hps
        refine ⟨g3, (r1.trans rp).trans (r3.mono permPost_le), ?_, ?_, ?_⟩
        · intro len fe fr h
          rw [hres] at h; cases Option.some.inj h
          exact absurd hF (fun h' => h')
        · intro sid e fl h
          rw [hres] at h; cases Option.some.inj h
          obtain ⟨hF', hs⟩ : F = .headers e fl ∧ sid = (s1.stream id).id := hF
          subst hF'; subst hs
          exact ⟨id, g1.emi id, hid, by rw [hemi]; simp [gstep, isMsg]⟩
        · intro sid pid fl h
          rw [hres] at h; cases Option.some.inj h
          obtain ⟨⟨pk, hF'⟩, hs⟩ : (∃ pk, F = .pushPromise pk pid fl) ∧ sid = (s1.stream id).id := hF
          subst hF'; subst hs
          exact ⟨id, pk, g1.emi id, hid, by rw [hemi]; simp [gstep, isMsg]⟩
      split
      · next sz eos rest hps =>
        -- the arm without discard
        have nodiscard : ∃ g', Run permPop s g
            (if (decide (sz > 0) && (s1.stream id).sendFlow.available.eqUsize 0) = true then popFrameC sd n s1 m
             else if (decide (usizeAsU32 (min (min sz m) (s1.stream id).sendFlow.available.asSize) > 0) &&
                      decide (usizeAsU32 (min (min sz m) (s1.stream id).sendFlow.available.asSize) >
                        (s1.stream id).sendFlow.windowSz)) = true then popFrameC sd n s1 m
             else pfFinish id (s1.stream id).isPendingResetExpiration
                  (pfData sd s1 id (usizeAsU32 (min (min sz m) (s1.stream id).sendFlow.available.asSize)) rest)
                  (.data (usizeAsU32 (min (min sz m) (s1.stream id).sendFlow.available.asSize))
                    (if sz > usizeAsU32 (min (min sz m) (s1.stream id).sendFlow.available.asSize) then false else eos)
                    { key := id, sid := (s1.stream id).id,
                      rest := sz - usizeAsU32 (min (min sz m) (s1.stream id).sendFlow.available.asSize), eos := eos })).1 g' ∧
            OutSid s g' m
            (if (decide (sz > 0) && (s1.stream id).sendFlow.available.eqUsize 0) = true then popFrameC sd n s1 m
             else if (decide (usizeAsU32 (min (min sz m) (s1.stream id).sendFlow.available.asSize) > 0) &&
                      decide (usizeAsU32 (min (min sz m) (s1.stream id).sendFlow.available.asSize) >
                        (s1.stream id).sendFlow.windowSz)) = true then popFrameC sd n s1 m
             else pfFinish id (s1.stream id).isPendingResetExpiration
                  (pfData sd s1 id (usizeAsU32 (min (min sz m) (s1.stream id).sendFlow.available.asSize)) rest)
                  (.data (usizeAsU32 (min (min sz m) (s1.stream id).sendFlow.available.asSize))
                    (if sz > usizeAsU32 (min (min sz m) (s1.stream id).sendFlow.available.asSize) then false else eos)
                    { key := id, sid := (s1.stream id).id,
                      rest := sz - usizeAsU32 (min (min sz m) (s1.stream id).sendFlow.available.asSize), eos := eos })).2 := by
          split
          · exact cont _ (Tr.refl _ _)
          · split
            · exact cont _ (Tr.refl _ _)
            · -- the chunk is cut
              rw [pfData_eq]
              have rp := pop_run (P := permPop) s1 g1 id (.data sz eos) rest hps trivial
              have t3 : Tr permPost (s1.modStream id (setSendF rest))
                  (pfFinish id (s1.stream id).isPendingResetExpiration
                    (pfDataTail sd (s1.modStream id (setSendF rest)) id
                      (usizeAsU32 (min (min sz m) (s1.stream id).sendFlow.available.asSize)))
                    (.data (usizeAsU32 (min (min sz m) (s1.stream id).sendFlow.available.asSize))
                      (if sz > usizeAsU32 (min (min sz m) (s1.stream id).sendFlow.available.asSize) then false else eos)
                      { key := id, sid := (s1.stream id).id,
                        rest := sz - usizeAsU32 (min (min sz m) (s1.stream id).sendFlow.available.asSize), eos := eos })).1 :=
                pfFinish_acc (P := permPost) trivial _ _ _ (pfDataTail_acc sd hsd id _ (Tr.refl _ _))
              obtain ⟨g3, r3⟩ := t3.run (gstep s1 (.pop id (.data sz eos)) g1)
              have hemi := r3.emi_eq (fun h => h)
              have hres : ∀ (b : Bool) (s3 : Streams) (f : Streams.OutFrame), (pfFinish id b s3 f).2 = some f := fun _ _ _ => rfl
              refine ⟨g3, (r1.trans rp).trans (r3.mono permPost_le), ?_, (by rw [hres]; intro _ _ _ h; cases h), (by rw [hres]; intro _ _ _ h; cases h)⟩
              intro len fe fr h
              rw [hres] at h
              cases Option.some.inj h
              have hle : usizeAsU32 (min (min sz m) (s1.stream id).sendFlow.available.asSize) ≤ sz :=
                Nat.le_trans (usizeAsU32_le _) (Nat.le_trans (Nat.min_le_left _ _) (Nat.min_le_left _ _))
              have hlm : usizeAsU32 (min (min sz m) (s1.stream id).sendFlow.available.asSize) ≤ m :=
                Nat.le_trans (usizeAsU32_le _) (Nat.le_trans (Nat.min_le_left _ _) (Nat.min_le_right _ _))
              refine ⟨idAt_of_run r1 hps, g1.emi id, ?_, ?_, hlm⟩
              · rw [hemi]
                simp only [gstep, isMsg, if_true, upd_same]
                congr 3
                omega
              · show (if sz > usizeAsU32 (min (min sz m) (s1.stream id).sendFlow.available.asSize) then false else eos) =
                  (if sz - usizeAsU32 (min (min sz m) (s1.stream id).sendFlow.available.asSize) > 0 then false else eos)
                by_cases hgt : sz > usizeAsU32 (min (min sz m) (s1.stream id).sendFlow.available.asSize)
                · rw [if_pos hgt, if_pos (by omega)]
                · rw [if_neg hgt, if_neg (by omega)]
        cases hgs : (s1.stream id).state.getScheduledReset with
        | none => simp only [Bool.false_eq_true, if_false]; exact nodiscard
        | some r =>
          simp only
          by_cases hd : (r != NO_ERROR) = true
          · simp only [hd, if_true]
            have hcl : ClosedAt s1 id := closedAt_of_scheduled hgs
            exact cont _ (qPush_acc hgone _ _ (reclaimAllCapacity_acc hgone _
              (clearQueue_acc id (hcut id) hcl (Tr.refl _ _))))
          · simp only [hd, if_false]; exact nodiscard
      · next heos fields rest hps =>
        exact emit _ rest (.headers (s1.stream id).id heos fields) _ _ hps (Tr.refl _ _) ⟨rfl, rfl⟩
      · next reason rest hps =>
        exact emit _ rest (.reset (s1.stream id).id reason) _ _ hps (Tr.refl _ _) rfl
      · next pk pid fields rest hps =>
        have rp := pop_run (P := permPop) s1 g1 id (.pushPromise pk pid fields) rest hps trivial
        split
        · -- the promised stream is gone: the frame is dropped, the loop goes on
          have t2 : Tr permPop (s1.modStream id (setSendF rest))
              ((if (!((s1.modStream id (setSendF rest)).stream id).pendingSend.isEmpty ||
                    ((s1.modStream id (setSendF rest)).stream id).state.isScheduledReset) = true
                then ((s1.modStream id (setSendF rest)).qPush QName.pendingSend id).1
                else s1.modStream id (setSendF rest)).transitionAfter id (s1.stream id).isPendingResetExpiration) := by
            refine transitionAfter_acc hgone _ _ ?_
            split
            · exact qPush_acc hgone _ _ (Tr.refl _ _)
            · exact Tr.refl _ _
          obtain ⟨g2, r2⟩ := t2.run (gstep s1 (.pop id (.pushPromise pk pid fields)) g1)
          obtain ⟨g', r', d'⟩ := ih _ g2
          exact ⟨g', ((r1.trans rp).trans r2).trans r', d'.back ((r1.trans rp).trans r2)⟩
        · next pushed hfk =>
          refine emit _ rest (.pushPromise (s1.stream id).id pid fields) _ _ hps ?_ ⟨⟨pk, rfl⟩, rfl⟩
          clear ih cont emit rp r1 hps
          have hg := hgp
          fid_grind
      · next hps =>
        split
        · next reason hgs =>
          -- the implicit reset of a scheduled stream: nothing is taken off any queue
          have t2 := pfFinish_acc (P := permPop) hgone id (s1.stream id).isPendingResetExpiration
            (.reset (s1.stream id).id reason)
            (modStreamW_acc id (fun st => st.setReset reason .library) (setReset_quiet _ _ _) (Tr.refl permPop s1))
          obtain ⟨g2, r2⟩ := t2.run g1
          exact ⟨g2, r1.trans r2, outSid_reset _ _ _ _ _⟩
        · exact cont _ (transitionAfter_acc hgone _ _ (Tr.refl _ _))

/-- **`pop_frame` labels what it hands out with the stream id of the entry whose queue it came from** -/
theorem popFrame_sid (n m : Nat) (s : Streams) (g : Ghost) :
    ∃ g', Run permPop s g (Streams.popFrame n s m).1 g' ∧ OutSid s g' m (Streams.popFrame n s m).2 := by
  rw [popFrameC.eq]; exact popFrameC_sid _ sendData_quiet' n m s g

-- ===================================================================== in a history the entry is there

/-- the entry with key `k` of `s` exists and carries stream id `sid` -/
def HasId (s : Streams) (k sid : Nat) : Prop := ∃ st, s.store.get? k = some st ∧ st.id = sid

/-- `OutSid` without the proviso "`k` is a key that was handed out" -/
def OutSidH (s : Streams) (g : Ghost) (m : Nat) (r : Option Streams.OutFrame) : Prop :=
  (∀ len fe fr, r = some (.data len fe fr) → HasId s fr.key fr.sid ∧
    ∃ E0, g.emi fr.key = E0 ++ [.data (len + fr.rest) fr.eos] ∧ fe = (if fr.rest > 0 then false else fr.eos) ∧ len ≤ m) ∧
  (∀ sid e fl, r = some (.headers sid e fl) → ∃ k E0, HasId s k sid ∧ g.emi k = E0 ++ [.headers e fl]) ∧
  (∀ sid pid fl, r = some (.pushPromise sid pid fl) → ∃ k pk E0, HasId s k sid ∧ g.emi k = E0 ++ [.pushPromise pk pid fl])

theorem OutSid.toH {s : Streams} {g : Ghost} {m : Nat} {r : Option Streams.OutFrame} (h : OutSid s g m r)
    (key : ∀ k, g.emi k ≠ [] → k < s.store.nextKey) : OutSidH s g m r := by
  obtain ⟨h1, h2, h3⟩ := h
  refine ⟨fun len fe fr e => ?_, fun sid e fl e' => ?_, fun sid pid fl e => ?_⟩
  · obtain ⟨a, E0, b, c⟩ := h1 len fe fr e
    exact ⟨a (key _ (by rw [b]; simp)), E0, b, c⟩
  · obtain ⟨k, E0, a, b⟩ := h2 sid e fl e'
    exact ⟨k, E0, a (key _ (by rw [b]; simp)), b⟩
  · obtain ⟨k, pk, E0, a, b⟩ := h3 sid pid fl e
    exact ⟨k, pk, E0, a (key _ (by rw [b]; simp)), b⟩

/-- **in a history, `pop_frame` labels what it hands out with the stream id of the entry whose queue it came from**, an
    entry of the state `pop_frame` started in -/
theorem Hist.popFrame_sid {s : Streams} {w : Writer} {g : Ghost} (h : Hist s w g) (hh : held w = none) (n m : Nat) :
    ∃ g', Run permPop s g (Streams.popFrame n s m).1 g' ∧
      (g'.weird = false → OutSidH s g' m (Streams.popFrame n s m).2) := by
  obtain ⟨g', r, o⟩ := ConnFidP.popFrame_sid n m s g
  refine ⟨g', r, fun hw => o.toH (fun k hk => ?_)⟩
  have hw0 := r.weird_mono hw
  obtain ⟨hI, _⟩ := h.inv hw0
  rw [hh] at hI
  have hI' := (r.inv (h := none) (fun h => h) (fun _ => rfl) (Or.inr (fun _ _ _ h => h)) hI hw).1
  have hacc : g'.acc = g.acc := r.acc_same (fun _ _ h => h)
  refine Nat.lt_of_not_le (fun hle => hk ?_)
  obtain ⟨D, hR, _⟩ := hI'.ref k
  rw [hacc, (hI.ghostKey k hle).1] at hR
  have := hR.nil_right
  simp only [List.append_eq_nil_iff] at this
  exact this.1.1

end H2V.Lemmas.ConnFidP
