import H2V.Lemmas.ConnRecvPData
/-
  C03 — part 8: WINDOW_UPDATE emission (`send_connection_window_update`,
  `send_stream_window_updates`) and `set_target_connection_window`.
  A WINDOW_UPDATE carries exactly `available − window` and makes the window equal to `available`.
-/
namespace H2V.Lemmas.ConnRecvP
open H2V H2V.Model H2V.Model.Conn
open H2V.Model.Conn.Streams
open H2V.Lemmas.Comp
attribute [local irreducible] wrapSubU32 wrapSubUsize

/-- `inc_window(unclaimed_capacity())` when `available − window` fits 31 bits: the increment is exactly
    `available − window`, it succeeds, and the window becomes `available` -/
theorem incWindow_unclaimed {f : FlowControl} {incr : Nat} (hw : inI32 f.windowSize.val = true)
    (ha : inI32 f.available.val = true) (hu : f.unclaimedCapacity = some incr)
    (hd : f.available.val - f.windowSize.val ≤ 2147483647) :
    (incr : Int) = f.available.val - f.windowSize.val ∧ 0 < incr ∧
    f.incWindow incr = ({ f with windowSize := ⟨f.available.val⟩ }, .ok ()) := by
  have hs := (unclaimedCapacity_spec' f incr hw ha).1 hu
  have hW := (inI32_iff _).1 hw
  have hA := (inI32_iff _).1 ha
  have hincr : (incr : Int) = f.available.val - f.windowSize.val := by
    rw [hs.2.1]; omega
  have hu32 : u32AsI32 incr = (incr : Int) := u32AsI32_of_lt (by omega)
  refine ⟨hincr, by omega, ?_⟩
  rw [Flow.incWindow_eq, hu32]
  have hsum : f.windowSize.val + (incr : Int) = f.available.val := by omega
  have : inI32 (f.windowSize.val + (incr : Int)) = true ∧
      f.windowSize.val + (incr : Int) ≤ (Generated.Consts.MAX_WINDOW_SIZE : Int) := by
    rw [hsum]
    exact ⟨ha, by simp [Generated.Consts.MAX_WINDOW_SIZE]; omega⟩
  rw [if_pos this, hsum]

/-- `Recv::send_connection_window_update` -/
theorem sendConnectionWindowUpdate_inv {full : Bool} {g : Ghost} {s : Streams} (h : Inv full g s) (w : Writer) :
    Inv full g (s.sendConnectionWindowUpdate w).1 := by
  have hW := h.w0
  have hcons := h.cons
  have hsum := h.sum
  have htHi := h.tHi
  have hA := (inI32_iff _).1 h.aI32
  simp only [cW, cA, cI] at hW hcons hsum hA
  unfold Streams.sendConnectionWindowUpdate
  split
  · next incr hu =>
    split
    · exact h
    · have hinc := incWindow_unclaimed h.wI32 h.aI32 hu (by omega)
      rw [hinc.2.2]
      dsimp only
      refine h.setConn _ rfl h.aI32 h.aI32 hcons ?_ ?_ hsum
      · show 0 ≤ s.recv.flow.available.val
        have := hinc.1; have := hinc.2.1; omega
      · show s.recv.flow.available.val + (s.recv.inFlightData : Int) ≤ _
        omega
  · exact h

theorem not_closed_of_recvStreaming {st : State} (h : st.isRecvStreaming = true) : st.isClosed = false := by
  obtain ⟨inner⟩ := st
  cases inner <;> simp [State.isRecvStreaming, State.isClosed] at h ⊢

/-- the stream part of a WINDOW_UPDATE -/
theorem StreamOK.update {s : Streams} {g : Ghost} {x : Stream} (ok : StreamOK s g x) {incr : Nat}
    (hrs : x.state.isRecvStreaming = true) (hu : x.recvFlow.unclaimedCapacity = some incr)
    (hM : g.hiInit ≤ 2147483647) :
    (incr : Int) = x.recvFlow.available.val - x.recvFlow.windowSize.val ∧
    x.recvFlow.incWindow incr = ({ x.recvFlow with windowSize := ⟨x.recvFlow.available.val⟩ }, .ok ()) ∧
    StreamOK s g { x with recvFlow := { x.recvFlow with windowSize := ⟨x.recvFlow.available.val⟩ } } := by
  have hnc := not_closed_of_recvStreaming hrs
  have hl : x.recvFlow.available.val - x.recvFlow.windowSize.val + (x.inFlightRecvData : Int) ≤ (g.hiInit : Int) ∧
      x.recvFlow.available.val + (x.inFlightRecvData : Int) ≤ (g.hiInit : Int) := by
    rcases ok.live with hc | hl
    · rw [hnc] at hc; cases hc
    · exact hl
  have hinc := incWindow_unclaimed ok.wI32 ok.aI32 hu (by omega)
  refine ⟨hinc.1, hinc.2.2, ok.aI32, ok.aI32, Int.le_refl _, ?_, ok.bud⟩
  right
  show x.recvFlow.available.val - x.recvFlow.available.val + (x.inFlightRecvData : Int) ≤ _ ∧ _
  constructor
  · omega
  · exact hl.2

/-- `Recv::send_stream_window_updates` -/
theorem sendStreamWindowUpdates_inv {full : Bool} {g : Ghost} (n : Nat) {s : Streams} (h : Inv full g s) (w : Writer) :
    Inv full g (sendStreamWindowUpdates n s w).1 := by
  induction n generalizing s w with
  | zero => unfold sendStreamWindowUpdates; exact h
  | succ n ih =>
    unfold sendStreamWindowUpdates
    split
    · exact h
    · cases hq : s.qPop .pendingWindowUpdates with
      | mk s1 o =>
        have h1 : Inv full g s1 := by
          have := h.of_ext (qPop_ext s .pendingWindowUpdates); rw [hq] at this; exact this
        cases o with
        | none => exact h1
        | some id =>
          dsimp only
          refine ih (InvD.of_ext ?_ (transitionAfter_ext _ _ _)) _
          split
          · exact h1
          · next hrs =>
            have hrs' : (s1.stream id).state.isRecvStreaming = true := by simpa using hrs
            split
            · next incr hu =>
              split
              · next fl _ hinc =>
                refine h1.modStream id _ (fun _ => Int.le_refl _) (fun _ => rfl) (fun _ _ => Int.le_refl _) ?_
                intro hf x hx ok
                rw [stream_eq_of_get? hx] at hrs' hu hinc
                have hup := ok.update hrs' hu h1.initMax
                rw [hup.2.1] at hinc
                cases hinc
                exact hup.2.2
              · exact h1.of_ext (panic_ext _ _)
            · exact h1

/-- `Recv::buffer_pending`: the connection's WINDOW_UPDATE, then the streams' -/
theorem recvBufferPending_inv {full : Bool} {g : Ghost} {s : Streams} (h : Inv full g s) (w : Writer) :
    Inv full g (s.recvBufferPending w).1 := by
  unfold Streams.recvBufferPending
  have h1 := sendConnectionWindowUpdate_inv h w
  cases hc : s.sendConnectionWindowUpdate w with
  | mk s1 r =>
    rw [hc] at h1
    obtain ⟨w1, st⟩ := r
    cases st with
    | codecFull => exact h1
    | complete => exact sendStreamWindowUpdates_inv _ h1 w1

-- ===================================================================== set_target_connection_window

/-- the ghost after `set_target_window_size(target)` -/
def Ghost.setTarget (g : Ghost) (target : Nat) : Ghost :=
  { g with target := target, hiTarget := max g.hiTarget target }

/-- `Recv::set_target_connection_window(target)` with a valid size: `available` moves by
    `target − (available + in_flight_data)`, so that `available + in_flight_data = target` again -/
theorem setTargetConnectionWindow_inv {full : Bool} {g : Ghost} {s : Streams} (h : Inv full g s) (target : Nat)
    (ht : target ≤ 2147483647) :
    Inv full (g.setTarget target) (s.setTargetConnectionWindow target).1 ∧
    (s.setTargetConnectionWindow target).2 = .ok () := by
  have hb := h.cI_bound
  have hA := (inI32_iff _).1 h.aI32
  have hw0 := h.w0
  have hwhi := h.wI
  have hhi := h.hiMax
  have hcons := h.cons
  have hsum := h.sum
  have htHi := h.tHi
  simp only [cW, cA, cI] at hb hA hw0 hwhi hcons hsum
  have hI : s.recv.inFlightData ≤ 2147483647 := by omega
  have hu : u32AsI32 s.recv.inFlightData = (s.recv.inFlightData : Int) := u32AsI32_of_lt (by omega)
  unfold Streams.setTargetConnectionWindow
  have hadd : s.recv.flow.available.add s.recv.inFlightData = .ok ⟨(g.target : Int)⟩ := by
    unfold Window.add checkedAdd
    rw [hu]
    have : inI32 (s.recv.flow.available.val + (s.recv.inFlightData : Int)) = true := by
      apply inI32_of_range <;> omega
    simp only [this, if_true]
    rw [hcons]
  rw [hadd]
  dsimp only
  have hcs : (⟨(g.target : Int)⟩ : Window).checkedSize = some g.target := by
    unfold Window.checkedSize
    have : ¬ ((g.target : Int) < 0) := by omega
    simp [this]
  rw [hcs]
  dsimp only
  -- both branches: `available` becomes `available + (target − old target)`
  have key : ∀ (fl : FlowControl), fl.windowSize = s.recv.flow.windowSize →
      fl.available.val = s.recv.flow.available.val + (target : Int) - (g.target : Int) →
      Inv full (g.setTarget target) (s.modRecv fun rc => { rc with flow := fl }) := by
    intro fl hflw hfla
    refine h.setConn' (g.setTarget target) rfl _ rfl ?_ ?_ ?_ ?_ ?_ ?_ ?_ hsum
    · show inI32 fl.windowSize.val = true; rw [hflw]; exact h.wI32
    · show inI32 fl.available.val = true; rw [hfla]; apply inI32_of_range <;> omega
    · show fl.available.val + (s.recv.inFlightData : Int) = (target : Int); rw [hfla]; omega
    · show 0 ≤ fl.windowSize.val; rw [hflw]; exact hw0
    · show fl.windowSize.val + (s.recv.inFlightData : Int) ≤ ((max g.hiTarget target : Nat) : Int)
      rw [hflw]; omega
    · show target ≤ max g.hiTarget target; omega
    · show max g.hiTarget target ≤ 2147483647; omega
  by_cases hgt : target > g.target
  · simp only [hgt, if_true]
    have hu2 : u32AsI32 (target - g.target) = ((target - g.target : Nat) : Int) := u32AsI32_of_lt (by omega)
    have hass : s.recv.flow.assignCapacity (target - g.target) =
        ({ s.recv.flow with available := ⟨s.recv.flow.available.val + ((target - g.target : Nat) : Int)⟩ }, .ok ()) := by
      rw [Flow.assignCapacity_eq, hu2]
      have : inI32 (s.recv.flow.available.val + ((target - g.target : Nat) : Int)) = true := by
        apply inI32_of_range <;> omega
      simp [this]
    rw [hass]
    dsimp only
    have k := key { s.recv.flow with available := ⟨s.recv.flow.available.val + ((target - g.target : Nat) : Int)⟩ } rfl
      (by show s.recv.flow.available.val + ((target - g.target : Nat) : Int) = _; omega)
    constructor
    · split
      · exact k.of_ext (notifyTask_ext _)
      · exact k
    · rfl
  · simp only [hgt, if_false]
    have hu2 : u32AsI32 (g.target - target) = ((g.target - target : Nat) : Int) := u32AsI32_of_lt (by omega)
    have hcl : s.recv.flow.claimCapacity (g.target - target) =
        ({ s.recv.flow with available := ⟨s.recv.flow.available.val - ((g.target - target : Nat) : Int)⟩ }, .ok ()) := by
      rw [Flow.claimCapacity_eq, hu2]
      have : inI32 (s.recv.flow.available.val - ((g.target - target : Nat) : Int)) = true := by
        apply inI32_of_range <;> omega
      simp [this]
    rw [hcl]
    dsimp only
    have k := key { s.recv.flow with available := ⟨s.recv.flow.available.val - ((g.target - target : Nat) : Int)⟩ } rfl
      (by show s.recv.flow.available.val - ((g.target - target : Nat) : Int) = _; omega)
    constructor
    · split
      · exact k.of_ext (notifyTask_ext _)
      · exact k
    · rfl

end H2V.Lemmas.ConnRecvP
