import H2V.Lemmas.ConnFidPHist
/-
  ConnFidP, part 17 — histories are closed under the API of the stream layer: every function that
  `Conn` (connection.rs) and the handles call on `Streams` maps a history to a history (`ApiStep.hist`),
  `Streams::poll_complete` included (ConnFidPPoll.lean).  The calls that accept a message frame
  (`send_request`, `send_data`, `send_trailers`, `send_response`, `send_informational`) are histories
  because a closed stream refuses them (`*_closed`): a frame is never accepted after the queue was cut.
  `send_push_promise`: ConnFidPPush.lean; `recv_headers` of any header list, incl. the over-long one a server answers
  with its own 431: ConnFidPOver.lean.
-/
set_option linter.unusedSectionVars false
namespace H2V.Lemmas.ConnFidP
open H2V H2V.Model H2V.Model.Conn H2V.Lemmas.ConnWakeP

section
variable {P : Perm} {s0 s : Streams} (hg : P.gone)
include hg

omit hg in
theorem sendOpenId_store (s : Streams) : s.sendOpenId.1.store = s.store := by
  unfold Streams.sendOpenId; split <;> rfl

/-- the part of `send_request` after the checks -/
theorem sendRequest_core (b : Bool) (f : List Hpack.Field) (eos : Bool)
    (hA : P.ok (.push s.store.nextKey (.headers eos f))) (h : Tr P s0 s) :
    Tr P s0 (match s.sendOpenId with
      | (s, .error e) => (s, (.error (.user e) : Except ApiErr (Nat × Bool)))
      | (s, .ok id) =>
        let st := Stream.new id s.actions.send.initWindowSz s.recv.initWindowSz
        let st := if b then { st with contentLength := .head } else st
        let s := if s.store.contains id then s.panic "assertion failed: self.ids.insert(id, index).is_none()" else s
        let (store, k) := s.store.insert st
        let s := { s with store := store }
        match s.sendHeaders k eos f with
        | (s, .error e) =>
          ({ s with store := (s.store.unlink id).remove k }, .error (.user e))
        | (s, .ok _) =>
          let s := { s with refs := s.refs + 1 }
          let isFull := s.counts.nextSendStreamWillReachCapacity
          (s.refInc k, .ok (k, isFull))).1 := by
  have h1 := sendOpenId_acc hg h
  have e1 := sendOpenId_store s
  rcases hso : s.sendOpenId with ⟨s1, res⟩
  rw [hso] at h1 e1
  simp only at h1 e1
  cases res with
  | error e => exact h1
  | ok id =>
    simp only
    have e2 : ∀ (t : Streams) (m : String), (t.panic m).store = t.store := by
      intro t m; unfold Streams.panic; split <;> rfl
    generalize hst : (if b = true then
        { Stream.new id s1.actions.send.initWindowSz s1.recv.initWindowSz with contentLength := .head }
        else Stream.new id s1.actions.send.initWindowSz s1.recv.initWindowSz) = st
    generalize hs2 : (if s1.store.contains id = true then
        s1.panic "assertion failed: self.ids.insert(id, index).is_none()" else s1) = s2
    have h2 : Tr P s0 s2 := by subst hs2; split; exact panic_acc _ h1; exact h1
    have e3 : s2.store = s.store := by subst hs2; split; rw [e2, e1]; exact e1
    have hq : st.pendingSend = [] ∧ st.pendingRecv = [] := by subst hst; split <;> exact ⟨rfl, rfl⟩
    have h3 := insert_acc st hq.1 hq.2 h2
    have hk : (s2.store.insert st).2 = s.store.nextKey := by rw [Store.insert_key, e3]
    rw [hk]
    have h4 := sendHeaders_acc hg s.store.nextKey eos f hA h3
    split
    · next s5 e heq => rw [heq] at h4; exact unlinkRemove_acc _ _ hg h4
    · next s5 u heq => rw [heq] at h4; exact refInc_acc hg _ (setRefs_acc _ h4)

/-- `send_request` queues the request head on the entry it creates: key `next_key` -/
theorem sendRequest_acc' (b : Bool) (f : List Hpack.Field) (eos : Bool) (p : Option Nat)
    (hA : P.ok (.push s.store.nextKey (.headers eos f))) (h : Tr P s0 s) : Tr P s0 (s.sendRequest b f eos p).1 := by
  have hc := sendRequest_core hg b f eos hA h
  unfold Streams.sendRequest
  cases p with
  | none =>
    simp only [Bool.false_eq_true, if_false]
    split
    · exact h
    · split
      · exact h
      · split
        · exact h
        · exact hc
  | some p =>
    simp only
    split
    · exact h
    · split
      · exact h
      · split
        · exact h
        · split
          · exact h
          · exact hc

omit hg in
theorem recvRecvHeaders_oversize {s : Streams} {k : Nat} {h : HeadersIn} {b : Bool}
    (hr : (s.recvRecvHeaders k h).2 = .oversize b) : h.isOverSize = true := by
  unfold Streams.recvRecvHeaders at hr
  simp only at hr
  repeat' split at hr
  all_goals first | assumption | (cases hr; done) | (simp at hr; done)

omit hg in
theorem recvRecvHeaders_oversize' {s s' : Streams} {k : Nat} {h : HeadersIn} {b : Bool}
    (hr : s.recvRecvHeaders k h = (s', .oversize b)) : h.isOverSize = true :=
  recvRecvHeaders_oversize (by rw [hr])

/-- `recv_headers` of a header list within the limit: no frame is queued by the library itself -/
theorem recvHeaders_acc' (hd : HeadersIn) (hov : hd.isOverSize = false) (hc : CutAll P) (hA : RpushAll P)
    (h : Tr P s0 s) : Tr P s0 (s.recvHeaders hd).1 := by
  unfold Streams.recvHeaders
  have ho := @recvRecvHeaders_oversize'
  fid_grind
end

-- ===================================================================== a closed stream accepts nothing

theorem closed_not_streaming (x : State) (h : x.isClosed = true) : x.isSendStreaming = false := by
  rcases x with ⟨_|_|_|⟨_|_,_|_⟩|⟨_|_⟩|⟨_|_⟩|_⟩ <;> simp_all [State.isClosed, State.isSendStreaming]
theorem closed_sendClosed (x : State) (h : x.isClosed = true) : x.isSendClosed = true := by
  rcases x with ⟨_|_|_|⟨_|_,_|_⟩|⟨_|_⟩|⟨_|_⟩|_⟩ <;> simp_all [State.isClosed, State.isSendClosed]
theorem closed_sendOpen (x : State) (eos : Bool) (h : x.isClosed = true) :
    x.sendOpen eos = (x, .error .unexpectedFrameType) := by
  rcases x with ⟨_|_|_|⟨_|_,_|_⟩|⟨_|_⟩|⟨_|_⟩|_⟩ <;> simp_all [State.isClosed, State.sendOpen]

theorem prioSendData_closed (s : Streams) (k len : Nat) (eos : Bool) (h : (s.stream k).state.isClosed = true) :
    (s.prioSendData k len eos).1 = s := by
  unfold Streams.prioSendData
  split
  · rfl
  · simp only [closed_not_streaming _ h, Bool.not_false, if_true]
theorem sendTrailers_closed (s : Streams) (k : Nat) (f : List Hpack.Field) (h : (s.stream k).state.isClosed = true) :
    (s.sendTrailers k f).1 = s := by
  unfold Streams.sendTrailers
  split
  · rfl
  · simp only [closed_not_streaming _ h, Bool.not_false, if_true]
theorem sendHeaders_closed (s : Streams) (k : Nat) (eos : Bool) (f : List Hpack.Field)
    (h : (s.stream k).state.isClosed = true) : (s.sendHeaders k eos f).1 = s := by
  unfold Streams.sendHeaders
  split
  · rfl
  · rw [closed_sendOpen _ eos h]
theorem sendInterim_closed (s : Streams) (k : Nat) (f : List Hpack.Field) (h : (s.stream k).state.isClosed = true) :
    (s.sendInterimInformationalHeaders k f).1 = s := by
  unfold Streams.sendInterimInformationalHeaders
  split
  · rfl
  · simp only [closed_sendClosed _ h, Bool.or_true, if_true]

theorem transition_fst {α : Type} (s : Streams) (k : Nat) (f : Streams → Streams × α) :
    (s.transition k f).1 = (f s).1.transitionAfter k (s.stream k).isPendingResetExpiration := by
  unfold Streams.transition
  rcases f s with ⟨s', a⟩
  rfl

/-- what the calls that do not queue message frames may do -/
def permAny : Perm :=
  { cut := fun _ => True, rpush := fun _ _ => True, rpop := fun _ => True, rclear := fun _ => True, gone := True }

theorem permAny_nomsg : ∀ k f, isMsg f = true → ¬permAny.push k f := fun _ _ _ h => h

section
variable {s : Streams} {w : Writer} {g : Ghost}

/-- any function off the write path that queues no message frame keeps the history going -/
theorem Hist.any {s' : Streams} (h : Hist s w g) (t : Tr permAny s s') :
    ∃ g', Hist s' w g' ∧ g'.acc = g.acc ∧ g'.emi = g.emi :=
  h.tr_quiet permAny (fun h => h) (fun h => h) permAny_nomsg t

/-- a call that may queue message frames on entry `k` only — which is not closed (or does not exist) — and
    cuts nothing -/
theorem Hist.accept (P : Perm) (k : Nat) (hw : ¬P.write) (hp : ¬P.pop) (hcut : ∀ j, ¬P.cut j)
    (hpk : ∀ j f, isMsg f = true → P.push j f → j = k) {s' : Streams} (h : Hist s w g)
    (hnc : ∀ a, s.store.get? k = some a → a.state.isClosed = false) (t : Tr P s s') :
    ∃ g', Hist s' w g' ∧ g'.emi = g.emi ∧
      ∀ j, ∃ added, g'.acc j = g.acc j ++ added ∧ ∀ f ∈ added, isMsg f = true ∧ P.push j f := by
  obtain ⟨g', r⟩ := t.run g
  refine ⟨g', .api P h hw hp ?_ r, r.emi_eq hp, fun j => r.acc_grows j⟩
  cases hwd : g.weird with
  | true => exact Or.inl hwd
  | false =>
    refine Or.inr (Or.inl ⟨hcut, fun j f hm hpj hc => ?_⟩)
    have hj := hpk j f hm hpj
    subst hj
    have hI := (h.inv hwd).1
    cases ha : s.store.get? j with
    | none => rfl
    | some a =>
      have := hI.closed j hc a ha
      rw [hnc a ha] at this; cases this

/-- the ghost log after a call that may accept the message frame `F` on entry `k`: nothing is emitted, and the
    accepted logs only grow, by `F` on `k` -/
def AcceptDelta (g g' : Ghost) (ok : Nat → SFrame → Prop) : Prop :=
  g'.emi = g.emi ∧ ∀ j, ∃ added, g'.acc j = g.acc j ++ added ∧ ∀ f ∈ added, ok j f

theorem AcceptDelta.of_same {g g' : Ghost} (ok : Nat → SFrame → Prop) (h1 : g'.acc = g.acc) (h2 : g'.emi = g.emi) :
    AcceptDelta g g' ok := ⟨h2, fun j => ⟨[], by rw [h1]; simp, by simp⟩⟩

theorem closed_cases (s : Streams) (k : Nat) :
    (s.stream k).state.isClosed = true ∨ (∀ a, s.store.get? k = some a → a.state.isClosed = false) := by
  cases hc : (s.stream k).state.isClosed with
  | true => exact Or.inl rfl
  | false =>
    refine Or.inr (fun a ha => ?_)
    rw [stream_eq_of_get? ha] at hc; exact hc

theorem Hist.refSendData (h : Hist s w g) (k len : Nat) (eos : Bool) : ∃ g', Hist (s.refSendData k len eos).1 w g' ∧ AcceptDelta g g' (fun j f => j = k ∧ f = .data len eos) := by
  rcases closed_cases s k with hc | hnc
  · have e : (s.refSendData k len eos).1 = s.transitionAfter k (s.stream k).isPendingResetExpiration := by
      unfold Streams.refSendData; rw [transition_fst, prioSendData_closed s k len eos hc]
    rw [e]
    obtain ⟨g', h', e1, e2⟩ := h.any (transitionAfter_acc (P := permAny) trivial _ _ (Tr.refl _ _))
    exact ⟨g', h', .of_same _ e1 e2⟩
  · obtain ⟨g', h', e1, e2⟩ := h.accept (permSendData k len eos) k (fun h => h) (fun h => h) (fun _ h => h)
      (fun j f _ hp => hp.1) hnc (refSendData_tr s k len eos)
    exact ⟨g', h', e1, fun j => by obtain ⟨ad, a1, a2⟩ := e2 j; exact ⟨ad, a1, fun f hf => (a2 f hf).2⟩⟩

theorem Hist.refSendTrailers (h : Hist s w g) (k : Nat) (f : List Hpack.Field) : ∃ g', Hist (s.refSendTrailers k f).1 w g' ∧ AcceptDelta g g' (fun j g => j = k ∧ g = .headers true f) := by
  rcases closed_cases s k with hc | hnc
  · have e : (s.refSendTrailers k f).1 = s.transitionAfter k (s.stream k).isPendingResetExpiration := by
      unfold Streams.refSendTrailers; rw [transition_fst, sendTrailers_closed s k f hc]
    rw [e]
    obtain ⟨g', h', e1, e2⟩ := h.any (transitionAfter_acc (P := permAny) trivial _ _ (Tr.refl _ _))
    exact ⟨g', h', .of_same _ e1 e2⟩
  · obtain ⟨g', h', e1, e2⟩ := h.accept (permSendHeaders k true f) k (fun h => h) (fun h => h) (fun _ h => h)
      (fun j f _ hp => hp.1) hnc (refSendTrailers_tr s k f)
    exact ⟨g', h', e1, fun j => by obtain ⟨ad, a1, a2⟩ := e2 j; exact ⟨ad, a1, fun f hf => (a2 f hf).2⟩⟩

theorem Hist.refSendResponse (h : Hist s w g) (k : Nat) (f : List Hpack.Field) (eos : Bool) :
    ∃ g', Hist (s.refSendResponse k f eos).1 w g' ∧ AcceptDelta g g' (fun j g => j = k ∧ g = .headers eos f) := by
  rcases closed_cases s k with hc | hnc
  · have e : (s.refSendResponse k f eos).1 = s.transitionAfter k (s.stream k).isPendingResetExpiration := by
      unfold Streams.refSendResponse; rw [transition_fst, sendHeaders_closed s k eos f hc]
    rw [e]
    obtain ⟨g', h', e1, e2⟩ := h.any (transitionAfter_acc (P := permAny) trivial _ _ (Tr.refl _ _))
    exact ⟨g', h', .of_same _ e1 e2⟩
  · obtain ⟨g', h', e1, e2⟩ := h.accept (permSendHeaders k eos f) k (fun h => h) (fun h => h) (fun _ h => h)
      (fun j f _ hp => hp.1) hnc (refSendResponse_tr s k f eos)
    exact ⟨g', h', e1, fun j => by obtain ⟨ad, a1, a2⟩ := e2 j; exact ⟨ad, a1, fun f hf => (a2 f hf).2⟩⟩

theorem Hist.refSendInformationalHeaders (h : Hist s w g) (k : Nat) (f : List Hpack.Field) :
    ∃ g', Hist (s.refSendInformationalHeaders k f).1 w g' ∧ AcceptDelta g g' (fun j g => j = k ∧ g = .headers false f) := by
  rcases closed_cases s k with hc | hnc
  · have e : (s.refSendInformationalHeaders k f).1 = s.transitionAfter k (s.stream k).isPendingResetExpiration := by
      unfold Streams.refSendInformationalHeaders; rw [transition_fst, sendInterim_closed s k f hc]
    rw [e]
    obtain ⟨g', h', e1, e2⟩ := h.any (transitionAfter_acc (P := permAny) trivial _ _ (Tr.refl _ _))
    exact ⟨g', h', .of_same _ e1 e2⟩
  · obtain ⟨g', h', e1, e2⟩ := h.accept (permSendHeaders k false f) k (fun h => h) (fun h => h) (fun _ h => h)
      (fun j f _ hp => hp.1) hnc (refSendInformationalHeaders_tr s k f)
    exact ⟨g', h', e1, fun j => by obtain ⟨ad, a1, a2⟩ := e2 j; exact ⟨ad, a1, fun f hf => (a2 f hf).2⟩⟩

/-- `send_request`: the head is queued on the entry the call creates -/
def permNewRequest (key : Nat) (eos : Bool) (f : List Hpack.Field) : Perm :=
  { push := fun j g => j = key ∧ g = .headers eos f, gone := True }

theorem Hist.sendRequest (h : Hist s w g) (b : Bool) (f : List Hpack.Field) (eos : Bool) (p : Option Nat) :
    ∃ g', Hist (s.sendRequest b f eos p).1 w g' ∧
      AcceptDelta g g' (fun j x => j = s.store.nextKey ∧ x = .headers eos f) := by
  have t : Tr (permNewRequest s.store.nextKey eos f) s (s.sendRequest b f eos p).1 :=
    sendRequest_acc' (P := permNewRequest s.store.nextKey eos f) trivial b f eos p (Or.inl ⟨rfl, rfl⟩) (Tr.refl _ _)
  obtain ⟨g', r⟩ := t.run g
  have hacc : ∀ j, ∃ added, g'.acc j = g.acc j ++ added ∧
      ∀ x ∈ added, j = s.store.nextKey ∧ x = SFrame.headers eos f := by
    intro j
    obtain ⟨ad, a1, a2⟩ := r.acc_grows j
    exact ⟨ad, a1, fun x hx => (a2 x hx).2⟩
  refine ⟨g', .api _ h (fun h => h) (fun h => h) ?_ r, r.emi_eq (fun h => h), hacc⟩
  cases hwd : g.weird with
  | true => exact Or.inl hwd
  | false =>
    refine Or.inr (Or.inl ⟨fun _ h => h, fun j f' _ hpj hc => ?_⟩)
    have hj : j = s.store.nextKey := hpj.1
    subst hj
    have hI := (h.inv hwd).1
    have := (hI.ghostKey s.store.nextKey (Nat.le_refl _)).2.2
    rw [this] at hc; cases hc

end
end H2V.Lemmas.ConnFidP
