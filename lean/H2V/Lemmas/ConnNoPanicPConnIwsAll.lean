import H2V.Lemmas.ConnNoPanicPConnIwsApi
/-
  C08 (no panic) — connection layer, variant `IwsInv`, summary: the constructors, every call of the application
  except `set_initial_window_size`, and the loops, in the form
  `ConnOK c → IwsInv c → ConnOK c' ∧ IwsInv c' ∧ HistWX ConnP' … (c.streams, c.codec.w) (c'.streams, c'.codec.w)`.
-/
namespace H2V.Lemmas.ConnNoPanicP
open H2V H2V.Model H2V.Model.Conn
open H2V.Lemmas.ConnResetP (Op run)
open H2V.Lemmas.ConnCtlP (GoAwayInv Keep15 Step15 GaLe gaLast view)
open H2V.Lemmas.ConnRecvP (COp)

/-- the result of a call on a connection satisfying `ConnOK` and `IwsInv`: both again, and a `ConnP'` history -/
structure CStep' (X : String → Prop) (c c' : Conn) : Prop where
  ok : ConnOK c'
  iws : IwsInv c'
  hist : HistWX ConnP' X c.streams c.codec.w c'.streams c'.codec.w

theorem CStep'.histS {X : String → Prop} {c c' : Conn} (h : CStep' X c c') : HistX ConnP' X c.streams c'.streams := h.hist.hist
/-- forgetting the extra guarantee -/
theorem CStep'.weaken {X : String → Prop} {c c' : Conn} (h : CStep' X c c') : CStep X c c' := ⟨h.ok, h.hist.weaken'⟩

theorem cstep'_of_cs {X : String → Prop} {c c' : Conn} (h : Iws.CS X c c') (hc : ConnOK c) (hi : IwsInv c) : CStep' X c c' :=
  ⟨(h.ok (.of hc hi)).toOK, (h.ok (.of hc hi)).iws, h.hist⟩
theorem cstep'_of_cstep {X : String → Prop} {c c' : Conn} (h : Iws.CStep X c c') : CStep' X c c' :=
  ⟨h.ok.toOK, h.ok.iws, h.hist⟩

-- ===================================================================== the steps of `Connection::poll`

/-- `recv_settings`: the peer's ACK applies exactly the values that were in flight -/
theorem recvSettings_cs' {X : String → Prop} {c : Conn} (hc : ConnOK c) (hi : IwsInv c) (ack : Bool) (vals : List (Nat × Nat))
    (hrem : ack = false → c.settings.remote = none) (hv : ack = false → ConnFlowP.SettingsOk vals) :
    CStep' X c (c.recvSettings ack vals).1 :=
  cstep'_of_cs (Iws.recvSettings_cs hc.ga hi ack vals hrem hv) hc hi

theorem recvFrame_cs' {X : String → Prop} {c : Conn} (hc : ConnOK c) (hi : IwsInv c) (hcn : c.goAway.closeNow = false)
    (href : c.streams.recv.refused = none) (hpp : c.pingPong.pendingPong = none) (f : Option Frame.Frame)
    (hf : ∀ g, f = some g → WireOK g) : CStep' X c (c.recvFrame f).1 :=
  cstep'_of_cs (Iws.recvFrame_cs (.of hc hi) hcn href hpp f hf) hc hi

theorem pollReady_cs' {X : String → Prop} {c : Conn} (hc : ConnOK c) (hi : IwsInv c) : CStep' X c c.pollReady.1 :=
  cstep'_of_cs (Iws.pollReady_cs hc.ga hc.rd.rem).1 hc hi

theorem handlePoll2Result_cs' {X : String → Prop} {c : Conn} (hc : ConnOK c) (hi : IwsInv c) (res : Except PErr Unit) :
    CStep' X c (c.handlePoll2Result res).1 := cstep'_of_cs (Iws.handlePoll2Result_cs hc.ga res) hc hi

theorem poll2Loop_cs' (fuel : Nat) {c : Conn} (hc : ConnOK c) (hi : IwsInv c) : CStep' FuelMsg c (Conn.poll2Loop fuel c).1 :=
  cstep'_of_cs (Iws.poll2Loop_cs fuel (.of hc hi)) hc hi
theorem poll2_cs' (fuel : Nat) {c : Conn} (hc : ConnOK c) (hi : IwsInv c) : CStep' FuelMsg c (Conn.poll2 fuel c).1 :=
  cstep'_of_cs (Iws.poll2_cs fuel (.of hc hi)) hc hi
theorem protoPoll_cs' (fuel : Nat) {c : Conn} (hc : ConnOK c) (hi : IwsInv c) : CStep' FuelMsg c (Conn.protoPoll fuel c).1 :=
  cstep'_of_cs (Iws.protoPoll_cs fuel (.of hc hi)) hc hi
theorem clientPoll_cs' (fuel : Nat) {c : Conn} (hc : ConnOK c) (hi : IwsInv c) : CStep' FuelMsg c (Conn.clientPoll fuel c).1 :=
  cstep'_of_cs (Iws.clientPoll_cs fuel (.of hc hi)) hc hi

/-- **every call of the application on a connection except `set_initial_window_size`** (which puts an
    INITIAL_WINDOW_SIZE in flight) keeps `ConnOK` and `IwsInv`, by a `ConnP'` history -/
theorem cop_step' {c : Conn} (hc : ConnOK c) (hi : IwsInv c) (op : COp) (hop : ∀ o, op ≠ .handle o)
    (hs : ∀ n, op ≠ .setInitialWindowSize n) (hv : ∀ size, op = .setTargetWindowSize size → size ≤ 2147483647) :
    CStep' FuelMsg c (op.apply c) := by
  cases op with
  | protoPoll fuel => exact protoPoll_cs' fuel hc hi
  | clientPoll fuel => exact clientPoll_cs' fuel hc hi
  | setTargetWindowSize size => exact cstep'_of_cs (Iws.setTargetWindowSize_cs hc.ga size (hv size rfl)) hc hi
  | setInitialWindowSize size => exact absurd rfl (hs size)
  | goAwayGracefully => exact cstep'_of_cstep (Iws.goAwayGracefully_step (.of hc hi))
  | goAwayFromUser e => exact cstep'_of_cs (Iws.goAwayFromUser_cs hc.ga e) hc hi
  | goAwayNow e => exact cstep'_of_cs (Iws.goAwayNow_cs hc.ga e) hc hi
  | userSendPing => exact cstep'_of_cs (Iws.userSendPing_cs hc.ga) hc hi
  | userPollPong t => exact cstep'_of_cs (Iws.userPollPong_cs hc.ga t) hc hi
  | dropUserPingsRx => exact cstep'_of_cs (Iws.dropUserPingsRx_cs hc.ga) hc hi
  | takeUserPings => exact cstep'_of_cs (Iws.takeUserPings_cs hc.ga) hc hi
  | handle o => exact absurd rfl (hop o)

-- ===================================================================== the constructors

theorem getS4_cfg (g : Conn.Cfg) : ConnCtlP.getS g.settings 4 = g.iws := by
  unfold ConnCtlP.getS Conn.Cfg.settings
  cases g.hts <;> cases g.push <;> cases g.mcs <;> cases g.iws <;> cases g.mfs <;> cases g.mhl <;> simp

theorem getS4_cfg_server (g : Conn.Cfg) (ecp : Bool) :
    ConnCtlP.getS ((({ g with push := none } : Conn.Cfg).settings) ++ (if ecp then [(8, 1)] else [])) 4 = g.iws := by
  unfold ConnCtlP.getS Conn.Cfg.settings
  cases g.hts <;> cases g.mcs <;> cases g.iws <;> cases g.mfs <;> cases g.mhl <;> cases ecp <;> simp

theorem iwsInv_of_new {c : Conn} {v : List (Nat × Nat)} (hl : c.settings.loc = .waitingAck v) (hv : ConnCtlP.getS v 4 = none) :
    IwsInv c := by
  intro v' hv'
  have : v' = v := by
    rcases hv' with h | h <;> rw [hl] at h
    · cases h
    · injection h with h; exact h.symm
  subst this
  exact hv

/-- a new client connection whose builder sets no `initial_window_size` (`Cfg.iws`, the field that feeds SETTINGS
    identifier 4) has no INITIAL_WINDOW_SIZE in flight -/
theorem init_iws (g : Conn.Cfg) (hg : g.iws = none) : IwsInv (Conn.init g) :=
  iwsInv_of_new (v := g.settings) (by unfold Conn.init; cases g.cws <;> rfl) (by rw [getS4_cfg, hg])

theorem initServer_iws (g : Conn.Cfg) (ecp : Bool) (pf : Bytes) (hg : g.iws = none) : IwsInv (Conn.initServer g ecp pf) :=
  iwsInv_of_new (v := (({ g with push := none } : Conn.Cfg).settings) ++ (if ecp then [(8, 1)] else []))
    (by unfold Conn.initServer; cases g.cws <;> rfl) (by rw [getS4_cfg_server, hg])

theorem init_ok' (g : Conn.Cfg) (hg : CfgOK g) (hi : g.iws = none) : ConnOK (Conn.init g) ∧ IwsInv (Conn.init g) :=
  ⟨init_ok g hg, init_iws g hi⟩
theorem initServer_ok' (g : Conn.Cfg) (ecp : Bool) (pf : Bytes) (hg : CfgOK g) (hi : g.iws = none) :
    ConnOK (Conn.initServer g ecp pf) ∧ IwsInv (Conn.initServer g ecp pf) :=
  ⟨initServer_ok g ecp pf hg, initServer_iws g ecp pf hi⟩

/-- the constructors never call `apply_local_settings` -/
theorem init_hist' (g : Conn.Cfg) (hg : CwsOK g) :
    HistW ConnP' (clientStreams0 g) {} (Conn.init g).streams (Conn.init g).codec.w := by
  unfold Conn.init
  dsimp only
  have h1 : HistW ConnP' (clientStreams0 g) {} (clientStreams0 g)
      (({} : Writer).bufferSimple (6 * (Frame.settingsOrder g.settings).length) (Conn.renderSettings false g.settings)) :=
    .w1 (.bufferSimple _ _ _) rfl
  have h2 := h1.trans (.op1 (s' := (clientStreams0 g).cloneHandle) .cloneHandle trivial rfl rfl rfl)
  cases hc : g.cws with
  | none => exact h2
  | some sz => exact h2.trans (.op1 (.setTargetConnectionWindow sz) (hg sz hc) rfl rfl rfl)

theorem initServer_hist' (g : Conn.Cfg) (ecp : Bool) (pf : Bytes) (hg : CwsOK g) :
    HistW ConnP' (serverStreams0 g ecp) {} (Conn.initServer g ecp pf).streams (Conn.initServer g ecp pf).codec.w := by
  unfold Conn.initServer
  dsimp only
  generalize hset : (({ g with push := none } : Conn.Cfg).settings ++ if ecp = true then [(8, 1)] else []) = settings
  have h1 : HistW ConnP' (serverStreams0 g ecp) {} (serverStreams0 g ecp)
      (({} : Writer).bufferSimple (6 * (Frame.settingsOrder settings).length) (Conn.renderSettings false settings)) :=
    .w1 (.bufferSimple _ _ _) rfl
  have h2 := h1.trans (.w1 (.flush _ { rd := pf } WAKER_CONN) rfl)
  cases hc : g.cws with
  | none => exact h2
  | some sz => exact h2.trans (.op1 (.setTargetConnectionWindow sz) (hg sz hc) rfl rfl rfl)

end H2V.Lemmas.ConnNoPanicP
