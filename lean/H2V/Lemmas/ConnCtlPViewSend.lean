import H2V.Lemmas.ConnCtlPView
/-
  ConnCtlP, view lemmas part 1 — frame lemmas `view (f s …) = view s` for the rest of ConnStore.lean
  (`incNumSendStreams`, `incNumRecvStreams`, `decNumStreams`, `transitionAfter`) and for all of
  ConnSend.lean (prioritize.rs / send.rs).  The only functions of ConnSend.lean that write a view
  field are `sendRecvGoAway` (`smax`) and `sendApplyRemoteSettings` (`sInitWin`, `sPush`).
-/
set_option autoImplicit false
set_option linter.unusedSimpArgs false
namespace H2V.Lemmas.ConnCtlP
open H2V H2V.Model H2V.Model.Conn

-- ===================================================================== helpers

theorem CountsKeep.refl (c : Counts) : CountsKeep c c := ⟨rfl, rfl, rfl⟩

theorem CountsKeep.trans {a b c : Counts} (h1 : CountsKeep a b) (h2 : CountsKeep b c) : CountsKeep a c :=
  ⟨h2.1.trans h1.1, h2.2.1.trans h1.2.1, h2.2.2.trans h1.2.2⟩

/-- replacing `counts` by a value with the same role and limits -/
theorem view_setCounts (s : Streams) (c : Counts) (h : CountsKeep s.counts c) : view { s with counts := c } = view s := by
  obtain ⟨h1, h2, h3⟩ := h
  simp [view, h1, h2, h3]

/-- `view_modCounts` in a form whose side conditions `simp` discharges by itself (projections of a
    structure update) -/
@[simp] theorem view_modCounts' (s : Streams) (f : Counts → Counts) (h1 : (f s.counts).isServer = s.counts.isServer)
    (h2 : (f s.counts).maxSendStreams = s.counts.maxSendStreams)
    (h3 : (f s.counts).maxRecvStreams = s.counts.maxRecvStreams) : view (s.modCounts f) = view s := by
  simp [view, Streams.modCounts, h1, h2, h3]

/-- a `Send` update that keeps `max_stream_id`, `init_window_sz`, `is_push_enabled` -/
@[simp] theorem view_modSend (s : Streams) (f : Send → Send)
    (h1 : (f s.actions.send).maxStreamId = s.actions.send.maxStreamId)
    (h2 : (f s.actions.send).initWindowSz = s.actions.send.initWindowSz)
    (h3 : (f s.actions.send).isPushEnabled = s.actions.send.isPushEnabled) : view (s.modSend f) = view s := by
  simp [view, Streams.modSend, h1, h2, h3]

/-- a `Recv` update that keeps `last_processed_id`, `max_stream_id`, `init_window_sz`, `is_push_enabled` -/
@[simp] theorem view_modRecv (s : Streams) (f : Recv → Recv)
    (h1 : (f s.actions.recv).lastProcessedId = s.actions.recv.lastProcessedId)
    (h2 : (f s.actions.recv).maxStreamId = s.actions.recv.maxStreamId)
    (h3 : (f s.actions.recv).initWindowSz = s.actions.recv.initWindowSz)
    (h4 : (f s.actions.recv).isPushEnabled = s.actions.recv.isPushEnabled) : view (s.modRecv f) = view s := by
  simp [view, Streams.modRecv, h1, h2, h3, h4]

@[simp] theorem view_ite (c : Prop) [Decidable c] (a b : Streams) :
    view (if c then a else b) = if c then view a else view b := by split <;> rfl

/-- close a frame goal: `simp` with the frame lemmas proved so far, splitting `if`/`match` as needed.
    After a split on a tuple-valued call `h : s.foo a = (s1, r)` the fact `view s = view s1` (what the
    frame lemma of `foo` says) is added to the context, where `simp [*]` finds it. -/
syntax "view_auto" : tactic
macro_rules
  | `(tactic| view_auto) => `(tactic| first
      | (simp [*]; done)
      | (split <;>
          (try (rename_i h; have hv := congrArg (fun p => view (Prod.fst p)) h; try simp [*, -h] at hv)) <;>
          view_auto)
      | (dsimp only; view_auto))

@[simp] theorem view_setTask (s : Streams) (t : Option String) :
    view { s with actions := { s.actions with task := t } } = view s := rfl

@[simp] theorem view_storeLeak (s : Streams) (st : Store) (n : Nat) :
    view { s with store := st, recvBufferLeaked := n } = view s := rfl

theorem decNumResetStreams_keep (c c' : Counts) (h : c.decNumResetStreams = some c') : CountsKeep c c' := by
  unfold Counts.decNumResetStreams at h
  split at h
  · cases h; exact ⟨rfl, rfl, rfl⟩
  · cases h

theorem incNumResetStreams_keep (c c' : Counts) (h : c.incNumResetStreams = some c') : CountsKeep c c' := by
  unfold Counts.incNumResetStreams at h
  split at h
  · cases h; exact ⟨rfl, rfl, rfl⟩
  · cases h

theorem incNumLocalErrorResets_keep (c c' : Counts) (h : c.incNumLocalErrorResets = some c') : CountsKeep c c' := by
  unfold Counts.incNumLocalErrorResets at h
  split at h
  · cases h; exact ⟨rfl, rfl, rfl⟩
  · cases h

theorem incNumRemoteResetStreams_keep (c c' : Counts) (h : c.incNumRemoteResetStreams = some c') : CountsKeep c c' := by
  unfold Counts.incNumRemoteResetStreams at h
  split at h
  · cases h; exact ⟨rfl, rfl, rfl⟩
  · cases h

theorem decNumRemoteResetStreams_keep (c c' : Counts) (h : c.decNumRemoteResetStreams = some c') : CountsKeep c c' := by
  unfold Counts.decNumRemoteResetStreams at h
  split at h
  · cases h; exact ⟨rfl, rfl, rfl⟩
  · cases h

@[simp] theorem view_decNumResetStreams (s : Streams) (w : String) :
    view (s.modCountsA w Counts.decNumResetStreams) = view s := view_modCountsA s w _ decNumResetStreams_keep
@[simp] theorem view_incNumResetStreams (s : Streams) (w : String) :
    view (s.modCountsA w Counts.incNumResetStreams) = view s := view_modCountsA s w _ incNumResetStreams_keep
@[simp] theorem view_incNumLocalErrorResets (s : Streams) (w : String) :
    view (s.modCountsA w Counts.incNumLocalErrorResets) = view s := view_modCountsA s w _ incNumLocalErrorResets_keep
@[simp] theorem view_incNumRemoteResetStreams (s : Streams) (w : String) :
    view (s.modCountsA w Counts.incNumRemoteResetStreams) = view s := view_modCountsA s w _ incNumRemoteResetStreams_keep
@[simp] theorem view_decNumRemoteResetStreams (s : Streams) (w : String) :
    view (s.modCountsA w Counts.decNumRemoteResetStreams) = view s := view_modCountsA s w _ decNumRemoteResetStreams_keep

-- ===================================================================== ConnStore.lean, the rest

@[simp] theorem view_incNumSendStreams (s : Streams) (id : Nat) : view (s.incNumSendStreams id) = view s := by
  unfold Streams.incNumSendStreams
  view_auto

@[simp] theorem view_incNumRecvStreams (s : Streams) (id : Nat) : view (s.incNumRecvStreams id) = view s := by
  unfold Streams.incNumRecvStreams
  view_auto

@[simp] theorem view_decNumStreams (s : Streams) (id : Nat) : view (s.decNumStreams id) = view s := by
  unfold Streams.decNumStreams
  dsimp only
  view_auto

@[simp] theorem view_transitionAfter (s : Streams) (id : Nat) (b : Bool) : view (s.transitionAfter id b) = view s := by
  unfold Streams.transitionAfter
  dsimp only
  view_auto

-- ===================================================================== prioritize.rs

@[simp] theorem view_scheduleSend (s : Streams) (id : Nat) : view (s.scheduleSend id) = view s := by
  unfold Streams.scheduleSend; view_auto

@[simp] theorem view_queueFrame (s : Streams) (id : Nat) (f : SFrame) : view (s.queueFrame id f) = view s := by
  unfold Streams.queueFrame; view_auto

@[simp] theorem view_queueOpen (s : Streams) (id : Nat) : view (s.queueOpen id) = view s := by
  unfold Streams.queueOpen; view_auto

@[simp] theorem view_tryAssignCapacity (s : Streams) (id : Nat) : view (s.tryAssignCapacity id) = view s := by
  unfold Streams.tryAssignCapacity; dsimp only; view_auto

@[simp] theorem view_assignConnectionCapacityLoop (fuel : Nat) (s : Streams) :
    view (Streams.assignConnectionCapacityLoop fuel s) = view s := by
  induction fuel generalizing s with
  | zero => simp [Streams.assignConnectionCapacityLoop]
  | succ n ih => unfold Streams.assignConnectionCapacityLoop; view_auto

@[simp] theorem view_assignConnectionCapacity (s : Streams) (inc : Nat) : view (s.assignConnectionCapacity inc) = view s := by
  unfold Streams.assignConnectionCapacity; view_auto

@[simp] theorem view_reserveCapacity (s : Streams) (id cap : Nat) : view (s.reserveCapacity id cap) = view s := by
  unfold Streams.reserveCapacity; dsimp only; view_auto

@[simp] theorem view_prioSendData (s : Streams) (id len : Nat) (eos : Bool) : view (s.prioSendData id len eos).1 = view s := by
  unfold Streams.prioSendData; dsimp only; view_auto

@[simp] theorem view_prioRecvStreamWindowUpdate (s : Streams) (id inc : Nat) :
    view (s.prioRecvStreamWindowUpdate id inc).1 = view s := by
  unfold Streams.prioRecvStreamWindowUpdate; dsimp only; view_auto

@[simp] theorem view_recvConnectionWindowUpdate (s : Streams) (inc : Nat) :
    view (s.recvConnectionWindowUpdate inc).1 = view s := by
  unfold Streams.recvConnectionWindowUpdate; view_auto

@[simp] theorem view_reclaimAllCapacity (s : Streams) (id : Nat) : view (s.reclaimAllCapacity id) = view s := by
  unfold Streams.reclaimAllCapacity; dsimp only; view_auto

@[simp] theorem view_reclaimReservedCapacity (s : Streams) (id : Nat) : view (s.reclaimReservedCapacity id) = view s := by
  unfold Streams.reclaimReservedCapacity; dsimp only; view_auto

@[simp] theorem view_clearPendingCapacity (fuel : Nat) (s : Streams) :
    view (Streams.clearPendingCapacity fuel s) = view s := by
  induction fuel generalizing s with
  | zero => simp [Streams.clearPendingCapacity]
  | succ n ih => unfold Streams.clearPendingCapacity; view_auto

@[simp] theorem view_clearQueue (s : Streams) (id : Nat) : view (s.clearQueue id) = view s := by
  unfold Streams.clearQueue; dsimp only; view_auto

@[simp] theorem view_clearPendingSend (fuel : Nat) (s : Streams) :
    view (Streams.clearPendingSend fuel s) = view s := by
  induction fuel generalizing s with
  | zero => simp [Streams.clearPendingSend]
  | succ n ih => unfold Streams.clearPendingSend; view_auto

@[simp] theorem view_clearPendingOpen (fuel : Nat) (s : Streams) :
    view (Streams.clearPendingOpen fuel s) = view s := by
  induction fuel generalizing s with
  | zero => simp [Streams.clearPendingOpen]
  | succ n ih => unfold Streams.clearPendingOpen; view_auto

end H2V.Lemmas.ConnCtlP
