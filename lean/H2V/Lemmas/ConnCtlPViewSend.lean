import H2V.Lemmas.ConnCtlPView
/-
  ConnCtlP, view lemmas part 1 — frame lemmas `view (f s …) = view s` for the rest of ConnStore.lean
  (`incNumSendStreams`, `incNumRecvStreams`, `decNumStreams`, `transitionAfter`) and for all of
  ConnSend.lean (prioritize.rs / send.rs) except `popFrame`, `prioBufferPendingLoop`, `prioBufferPending`
  (ConnCtlPViewSend2.lean).  The only functions of ConnSend.lean that write a view field are
  `sendRecvGoAway` (`smax`) and `sendApplyRemoteSettings` (`sInitWin`, `sPush`).
-/
set_option autoImplicit false
set_option linter.unusedSimpArgs false
namespace H2V.Lemmas.ConnCtlP
open H2V H2V.Model H2V.Model.Conn

-- ===================================================================== helpers

theorem CountsKeep.refl (c : Counts) : CountsKeep c c := ⟨rfl, rfl, rfl⟩

theorem CountsKeep.trans {a b c : Counts} (h1 : CountsKeep a b) (h2 : CountsKeep b c) : CountsKeep a c :=
  ⟨h2.1.trans h1.1, h2.2.1.trans h1.2.1, h2.2.2.trans h1.2.2⟩

/-- replacing `counts` by a value with the same role and limits -/
theorem view_setCounts (s : Streams) (c : Counts) (h : CountsKeep s.counts c) : view { s with counts := c } = view s := by
  obtain ⟨h1, h2, h3⟩ := h
  simp [view, h1, h2, h3]

/-- `view_modCounts` in a form whose side conditions `simp` discharges by itself (projections of a
    structure update) -/
@[simp] theorem view_modCounts' (s : Streams) (f : Counts → Counts) (h1 : (f s.counts).isServer = s.counts.isServer)
    (h2 : (f s.counts).maxSendStreams = s.counts.maxSendStreams)
    (h3 : (f s.counts).maxRecvStreams = s.counts.maxRecvStreams) : view (s.modCounts f) = view s := by
  simp [view, Streams.modCounts, h1, h2, h3]

/-- a `Send` update that keeps `max_stream_id`, `init_window_sz`, `is_push_enabled` -/
@[simp] theorem view_modSend (s : Streams) (f : Send → Send)
    (h1 : (f s.actions.send).maxStreamId = s.actions.send.maxStreamId)
    (h2 : (f s.actions.send).initWindowSz = s.actions.send.initWindowSz)
    (h3 : (f s.actions.send).isPushEnabled = s.actions.send.isPushEnabled) : view (s.modSend f) = view s := by
  simp [view, Streams.modSend, h1, h2, h3]

/-- a `Recv` update that keeps `last_processed_id`, `max_stream_id`, `init_window_sz`, `is_push_enabled` -/
@[simp] theorem view_modRecv (s : Streams) (f : Recv → Recv)
    (h1 : (f s.actions.recv).lastProcessedId = s.actions.recv.lastProcessedId)
    (h2 : (f s.actions.recv).maxStreamId = s.actions.recv.maxStreamId)
    (h3 : (f s.actions.recv).initWindowSz = s.actions.recv.initWindowSz)
    (h4 : (f s.actions.recv).isPushEnabled = s.actions.recv.isPushEnabled) : view (s.modRecv f) = view s := by
  simp [view, Streams.modRecv, h1, h2, h3, h4]

@[simp] theorem view_ite (c : Prop) [Decidable c] (a b : Streams) :
    view (if c then a else b) = if c then view a else view b := by split <;> rfl

/-- close a frame goal: `simp` with the frame lemmas proved so far, splitting `if`/`match` as needed.
    After a split on a tuple-valued call `h : s.foo a = (s1, r)` the fact `view s = view s1` (what the
    frame lemma of `foo` says) is added to the context, where `simp [*]` finds it. -/
syntax "view_auto" : tactic
macro_rules
  | `(tactic| view_auto) => `(tactic| first
      | (simp [*]; done)
      | (split <;>
          (try (rename_i h; have hv := congrArg (fun p => view (Prod.fst p)) h; try simp [*, -h] at hv)) <;>
          view_auto)
      | (dsimp only; view_auto))

@[simp] theorem view_setTask (s : Streams) (t : Option String) :
    view { s with actions := { s.actions with task := t } } = view s := rfl

@[simp] theorem view_storeLeak (s : Streams) (st : Store) (n : Nat) :
    view { s with store := st, recvBufferLeaked := n } = view s := rfl

theorem decNumResetStreams_keep (c c' : Counts) (h : c.decNumResetStreams = some c') : CountsKeep c c' := by
  unfold Counts.decNumResetStreams at h
  split at h
  · cases h; exact ⟨rfl, rfl, rfl⟩
  · cases h

theorem incNumResetStreams_keep (c c' : Counts) (h : c.incNumResetStreams = some c') : CountsKeep c c' := by
  unfold Counts.incNumResetStreams at h
  split at h
  · cases h; exact ⟨rfl, rfl, rfl⟩
  · cases h

theorem incNumLocalErrorResets_keep (c c' : Counts) (h : c.incNumLocalErrorResets = some c') : CountsKeep c c' := by
  unfold Counts.incNumLocalErrorResets at h
  split at h
  · cases h; exact ⟨rfl, rfl, rfl⟩
  · cases h

theorem incNumRemoteResetStreams_keep (c c' : Counts) (h : c.incNumRemoteResetStreams = some c') : CountsKeep c c' := by
  unfold Counts.incNumRemoteResetStreams at h
  split at h
  · cases h; exact ⟨rfl, rfl, rfl⟩
  · cases h

theorem decNumRemoteResetStreams_keep (c c' : Counts) (h : c.decNumRemoteResetStreams = some c') : CountsKeep c c' := by
  unfold Counts.decNumRemoteResetStreams at h
  split at h
  · cases h; exact ⟨rfl, rfl, rfl⟩
  · cases h

@[simp] theorem view_decNumResetStreams (s : Streams) (w : String) :
    view (s.modCountsA w Counts.decNumResetStreams) = view s := view_modCountsA s w _ decNumResetStreams_keep
@[simp] theorem view_incNumResetStreams (s : Streams) (w : String) :
    view (s.modCountsA w Counts.incNumResetStreams) = view s := view_modCountsA s w _ incNumResetStreams_keep
@[simp] theorem view_incNumLocalErrorResets (s : Streams) (w : String) :
    view (s.modCountsA w Counts.incNumLocalErrorResets) = view s := view_modCountsA s w _ incNumLocalErrorResets_keep
@[simp] theorem view_incNumRemoteResetStreams (s : Streams) (w : String) :
    view (s.modCountsA w Counts.incNumRemoteResetStreams) = view s := view_modCountsA s w _ incNumRemoteResetStreams_keep
@[simp] theorem view_decNumRemoteResetStreams (s : Streams) (w : String) :
    view (s.modCountsA w Counts.decNumRemoteResetStreams) = view s := view_modCountsA s w _ decNumRemoteResetStreams_keep

-- ===================================================================== ConnStore.lean, the rest

@[simp] theorem view_incNumSendStreams (s : Streams) (id : Nat) : view (s.incNumSendStreams id) = view s := by
  unfold Streams.incNumSendStreams
  view_auto

@[simp] theorem view_incNumRecvStreams (s : Streams) (id : Nat) : view (s.incNumRecvStreams id) = view s := by
  unfold Streams.incNumRecvStreams
  view_auto

@[simp] theorem view_decNumStreams (s : Streams) (id : Nat) : view (s.decNumStreams id) = view s := by
  unfold Streams.decNumStreams
  dsimp only
  view_auto

@[simp] theorem view_transitionAfter (s : Streams) (id : Nat) (b : Bool) : view (s.transitionAfter id b) = view s := by
  unfold Streams.transitionAfter
  dsimp only
  view_auto

-- ===================================================================== prioritize.rs

@[simp] theorem view_scheduleSend (s : Streams) (id : Nat) : view (s.scheduleSend id) = view s := by
  unfold Streams.scheduleSend; view_auto

@[simp] theorem view_queueFrame (s : Streams) (id : Nat) (f : SFrame) : view (s.queueFrame id f) = view s := by
  unfold Streams.queueFrame; view_auto

@[simp] theorem view_queueOpen (s : Streams) (id : Nat) : view (s.queueOpen id) = view s := by
  unfold Streams.queueOpen; view_auto

@[simp] theorem view_tryAssignCapacity (s : Streams) (id : Nat) : view (s.tryAssignCapacity id) = view s := by
  unfold Streams.tryAssignCapacity; dsimp only; view_auto

@[simp] theorem view_assignConnectionCapacityLoop (fuel : Nat) (s : Streams) :
    view (Streams.assignConnectionCapacityLoop fuel s) = view s := by
  induction fuel generalizing s with
  | zero => simp [Streams.assignConnectionCapacityLoop]
  | succ n ih => unfold Streams.assignConnectionCapacityLoop; view_auto

@[simp] theorem view_assignConnectionCapacity (s : Streams) (inc : Nat) : view (s.assignConnectionCapacity inc) = view s := by
  unfold Streams.assignConnectionCapacity; view_auto

@[simp] theorem view_reserveCapacity (s : Streams) (id cap : Nat) : view (s.reserveCapacity id cap) = view s := by
  unfold Streams.reserveCapacity; dsimp only; view_auto

@[simp] theorem view_prioSendData (s : Streams) (id len : Nat) (eos : Bool) : view (s.prioSendData id len eos).1 = view s := by
  unfold Streams.prioSendData; dsimp only; view_auto

@[simp] theorem view_prioRecvStreamWindowUpdate (s : Streams) (id inc : Nat) :
    view (s.prioRecvStreamWindowUpdate id inc).1 = view s := by
  unfold Streams.prioRecvStreamWindowUpdate; dsimp only; view_auto

@[simp] theorem view_recvConnectionWindowUpdate (s : Streams) (inc : Nat) :
    view (s.recvConnectionWindowUpdate inc).1 = view s := by
  unfold Streams.recvConnectionWindowUpdate; view_auto

@[simp] theorem view_reclaimAllCapacity (s : Streams) (id : Nat) : view (s.reclaimAllCapacity id) = view s := by
  unfold Streams.reclaimAllCapacity; dsimp only; view_auto

@[simp] theorem view_reclaimReservedCapacity (s : Streams) (id : Nat) : view (s.reclaimReservedCapacity id) = view s := by
  unfold Streams.reclaimReservedCapacity; dsimp only; view_auto

@[simp] theorem view_clearPendingCapacity (fuel : Nat) (s : Streams) :
    view (Streams.clearPendingCapacity fuel s) = view s := by
  induction fuel generalizing s with
  | zero => simp [Streams.clearPendingCapacity]
  | succ n ih => unfold Streams.clearPendingCapacity; view_auto

@[simp] theorem view_clearQueue (s : Streams) (id : Nat) : view (s.clearQueue id) = view s := by
  unfold Streams.clearQueue; dsimp only; view_auto

@[simp] theorem view_clearPendingSend (fuel : Nat) (s : Streams) :
    view (Streams.clearPendingSend fuel s) = view s := by
  induction fuel generalizing s with
  | zero => simp [Streams.clearPendingSend]
  | succ n ih => unfold Streams.clearPendingSend; view_auto

@[simp] theorem view_clearPendingOpen (fuel : Nat) (s : Streams) :
    view (Streams.clearPendingOpen fuel s) = view s := by
  induction fuel generalizing s with
  | zero => simp [Streams.clearPendingOpen]
  | succ n ih => unfold Streams.clearPendingOpen; view_auto

@[simp] theorem view_popPendingOpen (s : Streams) : view s.popPendingOpen.1 = view s := by
  unfold Streams.popPendingOpen; view_auto

@[simp] theorem view_reclaimFrameInner (s : Streams) (f : DataFrame) : view (s.reclaimFrameInner f).1 = view s := by
  unfold Streams.reclaimFrameInner; dsimp only; view_auto

@[simp] theorem view_reclaimFrame (s : Streams) (w : Writer) : view (s.reclaimFrame w).1 = view s := by
  unfold Streams.reclaimFrame; view_auto

@[simp] theorem view_bufferOut (s : Streams) (w : Writer) (f : Streams.OutFrame) : view (s.bufferOut w f).1 = view s := by
  unfold Streams.bufferOut; view_auto

-- ===================================================================== send.rs

@[simp] theorem view_sendOpenId (s : Streams) : view s.sendOpenId.1 = view s := by
  unfold Streams.sendOpenId; view_auto

@[simp] theorem view_sendHeaders (s : Streams) (id : Nat) (eos : Bool) (fields : List Hpack.Field) :
    view (s.sendHeaders id eos fields).1 = view s := by
  unfold Streams.sendHeaders; view_auto

@[simp] theorem view_sendReserveLocal (s : Streams) : view s.sendReserveLocal.1 = view s := by
  unfold Streams.sendReserveLocal; simp

@[simp] theorem view_sendPushPromise (s : Streams) (parent pk pid : Nat) (fields : List Hpack.Field) :
    view (s.sendPushPromise parent pk pid fields).1 = view s := by
  unfold Streams.sendPushPromise; view_auto

@[simp] theorem view_sendInterimInformationalHeaders (s : Streams) (id : Nat) (fields : List Hpack.Field) :
    view (s.sendInterimInformationalHeaders id fields).1 = view s := by
  unfold Streams.sendInterimInformationalHeaders; view_auto

@[simp] theorem view_sendSendReset (s : Streams) (id : Nat) (reason : Reason) (init : Initiator) :
    view (s.sendSendReset id reason init) = view s := by
  unfold Streams.sendSendReset; dsimp only; view_auto

@[simp] theorem view_scheduleImplicitReset (s : Streams) (id : Nat) (reason : Reason) :
    view (s.scheduleImplicitReset id reason) = view s := by
  unfold Streams.scheduleImplicitReset; view_auto

@[simp] theorem view_sendTrailers (s : Streams) (id : Nat) (fields : List Hpack.Field) :
    view (s.sendTrailers id fields).1 = view s := by
  unfold Streams.sendTrailers; view_auto

@[simp] theorem view_pollCapacity (s : Streams) (id : Nat) (tag : String) : view (s.pollCapacity id tag).1 = view s := by
  unfold Streams.pollCapacity; dsimp only; view_auto

@[simp] theorem view_pollReset (s : Streams) (id : Nat) (mode : PollReset) (tag : String) :
    view (s.pollReset id mode tag).1 = view s := by
  unfold Streams.pollReset; view_auto

@[simp] theorem view_sendRecvStreamWindowUpdate (s : Streams) (id sz : Nat) :
    view (s.sendRecvStreamWindowUpdate id sz).1 = view s := by
  unfold Streams.sendRecvStreamWindowUpdate; view_auto

/-- `Send::recv_go_away`: the only writer of `send.max_stream_id` -/
theorem view_sendRecvGoAway_ok (s : Streams) (last : Nat) (u : Unit) (h : (s.sendRecvGoAway last).2 = .ok u) :
    view (s.sendRecvGoAway last).1 = { view s with smax := last } ∧ last ≤ (view s).smax := by
  unfold Streams.sendRecvGoAway at h ⊢
  split at h
  · cases h
  · rename_i hle
    rw [if_neg hle]
    exact ⟨rfl, Nat.le_of_not_gt hle⟩

theorem sendRecvGoAway_error (s : Streams) (last : Nat) (e : PErr) (h : (s.sendRecvGoAway last).2 = .error e) :
    (s.sendRecvGoAway last).1 = s ∧ e = PErr.libraryGoAway PROTOCOL_ERROR := by
  unfold Streams.sendRecvGoAway at h ⊢
  split at h
  · rename_i hgt
    rw [if_pos hgt]
    simp at h
    exact ⟨rfl, h.symm⟩
  · cases h

@[simp] theorem view_sendHandleError (s : Streams) (id : Nat) : view (s.sendHandleError id) = view s := by
  unfold Streams.sendHandleError; view_auto

theorem view_tryForEach (f : Streams → Nat → Streams × Option PErr) (hf : ∀ s id, view (f s id).1 = view s)
    (fuel i len : Nat) (s : Streams) : view (Streams.tryForEach f fuel i len s).1 = view s := by
  induction fuel generalizing i len s with
  | zero => simp [Streams.tryForEach]
  | succ n ih => unfold Streams.tryForEach; view_auto

theorem view_storeTryForEach (s : Streams) (f : Streams → Nat → Streams × Option PErr)
    (hf : ∀ s id, view (f s id).1 = view s) : view (s.storeTryForEach f).1 = view s := by
  unfold Streams.storeTryForEach; exact view_tryForEach f hf _ _ _ _

theorem view_storeForEach (s : Streams) (f : Streams → Nat → Streams)
    (hf : ∀ s id, view (f s id) = view s) : view (s.storeForEach f) = view s := by
  unfold Streams.storeForEach; exact view_storeTryForEach s _ (fun s id => hf s id)

@[simp] theorem view_decStreamWindow (dec acc : Nat) (s : Streams) (id : Nat) :
    view (Streams.decStreamWindow dec acc s id).1 = view s := by
  unfold Streams.decStreamWindow; view_auto

theorem view_tryForEachAcc (f : Nat → Streams → Nat → Streams × Nat × Option PErr)
    (hf : ∀ acc s id, view (f acc s id).1 = view s)
    (fuel i len acc : Nat) (s : Streams) : view (Streams.tryForEachAcc f fuel i len acc s).1 = view s := by
  induction fuel generalizing i len acc s with
  | zero => simp [Streams.tryForEachAcc]
  | succ n ih => unfold Streams.tryForEachAcc; view_auto

@[simp] theorem view_sendClearQueues (s : Streams) : view s.sendClearQueues = view s := by
  unfold Streams.sendClearQueues; simp

@[simp] theorem view_sendMaybeResetNextStreamId (s : Streams) (id : Nat) :
    view (s.sendMaybeResetNextStreamId id) = view s := by
  unfold Streams.sendMaybeResetNextStreamId; view_auto

-- ===================================================================== apply_remote_settings (send part)

/-- what a `Send` update does to the view -/
theorem view_modSend_eq (s : Streams) (f : Send → Send) :
    view (s.modSend f) = { view s with smax := (f s.actions.send).maxStreamId,
                                       sInitWin := (f s.actions.send).initWindowSz,
                                       sPush := (f s.actions.send).isPushEnabled } := rfl

/-- the `initial_window_size` part of `Send::apply_remote_settings` -/
def sarsMid (s : Streams) (initialWindowSize : Option Nat) : Streams × Option PErr :=
  match initialWindowSize with
  | none => (s, none)
  | some val =>
    let oldVal := s.actions.send.initWindowSz
    let s := s.modSend fun sd => { sd with initWindowSz := val }
    if val < oldVal then
      let dec := oldVal - val
      match Streams.tryForEachAcc (Streams.decStreamWindow dec) (2 * s.store.ids.length + 1) 0 s.store.ids.length 0 s with
      | (s, _, some e) => (s, some e)
      | (s, total, none) => (s.assignConnectionCapacity total, none)
    else if val > oldVal then
      let inc := val - oldVal
      s.storeTryForEach fun s id =>
        match s.sendRecvStreamWindowUpdate id inc with
        | (s, .error r) => (s, some (PErr.libraryGoAway r))
        | (s, .ok _) => (s, none)
    else (s, none)

/-- `Send::apply_remote_settings` after the `enable_connect_protocol` part -/
def sarsTail (s0 : Streams) (iws push : Option Nat) : Streams × Except PErr Unit :=
  let (s1, res) : Streams × Option PErr := sarsMid s0 iws
  match res with
  | some e => (s1, .error e)
  | none =>
    let s2 := match push with
      | some v => s1.modSend fun sd => { sd with isPushEnabled := v != 0 }
      | none => s1
    (s2, .ok ())

theorem sendApplyRemoteSettings_eq (s : Streams) (iws push ec : Option Nat) :
    s.sendApplyRemoteSettings iws push ec =
      sarsTail (match ec with
        | some v => s.modSend fun sd => { sd with isExtendedConnectProtocolEnabled := v != 0 }
        | none => s) iws push := by
  unfold Streams.sendApplyRemoteSettings sarsTail sarsMid
  rfl

theorem view_sarsMid (s : Streams) (iws : Option Nat) :
    view (sarsMid s iws).1 = { view s with sInitWin := iws.getD (view s).sInitWin } := by
  unfold sarsMid
  cases iws with
  | none => rfl
  | some val =>
    have h0 : view (s.modSend fun sd => { sd with initWindowSz := val }) = { view s with sInitWin := val } := rfl
    dsimp only
    generalize (s.modSend fun sd => { sd with initWindowSz := val }) = s' at h0 ⊢
    split
    · split
      · rename_i h
        have hv := congrArg (fun p => view (Prod.fst p)) h
        rw [view_tryForEachAcc _ (view_decStreamWindow _)] at hv
        simp only [← hv, h0]; rfl
      · rename_i h
        have hv := congrArg (fun p => view (Prod.fst p)) h
        rw [view_tryForEachAcc _ (view_decStreamWindow _)] at hv
        simp only [view_assignConnectionCapacity, ← hv, h0]; rfl
    · split
      · rw [view_storeTryForEach, h0]; rfl
        intro s id
        view_auto
      · exact h0

theorem view_sarsTail (s0 : Streams) (iws push : Option Nat) :
    view (sarsTail s0 iws push).1 =
      { view s0 with sInitWin := iws.getD (view s0).sInitWin,
                     sPush := match (sarsTail s0 iws push).2 with
                       | .ok _ => (push.map (· != 0)).getD (view s0).sPush
                       | .error _ => (view s0).sPush } := by
  unfold sarsTail
  have hv := view_sarsMid s0 iws
  rcases h : sarsMid s0 iws with ⟨s1, r⟩
  rw [h] at hv
  cases r with
  | some e => exact hv
  | none =>
    cases push with
    | none => exact hv
    | some v =>
      show ({ view s1 with sPush := (v != 0) } : View) = _
      rw [hv]
      rfl

/-- `Send::apply_remote_settings`: `init_window_sz` takes the new value (when the frame has one) even
    when the call fails half-way; `is_push_enabled` is only written at the end -/
theorem view_sendApplyRemoteSettings (s : Streams) (iws push ec : Option Nat) :
    view (s.sendApplyRemoteSettings iws push ec).1 =
      { view s with sInitWin := iws.getD (view s).sInitWin,
                    sPush := match (s.sendApplyRemoteSettings iws push ec).2 with
                      | .ok _ => (push.map (· != 0)).getD (view s).sPush
                      | .error _ => (view s).sPush } := by
  rw [sendApplyRemoteSettings_eq]
  cases ec with
  | none => exact view_sarsTail s iws push
  | some v => exact view_sarsTail (s.modSend fun sd => { sd with isExtendedConnectProtocolEnabled := v != 0 }) iws push

theorem view_sendApplyRemoteSettings_ex (s : Streams) (iws push ec : Option Nat) :
    ∃ iw p, view (s.sendApplyRemoteSettings iws push ec).1 = { view s with sInitWin := iw, sPush := p } ∧
      (∀ u, (s.sendApplyRemoteSettings iws push ec).2 = .ok u →
        iw = iws.getD (view s).sInitWin ∧ p = (push.map (· != 0)).getD (view s).sPush) := by
  refine ⟨_, _, view_sendApplyRemoteSettings s iws push ec, ?_⟩
  intro u hu
  rw [hu]
  exact ⟨rfl, rfl⟩

end H2V.Lemmas.ConnCtlP
