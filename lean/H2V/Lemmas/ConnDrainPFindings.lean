import H2V.Lemmas.ConnDrainPLoop
/-
  ConnDrainP, findings — witnesses evaluated by the kernel (`decide`) on states reached from `Conn.init {}` through
  the model API.

  PO: after a completed poll a stream can still wait in `pending_open` although a concurrency slot is free.
  Script (reproduced on the real code, same digests: `Q:001000`, `N:0,…` after the last poll):
      cn_new client / cn_peer 000006040000000000000300000001 (MAX_CONCURRENT_STREAMS=1) / cn_poll /
      cn_req 1 GET /a - / cn_reqc 1 GET /b - / cn_reqc 1 GET /c - / cn_poll /
      cn_peer 0000080700000000000000000100000000 (GOAWAY last=1 NO_ERROR) / cn_poll /
      cn_peer 00000101050000000188 (response to 1, END_STREAM) / cn_poll
  `recv_go_away` fails the streams waiting in `pending_open` (F13 repair) but leaves them linked there; when the
  slot frees, `pop_pending_open` opens ONE of them, `pop_frame` finds its queue empty, `transition_after` gives
  the slot back inside `pop_frame` — after `pop_pending_open` was evaluated — and `buffer_pending` is complete.
  Benign: every stream left in `pending_open` at that point has already been failed (its handles have been woken
  with the error) and the connection is on its way out (`error.is_some() && !has_streams()` ⇒ `go_away_now`).
-/
namespace H2V.Lemmas.ConnDrainP
open H2V H2V.Model H2V.Model.Conn

/-- a state with one request queued: `send_request` on a fresh client (non-vacuity witness of the drain theorems) -/
def exReq : Streams := ((Conn.init {}).streams.sendRequest false [] true none).1

theorem exReq_pinv : PInv exReq :=
  ⟨(ConnFlowP.Reach.sendRequest _ _ _ _ (.init ⟨rfl, rfl⟩)).safe, (ConnFlowP.Reach.sendRequest _ _ _ _ (.init ⟨rfl, rfl⟩)).reqOk,
   (ConnCountsP.Reach.step (.init (.client {} (by decide))) (.sendRequest _ _ _ _ _)).qok (by decide) _ (by decide),
   (ConnCountsP.Reach.step (.init (.client {} (by decide))) (.sendRequest _ _ _ _ _)).qok (by decide) _ (by decide)⟩

end H2V.Lemmas.ConnDrainP

namespace H2V.Lemmas.ConnDrainP.PO
open H2V H2V.Model H2V.Model.Conn

/-- fresh client, peer SETTINGS with MAX_CONCURRENT_STREAMS = 1 applied -/
def s1 : Streams := ((Conn.init {}).streams.applyRemoteSettings [(3, 1)] true).1
/-- three requests (each through a fresh `SendRequest` clone): A is opened by the next poll, B and C wait in `pending_open` -/
def s2 : Streams := (s1.sendRequest false [] true none).1
def s3 : Streams := (s2.sendRequest false [] true none).1
def s4 : Streams := (s3.sendRequest false [] true none).1
def w0 : Writer := (Conn.init {}).codec.w
def io0 : Tio := (Conn.init {}).codec.io
/-- poll: HEADERS of A written -/
def p5 := Streams.pollComplete 10 s4 w0 io0 "c"
def s5 : Streams := p5.1
/-- GOAWAY(last_stream_id = 1, NO_ERROR) from the peer: B and C are failed, they stay linked in `pending_open` -/
def s6 : Streams := (s5.recvGoAwayFrame 1 NO_ERROR []).1
/-- the response to A (END_STREAM): A is closed, its slot is free again -/
def s7 : Streams := (s6.recvHeaders { sid := 1, eos := true, status := some [50, 48, 48] }).1
/-- poll again -/
def p8 := Streams.pollComplete 10 s7 p5.2.1 p5.2.2.1 "c"
def s8 : Streams := p8.1

theorem step5 : s5.prio.pendingOpen = [1, 2] ∧ s5.counts.numSendStreams = 1 ∧ p5.2.2.2 = .ready := by decide
theorem step7 : s7.prio.pendingOpen = [1, 2] ∧ s7.counts.numSendStreams = 0 ∧ s7.actions.connError.isSome = true := by decide
/-- after the completed poll a stream is still waiting in `pending_open` although a slot is free -/
theorem leftover : p8.2.2.2 = .ready ∧ s8.panicked = none ∧ s8.prio.pendingOpen = [2] ∧
    s8.counts.canIncNumSendStreams = true ∧ s8.prio.pendingSend = [] := by decide

end H2V.Lemmas.ConnDrainP.PO
