import H2V.Lemmas.ConnFlowPReach
import H2V.Lemmas.ConnFlowPPop
/-
  ConnFlowP, part 14 — the send-capacity API (`capacity()`, `poll_capacity`, `reserve_capacity`) and
  the notifications; consequences of `SafeInv` for what the API reports.
-/
namespace H2V.Lemmas.ConnFlowP
open H2V H2V.Model H2V.Model.Conn H2V.Lemmas.Comp

-- ===================================================================== capacity() ≤ what can really be sent

theorem capacity_le_avail (x : Stream) (m : Nat) : x.capacity m ≤ x.sendFlow.available.asSize := by
  unfold Stream.capacity
  exact Nat.le_trans (usizeAsU32_le _) (Nat.le_trans (Nat.sub_le _ _) (Nat.min_le_left _ _))

theorem capacity_le_maxBuffer (x : Stream) (m : Nat) : x.capacity m ≤ m := by
  unfold Stream.capacity
  exact Nat.le_trans (usizeAsU32_le _) (Nat.le_trans (Nat.sub_le _ _) (Nat.min_le_right _ _))

/-- capacity the API reports for a stream: at most its assigned capacity, its send window, the
    connection send window and `max_send_buffer_size` -/
theorem SafeInvG.sendCapacity_le {g : Int} {s : Streams} (h : SafeInvG g s) (k : Nat) :
    s.sendCapacity k ≤ (s.stream k).sendFlow.available.asSize ∧
    s.sendCapacity k ≤ (s.stream k).sendFlow.windowSz ∧
    (s.sendCapacity k : Int) ≤ s.prio.flow.windowSize.val ∧
    s.sendCapacity k ≤ s.prio.maxBufferSize := by
  have h1 := capacity_le_avail (s.stream k) s.prio.maxBufferSize
  have hok := h.stream_ok k
  have h2 := hok.asSize_le
  refine ⟨h1, Nat.le_trans h1 h2, ?_, capacity_le_maxBuffer _ _⟩
  unfold Streams.sendCapacity
  cases hget : s.store.get? k with
  | none =>
    have hb : s.stream k = { key := k, id := 0 } := by unfold Streams.stream; rw [hget]; rfl
    rw [hb] at h1 ⊢
    have : ({ key := k, id := 0 } : Stream).sendFlow.available.asSize = 0 := rfl
    have hA := h.av_le; have hA0 := h.a0; have := h.g0
    omega
  | some st =>
    rw [stream_of_get hget] at h1 ⊢
    have := h.st_le (get?_mem hget).1
    have hA0 := h.a0; have := h.g0
    have := (h.st st (get?_mem hget).1).av0
    rw [asSize_eq] at h1
    omega

/-- total of what `capacity()` reports over all streams -/
def sumCap (m : Nat) : List Stream → Nat
  | [] => 0
  | x :: t => x.capacity m + sumCap m t

theorem sumCap_le_sumAv (m : Nat) : ∀ (l : List Stream), (∀ x ∈ l, 0 ≤ x.sendFlow.available.val) →
    (sumCap m l : Int) ≤ sumAv l
  | [], _ => Int.le_refl _
  | x :: t, h => by
    have h1 := capacity_le_avail x m
    have h0 := h x (List.mem_cons_self ..)
    have := sumCap_le_sumAv m t (fun y hy => h y (List.mem_cons_of_mem _ hy))
    rw [asSize_eq] at h1
    simp only [sumCap, sumAv]
    omega

/-- all the capacity the API reports, added up, fits into the connection window (with what the
    connection still holds unassigned on top) -/
theorem SafeInvG.sumCap_le {g : Int} {s : Streams} (h : SafeInvG g s) :
    (sumCap s.prio.maxBufferSize s.store.slab : Int) + s.prio.flow.available.val ≤ s.prio.flow.windowSize.val := by
  have := sumCap_le_sumAv s.prio.maxBufferSize s.store.slab (fun x hx => (h.st x hx).av0)
  have := h.ledger; have := h.g0
  omega

-- ===================================================================== poll_capacity

/-- the four ways `poll_capacity` can go -/
theorem pollCapacity_cases (s : Streams) (id : Nat) (tag : String) :
    s.pollCapacity id tag = (s, .none) ∨
    s.pollCapacity id tag = (s.modStream id fun st => st.waitSend tag, .pending) ∨
    s.pollCapacity id tag =
      ((s.modStream id fun st => { st with sendCapacityInc := false }).modStream id fun st => st.waitSend tag, .pending) ∨
    (s.pollCapacity id tag = (s.modStream id fun st => { st with sendCapacityInc := false },
        .cap ((s.modStream id fun st => { st with sendCapacityInc := false }).sendCapacity id)) ∧
      (s.modStream id fun st => { st with sendCapacityInc := false }).sendCapacity id ≠ 0) := by
  unfold Streams.pollCapacity
  dsimp only
  split
  · exact Or.inl rfl
  · split
    · exact Or.inr (Or.inl rfl)
    · split
      · exact Or.inr (Or.inr (Or.inl rfl))
      · rename_i hne
        exact Or.inr (Or.inr (Or.inr ⟨rfl, hne⟩))

/-- `poll_capacity` never answers `Ready(Some(Ok(0)))` -/
theorem pollCapacity_ne_zero (s : Streams) (id : Nat) (tag : String) : (s.pollCapacity id tag).2 ≠ .cap 0 := by
  rcases pollCapacity_cases s id tag with h | h | h | ⟨h, hne⟩ <;> rw [h] <;> simp
  exact hne

/-- what `poll_capacity` answers is the (non-zero) capacity of the stream at that moment -/
theorem pollCapacity_cap {s : Streams} {id n : Nat} {tag : String} (h : (s.pollCapacity id tag).2 = .cap n) :
    n = (s.pollCapacity id tag).1.sendCapacity id ∧ 0 < n := by
  rcases pollCapacity_cases s id tag with h' | h' | h' | ⟨h', hne⟩ <;> rw [h'] at h ⊢ <;> simp at h
  subst h
  exact ⟨rfl, Nat.pos_of_ne_zero hne⟩

/-- `Pending` only after the waker is stored in `send_task` (when the stream exists) -/
theorem pollCapacity_pending {s : Streams} {id : Nat} {tag : String} {st : Stream}
    (hget : s.store.get? id = some st) (h : (s.pollCapacity id tag).2 = .pending) :
    ((s.pollCapacity id tag).1.stream id).sendTask = some tag := by
  rcases pollCapacity_cases s id tag with h' | h' | h' | ⟨h', hne⟩ <;> rw [h'] at h ⊢ <;> simp at h
  · show ((s.modStream id fun st => st.waitSend tag).stream id).sendTask = some tag
    rw [stream_modStream_self hget _ rfl]; rfl
  · have hget' : (s.modStream id fun st => { st with sendCapacityInc := false }).store.get? id =
        some { st with sendCapacityInc := false } := by
      unfold Streams.modStream; rw [hget]
      exact get?_set_self hget (get?_mem hget).2
    show (((s.modStream id fun st => { st with sendCapacityInc := false }).modStream id
      fun st => st.waitSend tag).stream id).sendTask = some tag
    rw [stream_modStream_self hget' _ rfl]; rfl

-- ===================================================================== notifications (stream level)

theorem notifySend_wakes (x : Stream) : x.notifySend.1.sendTask = none ∧ (∀ t, x.sendTask = some t → t ∈ x.notifySend.2) := by
  unfold Stream.notifySend
  cases h1 : x.sendTask <;> dsimp only <;> split <;> simp_all

theorem notifySend_inc (x : Stream) : x.notifySend.1.sendCapacityInc = x.sendCapacityInc := by
  unfold Stream.notifySend
  cases x.sendTask <;> dsimp only <;> split <;> rfl

/-- `Stream::assign_capacity`: when what `capacity()` reports grows, the capacity flag is raised and
    the task waiting in `send_task` is woken -/
theorem assignCapacity_notifies (x : Stream) (n m : Nat)
    (hgrow : x.capacity m < ({ x with sendFlow := (x.sendFlow.assignCapacity n).1 } : Stream).capacity m) :
    (x.assignCapacity n m).1.sendCapacityInc = true ∧ (x.assignCapacity n m).1.sendTask = none ∧
    ∀ t, x.sendTask = some t → t ∈ (x.assignCapacity n m).2 := by
  unfold Stream.assignCapacity
  dsimp only
  rw [if_pos hgrow]
  unfold Stream.notifyCapacity
  have := notifySend_wakes { x with sendFlow := (x.sendFlow.assignCapacity n).1, sendCapacityInc := true }
  exact ⟨notifySend_inc _, this.1, this.2⟩

/-- `Stream::set_reset` (reset by us, by the peer through `recv_reset`/`handle_error`): the task
    waiting for capacity is woken — a wait for capacity ends when the stream can no longer send -/
theorem setReset_wakes (x : Stream) (r : Reason) (i : Initiator) :
    (x.setReset r i).1.sendTask = none ∧ ∀ t, x.sendTask = some t → t ∈ (x.setReset r i).2 := by
  unfold Stream.setReset
  dsimp only
  have h1 := notifySend_wakes { x with state := x.state.setReset x.id r i }
  refine ⟨?_, fun t ht => ?_⟩
  · have a := notifyPush_kf ({ x with state := x.state.setReset x.id r i } : Stream).notifySend.1
    unfold Stream.notifyRecv Stream.notifyPush
    split <;> split <;> simp_all
  · exact List.mem_append_left _ (List.mem_append_left _ (h1.2 t ht))

end H2V.Lemmas.ConnFlowP
