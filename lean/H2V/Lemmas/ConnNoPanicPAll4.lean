import H2V.Lemmas.ConnNoPanicPAll3
import H2V.Lemmas.ConnNoPanicPFiStep
import H2V.Lemmas.ConnNoPanicPDsPoll
import H2V.Lemmas.ConnNoPanicPStickyStep
import H2V.Lemmas.ConnNoPanicPConnHist
/-
  C08 (no panic) — everything together (stage 4): the write path.  State = stream layer + the codec's writer (ghost for the
  stream-layer theorem: `poll_complete` runs against the CURRENT writer) + the handles held by the application.
  New invariants: np-fi's `FJ` (⇒ `FI`: pending_open / pending_push ⇒ not counted, queued PUSH_PROMISEs name fresh
  entries), np-ds's `DSW` (buffered_send_data = Σ DATA in pending_send; the DATA frame the writer holds is the one
  `in_flight_data_frame` points to).
-/
namespace H2V.Lemmas.ConnNoPanicP
open H2V H2V.Model H2V.Model.Conn H2V.Lemmas.ConnCountsP
open H2V.Lemmas.ConnResetP (Op run)

/-- the model's own markers: a loop of the MODEL ran out of fuel (the Rust loops have none) -/
def FuelAll (m : String) : Prop :=
  FuelMsg m ∨ m = "model: buffer_pending out of fuel" ∨ m = "model: poll_complete out of fuel"

theorem OutOfFuel.fuelAll {s : Streams} (h : OutOfFuel s) : ∃ m, s.panicked = some m ∧ FuelAll m := by
  rcases h with h | h
  · exact ⟨_, h, .inr (.inl rfl)⟩
  · exact ⟨_, h, .inr (.inr rfl)⟩

/-- the operations of stage 4 that `opPre` (ConnNoPanicPHist) does not list -/
def extraOp : Op → Bool
  | .setTargetConnectionWindow _ => true
  | .refSendPushPromise _ _ _ => true
  | .recvPushPromise _ _ => true
  | .nextIncoming => true
  | .recvTakeRequest _ => true
  | .clearWakes => true
  | .recvPollResponse _ _ _ => true
  | .pollComplete _ _ _ _ => true
  | .pollSendPendingRefusal _ _ _ _ => true
  | .panic _ => true
  | _ => false

/-- in a good state the preconditions of stage 3 give those of ConnNoPanicPHist -/
theorem opPre_of4 {s : Streams} {H : List Nat} {op : Op} (g : Good4 s H) (h : opPre4 s op) (hx : extraOp op = false) :
    opPre s op := by
  cases op
  case recvHeaders hd => exact h
  case recvData id p e pad => exact h
  case recvGoAway l => exact h
  case recvEof b => exact fun _ => g.j.acc
  case sendRequest a b c d => exact g.g3.good.ibs.hfree g.g3.good.npi
  case dropStreamRef k => exact g.g3.noppp.dropPPP k
  all_goals first | exact trivial | cases hx

theorem opKey_sub3 {op : Op} {k : Nat} (h : opKey op = some k) : opKey3 op = some k := by
  cases op <;> first | exact h | cases h

/-- preconditions of stage 4: those of stage 3, the typing of the two `SendResponse`-only calls, `usize` room for the data -/
def opPre5 (s : Streams) (op : Op) : Prop := opPre4 s op ∧ fiPre s op ∧ opLen s op

/-- **`FJ` along every operation outside the write path** -/
theorem FJ_step4 {s : Streams} {H : List Nat} (g : Good4 s H) (hj : FJ s) (op : Op) (hpre : opPre5 s op)
    (hin : ∀ k, opKey3 op = some k → k ∈ H) (he : ErrOK s) (he' : ErrOK (op.apply s))
    (hnw : usesWriter op = false) (hnp : ∀ m, op ≠ .panic m) : FJ (op.apply s) := by
  have hn := g.g3.good.npi
  by_cases hx : extraOp op = false
  · exact FJ_step hn g.g3.good.hok hj op (opPre_of4 g hpre.1 hx) hpre.2.1 (fun k hk => hin k (opKey_sub3 hk)) he he'
  · cases op <;> first | exact absurd rfl hx | skip
    case setTargetConnectionWindow t => exact FJ_setTargetConnectionWindow hj t
    case refSendPushPromise p v f =>
      obtain ⟨x, hx', _⟩ := g.g3.good.hok p (hin p rfl)
      exact FJ_refSendPushPromise hn g.g3.good.ibs hj ⟨x, hx'⟩ hpre.2.1 v f
    case recvPushPromise id hd =>
      have e : (Op.recvPushPromise id hd).apply s = s := recvPushPromise_nopush g.g3.nopush id hd
      rw [e]; exact hj
    case nextIncoming => exact FJ_nextIncoming hj
    case recvTakeRequest k => exact FJ_recvTakeRequest hj k
    case clearWakes => exact FJ_clearWakes hj
    case recvPollResponse f k t => exact FJ_recvPollResponse hj f k t
    case pollComplete f w io t => cases hnw
    case pollSendPendingRefusal f w io t => cases hnw
    case panic m => exact absurd rfl (hnp m)

theorem opNoWriter_of {op : Op} (h : usesWriter op = false) : opNoWriter op := by
  cases op <;> first | exact trivial | cases h

/-- the writer steps of the connection layer hold no new DATA frame -/
theorem WStep.wle {w w' : Writer} (h : WStep w w') : WLE w w' := by
  cases h with
  | bufferSimple n r => exact bufferSimple_wle w n r
  | pollReadyW io t => exact pollReadyW_wle w io t
  | flush io t => exact (flush_wle w io t).1
  | shutdownW io t => exact shutdownW_wle w io t
  | setHpackMax v => exact .of_eq rfl rfl
  | setMaxFrameSize v => exact .of_eq rfl rfl

end H2V.Lemmas.ConnNoPanicP
