import H2V.Lemmas.ConnNoPanicPAll3
import H2V.Lemmas.ConnNoPanicPFiStep
import H2V.Lemmas.ConnNoPanicPDsPoll
import H2V.Lemmas.ConnNoPanicPStickyStep
import H2V.Lemmas.ConnNoPanicPConnHist
import H2V.Lemmas.ConnNoPanicPRespInv
import H2V.Lemmas.ConnNoPanicPFiPoll2
/-
  C08 (no panic) — everything together (stage 4): the write path.  State = stream layer + the codec's writer (ghost for the
  stream-layer theorem: `poll_complete` runs against the CURRENT writer) + the handles held by the application.
  New invariants: np-fi's `FJ` (⇒ `FI`: pending_open / pending_push ⇒ not counted, queued PUSH_PROMISEs name fresh
  entries), np-ds's `DSW` (buffered_send_data = Σ DATA in pending_send; the DATA frame the writer holds is the one
  `in_flight_data_frame` points to).
-/
namespace H2V.Lemmas.ConnNoPanicP
open H2V H2V.Model H2V.Model.Conn H2V.Lemmas.ConnCountsP
open H2V.Lemmas.ConnResetP (Op run)

/-- the model's own markers: a loop of the MODEL ran out of fuel (the Rust loops have none) -/
def FuelAll (m : String) : Prop :=
  FuelMsg m ∨ m = "model: buffer_pending out of fuel" ∨ m = "model: poll_complete out of fuel"

theorem OutOfFuel.fuelAll {s : Streams} (h : OutOfFuel s) : ∃ m, s.panicked = some m ∧ FuelAll m := by
  rcases h with h | h
  · exact ⟨_, h, .inr (.inl rfl)⟩
  · exact ⟨_, h, .inr (.inr rfl)⟩

/-- the operations of stage 4 that `opPre` (ConnNoPanicPHist) does not list -/
def extraOp : Op → Bool
  | .setTargetConnectionWindow _ => true
  | .refSendPushPromise _ _ _ => true
  | .recvPushPromise _ _ => true
  | .nextIncoming => true
  | .recvTakeRequest _ => true
  | .clearWakes => true
  | .recvPollResponse _ _ _ => true
  | .pollComplete _ _ _ _ => true
  | .pollSendPendingRefusal _ _ _ _ => true
  | .panic _ => true
  | _ => false

/-- in a good state the preconditions of stage 3 give those of ConnNoPanicPHist -/
theorem opPre_of4 {s : Streams} {H : List Nat} {op : Op} (g : Good4 s H) (h : opPre4 s op) (hx : extraOp op = false) :
    opPre s op := by
  cases op
  case recvHeaders hd => exact h
  case recvData id p e pad => exact h
  case recvGoAway l => exact h
  case recvEof b => exact fun _ => g.j.acc
  case sendRequest a b c d => exact g.g3.good.ibs.hfree g.g3.good.npi
  case dropStreamRef k => exact g.g3.noppp.dropPPP k
  all_goals first | exact trivial | cases hx

theorem opKey_sub3 {op : Op} {k : Nat} (h : opKey op = some k) : opKey3 op = some k := by
  cases op <;> first | exact h | cases h

/-- the discipline of the response future (np-resp): `poll_response` only while the response has not been returned (`T`);
    no `take_request` / `clear_recv_buffer` on such a stream -/
def respPre' (T : List Nat) : Op → Prop
  | .recvPollResponse _ k _ => k ∈ T
  | .refClearRecvBuffer k => k ∉ T
  | .recvTakeRequest k => k ∉ T
  | _ => True

def isPollResp : Op → Bool
  | .recvPollResponse _ _ _ => true
  | _ => false

/-- preconditions of stage 4: those of stage 3 (`poll_response`: none), the typing of the two `SendResponse`-only calls,
    `usize` room for the data, the discipline of the response future -/
def opPre5 (s : Streams) (T : List Nat) (op : Op) : Prop :=
  (isPollResp op = false → opPre4 s op) ∧ fiPre s op ∧ opLen s op ∧ respPre' T op

theorem respPre_of {s : Streams} {T : List Nat} {op : Op} (h : respPre' T op) (hp : NoPush s) : respPre s T op := by
  cases op
  case recvPushPromise id hd => exact hp
  all_goals exact h

/-- **`FJ` along every operation outside the write path** -/
theorem FJ_step4 {s : Streams} {H : List Nat} (g : Good4 s H) (hj : FJ s) (op : Op)
    (hpre : extraOp op = false → opPre4 s op) (hty : fiPre s op)
    (hin : ∀ k, opKey3 op = some k → k ∈ H) (he : ErrOK s) (he' : ErrOK (op.apply s))
    (hnw : usesWriter op = false) (hnp : ∀ m, op ≠ .panic m) : FJ (op.apply s) := by
  have hn := g.g3.good.npi
  by_cases hx : extraOp op = false
  · exact FJ_step hn g.g3.good.hok hj op (opPre_of4 g (hpre hx) hx) hty (fun k hk => hin k (opKey_sub3 hk)) he he'
  · cases op <;> first | exact absurd rfl hx | skip
    case setTargetConnectionWindow t => exact FJ_setTargetConnectionWindow hj t
    case refSendPushPromise p v f =>
      obtain ⟨x, hx', _⟩ := g.g3.good.hok p (hin p rfl)
      exact FJ_refSendPushPromise hn g.g3.good.ibs hj ⟨x, hx'⟩ hty v f
    case recvPushPromise id hd =>
      have e : (Op.recvPushPromise id hd).apply s = s := recvPushPromise_nopush g.g3.nopush id hd
      rw [e]; exact hj
    case nextIncoming => exact FJ_nextIncoming hj
    case recvTakeRequest k => exact FJ_recvTakeRequest hj k
    case clearWakes => exact FJ_clearWakes hj
    case recvPollResponse f k t => exact FJ_recvPollResponse hj f k t
    case pollComplete f w io t => cases hnw
    case pollSendPendingRefusal f w io t => cases hnw
    case panic m => exact absurd rfl (hnp m)

theorem opNoWriter_of {op : Op} (h : usesWriter op = false) : opNoWriter op := by
  cases op <;> first | exact trivial | cases h

/-- the writer steps of the connection layer hold no new DATA frame -/
theorem WStep.wle {w w' : Writer} (h : WStep w w') : WLE w w' := by
  cases h with
  | bufferSimple n r => exact bufferSimple_wle w n r
  | pollReadyW io t => exact pollReadyW_wle w io t
  | flush io t => exact (flush_wle w io t).1
  | shutdownW io t => exact shutdownW_wle w io t
  | setHpackMax v => exact .of_eq rfl rfl
  | setMaxFrameSize v => exact .of_eq rfl rfl

-- ===================================================================== the bundle with the writer

/-- what is still open about `OH` ("a pending_open stream's front frame is not DATA").  `Q`: the predicate carried by the
    induction (np-ds: `OXs`, proved for every operation but `poll_complete`); `R`: what the history itself promises about the
    state after each `poll_complete` (a RESIDUAL state hypothesis; `fun _ => True` once `Q` is proved through `poll_complete`);
    `A`: a restriction on the operations (`fun _ => True` = none). -/
structure Plug (A : Op → Prop) (R Q : Streams → Prop) : Prop where
  oh : ∀ {s : Streams}, Q s → OH s
  blank : ∀ {s : Streams}, Blank s → (∀ q, s.getQ q = []) → Q s
  step : ∀ {s : Streams} {H T : List Nat}, Good4 s H → FJ s → DSum s → Q s → ∀ (op : Op), opPre5 s T op →
    (∀ k, opKey3 op = some k → k ∈ H) → ErrOK s → usesWriter op = false → (∀ m, op ≠ .panic m) → A op → Q (op.apply s)
  pc : ∀ {g : ConnRecvP.Ghost} {s : Streams} {w : Writer} {H : List Nat}, Good4 s H → WI (fun _ => False) g s w → FJ s → KM s w → Q s →
    ∀ (fuel : Nat) (io : Tio) (tag : String),
    (Streams.pollComplete fuel s w io tag).1.panicked = none → R (Streams.pollComplete fuel s w io tag).1 →
    Q (Streams.pollComplete fuel s w io tag).1
  pr : ∀ {g : ConnRecvP.Ghost} {s : Streams} {w : Writer} {H : List Nat}, Good4 s H → WI (fun _ => False) g s w → FJ s → Q s →
    ∀ (fuel : Nat) (io : Tio) (tag : String), Q (Streams.pollSendPendingRefusal fuel s w io tag).1

/-- the invariant bundle of stage 4; `T`: the streams whose response future has not returned yet -/
structure GoodW (Q : Streams → Prop) (s : Streams) (w : Writer) (H T : List Nat) : Prop where
  g4 : Good4 s H
  fj : FJ s
  dsw : DSW s w
  rj : RJ s H T
  q : Q s

theorem GoodW.wi {Q : Streams → Prop} {s : Streams} {w : Writer} {H T : List Nat} (g : GoodW Q s w H T) (he : ErrOK s) :
    ∃ gh, WI (fun _ => False) gh s w :=
  let ⟨gh, hg⟩ := g.g4.jf
  ⟨gh, ⟨g.g4.g3.good.npi, he, g.fj.fi⟩, g.g4.g3.good.safe, hg, g.dsw.ds, g.dsw.cp⟩

theorem opHandles_sub3 (s : Streams) (H : List Nat) (op : Op) : ∀ k ∈ opHandles s H op, k ∈ opHandles3 s H op := by
  intro k hk
  cases op <;> first | exact hk | skip
  case nextIncoming =>
    show k ∈ (match s.nextIncoming.2 with | some c => c :: H | none => H)
    cases s.nextIncoming.2 with
    | none => exact hk
    | some c => exact List.mem_cons_of_mem _ hk
  case refSendPushPromise p v f =>
    show k ∈ (match (s.refSendPushPromise p v f).2 with | .ok c => c :: H | .error _ => H)
    cases (s.refSendPushPromise p v f).2 with
    | error e => exact hk
    | ok c => exact List.mem_cons_of_mem _ hk

/-- `poll_response` through a held handle on a stream whose response has not been returned -/
theorem good4_pollResp {s : Streams} {H T : List Nat} (g : Good4 s H) (hj : RJ s H T) (f k : Nat) (t : String)
    (hk : k ∈ T) (he : ErrOK s) : Good4 (Streams.recvPollResponse f s k t).1 H := by
  have hks := g.g3.good.npi.keys
  have hn' := recvPollResponse_npi g.g3.good.npi g.g3.good.hok hj hk f t
  have hkH : k ∈ H := hj.sub k hk
  exact ⟨⟨⟨hn', hok_generic hks g.g3.good.hok (.recvPollResponse f k t) (by intro j e; cases e),
      g.g3.good.ibs.of_evF hks (recvPollResponse_ev (ρ := false) f s k t),
      JR_step g.g3.good.jr (.recvPollResponse f k t) trivial, safeInv_step g.g3.good.safe (.recvPollResponse f k t) trivial⟩,
      NoPPP_step g.g3.noppp g.g3.nopush (.recvPollResponse f k t), NoPush_step g.g3.nopush (.recvPollResponse f k t)⟩,
    J_stepAll g.g3.good.npi g.g3.good.hok g.j (.recvPollResponse f k t) trivial (by intro j e; cases e; exact hkH),
    JF_step g.jf (.recvPollResponse f k t) trivial he trivial⟩

/-- an operation outside the write path -/
theorem goodW_op {A : Op → Prop} {R Q : Streams → Prop} (P : Plug A R Q) {s : Streams} {w : Writer} {H T : List Nat} (g : GoodW Q s w H T) (op : Op)
    (hpre : opPre5 s T op) (hin : ∀ k, opKey3 op = some k → k ∈ H) (he : ErrOK s) (he' : ErrOK (op.apply s))
    (hnw : usesWriter op = false) (hnp : ∀ m, op ≠ .panic m) (hA : A op) :
    GoodW Q (op.apply s) w (opHandles3 s H op) (opResp s H T op) := by
  have hg4 : Good4 (op.apply s) (opHandles3 s H op) := by
    by_cases hp : ∃ f k t, op = .recvPollResponse f k t
    · obtain ⟨f, k, t, rfl⟩ := hp
      exact good4_pollResp g.g4 g.rj f k t hpre.2.2.2 he
    · refine good4_step g.g4 op (hpre.1 ?_) hin he he'
      cases op <;> first | rfl | exact absurd ⟨_, _, _, rfl⟩ hp
  have hfj : FJ (op.apply s) := by
    refine FJ_step4 g.g4 g.fj op (fun hx => hpre.1 ?_) hpre.2.1 hin he he' hnw hnp
    cases op <;> first | rfl | cases hx
  have hrj := RJ_step g.g4.g3.good.npi g.g4.g3.good.hok g.rj op hnp (respPre_of hpre.2.2.2 g.g4.g3.nopush)
    (fun k _ => g.g4.g3.noppp.dropPPP k) he
  exact ⟨hg4, hfj, DSW_step g.g4.g3.good.npi g.dsw (P.oh g.q) op hpre.2.2.1 (opNoWriter_of hnw),
    hrj.mono (opHandles_sub3 s H op), P.step g.g4 g.fj g.dsw.ds g.q op hpre hin he hnw hnp hA⟩

/-- the generic components along a write-path operation -/
theorem good4_writer {s : Streams} {H : List Nat} (g : Good4 s H) (op : Op) (hw : usesWriter op = true)
    {gh : ConnRecvP.Ghost} (hn : NPI (fun _ => False) (op.apply s)) (hsf : ConnFlowP.SafeInv (op.apply s))
    (hr : ConnRecvP.Inv true gh (op.apply s)) : Good4 (op.apply s) H := by
  have hk := g.g3.good.npi.keys
  have hnd : ∀ j, op ≠ .dropStreamRef j := by intro j e; subst e; cases hw
  have hacc : accPre2 s op := by cases op <;> first | exact trivial | cases hw
  have hkey : ∀ k, accKey op = some k → k ∈ H := by
    intro k hk'; cases op <;> first | (cases hw; done) | cases hk'
  have hev : EvB false s (op.apply s) := by
    cases op <;> first | cases hw | skip
    case pollComplete f w io t => exact pollComplete_ev (ρ := false) f s w io t
    case pollSendPendingRefusal f w io t => exact pollSendPendingRefusal_ev (ρ := false) f s w io t
  exact ⟨⟨⟨hn, hok_generic hk g.g3.good.hok op hnd, g.g3.good.ibs.of_evF hk hev, ⟨gh, hr.drop_full⟩, hsf⟩,
    NoPPP_step g.g3.noppp g.g3.nopush op, NoPush_step g.g3.nopush op⟩,
    J_stepAll g.g3.good.npi g.g3.good.hok g.j op hacc hkey, ⟨gh, hr⟩⟩

theorem rj_writer {s : Streams} {H T : List Nat} (g : Good4 s H) (hj : RJ s H T) (op : Op) (hw : usesWriter op = true) (he : ErrOK s) :
    RJ (op.apply s) H T := by
  have h := RJ_step g.g3.good.npi g.g3.good.hok hj op (by intro m e; subst e; cases hw)
    (by cases op <;> first | exact trivial | cases hw) (fun k _ => g.g3.noppp.dropPPP k) he
  have e1 : opHandles s H op = H := by cases op <;> first | rfl | cases hw
  have e2 : opResp s H T op = T := by cases op <;> first | rfl | cases hw
  rw [e1, e2] at h; exact h

/-- `poll_complete` against the current writer: the bundle is kept, or the model ran out of fuel -/
theorem goodW_pollComplete {A : Op → Prop} {R Q : Streams → Prop} (P : Plug A R Q) {s : Streams} {w : Writer} {H T : List Nat} (g : GoodW Q s w H T)
    (he : ErrOK s) (fuel : Nat) (io : Tio) (tag : String) (hR : R (Streams.pollComplete fuel s w io tag).1) :
    OutOfFuel (Streams.pollComplete fuel s w io tag).1 ∨
    GoodW Q (Streams.pollComplete fuel s w io tag).1 (Streams.pollComplete fuel s w io tag).2.1 H T := by
  obtain ⟨gh, hwi⟩ := g.wi he
  rcases pollComplete_wk fuel hwi g.dsw.km io tag with ho | ⟨hw', hk'⟩
  · exact .inl ho
  · rcases FJ_pollComplete hwi g.fj fuel io tag with ho | ⟨_, hfj⟩
    · exact .inl ho
    · exact .inr ⟨good4_writer g.g4 (.pollComplete fuel w io tag) rfl hw'.pi.npi hw'.safe hw'.recv, hfj,
        ⟨hw'.ds, hw'.cp, hk'⟩, rj_writer g.g4 g.rj (.pollComplete fuel w io tag) rfl he,
        P.pc g.g4 hwi g.fj g.dsw.km g.q fuel io tag hw'.pi.npi.np hR⟩

/-- `send_pending_refusal` against the current writer -/
theorem goodW_pollSendPendingRefusal {A : Op → Prop} {R Q : Streams → Prop} (P : Plug A R Q) {s : Streams} {w : Writer} {H T : List Nat}
    (g : GoodW Q s w H T) (he : ErrOK s) (fuel : Nat) (io : Tio) (tag : String) :
    GoodW Q (Streams.pollSendPendingRefusal fuel s w io tag).1 (Streams.pollSendPendingRefusal fuel s w io tag).2.1 H T := by
  obtain ⟨gh, hwi⟩ := g.wi he
  obtain ⟨hw', hk'⟩ := pollSendPendingRefusal_wk fuel hwi g.dsw.km io tag
  exact ⟨good4_writer g.g4 (.pollSendPendingRefusal fuel w io tag) rfl hw'.pi.npi hw'.safe hw'.recv,
    FJ_pollSendPendingRefusal g.fj fuel w io tag, ⟨hw'.ds, hw'.cp, hk'⟩,
    rj_writer g.g4 g.rj (.pollSendPendingRefusal fuel w io tag) rfl he, P.pr g.g4 hwi g.fj g.q fuel io tag⟩

theorem GoodW.writer {Q : Streams → Prop} {s : Streams} {w w' : Writer} {H T : List Nat} (g : GoodW Q s w H T) (h : WStep w w') :
    GoodW Q s w' H T := ⟨g.g4, g.fj, g.dsw.wle h.wle, g.rj, g.q⟩

-- ===================================================================== histories with the writer

/-- **the final stream-layer relation**: histories of (stream layer, codec writer, handles held `H`, response futures not
    yet returned `T`).  Operations outside the write path (precondition `opPre5`, handle discipline), `poll_complete` /
    `send_pending_refusal` run against the CURRENT writer, the connection's own writer steps (`WStep`: control frames,
    flush, …), and the two fuel markers of the connection model (`FuelMsg`).  `R`: a promise about the state after each
    `poll_complete` (residual hypothesis; `fun _ => True` = none); `A`: a restriction on the operations. -/
inductive WReach (A : Op → Prop) (R : Streams → Prop) : Streams → Writer → List Nat → List Nat → Prop
  | init {s : Streams} {w : Writer} : Init2 s → NoPush s → w.lastDataFrame = none → w.next = none → WReach A R s w [] []
  | op {s : Streams} {w : Writer} {H T : List Nat} (op : Op) : WReach A R s w H T → usesWriter op = false → (∀ m, op ≠ .panic m) →
      opPre5 s T op → (∀ k, opKey3 op = some k → k ∈ H) → A op →
      WReach A R (op.apply s) w (opHandles3 s H op) (opResp s H T op)
  | fuel {s : Streams} {w : Writer} {H T : List Nat} (m : String) : WReach A R s w H T → FuelMsg m → WReach A R (s.panic m) w H T
  | pollComplete {s : Streams} {w : Writer} {H T : List Nat} (fuel : Nat) (io : Tio) (tag : String) : WReach A R s w H T →
      R (Streams.pollComplete fuel s w io tag).1 →
      WReach A R (Streams.pollComplete fuel s w io tag).1 (Streams.pollComplete fuel s w io tag).2.1 H T
  | pollSendPendingRefusal {s : Streams} {w : Writer} {H T : List Nat} (fuel : Nat) (io : Tio) (tag : String) : WReach A R s w H T →
      WReach A R (Streams.pollSendPendingRefusal fuel s w io tag).1 (Streams.pollSendPendingRefusal fuel s w io tag).2.1 H T
  | writer {s : Streams} {w w' : Writer} {H T : List Nat} : WReach A R s w H T → WStep w w' → WReach A R s w' H T

theorem WReach.keys {A : Op → Prop} {R : Streams → Prop} {s : Streams} {w : Writer} {H T : List Nat} (h : WReach A R s w H T) : KeysOK s ∧ NextLocal s := by
  induction h with
  | init hi _ _ _ => exact ⟨hi.blank.keysOK, hi.blank.next⟩
  | op o _ _ _ _ _ _ ih => exact keys_step_op ih.1 ih.2 o
  | fuel m _ _ ih => exact keys_step_op ih.1 ih.2 (.panic m)
  | pollComplete f io t _ _ ih => exact keys_step_op ih.1 ih.2 (.pollComplete f _ io t)
  | pollSendPendingRefusal f io t _ ih => exact keys_step_op ih.1 ih.2 (.pollSendPendingRefusal f _ io t)
  | writer _ _ ih => exact ih

/-- a recorded fuel marker stays -/
theorem fuelAll_sticky {s : Streams} (op : Op) (h : ∃ m, s.panicked = some m ∧ FuelAll m) :
    ∃ m, (op.apply s).panicked = some m ∧ FuelAll m :=
  let ⟨m, hm, hf⟩ := h; ⟨m, op_sticky s op m hm, hf⟩

/-- **No panic but the model's own fuel markers, in every history of the final relation** -/
theorem wreach_good {A : Op → Prop} {R Q : Streams → Prop} (P : Plug A R Q) {s : Streams} {w : Writer} {H T : List Nat} (h : WReach A R s w H T)
    (he : ErrOK s) : (s.panicked = none ∧ GoodW Q s w H T) ∨ ∃ m, s.panicked = some m ∧ FuelAll m := by
  induction h with
  | init hi hp h1 h2 =>
    exact .inl ⟨hi.np, ⟨⟨⟨blank_npi hi.blank hi.np hi.q, fun k hk => absurd hk List.not_mem_nil, IBS_blank hi.blank hi.q,
      JR_init hi.recv, ConnFlowP.Init.safe hi.flow⟩, NoPPP_blank hi.blank, hp⟩, J_blank hi.blank hi.q, JF_init hi.recv⟩,
      FJ_blank hi.blank hi.q, DSW_blank hi.blank h1 h2, RJ_blank _, P.blank hi.blank hi.q⟩
  | @op t w H T o hr hnw hnp hpre hin hA ih =>
    have he0 : ErrOK t := errOK_back_op hr.keys.1 hr.keys.2 o he
    rcases ih he0 with ⟨_, g⟩ | hf
    · have g' := goodW_op P g o hpre hin he0 he hnw hnp hA
      exact .inl ⟨g'.g4.g3.good.npi.np, g'⟩
    · exact .inr (fuelAll_sticky o hf)
  | @fuel t w H T m hr hm ih =>
    have he0 : ErrOK t := errOK_back_op hr.keys.1 hr.keys.2 (.panic m) he
    rcases ih he0 with ⟨hnp, _⟩ | hf
    · exact .inr ⟨m, panic_of_noneP hnp m, .inl hm⟩
    · exact .inr (fuelAll_sticky (.panic m) hf)
  | @pollComplete t w H T f io tag hr hR ih =>
    have he0 : ErrOK t := errOK_back_op hr.keys.1 hr.keys.2 (.pollComplete f w io tag) he
    rcases ih he0 with ⟨_, g⟩ | hf
    · rcases goodW_pollComplete P g he0 f io tag hR with ho | g'
      · exact .inr ho.fuelAll
      · exact .inl ⟨g'.g4.g3.good.npi.np, g'⟩
    · exact .inr (fuelAll_sticky (.pollComplete f w io tag) hf)
  | @pollSendPendingRefusal t w H T f io tag hr ih =>
    have he0 : ErrOK t := errOK_back_op hr.keys.1 hr.keys.2 (.pollSendPendingRefusal f w io tag) he
    rcases ih he0 with ⟨_, g⟩ | hf
    · have g' := goodW_pollSendPendingRefusal P g he0 f io tag
      exact .inl ⟨g'.g4.g3.good.npi.np, g'⟩
    · exact .inr (fuelAll_sticky (.pollSendPendingRefusal f w io tag) hf)
  | writer hr hw ih =>
    rcases ih he with ⟨hnp, g⟩ | hf
    · exact .inl ⟨hnp, g.writer hw⟩
    · exact .inr hf

end H2V.Lemmas.ConnNoPanicP
