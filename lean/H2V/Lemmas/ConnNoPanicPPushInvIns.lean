import H2V.Lemmas.ConnNoPanicPPushInvLoops
/-
  C08 (no panic) — PUSH_PROMISE bookkeeping, part 5: the operations that insert an entry or clear the field.
  `PW s s'`: every `pending_push_promises` list is unchanged or emptied (total version of `PP`: a dangling key
  reads the blank stream, whose list is empty; a new entry starts with an empty list).  Everything except
  `recv_push_promise` is `PW`.
-/
namespace H2V.Lemmas.ConnNoPanicP
open H2V H2V.Model H2V.Model.Conn H2V.Lemmas.ConnCountsP
attribute [local irreducible] wrapSubU32 wrapSubUsize

/-- every `pending_push_promises` list is unchanged or emptied -/
def PW (s s' : Streams) : Prop :=
  ∀ j, (s'.stream j).pendingPushPromises = (s.stream j).pendingPushPromises ∨ (s'.stream j).pendingPushPromises = []

theorem PW.refl (s : Streams) : PW s s := fun _ => .inl rfl
theorem PW.trans {a b c : Streams} (h1 : PW a b) (h2 : PW b c) : PW a c := fun j => by
  rcases h2 j with e | e
  · rw [e]; exact h1 j
  · exact .inr e
theorem PW.of_fst_eq {s : Streams} {α : Type} {p : Streams × α} {a : Streams} {x : α}
    (h : p = (a, x)) (e : PW s p.1) : PW s a := by subst h; exact e

theorem stream_dangling {s : Streams} {j : Nat} (h : ¬ Live s j) : s.stream j = { key := j, id := 0 } := by
  unfold Streams.stream
  cases hg : s.store.get? j with
  | none => rfl
  | some x => exact absurd ⟨x, hg⟩ h

theorem PP.pw {s s' : Streams} (h : PP s s') : PW s s' := fun j => by
  by_cases hl : Live s' j
  · exact .inl (h.eq j hl)
  · right; rw [stream_dangling hl]

/-- a new entry whose list is empty: nothing changes -/
theorem insert_pw (s : Streams) (st : Stream) (h : st.pendingPushPromises = []) :
    PW s { s with store := (s.store.insert st).1 } := fun j => by
  rcases insert_get?_cases s.store st j with e | ⟨hn, _, e⟩
  · left
    have : ({ s with store := (s.store.insert st).1 } : Streams).stream j = s.stream j := by
      unfold Streams.stream; show ((s.store.insert st).1.get? j).getD _ = _; rw [e]
    rw [this]
  · right
    have : ({ s with store := (s.store.insert st).1 } : Streams).stream j = { st with key := s.store.nextKey } :=
      stream_of_get? e
    rw [this]; exact h

theorem new_ppp (id a b : Nat) : (Stream.new id a b).pendingPushPromises = [] := rfl

/-- the error path `unlink(id); remove(key)` -/
theorem unlinkRemove_pp (s : Streams) (id k : Nat) : PP s { s with store := (s.store.unlink id).remove k } := by
  have hsub : ∀ j, Live ({ s with store := (s.store.unlink id).remove k } : Streams) j →
      Live s j ∧ ({ s with store := (s.store.unlink id).remove k } : Streams).stream j = s.stream j := by
    intro j hl
    have hjk : j ≠ k := by
      intro hjk; subst hjk
      obtain ⟨x, hx⟩ := hl
      have : ((s.store.unlink id).remove j).get? j = some x := hx
      rw [remove_get?_self] at this; cases this
    unfold Live Streams.stream at *
    have e : ((s.store.unlink id).remove k).get? j = s.store.get? j := by
      rw [get?_remove_ne _ _ _ hjk]; rfl
    show (∃ x, s.store.get? j = some x) ∧ (((s.store.unlink id).remove k).get? j).getD _ = _
    rw [e]
    obtain ⟨x, hx⟩ := hl
    exact ⟨⟨x, by rw [← e]; exact hx⟩, rfl⟩
  exact ⟨fun j hl => (hsub j hl).1, fun j hl => by rw [(hsub j hl).2]⟩

theorem transition_pw {α : Type} (s : Streams) (k : Nat) (f : Streams → Streams × α) (hf : ∀ s, PW s (f s).1) :
    PW s (s.transition k f).1 := by
  have : (s.transition k f).1 = (f s).1.transitionAfter k (s.stream k).isPendingResetExpiration := by
    unfold Streams.transition; rfl
  rw [this]
  exact (hf s).trans (transitionAfter_pp _ _ _).pw

-- ===================================================================== recv_headers

theorem recvHeadersClosure_pp (k : Nat) (h : HeadersIn) (s : Streams) : PP s (recvHeadersClosure k h s).1 := by
  unfold recvHeadersClosure; pp_auto

theorem recvHeadersTail_pp (k : Nat) (h : HeadersIn) (s : Streams) : PP s (recvHeadersTail k h s).1 := by
  unfold recvHeadersTail
  dsimp only
  split
  · exact .refl _
  · split
    · exact .refl _
    · exact transition_pp s k _ (fun s => recvHeadersClosure_pp k h s)

theorem recvHeaders_pw (s : Streams) (h : HeadersIn) : PW s (s.recvHeaders h).1 := by
  unfold Streams.recvHeaders
  dsimp only
  split
  · exact .refl _
  · cases hfk : s.store.findKey? h.sid with
    | some k =>
      exact (recvHeadersTail_pp k h s).pw
    | none =>
      dsimp only
      by_cases hforg : (!s.counts.isServer && s.mayHaveForgottenStream h.sid) = true
      · simp only [hforg, if_true]; exact .refl _
      · simp only [hforg, Bool.false_eq_true, if_false]
        generalize hro : s.recvOpen h.sid false = p
        obtain ⟨s1, res⟩ := p
        have h1 : PW s s1 := (PP.of_fst_eq hro (recvOpen_pp s h.sid false)).pw
        cases res with
        | error e => exact h1
        | ok b =>
          cases b
          · exact h1
          · simp only []
            exact (h1.trans (insert_pw s1 _ (new_ppp _ _ _))).trans (recvHeadersTail_pp _ h _).pw

-- ===================================================================== send_reset on an unknown id

theorem innerSendReset_pw (s : Streams) (id : Nat) (r : Reason) : PW s (s.innerSendReset id r).1 := by
  unfold Streams.innerSendReset
  dsimp only
  split
  · exact (actionsSendReset_pp _ _ _ _).pw
  · dsimp only
    generalize hs1 : (if s.counts.isLocalInit id = true then s.sendMaybeResetNextStreamId id else s.recvMaybeResetNextStreamId id) = s1
    have h1 : PW s s1 := by
      rw [← hs1]; split
      · exact (sendMaybeResetNextStreamId_pp _ _).pw
      · exact (recvMaybeResetNextStreamId_pp _ _).pw
    exact (h1.trans (insert_pw s1 _ (new_ppp _ _ _))).trans (actionsSendReset_pp _ _ _ _).pw

-- ===================================================================== send_request

theorem sendRequestCore_pw (isHead : Bool) (fields : List Hpack.Field) (eos : Bool) (s : Streams) :
    PW s (sendRequestCore isHead fields eos s).1 := by
  unfold sendRequestCore
  generalize hso : s.sendOpenId = p
  obtain ⟨s1, r⟩ := p
  have h1 : PW s s1 := (PP.of_fst_eq hso (sendOpenId_pp s)).pw
  cases r with
  | error e => exact h1
  | ok id =>
    simp only []
    generalize hsP : (if s1.store.contains id = true then s1.panic _ else s1) = sP
    have hP : PW s sP := by
      rw [← hsP]; split
      · exact h1.trans (panic_pp _ _).pw
      · exact h1
    generalize hst : (if isHead = true then _ else Stream.new id s1.actions.send.initWindowSz s1.recv.initWindowSz) = st
    have hnil : st.pendingPushPromises = [] := by rw [← hst]; split <;> rfl
    have h2 := hP.trans (insert_pw sP st hnil)
    generalize hsh : Streams.sendHeaders _ (sP.store.insert st).2 eos fields = q
    obtain ⟨s3, r3⟩ := q
    have h3 : PW s s3 := h2.trans (PP.of_fst_eq hsh (sendHeaders_pp _ _ _ _)).pw
    cases r3 with
    | error e => exact h3.trans (unlinkRemove_pp _ _ _).pw
    | ok u =>
      simp only []
      exact h3.trans (((setMisc_pp s3 s3.actions (s3.refs + 1) s3.recvBufferLeaked s3.wakes s3.unsupported).trans (refInc_pp _ _)).pw)

theorem sendRequest_pw (s : Streams) (isHead : Bool) (fields : List Hpack.Field) (eos : Bool) (pending : Option Nat) :
    PW s (s.sendRequest isHead fields eos pending).1 := by
  rcases sendRequest_cases s isHead fields eos pending with e | e
  · rw [e]; exact .refl _
  · rw [e]; exact sendRequestCore_pw isHead fields eos s

-- ===================================================================== send_push_promise (server)

theorem refSendPushPromise_pw (s : Streams) (parent : Nat) (valid : Bool) (fields : List Hpack.Field) :
    PW s (s.refSendPushPromise parent valid fields).1 := by
  unfold Streams.refSendPushPromise
  generalize hso : s.sendReserveLocal = p
  obtain ⟨s1, r⟩ := p
  have h1 : PW s s1 := (PP.of_fst_eq hso (sendReserveLocal_pp s)).pw
  cases r with
  | error e => exact h1
  | ok pid =>
    simp only []
    generalize hsP : (if s1.store.contains pid = true then s1.panic _ else s1) = sP
    have hP : PW s sP := by
      rw [← hsP]; split
      · exact h1.trans (panic_pp _ _).pw
      · exact h1
    have h2 := hP.trans (insert_pw sP (Stream.new pid sP.actions.send.initWindowSz sP.recv.initWindowSz) (new_ppp _ _ _))
    generalize hs2 : ({ sP with store := (sP.store.insert (Stream.new pid sP.actions.send.initWindowSz sP.recv.initWindowSz)).1 } : Streams) = s2 at h2 ⊢
    generalize (sP.store.insert (Stream.new pid sP.actions.send.initWindowSz sP.recv.initWindowSz)).2 = child
    split
    · exact h2
    · next st' _ heq =>
      have h3 : PW s (s2.modStream child fun st => { st with state := st', isPendingPush := true }) := by
        refine h2.trans (PP.pw ?_)
        exact modStream_pp _ _ _ (fun _ => rfl) (fun _ => rfl)
      generalize (s2.modStream child fun st => { st with state := st', isPendingPush := true }) = s3 at h3 ⊢
      split
      · exact h3
      · generalize hsp : s3.sendPushPromise parent child pid fields = q
        obtain ⟨s4, r4⟩ := q
        have h4 : PW s s4 := h3.trans (PP.of_fst_eq hsp (sendPushPromise_pp _ _ _ _ _)).pw
        cases r4 with
        | error e => exact h4.trans (unlinkRemove_pp _ _ _).pw
        | ok u =>
          simp only []
          exact h4.trans (((setMisc_pp s4 s4.actions (s4.refs + 1) s4.recvBufferLeaked s4.wakes s4.unsupported).trans (refInc_pp _ _)).pw)

-- ===================================================================== drop_stream_ref

theorem dropFold_pp (l : List Nat) : ∀ s : Streams, PP s (dropFold l s) := by
  induction l with
  | nil => intro s; exact .refl _
  | cons a l ih =>
    intro s
    unfold dropFold
    rw [List.foldl_cons]
    refine PP.trans ?_ (ih _)
    dsimp only
    refine PP.trans ?_ (transition_pp _ _ _ (fun s => ?_))
    · exact modStream_pp _ _ _ (fun _ => rfl) (fun _ => rfl)
    · pp_auto

/-- emptying one list -/
theorem clearPPP_pw (s : Streams) (k : Nat) : PW s (s.modStream k fun st => { st with pendingPushPromises := [] }) := fun j => by
  unfold Streams.modStream
  split
  · next st hst =>
    rcases setStream_stream s { st with pendingPushPromises := [] } j with e | ⟨e, _, _⟩
    · left; rw [e]
    · right; rw [e]
  · left; rw [panic_stream]

theorem dropClosure_pw (k : Nat) (s : Streams) : PW s (dropClosure k s).1 := by
  unfold dropClosure
  dsimp only
  split
  · exact (((maybeCancel_pp s k).trans (releaseClosedCapacity_pp _ k)).pw.trans (clearPPP_pw _ k)).trans (dropFold_pp _ _).pw
  · exact (maybeCancel_pp s k).pw

theorem dropStreamRef_pw (s : Streams) (k : Nat) : PW s (s.dropStreamRef k) := by
  rw [dropStreamRef_eq]
  exact (dropPre_pp s k).pw.trans (transition_pw _ k _ (fun s => dropClosure_pw k s))

end H2V.Lemmas.ConnNoPanicP
