import H2V.Lemmas.ConnResetPRel
/-
  ConnResetP — every transition function of `State` (state.rs) is a `StateStep`, and the helper
  lemmas that turn a `StateStep` / a queue change at one key into an `Evolves (SRel D) RInv` step.
-/
namespace H2V.Lemmas.ConnResetP
open H2V H2V.Model H2V.Model.Conn
variable {D : Nat → Prop}

section state
variable (id : Nat) (s : State)

theorem step_sendOpen (eos : Bool) : StateStep id s (s.sendOpen eos).1 := by
  state_cases s <;> cases eos <;>
    first | exact .same | exact .normal rfl rfl rfl

theorem step_recvOpen (eos info : Bool) : StateStep id s (s.recvOpen eos info).1 := by
  state_cases s <;> cases eos <;> cases info <;>
    first | exact .same | exact .normal rfl rfl rfl

theorem step_reserveRemote : StateStep id s s.reserveRemote.1 := by
  state_cases s <;> first | exact .same | exact .normal rfl rfl rfl

theorem step_reserveLocal : StateStep id s s.reserveLocal.1 := by
  state_cases s <;> first | exact .same | exact .normal rfl rfl rfl

theorem step_recvClose : StateStep id s s.recvClose.1 := by
  state_cases s <;> first | exact .same | exact .normal rfl rfl rfl

theorem step_sendClose {s' : State} (h : s.sendClose = some s') : StateStep id s s' := by
  state_cases s <;> simp [State.sendClose] at h <;> subst h <;> exact .normal rfl rfl rfl

theorem step_recvReset (r : Reason) (q : Bool) : StateStep id s (s.recvReset id r q) := by
  state_cases s <;> cases q <;>
    first
    | exact .same
    | exact .error rfl rfl
    | exact .remote r false rfl rfl
    | exact .remote r true rfl rfl

theorem step_handleError (e : PErr) : StateStep id s (s.handleError e) := by
  state_cases s <;> first | exact .same | exact .error rfl rfl

theorem step_recvEof : StateStep id s s.recvEof := by
  state_cases s <;> first | exact .same | exact .error rfl rfl

theorem step_setReset_fresh (sid : Nat) (r : Reason) (i : Initiator) (h : s.isReset = false) :
    StateStep id s (s.setReset sid r i) := .error h rfl

theorem step_setReset_scheduled (sid : Nat) (r : Reason) (i : Initiator) (h : s.isScheduledReset = true) :
    StateStep id s (s.setReset sid r i) := .unschedule h rfl

theorem step_setScheduledReset (r : Reason) (h : s.isClosed = false) : StateStep id s (s.setScheduledReset r) :=
  .schedule h rfl

end state

-- ===================================================================== steps at one key

section steps
variable {a S : Store}

/-- the state of entry `id` makes a `StateStep` (computed from the entry itself) -/
theorem Evolves.mod_state (h : Evolves (SRel D) RInv a S) (id : Nat) (f : Stream → Stream)
    (hk : ∀ st, (f st).key = st.key) (hi : ∀ st, (f st).id = st.id) (hq : ∀ st, (f st).pendingSend = st.pendingSend)
    (hrc : ∀ st, (f st).refCount = st.refCount)
    (hs : StateStep (Store.getD' S id).id (Store.getD' S id).state (f (Store.getD' S id)).state) :
    Evolves (SRel D) RInv a (Store.mod S id f) := by
  refine h.mod id f (fun st hg => ?_)
  rw [Store.getD'_of_get? hg] at hs
  exact SRel.state_step (hk st) (hi st) (hq st) (hrc st) hs

/-- the queue of entry `id` changes without gaining an RST_STREAM -/
theorem Evolves.mod_queue (h : Evolves (SRel D) RInv a S) (id : Nat) (f : Stream → Stream)
    (hk : ∀ st, (f st).key = st.key) (hi : ∀ st, (f st).id = st.id) (hs : ∀ st, (f st).state = st.state)
    (hrc : ∀ st, (f st).refCount = st.refCount)
    (hq : resetCount (f (Store.getD' S id)).pendingSend ≤ resetCount (Store.getD' S id).pendingSend) :
    Evolves (SRel D) RInv a (Store.mod S id f) := by
  refine h.mod id f (fun st hg => ?_)
  rw [Store.getD'_of_get? hg] at hq
  exact SRel.queue_le (hk st) (hi st) (hs st) (hrc st) hq

/-- same, when the bound holds for every stream -/
theorem Evolves.mod_queue' (h : Evolves (SRel D) RInv a S) (id : Nat) (f : Stream → Stream)
    (hk : ∀ st, (f st).key = st.key) (hi : ∀ st, (f st).id = st.id) (hs : ∀ st, (f st).state = st.state)
    (hrc : ∀ st, (f st).refCount = st.refCount)
    (hq : ∀ st, resetCount (f st).pendingSend ≤ resetCount st.pendingSend) :
    Evolves (SRel D) RInv a (Store.mod S id f) :=
  h.mod id f (fun st _ => SRel.queue_le (hk st) (hi st) (hs st) (hrc st) (hq st))

end steps

-- ===================================================================== Stream.setReset

theorem setReset_key (st : Stream) (r : Reason) (i : Initiator) : (st.setReset r i).1.key = st.key := by
  have h1 := coreEq_notifySend { st with state := st.state.setReset st.id r i }
  have h2 := coreEq_notifyPush ({ st with state := st.state.setReset st.id r i }).notifySend.1
  have h3 := coreEq_notifyRecv (({ st with state := st.state.setReset st.id r i }).notifySend.1).notifyPush.1
  exact (h3.key.trans h2.key).trans h1.key

theorem setReset_core (st : Stream) (r : Reason) (i : Initiator) :
    CoreEq { st with state := st.state.setReset st.id r i } (st.setReset r i).1 := by
  have h1 := coreEq_notifySend { st with state := st.state.setReset st.id r i }
  have h2 := coreEq_notifyPush ({ st with state := st.state.setReset st.id r i }).notifySend.1
  have h3 := coreEq_notifyRecv (({ st with state := st.state.setReset st.id r i }).notifySend.1).notifyPush.1
  exact (h1.trans h2).trans h3

theorem setReset_state (st : Stream) (r : Reason) (i : Initiator) :
    (st.setReset r i).1.state = st.state.setReset st.id r i := (setReset_core st r i).state
theorem setReset_pendingSend (st : Stream) (r : Reason) (i : Initiator) :
    (st.setReset r i).1.pendingSend = st.pendingSend := (setReset_core st r i).pendingSend
theorem setReset_id (st : Stream) (r : Reason) (i : Initiator) : (st.setReset r i).1.id = st.id :=
  (setReset_core st r i).id

theorem setReset_refCount (st : Stream) (r : Reason) (i : Initiator) : (st.setReset r i).1.refCount = st.refCount :=
  (setReset_core st r i).refCount

/-- `Stream::set_reset` on a stream whose implicit reset was scheduled -/
theorem SRel.setReset_scheduled (st : Stream) (r : Reason) (i : Initiator) (h : st.state.isScheduledReset = true) :
    SRel D st (st.setReset r i).1 :=
  SRel.state_step (setReset_key st r i) (setReset_id st r i) (setReset_pendingSend st r i) (setReset_refCount st r i)
    (by rw [setReset_state]; exact step_setReset_scheduled _ _ _ _ _ h)

theorem SRel.setReset_fresh (st : Stream) (r : Reason) (i : Initiator) (h : st.state.isReset = false) :
    SRel D st (st.setReset r i).1 :=
  SRel.state_step (setReset_key st r i) (setReset_id st r i) (setReset_pendingSend st r i) (setReset_refCount st r i)
    (by rw [setReset_state]; exact step_setReset_fresh _ _ _ _ _ h)

end H2V.Lemmas.ConnResetP

-- ===================================================================== fusing consecutive modifications of one entry
namespace H2V.Lemmas.ConnResetP
open H2V H2V.Model H2V.Model.Conn
variable {D : Nat → Prop}

theorem Store.set_set (S : Store) (x y : Stream) (h : y.key = x.key) : (S.set x).set y = S.set y := by
  unfold Store.set
  simp only [List.map_map, h]
  congr 1
  apply List.map_congr_left
  intro z _
  simp only [Function.comp]
  by_cases hz : z.key = x.key
  · simp [hz]
  · simp [hz]

theorem Store.mod_mod (S : Store) (id : Nat) (f g : Stream → Stream)
    (hf : ∀ x, (f x).key = x.key) (hg : ∀ x, (g x).key = x.key) :
    Store.mod (Store.mod S id f) id g = Store.mod S id (fun x => g (f x)) := by
  unfold Store.mod
  cases h : S.get? id with
  | none => simp only [h]
  | some x =>
    have hk : (f x).key = id := by rw [hf, Store.get?_key h]
    have : (S.set (f x)).get? id = some (f x) := by
      have := Store.get?_set_eq S (f x); rw [hk, h] at this; exact this
    simp only [this]
    exact Store.set_set _ _ _ (hg _)

theorem qPush_store (s : Streams) (q : QName) (id : Nat) :
    (s.qPush q id).1.store =
      if (Store.getD' s.store id).isQueued q then s.store else Store.mod s.store id (fun st => st.setQueued q true) := by
  unfold Streams.qPush
  rw [stream_eq]
  split <;> simp

end H2V.Lemmas.ConnResetP
