import H2V.Lemmas.HuffmanTables
/-
  The table-walk decoder of the model (`Model.Huffman.decode`, a mirror of the Rust code) computes
  exactly the RFC 7541 bit-by-bit reference decoder (`Spec.Huffman.decode`) on every byte string.

  Invariant: in state (table `t`, accumulator `acc`, `bits` unconsumed low bits of `acc`, output
  `out`) with `pathL[t] = (plen, pv)`, the final answer is
  `out ++ go (codeBits bits acc ++ bitsOf remainingBytes) plen pv`.
-/
namespace H2V.Lemmas.Huffman
open H2V H2V.Spec.Rfc7541 H2V.Spec.Huffman
open H2V.Generated.Huffman (BRANCH TABLE_INDEX_MASK pathL decT)
open H2V.Model.Huffman (lookup inner tail bytesLoop)

def ofOpt : Option Bytes → Res Unit Bytes
  | some out => .ok out
  | none => .err ()

/-- reference decoder continued from state `(len, val)` with `out` already emitted -/
def G (out : Bytes) (bits : List Bool) (len val : Nat) : Option Bytes :=
  (go bits len val).map (out ++ ·)

theorem G_hit {k x len val s : Nat} (out : Bytes) (R : List Bool) (hk : 1 ≤ k)
    (h : Code s (len + k) (val * 2 ^ k + x % 2 ^ k)) (hs : s ≠ 256) :
    G out (codeBits k x ++ R) len val = G (out ++ [s]) R 0 0 := by
  simp only [G, go_hit R hk h, hs, if_false, Option.map_map]
  congr 1
  funext l
  simp

theorem G_hit_eos {k x len val : Nat} (out : Bytes) (R : List Bool) (hk : 1 ≤ k)
    (h : Code 256 (len + k) (val * 2 ^ k + x % 2 ^ k)) :
    G out (codeBits k x ++ R) len val = none := by
  simp [G, go_hit R hk h]

theorem G_skip {k x len val : Nat} (out : Bytes) (R : List Bool)
    (h : NoPre (len + k) (val * 2 ^ k + x % 2 ^ k)) (hlen : len + k < 30) :
    G out (codeBits k x ++ R) len val = G out R (len + k) (val * 2 ^ k + x % 2 ^ k) := by
  simp only [G, go_skip R h hlen]

/-! ### arithmetic of the index computations -/

/-- main loop: the top `k` bits of the index are the top `k` of the `bits` unconsumed bits -/
theorem idx_top {acc bits k : Nat} (hk : k ≤ 8) (hb : 8 ≤ bits) :
    (acc / 2 ^ (bits - 8) % 256) / 2 ^ (8 - k) = acc / 2 ^ (bits - k) % 2 ^ k := by
  rw [show 256 = 2 ^ (8 - k) * 2 ^ k by rw [← Nat.pow_add, show 8 - k + k = 8 by omega],
    Nat.mod_mul_right_div_self, Nat.div_div_eq_div_mul, ← Nat.pow_add,
    show bits - 8 + (8 - k) = bits - k by omega]

/-- tail loop: the zero-padded index -/
theorem idx_tail {acc bits : Nat} (hb : bits ≤ 8) :
    (acc <<< (8 - bits)) % 256 = (acc % 2 ^ bits) * 2 ^ (8 - bits) := by
  rw [Nat.shiftLeft_eq, show 256 = 2 ^ bits * 2 ^ (8 - bits) by
    rw [← Nat.pow_add, show bits + (8 - bits) = 8 by omega], Nat.mul_mod_mul_right]

theorem idx_tail_top {acc bits k : Nat} (hk : k ≤ bits) (hb : bits ≤ 8) :
    (acc % 2 ^ bits) * 2 ^ (8 - bits) / 2 ^ (8 - k) = acc / 2 ^ (bits - k) % 2 ^ k := by
  rw [show 2 ^ (8 - k) = 2 ^ (bits - k) * 2 ^ (8 - bits) by
      rw [← Nat.pow_add, show bits - k + (8 - bits) = 8 - k by omega],
    Nat.mul_div_mul_right _ _ (Nat.two_pow_pos _),
    show 2 ^ bits = 2 ^ (bits - k) * 2 ^ k by
      rw [← Nat.pow_add, show bits - k + k = bits by omega],
    Nat.mod_mul_right_div_self]

theorem idx_tail_short {pv r bits k : Nat} (hbk : bits ≤ k) (hk : k ≤ 8) :
    (pv * 2 ^ k + r * 2 ^ (8 - bits) / 2 ^ (8 - k)) / 2 ^ (k - bits) = pv * 2 ^ bits + r := by
  rw [show 2 ^ (8 - bits) = 2 ^ (k - bits) * 2 ^ (8 - k) by
      rw [← Nat.pow_add, show k - bits + (8 - k) = 8 - bits by omega],
    ← Nat.mul_assoc, Nat.mul_div_cancel _ (Nat.two_pow_pos _),
    show 2 ^ k = 2 ^ bits * 2 ^ (k - bits) by
      rw [← Nat.pow_add, show bits + (k - bits) = k by omega],
    ← Nat.mul_assoc, ← Nat.add_mul, Nat.mul_div_cancel _ (Nat.two_pow_pos _)]

theorem acc_push {acc bits b : Nat} (hb : b < 256) (hbits : bits + 8 ≤ 32) :
    codeBits (bits + 8) (((acc <<< 8) ||| b) % 4294967296) = codeBits bits acc ++ byteBits b := by
  rw [show 4294967296 = 2 ^ 32 by rfl, codeBits_mod _ hbits,
    ← Nat.shiftLeft_add_eq_or_of_lt (show b < 2 ^ 8 by simpa using hb), Nat.shiftLeft_eq,
    codeBits_add, byteBits_eq]
  congr 1
  · rw [Nat.add_comm, Nat.add_mul_div_right _ _ (Nat.two_pow_pos 8),
      Nat.div_eq_of_lt (by simpa using hb), Nat.zero_add]
  · rw [← codeBits_mod (m := 8) _ (Nat.le_refl 8), Nat.add_comm, Nat.add_mul_mod_self_right,
      codeBits_mod _ (Nat.le_refl 8)]

theorem pathL_inj {t plen pv plen' pv' : Nat} (h : pathL[t]? = some (plen, pv))
    (h' : pathL[t]? = some (plen', pv')) : plen = plen' ∧ pv = pv' := by
  rw [h] at h'
  simp only [Option.some.injEq, Prod.mk.injEq] at h'
  exact h'

theorem pathL_lt {t plen pv : Nat} (h : pathL[t]? = some (plen, pv)) : t < 15 :=
  (List.getElem?_eq_some_iff.mp h).1

/-! ### the inner `while bits >= 8` loop -/

theorem inner_spec (acc : Nat) (R : List Bool) : ∀ (fuel t bits : Nat) (out : Bytes) (plen pv : Nat),
    bits < fuel → pathL[t]? = some (plen, pv) →
    match inner acc fuel t bits out with
    | .ok (t', bits', out') =>
      bits' < 8 ∧ ∃ plen' pv', pathL[t']? = some (plen', pv') ∧
        G out (codeBits bits acc ++ R) plen pv = G out' (codeBits bits' acc ++ R) plen' pv'
    | .err _ => G out (codeBits bits acc ++ R) plen pv = none
    | .loop => False := by
  intro fuel
  induction fuel with
  | zero => intro t bits out plen pv h; omega
  | succ fuel ih =>
    intro t bits out plen pv hf hp
    unfold inner
    by_cases hb : bits ≥ 8
    · simp only [hb, if_true]
      rw [Nat.shiftRight_eq_div_pow]
      generalize hi : acc / 2 ^ (bits - 8) % 256 = i
      have hi256 : i < 256 := by rw [← hi]; exact Nat.mod_lt _ (by omega)
      obtain ⟨plen0, pv0, hp0, hE⟩ := tables_ok (pathL_lt hp)
      obtain ⟨rfl, rfl⟩ := pathL_inj hp hp0
      have hE := hE i hi256
      generalize lookup t i = e at hE
      by_cases hleaf : e &&& BRANCH = 0
      · simp only [hleaf, if_true]
        obtain ⟨hk1, hk8, hcode⟩ := hE.leaf hleaf
        generalize e >>> 8 = k at hk1 hk8 hcode
        have hs : e % 256 ≠ 256 := by omega
        rw [← hi, idx_top hk8 hb] at hcode
        have hG := G_hit out (codeBits (bits - k) acc ++ R) hk1 hcode hs
        rw [← List.append_assoc, ← codeBits_split acc (show k ≤ bits by omega)] at hG
        rw [hG]
        exact ih 0 (bits - k) (out ++ [e % 256]) 0 0 (by omega) rfl
      · simp only [hleaf, if_false]
        by_cases ht' : (e &&& TABLE_INDEX_MASK) >>> 8 = 0
        · simp only [ht', if_true]
          obtain ⟨k, hk1, hk8, hcode⟩ := hE.invalid hleaf ht'
          rw [← hi, idx_top hk8 hb] at hcode
          have hG := G_hit_eos out (codeBits (bits - k) acc ++ R) hk1 hcode
          rwa [← List.append_assoc, ← codeBits_split acc (show k ≤ bits by omega)] at hG
        · simp only [ht', if_false]
          obtain ⟨hp', hno⟩ := hE.branch hleaf ht'
          generalize (e &&& TABLE_INDEX_MASK) >>> 8 = t' at hp'
          have h24 := (pathL_range hp').2.1
          have hno' : NoPre (plen + 8) (pv * 2 ^ 8 + acc / 2 ^ (bits - 8) % 2 ^ 8) := by
            rw [show (2 : Nat) ^ 8 = 256 by rfl, hi]; exact hno
          have hG := G_skip out (codeBits (bits - 8) acc ++ R) hno' (by omega)
          rw [← List.append_assoc, ← codeBits_split acc hb, show (2 : Nat) ^ 8 = 256 by rfl, hi] at hG
          rw [hG]
          exact ih t' (bits - 8) out (plen + 8) (pv * 256 + i) (by omega) hp'
    · simp only [hb, if_false]
      exact ⟨by omega, plen, pv, hp, rfl⟩

/-! ### the tail `while bits > 0` loop -/

def tailFin : Res Unit (Nat × Bytes) → Res Unit Bytes
  | .ok (t', out') => if t' = 0 then .ok out' else .err ()
  | .err e => .err e
  | .loop => .loop

theorem ones_div : ∀ b, b < 8 → 1073741823 / 2 ^ (30 - b) = 2 ^ b - 1 := by decide

theorem code_eos : Code 256 30 1073741823 := by unfold Code; rfl

/-- fewer than 8 one bits contain no code word -/
theorem NoPre_ones {b : Nat} (hb : b < 8) : NoPre b (2 ^ b - 1) := by
  have := NoPre.of_code code_eos (show b < 30 by omega)
  rwa [ones_div b hb] at this

/-- the left-over bits do not complete a code word and are not an EOS prefix of < 8 bits -/
theorem G_fail {t plen pv bits acc : Nat} (out : Bytes) (hp : pathL[t]? = some (plen, pv))
    (hno : NoPre (plen + bits) (pv * 2 ^ bits + acc % 2 ^ bits)) (hlen : plen + bits < 30)
    (hpad : ¬ (t = 0 ∧ acc % 2 ^ bits = 2 ^ bits - 1)) :
    G out (codeBits bits acc) plen pv = none := by
  have := G_skip out [] hno hlen
  rw [List.append_nil] at this
  rw [this]
  simp only [G, go_nil, Option.map_eq_none_iff, ite_eq_right_iff, reduceCtorEq, imp_false]
  intro ⟨h8, hv⟩
  have hr := pathL_range hp
  by_cases ht : t = 0
  · obtain ⟨rfl, rfl⟩ := hr.2.2 ht
    apply hpad
    refine ⟨ht, ?_⟩
    simp only [Nat.zero_mul, Nat.zero_add] at hv
    omega
  · have := hr.1 ht
    omega

theorem tail_spec (acc : Nat) : ∀ (fuel t bits : Nat) (out : Bytes) (plen pv : Nat),
    bits < fuel → bits < 8 → pathL[t]? = some (plen, pv) →
    tailFin (tail acc fuel t bits out) = ofOpt (G out (codeBits bits acc) plen pv) := by
  intro fuel
  induction fuel with
  | zero => intro t bits out plen pv h; omega
  | succ fuel ih =>
    intro t bits out plen pv hf hb8 hp
    unfold tail
    have hr := pathL_range hp
    by_cases hb : bits > 0
    · simp only [hb, if_true]
      rw [Nat.one_shiftLeft, Nat.and_two_pow_sub_one_eq_mod]
      by_cases hpad : t = 0 ∧ acc % 2 ^ bits = 2 ^ bits - 1
      · simp only [hpad, and_self, if_true, tailFin]
        obtain ⟨rfl, rfl⟩ := hr.2.2 hpad.1
        have hno : NoPre (0 + bits) (0 * 2 ^ bits + acc % 2 ^ bits) := by
          rw [Nat.zero_add, Nat.zero_mul, Nat.zero_add, hpad.2]; exact NoPre_ones hb8
        have hG := G_skip out [] hno (by omega)
        rw [List.append_nil] at hG
        rw [hG, Nat.zero_add, Nat.zero_mul, Nat.zero_add, hpad.2]
        have : 2 ^ bits - 1 + 1 = 2 ^ bits := by have := Nat.two_pow_pos bits; omega
        simp [G, go_nil, hb8, this, ofOpt]
      · simp only [hpad, if_false]
        rw [idx_tail (Nat.le_of_lt hb8)]
        generalize hi : acc % 2 ^ bits * 2 ^ (8 - bits) = i
        have hi256 : i < 256 := by
          rw [← hi, ← idx_tail (Nat.le_of_lt hb8)]; exact Nat.mod_lt _ (by omega)
        obtain ⟨plen0, pv0, hp0, hE⟩ := tables_ok (pathL_lt hp)
        obtain ⟨rfl, rfl⟩ := pathL_inj hp hp0
        have hE := hE i hi256
        generalize lookup t i = e at hE
        -- the code word found at the zero-padded index is longer than what is left
        have hshort : ∀ s k, bits < k → k ≤ 8 → Code s (plen + k) (pv * 2 ^ k + i / 2 ^ (8 - k)) →
            G out (codeBits bits acc) plen pv = none := by
          intro s k hbk hk8 hcode
          have hno := NoPre.of_code hcode (show plen + bits < plen + k by omega)
          rw [show plen + k - (plen + bits) = k - bits by omega, ← hi,
            idx_tail_short (Nat.le_of_lt hbk) hk8] at hno
          have := (code_range hcode).2.1
          exact G_fail out hp hno (by omega) hpad
        by_cases hleaf : e &&& BRANCH = 0
        · simp only [hleaf, ne_eq, not_true_eq_false, if_false]
          obtain ⟨hk1, hk8, hcode⟩ := hE.leaf hleaf
          generalize e >>> 8 = k at hk1 hk8 hcode
          by_cases hused : k > bits
          · simp only [hused, if_true, tailFin]
            rw [hshort _ k hused hk8 hcode]; rfl
          · simp only [hused, if_false]
            have hs : e % 256 ≠ 256 := by omega
            rw [← hi, idx_tail_top (show k ≤ bits by omega) (Nat.le_of_lt hb8)] at hcode
            have hG := G_hit out (codeBits (bits - k) acc ++ []) hk1 hcode hs
            rw [← List.append_assoc, ← codeBits_split acc (show k ≤ bits by omega)] at hG
            simp only [List.append_nil] at hG
            rw [hG]
            exact ih 0 (bits - k) (out ++ [e % 256]) 0 0 (by omega) (by omega) rfl
        · simp only [hleaf, ne_eq, not_false_eq_true, if_true, tailFin]
          suffices h : G out (codeBits bits acc) plen pv = none by rw [h]; rfl
          by_cases ht' : (e &&& TABLE_INDEX_MASK) >>> 8 = 0
          · obtain ⟨k, hk1, hk8, hcode⟩ := hE.invalid hleaf ht'
            by_cases hused : k > bits
            · exact hshort _ k hused hk8 hcode
            · rw [← hi, idx_tail_top (show k ≤ bits by omega) (Nat.le_of_lt hb8)] at hcode
              have hG := G_hit_eos out (codeBits (bits - k) acc ++ []) hk1 hcode
              rwa [← List.append_assoc, ← codeBits_split acc (show k ≤ bits by omega),
                List.append_nil] at hG
          · obtain ⟨hp', hno⟩ := hE.branch hleaf ht'
            have h24 := (pathL_range hp').2.1
            have hno' := hno.shorten (8 - bits) (by omega)
            have harith := idx_tail_short (pv := pv) (r := acc % 2 ^ bits) (Nat.le_of_lt hb8)
              (Nat.le_refl 8)
            rw [Nat.sub_self, Nat.pow_zero, Nat.div_one, hi, show (2 : Nat) ^ 8 = 256 by rfl] at harith
            rw [harith, show plen + 8 - (8 - bits) = plen + bits by omega] at hno'
            exact G_fail out hp hno' (by omega) hpad
    · simp only [hb, if_false, tailFin]
      have hb0 : bits = 0 := by omega
      subst hb0
      simp only [codeBits, G, go_nil]
      by_cases ht : t = 0
      · obtain ⟨rfl, rfl⟩ := hr.2.2 ht
        simp [ht, ofOpt]
      · have := hr.1 ht
        simp [ht, ofOpt, show ¬ plen < 8 by omega]

/-! ### the `for &byte in src` loop and the whole decoder -/

def finish : Res Unit (Nat × Nat × Nat × Bytes) → Res Unit Bytes
  | .ok (t, acc, bits, out) => tailFin (tail acc 9 t bits out)
  | .err e => .err e
  | .loop => .loop

theorem decode_eq_finish (src : Bytes) :
    Model.Huffman.decode src = finish (bytesLoop src 0 0 0 []) := by
  unfold Model.Huffman.decode finish tailFin
  cases bytesLoop src 0 0 0 [] with
  | ok a =>
    obtain ⟨t, acc, bits, out⟩ := a
    simp only
    cases tail acc 9 t bits out with
    | ok a => rfl
    | err e => rfl
    | loop => rfl
  | err e => rfl
  | loop => rfl

theorem bytesLoop_spec : ∀ (bs : Bytes), Bytes.Valid bs → ∀ (t acc bits : Nat) (out : Bytes)
    (plen pv : Nat), bits < 8 → pathL[t]? = some (plen, pv) →
    finish (bytesLoop bs t acc bits out) = ofOpt (G out (codeBits bits acc ++ bitsOf bs) plen pv)
  | [], _, t, acc, bits, out, plen, pv, hb, hp => by
    simp only [bytesLoop, finish, bitsOf, List.append_nil]
    exact tail_spec acc 9 t bits out plen pv (by omega) hb hp
  | b :: rest, hv, t, acc, bits, out, plen, pv, hb, hp => by
    have hb256 : b < 256 := hv b (by simp)
    have hv' : Bytes.Valid rest := fun x hx => hv x (by simp [hx])
    simp only [bytesLoop, bitsOf]
    rw [← List.append_assoc, ← acc_push hb256 (show bits + 8 ≤ 32 by omega)]
    generalize ((acc <<< 8) ||| b) % 4294967296 = acc'
    have hI := inner_spec acc' (bitsOf rest) 17 t (bits + 8) out plen pv (by omega) hp
    cases hin : inner acc' 17 t (bits + 8) out with
    | ok a =>
      obtain ⟨t', bits', out'⟩ := a
      rw [hin] at hI
      obtain ⟨hb', plen', pv', hp', hG⟩ := hI
      simp only
      rw [hG]
      exact bytesLoop_spec rest hv' t' acc' bits' out' plen' pv' hb' hp'
    | err e =>
      rw [hin] at hI
      simp only at hI ⊢
      rw [hI]; rfl
    | loop =>
      rw [hin] at hI
      exact absurd hI id

/-- **The table-walk decoder is the RFC 7541 decoder**: on every byte string the model of
    `h2::hpack::huffman::decode` returns exactly what the canonical bit-by-bit decoder returns,
    errors included, and its fuel never runs out. -/
theorem decode_eq_spec (bs : Bytes) (h : Bytes.Valid bs) :
    Model.Huffman.decode bs =
      (match Spec.Huffman.decode bs with
       | some out => Res.ok out
       | none => Res.err ()) := by
  rw [decode_eq_finish, bytesLoop_spec bs h 0 0 0 [] 0 0 (by omega) rfl]
  simp only [codeBits, List.nil_append, G, Spec.Huffman.decode]
  cases go (bitsOf bs) 0 0 with
  | none => rfl
  | some out => simp [ofOpt]

end H2V.Lemmas.Huffman
