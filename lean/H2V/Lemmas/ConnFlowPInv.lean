import H2V.Lemmas.ConnFlowPPrim
/-
  ConnFlowP, part 3 — the send-side *safety* invariant `SafeInv` and its preservation by frame steps.

  `SafeInv s`:
    * slab keys distinct (`KeysOk`);
    * every stream: `0 ≤ available`, `available > 0 → available ≤ window`, window inside `i32`;
    * connection: `0 ≤ available`, `window ≤ i32::MAX`;
    * SEND LEDGER (safety direction): `Σ stream.available + conn.available ≤ conn.window`.
  (The equality `=` is the conservation direction, see `ConnFlowPGap`.)
-/
namespace H2V.Lemmas.ConnFlowP
open H2V H2V.Model H2V.Model.Conn

/-- capacity assigned to the streams of a slab -/
def sumAv : List Stream → Int
  | [] => 0
  | x :: t => x.sendFlow.available.val + sumAv t

/-- per-`FlowControl` conditions of a stream's send flow -/
structure FlOk (f : FlowControl) : Prop where
  av0 : 0 ≤ f.available.val
  avw : 0 < f.available.val → f.available.val ≤ f.windowSize.val
  wlo : I32_MIN ≤ f.windowSize.val
  whi : f.windowSize.val ≤ I32_MAX

/-- `g` = capacity taken from a stream and not yet handed back to the connection (non-zero only in
    the middle of a model function: between `claim_capacity` on the stream and
    `assign_connection_capacity`) -/
structure SafeInvG (g : Int) (s : Streams) : Prop where
  g0 : 0 ≤ g
  keys : KeysOk s.store
  st : ∀ x ∈ s.store.slab, FlOk x.sendFlow
  a0 : 0 ≤ s.prio.flow.available.val
  whi : s.prio.flow.windowSize.val ≤ I32_MAX
  ledger : sumAv s.store.slab + s.prio.flow.available.val + g ≤ s.prio.flow.windowSize.val

/-- the invariant between two model functions -/
@[reducible] def SafeInv (s : Streams) : Prop := SafeInvG 0 s

theorem Fresh.flOk {x : Stream} (h : Fresh x) : FlOk x.sendFlow :=
  ⟨by rw [h.1]; exact Int.le_refl _, by rw [h.1]; intro h0; exact absurd h0 (by decide), h.2.1, h.2.2⟩

-- ===================================================================== sums

theorem sumAv_nonneg {l : List Stream} (h : ∀ x ∈ l, 0 ≤ x.sendFlow.available.val) : 0 ≤ sumAv l := by
  induction l with
  | nil => exact Int.le_refl _
  | cons a t ih =>
    have h1 := h a (List.mem_cons_self ..)
    have h2 := ih (fun x hx => h x (List.mem_cons_of_mem _ hx))
    simp only [sumAv]; omega

theorem sumAv_append (a b : List Stream) : sumAv (a ++ b) = sumAv a + sumAv b := by
  induction a with
  | nil => simp [sumAv]
  | cons x t ih => simp only [List.cons_append, sumAv, ih]; omega

theorem mem_le_sumAv {l : List Stream} (h : ∀ x ∈ l, 0 ≤ x.sendFlow.available.val) {x : Stream} (hx : x ∈ l) :
    x.sendFlow.available.val ≤ sumAv l := by
  induction l with
  | nil => cases hx
  | cons a t ih =>
    have hn : 0 ≤ sumAv t := sumAv_nonneg (fun y hy => h y (List.mem_cons_of_mem _ hy))
    have ha := h a (List.mem_cons_self ..)
    rcases List.mem_cons.1 hx with rfl | hx'
    · simp only [sumAv]; omega
    · have := ih (fun y hy => h y (List.mem_cons_of_mem _ hy)) hx'
      simp only [sumAv]; omega

theorem filter_key_ne_self {l : List Stream} {k : Nat} (h : ∀ x ∈ l, x.key ≠ k) :
    l.filter (fun z => z.key != k) = l := by
  apply List.filter_eq_self.2
  intro x hx
  simp only [bne_iff_ne, ne_eq]
  exact h x hx

/-- split the sum at the (unique) entry with a given key -/
theorem sumAv_split {l : List Stream} (hn : (l.map (·.key)).Nodup) {x : Stream} (hx : x ∈ l) :
    sumAv l = x.sendFlow.available.val + sumAv (l.filter (fun z => z.key != x.key)) := by
  induction l with
  | nil => cases hx
  | cons a t ih =>
    simp only [List.map_cons, List.nodup_cons, List.mem_map, not_exists, not_and] at hn
    rcases List.mem_cons.1 hx with rfl | hx'
    · have h1 : (x :: t).filter (fun z => z.key != x.key) = t := by
        rw [List.filter_cons_of_neg (by simp)]
        exact filter_key_ne_self (fun y hy => hn.1 y hy)
      rw [h1]; rfl
    · have hne : a.key ≠ x.key := fun h => hn.1 x hx' h.symm
      rw [List.filter_cons_of_pos (by simpa using hne)]
      simp only [sumAv]
      rw [ih hn.2 hx']; omega

/-- the frame step can only lower the assigned total -/
theorem sumAv_le_of_match : ∀ (l' l : List Stream), (l'.map (·.key)).Nodup → (l.map (·.key)).Nodup →
    (∀ x ∈ l, 0 ≤ x.sendFlow.available.val) →
    (∀ y ∈ l', (∃ x ∈ l, x.key = y.key ∧ x.sendFlow.available.val = y.sendFlow.available.val) ∨
      y.sendFlow.available.val = 0) →
    sumAv l' ≤ sumAv l := by
  intro l'
  induction l' with
  | nil => intro l _ _ h0 _; exact sumAv_nonneg h0
  | cons y t ih =>
    intro l hn' hn h0 hm
    simp only [List.map_cons, List.nodup_cons, List.mem_map, not_exists, not_and] at hn'
    rcases hm y (List.mem_cons_self ..) with ⟨x, hx, hk, hav⟩ | hz
    · have hsplit := sumAv_split hn hx
      have hsub : ((l.filter (fun z => z.key != x.key)).map (·.key)).Nodup :=
        (List.filter_sublist.map _).nodup hn
      have := ih (l.filter (fun z => z.key != x.key)) hn'.2 hsub
        (fun z hz => h0 z (List.mem_filter.1 hz).1)
        (fun y' hy' => by
          rcases hm y' (List.mem_cons_of_mem _ hy') with ⟨x', hx', hk', hav'⟩ | hz'
          · refine Or.inl ⟨x', List.mem_filter.2 ⟨hx', ?_⟩, hk', hav'⟩
            simp only [bne_iff_ne, ne_eq]
            intro he
            exact hn'.1 y' hy' (hk'.symm.trans (he.trans hk))
          · exact Or.inr hz')
      simp only [sumAv]; omega
    · have := ih l hn'.2 hn h0 (fun y' hy' => hm y' (List.mem_cons_of_mem _ hy'))
      simp only [sumAv]; omega

-- ===================================================================== frame steps keep the invariant

theorem SafeInvG.fr {g : Int} {s s' : Streams} (hfr : Fr s s') (h : SafeInvG g s) : SafeInvG g s' := by
  obtain ⟨hflow, _, hst⟩ := hfr
  obtain ⟨hk', _, hm⟩ := hst h.keys
  refine ⟨h.g0, hk', ?_, by rw [hflow]; exact h.a0, by rw [hflow]; exact h.whi, ?_⟩
  · intro y hy
    rcases hm y hy with ⟨x, hx, _, hf⟩ | ⟨_, hf⟩
    · rw [← hf]; exact h.st x hx
    · exact hf.flOk
  · rw [hflow]
    have : sumAv s'.store.slab ≤ sumAv s.store.slab := by
      apply sumAv_le_of_match _ _ hk'.1 h.keys.1 (fun x hx => (h.st x hx).av0)
      intro y hy
      rcases hm y hy with ⟨x, hx, hk, hf⟩ | ⟨_, hf⟩
      · exact Or.inl ⟨x, hx, hk, by rw [hf]⟩
      · exact Or.inr hf.1
    have := h.ledger
    omega

-- ===================================================================== updating one stream (and the connection)

theorem sumAv_set {a : Store} (hk : KeysOk a) {k : Nat} {st : Stream} (hget : a.get? k = some st)
    (st' : Stream) (hkey : st'.key = k) :
    sumAv (a.set st').slab = sumAv a.slab - st.sendFlow.available.val + st'.sendFlow.available.val := by
  have hm := get?_mem hget
  have hsplit := sumAv_split hk.1 hm.1
  have hset : (a.set st').slab = a.slab.map (fun x => if x.key == k then st' else x) := by
    simp only [Store.set, hkey]
  have hmem' : st' ∈ (a.set st').slab := by
    rw [hset]; exact List.mem_map.2 ⟨st, hm.1, by simp [hm.2]⟩
  have hnd' : ((a.set st').slab.map (·.key)).Nodup := by
    have : (a.set st').slab.map (·.key) = a.slab.map (·.key) := by
      rw [hset, List.map_map]
      apply List.map_congr_left
      intro x _
      simp only [Function.comp]
      split
      · rename_i h; rw [hkey]; exact (beq_iff_eq.1 h).symm
      · rfl
    rw [this]; exact hk.1
  have hsplit' := sumAv_split hnd' hmem'
  have hfilt : (a.set st').slab.filter (fun z => z.key != st'.key) = a.slab.filter (fun z => z.key != st.key) := by
    rw [hset, hkey, hm.2, List.filter_map]
    have : ((fun z : Stream => z.key != k) ∘ fun x => if x.key == k then st' else x) = fun z => z.key != k := by
      funext x
      simp only [Function.comp]
      split
      · rename_i h; simp [hkey, beq_iff_eq.1 h]
      · rfl
    rw [this]
    have hid : ∀ x ∈ a.slab.filter (fun z => z.key != k), (fun x : Stream => if x.key == k then st' else x) x = x := by
      intro x hx
      have := (List.mem_filter.1 hx).2
      simp only [bne_iff_ne, ne_eq] at this
      simp [this]
    rw [List.map_congr_left hid, List.map_id'']
    intro x; rfl
  rw [hsplit', hsplit, hfilt]; omega

/-- the shape every flow-changing step of the model has: one slab entry replaced (same key), the
    connection `FlowControl` replaced, nothing else of the store touched -/
structure Upd (s s' : Streams) (k : Nat) (st st' : Stream) : Prop where
  get : s.store.get? k = some st
  key : st'.key = k
  slab : s'.store.slab = (s.store.set st').slab
  next : s'.store.nextKey = s.store.nextKey

theorem set_keys (a : Store) (st' : Stream) : (a.set st').slab.map (·.key) = a.slab.map (·.key) := by
  simp only [Store.set, List.map_map]
  apply List.map_congr_left
  intro x _
  simp only [Function.comp]
  split
  · rename_i hk; exact (beq_iff_eq.1 hk).symm
  · rfl

theorem mem_of_map_key_eq {l l' : List Stream} (h : l'.map (·.key) = l.map (·.key)) {y : Stream} (hy : y ∈ l') :
    ∃ x ∈ l, x.key = y.key := by
  have : y.key ∈ l'.map (·.key) := List.mem_map.2 ⟨y, hy, rfl⟩
  rw [h] at this
  obtain ⟨x, hx, hk⟩ := List.mem_map.1 this
  exact ⟨x, hx, hk⟩

theorem SafeInvG.upd {g g' : Int} {s s' : Streams} {k : Nat} {st st' : Stream} (h : SafeInvG g s)
    (hu : Upd s s' k st st') (hg : 0 ≤ g')
    (hst : FlOk st'.sendFlow) (ha : 0 ≤ s'.prio.flow.available.val) (hw : s'.prio.flow.windowSize.val ≤ I32_MAX)
    (hl : (st'.sendFlow.available.val - st.sendFlow.available.val) +
          (s'.prio.flow.available.val - s.prio.flow.available.val) + (g' - g) ≤
          s'.prio.flow.windowSize.val - s.prio.flow.windowSize.val) : SafeInvG g' s' := by
  have hkeys : s'.store.slab.map (·.key) = s.store.slab.map (·.key) := by rw [hu.slab]; exact set_keys _ _
  refine ⟨hg, ⟨by rw [hkeys]; exact h.keys.1, ?_⟩, ?_, ha, hw, ?_⟩
  · intro y hy
    obtain ⟨x, hx, hk⟩ := mem_of_map_key_eq hkeys hy
    rw [hu.next, ← hk]; exact h.keys.2 x hx
  · intro y hy
    rw [hu.slab] at hy
    simp only [Store.set, List.mem_map] at hy
    obtain ⟨x, hx, rfl⟩ := hy
    split
    · exact hst
    · exact h.st x hx
  · rw [hu.slab, sumAv_set h.keys hu.get st' hu.key]
    have := h.ledger
    omega

/-- a step that only replaces the connection `FlowControl` -/
theorem SafeInvG.conn {g g' : Int} {s s' : Streams} (h : SafeInvG g s) (hs : s'.store = s.store) (hg : 0 ≤ g')
    (ha : 0 ≤ s'.prio.flow.available.val) (hw : s'.prio.flow.windowSize.val ≤ I32_MAX)
    (hl : (s'.prio.flow.available.val - s.prio.flow.available.val) + (g' - g) ≤
          s'.prio.flow.windowSize.val - s.prio.flow.windowSize.val) : SafeInvG g' s' := by
  refine ⟨hg, hs ▸ h.keys, hs ▸ h.st, ha, hw, ?_⟩
  rw [hs]; have := h.ledger; omega

end H2V.Lemmas.ConnFlowP
