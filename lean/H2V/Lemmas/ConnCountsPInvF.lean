import H2V.Lemmas.ConnCountsPInvE
/-
  C05 — invariants, part F: `DE`, the steps under which every slab entry descends from an entry with
  the same key, the same stream id, at least as unopened, with no new PUSH_PROMISE frame — the counter
  primitives included (`is_counted` may change) —, and the invariant `Inv2`.
-/
namespace H2V.Lemmas.ConnCountsP
open H2V H2V.Model H2V.Model.Conn

/-- `G`: the PUSH_PROMISE frames that the step may add to a queue -/
structure SameE (G : SFrame → Prop) (a b : Stream) : Prop where
  id : b.id = a.id
  early : Early b → Early a
  pp : ∀ f ∈ b.pendingSend, SFrame.isPP f = true → f ∈ a.pendingSend ∨ G f

variable {G : SFrame → Prop}

theorem SameE.refl (a : Stream) : SameE G a a := ⟨rfl, fun h => h, fun _ h _ => .inl h⟩
theorem SameE.trans {a b c : Stream} (h1 : SameE G a b) (h2 : SameE G b c) : SameE G a c :=
  ⟨h2.id.trans h1.id, fun h => h1.early (h2.early h), fun f hf hp => by
    rcases h2.pp f hf hp with h | h
    · exact h1.pp f h hp
    · exact .inr h⟩
theorem SameE.of_sameD {a b : Stream} (h : SameD a b) : SameE G a b := ⟨h.id, h.early, fun f hf hp => .inl (h.pp f hf hp)⟩

structure CE (c c' : Counts) : Prop where
  isServer : c'.isServer = c.isServer
  maxErr : c'.maxLocalErrorResetStreams = c.maxLocalErrorResetStreams
  err : c.numLocalErrorResetStreams ≤ c'.numLocalErrorResetStreams

theorem CE.refl (c : Counts) : CE c c := ⟨rfl, rfl, Nat.le_refl _⟩
theorem CE.trans {a b c : Counts} (h1 : CE a b) (h2 : CE b c) : CE a c :=
  ⟨h2.isServer.trans h1.isServer, h2.maxErr.trans h1.maxErr, Nat.le_trans h1.err h2.err⟩
theorem CE.of_cd {c c' : Counts} (h : CD c c') : CE c c' := ⟨h.isServer, h.maxErr, h.err⟩

theorem CE.errOK {c c' : Counts} (h : CE c c') (hc : c'.canIncNumLocalErrorResets = true) : c.canIncNumLocalErrorResets = true := by
  unfold Counts.canIncNumLocalErrorResets at *
  rw [h.maxErr] at hc
  split
  · next m hm =>
    simp only [hm, decide_eq_true_eq] at hc ⊢
    have := h.err
    omega
  · rfl

structure DE (G : SFrame → Prop) (s s' : Streams) : Prop where
  counts : CE s.counts s'.counts
  nextKey : s'.store.nextKey = s.store.nextKey
  ids : ∀ p ∈ s'.store.ids, p ∈ s.store.ids
  openQ : ∀ k ∈ s'.prio.pendingOpen, k ∈ s.prio.pendingOpen
  desc : ∀ k x', s'.store.get? k = some x' → ∃ x, s.store.get? k = some x ∧ SameE G x x'
  next : NextOK s.counts.isServer s.actions.send.nextStreamId s'.actions.send.nextStreamId

theorem DE.refl (s : Streams) : DE G s s := ⟨CE.refl _, rfl, fun _ h => h, fun _ h => h, fun _ x' h => ⟨x', h, SameE.refl _⟩, NextOK.refl _ _⟩

theorem DE.trans {a b c : Streams} (h1 : DE G a b) (h2 : DE G b c) : DE G a c := by
  refine ⟨h1.counts.trans h2.counts, h2.nextKey.trans h1.nextKey, fun p hp => h1.ids p (h2.ids p hp),
    fun k hk => h1.openQ k (h2.openQ k hk), ?_, h1.next.trans (by rw [← h1.counts.isServer]; exact h2.next)⟩
  intro k x'' hx''
  obtain ⟨x', hx', d'⟩ := h2.desc k x'' hx''
  obtain ⟨x, hx, d⟩ := h1.desc k x' hx'
  exact ⟨x, hx, d.trans d'⟩

theorem DE.of_df {s s' : Streams} (h : DF s s') : DE G s s' :=
  ⟨CE.of_cd h.counts, h.nextKey, h.ids, h.openQ,
   fun k x' hx => by obtain ⟨x, hx, d⟩ := h.desc k x' hx; exact ⟨x, hx, SameE.of_sameD d⟩, h.next⟩

theorem DE.of_store_eq {s s' : Streams} (hst : s'.store = s.store) (hc : CE s.counts s'.counts)
    (hq : ∀ k ∈ s'.prio.pendingOpen, k ∈ s.prio.pendingOpen)
    (hn : NextOK s.counts.isServer s.actions.send.nextStreamId s'.actions.send.nextStreamId) : DE G s s' :=
  ⟨hc, by rw [hst], fun p hp => by rw [hst] at hp; exact hp, hq, fun k x' hx => ⟨x', by rw [← hst]; exact hx, SameE.refl _⟩, hn⟩

theorem DE.panic' (s : Streams) (m : String) : DE G s (s.panic m) :=
  DE.of_store_eq (panic_store _ _) (by rw [panic_counts]; exact CE.refl _) (by unfold Streams.prio; rw [panic_actions]; exact fun _ h => h)
    (by rw [panic_actions]; exact NextOK.refl _ _)

theorem DE.modCounts (s : Streams) (f : Counts → Counts) (h : CE s.counts (f s.counts)) : DE G s (s.modCounts f) :=
  DE.of_store_eq rfl h (fun _ h => h) (NextOK.refl _ _)

theorem DE.setQOpen (s : Streams) (l : List Nat) (hl : ∀ k ∈ l, k ∈ s.prio.pendingOpen) : DE G s (s.setQ .pendingOpen l) :=
  DE.of_store_eq rfl (CE.refl _) hl (NextOK.refl _ _)

theorem DE.setStream (s : Streams) (st' : Stream) (h : ∀ x, s.store.get? st'.key = some x → SameE G x st') :
    DE G s (s.setStream st') := by
  refine ⟨CE.refl _, rfl, fun _ hp => hp, fun _ hk => hk, ?_, NextOK.refl _ _⟩
  intro k x' hx'
  rw [setStream_get?] at hx'
  cases hk : s.store.get? k with
  | none => rw [hk] at hx'; cases hx'
  | some x =>
    rw [hk] at hx'
    simp only [Option.map_some, Option.some.injEq] at hx'
    by_cases hkey : x.key == st'.key
    · simp only [hkey, if_true] at hx'
      subst hx'
      have : st'.key = k := by simp at hkey; rw [← hkey]; exact get?_key hk
      rw [this] at h
      exact ⟨x, rfl, h x hk⟩
    · simp only [hkey] at hx'
      subst hx'
      exact ⟨x, rfl, SameE.refl _⟩

theorem DE.modStream (s : Streams) (k : Nat) (f : Stream → Stream) (hf : ∀ x, (f x).key = x.key)
    (hd : ∀ x, SameE G x (f x)) : DE G s (s.modStream k f) := by
  unfold Streams.modStream
  split
  · next st hst =>
    refine DE.setStream s _ ?_
    intro x hx
    rw [hf, get?_key hst, hst] at hx
    cases hx; exact hd st
  · exact DE.panic' _ _

theorem ce_numSend (c : Counts) (n : Nat) : CE c { c with numSendStreams := n } := ⟨rfl, rfl, Nat.le_refl _⟩
theorem ce_numRecv (c : Counts) (n : Nat) : CE c { c with numRecvStreams := n } := ⟨rfl, rfl, Nat.le_refl _⟩

theorem sameE_counted (x : Stream) (b : Bool) : SameE G x { x with isCounted := b } := ⟨rfl, fun h => h, fun _ h _ => .inl h⟩

/-- goals `DE s E` where `E` is built from `s` by `panic`, the two stream counters, `modStream`s of `is_counted`, and `if`s -/
macro "de_auto" : tactic =>
  `(tactic| repeat (first
      | with_reducible exact DE.refl _
      | with_reducible refine DE.trans ?_ (DE.panic' _ _)
      | with_reducible refine DE.trans ?_ (DE.modStream _ _ _ (fun _ => rfl) (fun x => sameE_counted x _))
      | with_reducible refine DE.trans ?_ (DE.modCounts _ _ (ce_numSend _ _))
      | with_reducible refine DE.trans ?_ (DE.modCounts _ _ (ce_numRecv _ _))
      | split))

theorem DE.incNumSendStreams (s : Streams) (k : Nat) : DE G s (s.incNumSendStreams k) := by
  unfold Streams.incNumSendStreams; dsimp only; de_auto
theorem DE.incNumRecvStreams (s : Streams) (k : Nat) : DE G s (s.incNumRecvStreams k) := by
  unfold Streams.incNumRecvStreams; dsimp only; de_auto
theorem DE.decNumStreams (s : Streams) (k : Nat) : DE G s (s.decNumStreams k) := by
  unfold Streams.decNumStreams; dsimp only; de_auto

-- ===================================================================== the invariant

/-- the direction invariants; `E` = keys of entries that may be unopened although locally initiated
    (inside the function that has just created them) -/
structure Inv2 (sv : Bool) (E : Nat → Prop) (s : Streams) : Prop where
  role : s.counts.isServer = sv
  p1 : ∀ k ∈ s.prio.pendingOpen, k < s.store.nextKey ∧ ∀ st, s.store.get? k = some st → locId sv st.id = true
  ids : ∀ p ∈ s.store.ids, p.2 < s.store.nextKey ∧ ∀ st, s.store.get? p.2 = some st → st.id = p.1
  fr : ∀ k st, s.store.get? k = some st → ∀ pk pid fl, SFrame.pushPromise pk pid fl ∈ st.pendingSend → locId sv pid = true
  p3 : ErrOK s → ∀ k st, s.store.get? k = some st → locId sv st.id = true → Early st → E k
  dir : ErrOK s → s.counts.numSendStreams = cntP (sendCounted sv) s
  next : ∀ x, s.actions.send.nextStreamId = some x → locId sv x = true

/-- everything but `dir` survives a `DE` step -/
theorem DE.inv2 {s s' : Streams} {sv : Bool} {E : Nat → Prop} (h : DE G s s') (hi : Inv2 sv E s)
    (hG : ∀ pk pid fl, G (.pushPromise pk pid fl) → locId sv pid = true)
    (hdir : ErrOK s' → s'.counts.numSendStreams = cntP (sendCounted sv) s') : Inv2 sv E s' := by
  refine ⟨h.counts.isServer.trans hi.role, ?_, ?_, ?_, ?_, hdir, ?_⟩
  · intro k hk
    have := hi.p1 k (h.openQ k hk)
    refine ⟨by rw [h.nextKey]; exact this.1, ?_⟩
    intro st' hst'
    obtain ⟨x, hx, d⟩ := h.desc k st' hst'
    rw [d.id]; exact this.2 x hx
  · intro p hp
    have := hi.ids p (h.ids p hp)
    refine ⟨by rw [h.nextKey]; exact this.1, ?_⟩
    intro st' hst'
    obtain ⟨x, hx, d⟩ := h.desc _ st' hst'
    rw [d.id]; exact this.2 x hx
  · intro k st' hst' pk pid fl hf
    obtain ⟨x, hx, d⟩ := h.desc k st' hst'
    rcases d.pp _ hf rfl with h1 | h1
    · exact hi.fr k x hx pk pid fl h1
    · exact hG pk pid fl h1
  · intro herr k st' hst' hloc he
    obtain ⟨x, hx, d⟩ := h.desc k st' hst'
    exact hi.p3 (h.counts.errOK herr) k x hx (by rw [← d.id]; exact hloc) (d.early he)
  · intro y hy
    obtain ⟨x, hx, _, hpar⟩ := h.next y hy
    rcases hpar with e | e
    · have := hi.next x hx
      unfold locId at this ⊢
      rw [e]; exact this
    · rw [hi.role] at e; exact e

theorem DF.inv2 {s s' : Streams} {sv : Bool} {E : Nat → Prop} (h : DF s s') (hA : KeysOK s) (hi : Inv2 sv E s) : Inv2 sv E s' := by
  refine (DE.of_df (G := fun _ => False) h).inv2 hi (fun _ _ _ h => h.elim) ?_
  intro herr
  rw [h.counts.numSend, h.cnt hA sv]
  exact hi.dir (CE.errOK (CE.of_cd h.counts) herr)

end H2V.Lemmas.ConnCountsP
