import H2V.Lemmas.ConnFlowPDrain
/-
  ConnFlowP, part 28 — the wake-up at the level of the stream layer: when `try_assign_capacity` makes
  what `capacity()` reports for a stream grow, the waker parked in the stream's `send_task` is in the
  wake log afterwards and the stream's `send_capacity_inc` flag is set (so the woken task's
  `poll_capacity` reports the capacity instead of parking again).
-/
namespace H2V.Lemmas.ConnFlowP
open H2V H2V.Model H2V.Model.Conn H2V.Lemmas.Comp

/-- what `capacity()`, the flag and the waker look at -/
def capView (x : Stream) : FlowControl × Nat × Bool × Option String :=
  (x.sendFlow, x.bufferedSendData, x.sendCapacityInc, x.sendTask)

theorem capacity_of_capView {x y : Stream} (h : capView x = capView y) (m : Nat) : x.capacity m = y.capacity m := by
  unfold capView at h
  simp only [Prod.mk.injEq] at h
  unfold Stream.capacity
  rw [h.1, h.2.1]

theorem stream_modStream_capView {s : Streams} (id k : Nat) (f : Stream → Stream)
    (hf : ∀ x, (f x).key = x.key ∧ capView (f x) = capView x) :
    capView ((s.modStream id f).stream k) = capView (s.stream k) := by
  by_cases hk : k = id
  · subst hk
    cases h : s.store.get? k with
    | none => rw [modStream_none h, stream_panic]
    | some st => rw [stream_modStream_self h f (hf st).1, stream_of_get h, (hf st).2]
  · rw [stream_modStream_other f (fun x => (hf x).1) hk]

theorem qPush_capView (s : Streams) (q : QName) (id k : Nat) :
    capView ((s.qPush q id).1.stream k) = capView (s.stream k) ∧ (s.qPush q id).1.wakes = s.wakes ∧
    (s.qPush q id).1.prio.maxBufferSize = s.prio.maxBufferSize := by
  unfold Streams.qPush
  split
  · exact ⟨rfl, rfl, rfl⟩
  · have h1 := stream_modStream_capView (s := s) id k (fun st => st.setQueued q true)
      (by intro x; cases q <;> exact ⟨rfl, rfl⟩)
    have hw : (s.modStream id fun st => st.setQueued q true).wakes = s.wakes := by
      unfold Streams.modStream; split
      · rfl
      · unfold Streams.panic; split <;> rfl
    refine ⟨?_, ?_, ?_⟩
    · have : ((s.modStream id fun st => st.setQueued q true).setQ q (s.getQ q ++ [id])).stream k =
          (s.modStream id fun st => st.setQueued q true).stream k := by cases q <;> rfl
      rw [this]; exact h1
    · have : ((s.modStream id fun st => st.setQueued q true).setQ q (s.getQ q ++ [id])).wakes =
          (s.modStream id fun st => st.setQueued q true).wakes := by cases q <;> rfl
      rw [this]; exact hw
    · have : ((s.modStream id fun st => st.setQueued q true).setQ q (s.getQ q ++ [id])).prio.maxBufferSize =
          (s.modStream id fun st => st.setQueued q true).prio.maxBufferSize := by cases q <;> rfl
      rw [this, modStream_prio]

theorem notifySend_capacity (x : Stream) (m : Nat) : x.notifySend.1.capacity m = x.capacity m := by
  have h1 := notifySend_kf x
  have h2 : x.notifySend.1.bufferedSendData = x.bufferedSendData := by
    unfold Stream.notifySend
    cases x.sendTask <;> dsimp only <;> split <;> rfl
  unfold Stream.capacity; rw [h1.2, h2]

/-- **a grown capacity wakes the waiter** (stream layer) -/
theorem tryAssign_wakes {s : Streams} {id : Nat} {st : Stream} {tag : String}
    (hget : s.store.get? id = some st) (ht : st.sendTask = some tag)
    (hgrow : s.sendCapacity id < (s.tryAssignCapacity id).sendCapacity id) :
    tag ∈ (s.tryAssignCapacity id).wakes ∧ ((s.tryAssignCapacity id).stream id).sendCapacityInc = true := by
  unfold Streams.tryAssignCapacity at hgrow ⊢
  dsimp only at hgrow ⊢
  split at hgrow
  · exact absurd hgrow (Nat.lt_irrefl _)
  rename_i h1
  rw [if_neg h1]
  split at hgrow
  · exact absurd hgrow (Nat.lt_irrefl _)
  rename_i h2
  rw [if_neg h2]
  split at hgrow
  · exact absurd hgrow (Nat.lt_irrefl _)
  rename_i h3
  rw [if_neg h3]
  generalize hS1 : (if _ > 0 then _ else s) = S1 at hgrow ⊢
  -- the two conditional pushes keep capacity, flag and wake log
  have hq : ∀ (T : Streams) (q : QName) (b : Bool),
      capView ((if b = true then (T.qPush q id).1 else T).stream id) = capView (T.stream id) ∧
      (if b = true then (T.qPush q id).1 else T).wakes = T.wakes ∧
      (if b = true then (T.qPush q id).1 else T).prio.maxBufferSize = T.prio.maxBufferSize := by
    intro T q b; cases b
    · exact ⟨rfl, rfl, rfl⟩
    · exact qPush_capView T q id id
  have hfin : ∀ (b1 b2 : Bool),
      capView ((if b2 = true then ((if b1 = true then (S1.qPush .pendingCapacity id).1 else S1).qPush .pendingSend id).1
        else (if b1 = true then (S1.qPush .pendingCapacity id).1 else S1)).stream id) = capView (S1.stream id) ∧
      (if b2 = true then ((if b1 = true then (S1.qPush .pendingCapacity id).1 else S1).qPush .pendingSend id).1
        else (if b1 = true then (S1.qPush .pendingCapacity id).1 else S1)).wakes = S1.wakes ∧
      (if b2 = true then ((if b1 = true then (S1.qPush .pendingCapacity id).1 else S1).qPush .pendingSend id).1
        else (if b1 = true then (S1.qPush .pendingCapacity id).1 else S1)).prio.maxBufferSize = S1.prio.maxBufferSize := by
    intro b1 b2
    have a := hq S1 .pendingCapacity b1
    have b := hq (if b1 = true then (S1.qPush .pendingCapacity id).1 else S1) .pendingSend b2
    exact ⟨b.1.trans a.1, b.2.1.trans a.2.1, b.2.2.trans a.2.2⟩
  have hf := hfin ((S1.stream id).sendFlow.available.ltUsize (S1.stream id).requestedSendCapacity &&
      (S1.stream id).sendFlow.hasUnavailable) (decide ((S1.stream id).bufferedSendData > 0) && (S1.stream id).isSendReady)
  have hcapfin : ∀ X : Streams, capView (X.stream id) = capView (S1.stream id) →
      X.prio.maxBufferSize = S1.prio.maxBufferSize → X.sendCapacity id = S1.sendCapacity id := by
    intro X hx hm
    unfold Streams.sendCapacity; rw [hm]; exact capacity_of_capView hx _
  rw [hcapfin _ hf.1 hf.2.2] at hgrow
  rw [hf.2.1]
  have hinc : ∀ X : Streams, capView (X.stream id) = capView (S1.stream id) →
      (X.stream id).sendCapacityInc = (S1.stream id).sendCapacityInc := by
    intro X hx
    unfold capView at hx
    simp only [Prod.mk.injEq] at hx
    exact hx.2.2.1
  rw [hinc _ hf.1]
  clear hf hfin hq hcapfin hinc
  subst hS1
  split at hgrow
  · rename_i hpos
    rw [if_pos hpos]
    -- the assignment
    generalize hn : min s.prio.flow.available.asSize
      (min (wrapSubU32 (s.stream id).requestedSendCapacity (s.stream id).sendFlow.available.asSize)
        (wrapSubU32 (s.stream id).sendFlow.windowSz (s.stream id).sendFlow.available.asSize)) = n at hgrow ⊢
    have hkf := assignCapacity_kf st n s.prio.maxBufferSize
    have hstream : ((s.modStreamW id fun st => st.assignCapacity n s.prio.maxBufferSize).modPrio
        fun p => { p with flow := (p.flow.claimCapacity n).1 }).stream id = (st.assignCapacity n s.prio.maxBufferSize).1 :=
      stream_modStreamW_self hget _ hkf.1
    have hwakes : ((s.modStreamW id fun st => st.assignCapacity n s.prio.maxBufferSize).modPrio
        fun p => { p with flow := (p.flow.claimCapacity n).1 }).wakes = s.wakes ++ (st.assignCapacity n s.prio.maxBufferSize).2 := by
      unfold Streams.modStreamW; rw [hget]; rfl
    have hcap : ((s.modStreamW id fun st => st.assignCapacity n s.prio.maxBufferSize).modPrio
        fun p => { p with flow := (p.flow.claimCapacity n).1 }).sendCapacity id =
        (st.assignCapacity n s.prio.maxBufferSize).1.capacity s.prio.maxBufferSize := by
      unfold Streams.sendCapacity
      rw [hstream]
      show Stream.capacity _ (s.modStreamW id _).prio.maxBufferSize = _
      rw [modStreamW_prio]
    rw [hcap] at hgrow
    have hs0 : s.sendCapacity id = st.capacity s.prio.maxBufferSize := by
      unfold Streams.sendCapacity; rw [stream_of_get hget]
    rw [hs0] at hgrow
    have hcap2 : (st.assignCapacity n s.prio.maxBufferSize).1.capacity s.prio.maxBufferSize =
        ({ st with sendFlow := (st.sendFlow.assignCapacity n).1 } : Stream).capacity s.prio.maxBufferSize := by
      unfold Stream.assignCapacity
      dsimp only
      split
      · unfold Stream.notifyCapacity; rw [notifySend_capacity]; rfl
      · rfl
    rw [hcap2] at hgrow
    have hnot := assignCapacity_notifies st n s.prio.maxBufferSize hgrow
    rw [hstream, hwakes]
    exact ⟨List.mem_append_right _ (hnot.2.2 tag ht), hnot.1⟩
  · exact absurd hgrow (Nat.lt_irrefl _)

end H2V.Lemmas.ConnFlowP
