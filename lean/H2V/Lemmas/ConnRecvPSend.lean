import H2V.Lemmas.ConnRecvPTac
/-
  C03 — part 3: every function of the send side (`ConnStore.lean` counters / `transition_after`,
  `ConnSend.lean` = prioritize.rs + send.rs) is an `Ext` step: it does not touch receive flow control.
-/
namespace H2V.Lemmas.ConnRecvP
open H2V H2V.Model H2V.Model.Conn
open H2V.Model.Conn.Streams
attribute [local irreducible] wrapSubU32 wrapSubUsize

-- ===================================================================== ConnStore.lean

theorem qPush_ext (s : Streams) (q : QName) (id : Nat) : Ext s (s.qPush q id).1 := by
  unfold Streams.qPush; ext_auto

theorem qPushFront_ext (s : Streams) (q : QName) (id : Nat) : Ext s (s.qPushFront q id).1 := by
  unfold Streams.qPushFront; ext_auto

theorem qPop_ext (s : Streams) (q : QName) : Ext s (s.qPop q).1 := by
  unfold Streams.qPop; ext_auto

theorem incNumSendStreams_ext (s : Streams) (id : Nat) : Ext s (s.incNumSendStreams id) := by
  unfold Streams.incNumSendStreams; ext_auto

theorem incNumRecvStreams_ext (s : Streams) (id : Nat) : Ext s (s.incNumRecvStreams id) := by
  unfold Streams.incNumRecvStreams; ext_auto

theorem decNumStreams_ext (s : Streams) (id : Nat) : Ext s (s.decNumStreams id) := by
  unfold Streams.decNumStreams; ext_auto

theorem transitionAfter_ext (s : Streams) (id : Nat) (b : Bool) : Ext s (s.transitionAfter id b) := by
  unfold Streams.transitionAfter; ext_auto

-- ===================================================================== prioritize.rs

theorem scheduleSend_ext (s : Streams) (id : Nat) : Ext s (s.scheduleSend id) := by
  unfold Streams.scheduleSend; ext_auto

theorem queueFrame_ext (s : Streams) (id : Nat) (f : SFrame) : Ext s (s.queueFrame id f) := by
  unfold Streams.queueFrame; ext_auto

theorem queueOpen_ext (s : Streams) (id : Nat) : Ext s (s.queueOpen id) := by
  unfold Streams.queueOpen; ext_auto

theorem tryAssignCapacity_ext (s : Streams) (id : Nat) : Ext s (s.tryAssignCapacity id) := by
  unfold Streams.tryAssignCapacity; ext_auto

theorem assignConnectionCapacityLoop_ext (n : Nat) (s : Streams) : Ext s (assignConnectionCapacityLoop n s) := by
  induction n generalizing s with
  | zero => unfold assignConnectionCapacityLoop; ext_auto
  | succ n ih => unfold assignConnectionCapacityLoop; ext_auto_ih ih

theorem assignConnectionCapacity_ext (s : Streams) (inc : Nat) : Ext s (s.assignConnectionCapacity inc) := by
  unfold Streams.assignConnectionCapacity; ext_auto

theorem reserveCapacity_ext (s : Streams) (id cap : Nat) : Ext s (s.reserveCapacity id cap) := by
  unfold Streams.reserveCapacity; ext_auto

theorem sendClose_state_same {s : Streams} {id : Nat} {st' : State} (h : (s.stream id).state.sendClose = some st')
    (x : Stream) (hx : s.store.get? id = some x) : SameR x { x with state := st' } := by
  refine setState_same x st' fun hc => ?_
  rw [stream_eq_of_get? hx] at h
  exact sendClose_closed _ _ hc h


theorem prioRecvStreamWindowUpdate_ext (s : Streams) (id inc : Nat) : Ext s (s.prioRecvStreamWindowUpdate id inc).1 := by
  unfold Streams.prioRecvStreamWindowUpdate; ext_auto

theorem recvConnectionWindowUpdate_ext (s : Streams) (inc : Nat) : Ext s (s.recvConnectionWindowUpdate inc).1 := by
  unfold Streams.recvConnectionWindowUpdate; ext_auto

theorem reclaimAllCapacity_ext (s : Streams) (id : Nat) : Ext s (s.reclaimAllCapacity id) := by
  unfold Streams.reclaimAllCapacity; ext_auto

theorem reclaimReservedCapacity_ext (s : Streams) (id : Nat) : Ext s (s.reclaimReservedCapacity id) := by
  unfold Streams.reclaimReservedCapacity; ext_auto

theorem clearPendingCapacity_ext (n : Nat) (s : Streams) : Ext s (clearPendingCapacity n s) := by
  induction n generalizing s with
  | zero => unfold clearPendingCapacity; ext_auto
  | succ n ih => unfold clearPendingCapacity; ext_auto_ih ih

theorem clearQueue_ext (s : Streams) (id : Nat) : Ext s (s.clearQueue id) := by
  unfold Streams.clearQueue; ext_auto

theorem clearPendingSend_ext (n : Nat) (s : Streams) : Ext s (clearPendingSend n s) := by
  induction n generalizing s with
  | zero => unfold clearPendingSend; ext_auto
  | succ n ih => unfold clearPendingSend; ext_auto_ih ih

theorem clearPendingOpen_ext (n : Nat) (s : Streams) : Ext s (clearPendingOpen n s) := by
  induction n generalizing s with
  | zero => unfold clearPendingOpen; ext_auto
  | succ n ih => unfold clearPendingOpen; ext_auto_ih ih

theorem popPendingOpen_ext (s : Streams) : Ext s s.popPendingOpen.1 := by
  unfold Streams.popPendingOpen; ext_auto

theorem reclaimFrameInner_ext (s : Streams) (f : DataFrame) : Ext s (s.reclaimFrameInner f).1 := by
  unfold Streams.reclaimFrameInner; ext_auto

theorem reclaimFrame_ext (s : Streams) (w : Writer) : Ext s (s.reclaimFrame w).1 := by
  unfold Streams.reclaimFrame; ext_auto

theorem bufferOut_ext (s : Streams) (w : Writer) (f : OutFrame) : Ext s (s.bufferOut w f).1 := by
  unfold Streams.bufferOut; ext_auto

theorem prioSendData_ext (s : Streams) (id len : Nat) (eos : Bool) : Ext s (s.prioSendData id len eos).1 := by
  unfold Streams.prioSendData; ext_auto
  all_goals (first | exact sendClose_state_same (by assumption) | skip)

theorem popFrame_ext (n : Nat) (s : Streams) (m : Nat) : Ext s (popFrame n s m).1 := by
  induction n generalizing s m with
  | zero => unfold popFrame; ext_auto
  | succ n ih => unfold popFrame; ext_auto_ih ih

end H2V.Lemmas.ConnRecvP
