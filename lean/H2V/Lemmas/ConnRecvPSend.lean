import H2V.Lemmas.ConnRecvPTac
/-
  C03 — part 3: every function of the send side (`ConnStore.lean` counters / `transition_after`,
  `ConnSend.lean` = prioritize.rs + send.rs) is an `Ext` step: it does not touch receive flow control.
-/
namespace H2V.Lemmas.ConnRecvP
open H2V H2V.Model H2V.Model.Conn
open H2V.Model.Conn.Streams
attribute [local irreducible] wrapSubU32 wrapSubUsize

-- ===================================================================== ConnStore.lean

theorem qPush_ext (s : Streams) (q : QName) (id : Nat) : Ext s (s.qPush q id).1 := by
  unfold Streams.qPush; ext_auto

theorem qPushFront_ext (s : Streams) (q : QName) (id : Nat) : Ext s (s.qPushFront q id).1 := by
  unfold Streams.qPushFront; ext_auto

theorem qPop_ext (s : Streams) (q : QName) : Ext s (s.qPop q).1 := by
  unfold Streams.qPop; ext_auto

theorem incNumSendStreams_ext (s : Streams) (id : Nat) : Ext s (s.incNumSendStreams id) := by
  unfold Streams.incNumSendStreams; ext_auto

theorem incNumRecvStreams_ext (s : Streams) (id : Nat) : Ext s (s.incNumRecvStreams id) := by
  unfold Streams.incNumRecvStreams; ext_auto

theorem decNumStreams_ext (s : Streams) (id : Nat) : Ext s (s.decNumStreams id) := by
  unfold Streams.decNumStreams; ext_auto

theorem transitionAfter_ext (s : Streams) (id : Nat) (b : Bool) : Ext s (s.transitionAfter id b) := by
  unfold Streams.transitionAfter; ext_auto

-- ===================================================================== prioritize.rs

theorem scheduleSend_ext (s : Streams) (id : Nat) : Ext s (s.scheduleSend id) := by
  unfold Streams.scheduleSend; ext_auto

theorem queueFrame_ext (s : Streams) (id : Nat) (f : SFrame) : Ext s (s.queueFrame id f) := by
  unfold Streams.queueFrame; ext_auto

theorem queueOpen_ext (s : Streams) (id : Nat) : Ext s (s.queueOpen id) := by
  unfold Streams.queueOpen; ext_auto

theorem tryAssignCapacity_ext (s : Streams) (id : Nat) : Ext s (s.tryAssignCapacity id) := by
  unfold Streams.tryAssignCapacity; ext_auto

theorem assignConnectionCapacityLoop_ext (n : Nat) (s : Streams) : Ext s (assignConnectionCapacityLoop n s) := by
  induction n generalizing s with
  | zero => unfold assignConnectionCapacityLoop; ext_auto
  | succ n ih => unfold assignConnectionCapacityLoop; ext_auto_ih ih

theorem assignConnectionCapacity_ext (s : Streams) (inc : Nat) : Ext s (s.assignConnectionCapacity inc) := by
  unfold Streams.assignConnectionCapacity; ext_auto

theorem reserveCapacity_ext (s : Streams) (id cap : Nat) : Ext s (s.reserveCapacity id cap) := by
  unfold Streams.reserveCapacity; ext_auto

theorem sendClose_state_same {s : Streams} {id : Nat} {st' : State} (h : (s.stream id).state.sendClose = some st')
    (x : Stream) (hx : s.store.get? id = some x) : SameR x { x with state := st' } := by
  refine setState_same x st' fun hc => ?_
  rw [stream_eq_of_get? hx] at h
  exact sendClose_closed _ _ hc h


theorem prioRecvStreamWindowUpdate_ext (s : Streams) (id inc : Nat) : Ext s (s.prioRecvStreamWindowUpdate id inc).1 := by
  unfold Streams.prioRecvStreamWindowUpdate; ext_auto

theorem recvConnectionWindowUpdate_ext (s : Streams) (inc : Nat) : Ext s (s.recvConnectionWindowUpdate inc).1 := by
  unfold Streams.recvConnectionWindowUpdate; ext_auto

theorem reclaimAllCapacity_ext (s : Streams) (id : Nat) : Ext s (s.reclaimAllCapacity id) := by
  unfold Streams.reclaimAllCapacity; ext_auto

theorem reclaimReservedCapacity_ext (s : Streams) (id : Nat) : Ext s (s.reclaimReservedCapacity id) := by
  unfold Streams.reclaimReservedCapacity; ext_auto

theorem clearPendingCapacity_ext (n : Nat) (s : Streams) : Ext s (clearPendingCapacity n s) := by
  induction n generalizing s with
  | zero => unfold clearPendingCapacity; ext_auto
  | succ n ih => unfold clearPendingCapacity; ext_auto_ih ih

theorem clearQueue_ext (s : Streams) (id : Nat) : Ext s (s.clearQueue id) := by
  unfold Streams.clearQueue; ext_auto

theorem clearPendingSend_ext (n : Nat) (s : Streams) : Ext s (clearPendingSend n s) := by
  induction n generalizing s with
  | zero => unfold clearPendingSend; ext_auto
  | succ n ih => unfold clearPendingSend; ext_auto_ih ih

theorem clearPendingOpen_ext (n : Nat) (s : Streams) : Ext s (clearPendingOpen n s) := by
  induction n generalizing s with
  | zero => unfold clearPendingOpen; ext_auto
  | succ n ih => unfold clearPendingOpen; ext_auto_ih ih

theorem popPendingOpen_ext (s : Streams) : Ext s s.popPendingOpen.1 := by
  unfold Streams.popPendingOpen; ext_auto

theorem reclaimFrameInner_ext (s : Streams) (f : DataFrame) : Ext s (s.reclaimFrameInner f).1 := by
  unfold Streams.reclaimFrameInner; ext_auto

theorem reclaimFrame_ext (s : Streams) (w : Writer) : Ext s (s.reclaimFrame w).1 := by
  unfold Streams.reclaimFrame; ext_auto

theorem bufferOut_ext (s : Streams) (w : Writer) (f : OutFrame) : Ext s (s.bufferOut w f).1 := by
  unfold Streams.bufferOut; ext_auto

theorem prioSendData_ext (s : Streams) (id len : Nat) (eos : Bool) : Ext s (s.prioSendData id len eos).1 := by
  unfold Streams.prioSendData; ext_auto
  all_goals (first | exact sendClose_state_same (by assumption) | skip)

abstract_const Streams.popFrame._f Stream.sendData as popF_G
noncomputable def popFrameG (sd : Stream → Nat → Nat → Stream × List String × Bool) (x : Nat) (s : Streams) (m : Nat) : Streams × Option OutFrame :=
  Nat.brecOn (motive := fun _ => Streams → Nat → Streams × Option Streams.OutFrame) x (popF_G sd) s m
kernel_rfl popFrame_eq_G : popFrame = popFrameG Stream.sendData

/-- copy of `pop_frame` with `Stream::send_data` as a parameter -/
def popFrame' (sd : Stream → Nat → Nat → Stream × List String × Bool) : Nat → Streams → Nat → Streams × Option OutFrame
  | 0, s, _ => (s, none)
  | fuel + 1, s, maxLen =>
    match s.qPop .pendingSend with
    | (s, none) => (s, none)
    | (s, some id) =>
      let st := s.stream id
      let isPendingReset := st.isPendingResetExpiration
      let finish := fun (s : Streams) (f : OutFrame) =>
        let st := s.stream id
        let s := if !st.pendingSend.isEmpty || st.state.isScheduledReset then (s.qPush .pendingSend id).1 else s
        (s.transitionAfter id isPendingReset, some f)
      match st.pendingSend with
      | .data sz eos :: rest =>
        let discard : Bool := match st.state.getScheduledReset with
          | some reason => reason != NO_ERROR
          | none => false
        if discard then
          let s := (s.clearQueue id).reclaimAllCapacity id
          popFrame' sd fuel (s.qPush .pendingSend id).1 maxLen
        else
          let streamCapacity := st.sendFlow.available
          if sz > 0 && streamCapacity.eqUsize 0 then
            popFrame' sd fuel s maxLen
          else
            let len := usizeAsU32 (min (min sz maxLen) streamCapacity.asSize)
            if len > 0 && len > st.sendFlow.windowSz then
              popFrame' sd fuel s maxLen
            else
              let s := s.modStream id fun st => { st with pendingSend := rest }
              let (st', w, bad) := sd (s.stream id) len s.prio.maxBufferSize
              let s := (s.setStream st').wake w
              let s := if bad then s.panic "assertion failed: self.window_size.0 >= sz as i32 (stream)" else s
              let s := s.modPrio fun p => { p with flow := (p.flow.assignCapacity len).1 }
              let (fl, r) := s.prio.flow.sendData len
              let s := s.modPrio fun p => { p with flow := fl }
              let s := match r with
                | .error .assertFailed => s.panic "assertion failed: self.window_size.0 >= sz as i32 (connection)"
                | _ => s
              let flagEos := if sz > len then false else eos
              finish s (.data len flagEos { key := id, sid := st.id, rest := sz - len, eos := eos })
      | .headers heos fields :: rest =>
        finish (s.modStream id fun st => { st with pendingSend := rest }) (.headers st.id heos fields)
      | .reset reason :: rest =>
        finish (s.modStream id fun st => { st with pendingSend := rest }) (.reset st.id reason)
      | .pushPromise pk pid fields :: rest =>
        let s := s.modStream id fun st => { st with pendingSend := rest }
        match s.store.findKey? pid with
        | none =>
          let st := s.stream id
          let s := if !st.pendingSend.isEmpty || st.state.isScheduledReset then (s.qPush .pendingSend id).1 else s
          popFrame' sd fuel (s.transitionAfter id isPendingReset) maxLen
        | some pushed =>
          let _ := pk
          let s := s.modStream pushed fun st => { st with isPendingPush := false }
          let s :=
            if !(s.stream pushed).pendingSend.isEmpty then
              if s.counts.canIncNumSendStreams then (((s.incNumSendStreams pushed).qPush .pendingSend pushed).1)
              else s.queueOpen pushed
            else s
          finish s (.pushPromise st.id pid fields)
      | [] =>
        match st.state.getScheduledReset with
        | some reason =>
          let s := s.modStreamW id fun st => st.setReset reason .library
          finish s (.reset st.id reason)
        | none =>
          popFrame' sd fuel (s.transitionAfter id isPendingReset) maxLen


kernel_rfl popFrameG_eq' : ∀ (sd : Stream → Nat → Nat → Stream × List String × Bool), popFrameG sd = popFrame' sd

/-- `pop_frame` is the copy instantiated with `Stream::send_data` -/
theorem popFrame_eq' : popFrame = popFrame' Stream.sendData := by
  rw [popFrame_eq_G, popFrameG_eq']

theorem ext_setStream_of_sd {s0 s : Streams} {sd : Stream → Nat → Nat → Stream × List String × Bool}
    (hsd : ∀ x a b, SameR x (sd x a b).1) {id a b : Nat} {st' : Stream} {w : List String} {bad : Bool}
    (hx : Ext s0 s) (heq : sd (s.stream id) a b = (st', w, bad)) : Ext s0 (s.setStream st') := by
  have h := hsd (s.stream id) a b
  rw [heq] at h
  exact hx.trans (setStream_stream_ext _ _ _ h)

theorem popFrame'_ext (sd : Stream → Nat → Nat → Stream × List String × Bool)
    (hsd : ∀ x a b, SameR x (sd x a b).1) (n : Nat) (s : Streams) (m : Nat) : Ext s (popFrame' sd n s m).1 := by
  induction n generalizing s m with
  | zero => unfold popFrame'; ext_auto
  | succ n ih =>
    unfold popFrame'; ext_auto_ih ih
    all_goals
      rename_i hx _ _ _ _ heq
      exact ext_setStream_of_sd hsd hx heq

theorem popFrame_ext (n : Nat) (s : Streams) (m : Nat) : Ext s (popFrame n s m).1 := by
  rw [popFrame_eq']; exact popFrame'_ext _ sendData_same n s m

theorem prioBufferPendingLoop_ext (n : Nat) (s : Streams) (w : Writer) : Ext s (prioBufferPendingLoop n s w).1 := by
  induction n generalizing s w with
  | zero => unfold prioBufferPendingLoop; ext_auto
  | succ n ih => unfold prioBufferPendingLoop; ext_auto_ih ih

theorem prioBufferPending_ext (n : Nat) (s : Streams) (w : Writer) : Ext s (prioBufferPending n s w).1 := by
  unfold prioBufferPending; ext_auto

-- ===================================================================== send.rs

theorem sendOpenId_ext (s : Streams) : Ext s s.sendOpenId.1 := by
  unfold Streams.sendOpenId; ext_auto

theorem sendOpen_state_same {s : Streams} {id : Nat} {eos : Bool} {st' : State} {r : Except UserError Unit}
    (h : (s.stream id).state.sendOpen eos = (st', r)) (x : Stream) (hx : s.store.get? id = some x) :
    SameR x { x with state := st' } := by
  refine setState_same x st' fun hc => ?_
  rw [stream_eq_of_get? hx] at h
  have := sendOpen_closed x.state eos hc
  rw [h] at this; exact this

theorem sendHeaders_ext (s : Streams) (id : Nat) (eos : Bool) (f : List Hpack.Field) : Ext s (s.sendHeaders id eos f).1 := by
  unfold Streams.sendHeaders; ext_auto
  all_goals (first | exact sendOpen_state_same (by assumption) | skip)

theorem sendReserveLocal_ext (s : Streams) : Ext s s.sendReserveLocal.1 := by
  unfold Streams.sendReserveLocal; ext_auto

theorem sendPushPromise_ext (s : Streams) (p k i : Nat) (f : List Hpack.Field) : Ext s (s.sendPushPromise p k i f).1 := by
  unfold Streams.sendPushPromise; ext_auto

theorem sendInterimInformationalHeaders_ext (s : Streams) (id : Nat) (f : List Hpack.Field) :
    Ext s (s.sendInterimInformationalHeaders id f).1 := by
  unfold Streams.sendInterimInformationalHeaders; ext_auto

theorem sendSendReset_ext (s : Streams) (id : Nat) (r : Reason) (i : Initiator) : Ext s (s.sendSendReset id r i) := by
  unfold Streams.sendSendReset; ext_auto

theorem scheduleImplicitReset_ext (s : Streams) (id : Nat) (r : Reason) : Ext s (s.scheduleImplicitReset id r) := by
  unfold Streams.scheduleImplicitReset; ext_auto
  all_goals (intro x _; exact setState_same x _ fun _ => rfl)

theorem sendTrailers_ext (s : Streams) (id : Nat) (f : List Hpack.Field) : Ext s (s.sendTrailers id f).1 := by
  unfold Streams.sendTrailers; ext_auto
  all_goals (first | exact sendClose_state_same (by assumption) | skip)

theorem pollCapacity_ext (s : Streams) (id : Nat) (t : String) : Ext s (s.pollCapacity id t).1 := by
  unfold Streams.pollCapacity; ext_auto

theorem pollReset_ext (s : Streams) (id : Nat) (m : PollReset) (t : String) : Ext s (s.pollReset id m t).1 := by
  unfold Streams.pollReset; ext_auto

theorem sendRecvStreamWindowUpdate_ext (s : Streams) (id sz : Nat) : Ext s (s.sendRecvStreamWindowUpdate id sz).1 := by
  unfold Streams.sendRecvStreamWindowUpdate; ext_auto

theorem sendRecvGoAway_ext (s : Streams) (l : Nat) : Ext s (s.sendRecvGoAway l).1 := by
  unfold Streams.sendRecvGoAway; ext_auto

theorem sendHandleError_ext (s : Streams) (id : Nat) : Ext s (s.sendHandleError id) := by
  unfold Streams.sendHandleError; ext_auto

/-- `Store::try_for_each` with a step that is an `Ext` step -/
theorem tryForEach_ext (f : Streams → Nat → Streams × Option PErr) (hf : ∀ s id, Ext s (f s id).1)
    (n i len : Nat) (s : Streams) : Ext s (tryForEach f n i len s).1 := by
  induction n generalizing i len s with
  | zero => unfold tryForEach; ext_auto
  | succ n ih =>
    unfold tryForEach; ext_auto_ih ih
    all_goals exact hf _ _

theorem storeTryForEach_ext (s : Streams) (f : Streams → Nat → Streams × Option PErr) (hf : ∀ s id, Ext s (f s id).1) :
    Ext s (s.storeTryForEach f).1 := by
  unfold Streams.storeTryForEach; exact tryForEach_ext f hf _ _ _ _

theorem storeForEach_ext (s : Streams) (f : Streams → Nat → Streams) (hf : ∀ s id, Ext s (f s id)) :
    Ext s (s.storeForEach f) := by
  unfold Streams.storeForEach; exact storeTryForEach_ext s _ fun s id => hf s id

theorem decStreamWindow_ext (dec acc : Nat) (s : Streams) (id : Nat) : Ext s (decStreamWindow dec acc s id).1 := by
  unfold Streams.decStreamWindow; ext_auto

theorem tryForEachAcc_ext (f : Nat → Streams → Nat → Streams × Nat × Option PErr) (hf : ∀ a s id, Ext s (f a s id).1)
    (n i len acc : Nat) (s : Streams) : Ext s (tryForEachAcc f n i len acc s).1 := by
  induction n generalizing i len acc s with
  | zero => unfold tryForEachAcc; ext_auto
  | succ n ih =>
    unfold tryForEachAcc; ext_auto_ih ih
    all_goals exact hf _ _ _

theorem sendApplyRemoteSettings_ext (s : Streams) (a b c : Option Nat) : Ext s (s.sendApplyRemoteSettings a b c).1 := by
  unfold Streams.sendApplyRemoteSettings; ext_auto

theorem sendClearQueues_ext (s : Streams) : Ext s s.sendClearQueues := by
  unfold Streams.sendClearQueues; ext_auto

theorem sendMaybeResetNextStreamId_ext (s : Streams) (id : Nat) : Ext s (s.sendMaybeResetNextStreamId id) := by
  unfold Streams.sendMaybeResetNextStreamId; ext_auto

end H2V.Lemmas.ConnRecvP
