import H2V.Lemmas.ConnNoPanicPIds
/-
  C08 (no panic) — `IBS`, part 2: the inserting operations (`send_request`, `Inner::send_reset`,
  `recv_headers`) and `IBS_step` over every operation covered by `opPre`.
-/
namespace H2V.Lemmas.ConnNoPanicP
open H2V H2V.Model H2V.Model.Conn H2V.Lemmas.ConnCountsP
open H2V.Lemmas.ConnResetP (Op run)
attribute [local irreducible] wrapSubU32 wrapSubUsize

/-- every entry of `s'` sits under the key of an entry of `s` with the same stream id; role kept,
    `next_stream_id` moved forward: what `IBS` needs of a step that inserts nothing -/
structure DN (s s' : Streams) : Prop where
  desc : ∀ k x', s'.store.get? k = some x' → ∃ x, s.store.get? k = some x ∧ x'.id = x.id
  nx : NX s s'

theorem DN.refl (s : Streams) : DN s s := ⟨fun _ x' h => ⟨x', h, rfl⟩, NX.refl s⟩
theorem DN.trans {a b c : Streams} (h1 : DN a b) (h2 : DN b c) : DN a c := by
  refine ⟨fun k x'' h => ?_, h1.nx.trans h2.nx⟩
  obtain ⟨x', hx', i'⟩ := h2.desc k x'' h
  obtain ⟨x, hx, i⟩ := h1.desc k x' hx'
  exact ⟨x, hx, i'.trans i⟩
theorem DN.of_ld {s s' : Streams} (h : LD s s') (hnx : NX s s') : DN s s' :=
  ⟨fun k x' hx' => let ⟨x, hx, _, i⟩ := h.desc k x' hx'; ⟨x, hx, i⟩, hnx⟩
theorem DN.of_evF {s s' : Streams} (e : EvB false s s') : DN s s' := .of_ld (evF_ld e) e.nx
theorem DN.of_ltw {ρ : Bool} {ks : List Nat} {s s' : Streams} (h : LTw ks s s') (e : EvB ρ s s') : DN s s' := by
  refine ⟨fun k x' hx' => ?_, e.nx⟩
  obtain ⟨x, hx⟩ := h.keys.live.mp ⟨x', hx'⟩
  have := h.sid k
  simp only [stream_of_get? hx, stream_of_get? hx'] at this
  exact ⟨x, hx, this⟩
theorem DN.of_le {ks : List Nat} {s s' : Streams} (h : LE ks s s') : DN s s' := .of_ltw h.lt h.ev
theorem DN.transitionAfter (s : Streams) (k : Nat) (b : Bool) : DN s (s.transitionAfter k b) :=
  .of_ld (LD.transitionAfter s k b) (NX.transitionAfter s k b)
theorem DN.transition {α : Type} {s : Streams} (k : Nat) (f : Streams → Streams × α) (h : DN s (f s).1) :
    DN s (s.transition k f).1 := by
  have : (s.transition k f).1 = (f s).1.transitionAfter k (s.stream k).isPendingResetExpiration := by
    unfold Streams.transition; rfl
  rw [this]; exact h.trans (.transitionAfter _ _ _)

theorem IBS.of_dn {s s' : Streams} (hi : IBS s) (hk' : KeysOK s') (h : DN s s') : IBS s' := by
  intro x' hx' hloc n' hn'
  obtain ⟨x, hx, hid⟩ := h.desc x'.key x' (hk'.get?_of_mem hx')
  obtain ⟨n, hn, hle, _⟩ := h.nx.next n' hn'
  rw [isLocalInit_eq, h.nx.role, ← isLocalInit_eq, hid] at hloc
  have := hi x (get?_mem hx) hloc n hn
  omega

/-- the slab shrinks or stays, role and `next_stream_id` stay -/
theorem IBS.of_sub {s s' : Streams} (hi : IBS s) (hsub : ∀ x ∈ s'.store.slab, x ∈ s.store.slab)
    (hc : s'.counts.isServer = s.counts.isServer) (ha : s'.actions.send.nextStreamId = s.actions.send.nextStreamId) : IBS s' := by
  intro x hx hloc n hn
  rw [isLocalInit_eq, hc, ← isLocalInit_eq] at hloc
  rw [ha] at hn
  exact hi x (hsub x hx) hloc n hn

/-- a new entry whose id, if locally initiated, is below `next_stream_id` -/
theorem IBS.insert {s : Streams} (hi : IBS s) (st : Stream)
    (hnew : s.counts.isLocalInit st.id = true → ∀ n, s.actions.send.nextStreamId = some n → st.id < n) :
    IBS { s with store := (s.store.insert st).1 } := by
  intro x hx hloc n hn
  have hx' : x ∈ s.store.slab ++ [({ st with key := s.store.nextKey } : Stream)] := hx
  rcases List.mem_append.mp hx' with h1 | h1
  · exact hi x h1 hloc n hn
  · rw [List.mem_singleton] at h1; subst h1
    exact hnew hloc n hn

-- ===================================================================== Inner::send_reset

theorem sendMaybeResetNextStreamId_above (s : Streams) (id : Nat) :
    ∀ n, (s.sendMaybeResetNextStreamId id).actions.send.nextStreamId = some n → id < n := by
  intro n hn
  unfold Streams.sendMaybeResetNextStreamId at hn
  split at hn
  · next nxt hnx =>
    split at hn
    · simp only [Streams.modSend] at hn
      split at hn
      · cases hn
      · cases hn; omega
    · rw [hnx] at hn; cases hn; omega
  · next hnx => rw [hnx] at hn; cases hn

theorem innerSendReset_ibs {s : Streams} (hn : NPI (fun _ => False) s) (hi : IBS s) (id : Nat) (reason : Reason) :
    IBS (s.innerSendReset id reason).1 := by
  unfold Streams.innerSendReset
  cases hfk : s.store.findKey? id with
  | some k =>
    simp only []
    exact hi.of_evF hn.keys (actionsSendReset_ev (ρ := false) s k reason .library)
  | none =>
    simp only []
    generalize hs1 : (if s.counts.isLocalInit id = true then s.sendMaybeResetNextStreamId id else s.recvMaybeResetNextStreamId id) = s1
    have h1 : IBS s1 ∧ KeysOK s1 ∧ (s1.counts.isLocalInit id = true → ∀ n, s1.actions.send.nextStreamId = some n → id < n) := by
      rw [← hs1]; split
      · next hloc =>
        have e := sendMaybeResetNextStreamId_ev (ρ := false) s id hloc
        exact ⟨hi.of_evF hn.keys e, e.keysOK hn.keys, fun _ => sendMaybeResetNextStreamId_above s id⟩
      · next hloc =>
        have e := recvMaybeResetNextStreamId_ev (ρ := false) s id
        refine ⟨hi.of_evF hn.keys e, e.keysOK hn.keys, fun h => ?_⟩
        rw [isLocalInit_eq, e.nx.role, ← isLocalInit_eq] at h
        exact absurd h hloc
    have h2 : IBS { s1 with store := (s1.store.insert (Stream.new id 0 0)).1 } := h1.1.insert _ h1.2.2
    exact h2.of_evF (h1.2.1.insert _) (actionsSendReset_ev (ρ := false) _ _ reason .library)

-- ===================================================================== Streams::send_request

theorem sendOpenId_next {s s1 : Streams} {id : Nat} (h : s.sendOpenId = (s1, .ok id)) :
    s1.counts = s.counts ∧ ∀ n, s1.actions.send.nextStreamId = some n → n = id + 2 := by
  unfold Streams.sendOpenId at h
  split at h
  · cases h
  · next id' hn' =>
    simp only [Prod.mk.injEq, Except.ok.injEq] at h
    obtain ⟨h1, h2⟩ := h
    subst h1 h2
    refine ⟨rfl, fun n hn => ?_⟩
    simp only [Streams.modSend] at hn
    split at hn
    · cases hn
    · cases hn; rfl

theorem sendRequestCore_ibs {s : Streams} (h : NPI (fun _ => False) s) (hi : IBS s) (isHead : Bool) (fields : List Hpack.Field)
    (eos : Bool) : IBS (sendRequestCore isHead fields eos s).1 := by
  unfold sendRequestCore
  generalize hso : s.sendOpenId = p
  obtain ⟨s1, r⟩ := p
  have e1 : EvB false s s1 := EvB.of_fst_eq hso (sendOpenId_ev (ρ := false) s)
  have h1 : IBS s1 := hi.of_evF h.keys e1
  have hk1 : KeysOK s1 := e1.keysOK h.keys
  have hst1 : s1.store = s.store := by have := sendOpenId_store s; rw [hso] at this; exact this
  cases r with
  | error e => exact h1
  | ok id =>
    simp only []
    have hnc : s1.store.contains id = false := by rw [hst1]; exact hi.hfree h id (sendOpenId_ok hso)
    simp only [hnc, Bool.false_eq_true, if_false]
    generalize hst : (if isHead = true then _ else Stream.new id s1.actions.send.initWindowSz s1.recv.initWindowSz) = st
    have hid : st.id = id := by rw [← hst]; split <;> rfl
    have h2 : IBS { s1 with store := (s1.store.insert st).1 } := by
      refine h1.insert st (fun _ n hn => ?_)
      rw [(sendOpenId_next hso).2 n hn, hid]; omega
    have hk2 : KeysOK { s1 with store := (s1.store.insert st).1 } := hk1.insert st
    have hkk : (s1.store.insert st).2 = s1.store.nextKey := rfl
    rw [hkk]
    generalize hsh : Streams.sendHeaders _ s1.store.nextKey eos fields = q
    obtain ⟨s3, r3⟩ := q
    have e3 : EvB false _ s3 := EvB.of_fst_eq hsh (sendHeaders_ev (ρ := false) _ _ _ _)
    have h3 : IBS s3 := h2.of_evF hk2 e3
    have hk3 : KeysOK s3 := e3.keysOK hk2
    cases r3 with
    | error e =>
      simp only []
      exact h3.of_sub (fun x hx => (List.mem_filter.mp hx).1) rfl rfl
    | ok u =>
      simp only []
      have h4 : IBS { s3 with refs := s3.refs + 1 } := h3.of_sub (fun _ hx => hx) rfl rfl
      exact h4.of_evF ⟨hk3.nodup, hk3.fresh⟩ (refInc_ev (ρ := false) _ _)

theorem sendRequest_ibs {s : Streams} (h : NPI (fun _ => False) s) (hi : IBS s) (isHead : Bool) (fields : List Hpack.Field)
    (eos : Bool) (pending : Option Nat) : IBS (s.sendRequest isHead fields eos pending).1 := by
  rcases sendRequest_cases s isHead fields eos pending with e | e
  · rw [e]; exact hi
  · rw [e]; exact sendRequestCore_ibs h hi isHead fields eos

-- ===================================================================== Inner::recv_headers

theorem recvHeadersTail_dn (k : Nat) (h : HeadersIn) (s : Streams) : DN s (recvHeadersTail k h s).1 := by
  unfold recvHeadersTail
  dsimp only
  split
  · exact .refl _
  · split
    · exact .refl _
    · exact .transition k _ (.of_le (recvHeadersClosure_le k h s))

theorem recvHeaders_ibs {s : Streams} (hn : NPI (fun _ => False) s) (hi : IBS s) (h : HeadersIn) :
    IBS (s.recvHeaders h).1 := by
  have hkF : KeysOK (s.recvHeaders h).1 := (recvHeaders_ev s h).keysOK hn.keys
  unfold Streams.recvHeaders at hkF ⊢
  dsimp only at hkF ⊢
  split
  · exact hi
  · next hmax =>
    rw [if_neg hmax] at hkF
    cases hfk : s.store.findKey? h.sid with
    | some k =>
      simp only [hfk] at hkF ⊢
      exact hi.of_dn hkF (recvHeadersTail_dn k h s)
    | none =>
      simp only [hfk] at hkF ⊢
      by_cases hforg : (!s.counts.isServer && s.mayHaveForgottenStream h.sid) = true
      · simp only [hforg, if_true]; exact hi
      · simp only [hforg, Bool.false_eq_true, if_false] at hkF ⊢
        generalize hro : s.recvOpen h.sid false = p at hkF ⊢
        obtain ⟨s1, res⟩ := p
        have e1 : EvB false s s1 := EvB.of_fst_eq hro (recvOpen_ev (ρ := false) s h.sid false)
        have h1 : IBS s1 := hi.of_evF hn.keys e1
        cases res with
        | error e => exact h1
        | ok b =>
          cases b
          · exact h1
          · simp only [] at hkF ⊢
            have hrem : s1.counts.isLocalInit (Stream.new h.sid s1.actions.send.initWindowSz s1.recv.initWindowSz).id = false :=
              recvOpen_true_remote hro
            have h2 := h1.insert (Stream.new h.sid s1.actions.send.initWindowSz s1.recv.initWindowSz)
              (fun hl => by rw [hrem] at hl; cases hl)
            exact h2.of_dn hkF (recvHeadersTail_dn _ h _)

-- ===================================================================== every covered operation

/-- **`IBS` is kept by every operation covered by `opPre`** -/
theorem IBS_step {s : Streams} (hn : NPI (fun _ => False) s) (hj : IBS s) (op : Op) (hpre : opPre s op) :
    IBS (op.apply s) := by
  have hk := hn.keys
  cases op <;> simp only [opPre] at hpre <;> try exact hpre.elim
  case recvHeaders h => exact recvHeaders_ibs hn hj h
  case recvData id p eos pad => exact hj.of_evF hk (recvData_ev (ρ := false) s id p eos pad)
  case recvReset id r => exact hj.of_evF hk (recvReset_ev (ρ := false) s id r)
  case recvWindowUpdate id inc => exact hj.of_evF hk (recvWindowUpdate_ev (ρ := false) s id inc)
  case innerSendReset id r => exact innerSendReset_ibs hn hj id r
  case recvGoAway l => exact hj.of_evF hk (recvGoAway_ev (ρ := false) s l)
  case handleError e => exact hj.of_evF hk (handleError_ev (ρ := false) s e)
  case recvGoAwayFrame l r d => exact hj.of_evF hk (recvGoAwayFrame_ev (ρ := false) s l r d)
  case recvEof b => exact hj.of_dn ((recvEof_evT s b).keysOK hk) (.of_ld (recvEof_ld s b) (recvEof_evT s b).nx)
  case clearExpiredResetStreams n =>
    exact hj.of_dn ((clearExpiredResetStreams_evT n s).keysOK hk)
      (.of_ld (clearExpiredResetStreams_ld n s) (clearExpiredResetStreams_evT n s).nx)
  case applyRemoteSettings v b => exact hj.of_evF hk (applyRemoteSettings_ev (ρ := false) s v b)
  case applyLocalSettingsFrame v => exact hj.of_evF hk (applyLocalSettingsFrame_ev (ρ := false) s v)
  case wake t => exact hj.of_evF hk (wake_ev (ρ := false) s t)
  case cloneHandle => exact hj.of_evF hk (cloneHandle_ev (ρ := false) s)
  case dropHandle => exact hj.of_evF hk (dropHandle_ev (ρ := false) s)
  case sendRequest a b c d => exact sendRequest_ibs hn hj a b c d
  case pollPendingOpen p t => exact hj.of_evF hk (pollPendingOpen_ev (ρ := false) s p t)
  case cloneStreamRef k => exact hj.of_evF hk (cloneStreamRef_ev (ρ := false) s k)
  case dropStreamRef k => exact hj.of_evF hk (dropStreamRef_ev (ρ := false) s k)
  case refSendResponse k f eos => exact hj.of_evF hk (refSendResponse_ev (ρ := false) s k f eos)
  case refSendInformationalHeaders k f => exact hj.of_evF hk (refSendInformationalHeaders_ev (ρ := false) s k f)
  case refSendData k len eos => exact hj.of_evF hk (refSendData_ev (ρ := false) s k len eos)
  case refSendTrailers k f => exact hj.of_evF hk (refSendTrailers_ev (ρ := false) s k f)
  case refReserveCapacity k c => exact hj.of_evF hk (refReserveCapacity_ev (ρ := false) s k c)
  case pollCapacity k t => exact hj.of_evF hk (pollCapacity_ev (ρ := false) s k t)
  case refSendReset k r => exact hj.of_evF hk (refSendReset_ev (ρ := false) s k r)
  case pollReset k m t => exact hj.of_evF hk (pollReset_ev (ρ := false) s k m t)
  case recvPollInformational k t => exact hj.of_evF hk (recvPollInformational_ev (ρ := false) s k t)
  case refPollData k t => exact hj.of_evF hk (refPollData_ev (ρ := false) s k t)
  case recvPollTrailers k t => exact hj.of_evF hk (recvPollTrailers_ev (ρ := false) s k t)
  case refReleaseCapacity k c => exact hj.of_evF hk (refReleaseCapacity_ev (ρ := false) s k c)
  case refClearRecvBuffer k => exact hj.of_evF hk (refClearRecvBuffer_ev (ρ := false) s k)

/-- `Streams::send_request` cannot hit `assert!(self.ids.insert(id, index).is_none())` -/
theorem sendRequest_npi' {s : Streams} (hn : NPI (fun _ => False) s) (hj : IBS s) (isHead : Bool) (fields : List Hpack.Field)
    (eos : Bool) (pending : Option Nat) :
    NPI (fun _ => False) (s.sendRequest isHead fields eos pending).1 ∧ IBS (s.sendRequest isHead fields eos pending).1 :=
  ⟨sendRequest_npi hn isHead fields eos pending (hj.hfree hn), sendRequest_ibs hn hj isHead fields eos pending⟩

end H2V.Lemmas.ConnNoPanicP
