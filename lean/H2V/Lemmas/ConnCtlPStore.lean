import H2V.Model.ConnStreams
/-
  ConnCtlP — small lemmas about the slab: looking a key up after `Store.set` / `modStream`.
-/
set_option autoImplicit false
set_option linter.unusedSimpArgs false
namespace H2V.Lemmas.ConnCtlP
open H2V H2V.Model H2V.Model.Conn

theorem Store.get?_key (st : Store) (k : Nat) (x : Stream) (h : st.get? k = some x) : x.key = k := by
  unfold Store.get? at h
  have := List.find?_some h
  simpa using this

theorem Store.get?_set (st : Store) (x s' : Stream) (k : Nat) (h : st.get? k = some x) (hs : s'.key = k) :
    (st.set s').get? k = some s' := by
  unfold Store.set Store.get? at *
  dsimp only
  generalize st.slab = l at h ⊢
  induction l with
  | nil => simp at h
  | cons y t ih =>
    simp only [List.map_cons, List.find?_cons] at h ⊢
    by_cases hy : (y.key == k) = true
    · have h1 : (y.key == s'.key) = true := by rw [hs]; exact hy
      have h2 : (s'.key == k) = true := by simp [hs]
      simp [h1, h2]
    · have hy' : (y.key == k) = false := by simpa using hy
      have h1 : (y.key == s'.key) = false := by rw [hs]; exact hy'
      simp only [h1, Bool.false_eq_true, if_false, hy'] at h ⊢
      exact ih h

theorem stream_modStream (s : Streams) (k : Nat) (f : Stream → Stream) (x : Stream) (h : s.store.get? k = some x)
    (hf : (f x).key = x.key) : (s.modStream k f).store.get? k = some (f x) := by
  unfold Streams.modStream
  rw [h]
  exact Store.get?_set s.store x (f x) k h (by rw [hf]; exact Store.get?_key _ _ _ h)

theorem stream_modStreamW (s : Streams) (k : Nat) (f : Stream → Stream × List String) (x : Stream)
    (h : s.store.get? k = some x) (hf : (f x).1.key = x.key) : (s.modStreamW k f).store.get? k = some (f x).1 := by
  unfold Streams.modStreamW
  rw [h]
  exact Store.get?_set s.store x (f x).1 k h (by rw [hf]; exact Store.get?_key _ _ _ h)

theorem stream_of_get? (s : Streams) (k : Nat) (x : Stream) (h : s.store.get? k = some x) : s.stream k = x := by
  unfold Streams.stream; rw [h]; rfl


end H2V.Lemmas.ConnCtlP
