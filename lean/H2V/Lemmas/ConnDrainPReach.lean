import H2V.Lemmas.ConnDrainPParked
import H2V.Lemmas.ConnDrainPPushed
/-
  ConnDrainP, part 13 — `DReach`: connection states reachable from a fresh connection by polls, handle calls,
  user calls on the connection and arbitrary transport events; `CInv` holds in all of them (`DReach.cinv`), hence
  `Connection::poll` `Pending` ⇒ `PollParked` in every history (`dreach_poll_pending_parked`).
-/
namespace H2V.Lemmas.ConnDrainP
open H2V H2V.Model H2V.Model.Conn

section
variable {s : Streams} (h : SReach s)
include h
theorem SReach.cloneHandle  : SReach s.cloneHandle :=
  h.step (h.k.cloneHandle) (.cloneHandle s) (.cloneHandle) trivial rfl
theorem SReach.dropHandle  : SReach s.dropHandle :=
  h.step (h.k.dropHandle) (.dropHandle s) (.dropHandle) trivial rfl
theorem SReach.cloneStreamRef (k : Nat) : SReach (s.cloneStreamRef k) :=
  h.step (h.k.cloneStreamRef k) (.cloneStreamRef s k) (.cloneStreamRef k) trivial rfl
theorem SReach.dropStreamRef (k : Nat) : SReach (s.dropStreamRef k) :=
  h.step (h.k.dropStreamRef k) (.dropStreamRef s k) (.dropStreamRef k) trivial rfl
theorem SReach.sendRequest (b : Bool) (f : List Hpack.Field) (e : Bool) (p : Option Nat) : SReach (s.sendRequest b f e p).1 :=
  h.step (h.k.sendRequest b f e p) (.sendRequest s b f e p) (.sendRequest b f e p) trivial rfl
theorem SReach.pollPendingOpen (p : Option Nat) (t : String) : SReach (s.pollPendingOpen p t).1 :=
  h.step (h.k.pollPendingOpen p t) (.pollPendingOpen s p t) (.pollPendingOpen p t) trivial rfl
theorem SReach.nextIncoming  : SReach s.nextIncoming.1 :=
  h.step (h.k.nextIncoming) (.nextIncoming s) (.nextIncoming) trivial rfl
theorem SReach.recvTakeRequest (k : Nat) : SReach (s.recvTakeRequest k).1 :=
  h.step (h.k.recvTakeRequest k) (.recvTakeRequest s k) (.recvTakeRequest k) trivial rfl
theorem SReach.refSendResponse (k : Nat) (f : List Hpack.Field) (e : Bool) : SReach (s.refSendResponse k f e).1 :=
  h.step (h.k.refSendResponse k f e) (.refSendResponse s k f e) (.refSendResponse k f e) trivial rfl
theorem SReach.refSendInformationalHeaders (k : Nat) (f : List Hpack.Field) : SReach (s.refSendInformationalHeaders k f).1 :=
  h.step (h.k.refSendInformationalHeaders k f) (.refSendInformationalHeaders s k f) (.refSendInformationalHeaders k f) trivial rfl
theorem SReach.refSendPushPromise (k : Nat) (v : Bool) (f : List Hpack.Field) : SReach (s.refSendPushPromise k v f).1 :=
  h.step (h.k.refSendPushPromise k v f) (.refSendPushPromise s k v f) (.refSendPushPromise k v f) trivial rfl
theorem SReach.refSendData (k len : Nat) (e : Bool) : SReach (s.refSendData k len e).1 :=
  h.step (h.k.refSendData k len e) (.refSendData s k len e) (.refSendData k len e) trivial rfl
theorem SReach.refSendTrailers (k : Nat) (f : List Hpack.Field) : SReach (s.refSendTrailers k f).1 :=
  h.step (h.k.refSendTrailers k f) (.refSendTrailers s k f) (.refSendTrailers k f) trivial rfl
theorem SReach.refSendReset (k : Nat) (r : Reason) : SReach (s.refSendReset k r) :=
  h.step (h.k.refSendReset k r) (.refSendReset s k r) (.refSendReset k r) trivial rfl
theorem SReach.refReserveCapacity (k c : Nat) : SReach (s.refReserveCapacity k c) :=
  h.step (h.k.refReserveCapacity k c) (.refReserveCapacity s k c) (.refReserveCapacity k c) trivial rfl
theorem SReach.pollCapacity (k : Nat) (t : String) : SReach (s.pollCapacity k t).1 :=
  h.step (h.k.pollCapacity k t) (.pollCapacity s k t) (.pollCapacity k t) trivial rfl
theorem SReach.pollReset (k : Nat) (m : PollReset) (t : String) : SReach (s.pollReset k m t).1 :=
  h.step (h.k.pollReset k m t) (.pollReset s k m t) (.pollReset k m t) trivial rfl
theorem SReach.recvPollResponse (n k : Nat) (t : String) : SReach (Streams.recvPollResponse n s k t).1 :=
  h.step (KInv.recvPollResponse n h.k k t) (.recvPollResponse n s k t) (.recvPollResponse n k t) trivial rfl
theorem SReach.recvPollInformational (k : Nat) (t : String) : SReach (s.recvPollInformational k t).1 :=
  h.step (h.k.recvPollInformational k t) (.recvPollInformational s k t) (.recvPollInformational k t) trivial rfl
theorem SReach.refPollData (k : Nat) (t : String) : SReach (s.refPollData k t).1 :=
  h.step (h.k.refPollData k t) (.refPollData s k t) (.refPollData k t) trivial rfl
theorem SReach.recvPollTrailers (k : Nat) (t : String) : SReach (s.recvPollTrailers k t).1 :=
  h.step (h.k.recvPollTrailers k t) (.recvPollTrailers s k t) (.recvPollTrailers k t) trivial rfl
theorem SReach.refReleaseCapacity (k c : Nat) : SReach (s.refReleaseCapacity k c).1 :=
  h.step (h.k.refReleaseCapacity k c) (.refReleaseCapacity s k c) (.refReleaseCapacity k c) trivial rfl
theorem SReach.refClearRecvBuffer (k : Nat) : SReach (s.refClearRecvBuffer k) :=
  h.step (h.k.refClearRecvBuffer k) (.refClearRecvBuffer s k) (.refClearRecvBuffer k) trivial rfl
theorem SReach.clearWakes : SReach { s with wakes := [] } :=
  h.step (h.k.withWakes []) (.clearWakes s) (.clearWakes) trivial rfl
end

/-- the calls the user-side handles make on the stream layer (any arguments) -/
inductive HandleStep : Streams → Streams → Prop
  | cloneHandle (s : Streams)  : HandleStep s s.cloneHandle
  | dropHandle (s : Streams)  : HandleStep s s.dropHandle
  | cloneStreamRef (s : Streams) (k : Nat) : HandleStep s (s.cloneStreamRef k)
  | dropStreamRef (s : Streams) (k : Nat) : HandleStep s (s.dropStreamRef k)
  | sendRequest (s : Streams) (b : Bool) (f : List Hpack.Field) (e : Bool) (p : Option Nat) : HandleStep s (s.sendRequest b f e p).1
  | pollPendingOpen (s : Streams) (p : Option Nat) (t : String) : HandleStep s (s.pollPendingOpen p t).1
  | nextIncoming (s : Streams)  : HandleStep s s.nextIncoming.1
  | recvTakeRequest (s : Streams) (k : Nat) : HandleStep s (s.recvTakeRequest k).1
  | refSendResponse (s : Streams) (k : Nat) (f : List Hpack.Field) (e : Bool) : HandleStep s (s.refSendResponse k f e).1
  | refSendInformationalHeaders (s : Streams) (k : Nat) (f : List Hpack.Field) : HandleStep s (s.refSendInformationalHeaders k f).1
  | refSendPushPromise (s : Streams) (k : Nat) (v : Bool) (f : List Hpack.Field) : HandleStep s (s.refSendPushPromise k v f).1
  | refSendData (s : Streams) (k len : Nat) (e : Bool) : HandleStep s (s.refSendData k len e).1
  | refSendTrailers (s : Streams) (k : Nat) (f : List Hpack.Field) : HandleStep s (s.refSendTrailers k f).1
  | refSendReset (s : Streams) (k : Nat) (r : Reason) : HandleStep s (s.refSendReset k r)
  | refReserveCapacity (s : Streams) (k c : Nat) : HandleStep s (s.refReserveCapacity k c)
  | pollCapacity (s : Streams) (k : Nat) (t : String) : HandleStep s (s.pollCapacity k t).1
  | pollReset (s : Streams) (k : Nat) (m : PollReset) (t : String) : HandleStep s (s.pollReset k m t).1
  | recvPollResponse (s : Streams) (n k : Nat) (t : String) : HandleStep s (Streams.recvPollResponse n s k t).1
  | recvPollInformational (s : Streams) (k : Nat) (t : String) : HandleStep s (s.recvPollInformational k t).1
  | refPollData (s : Streams) (k : Nat) (t : String) : HandleStep s (s.refPollData k t).1
  | recvPollTrailers (s : Streams) (k : Nat) (t : String) : HandleStep s (s.recvPollTrailers k t).1
  | refReleaseCapacity (s : Streams) (k c : Nat) : HandleStep s (s.refReleaseCapacity k c).1
  | refClearRecvBuffer (s : Streams) (k : Nat) : HandleStep s (s.refClearRecvBuffer k)
  | refPollPushed (s : Streams) (k : Nat) (t : String) : HandleStep s (s.refPollPushed k t).1
  | clearWakes (s : Streams) : HandleStep s { s with wakes := [] }
  | recvEof (s : Streams) (b : Bool) : HandleStep s (s.recvEof b)
  | wake (s : Streams) (t : List String) : HandleStep s (s.wake t)

theorem SReach.handle {s s' : Streams} (h : SReach s) (hs : HandleStep s s') : SReach s' := by
  cases hs with
  | cloneHandle => exact h.cloneHandle
  | dropHandle => exact h.dropHandle
  | cloneStreamRef k => exact h.cloneStreamRef k
  | dropStreamRef k => exact h.dropStreamRef k
  | sendRequest b f e p => exact h.sendRequest b f e p
  | pollPendingOpen p t => exact h.pollPendingOpen p t
  | nextIncoming => exact h.nextIncoming
  | recvTakeRequest k => exact h.recvTakeRequest k
  | refSendResponse k f e => exact h.refSendResponse k f e
  | refSendInformationalHeaders k f => exact h.refSendInformationalHeaders k f
  | refSendPushPromise k v f => exact h.refSendPushPromise k v f
  | refSendData k len e => exact h.refSendData k len e
  | refSendTrailers k f => exact h.refSendTrailers k f
  | refSendReset k r => exact h.refSendReset k r
  | refReserveCapacity k c => exact h.refReserveCapacity k c
  | pollCapacity k t => exact h.pollCapacity k t
  | pollReset k m t => exact h.pollReset k m t
  | recvPollResponse n k t => exact h.recvPollResponse n k t
  | recvPollInformational k t => exact h.recvPollInformational k t
  | refPollData k t => exact h.refPollData k t
  | recvPollTrailers k t => exact h.recvPollTrailers k t
  | refReleaseCapacity k c => exact h.refReleaseCapacity k c
  | refClearRecvBuffer k => exact h.refClearRecvBuffer k
  | refPollPushed k t => exact h.refPollPushed k t
  | clearWakes => exact h.clearWakes
  | recvEof b => exact h.recvEof b
  | wake t => exact h.wake t


-- ===================================================================== reachable connection states

/-- connection states reachable from a fresh connection (builder options h2 accepts) by: polls of the connection
    (any fuel), calls of the user-side handles on the stream layer (any arguments), arbitrary transport events
    (input delivered, budgets, errors, wakers taken), a change of the polling task, and the user calls on the
    connection object (`set_target_window_size`, `set_initial_window_size` with sizes ≤ 2^31-1 as h2 asserts,
    ping handle, graceful / abrupt shutdown) -/
inductive DReach : Conn → Prop
  | client (g : Conn.Cfg) (hodd : g.firstId % 2 = 1) (hcws : ∀ sz, g.cws = some sz → sz ≤ 2147483647)
      (hiws : ∀ t, g.iws = some t → t ≤ 2147483647) : DReach (Conn.init g)
  | server (g : Conn.Cfg) (ecp : Bool) (pf : Bytes) (hcws : ∀ sz, g.cws = some sz → sz ≤ 2147483647)
      (hiws : ∀ t, g.iws = some t → t ≤ 2147483647) : DReach (Conn.initServer g ecp pf)
  | protoPoll (n : Nat) {c : Conn} : DReach c → DReach (Conn.protoPoll n c).1
  | clientPoll (n : Nat) {c : Conn} : DReach c → DReach (Conn.clientPoll n c).1
  | handle {c : Conn} {s' : Streams} : DReach c → HandleStep c.streams s' → DReach { c with streams := s' }
  | transport {c : Conn} (io : Tio) : DReach c → DReach { c with codec := { c.codec with io := io } }
  | setCx {c : Conn} (tag : String) : DReach c → DReach { c with cx := tag }
  | setTargetWindowSize {c : Conn} (sz : Nat) (h : sz ≤ 2147483647) : DReach c → DReach (c.setTargetWindowSize sz)
  | setInitialWindowSize {c : Conn} (sz : Nat) (h : sz ≤ 2147483647) : DReach c → DReach (c.setInitialWindowSize sz).1
  | takeUserPings {c : Conn} : DReach c → DReach c.takeUserPings.1
  | userSendPing {c : Conn} : DReach c → DReach c.userSendPing.1
  | userPollPong {c : Conn} (tag : String) : DReach c → DReach (c.userPollPong tag).1
  | dropUserPingsRx {c : Conn} : DReach c → DReach c.dropUserPingsRx
  | goAwayGracefully {c : Conn} : DReach c → DReach c.goAwayGracefully
  | goAwayFromUser {c : Conn} (e : Reason) : DReach c → DReach (c.goAwayFromUser e)

theorem CInv.setInitialWindowSize {c : Conn} (h : CInv c) (sz : Nat) (hsz : sz ≤ 2147483647) :
    CInv (c.setInitialWindowSize sz).1 := by
  unfold Conn.setInitialWindowSize Conn.sendSettings
  split
  · next hl =>
    refine ⟨h.cap, h.sr, h.remote, ?_⟩
    intro v hv
    rcases hv with hv | hv
    · cases hv
    · injection hv with e
      subst e
      intro t ht
      have : ConnRecvP.settingsIws [(4, sz)] = some sz := by
        unfold ConnRecvP.settingsIws; simp
      rw [this] at ht; cases ht; exact hsz
  · exact h

theorem CInv.userPings {c : Conn} (h : CInv c) :
    CInv c.takeUserPings.1 ∧ CInv c.userSendPing.1 ∧ (∀ t, CInv (c.userPollPong t).1) ∧ CInv c.dropUserPingsRx := by
  refine ⟨?_, ?_, ?_, ?_⟩
  · unfold Conn.takeUserPings; split
    · exact h
    · exact h.of_streams h.sr rfl rfl
  · unfold Conn.userSendPing
    split
    · exact h
    · dsimp only
      split
      · have hw : CInv ({ c with streams := c.streams.wake (‹UserPings›).pingTask.toList }) := h.of_streams (h.sr.wake _) rfl rfl
        exact hw.of_streams hw.sr rfl rfl
      · split <;> exact h
  · intro t
    unfold Conn.userPollPong
    split
    · exact h
    · dsimp only
      split
      · exact h.of_streams h.sr rfl rfl
      · split <;> exact h.of_streams h.sr rfl rfl
  · unfold Conn.dropUserPingsRx
    split
    · exact h
    · dsimp only
      have hw : CInv ({ c with streams := c.streams.wake (‹UserPings›).pongTask.toList }) := h.of_streams (h.sr.wake _) rfl rfl
      exact hw.of_streams hw.sr rfl rfl

theorem CInv.goAwayGracefully {c : Conn} (h : CInv c) : CInv c.goAwayGracefully := by
  unfold Conn.goAwayGracefully
  split
  · exact h
  · dsimp only
    have h1 := h.dynGoAway Conn.STREAM_ID_MAX NO_ERROR
    have h2 : CInv (if (c.dynGoAway Conn.STREAM_ID_MAX NO_ERROR).pingPong.pendingPing.isSome = true then
        (c.dynGoAway Conn.STREAM_ID_MAX NO_ERROR).panic "assertion failed: self.pending_ping.is_none()"
        else c.dynGoAway Conn.STREAM_ID_MAX NO_ERROR) := CInv.ite _ (h1.panic _) h1
    exact h2.of_streams h2.sr rfl rfl

theorem CInv.goAwayFromUser {c : Conn} (h : CInv c) (e : Reason) : CInv (c.goAwayFromUser e) := by
  unfold Conn.goAwayFromUser
  dsimp only
  have h1 : CInv ({ c with goAway := (c.goAway.goAwayFromUser { lastStreamId := c.streams.recv.lastProcessedId, reason := e }).1 }) :=
    h.of_streams h.sr rfl rfl
  have h2 := h1.ite_panic ((c.goAway.goAwayFromUser { lastStreamId := c.streams.recv.lastProcessedId, reason := e }).2 = true)
    "GOAWAY stream IDs shouldn't be higher"
  exact h2.of_streams (h2.sr.handleError _) rfl rfl

/-- **the connection invariant holds in every reachable connection state** -/
theorem DReach.cinv {c : Conn} (h : DReach c) : CInv c := by
  induction h with
  | client g hodd hcws hiws => exact cinv_init g hodd hcws hiws
  | server g ecp pf hcws hiws => exact cinv_initServer g ecp pf hcws hiws
  | protoPoll n _ ih => exact CInv.protoPoll n ih
  | clientPoll n _ ih => exact ih.clientPoll n
  | handle _ hs ih => exact ih.of_streams (ih.sr.handle hs) rfl rfl
  | transport io _ ih => exact ⟨ih.cap, ih.sr, ih.remote, ih.loc⟩
  | setCx tag _ ih => exact ⟨ih.cap, ih.sr, ih.remote, ih.loc⟩
  | setTargetWindowSize sz hsz _ ih =>
    unfold Conn.setTargetWindowSize
    exact ih.of_streams (ih.sr.setTargetConnectionWindow sz hsz) rfl rfl
  | setInitialWindowSize sz hsz _ ih => exact ih.setInitialWindowSize sz hsz
  | takeUserPings _ ih => exact ih.userPings.1
  | userSendPing _ ih => exact ih.userPings.2.1
  | userPollPong tag _ ih => exact ih.userPings.2.2.1 tag
  | dropUserPingsRx _ ih => exact ih.userPings.2.2.2
  | goAwayGracefully _ ih => exact ih.goAwayGracefully
  | goAwayFromUser e _ ih => exact ih.goAwayFromUser e


/-- **no lost wake-up for the connection task, every history**: in every reachable connection state,
    `Connection::poll` answers `Pending` only with the connection task parked and nothing writable left -/
theorem dreach_poll_pending_parked {c c' : Conn} (n : Nat) (h : DReach c) (hp : c'.streams.panicked = none) :
    (Conn.protoPoll n c = (c', .pending) → PollParked c') ∧ (Conn.clientPoll n c = (c', .pending) → PollParked c') :=
  ⟨fun hq => protoPoll_pending_parked n c c' h.cinv hq hp, fun hq => clientPoll_pending_parked n c c' h.cinv hq hp⟩

/-- **the `pending_capacity` clause, in every history**: a stream waits in `pending_capacity` only while the
    connection-level send window has nothing left to hand out (`SReach.k`: `KInv` is part of the stream-layer
    invariant, kept by every call — ConnDrainPCapA…E) -/
theorem dreach_capacity {c : Conn} (h : DReach c) :
    c.streams.prio.pendingCapacity = [] ∨ c.streams.prio.flow.available.val = 0 := by
  have hk := h.cinv.sr.k
  rcases hk.cap with e | e
  · exact Or.inl e
  · exact Or.inr (by have := hk.safe.a0; omega)

end H2V.Lemmas.ConnDrainP
