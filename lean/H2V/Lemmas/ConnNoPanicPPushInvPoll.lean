import H2V.Lemmas.ConnNoPanicPPushInvStep
/-
  C08 (no panic) — PUSH_PROMISE bookkeeping, part 7 (stage 1, addendum): `OpaqueStreamRef::poll_pushed`
  (`Streams.refPollPushed`) on a connection without pending promises: the list is empty, so the call only parks the
  task (`push_task`) or reports the end / the error; `panic!("Headers not set on pushed stream")` is not reachable.
-/
namespace H2V.Lemmas.ConnNoPanicP
open H2V H2V.Model H2V.Model.Conn H2V.Lemmas.ConnCountsP
attribute [local irreducible] wrapSubU32 wrapSubUsize

/-- `Recv::poll_pushed` when the stream's `pending_push_promises` is empty (copied from the model) -/
def pollPushedNil (s : Streams) (id : Nat) (tag : String) : Streams × Streams.PollPushed :=
    match (s.stream id).state.ensureRecvOpen with
    | .error e => (s, .err e)
    | .ok true => (s.modStream id fun st => { st with pushTask := some tag }, .pending)
    | .ok false => (s, .none)

theorem recvPollPushed_nil {s : Streams} {k : Nat} (h : (s.stream k).pendingPushPromises = []) (t : String) :
    s.recvPollPushed k t = pollPushedNil s k t := by
  unfold Streams.recvPollPushed pollPushedNil
  rw [h]
  rfl

theorem pollPushedNil_not_pushed (s : Streams) (k : Nat) (t : String) :
    ∀ c m u f, (pollPushedNil s k t).2 ≠ .pushed c m u f := by
  intro c m u f
  unfold pollPushedNil
  split <;> (intro h; cases h)

theorem refPollPushed_nil {s : Streams} {k : Nat} (h : (s.stream k).pendingPushPromises = []) (t : String) :
    s.refPollPushed k t = pollPushedNil s k t := by
  unfold Streams.refPollPushed
  rw [recvPollPushed_nil h]
  have := pollPushedNil_not_pushed s k t
  generalize pollPushedNil s k t = p at this ⊢
  obtain ⟨s1, r⟩ := p
  cases r with
  | pushed c m u f => exact absurd rfl (this c m u f)
  | _ => rfl

theorem pollPushedNil_lt (s : Streams) (k : Nat) (t : String) : LT [k] s (pollPushedNil s k t).1 := by
  unfold pollPushedNil; lt_auto
theorem pollPushedNil_pp (s : Streams) (k : Nat) (t : String) : PP s (pollPushedNil s k t).1 := by
  unfold pollPushedNil; pp_auto

/-- **`poll_pushed` on a connection without pending promises**: the invariant and `NoPPP` are kept, nothing is handed
    out (no new handle), in particular no panic -/
theorem refPollPushed_npi_noPPP {E : Nat → Prop} {s : Streams} (hn : NPI E s) (hj : NoPPP s) {k : Nat} (hk : Live s k) (t : String) :
    NPI E (s.refPollPushed k t).1 ∧ NoPPP (s.refPollPushed k t).1 ∧
    (∀ c m u f, (s.refPollPushed k t).2 ≠ .pushed c m u f) ∧ ErrSame s (s.refPollPushed k t).1 := by
  have e := refPollPushed_ev (ρ := false) s k t
  rw [refPollPushed_nil (hj k)] at e ⊢
  exact ⟨hn.lt (pollPushedNil_lt s k t).w (liveAll1 hk) e noE, (pollPushedNil_pp s k t).pw.noPPP hj,
    pollPushedNil_not_pushed s k t, (pollPushedNil_lt s k t).err⟩

theorem refPollPushed_panicked_noPPP {s : Streams} (hj : NoPPP s) {k : Nat} (hk : Live s k) (t : String) :
    (s.refPollPushed k t).1.panicked = s.panicked := by
  rw [refPollPushed_nil (hj k)]
  unfold pollPushedNil
  split
  · rfl
  · exact modStream_panicked_live hk _
  · rfl

/-- the same for the receive-layer function -/
theorem recvPollPushed_npi_noPPP {E : Nat → Prop} {s : Streams} (hn : NPI E s) (hj : NoPPP s) {k : Nat} (hk : Live s k) (t : String) :
    NPI E (s.recvPollPushed k t).1 ∧ NoPPP (s.recvPollPushed k t).1 := by
  have e := recvPollPushed_ev (ρ := false) s k t
  rw [recvPollPushed_nil (hj k)] at e ⊢
  exact ⟨hn.lt (pollPushedNil_lt s k t).w (liveAll1 hk) e noE, (pollPushedNil_pp s k t).pw.noPPP hj⟩

/-- role and push switch are not touched either -/
theorem refPollPushed_roleKeep (s : Streams) (k : Nat) (t : String) : RoleKeep s (s.refPollPushed k t).1 :=
  .of_view (ConnCtlP.view_refPollPushed s k t)

theorem refPollPushed_noPush {s : Streams} (hp : NoPush s) (k : Nat) (t : String) : NoPush (s.refPollPushed k t).1 :=
  (refPollPushed_roleKeep s k t).noPush hp

end H2V.Lemmas.ConnNoPanicP
