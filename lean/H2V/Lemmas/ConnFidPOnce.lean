import H2V.Lemmas.ConnFidPMain
/-
  ConnFidP, part 20 — EXACTLY ONCE for the calls that accept a message frame: a call that answers `Ok` has queued
  exactly one frame — its own, at the back of the queue of its stream — between two stretches of silent steps (and
  removals of released entries); a call that answers `Err` has queued nothing.  (`AccR`, proved by `grind` over the
  results `(state, Result)` of the model functions.)
-/
set_option linter.unusedSectionVars false
namespace H2V.Lemmas.ConnFidP
open H2V H2V.Model H2V.Model.Conn H2V.Lemmas.ConnWakeP

/-- silent steps and removals of released entries only -/
def permG : Perm := { gone := True }

/-- `s'` is reached from `s` by silent steps and removals, with exactly ONE frame queued in between: `f` at the back of
    the queue of entry `k` -/
def Once (k : Nat) (f : SFrame) (s s' : Streams) : Prop :=
  ∃ s1, Tr permG s s1 ∧ Tr permG (s1.modStream k (pushF f)) s'

/-- the result of a call that accepts the frame `f` on entry `k`: `Ok` ⇒ exactly one frame was queued (`f`, at the
    back of `k`), `Err` ⇒ none -/
def AccR {ε α : Type} (k : Nat) (f : SFrame) (s0 : Streams) (p : Streams × Except ε α) : Prop :=
  match p.2 with
  | .ok _ => Once k f s0 p.1
  | .error _ => Tr permG s0 p.1

section
variable {ε α : Type} {k : Nat} {f : SFrame} {s0 s : Streams}

@[grind ←] theorem accR_err (e : ε) (h : Tr permG s0 s) : AccR (α := α) k f s0 (s, .error e) := h
@[grind ←] theorem accR_push (a : α) (h : Tr permG s0 s) : AccR (ε := ε) k f s0 (s.modStream k (pushF f), .ok a) :=
  ⟨s, h, Tr.refl _ _⟩
theorem accR_step (g : Streams → Streams) (hg : ∀ {t0 t : Streams}, Tr permG t0 t → Tr permG t0 (g t)) (a : α)
    (h : AccR (ε := ε) k f s0 (s, .ok a)) : AccR (ε := ε) k f s0 (g s, .ok a) := by
  obtain ⟨s1, h1, h2⟩ := h; exact ⟨s1, h1, hg h2⟩
@[grind ←] theorem accR_scheduleSend (j : Nat) (a : α) (h : AccR (ε := ε) k f s0 (s, .ok a)) :
    AccR (ε := ε) k f s0 (s.scheduleSend j, .ok a) := accR_step _ (fun t => scheduleSend_acc (P := permG) trivial j t) a h
@[grind ←] theorem accR_queueFrame (a : α) (h : Tr permG s0 s) : AccR (ε := ε) k f s0 (s.queueFrame k f, .ok a) := by
  unfold Streams.queueFrame; simp only [pushF_fold]
  exact accR_scheduleSend k a (accR_push a h)
@[grind ←] theorem accR_reserveCapacity (j c : Nat) (a : α) (h : AccR (ε := ε) k f s0 (s, .ok a)) :
    AccR (ε := ε) k f s0 (s.reserveCapacity j c, .ok a) := accR_step _ (fun t => reserveCapacity_acc (P := permG) trivial j c t) a h
@[grind ←] theorem accR_notifyTask (a : α) (h : AccR (ε := ε) k f s0 (s, .ok a)) :
    AccR (ε := ε) k f s0 (s.notifyTask, .ok a) := accR_step _ (fun t => notifyTask_acc t) a h
end


theorem prioSendData_accR (s0 s : Streams) (k len : Nat) (eos : Bool) (h : Tr permG s0 s) :
    AccR k (.data len eos) s0 (s.prioSendData k len eos) := by
  have hg : permG.gone := trivial
  unfold Streams.prioSendData
  fid_fold
  fid_grind

theorem sendHeaders_accR (s0 s : Streams) (k : Nat) (eos : Bool) (f : List Hpack.Field) (h : Tr permG s0 s) :
    AccR k (.headers eos f) s0 (s.sendHeaders k eos f) := by
  have hg : permG.gone := trivial
  unfold Streams.sendHeaders
  fid_grind

theorem sendTrailers_accR (s0 s : Streams) (k : Nat) (f : List Hpack.Field) (h : Tr permG s0 s) :
    AccR k (.headers true f) s0 (s.sendTrailers k f) := by
  have hg : permG.gone := trivial
  unfold Streams.sendTrailers
  fid_grind

theorem sendInterim_accR (s0 s : Streams) (k : Nat) (f : List Hpack.Field) (h : Tr permG s0 s) :
    AccR k (.headers false f) s0 (s.sendInterimInformationalHeaders k f) := by
  have hg : permG.gone := trivial
  unfold Streams.sendInterimInformationalHeaders
  fid_grind

theorem sendPushPromise_accR (s0 s : Streams) (p pk pid : Nat) (f : List Hpack.Field) (h : Tr permG s0 s) :
    AccR p (.pushPromise pk pid f) s0 (s.sendPushPromise p pk pid f) := by
  have hg : permG.gone := trivial
  unfold Streams.sendPushPromise
  fid_grind

/-- `counts.transition(stream, f)` around an accepting call -/
theorem accR_transition {ε α : Type} {k : Nat} {f : SFrame} {s0 s : Streams} (j : Nat) (g : Streams → Streams × Except ε α)
    (h : AccR k f s0 (g s)) : AccR k f s0 (s.transition j g) := by
  unfold Streams.transition
  rcases hg : g s with ⟨s', r⟩
  rw [hg] at h
  cases r with
  | error e => exact transitionAfter_acc (P := permG) trivial _ _ h
  | ok a =>
    obtain ⟨s1, h1, h2⟩ := h
    exact ⟨s1, h1, transitionAfter_acc (P := permG) trivial _ _ h2⟩

/-- **`send_data`: `Ok` ⇒ exactly `DATA(len, eos)` queued once, at the back of `k`; `Err` ⇒ nothing queued** -/
theorem refSendData_accR (s : Streams) (k len : Nat) (eos : Bool) : AccR k (.data len eos) s (s.refSendData k len eos) := by
  unfold Streams.refSendData; exact accR_transition k _ (prioSendData_accR s s k len eos (Tr.refl _ _))
theorem refSendTrailers_accR (s : Streams) (k : Nat) (f : List Hpack.Field) : AccR k (.headers true f) s (s.refSendTrailers k f) := by
  unfold Streams.refSendTrailers; exact accR_transition k _ (sendTrailers_accR s s k f (Tr.refl _ _))
theorem refSendResponse_accR (s : Streams) (k : Nat) (f : List Hpack.Field) (eos : Bool) :
    AccR k (.headers eos f) s (s.refSendResponse k f eos) := by
  unfold Streams.refSendResponse; exact accR_transition k _ (sendHeaders_accR s s k eos f (Tr.refl _ _))
theorem refSendInformationalHeaders_accR (s : Streams) (k : Nat) (f : List Hpack.Field) :
    AccR k (.headers false f) s (s.refSendInformationalHeaders k f) := by
  unfold Streams.refSendInformationalHeaders; exact accR_transition k _ (sendInterim_accR s s k f (Tr.refl _ _))

/-- what `Once` means for the queues: every entry that exists before and is not removed keeps its `pending_send`,
    except `k`, which gets `f` appended — once -/
theorem Once.queues {k : Nat} {f : SFrame} {s s' : Streams} (h : Once k f s s') :
    ∃ s1 tr1 tr2, Path permG s s1 tr1 ∧ Path permG (s1.modStream k (pushF f)) s' tr2 ∧
      (∀ j, wasCut j tr1 = false → sq s1 j = sq s j) ∧
      (∀ j, wasCut j tr2 = false → sq s' j = sq (s1.modStream k (pushF f)) j) ∧
      (∀ j, sq (s1.modStream k (pushF f)) j = if j = k ∧ (s1.store.get? k).isSome then sq s1 k ++ [f] else sq s1 j) := by
  obtain ⟨s1, ⟨tr1, p1⟩, ⟨tr2, p2⟩⟩ := h
  have nopush : ∀ {a b : Streams} {tr : List Lbl} (p : Path permG a b tr) (j : Nat), pushed j tr = [] := by
    intro a b tr p j
    cases hq : pushed j tr with
    | nil => rfl
    | cons x _ =>
      exfalso
      have hx : x ∈ pushed j tr := by rw [hq]; exact List.mem_cons_self ..
      unfold pushed at hx
      rw [List.mem_filterMap] at hx
      obtain ⟨l, hl, e⟩ := hx
      have ok := p.allowed l hl
      cases l <;> simp only [pushed1] at e <;> (try cases e)
      simp only [Perm.ok, permG] at ok
      rcases ok with h' | ⟨_, h'⟩ <;> exact h'
  refine ⟨s1, tr1, tr2, p1, p2, fun j hj => ?_, fun j hj => ?_, fun j => ?_⟩
  · have := p1.send_ledger (fun h => h) (fun h => h) j hj
    rw [nopush p1 j, List.append_nil] at this; exact this
  · have := p2.send_ledger (fun h => h) (fun h => h) j hj
    rw [nopush p2 j, List.append_nil] at this; exact this
  · unfold sq
    rw [stream_modStream s1 k (pushF f) (fun _ => rfl) j]
    split
    · rfl
    · rfl


-- ===================================================================== receive side

/-- exactly one event queued: `e` at the back of `pending_recv` of entry `k` -/
def OnceR (k : Nat) (e : REvent) (s s' : Streams) : Prop :=
  ∃ s1, Tr permG s s1 ∧ Tr permG (s1.modStream k (rpushF e)) s'

/-- the result of `recv_data` & co.: at most one event queued, `e` on `k`; none when the call fails -/
def AccRR {ε α : Type} (k : Nat) (e : REvent) (s0 : Streams) (p : Streams × Except ε α) : Prop :=
  match p.2 with
  | .ok _ => Tr permG s0 p.1 ∨ OnceR k e s0 p.1
  | .error _ => Tr permG s0 p.1

section
variable {ε α : Type} {k : Nat} {e : REvent} {s0 s : Streams}
@[grind ←] theorem accRR_of_tr (p : Streams × Except ε α) (h : Tr permG s0 p.1) : AccRR k e s0 p := by
  unfold AccRR; cases p.2 <;> first | exact h | exact Or.inl h
@[grind ←] theorem accRR_err (x : ε) (h : Tr permG s0 s) : AccRR (α := α) k e s0 (s, .error x) := h
@[grind ←] theorem accRR_quiet (a : α) (h : Tr permG s0 s) : AccRR (ε := ε) k e s0 (s, .ok a) := Or.inl h
@[grind ←] theorem accRR_push_notify (a : α) (h : Tr permG s0 s) :
    AccRR (ε := ε) k e s0 ((s.modStream k (rpushF e)).modStreamW k Stream.notifyRecv, .ok a) :=
  Or.inr ⟨s, h, modStreamW_acc k _ (notifyRecv_quiet _) (Tr.refl _ _)⟩
@[grind ←] theorem accRR_push_notify_ended (a : α) (h : Tr permG s0 s) :
    AccRR (ε := ε) k e s0 (((s.modStream k (rpushF e)).modStreamW k Stream.notifyRecv).notifyPushIfRecvEnded k, .ok a) :=
  Or.inr ⟨s, h, notifyPushIfRecvEnded_acc trivial k (modStreamW_acc k _ (notifyRecv_quiet _) (Tr.refl _ _))⟩
@[grind ←] theorem accRR_push_notify_push (a : α) (h : Tr permG s0 s) :
    AccRR (ε := ε) k e s0 (((s.modStream k (rpushF e)).modStreamW k Stream.notifyRecv).modStreamW k Stream.notifyPush, .ok a) :=
  Or.inr ⟨s, h, modStreamW_acc k _ (notifyPush_quiet _) (modStreamW_acc k _ (notifyRecv_quiet _) (Tr.refl _ _))⟩
end

theorem recvRecvData_accRR (s0 s : Streams) (k : Nat) (p : Bytes) (eos : Bool) (pad : Option Nat) (h : Tr permG s0 s) :
    AccRR k (.data p (!eos)) s0 (s.recvRecvData k p eos pad) := by
  have hg : permG.gone := trivial
  unfold Streams.recvRecvData
  fid_fold
  fid_grind

theorem recvRecvTrailers_accRR (s0 s : Streams) (k : Nat) (hd : HeadersIn) (h : Tr permG s0 s) :
    AccRR k (.trailers hd.fields) s0 (s.recvRecvTrailers k hd) := by
  have hg : permG.gone := trivial
  unfold Streams.recvRecvTrailers
  fid_fold
  fid_grind

/-- readable forms -/
theorem AccR.ok {ε α : Type} {k : Nat} {f : SFrame} {s0 : Streams} {p : Streams × Except ε α} (h : AccR k f s0 p) {a : α}
    (hr : p.2 = .ok a) : Once k f s0 p.1 := by
  unfold AccR at h; rw [hr] at h; exact h
theorem AccR.err {ε α : Type} {k : Nat} {f : SFrame} {s0 : Streams} {p : Streams × Except ε α} (h : AccR k f s0 p) {e : ε}
    (hr : p.2 = .error e) : Tr permG s0 p.1 := by
  unfold AccR at h; rw [hr] at h; exact h
theorem AccRR.ok {ε α : Type} {k : Nat} {e : REvent} {s0 : Streams} {p : Streams × Except ε α} (h : AccRR k e s0 p) {a : α}
    (hr : p.2 = .ok a) : Tr permG s0 p.1 ∨ OnceR k e s0 p.1 := by
  unfold AccRR at h; rw [hr] at h; exact h
theorem AccRR.err {ε α : Type} {k : Nat} {e : REvent} {s0 : Streams} {p : Streams × Except ε α} (h : AccRR k e s0 p) {x : ε}
    (hr : p.2 = .error x) : Tr permG s0 p.1 := by
  unfold AccRR at h; rw [hr] at h; exact h

end H2V.Lemmas.ConnFidP
