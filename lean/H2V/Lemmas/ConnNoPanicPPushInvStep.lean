import H2V.Lemmas.ConnNoPanicPPushInvIns
import H2V.Lemmas.ConnNoPanicPPushInvWrite
import H2V.Lemmas.ConnCtlPViewStreams
/-
  C08 (no panic) — PUSH_PROMISE bookkeeping, part 6 (stage 1): connections that never accept a PUSH_PROMISE
  (every server; every client that announced SETTINGS_ENABLE_PUSH = 0).
  `NoPush` (role and `recv.is_push_enabled`: written by nobody after `init`) and `NoPPP` (every
  `pending_push_promises` list is empty) are preserved by EVERY operation of ConnResetP's `Op`, without
  any precondition; hence `dropPPP s k = []`, the hypothesis of `dropStreamRef_npi`, always holds there.
-/
namespace H2V.Lemmas.ConnNoPanicP
open H2V H2V.Model H2V.Model.Conn H2V.Lemmas.ConnCountsP
open H2V.Lemmas.ConnResetP (Op run)
open H2V.Lemmas.ConnCtlP (view)
attribute [local irreducible] wrapSubU32 wrapSubUsize

/-- no entry has a promised stream waiting to be accepted -/
def NoPPP (s : Streams) : Prop := ∀ j, (s.stream j).pendingPushPromises = []

/-- the connection refuses every PUSH_PROMISE: a server, or a client that disabled push -/
def NoPush (s : Streams) : Prop := s.counts.isServer = true ∨ s.recv.isPushEnabled = false

theorem PW.noPPP {s s' : Streams} (h : PW s s') (hj : NoPPP s) : NoPPP s' := fun j => by
  rcases h j with e | e
  · rw [e]; exact hj j
  · exact e

theorem NoPPP_of_slab_nil {s : Streams} (h : s.store.slab = []) : NoPPP s := fun j => by
  have : s.store.get? j = none := by unfold Store.get?; rw [h]; rfl
  unfold Streams.stream; rw [this]; rfl

theorem NoPPP_blank {s : Streams} (hb : Blank s) : NoPPP s := NoPPP_of_slab_nil hb.slab

-- ===================================================================== role and push switch never change

/-- role and `recv.is_push_enabled` are the same -/
def RoleKeep (s s' : Streams) : Prop :=
  s'.counts.isServer = s.counts.isServer ∧ s'.recv.isPushEnabled = s.recv.isPushEnabled

theorem RoleKeep.of_view {s s' : Streams} (h : view s' = view s) : RoleKeep s s' :=
  ⟨congrArg (·.isServer) h, congrArg (·.rPush) h⟩
theorem RoleKeep.of_view' {s s' : Streams} {v : ConnCtlP.View} (h : view s' = v) (h1 : v.isServer = (view s).isServer)
    (h2 : v.rPush = (view s).rPush) : RoleKeep s s' :=
  ⟨(congrArg (·.isServer) h).trans h1, (congrArg (·.rPush) h).trans h2⟩
theorem RoleKeep.noPush {s s' : Streams} (h : RoleKeep s s') (hp : NoPush s) : NoPush s' := by
  unfold NoPush; rw [h.1, h.2]; exact hp

/-- **no operation changes the role or `recv.is_push_enabled`** (ConnCtlP's `view` lemmas) -/
theorem op_roleKeep (s : Streams) (op : Op) : RoleKeep s (op.apply s) := by
  cases op <;> simp only [Op.apply]
  case recvHeaders h =>
    obtain ⟨l, hl, _⟩ := ConnCtlP.view_recvHeaders s h
    exact .of_view' hl rfl rfl
  case handleError e => exact .of_view' (ConnCtlP.view_handleError s e).1 rfl rfl
  case recvGoAwayFrame l r d =>
    cases hres : (s.recvGoAwayFrame l r d).2 with
    | ok u => exact .of_view' ((ConnCtlP.view_recvGoAwayFrame s l r d).1 u hres).1 rfl rfl
    | error e => rw [((ConnCtlP.view_recvGoAwayFrame s l r d).2 e hres).1]; exact ⟨rfl, rfl⟩
  case recvGoAway l => exact .of_view' (ConnCtlP.view_recvGoAway s l) rfl rfl
  case recvEof b => exact .of_view' (ConnCtlP.view_recvEof s b) rfl rfl
  case applyRemoteSettings v b =>
    obtain ⟨ms, iw, p, hv, _⟩ := ConnCtlP.view_applyRemoteSettings s v b
    exact .of_view' hv rfl rfl
  case applyLocalSettingsFrame v =>
    obtain ⟨w, hv, _⟩ := ConnCtlP.view_applyLocalSettingsFrame s v
    exact .of_view' hv rfl rfl
  case clearWakes => exact ⟨rfl, rfl⟩
  case wake t => exact ⟨rfl, rfl⟩
  case panic m => exact .of_view (ConnCtlP.view_panic s m)
  all_goals exact .of_view (by simp)

theorem RoleKeep.noPush_back {s s' : Streams} (h : RoleKeep s s') (hp : NoPush s') : NoPush s := by
  unfold NoPush at hp ⊢; rw [h.1, h.2] at hp; exact hp

theorem NoPush_step {s : Streams} (hp : NoPush s) (op : Op) : NoPush (op.apply s) := (op_roleKeep s op).noPush hp

theorem NoPush_run {s : Streams} (hp : NoPush s) (ops : List Op) : NoPush (run s ops) := by
  induction ops generalizing s with
  | nil => exact hp
  | cons op ops ih => exact ih (NoPush_step hp op)

-- ===================================================================== recv_push_promise when push is refused

/-- under `NoPush`, `recv_push_promise` changes nothing: it answers the connection error PROTOCOL_ERROR (or drops
    the frame, past a GOAWAY) before it reserves anything -/
theorem recvPushPromise_nopush' {s : Streams} (hp : NoPush s) (id : Nat) (h : HeadersIn) :
    (s.recvPushPromise id h).1 = s ∧
    ((s.recvPushPromise id h).2 = .error (PErr.libraryGoAway PROTOCOL_ERROR) ∨ (s.recvPushPromise id h).2 = .ok ()) := by
  unfold Streams.recvPushPromise
  dsimp only
  cases hsv : s.counts.isServer with
  | true => exact ⟨rfl, .inl rfl⟩
  | false =>
    have hpe : s.recv.isPushEnabled = false := by
      rcases hp with e | e
      · rw [hsv] at e; cases e
      · exact e
    have hec : s.ensureCanReserve = .error (PErr.libraryGoAway PROTOCOL_ERROR) := by
      unfold Streams.ensureCanReserve; rw [hpe]; rfl
    simp only [Bool.false_eq_true, if_false, hec]
    cases s.store.findKey? id with
    | none => exact ⟨rfl, .inl rfl⟩
    | some k =>
      dsimp only
      generalize hpar : (if id > s.recv.maxStreamId then _ else _ : Streams × Except PErr (Option Nat)) = p
      have h1 : p.1 = s ∧ (∀ e, p.2 = .error e → e = PErr.libraryGoAway PROTOCOL_ERROR) := by
        rw [← hpar]
        split
        · exact ⟨rfl, fun e he => by cases he⟩
        · split
          · exact ⟨rfl, fun e he => by cases he; rfl⟩
          · split
            · exact ⟨rfl, fun e he => by cases he⟩
            · exact ⟨rfl, fun e he => by cases he; rfl⟩
      obtain ⟨s', r⟩ := p
      obtain ⟨h1, h2⟩ := h1
      dsimp only at h1 h2
      subst h1
      cases r with
      | error e => rw [h2 e rfl]; exact ⟨rfl, .inl rfl⟩
      | ok o =>
        cases o with
        | none => exact ⟨rfl, .inr rfl⟩
        | some pk => simp only [hec]; exact ⟨trivial, .inl trivial⟩

theorem recvPushPromise_nopush {s : Streams} (hp : NoPush s) (id : Nat) (h : HeadersIn) : (s.recvPushPromise id h).1 = s :=
  (recvPushPromise_nopush' hp id h).1

theorem recvPushPromise_npi_nopush {E : Nat → Prop} {s : Streams} (hn : NPI E s) (hp : NoPush s) (id : Nat) (h : HeadersIn) :
    NPI E (s.recvPushPromise id h).1 := by rw [recvPushPromise_nopush hp]; exact hn

-- ===================================================================== every operation but `recv_push_promise` is `PW`

theorem op_pw (s : Streams) (op : Op) (hne : ∀ id h, op ≠ .recvPushPromise id h) : PW s (op.apply s) := by
  cases op <;> simp only [Op.apply]
  case recvPushPromise id h => exact absurd rfl (hne id h)
  case recvHeaders h => exact recvHeaders_pw s h
  case recvData id p eos pad => exact (recvData_pp s id p eos pad).pw
  case recvReset id r => exact (recvReset_pp s id r).pw
  case recvWindowUpdate id inc => exact (recvWindowUpdate_pp s id inc).pw
  case handleError e => exact (handleError_pp s e).pw
  case recvGoAwayFrame l r d => exact (recvGoAwayFrame_pp s l r d).pw
  case recvGoAway l => exact (recvGoAway_pp s l).pw
  case recvEof b => exact (recvEof_pp s b).pw
  case innerSendReset id r => exact innerSendReset_pw s id r
  case setTargetConnectionWindow t => exact (setTargetConnectionWindow_pp s t).pw
  case applyRemoteSettings v b => exact (applyRemoteSettings_pp s v b).pw
  case applyLocalSettingsFrame v => exact (applyLocalSettingsFrame_pp s v).pw
  case pollComplete fuel w io tag => exact (pollComplete_pp fuel s w io tag).pw
  case pollSendPendingRefusal fuel w io tag => exact (pollSendPendingRefusal_pp fuel s w io tag).pw
  case clearExpiredResetStreams fuel => exact (clearExpiredResetStreams_pp fuel s).pw
  case wake t => exact (wake_pp s t).pw
  case clearWakes => exact (PP.of_store (s' := { s with wakes := [] }) rfl).pw
  case panic m => exact (panic_pp s m).pw
  case cloneHandle => exact (cloneHandle_pp s).pw
  case dropHandle => exact (dropHandle_pp s).pw
  case sendRequest a b c d => exact sendRequest_pw s a b c d
  case pollPendingOpen p t => exact (pollPendingOpen_pp s p t).pw
  case nextIncoming => exact (nextIncoming_pp s).pw
  case recvTakeRequest k => exact (recvTakeRequest_pp s k).pw
  case cloneStreamRef k => exact (cloneStreamRef_pp s k).pw
  case dropStreamRef k => exact dropStreamRef_pw s k
  case refSendResponse k f eos => exact (refSendResponse_pp s k f eos).pw
  case refSendInformationalHeaders k f => exact (refSendInformationalHeaders_pp s k f).pw
  case refSendPushPromise p v f => exact refSendPushPromise_pw s p v f
  case refSendData k len eos => exact (refSendData_pp s k len eos).pw
  case refSendTrailers k f => exact (refSendTrailers_pp s k f).pw
  case refReserveCapacity k c => exact (refReserveCapacity_pp s k c).pw
  case pollCapacity k t => exact (pollCapacity_pp s k t).pw
  case refSendReset k r => exact (refSendReset_pp s k r).pw
  case pollReset k m t => exact (pollReset_pp s k m t).pw
  case recvPollResponse fuel k t => exact (recvPollResponse_pp fuel s k t).pw
  case recvPollInformational k t => exact (recvPollInformational_pp s k t).pw
  case refPollData k t => exact (refPollData_pp s k t).pw
  case recvPollTrailers k t => exact (recvPollTrailers_pp s k t).pw
  case refReleaseCapacity k c => exact (refReleaseCapacity_pp s k c).pw
  case refClearRecvBuffer k => exact (refClearRecvBuffer_pp s k).pw

/-- **`NoPPP` is kept by every operation** of a connection that refuses PUSH_PROMISE (no precondition at all) -/
theorem NoPPP_step {s : Streams} (hj : NoPPP s) (hp : NoPush s) (op : Op) : NoPPP (op.apply s) := by
  by_cases hne : ∀ id h, op ≠ .recvPushPromise id h
  · exact (op_pw s op hne).noPPP hj
  · have : ∃ id h, op = .recvPushPromise id h := by
      apply Classical.byContradiction
      intro hcon
      exact hne (fun id h e => hcon ⟨id, h, e⟩)
    obtain ⟨id, h, e⟩ := this
    subst e
    show NoPPP (s.recvPushPromise id h).1
    rw [recvPushPromise_nopush hp]; exact hj

theorem NoPPP_run {s : Streams} (hj : NoPPP s) (hp : NoPush s) (ops : List Op) : NoPPP (run s ops) ∧ NoPush (run s ops) := by
  induction ops generalizing s with
  | nil => exact ⟨hj, hp⟩
  | cons op ops ih => exact ih (NoPPP_step hj hp op) (NoPush_step hp op)

-- ===================================================================== consequences for `drop_stream_ref`

/-- with `NoPPP` the loop over the promised streams in `drop_stream_ref` is empty -/
theorem NoPPP.dropPPP {s : Streams} (hj : NoPPP s) (k : Nat) : dropPPP s k = [] := by
  unfold ConnNoPanicP.dropPPP
  exact (((dropPre_pp s k).trans ((maybeCancel_pp _ k).trans (releaseClosedCapacity_pp _ k))).pw.noPPP hj) k

/-- **`drop_stream_ref` keeps the invariant** on a connection without pending promises: the hypothesis
    `dropPPP s k = []` of `dropStreamRef_npi` is discharged -/
theorem dropStreamRef_npi_noPPP {s : Streams} (h : NPI (fun _ => False) s) (hj : NoPPP s) {k : Nat} (hk : Live s k)
    (hr : (s.stream k).refCount > 0) (he : ErrOK s) :
    NPI (fun _ => False) (s.dropStreamRef k) ∧ NoPPP (s.dropStreamRef k) :=
  ⟨dropStreamRef_npi h hk hr (hj.dropPPP k) he, (dropStreamRef_pw s k).noPPP hj⟩

/-- the precondition `opPre` of `.dropStreamRef` holds under `NoPPP` -/
theorem NoPPP.opPre_drop {s : Streams} (hj : NoPPP s) (k : Nat) : opPre s (.dropStreamRef k) := hj.dropPPP k

/-- in the ghost-handle histories of ConnNoPanicPHist: a reachable state that refuses PUSH_PROMISE has no pending promises
    (so the precondition `opPre s (.dropStreamRef k)` is automatic there) -/
theorem hreach_noPPP {s : Streams} {H : List Nat} (h : HReach s H) (hp : NoPush s) : NoPPP s := by
  induction h with
  | init hb _ _ => exact NoPPP_blank hb
  | step op _ _ _ ih => exact NoPPP_step (ih ((op_roleKeep _ op).noPush_back hp)) ((op_roleKeep _ op).noPush_back hp) op

end H2V.Lemmas.ConnNoPanicP
