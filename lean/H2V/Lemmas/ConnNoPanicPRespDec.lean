import H2V.Lemmas.ConnNoPanicPRespRecv
import H2V.Lemmas.ConnHttpPBody
/-
  C08 (no panic) — the client response path, part 4: the three functions that append to a receive queue
  (`Recv::recv_headers`, `recv_trailers`, `recv_data`) decomposed into frame steps and ONE append.
-/
namespace H2V.Lemmas.ConnNoPanicP
open H2V H2V.Model H2V.Model.Conn H2V.Lemmas.ConnCountsP
attribute [local irreducible] wrapSubU32 wrapSubUsize

/-- the hand-over of one event to stream `k` -/
def appendTo (t : Streams) (k : Nat) (e : REvent) : Streams :=
  (t.modStream k fun st => { st with pendingRecv := st.pendingRecv ++ [e] }).modStreamW k Stream.notifyRecv

theorem appendTo_rp {X : List Nat} (t : Streams) (k : Nat) (e : REvent) (hX : k ∈ X) : RP X t (appendTo t k e) := by
  unfold appendTo
  refine RP.trans ?_ (modStreamW_rp _ _ _ (fun x => notifyRecv_rs x))
  exact modStream_rpx _ _ _ (fun _ => rfl) hX

theorem live_modStream {s : Streams} {k j : Nat} (f : Stream → Stream) (h : Live s j) : Live (s.modStream k f) j :=
  (SameKeys.modStream s k f).live.mpr h

theorem notifyRecv_key (x : Stream) : x.notifyRecv.1.key = x.key := (notifyRecv_rs x).key

theorem appendTo_stream {t : Streams} {k : Nat} (hk : Live t k) (e : REvent) :
    ((appendTo t k e).stream k).pendingRecv = (t.stream k).pendingRecv ++ [e] ∧
    ((appendTo t k e).stream k).state = (t.stream k).state ∧
    ((appendTo t k e).stream k).refCount = (t.stream k).refCount := by
  unfold appendTo
  have h1 := stream_modStream_live hk (fun st => { st with pendingRecv := st.pendingRecv ++ [e] }) (fun _ => rfl)
  have hk1 : Live (t.modStream k fun st => { st with pendingRecv := st.pendingRecv ++ [e] }) k := live_modStream _ hk
  have h2 := stream_modStreamW_live hk1 Stream.notifyRecv notifyRecv_key
  rw [h2, h1]
  unfold Stream.notifyRecv
  split <;> exact ⟨rfl, rfl, rfl⟩

-- ===================================================================== `Recv::recv_trailers`

theorem recvRecvTrailers_dec {X : List Nat} (s : Streams) (k : Nat) (h : HeadersIn) :
    RP X s (s.recvRecvTrailers k h).1 ∨
    ∃ t e, RP X s t ∧ (s.recvRecvTrailers k h).1 = appendTo t k e ∧ ∃ st' u, (s.stream k).state.recvClose = (st', .ok u) := by
  unfold Streams.recvRecvTrailers
  split
  · exact .inl (.refl _ _)
  · next st' u heq =>
    dsimp only
    have h1 : RP X s (s.modStream k fun st => { st with state := st' }) :=
      modStream_rp' _ _ _ (setState_rs _ _ (recvClose_str heq))
    split
    · exact .inl h1
    · split
      · exact .inl h1
      · exact .inr ⟨_, _, h1, rfl, st', u, heq⟩

theorem recvRecvTrailers_rp {X : List Nat} (s : Streams) (k : Nat) (h : HeadersIn) (hX : k ∈ X) :
    RP X s (s.recvRecvTrailers k h).1 := by
  rcases recvRecvTrailers_dec (X := X) s k h with h1 | ⟨t, e, h1, h2, _⟩
  · exact h1
  · rw [h2]; exact h1.trans (appendTo_rp _ _ _ hX)

-- ===================================================================== `Recv::recv_data`

theorem decContentLength_rs {x y : Stream} {n : Nat} (h : x.decContentLength n = some y) : RS x y := by
  unfold Stream.decContentLength at h
  split at h
  · split at h
    · cases h; exact ⟨rfl, rfl, Nat.le_refl _, fun h => h⟩
    · cases h
  · split at h
    · cases h
    · cases h; exact RS.refl _
  · cases h; exact RS.refl _

theorem rdTail_dec {X : List Nat} (s : Streams) (k : Nat) (payload : Bytes) (eos : Bool) (sz flowLen : Nat) :
    RP X s (ConnHttpP.rdTail s k payload eos sz flowLen).1 ∨
    ∃ t e, RP X s t ∧ (ConnHttpP.rdTail s k payload eos sz flowLen).1 = appendTo t k e := by
  unfold ConnHttpP.rdTail
  dsimp only
  generalize hp : (if eos = true then _ else (s, (none : Option PErr))) = p
  obtain ⟨s1, o⟩ := p
  have h1 : RP X s s1 := by
    split at hp
    · split at hp
      · cases hp; exact .refl _ _
      · split at hp
        · cases hp; exact .refl _ _
        · next st' _ heq => cases hp; exact modStream_rp' _ _ _ (setState_rs _ _ (recvClose_str heq))
    · cases hp; exact .refl _ _
  cases o with
  | some e => exact .inl h1
  | none =>
    dsimp only
    split
    · exact .inl (h1.trans (releaseConnectionCapacity_rp _ _ _))
    · split
      · left; rp_auto
      · left; rp_auto
      · next fl _ heq =>
        generalize hs3 : (if usizeAsU32 (flowLen - payload.length) > 0 then _ else
          (s1.modStream k fun st => { st with recvFlow := fl, inFlightRecvData := wrapAddU32 st.inFlightRecvData sz })) = s3
        have h3 : RP X s s3 := by rw [← hs3]; rp_auto
        split
        · exact .inl h3
        · exact .inr ⟨_, _, h3, rfl⟩

theorem recvRecvData_dec {X : List Nat} (s : Streams) (k : Nat) (payload : Bytes) (eos : Bool) (pad : Option Nat) :
    RP X s (s.recvRecvData k payload eos pad).1 ∨
    ∃ t e, RP X s t ∧ (s.recvRecvData k payload eos pad).1 = appendTo t k e ∧ (s.stream k).state.isRecvStreaming = true := by
  rw [ConnHttpP.recvRecvData_eq]
  dsimp only
  generalize hs0 : (if ConnHttpP.flowLenOf payload pad > Generated.Consts.MAX_WINDOW_SIZE then _ else s) = s0
  have h0 : RP X s s0 := by rw [← hs0]; rp_auto
  have hst : s0.stream k = s.stream k := by rw [← hs0]; split; exact panic_stream _ _ _; rfl
  split
  · exact .inl h0
  · next hg =>
    split
    · exact .inl (h0.trans (ignoreData_rp _ _))
    · next hni =>
      have hstr : (s.stream k).state.isRecvStreaming = true := by
        rw [← hst]
        cases h1 : (s0.stream k).state.isRecvStreaming with
        | true => rfl
        | false =>
          cases h2 : (s0.stream k).state.isLocalError with
          | true => exact absurd h2 hni
          | false => rw [h1, h2] at hg; exact absurd rfl hg
      generalize hc : s0.consumeConnectionWindow (usizeAsU32 (ConnHttpP.flowLenOf payload pad)) = c
      obtain ⟨s1, r1⟩ := c
      have h1 : RP X s s1 := h0.trans (RP.of_fst_eq hc (consumeConnectionWindow_rp _ _))
      cases r1 with
      | error e => exact .inl h1
      | ok u =>
        dsimp only
        split
        · exact .inl h1
        · split
          · exact .inl h1
          · next st1 hdc =>
            have h2 : RP X s (s1.setStream st1) := by
              refine h1.trans (setStream_rp _ _ ?_)
              have := decContentLength_rs hdc
              rw [this.key, stream_key]; exact this
            rcases rdTail_dec (X := X) (s1.setStream st1) k payload eos (usizeAsU32 (ConnHttpP.flowLenOf payload pad))
                (ConnHttpP.flowLenOf payload pad) with h3 | ⟨t, e, h3, h4⟩
            · exact .inl (h2.trans h3)
            · exact .inr ⟨t, e, h2.trans h3, h4, hstr⟩

theorem recvRecvData_rp {X : List Nat} (s : Streams) (k : Nat) (payload : Bytes) (eos : Bool) (pad : Option Nat) (hX : k ∈ X) :
    RP X s (s.recvRecvData k payload eos pad).1 := by
  rcases recvRecvData_dec (X := X) s k payload eos pad with h1 | ⟨t, e, h1, h2, _⟩
  · exact h1
  · rw [h2]; exact h1.trans (appendTo_rp _ _ _ hX)

-- ===================================================================== `Recv::recv_headers` (client)

theorem rhSt_role (s : Streams) (k : Nat) (st' : State) : (ConnHttpP.rhSt s k st').counts.isServer = s.counts.isServer := by
  unfold ConnHttpP.rhSt; rw [modStream_counts]

theorem ite_panic_counts (c : Prop) [Decidable c] (s : Streams) (m : String) : (if c then s else s.panic m).counts = s.counts := by
  split
  · rfl
  · exact panic_counts _ _
theorem ite_panic_counts' (c : Prop) [Decidable c] (s : Streams) (m : String) : (if c then s.panic m else s).counts = s.counts := by
  split
  · exact panic_counts _ _
  · rfl

theorem incNumRecvStreams_role (s : Streams) (k : Nat) : (s.incNumRecvStreams k).counts.isServer = s.counts.isServer := by
  unfold Streams.incNumRecvStreams
  dsimp only
  rw [modStream_counts]
  have hm : ∀ t : Streams, (t.modCounts fun c => { c with numRecvStreams := c.numRecvStreams + 1 }).counts.isServer =
      t.counts.isServer := fun _ => rfl
  rw [hm]
  repeat (first | rfl | rw [panic_counts] | split)

theorem rhPre_role (s : Streams) (k : Nat) (h : HeadersIn) (st' : State) (ini : Bool) :
    (ConnHttpP.rhPre s k h st' ini).counts.isServer = s.counts.isServer := by
  unfold ConnHttpP.rhPre
  dsimp only
  split
  · rw [incNumRecvStreams_role]
    split
    · show (Streams.counts (Streams.modStream _ _ _)).isServer = _; rw [modStream_counts]
    · rw [modStream_counts]
  · rw [modStream_counts]
theorem rhCl_role (s : Streams) (k : Nat) (h : HeadersIn) :
    (ConnHttpP.rhCl s k h).1.counts.isServer = s.counts.isServer := by
  unfold ConnHttpP.rhCl
  repeat (first | rfl | (dsimp only; rw [modStream_counts]) | split)

/-- the non-`Ok` answers of `recv_headers` after the state transition, on a client: stream errors -/
inductive HdrErr : RecvHeadersRes → Prop
  | oversize : HdrErr (.oversize false)
  | state (i : Nat) (r : Reason) (init : Initiator) : HdrErr (.state (.reset i r init))

/-- the event a client's `recv_headers` hands over -/
def HdrEv (h : HeadersIn) (e : REvent) : Prop :=
  (∃ a f, e = .headers a f) ∨ (h.isInformational = true ∧ ∃ a f, e = .informational a f)

theorem rhCl_err' (s : Streams) (k : Nat) (h : HeadersIn) :
    (ConnHttpP.rhCl s k h).2 = none ∨ ∃ i r init, (ConnHttpP.rhCl s k h).2 = some (.reset i r init) := by
  unfold ConnHttpP.rhCl
  repeat (first | exact .inl rfl | exact .inr ⟨_, _, _, rfl⟩ | split | dsimp only)

theorem rhCl_err {s s1 : Streams} {k : Nat} {h : HeadersIn} {e : PErr} (hc : ConnHttpP.rhCl s k h = (s1, some e)) :
    ∃ i r init, e = .reset i r init := by
  rcases rhCl_err' s k h with h1 | ⟨i, r, init, h1⟩
  · rw [hc] at h1; cases h1
  · rw [hc] at h1; cases h1; exact ⟨i, r, init, rfl⟩

theorem rhTail_dec (t : Streams) (k : Nat) (h : HeadersIn) (ini : Bool) (hsv : t.counts.isServer = false) :
    ((ConnHttpP.rhTail t k h ini).1 = t ∧ HdrErr (ConnHttpP.rhTail t k h ini).2) ∨
    (∃ e, (ConnHttpP.rhTail t k h ini).1 = appendTo t k e ∧ (ConnHttpP.rhTail t k h ini).2 = .ok ∧ HdrEv h e) := by
  unfold ConnHttpP.rhTail
  simp only [hsv, Bool.false_and, Bool.and_false, Bool.false_eq_true, if_false]
  split
  · exact .inl ⟨rfl, .oversize⟩
  · split
    · exact .inr ⟨_, rfl, rfl, .inl ⟨_, _, rfl⟩⟩
    · next hinf =>
      refine .inr ⟨_, rfl, rfl, .inr ⟨?_, _, _, rfl⟩⟩
      cases hh : h.isInformational with
      | true => rfl
      | false => rw [hh] at hinf; exact absurd rfl hinf

theorem rhPre_rp {X : List Nat} (s : Streams) (k : Nat) (h : HeadersIn) (st' : State) (ini : Bool) :
    RP X (ConnHttpP.rhSt s k st') (ConnHttpP.rhPre s k h st' ini) := by
  unfold ConnHttpP.rhPre ConnHttpP.rhSt
  dsimp only
  rp_auto

theorem rhCl_rp {X : List Nat} (u : Streams) (k : Nat) (h : HeadersIn) : RP X u (ConnHttpP.rhCl u k h).1 := by
  unfold ConnHttpP.rhCl
  rp_auto

theorem recvRecvHeaders_dec {X : List Nat} (s : Streams) (k : Nat) (h : HeadersIn) (hsv : s.counts.isServer = false) :
    (s.recvRecvHeaders k h).1 = s ∨
    ∃ st' ini, (s.stream k).state.recvOpen h.eos h.isInformational = (st', .ok ini) ∧
      ∃ t, RP X (ConnHttpP.rhSt s k st') t ∧
        (((s.recvRecvHeaders k h).1 = t ∧ HdrErr (s.recvRecvHeaders k h).2) ∨
         (∃ e, (s.recvRecvHeaders k h).1 = appendTo t k e ∧ (s.recvRecvHeaders k h).2 = .ok ∧ HdrEv h e)) := by
  rw [ConnHttpP.recvRecvHeaders_eq]
  split
  · exact .inl rfl
  · next st' ini heq =>
    refine .inr ⟨st', ini, heq, ?_⟩
    split
    · exact ⟨_, .refl _ _, .inl ⟨rfl, by exact HdrErr.state _ _ _⟩⟩
    · have h1 := rhPre_rp (X := X) s k h st' ini
      have h2 := rhCl_rp (X := X) (ConnHttpP.rhPre s k h st' ini) k h
      have hr : (ConnHttpP.rhCl (ConnHttpP.rhPre s k h st' ini) k h).1.counts.isServer = false := by
        rw [rhCl_role, rhPre_role]; exact hsv
      generalize hc : ConnHttpP.rhCl (ConnHttpP.rhPre s k h st' ini) k h = c at h2 hr
      obtain ⟨t, o⟩ := c
      cases o with
      | some e =>
        obtain ⟨i, r, init, he⟩ := rhCl_err hc
        subst he
        exact ⟨t, h1.trans h2, .inl ⟨rfl, .state _ _ _⟩⟩
      | none => exact ⟨t, h1.trans h2, rhTail_dec t k h ini hr⟩

theorem rhTail_rp {X : List Nat} (t : Streams) (k : Nat) (h : HeadersIn) (ini : Bool) (hX : k ∈ X) :
    RP X t (ConnHttpP.rhTail t k h ini).1 := by
  have ha : ∀ e, RP X t ((t.modStream k fun st => { st with pendingRecv := st.pendingRecv ++ [e] }).modStreamW k Stream.notifyRecv) :=
    fun e => appendTo_rp t k e hX
  unfold ConnHttpP.rhTail
  repeat (first | exact .refl _ _ | exact ha _ | exact (ha _).trans (qPush_rp _ _ _) | split | dsimp only)

theorem recvRecvHeaders_rp {X : List Nat} (s : Streams) (k : Nat) (h : HeadersIn) (hX : k ∈ X) :
    RP X s (s.recvRecvHeaders k h).1 := by
  rw [ConnHttpP.recvRecvHeaders_eq]
  split
  · exact .refl _ _
  · next st' ini heq =>
    have h0 : RP X s (ConnHttpP.rhSt s k st') := by
      unfold ConnHttpP.rhSt; exact modStream_rpx _ _ _ (fun _ => rfl) hX
    split
    · exact h0
    · have h2 := (h0.trans (rhPre_rp s k h st' ini)).trans (rhCl_rp _ k h)
      generalize ConnHttpP.rhCl (ConnHttpP.rhPre s k h st' ini) k h = c at h2
      obtain ⟨t, o⟩ := c
      cases o with
      | some e => exact h2
      | none => exact h2.trans (rhTail_rp t k h ini hX)

end H2V.Lemmas.ConnNoPanicP
