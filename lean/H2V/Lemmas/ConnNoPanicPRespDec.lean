import H2V.Lemmas.ConnNoPanicPRespRecv
/-
  C08 (no panic) — the client response path, part 4: the three functions that append to a receive queue
  (`Recv::recv_headers`, `recv_trailers`, `recv_data`) decomposed into frame steps and ONE append.
-/
namespace H2V.Lemmas.ConnNoPanicP
open H2V H2V.Model H2V.Model.Conn H2V.Lemmas.ConnCountsP
attribute [local irreducible] wrapSubU32 wrapSubUsize

/-- the hand-over of one event to stream `k` -/
def appendTo (t : Streams) (k : Nat) (e : REvent) : Streams :=
  (t.modStream k fun st => { st with pendingRecv := st.pendingRecv ++ [e] }).modStreamW k Stream.notifyRecv

theorem appendTo_rp {X : List Nat} (t : Streams) (k : Nat) (e : REvent) (hX : k ∈ X) : RP X t (appendTo t k e) := by
  unfold appendTo
  refine RP.trans ?_ (modStreamW_rp _ _ _ (fun x => notifyRecv_rs x))
  exact modStream_rpx _ _ _ (fun _ => rfl) hX

theorem live_modStream {s : Streams} {k j : Nat} (f : Stream → Stream) (h : Live s j) : Live (s.modStream k f) j :=
  (SameKeys.modStream s k f).live.mpr h

theorem notifyRecv_key (x : Stream) : x.notifyRecv.1.key = x.key := (notifyRecv_rs x).key

theorem appendTo_stream {t : Streams} {k : Nat} (hk : Live t k) (e : REvent) :
    ((appendTo t k e).stream k).pendingRecv = (t.stream k).pendingRecv ++ [e] ∧
    ((appendTo t k e).stream k).state = (t.stream k).state ∧
    ((appendTo t k e).stream k).refCount = (t.stream k).refCount := by
  unfold appendTo
  have h1 := stream_modStream_live hk (fun st => { st with pendingRecv := st.pendingRecv ++ [e] }) (fun _ => rfl)
  have hk1 : Live (t.modStream k fun st => { st with pendingRecv := st.pendingRecv ++ [e] }) k := live_modStream _ hk
  have h2 := stream_modStreamW_live hk1 Stream.notifyRecv notifyRecv_key
  rw [h2, h1]
  unfold Stream.notifyRecv
  split <;> exact ⟨rfl, rfl, rfl⟩

theorem notifyPushIfRecvEnded_rp {X : List Nat} (s : Streams) (k : Nat) : RP X s (s.notifyPushIfRecvEnded k) := by
  unfold Streams.notifyPushIfRecvEnded; rp_auto

-- ===================================================================== `Recv::recv_trailers`

theorem recvRecvTrailers_dec {X : List Nat} (s : Streams) (k : Nat) (h : HeadersIn) :
    RP X s (s.recvRecvTrailers k h).1 ∨
    ∃ t e, RP X s t ∧ RP X (appendTo t k e) (s.recvRecvTrailers k h).1 ∧ ∃ st' u, (s.stream k).state.recvClose = (st', .ok u) := by
  unfold Streams.recvRecvTrailers
  split
  · exact .inl (.refl _ _)
  · next st' u heq =>
    dsimp only
    have h1 : RP X s (s.modStream k fun st => { st with state := st' }) :=
      modStream_rp' _ _ _ (setState_rs _ _ (recvClose_str heq))
    split
    · exact .inl h1
    · split
      · exact .inl h1
      · refine .inr ⟨_, .trailers h.fields, h1, ?_, st', u, heq⟩
        unfold appendTo
        exact modStreamW_rp _ _ _ (fun x => notifyPush_rs x)

theorem recvRecvTrailers_rp {X : List Nat} (s : Streams) (k : Nat) (h : HeadersIn) (hX : k ∈ X) :
    RP X s (s.recvRecvTrailers k h).1 := by
  rcases recvRecvTrailers_dec (X := X) s k h with h1 | ⟨t, e, h1, h2, _⟩
  · exact h1
  · exact (h1.trans (appendTo_rp _ _ _ hX)).trans h2

-- ===================================================================== `Recv::recv_data`

theorem decContentLength_rs {x y : Stream} {n : Nat} (h : x.decContentLength n = some y) : RS x y := by
  unfold Stream.decContentLength at h
  split at h
  · split at h
    · cases h; exact ⟨rfl, rfl, Nat.le_refl _, fun h => h⟩
    · cases h
  · split at h
    · cases h
    · cases h; exact RS.refl _
  · cases h; exact RS.refl _

/-- the part of `recv_data` behind `dec_content_length` (copied from the model; `recvRecvData_eq'` is `rfl`) -/
def qdTail (s : Streams) (id : Nat) (payload : Bytes) (eos : Bool) (sz flowLen : Nat) : Streams × Except PErr Unit :=
          let eosRes : Streams × Option PErr :=
            if eos then
              if !(s.stream id).ensureContentLengthZero then (s, some (PErr.libraryReset (s.stream id).id PROTOCOL_ERROR))
              else match (s.stream id).state.recvClose with
                | (_, .error _) => (s, some (PErr.libraryGoAway PROTOCOL_ERROR))
                | (st', .ok _) => (s.modStream id fun st => { st with state := st' }, none)
            else (s, none)
          match eosRes with
          | (s, some e) => (s, .error e)
          | (s, none) =>
            if !(s.stream id).isRecv then ((s.releaseConnectionCapacity sz false).notifyPushIfRecvEnded id, .ok ())
            else
              match (s.stream id).recvFlow.sendData sz with
              | (fl, .error (.reason r)) => (s.modStream id fun st => { st with recvFlow := fl }, .error (PErr.libraryGoAway r))
              | (_, .error .assertFailed) => (s.panic "assertion failed: self.window_size.0 >= sz as i32 (stream recv)", .ok ())
              | (fl, .ok _) =>
                let s := s.modStream id fun st => { st with recvFlow := fl, inFlightRecvData := wrapAddU32 st.inFlightRecvData sz }
                let padding := usizeAsU32 (flowLen - payload.length)
                let s := if padding > 0 then (s.releaseCapacity id padding false).1 else s
                if payload.isEmpty && !eos then (s, .ok ())
                else
                  let s := s.modStream id fun st => { st with pendingRecv := st.pendingRecv ++ [.data payload (!eos)] }
                  ((s.modStreamW id Stream.notifyRecv).notifyPushIfRecvEnded id, .ok ())

def qFlowLen (payload : Bytes) (padLen : Option Nat) : Nat :=
  payload.length + (match padLen with | some p => p + 1 | none => 0)

theorem recvRecvData_eq' (s : Streams) (id : Nat) (payload : Bytes) (eos : Bool) (padLen : Option Nat) :
    s.recvRecvData id payload eos padLen =
      let flowLen := qFlowLen payload padLen
      let s := if flowLen > Generated.Consts.MAX_WINDOW_SIZE then s.panic "assertion failed: sz <= MAX_WINDOW_SIZE" else s
      let sz := usizeAsU32 flowLen
      if !(s.stream id).state.isLocalError && !(s.stream id).state.isRecvStreaming then
        (s, .error (PErr.libraryGoAway PROTOCOL_ERROR))
      else if (s.stream id).state.isLocalError then s.ignoreData sz
      else
        match s.consumeConnectionWindow sz with
        | (s, .error e) => (s, .error e)
        | (s, .ok _) =>
          if (s.stream id).recvFlow.windowSz < sz then (s, .error (PErr.libraryReset (s.stream id).id FLOW_CONTROL_ERROR))
          else
            match (s.stream id).decContentLength payload.length with
            | none => (s, .error (PErr.libraryReset (s.stream id).id PROTOCOL_ERROR))
            | some st1 => qdTail (s.setStream st1) id payload eos sz flowLen := rfl

theorem qdTail_dec {X : List Nat} (s : Streams) (k : Nat) (payload : Bytes) (eos : Bool) (sz flowLen : Nat) :
    RP X s (qdTail s k payload eos sz flowLen).1 ∨
    ∃ t e, RP X s t ∧ RP X (appendTo t k e) (qdTail s k payload eos sz flowLen).1 := by
  unfold qdTail
  dsimp only
  generalize hp : (if eos = true then _ else (s, (none : Option PErr))) = p
  obtain ⟨s1, o⟩ := p
  have h1 : RP X s s1 := by
    split at hp
    · split at hp
      · cases hp; exact .refl _ _
      · split at hp
        · cases hp; exact .refl _ _
        · next st' _ heq => cases hp; exact modStream_rp' _ _ _ (setState_rs _ _ (recvClose_str heq))
    · cases hp; exact .refl _ _
  cases o with
  | some e => exact .inl h1
  | none =>
    dsimp only
    split
    · exact .inl ((h1.trans (releaseConnectionCapacity_rp _ _ _)).trans (notifyPushIfRecvEnded_rp _ _))
    · split
      · left; rp_auto
      · left; rp_auto
      · next fl _ heq =>
        generalize hs3 : (if usizeAsU32 (flowLen - payload.length) > 0 then _ else
          (s1.modStream k fun st => { st with recvFlow := fl, inFlightRecvData := wrapAddU32 st.inFlightRecvData sz })) = s3
        have h3 : RP X s s3 := by rw [← hs3]; rp_auto
        split
        · exact .inl h3
        · refine .inr ⟨s3, .data payload (!eos), h3, ?_⟩
          unfold appendTo
          exact notifyPushIfRecvEnded_rp _ _

theorem recvRecvData_dec {X : List Nat} (s : Streams) (k : Nat) (payload : Bytes) (eos : Bool) (pad : Option Nat) :
    RP X s (s.recvRecvData k payload eos pad).1 ∨
    ∃ t e, RP X s t ∧ RP X (appendTo t k e) (s.recvRecvData k payload eos pad).1 ∧ (s.stream k).state.isRecvStreaming = true := by
  rw [recvRecvData_eq']
  dsimp only
  generalize hs0 : (if qFlowLen payload pad > Generated.Consts.MAX_WINDOW_SIZE then _ else s) = s0
  have h0 : RP X s s0 := by rw [← hs0]; rp_auto
  have hst : s0.stream k = s.stream k := by rw [← hs0]; split; exact panic_stream _ _ _; rfl
  split
  · exact .inl h0
  · next hg =>
    split
    · exact .inl (h0.trans (ignoreData_rp _ _))
    · next hni =>
      have hstr : (s.stream k).state.isRecvStreaming = true := by
        rw [← hst]
        cases h1 : (s0.stream k).state.isRecvStreaming with
        | true => rfl
        | false =>
          cases h2 : (s0.stream k).state.isLocalError with
          | true => exact absurd h2 hni
          | false => rw [h1, h2] at hg; exact absurd rfl hg
      generalize hc : s0.consumeConnectionWindow (usizeAsU32 (qFlowLen payload pad)) = c
      obtain ⟨s1, r1⟩ := c
      have h1 : RP X s s1 := h0.trans (RP.of_fst_eq hc (consumeConnectionWindow_rp _ _))
      cases r1 with
      | error e => exact .inl h1
      | ok u =>
        dsimp only
        split
        · exact .inl h1
        · split
          · exact .inl h1
          · next st1 hdc =>
            have h2 : RP X s (s1.setStream st1) := by
              refine h1.trans (setStream_rp _ _ ?_)
              have := decContentLength_rs hdc
              rw [this.key, stream_key]; exact this
            rcases qdTail_dec (X := X) (s1.setStream st1) k payload eos (usizeAsU32 (qFlowLen payload pad))
                (qFlowLen payload pad) with h3 | ⟨t, e, h3, h4⟩
            · exact .inl (h2.trans h3)
            · exact .inr ⟨t, e, h2.trans h3, h4, hstr⟩

theorem recvRecvData_rp {X : List Nat} (s : Streams) (k : Nat) (payload : Bytes) (eos : Bool) (pad : Option Nat) (hX : k ∈ X) :
    RP X s (s.recvRecvData k payload eos pad).1 := by
  rcases recvRecvData_dec (X := X) s k payload eos pad with h1 | ⟨t, e, h1, h2, _⟩
  · exact h1
  · exact (h1.trans (appendTo_rp _ _ _ hX)).trans h2

-- ===================================================================== `Recv::recv_headers` (client)

/-- stage 0 of `recv_headers`: the state transition alone -/
def qhSt (s : Streams) (k : Nat) (st' : State) : Streams := s.modStream k fun st => { st with state := st' }

def qhRefuse (s : Streams) (k : Nat) (st' : State) (isInitial : Bool) : Bool :=
  isInitial && !((qhSt s k st').stream k).isCounted && !(qhSt s k st').counts.canIncNumRecvStreams

/-- stage 1: the stream is counted -/
def qhPre (s : Streams) (k : Nat) (h : HeadersIn) (st' : State) (isInitial : Bool) : Streams :=
  let s := s.modStream k fun st => { st with state := st' }
  if isInitial && !(s.stream k).isCounted then
    let s := if h.sid > s.recv.lastProcessedId then s.modRecv fun r => { r with lastProcessedId := h.sid } else s
    s.incNumRecvStreams k
  else s

/-- stage 2: `content-length` -/
def qhCl (s : Streams) (id : Nat) (h : HeadersIn) : Streams × Option PErr :=
      if (s.stream id).contentLength != .head then
        match h.fields.find? (fun f => f.1 == Http.str "content-length") with
        | some (_, v :: rest) =>
          match parseU64 v with
          | none => (s, some (PErr.libraryReset (s.stream id).id PROTOCOL_ERROR))
          | some cl =>
            if rest.any (fun o => parseU64 o != some cl) then (s, some (PErr.libraryReset (s.stream id).id PROTOCOL_ERROR))
            else
            let s := s.modStream id fun st => { st with contentLength := .remaining cl }
            let statusNot204304 := match h.status with
              | some st => st != Http.str "204" && st != Http.str "304"
              | none => true
            if h.eos && cl > 0 && statusNot204304 then (s, some (PErr.libraryReset (s.stream id).id PROTOCOL_ERROR)) else (s, none)
        | _ => (s, none)
      else (s, none)

/-- stage 3: the head checks and the hand-over -/
def qhTail (s : Streams) (id : Nat) (h : HeadersIn) (isInitial : Bool) : Streams × RecvHeadersRes :=
      if h.isOverSize then (s, .oversize (s.counts.isServer && isInitial))
      else if h.hasProtocol && s.counts.isServer && !s.recv.isExtendedConnectProtocolEnabled then
        (s, .state (PErr.libraryReset (s.stream id).id PROTOCOL_ERROR))
      else if h.status.isSome && s.counts.isServer then (s, .state (PErr.libraryReset (s.stream id).id PROTOCOL_ERROR))
      else
        let status := h.status.getD (Http.str "200")
        if s.counts.isServer then
          match convertPollMessageServer h with
          | .malformed => (s, .state (PErr.libraryReset (s.stream id).id PROTOCOL_ERROR))
          | .unsupported => (s, .unsupported)
          | .ok method uri =>
            let s := s.modStream id fun st => { st with pendingRecv := st.pendingRecv ++ [.request method uri h.fields] }
            let s := s.modStreamW id Stream.notifyRecv
            let s := s.notifyPushIfRecvEnded id
            ((s.qPush .pendingAccept id).1, .ok)
        else if !h.isInformational then
          let s := s.modStream id fun st => { st with pendingRecv := st.pendingRecv ++ [.headers status h.fields] }
          ((s.modStreamW id Stream.notifyRecv).notifyPushIfRecvEnded id, .ok)
        else
          let s := s.modStream id fun st => { st with pendingRecv := st.pendingRecv ++ [.informational status h.fields] }
          (s.modStreamW id Stream.notifyRecv, .ok)

theorem recvRecvHeaders_eq' (s : Streams) (k : Nat) (h : HeadersIn) :
    s.recvRecvHeaders k h =
      match (s.stream k).state.recvOpen h.eos h.isInformational with
      | (_, .error e) => (s, .state e)
      | (st', .ok isInitial) =>
        if qhRefuse s k st' isInitial then
          (qhSt s k st', .state (PErr.libraryReset ((qhSt s k st').stream k).id REFUSED_STREAM))
        else
        match qhCl (qhPre s k h st' isInitial) k h with
        | (s, some e) => (s, .state e)
        | (s, none) => qhTail s k h isInitial := rfl

theorem qhSt_role (s : Streams) (k : Nat) (st' : State) : (qhSt s k st').counts.isServer = s.counts.isServer := by
  unfold qhSt; rw [modStream_counts]

theorem incNumRecvStreams_role (s : Streams) (k : Nat) : (s.incNumRecvStreams k).counts.isServer = s.counts.isServer := by
  unfold Streams.incNumRecvStreams
  dsimp only
  rw [modStream_counts]
  have hm : ∀ t : Streams, (t.modCounts fun c => { c with numRecvStreams := c.numRecvStreams + 1 }).counts.isServer =
      t.counts.isServer := fun _ => rfl
  rw [hm]
  repeat (first | rfl | rw [panic_counts] | split)

theorem qhPre_role (s : Streams) (k : Nat) (h : HeadersIn) (st' : State) (ini : Bool) :
    (qhPre s k h st' ini).counts.isServer = s.counts.isServer := by
  unfold qhPre
  dsimp only
  split
  · rw [incNumRecvStreams_role]
    split
    · show (Streams.counts (Streams.modStream _ _ _)).isServer = _; rw [modStream_counts]
    · rw [modStream_counts]
  · rw [modStream_counts]
theorem qhCl_role (s : Streams) (k : Nat) (h : HeadersIn) : (qhCl s k h).1.counts.isServer = s.counts.isServer := by
  unfold qhCl
  repeat (first | rfl | (dsimp only; rw [modStream_counts]) | split | dsimp only)

/-- the non-`Ok` answers of `recv_headers` after the state transition, on a client: stream errors -/
inductive HdrErr : RecvHeadersRes → Prop
  | oversize : HdrErr (.oversize false)
  | state (i : Nat) (r : Reason) (init : Initiator) : HdrErr (.state (.reset i r init))

/-- the event a client's `recv_headers` hands over -/
def HdrEv (h : HeadersIn) (e : REvent) : Prop :=
  (∃ a f, e = .headers a f) ∨ (h.isInformational = true ∧ ∃ a f, e = .informational a f)

theorem qhCl_err' (s : Streams) (k : Nat) (h : HeadersIn) :
    (qhCl s k h).2 = none ∨ ∃ i r init, (qhCl s k h).2 = some (.reset i r init) := by
  unfold qhCl
  repeat (first | exact .inl rfl | exact .inr ⟨_, _, _, rfl⟩ | split | dsimp only)

theorem qhCl_err {s s1 : Streams} {k : Nat} {h : HeadersIn} {e : PErr} (hc : qhCl s k h = (s1, some e)) :
    ∃ i r init, e = .reset i r init := by
  rcases qhCl_err' s k h with h1 | ⟨i, r, init, h1⟩
  · rw [hc] at h1; cases h1
  · rw [hc] at h1; cases h1; exact ⟨i, r, init, rfl⟩

theorem qhTail_dec {X : List Nat} (t : Streams) (k : Nat) (h : HeadersIn) (ini : Bool) (hsv : t.counts.isServer = false) :
    ((qhTail t k h ini).1 = t ∧ HdrErr (qhTail t k h ini).2) ∨
    (∃ e, RP X (appendTo t k e) (qhTail t k h ini).1 ∧ (qhTail t k h ini).2 = .ok ∧ HdrEv h e) := by
  unfold qhTail
  simp only [hsv, Bool.false_and, Bool.and_false, Bool.false_eq_true, if_false]
  split
  · exact .inl ⟨rfl, .oversize⟩
  · split
    · refine .inr ⟨.headers (h.status.getD (Http.str "200")) h.fields, ?_, rfl, .inl ⟨_, _, rfl⟩⟩
      unfold appendTo
      exact notifyPushIfRecvEnded_rp _ _
    · next hinf =>
      refine .inr ⟨.informational (h.status.getD (Http.str "200")) h.fields, .refl _ _, rfl, .inr ⟨?_, _, _, rfl⟩⟩
      cases hh : h.isInformational with
      | true => rfl
      | false => rw [hh] at hinf; exact absurd rfl hinf

theorem qhPre_rp {X : List Nat} (s : Streams) (k : Nat) (h : HeadersIn) (st' : State) (ini : Bool) :
    RP X (qhSt s k st') (qhPre s k h st' ini) := by
  unfold qhPre qhSt
  dsimp only
  rp_auto

theorem qhCl_rp {X : List Nat} (u : Streams) (k : Nat) (h : HeadersIn) : RP X u (qhCl u k h).1 := by
  unfold qhCl
  rp_auto

theorem recvOpen_err {st st' : State} {a b : Bool} {e : PErr} (h : st.recvOpen a b = (st', .error e)) :
    e = PErr.libraryGoAway PROTOCOL_ERROR := by
  obtain ⟨i⟩ := st
  unfold State.recvOpen at h
  cases i with
  | «open» l r => cases r <;> first | (cases h; done) | (simp only [Prod.mk.injEq, Except.error.injEq] at h; exact h.2.symm)
  | halfClosedLocal p => cases p <;> first | (cases h; done) | (simp only [Prod.mk.injEq, Except.error.injEq] at h; exact h.2.symm)
  | _ => first | (cases h; done) | (simp only [Prod.mk.injEq, Except.error.injEq] at h; exact h.2.symm)

theorem recvRecvHeaders_dec {X : List Nat} (s : Streams) (k : Nat) (h : HeadersIn) (hsv : s.counts.isServer = false) :
    s.recvRecvHeaders k h = (s, .state (PErr.libraryGoAway PROTOCOL_ERROR)) ∨
    ∃ st' ini, (s.stream k).state.recvOpen h.eos h.isInformational = (st', .ok ini) ∧
      ∃ t, RP X (qhSt s k st') t ∧
        (((s.recvRecvHeaders k h).1 = t ∧ HdrErr (s.recvRecvHeaders k h).2) ∨
         (∃ e, RP X (appendTo t k e) (s.recvRecvHeaders k h).1 ∧ (s.recvRecvHeaders k h).2 = .ok ∧ HdrEv h e)) := by
  rw [recvRecvHeaders_eq']
  split
  · next st' e heq => rw [recvOpen_err heq]; exact .inl rfl
  · next st' ini heq =>
    refine .inr ⟨st', ini, heq, ?_⟩
    split
    · exact ⟨_, .refl _ _, .inl ⟨rfl, by exact HdrErr.state _ _ _⟩⟩
    · have h1 := qhPre_rp (X := X) s k h st' ini
      have h2 := qhCl_rp (X := X) (qhPre s k h st' ini) k h
      have hr : (qhCl (qhPre s k h st' ini) k h).1.counts.isServer = false := by
        rw [qhCl_role, qhPre_role]; exact hsv
      generalize hc : qhCl (qhPre s k h st' ini) k h = c at h2 hr
      obtain ⟨t, o⟩ := c
      cases o with
      | some e =>
        obtain ⟨i, r, init, he⟩ := qhCl_err hc
        subst he
        exact ⟨t, h1.trans h2, .inl ⟨rfl, .state _ _ _⟩⟩
      | none => exact ⟨t, h1.trans h2, qhTail_dec (X := X) t k h ini hr⟩

theorem qhTail_rp {X : List Nat} (t : Streams) (k : Nat) (h : HeadersIn) (ini : Bool) (hX : k ∈ X) :
    RP X t (qhTail t k h ini).1 := by
  have ha : ∀ e, RP X t ((t.modStream k fun st => { st with pendingRecv := st.pendingRecv ++ [e] }).modStreamW k Stream.notifyRecv) :=
    fun e => appendTo_rp t k e hX
  unfold qhTail
  have hb : ∀ e, RP X t (((t.modStream k fun st => { st with pendingRecv := st.pendingRecv ++ [e] }).modStreamW k
      Stream.notifyRecv).notifyPushIfRecvEnded k) := fun e => (ha e).trans (notifyPushIfRecvEnded_rp _ _)
  repeat (first | exact .refl _ _ | exact ha _ | exact hb _ | exact (hb _).trans (qPush_rp _ _ _) | split | dsimp only)

theorem recvRecvHeaders_rp {X : List Nat} (s : Streams) (k : Nat) (h : HeadersIn) (hX : k ∈ X) :
    RP X s (s.recvRecvHeaders k h).1 := by
  rw [recvRecvHeaders_eq']
  split
  · exact .refl _ _
  · next st' ini heq =>
    have h0 : RP X s (qhSt s k st') := by
      unfold qhSt; exact modStream_rpx _ _ _ (fun _ => rfl) hX
    split
    · exact h0
    · have h2 := (h0.trans (qhPre_rp s k h st' ini)).trans (qhCl_rp _ k h)
      generalize qhCl (qhPre s k h st' ini) k h = c at h2
      obtain ⟨t, o⟩ := c
      cases o with
      | some e => exact h2
      | none => exact h2.trans (qhTail_rp t k h ini hX)

end H2V.Lemmas.ConnNoPanicP
