import H2V.Lemmas.ConnNoPanicPTearAcc
/-
  C08 (no panic) — part 12: `Inner::recv_eof`.  The closure of its `for_each` leaves `pending_accept`
  and the `is_pending_accept` flags alone (`*_af` lemmas, proved by peeling like `ev_auto`), so `AccOK`
  of the initial state is still there when `clear_all_pending_accept` runs.
-/
namespace H2V.Lemmas.ConnNoPanicP
open H2V H2V.Model H2V.Model.Conn H2V.Lemmas.ConnCountsP
attribute [local irreducible] wrapSubU32 wrapSubUsize

-- ===================================================================== primitives

theorem accOf {a b : Stream} (h : Same a b) : b.key = a.key ∧ b.isPendingAccept = a.isPendingAccept :=
  ⟨h.key, h.fl .pendingAccept⟩

theorem modStream_af (s : Streams) (k : Nat) (f : Stream → Stream)
    (h : ∀ x, (f x).key = x.key ∧ (f x).isPendingAccept = x.isPendingAccept) : QF .pendingAccept s (s.modStream k f) :=
  QF.modStream _ s k f (fun x => (h x).1) (fun x => (h x).2)

theorem modStreamW_af (s : Streams) (k : Nat) (f : Stream → Stream × List String)
    (h : ∀ x, (f x).1.key = x.key ∧ (f x).1.isPendingAccept = x.isPendingAccept) : QF .pendingAccept s (s.modStreamW k f) :=
  QF.modStreamW _ s k f (fun x => (h x).1) (fun x => (h x).2)

theorem modPrio_af (s : Streams) (f : Prioritize → Prioritize) : QF .pendingAccept s (s.modPrio f) := .of_store_q rfl rfl
theorem modSend_af (s : Streams) (f : Send → Send) : QF .pendingAccept s (s.modSend f) := .of_store_q rfl rfl
theorem modRecv_af (s : Streams) (f : Recv → Recv) (h : ∀ r, (f r).pendingAccept = r.pendingAccept) :
    QF .pendingAccept s (s.modRecv f) := .of_store_q rfl (h _)
theorem modCounts_af (s : Streams) (f : Counts → Counts) : QF .pendingAccept s (s.modCounts f) := .of_store_q rfl rfl
theorem modCountsA_af (s : Streams) (w : String) (f : Counts → Option Counts) : QF .pendingAccept s (s.modCountsA w f) :=
  QF.modCountsA _ _ _ _
theorem wake_af (s : Streams) (t : List String) : QF .pendingAccept s (s.wake t) := .of_store_q rfl rfl
theorem panic_af (s : Streams) (m : String) : QF .pendingAccept s (s.panic m) := QF.panic' _ _ _
theorem unsup_af (s : Streams) (m : String) : QF .pendingAccept s (s.unsup m) := by
  unfold Streams.unsup; split
  · exact .refl _ _
  · exact .of_store_q rfl rfl
theorem notifyTask_af (s : Streams) : QF .pendingAccept s s.notifyTask := by
  unfold Streams.notifyTask; split
  · exact .of_store_q rfl rfl
  · exact .refl _ _
theorem qPush_af (s : Streams) (q : QName) (k : Nat) (h : QName.pendingAccept ≠ q) : QF .pendingAccept s (s.qPush q k).1 :=
  QF.qPush _ _ _ _ h
theorem qPushFront_af (s : Streams) (q : QName) (k : Nat) (h : QName.pendingAccept ≠ q) :
    QF .pendingAccept s (s.qPushFront q k).1 := QF.qPushFront _ _ _ _ h
theorem qPop_af (s : Streams) (q : QName) (h : QName.pendingAccept ≠ q) : QF .pendingAccept s (s.qPop q).1 :=
  QF.qPop _ _ _ h
theorem transitionAfter_af (s : Streams) (k : Nat) (b : Bool) : QF .pendingAccept s (s.transitionAfter k b) :=
  QF.transitionAfter _ _ _ _
theorem decNumStreams_af (s : Streams) (k : Nat) : QF .pendingAccept s (s.decNumStreams k) := QF.decNumStreams _ _ _

/-- side conditions of the lemmas above -/
syntax "af_side" : tactic
macro_rules | `(tactic| af_side) => `(tactic| (intro _; with_reducible exact ⟨rfl, rfl⟩))
macro_rules | `(tactic| af_side) => `(tactic| (intro _; exact accOf (by same_tac)))
macro_rules | `(tactic| af_side) => `(tactic| (intro _; rfl))
macro_rules | `(tactic| af_side) => `(tactic| decide)

open Lean Elab Tactic Meta in
/-- goal `QF .pendingAccept s0 (f … s …)` (possibly under `.1`): peel `f` with the lemma `f_af` found by name -/
elab "af_head" : tactic => withMainContext do
  let g ← getMainGoal
  let t ← instantiateMVars (← g.getType)
  let t := t.cleanupAnnotations
  unless t.isAppOfArity ``QF 3 do throwError "af_head: not a QF goal"
  let e := t.appArg!
  let rec headOf (e : Expr) (fuel : Nat) : Option Name :=
    match fuel with
    | 0 => none
    | fuel + 1 =>
      match e with
      | .proj _ _ b => headOf b fuel
      | .mdata _ b => headOf b fuel
      | _ =>
        match e.getAppFn with
        | .const n _ =>
          if n == ``Prod.fst || n == ``Prod.snd then
            match e.getAppArgs.back? with
            | some a =>
              if a.isAppOfArity ``Prod.mk 4 then
                headOf (if n == ``Prod.fst then a.getAppArgs[2]! else a.getAppArgs[3]!) fuel
              else headOf a fuel
            | none => none
          else some n
        | _ => none
  match headOf e 8 with
  | none => throwError "af_head: no head constant"
  | some n =>
    let last := match n with
      | .str _ s => s
      | _ => "?"
    let lemmaName := (`H2V.Lemmas.ConnNoPanicP).str (last ++ "_af")
    unless (← getEnv).contains lemmaName do throwError "af_head: no lemma {lemmaName}"
    let gs ← g.apply (← mkConstWithFreshMVarLevels ``QF.trans)
    let gs ← gs.filterM fun m => do
      let ty ← instantiateMVars (← m.getType)
      pure (ty.cleanupAnnotations.isAppOfArity ``QF 3)
    match gs with
    | [g1, g2] =>
      let side ← withReducible (g2.apply (← mkConstWithFreshMVarLevels lemmaName))
      replaceMainGoal (g1 :: side)
    | _ => throwError "af_head: unexpected goals after QF.trans"

syntax "af_step" : tactic
macro_rules | `(tactic| af_step) => `(tactic| af_head)
macro_rules | `(tactic| af_step) => `(tactic| with_reducible refine QF.of_fst_eq (by with_reducible assumption) ?_)
macro_rules | `(tactic| af_step) => `(tactic| with_reducible assumption)
macro_rules | `(tactic| af_step) => `(tactic| with_reducible exact QF.refl _ _)

macro "af_auto" : tactic => `(tactic| repeat (first | af_step | af_side | split | dsimp only))
macro "af_auto_ih" ih:ident : tactic =>
  `(tactic| repeat (first | af_step | with_reducible refine QF.trans ?_ ($ih ..) | af_side | split | dsimp only))

-- ===================================================================== prioritize.rs / send.rs / recv.rs, as far as the closures go

theorem tryAssignCapacity_af (s : Streams) (k : Nat) : QF .pendingAccept s (s.tryAssignCapacity k) := by
  unfold Streams.tryAssignCapacity; af_auto

theorem assignConnectionCapacityLoop_af (n : Nat) (s : Streams) : QF .pendingAccept s (Streams.assignConnectionCapacityLoop n s) := by
  induction n generalizing s with
  | zero => exact .refl _ _
  | succ n ih =>
    unfold Streams.assignConnectionCapacityLoop
    af_auto_ih ih

theorem assignConnectionCapacity_af (s : Streams) (inc : Nat) : QF .pendingAccept s (s.assignConnectionCapacity inc) := by
  unfold Streams.assignConnectionCapacity; af_auto

theorem clearQueue_af (s : Streams) (k : Nat) : QF .pendingAccept s (s.clearQueue k) := by
  unfold Streams.clearQueue; af_auto

theorem reclaimAllCapacity_af (s : Streams) (k : Nat) : QF .pendingAccept s (s.reclaimAllCapacity k) := by
  unfold Streams.reclaimAllCapacity; af_auto

theorem sendHandleError_af (s : Streams) (k : Nat) : QF .pendingAccept s (s.sendHandleError k) := by
  unfold Streams.sendHandleError; af_auto

theorem recvRecvEof_af (s : Streams) (k : Nat) : QF .pendingAccept s (s.recvRecvEof k) := by
  unfold Streams.recvRecvEof; af_auto

theorem recvHandleError_af (s : Streams) (k : Nat) (e : PErr) : QF .pendingAccept s (s.recvHandleError k e) := by
  unfold Streams.recvHandleError; af_auto

theorem sendRecvGoAway_af (s : Streams) (l : Nat) : QF .pendingAccept s (s.sendRecvGoAway l).1 := by
  unfold Streams.sendRecvGoAway; af_auto

-- ===================================================================== `counts.transition`, `Store::for_each`

theorem transition_af {α : Type} (s : Streams) (k : Nat) (f : Streams → Streams × α) (hf : ∀ s, QF .pendingAccept s (f s).1) :
    QF .pendingAccept s (s.transition k f).1 := by
  have : (s.transition k f).1 = (f s).1.transitionAfter k (s.stream k).isPendingResetExpiration := by
    unfold Streams.transition; rfl
  rw [this]
  exact (hf s).trans (transitionAfter_af _ _ _)

theorem tryForEach_af (f : Streams → Nat → Streams × Option PErr) (hf : ∀ s k, QF .pendingAccept s (f s k).1) :
    ∀ (fuel i len : Nat) (s : Streams), QF .pendingAccept s (Streams.tryForEach f fuel i len s).1 := by
  intro fuel
  induction fuel with
  | zero => intro i len s; exact .refl _ _
  | succ n ih =>
    intro i len s
    unfold Streams.tryForEach
    split
    · split
      · exact panic_af _ _
      · next id _ =>
        have := hf s id
        split
        · next s' e heq => rw [heq] at this; exact this
        · next s' heq =>
          rw [heq] at this
          dsimp only
          split
          · exact .trans this (ih _ _ _)
          · exact .trans this (ih _ _ _)
    · exact .refl _ _

theorem storeTryForEach_af (s : Streams) (f : Streams → Nat → Streams × Option PErr) (hf : ∀ s k, QF .pendingAccept s (f s k).1) :
    QF .pendingAccept s (s.storeTryForEach f).1 := tryForEach_af f hf _ _ _ s

theorem storeForEach_af (s : Streams) (f : Streams → Nat → Streams) (hf : ∀ s k, QF .pendingAccept s (f s k)) :
    QF .pendingAccept s (s.storeForEach f) := storeTryForEach_af s _ (fun s k => hf s k)

theorem transition_unit_af (s : Streams) (k : Nat) (g : Streams → Streams) (hg : ∀ s, QF .pendingAccept s (g s)) :
    QF .pendingAccept s (s.transition k fun s => (g s, ())).1 := transition_af s k (fun s => (g s, ())) hg

theorem eofClosure_af (s : Streams) (k : Nat) :
    QF .pendingAccept s (s.transition k fun s => ((s.recvRecvEof k).sendHandleError k, ())).1 :=
  transition_unit_af s k (fun s => (s.recvRecvEof k).sendHandleError k)
    (fun s => (recvRecvEof_af s k).trans (sendHandleError_af _ k))

theorem errClosure_af (s : Streams) (k : Nat) (e : PErr) :
    QF .pendingAccept s (s.transition k fun s => ((s.recvHandleError k e).sendHandleError k, ())).1 :=
  transition_unit_af s k (fun s => (s.recvHandleError k e).sendHandleError k)
    (fun s => (recvHandleError_af s k e).trans (sendHandleError_af _ k))

theorem setConnError_af (s : Streams) (o : Option PErr) :
    QF .pendingAccept s { s with actions := { s.actions with connError := o } } := .of_store_q rfl rfl

theorem handleError_af (s : Streams) (err : PErr) : QF .pendingAccept s (s.handleError err).1 := by
  unfold Streams.handleError
  exact (storeForEach_af s _ (fun s k => errClosure_af s k err)).trans (setConnError_af _ _)

theorem recvGoAwayFrame_af (s : Streams) (last : Nat) (r : Reason) (d : Bytes) :
    QF .pendingAccept s (s.recvGoAwayFrame last r d).1 := by
  unfold Streams.recvGoAwayFrame
  have h0 := sendRecvGoAway_af s last
  split
  · next s1 e heq => rw [heq] at h0; exact h0
  · next s1 _ heq =>
    rw [heq] at h0
    refine h0.trans (.trans (storeForEach_af _ _ (fun s k => ?_)) (setConnError_af _ _))
    dsimp only
    split
    · exact errClosure_af _ _ _
    · exact .refl _ _

-- ===================================================================== `Inner::recv_eof`

/-- `recv_eof(clear_pending_accept)`; `AccOK` is only needed when `pending_accept` is cleared -/
theorem recvEof_npe {s : Streams} (h : NPI (fun _ => False) s) (he : ErrOK s) (b : Bool) (ha : b = true → AccOK s) :
    NPE (fun _ => False) (s.recvEof b) := by
  unfold Streams.recvEof
  dsimp only
  generalize hs1 : (if s.actions.connError.isNone = true then _ else s) = s1
  have h1 : NPE (fun _ => False) s1 ∧ QF .pendingAccept s s1 := by
    rw [← hs1]; split
    · exact ⟨setConnError_npe _ h he, setConnError_af _ _⟩
    · exact ⟨⟨h, he⟩, .refl _ _⟩
  have h2 := storeForEach_npe (E := fun _ => False)
    (f := fun s id => (s.transition id fun s => ((s.recvRecvEof id).sendHandleError id, ())).1)
    (fun t k ht hte hk _ => eofClosure_npe k ht hte hk) h1.1.1 h1.1.2
  have a2 := storeForEach_af s1 (fun s id => (s.transition id fun s => ((s.recvRecvEof id).sendHandleError id, ())).1)
    (fun s k => eofClosure_af s k)
  exact clearQueues_npe h2.1 h2.2 b (fun hb => AccOK.of_qf (h1.2.trans a2) (ha hb))

theorem recvEof_npi {s : Streams} (h : NPI (fun _ => False) s) (he : ErrOK s) (b : Bool) (ha : b = true → AccOK s) :
    NPI (fun _ => False) (s.recvEof b) := (recvEof_npe h he b ha).1

/-- `AccOK` survives the teardown functions -/
theorem handleError_accOK {s : Streams} (ha : AccOK s) (err : PErr) : AccOK (s.handleError err).1 :=
  AccOK.of_qf (handleError_af s err) ha
theorem recvGoAwayFrame_accOK {s : Streams} (ha : AccOK s) (last : Nat) (r : Reason) (d : Bytes) :
    AccOK (s.recvGoAwayFrame last r d).1 := AccOK.of_qf (recvGoAwayFrame_af s last r d) ha

theorem recvEof_accOK {s : Streams} (ha : AccOK s) (b : Bool) : AccOK (s.recvEof b) := by
  unfold Streams.recvEof
  dsimp only
  generalize hs1 : (if s.actions.connError.isNone = true then _ else s) = s1
  have h1 : QF .pendingAccept s s1 := by
    rw [← hs1]; split
    · exact setConnError_af _ _
    · exact .refl _ _
  have a2 := storeForEach_af s1 (fun s id => (s.transition id fun s => ((s.recvRecvEof id).sendHandleError id, ())).1)
    (fun s k => eofClosure_af s k)
  exact clearQueues_accOK (AccOK.of_qf (h1.trans a2) ha) b

end H2V.Lemmas.ConnNoPanicP
