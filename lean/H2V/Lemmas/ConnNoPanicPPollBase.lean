import H2V.Lemmas.ConnNoPanicPApi
/-
  C08 (no panic) — part 8 (the write path `Streams::poll_complete`), base: a second frame relation
  `FK` (flags `is_counted` / `is_pending_push` / `is_pending_open` only go down, the first panic message
  is sticky, `in_flight_data_frame` stays or goes from `DataFrame` to `Drop`, the id map only loses
  entries), a name-dispatching peeling tactic
  for it, and the "one flag at most" invariant `Unc` that makes the `assert!(!stream.is_counted)` of
  `inc_num_send_streams` hold in `pop_pending_open` and in `pop_frame`'s PUSH_PROMISE arm.
-/
namespace H2V.Lemmas.ConnNoPanicP
open H2V H2V.Model H2V.Model.Conn H2V.Lemmas.ConnCountsP
attribute [local irreducible] wrapSubU32 wrapSubUsize

-- ===================================================================== per-stream part

/-- the promised ids of the PUSH_PROMISE frames in a `pending_send` list -/
def ppIdsOf (l : List SFrame) : List Nat :=
  l.filterMap fun f => match f with
    | .pushPromise _ pid _ => some pid
    | _ => none

/-- `b` is an update of `a` that keeps the key, raises none of the three flags and queues no new PUSH_PROMISE -/
structure Flg (a b : Stream) : Prop where
  key : b.key = a.key
  c : b.isCounted = true → a.isCounted = true
  pp : b.isPendingPush = true → a.isPendingPush = true
  po : b.isPendingOpen = true → a.isPendingOpen = true
  pps : (ppIdsOf b.pendingSend).Sublist (ppIdsOf a.pendingSend)

theorem Flg.refl (a : Stream) : Flg a a := ⟨rfl, id, id, id, .refl _⟩
theorem Flg.trans {a b c : Stream} (h1 : Flg a b) (h2 : Flg b c) : Flg a c :=
  ⟨h2.key.trans h1.key, fun h => h1.c (h2.c h), fun h => h1.pp (h2.pp h), fun h => h1.po (h2.po h), h2.pps.trans h1.pps⟩

/-- the blank stream a dangling key reads -/
theorem Flg.blank (a : Stream) (k : Nat) (hk : a.key = k) : Flg a { key := k, id := 0 } :=
  ⟨hk.symm, fun h => Bool.noConfusion h, fun h => Bool.noConfusion h, fun h => Bool.noConfusion h, List.nil_sublist _⟩

/-- an update that touches none of `key`, the three flags, `pending_send` -/
theorem Flg.of_fields {a b : Stream} (hk : b.key = a.key) (h1 : b.isCounted = a.isCounted) (h2 : b.isPendingPush = a.isPendingPush)
    (h3 : b.isPendingOpen = a.isPendingOpen) (h4 : b.pendingSend = a.pendingSend) : Flg a b :=
  ⟨hk, fun h => h1 ▸ h, fun h => h2 ▸ h, fun h => h3 ▸ h, by rw [h4]; exact .refl _⟩

macro "flg_fields" : tactic => `(tactic| with_reducible exact Flg.of_fields rfl rfl rfl rfl rfl)

theorem notifySend_flg (x : Stream) : Flg x x.notifySend.1 := by
  unfold Stream.notifySend
  cases h1 : x.sendTask <;> cases h2 : x.openTask <;> simp only [h1, h2] <;> flg_fields
theorem notifyRecv_flg (x : Stream) : Flg x x.notifyRecv.1 := by
  unfold Stream.notifyRecv; split <;> flg_fields
theorem notifyPush_flg (x : Stream) : Flg x x.notifyPush.1 := by
  unfold Stream.notifyPush; split <;> flg_fields
theorem notifyCapacity_flg (x : Stream) : Flg x x.notifyCapacity.1 := by
  unfold Stream.notifyCapacity
  exact Flg.trans (b := { x with sendCapacityInc := true }) (by flg_fields) (notifySend_flg _)
theorem assignCapacity_flg (x : Stream) (a b : Nat) : Flg x (x.assignCapacity a b).1 := by
  unfold Stream.assignCapacity; simp only []; split
  · exact Flg.trans (b := { x with sendFlow := (x.sendFlow.assignCapacity a).1 }) (by flg_fields) (notifyCapacity_flg _)
  · flg_fields
theorem setReset_flg (x : Stream) (r : Reason) (i : Initiator) : Flg x (x.setReset r i).1 := by
  unfold Stream.setReset
  simp only []
  refine Flg.trans (b := { x with state := x.state.setReset x.id r i }) (by flg_fields) ?_
  exact (notifySend_flg _).trans ((notifyPush_flg _).trans (notifyRecv_flg _))
theorem setQueued_flg (x : Stream) (q : QName) (v : Bool) (h : q ≠ .pendingOpen ∨ v = false) : Flg x (x.setQueued q v) := by
  cases q <;> first | exact Flg.of_fields rfl rfl rfl rfl rfl | skip
  rcases h with h | h
  · exact absurd rfl h
  · subst h; exact ⟨rfl, id, id, fun h => Bool.noConfusion h, .refl _⟩

theorem ppIdsOf_cons_sublist (f : SFrame) (l : List SFrame) : (ppIdsOf l).Sublist (ppIdsOf (f :: l)) := by
  unfold ppIdsOf
  exact (List.sublist_cons_self f l).filterMap _

/-- dropping the front frame -/
theorem popRest_flg {x : Stream} {f : SFrame} {rest : List SFrame} (h : x.pendingSend = f :: rest) :
    Flg x { x with pendingSend := rest } :=
  ⟨rfl, id, id, id, by rw [h]; exact ppIdsOf_cons_sublist f rest⟩

/-- proves `Flg x (… x …)` -/
macro "flg_tac" : tactic => `(tactic| with_reducible first
  | exact Flg.of_fields rfl rfl rfl rfl rfl
  | exact ⟨rfl, fun h => Bool.noConfusion h, id, id, List.Sublist.refl _⟩
  | exact ⟨rfl, id, fun h => Bool.noConfusion h, id, List.Sublist.refl _⟩
  | exact ⟨rfl, id, id, id, List.nil_sublist _⟩
  | exact notifySend_flg _ | exact notifyRecv_flg _ | exact notifyPush_flg _ | exact notifyCapacity_flg _
  | exact assignCapacity_flg _ _ _ | exact setReset_flg _ _ _)

-- ===================================================================== the relation

/-- the id map only loses entries -/
def IdsLE (s s' : Streams) : Prop :=
  (s.store.ids.map (·.1)).Nodup →
    (s'.store.ids.map (·.1)).Nodup ∧ ∀ id k, s'.store.findKey? id = some k → s.store.findKey? id = some k

theorem IdsLE.of_eq {s s' : Streams} (h : s'.store.ids = s.store.ids) : IdsLE s s' := by
  intro hn; unfold Store.findKey?; rw [h]; exact ⟨hn, fun _ _ h => h⟩
theorem IdsLE.trans {a b c : Streams} (h1 : IdsLE a b) (h2 : IdsLE b c) : IdsLE a c :=
  fun hn => ⟨(h2 (h1 hn).1).1, fun id k h => (h1 hn).2 id k ((h2 (h1 hn).1).2 id k h)⟩

/-- `in_flight_data_frame` stays, or goes from `DataFrame` to `Drop` (`clear_queue`) -/
def InflLE (a b : InFlightData) : Prop := b = a ∨ (b = .drop ∧ ∃ k, a = .dataFrame k)

theorem InflLE.trans {a b c : InFlightData} (h1 : InflLE a b) (h2 : InflLE b c) : InflLE a c := by
  rcases h2 with e | ⟨e, k, hk⟩
  · rw [e]; exact h1
  · rcases h1 with e1 | ⟨e1, _⟩
    · exact .inr ⟨e, k, by rw [← e1]; exact hk⟩
    · rw [e1] at hk; cases hk

/-- flags of every entry only go down and no PUSH_PROMISE is queued; the first panic message stays;
    `in_flight_data_frame` stays or becomes `Drop`; the id map only loses entries -/
structure FK (s s' : Streams) : Prop where
  fl : ∀ j, Flg (s.stream j) (s'.stream j)
  pk : ∀ m, s.panicked = some m → s'.panicked = some m
  nf : InflLE s.prio.inFlightDataFrame s'.prio.inFlightDataFrame
  ids : IdsLE s s'

theorem FK.refl (s : Streams) : FK s s := ⟨fun _ => Flg.refl _, fun _ h => h, .inl rfl, .of_eq rfl⟩
theorem FK.trans {a b c : Streams} (h1 : FK a b) (h2 : FK b c) : FK a c :=
  ⟨fun j => (h1.fl j).trans (h2.fl j), fun m h => h2.pk m (h1.pk m h), h1.nf.trans h2.nf, h1.ids.trans h2.ids⟩
theorem FK.of_fst_eq {s : Streams} {α : Type} {p : Streams × α} {a : Streams} {x : α}
    (h : p = (a, x)) (e : FK s p.1) : FK s a := by subst h; exact e

theorem FK.of_eqs {s s' : Streams} (h1 : s'.store = s.store) (h2 : s'.panicked = s.panicked)
    (h3 : s'.prio.inFlightDataFrame = s.prio.inFlightDataFrame) : FK s s' :=
  ⟨fun j => by unfold Streams.stream; rw [h1]; exact Flg.refl _, fun m h => h2.trans h, .inl h3, .of_eq (by rw [h1])⟩

theorem panic_prioP (s : Streams) (m : String) : (s.panic m).prio = s.prio := by
  unfold Streams.prio; rw [panic_actions]

theorem panic_fk (s : Streams) (m : String) : FK s (s.panic m) :=
  ⟨fun j => by rw [panic_stream]; exact Flg.refl _,
   fun m' h => by unfold Streams.panic; simp only [h],
   .inl (by rw [panic_prioP]), .of_eq (by rw [panic_store])⟩

theorem wake_fk (s : Streams) (t : List String) : FK s (s.wake t) := .of_eqs rfl rfl rfl
theorem notifyTask_fk (s : Streams) : FK s s.notifyTask := by
  unfold Streams.notifyTask; split
  · exact .of_eqs rfl rfl rfl
  · exact .refl _
theorem modPrio_fk (s : Streams) (f : Prioritize → Prioritize) (h : ∀ p, (f p).inFlightDataFrame = p.inFlightDataFrame) :
    FK s (s.modPrio f) := .of_eqs rfl rfl (h _)
theorem modRecv_fk (s : Streams) (f : Recv → Recv) : FK s (s.modRecv f) := .of_eqs rfl rfl rfl
theorem modSend_fk (s : Streams) (f : Send → Send) (h : ∀ p, (f p).prioritize = p.prioritize) : FK s (s.modSend f) :=
  .of_eqs rfl rfl (by unfold Streams.prio Streams.modSend; rw [h])
theorem modCounts_fk (s : Streams) (f : Counts → Counts) : FK s (s.modCounts f) := .of_eqs rfl rfl rfl
theorem modCountsA_fk (s : Streams) (w : String) (f : Counts → Option Counts) : FK s (s.modCountsA w f) := by
  unfold Streams.modCountsA; split
  · exact .of_eqs rfl rfl rfl
  · exact panic_fk _ _
theorem setQ_fk (s : Streams) (q : QName) (l : List Nat) : FK s (s.setQ q l) :=
  .of_eqs (setQ_store _ _ _) (setQ_panicked _ _ _) (by cases q <;> rfl)
/-- a record update of the fields nothing here looks at -/
theorem setMisc_fk (s : Streams) (a : Actions) (refs leaked : Nat) (wk : List String) (un : Option String)
    (ha : a.send.prioritize = s.actions.send.prioritize) :
    FK s { s with actions := a, refs := refs, recvBufferLeaked := leaked, wakes := wk, unsupported := un } :=
  .of_eqs rfl rfl (by unfold Streams.prio; rw [ha])
theorem setCounts_fk (s : Streams) (c : Counts) : FK s { s with counts := c } := .of_eqs rfl rfl rfl

theorem setStream_fk (s : Streams) (st' : Stream) (h : Flg (s.stream st'.key) st') : FK s (s.setStream st') := by
  refine ⟨fun j => ?_, fun _ h => h, .inl rfl, .of_eq rfl⟩
  rcases setStream_stream s st' j with e | ⟨e, hj, _⟩
  · rw [e]; exact Flg.refl _
  · rw [e, hj]; exact h

theorem modStream_fk (s : Streams) (k : Nat) (f : Stream → Stream) (h : ∀ x, Flg x (f x)) : FK s (s.modStream k f) := by
  unfold Streams.modStream
  split
  · next st hst =>
    refine setStream_fk s _ ?_
    rw [(h st).key, get?_key hst, stream_of_get? hst]; exact h st
  · exact panic_fk _ _

theorem modStreamW_fk (s : Streams) (k : Nat) (f : Stream → Stream × List String) (h : ∀ x, Flg x (f x).1) :
    FK s (s.modStreamW k f) := by
  unfold Streams.modStreamW
  split
  · next st hst =>
    refine (setStream_fk s _ ?_).trans (wake_fk _ _)
    rw [(h st).key, get?_key hst, stream_of_get? hst]; exact h st
  · exact panic_fk _ _

theorem qPush_fk (s : Streams) (q : QName) (k : Nat) (hq : q ≠ .pendingOpen) : FK s (s.qPush q k).1 := by
  unfold Streams.qPush; split
  · exact .refl _
  · exact (modStream_fk _ _ _ (fun x => setQueued_flg x q true (.inl hq))).trans (setQ_fk _ _ _)
theorem qPushFront_fk (s : Streams) (q : QName) (k : Nat) (hq : q ≠ .pendingOpen) : FK s (s.qPushFront q k).1 := by
  unfold Streams.qPushFront; split
  · exact .refl _
  · exact (modStream_fk _ _ _ (fun x => setQueued_flg x q true (.inl hq))).trans (setQ_fk _ _ _)
theorem qPop_fk (s : Streams) (q : QName) : FK s (s.qPop q).1 := by
  unfold Streams.qPop; split
  · exact .refl _
  · exact (setQ_fk _ _ _).trans (modStream_fk _ _ _ (fun x => setQueued_flg x q false (.inr rfl)))

theorem decNumStreams_fk (s : Streams) (k : Nat) : FK s (s.decNumStreams k) := by
  unfold Streams.decNumStreams
  dsimp only
  generalize hs1 : (if (s.stream k).isCounted = true then s else s.panic _) = s1
  have h1 : FK s s1 := by rw [← hs1]; split; exact .refl _; exact panic_fk _ _
  split
  · generalize hs2 : (if s1.counts.numSendStreams > 0 then s1 else s1.panic _) = s2
    have h2 : FK s1 s2 := by rw [← hs2]; split; exact .refl _; exact panic_fk _ _
    exact (h1.trans (h2.trans (modCounts_fk _ _))).trans
      (modStream_fk _ _ _ (fun _ => ⟨rfl, fun h => Bool.noConfusion h, id, id, .refl _⟩))
  · generalize hs2 : (if s1.counts.numRecvStreams > 0 then s1 else s1.panic _) = s2
    have h2 : FK s1 s2 := by rw [← hs2]; split; exact .refl _; exact panic_fk _ _
    exact (h1.trans (h2.trans (modCounts_fk _ _))).trans
      (modStream_fk _ _ _ (fun _ => ⟨rfl, fun h => Bool.noConfusion h, id, id, .refl _⟩))

/-- forgetting a slab entry: its key reads the blank stream from now on -/
theorem remove_fk (s : Streams) (k n : Nat) : FK s { s with store := s.store.remove k, recvBufferLeaked := n } := by
  refine ⟨fun j => ?_, fun _ h => h, .inl rfl, .of_eq rfl⟩
  by_cases hj : j = k
  · subst hj
    have : ({ s with store := s.store.remove j, recvBufferLeaked := n } : Streams).stream j = { key := j, id := 0 } := by
      unfold Streams.stream
      have : (s.store.remove j).get? j = none := by
        unfold Store.remove Store.get?
        refine List.find?_eq_none.mpr ?_
        intro x hx
        have := (List.mem_filter.mp hx).2
        simpa using this
      show ((s.store.remove j).get? j).getD _ = _
      rw [this]; rfl
    rw [this]; exact Flg.blank _ _ (stream_key _ _)
  · have : ({ s with store := s.store.remove k, recvBufferLeaked := n } : Streams).stream j = s.stream j := by
      unfold Streams.stream
      show ((s.store.remove k).get? j).getD _ = _
      rw [get?_remove_ne _ _ _ hj]
    rw [this]; exact Flg.refl _

theorem find?_of_mem_nodupP {l : List (Nat × Nat)} (hnd : (l.map (·.1)).Nodup) {e : Nat × Nat} (he : e ∈ l) :
    l.find? (·.1 == e.1) = some e := by
  induction l with
  | nil => cases he
  | cons a l ih =>
    simp only [List.map_cons, List.nodup_cons] at hnd
    rcases List.mem_cons.mp he with h | h
    · subst h; simp
    · have hne : a.1 ≠ e.1 := fun hh => hnd.1 (hh ▸ List.mem_map.mpr ⟨e, h, rfl⟩)
      rw [List.find?_cons]
      have : (a.1 == e.1) = false := by simpa using hne
      rw [this]; exact ih hnd.2 h

theorem unlink_fk (s : Streams) (id : Nat) : FK s { s with store := s.store.unlink id } := by
  refine ⟨fun j => ?_, fun _ h => h, .inl rfl, ?_⟩
  · have : ({ s with store := s.store.unlink id } : Streams).stream j = s.stream j := rfl
    rw [this]; exact Flg.refl _
  · intro hn
    refine ⟨ConnWakeP.swapRemove_nodup hn _, fun id' k hf => ?_⟩
    unfold Store.findKey? at hf ⊢
    have hids : ({ s with store := s.store.unlink id } : Streams).store.ids = Store.swapRemove s.store.ids id := rfl
    rw [hids] at hf
    cases hx : (Store.swapRemove s.store.ids id).find? (·.1 == id') with
    | none => rw [hx] at hf; cases hf
    | some e =>
      rw [hx] at hf
      have hm := ConnWakeP.mem_of_mem_swapRemove (List.mem_of_find?_eq_some hx)
      have he := List.find?_some hx
      simp only [beq_iff_eq] at he
      rw [← he, find?_of_mem_nodupP hn hm]; exact hf

theorem transitionAfter_fk (s : Streams) (k : Nat) (b : Bool) : FK s (s.transitionAfter k b) := by
  unfold Streams.transitionAfter
  dsimp only
  generalize hs1 : (if (b && !(s.stream k).isPendingResetExpiration) = true then _ else s) = s1
  have h1 : FK s s1 := by rw [← hs1]; split; exact modCountsA_fk _ _ _; exact .refl _
  generalize hs2 : (if (s.stream k).isClosed = true then _ else s1) = s2
  have h2 : FK s s2 := by
    rw [← hs2]; split
    · generalize hs3 : (if (!(s.stream k).isPendingResetExpiration) = true then
          ({ s1 with store := s1.store.unlink (s.stream k).id } : Streams) else s1) = s3
      have h3 : FK s s3 := by rw [← hs3]; split; exact h1.trans (unlink_fk _ _); exact h1
      split
      · exact h3.trans (decNumStreams_fk _ _)
      · exact h3
    · exact h1
  split
  · generalize hs4 : (if (s2.stream k).isCounted = true then s2.decNumStreams k else s2) = s4
    have h4 : FK s s4 := by rw [← hs4]; split; exact h2.trans (decNumStreams_fk _ _); exact h2
    exact h4.trans (remove_fk _ _ _)
  · exact h2

-- ===================================================================== panic stickiness alone

/-- the first panic message stays (what the functions that raise a flag or touch `in_flight_data_frame` keep) -/
structure PK (s s' : Streams) : Prop where
  pk : ∀ m, s.panicked = some m → s'.panicked = some m

theorem PK.refl (s : Streams) : PK s s := ⟨fun _ h => h⟩
theorem PK.trans {a b c : Streams} (h1 : PK a b) (h2 : PK b c) : PK a c := ⟨fun m h => h2.pk m (h1.pk m h)⟩
theorem PK.of_fst_eq {s : Streams} {α : Type} {p : Streams × α} {a : Streams} {x : α}
    (h : p = (a, x)) (e : PK s p.1) : PK s a := by subst h; exact e
theorem FK.toPK {s s' : Streams} (h : FK s s') : PK s s' := ⟨h.pk⟩
theorem PK.of_eq {s s' : Streams} (h : s'.panicked = s.panicked) : PK s s' := ⟨fun _ hm => h.trans hm⟩
theorem setMisc_pk (s : Streams) (a : Actions) (refs leaked : Nat) (wk : List String) (un : Option String) :
    PK s { s with actions := a, refs := refs, recvBufferLeaked := leaked, wakes := wk, unsupported := un } := .of_eq rfl
theorem setCounts_pk (s : Streams) (c : Counts) : PK s { s with counts := c } := .of_eq rfl
theorem modPrio_pk (s : Streams) (f : Prioritize → Prioritize) : PK s (s.modPrio f) := .of_eq rfl
theorem setStream_pk (s : Streams) (st' : Stream) : PK s (s.setStream st') := .of_eq rfl
theorem modStream_pk (s : Streams) (k : Nat) (f : Stream → Stream) : PK s (s.modStream k f) := by
  unfold Streams.modStream; split
  · exact .of_eq rfl
  · exact (panic_fk _ _).toPK
theorem modStreamW_pk (s : Streams) (k : Nat) (f : Stream → Stream × List String) : PK s (s.modStreamW k f) := by
  unfold Streams.modStreamW; split
  · exact .of_eq rfl
  · exact (panic_fk _ _).toPK
theorem qPush_pk (s : Streams) (q : QName) (k : Nat) : PK s (s.qPush q k).1 := by
  unfold Streams.qPush; split
  · exact .refl _
  · exact (modStream_pk _ _ _).trans (setQ_fk _ _ _).toPK
theorem qPushFront_pk (s : Streams) (q : QName) (k : Nat) : PK s (s.qPushFront q k).1 := by
  unfold Streams.qPushFront; split
  · exact .refl _
  · exact (modStream_pk _ _ _).trans (setQ_fk _ _ _).toPK

-- ===================================================================== the peeling tactic (same design as `lt_auto`)

syntax "fk_side" : tactic
macro_rules | `(tactic| fk_side) => `(tactic| (intro _; rfl))
macro_rules | `(tactic| fk_side) => `(tactic| (intro _; flg_tac))
macro_rules | `(tactic| fk_side) => `(tactic| decide)
macro_rules | `(tactic| fk_side) => `(tactic| assumption)

open Lean Elab Tactic Meta in
/-- goal `R s0 (f … s …)` (possibly under `.1`), `R` a binary relation on `Streams` with `R.trans`: peel `f`
    with the lemma `f<sfx>` found by name in this namespace; when `R = PK` and there is no such lemma,
    `f_fk` is used through `FK.toPK` -/
def relHead (rel : Name) (sfx : String) (recordCase : Syntax) : TacticM Unit := withMainContext do
  let g ← getMainGoal
  let t ← instantiateMVars (← g.getType)
  let t := t.cleanupAnnotations
  unless t.isAppOfArity rel 2 do throwError "rel_head: not a goal of the relation"
  let e := t.appArg!
  let rec headOf (e : Expr) (fuel : Nat) : Option Name :=
    match fuel with
    | 0 => none
    | fuel + 1 =>
      match e with
      | .proj _ _ b => headOf b fuel
      | .mdata _ b => headOf b fuel
      | _ =>
        match e.getAppFn with
        | .const n _ =>
          if n == ``Prod.fst || n == ``Prod.snd then
            match e.getAppArgs.back? with
            | some a =>
              if a.isAppOfArity ``Prod.mk 4 then
                headOf (if n == ``Prod.fst then a.getAppArgs[2]! else a.getAppArgs[3]!) fuel
              else headOf a fuel
            | none => none
          else some n
        | _ => none
  match headOf e 8 with
  | none => throwError "rel_head: no head constant"
  | some n =>
    if n == ``Streams.mk then evalTactic recordCase else
    let last := match n with
      | .str _ s => s
      | _ => "?"
    let lemmaName := (`H2V.Lemmas.ConnNoPanicP).str (last ++ sfx)
    let fkName := (`H2V.Lemmas.ConnNoPanicP).str (last ++ "_fk")
    let viaFk := !(← getEnv).contains lemmaName && rel == ``PK && (← getEnv).contains fkName
    unless (← getEnv).contains lemmaName || viaFk do throwError "rel_head: no lemma {lemmaName}"
    let gs ← g.apply (← mkConstWithFreshMVarLevels (rel ++ `trans))
    let gs ← gs.filterM fun m => do
      let ty ← instantiateMVars (← m.getType)
      pure (ty.cleanupAnnotations.isAppOfArity rel 2)
    match gs with
    | [g1, g2] =>
      if viaFk then
        let gs2 ← g2.apply (← mkConstWithFreshMVarLevels ``FK.toPK)
        match gs2 with
        | [g3] =>
          let side ← withReducible (g3.apply (← mkConstWithFreshMVarLevels fkName))
          replaceMainGoal (g1 :: side)
        | _ => throwError "rel_head: unexpected goals after FK.toPK"
      else
        let side ← withReducible (g2.apply (← mkConstWithFreshMVarLevels lemmaName))
        replaceMainGoal (g1 :: side)
    | _ => throwError "rel_head: unexpected goals after trans"

elab "fk_head" : tactic => do
  relHead ``FK "_fk" (← `(tactic| first
    | with_reducible refine FK.trans ?_ (setMisc_fk _ _ _ _ _ _ rfl)
    | with_reducible refine FK.trans ?_ (setCounts_fk _ _)))
elab "pk_head" : tactic => do
  relHead ``PK "_pk" (← `(tactic| first
    | with_reducible refine PK.trans ?_ (setMisc_pk _ _ _ _ _ _)
    | with_reducible refine PK.trans ?_ (setCounts_pk _ _)))

syntax "fk_step" : tactic
macro_rules | `(tactic| fk_step) => `(tactic| fk_head)
macro_rules | `(tactic| fk_step) => `(tactic| with_reducible refine FK.of_fst_eq (by with_reducible assumption) ?_)
macro_rules | `(tactic| fk_step) => `(tactic| with_reducible assumption)
macro_rules | `(tactic| fk_step) => `(tactic| with_reducible exact FK.refl _)

macro "fk_auto" : tactic => `(tactic| repeat (first | fk_step | fk_side | intro _ | split | dsimp only))
macro "fk_auto_ih" ih:ident : tactic =>
  `(tactic| repeat (first | fk_step | with_reducible refine FK.trans ?_ ($ih ..) | fk_side | intro _ | split | dsimp only))

syntax "pk_step" : tactic
macro_rules | `(tactic| pk_step) => `(tactic| pk_head)
macro_rules | `(tactic| pk_step) => `(tactic| with_reducible refine PK.of_fst_eq (by with_reducible assumption) ?_)
macro_rules | `(tactic| pk_step) => `(tactic| with_reducible assumption)
macro_rules | `(tactic| pk_step) => `(tactic| with_reducible exact PK.refl _)

macro "pk_auto" : tactic => `(tactic| repeat (first | pk_step | fk_side | intro _ | split | dsimp only))
macro "pk_auto_ih" ih:ident : tactic =>
  `(tactic| repeat (first | pk_step | with_reducible refine PK.trans ?_ ($ih ..) | fk_side | intro _ | split | dsimp only))

-- ===================================================================== `FK` for prioritize.rs

theorem scheduleSend_fk (s : Streams) (k : Nat) : FK s (s.scheduleSend k) := by
  unfold Streams.scheduleSend; fk_auto
theorem tryAssignCapacity_fk (s : Streams) (k : Nat) : FK s (s.tryAssignCapacity k) := by
  unfold Streams.tryAssignCapacity; fk_auto
theorem assignConnectionCapacityLoop_fk (n : Nat) (s : Streams) : FK s (Streams.assignConnectionCapacityLoop n s) := by
  induction n generalizing s with
  | zero => unfold Streams.assignConnectionCapacityLoop; exact .refl _
  | succ n ih => unfold Streams.assignConnectionCapacityLoop; fk_auto_ih ih
theorem assignConnectionCapacity_fk (s : Streams) (inc : Nat) : FK s (s.assignConnectionCapacity inc) := by
  unfold Streams.assignConnectionCapacity; fk_auto
theorem reclaimAllCapacity_fk (s : Streams) (k : Nat) : FK s (s.reclaimAllCapacity k) := by
  unfold Streams.reclaimAllCapacity; fk_auto

/-- `clear_queue` turns `DataFrame` into `Drop`, never into `Nothing` -/
theorem clearQueue_fk (s : Streams) (k : Nat) : FK s (s.clearQueue k) := by
  unfold Streams.clearQueue
  dsimp only
  generalize hs1 : Streams.modStream s k _ = s1
  have h1 : FK s s1 := by rw [← hs1]; exact modStream_fk _ _ _ (fun _ => ⟨rfl, id, id, id, List.nil_sublist _⟩)
  split
  · next k' hk' =>
    split
    · exact h1.trans ⟨fun j => Flg.refl _, fun _ h => h, .inr ⟨rfl, k', hk'⟩, .of_eq rfl⟩
    · exact h1
  · exact h1

end H2V.Lemmas.ConnNoPanicP
